import Usual.C13.PgLex
/-! C13: the destination-buffer invariant shared by the quoting proofs. -/
namespace UsualProofs.C13
open Usual.C13

/-- `W` is what has been stored at the front of the `N`-byte destination so far, and every store
    so far was inside the destination -/
structure Good (d : Dst) (W : Bytes) (N : Nat) : Prop where
  len : d.buf.length = N
  pre : ∃ T, d.buf = W ++ T
  idx : ∀ i ∈ d.idx, i < N

theorem Good.new (n : Nat) : Good (Dst.new n) [] n :=
  ⟨by simp [Dst.new], ⟨_, rfl⟩, by simp [Dst.new]⟩

theorem Good.le {d W N} (g : Good d W N) : W.length ≤ N := by
  obtain ⟨T, hT⟩ := g.pre
  have := g.len
  rw [hT] at this
  simp at this
  omega

theorem Good.weaken {d A B N} (g : Good d (A ++ B) N) : Good d A N := by
  obtain ⟨T, hT⟩ := g.pre
  exact ⟨g.len, ⟨B ++ T, by simp [hT]⟩, g.idx⟩

theorem Good.nil {d W N} (g : Good d W N) : Good d [] N :=
  Good.weaken (A := []) (B := W) (by simpa using g)

/-- `dst[W.length] = b` extends the stored prefix by one byte -/
theorem Good.put {d W N} (g : Good d W N) (h : W.length < N) (b : Nat) :
    Good (d.put W.length b) (W ++ [b]) N := by
  obtain ⟨T, hT⟩ := g.pre
  have hl := g.len
  rw [hT] at hl
  cases T with
  | nil => simp at hl; omega
  | cons t T' =>
    refine ⟨by simp [Dst.put, g.len], ⟨T', ?_⟩, ?_⟩
    · simp [Dst.put, hT]
    · intro i hi
      simp only [Dst.put, List.mem_cons] at hi
      cases hi with
      | inl h1 => omega
      | inr h1 => exact g.idx i h1

theorem Good.put' {d W N} (g : Good d W N) (p : Nat) (hp : p = W.length) (h : p < N) (b : Nat) :
    Good (d.put p b) (W ++ [b]) N := by
  subst hp; exact g.put h b

/-- the stored prefix followed by a NUL is what `cstr` reads -/
theorem cstrAt_of_prefix (buf P X T : Bytes) (h : buf = P ++ X ++ 0 :: T) (hx : 0 ∉ X) :
    cstrAt buf P.length = X := by
  subst h
  unfold cstrAt
  rw [List.append_assoc, List.drop_left]
  induction X with
  | nil => simp
  | cons x xs ih =>
    have hx0 : x ≠ 0 := by intro e; subst e; simp at hx
    have : 0 ∉ xs := fun hm => hx (List.mem_cons_of_mem _ hm)
    have ih' := ih this
    simp only [List.cons_append, List.takeWhile_cons, ne_eq, hx0, not_false_eq_true, decide_true,
      ↓reduceIte, List.cons.injEq, true_and]
    simpa using ih'

theorem cstr_of_prefix (buf X T : Bytes) (h : buf = X ++ 0 :: T) (hx : 0 ∉ X) : cstr buf = X := by
  have := cstrAt_of_prefix buf [] X T (by simpa using h) hx
  simpa [cstr] using this

theorem terminated_of_prefix (buf X T : Bytes) (h : buf = X ++ 0 :: T) : terminated buf = true := by
  subst h; simp [terminated]

end UsualProofs.C13
