import Usual.C13.PgArray
/-! C13: token structure of an array element as the scanner of `pg_parse_array` sees it, and
    what `parse_value` does on such a range.  Everything is index-based over the fixed block `b`
    (`b.getD i 0` is `pgarr[i]`). -/
namespace UsualProofs.C13
open Usual.C13

/-- all logged read indices are at most `N` -/
def LogLe (log : Log) (N : Nat) : Prop := ∀ i ∈ log, i ≤ N

@[simp] theorem logLe_cons (i : Nat) (log : Log) (N : Nat) :
    LogLe (i :: log) N ↔ i ≤ N ∧ LogLe log N := by
  simp [LogLe]

theorem logLe_nil (N : Nat) : LogLe [] N := by simp [LogLe]

/-- inside of a quoted part: `QToks b i m q` — `b[m]` is the closing `"`, the bytes `i..m-1`
    decode to `q` -/
inductive QToks (b : Bytes) : Nat → Nat → Bytes → Prop where
  | nil (i : Nat) : b.getD i 0 = cDQ → QToks b i i []
  | plain (i m : Nat) (q : Bytes) : b.getD i 0 ≠ cDQ → b.getD i 0 ≠ cBS → b.getD i 0 ≠ 0 →
      QToks b (i + 1) m q → QToks b i m (b.getD i 0 :: q)
  | esc (i m : Nat) (q : Bytes) : b.getD i 0 = cBS → b.getD (i + 1) 0 ≠ 0 →
      QToks b (i + 2) m q → QToks b i m (b.getD (i + 1) 0 :: q)

/-- top level of an element: `Toks b i j o` — the bytes `i..j-1` split into plain bytes (no NUL,
    quote, backslash, comma, closing brace), backslash pairs and quoted parts, and decode to `o` -/
inductive Toks (b : Bytes) : Nat → Nat → Bytes → Prop where
  | nil (i : Nat) : Toks b i i []
  | plain (i j : Nat) (o : Bytes) : b.getD i 0 ≠ 0 → b.getD i 0 ≠ cDQ → b.getD i 0 ≠ cBS →
      b.getD i 0 ≠ cComma → b.getD i 0 ≠ cRBrace → Toks b (i + 1) j o → Toks b i j (b.getD i 0 :: o)
  | esc (i j : Nat) (o : Bytes) : b.getD i 0 = cBS → b.getD (i + 1) 0 ≠ 0 →
      Toks b (i + 2) j o → Toks b i j (b.getD (i + 1) 0 :: o)
  | quo (i m j : Nat) (q o : Bytes) : b.getD i 0 = cDQ → QToks b (i + 1) m q →
      Toks b (m + 1) j o → Toks b i j (q ++ o)

theorem QToks.le {b i m q} (h : QToks b i m q) : i ≤ m := by
  induction h with
  | nil => omega
  | plain _ _ _ _ _ _ _ ih => omega
  | esc _ _ _ _ _ _ ih => omega

theorem QToks.close {b i m q} (h : QToks b i m q) : b.getD m 0 = cDQ := by
  induction h with
  | nil _ h => exact h
  | plain _ _ _ _ _ _ _ ih => exact ih
  | esc _ _ _ _ _ _ ih => exact ih

theorem QToks.head_ne_zero {b i m q} (h : QToks b i m q) : b.getD i 0 ≠ 0 := by
  cases h with
  | nil _ h => rw [h]; decide
  | plain _ _ _ _ _ h3 _ => exact h3
  | esc _ _ _ h1 _ _ => rw [h1]; decide

theorem Toks.le {b i j o} (h : Toks b i j o) : i ≤ j := by
  induction h with
  | nil => omega
  | plain _ _ _ _ _ _ _ _ _ ih => omega
  | esc _ _ _ _ _ _ ih => omega
  | quo _ _ _ _ _ _ hq _ ih => have := hq.le; omega

theorem Toks.append {b i j k o1 o2} (h1 : Toks b i j o1) (h2 : Toks b j k o2) :
    Toks b i k (o1 ++ o2) := by
  induction h1 with
  | nil => simpa using h2
  | plain i j o a1 a2 a3 a4 a5 _ ih => exact Toks.plain i k _ a1 a2 a3 a4 a5 (ih h2)
  | esc i j o a1 a2 _ ih => exact Toks.esc i k _ a1 a2 (ih h2)
  | quo i m j q o a1 hq _ ih =>
    rw [List.append_assoc]
    exact Toks.quo i m k q _ a1 hq (ih h2)

theorem isSpace_plain (c : Nat) (h : isSpace c = true) :
    c ≠ 0 ∧ c ≠ cDQ ∧ c ≠ cBS ∧ c ≠ cComma ∧ c ≠ cRBrace := by
  simp only [isSpace, Bool.or_eq_true, Bool.and_eq_true, decide_eq_true_eq] at h
  simp only [cDQ, cBS, cComma, cRBrace]
  omega

/-- a run of blanks is a run of plain tokens -/
theorem Toks.of_spaces (b : Bytes) (i : Nat) : ∀ (n : Nat), (∀ k, k < n → isSpace (b.getD (i + k) 0) = true) →
    ∃ o, Toks b i (i + n) o := by
  intro n
  induction n generalizing i with
  | zero => intro _; exact ⟨[], by simpa using Toks.nil i⟩
  | succ n ih =>
    intro h
    obtain ⟨o, ho⟩ := ih (i + 1) (fun k hk => by have := h (k + 1) (by omega); rwa [show i + 1 + k = i + (k + 1) by omega])
    have h0 := h 0 (by omega)
    simp only [Nat.add_zero] at h0
    obtain ⟨a1, a2, a3, a4, a5⟩ := isSpace_plain _ h0
    refine ⟨b.getD i 0 :: o, ?_⟩
    rw [show i + (n + 1) = i + 1 + n by omega]
    exact Toks.plain i _ o a1 a2 a3 a4 a5 ho

/-- front inversion: a blank at the front is a plain token -/
theorem Toks.drop_space {b i j o} (h : Toks b i j o) (hij : i < j) (hs : isSpace (b.getD i 0) = true) :
    ∃ o', Toks b (i + 1) j o' := by
  obtain ⟨_, a2, a3, _, _⟩ := isSpace_plain _ hs
  cases h with
  | nil => omega
  | plain _ _ _ _ _ _ _ _ h' => exact ⟨_, h'⟩
  | esc _ _ _ h1 _ _ => exact absurd h1 a3
  | quo _ _ _ _ _ h1 _ _ => exact absurd h1 a2

/-- what can be at the end of a non-empty token run -/
theorem Toks.last {b i k o} (h : Toks b i k o) (hik : i < k) :
    (∃ o', Toks b i (k - 1) o' ∧ b.getD (k - 1) 0 ≠ cBS) ∨
    (∃ o', i + 2 ≤ k ∧ Toks b i (k - 2) o' ∧ b.getD (k - 2) 0 = cBS ∧ b.getD (k - 1) 0 ≠ 0) ∨
    (b.getD (k - 1) 0 = cDQ) := by
  induction h with
  | nil => omega
  | plain i j o a1 a2 a3 a4 a5 h' ih =>
    by_cases hj : i + 1 < j
    · rcases ih hj with ⟨o', t, hb⟩ | ⟨o', hle, t, hb, hz⟩ | hq
      · exact Or.inl ⟨_, Toks.plain i _ o' a1 a2 a3 a4 a5 t, hb⟩
      · exact Or.inr (Or.inl ⟨_, by omega, Toks.plain i _ o' a1 a2 a3 a4 a5 t, hb, hz⟩)
      · exact Or.inr (Or.inr hq)
    · have : j = i + 1 := by have := h'.le; omega
      subst this
      exact Or.inl ⟨[], by simpa using Toks.nil i, by simpa using a3⟩
  | esc i j o a1 a2 h' ih =>
    by_cases hj : i + 2 < j
    · rcases ih hj with ⟨o', t, hb⟩ | ⟨o', hle, t, hb, hz⟩ | hq
      · exact Or.inl ⟨_, Toks.esc i _ o' a1 a2 t, hb⟩
      · exact Or.inr (Or.inl ⟨_, by omega, Toks.esc i _ o' a1 a2 t, hb, hz⟩)
      · exact Or.inr (Or.inr hq)
    · have : j = i + 2 := by have := h'.le; omega
      subst this
      exact Or.inr (Or.inl ⟨[], by omega, by simpa using Toks.nil i, by simpa using a1, by simpa using a2⟩)
  | quo i m j q o a1 hq h' ih =>
    by_cases hj : m + 1 < j
    · rcases ih hj with ⟨o', t, hb⟩ | ⟨o', hle, t, hb, hz⟩ | hq'
      · exact Or.inl ⟨_, Toks.quo i m _ q o' a1 hq t, hb⟩
      · exact Or.inr (Or.inl ⟨_, by have := hq.le; omega, Toks.quo i m _ q o' a1 hq t, hb, hz⟩)
      · exact Or.inr (Or.inr hq')
    · have : j = m + 1 := by have := h'.le; omega
      subst this
      exact Or.inr (Or.inr (by simpa using hq.close))

end UsualProofs.C13
