import UsualProofs.C13.PV
/-! C13: `pg_parse_array (renderArray … ++ [0])` gives back the list — part 1: from the list
    structure of the rendered text to index facts and token runs. -/
namespace UsualProofs.C13
open Usual.C13

theorem getD_mid (A M B : Bytes) (k : Nat) (hk : k < M.length) :
    (A ++ M ++ B).getD (A.length + k) 0 = M.getD k 0 := by
  rw [List.getD_eq_getElem?_getD, List.getD_eq_getElem?_getD, List.append_assoc,
    List.getElem?_append_right (by omega)]
  rw [show A.length + k - A.length = k by omega, List.getElem?_append_left hk]

theorem getD_at (A : Bytes) (c : Nat) (B : Bytes) : (A ++ c :: B).getD A.length 0 = c := by
  have := getD_mid A [c] B 0 (by simp)
  simpa using this

theorem getD_at1 (A : Bytes) (c d : Nat) (B : Bytes) : (A ++ c :: d :: B).getD (A.length + 1) 0 = d := by
  have := getD_mid A [c, d] B 1 (by simp)
  simpa using this

theorem slice_mid (A M B : Bytes) :
    slice (A ++ M ++ B) A.length (A.length + M.length) = M := by
  unfold slice
  rw [show A.length + M.length - A.length = M.length by omega]
  apply List.ext_getElem
  · simp
  · intro i h1 h2
    simp only [List.getElem_map, List.getElem_range]
    rw [getD_mid A M B i (by simpa using h2), List.getD_eq_getElem?_getD]
    simp at h1
    simp [h1]

/-- validity of one rendered character outside quotes -/
def BareCh (c : Ch) : Prop :=
  c.b ≠ 0 ∧ (c.esc = true ∨ (c.b ≠ cDQ ∧ c.b ≠ cBS ∧ c.b ≠ cComma ∧ c.b ≠ cRBrace))
/-- … and inside quotes -/
def QuotedCh (c : Ch) : Prop := c.b ≠ 0 ∧ (c.esc = true ∨ (c.b ≠ cDQ ∧ c.b ≠ cBS))

theorem renderChars_cons_esc (c : Ch) (r : List Ch) (h : c.esc = true) :
    renderChars (c :: r) = cBS :: c.b :: renderChars r := by simp [renderChars, h]
theorem renderChars_cons_plain (c : Ch) (r : List Ch) (h : c.esc = false) :
    renderChars (c :: r) = c.b :: renderChars r := by simp [renderChars, h]

/-- a rendered bare element is a token run decoding to its characters -/
theorem toks_of_bare (b : Bytes) : ∀ (cs : List Ch) (A B : Bytes), b = A ++ renderChars cs ++ B →
    (∀ c ∈ cs, BareCh c) →
    Toks b A.length (A.length + (renderChars cs).length) (cs.map (·.b)) := by
  intro cs
  induction cs with
  | nil => intro A B _ _; simpa [renderChars] using Toks.nil A.length
  | cons c r ih =>
    intro A B hb hv
    have hc := hv c (by simp)
    have hr : ∀ c ∈ r, BareCh c := fun x hx => hv x (by simp [hx])
    cases he : c.esc with
    | true =>
      rw [renderChars_cons_esc c r he] at hb ⊢
      have h1 : b.getD A.length 0 = cBS := by rw [hb]; simp [getD_at]
      have h2 : b.getD (A.length + 1) 0 = c.b := by rw [hb]; simp [getD_at1]
      have := ih (A ++ [cBS, c.b]) B (by rw [hb]; simp) hr
      simp only [List.length_append, List.length_cons, List.length_nil] at this
      have t := Toks.esc A.length (A.length + (2 + (renderChars r).length)) _ h1 (by rw [h2]; exact hc.1)
        (by rw [show A.length + 2 = A.length + (0 + 1 + 1) by omega, show A.length + (2 + (renderChars r).length) = A.length + (0 + 1 + 1) + (renderChars r).length by omega]; exact this)
      rw [h2] at t
      have e : A.length + (cBS :: c.b :: renderChars r).length = A.length + (2 + (renderChars r).length) := by
        simp only [List.length_cons]; omega
      rw [e, List.map_cons]; exact t
    | false =>
      rw [renderChars_cons_plain c r he] at hb ⊢
      have h1 : b.getD A.length 0 = c.b := by rw [hb]; simp [getD_at]
      have hp := hc.2
      simp only [he, Bool.false_eq_true, false_or] at hp
      have := ih (A ++ [c.b]) B (by rw [hb]; simp) hr
      simp only [List.length_append, List.length_cons, List.length_nil] at this
      have t := Toks.plain A.length (A.length + (1 + (renderChars r).length)) _
        (by rw [h1]; exact hc.1) (by rw [h1]; exact hp.1) (by rw [h1]; exact hp.2.1)
        (by rw [h1]; exact hp.2.2.1) (by rw [h1]; exact hp.2.2.2)
        (by rw [show A.length + (1 + (renderChars r).length) = A.length + (0 + 1) + (renderChars r).length by omega]; exact this)
      rw [h1] at t
      have e : A.length + (c.b :: renderChars r).length = A.length + (1 + (renderChars r).length) := by
        simp only [List.length_cons]; omega
      rw [e, List.map_cons]; exact t

/-- the inside of a rendered quoted element, up to the closing quote -/
theorem qtoks_of_quoted (b : Bytes) : ∀ (cs : List Ch) (A B : Bytes), b = A ++ renderChars cs ++ cDQ :: B →
    (∀ c ∈ cs, QuotedCh c) →
    QToks b A.length (A.length + (renderChars cs).length) (cs.map (·.b)) := by
  intro cs
  induction cs with
  | nil =>
    intro A B hb _
    have : b.getD A.length 0 = cDQ := by rw [hb]; simp [renderChars, getD_at]
    simpa [renderChars] using QToks.nil A.length this
  | cons c r ih =>
    intro A B hb hv
    have hc := hv c (by simp)
    have hr : ∀ c ∈ r, QuotedCh c := fun x hx => hv x (by simp [hx])
    cases he : c.esc with
    | true =>
      rw [renderChars_cons_esc c r he] at hb ⊢
      have h1 : b.getD A.length 0 = cBS := by rw [hb]; simp [getD_at]
      have h2 : b.getD (A.length + 1) 0 = c.b := by rw [hb]; simp [getD_at1]
      have := ih (A ++ [cBS, c.b]) B (by rw [hb]; simp) hr
      simp only [List.length_append, List.length_cons, List.length_nil] at this
      have t := QToks.esc A.length (A.length + (2 + (renderChars r).length)) _ h1 (by rw [h2]; exact hc.1)
        (by rw [show A.length + 2 = A.length + (0 + 1 + 1) by omega, show A.length + (2 + (renderChars r).length) = A.length + (0 + 1 + 1) + (renderChars r).length by omega]; exact this)
      rw [h2] at t
      have e : A.length + (cBS :: c.b :: renderChars r).length = A.length + (2 + (renderChars r).length) := by
        simp only [List.length_cons]; omega
      rw [e, List.map_cons]; exact t
    | false =>
      rw [renderChars_cons_plain c r he] at hb ⊢
      have h1 : b.getD A.length 0 = c.b := by rw [hb]; simp [getD_at]
      have hp := hc.2
      simp only [he, Bool.false_eq_true, false_or] at hp
      have := ih (A ++ [c.b]) B (by rw [hb]; simp) hr
      simp only [List.length_append, List.length_cons, List.length_nil] at this
      have t := QToks.plain A.length (A.length + (1 + (renderChars r).length)) _
        (by rw [h1]; exact hp.1) (by rw [h1]; exact hp.2) (by rw [h1]; exact hc.1)
        (by rw [show A.length + (1 + (renderChars r).length) = A.length + (0 + 1) + (renderChars r).length by omega]; exact this)
      rw [h1] at t
      have e : A.length + (c.b :: renderChars r).length = A.length + (1 + (renderChars r).length) := by
        simp only [List.length_cons]; omega
      rw [e, List.map_cons]; exact t

end UsualProofs.C13

namespace UsualProofs.C13
open Usual.C13

theorem lt_length_of_getD_ne (b : Bytes) (i : Nat) (h : b.getD i 0 ≠ 0) : i < b.length := by
  apply Classical.byContradiction
  intro hc
  apply h
  rw [List.getD_eq_getElem?_getD, List.getElem?_eq_none (by omega)]
  rfl

/-- the scanner accepts the inside of a well-formed quoted part -/
theorem scanQ_progress (b : Bytes) {s m : Nat} {q : Bytes} (h : QToks b s m q) :
    ∀ (fuel : Nat) (log : Log), m - s < fuel → ∃ log', scanQ true b fuel s log = (.ok (m + 1), log') := by
  induction h with
  | nil i hq =>
    intro fuel log hf
    cases fuel with
    | zero => omega
    | succ f => exact ⟨i :: log, by simp only [scanQ, hq, ↓reduceIte]⟩
  | plain i m q a1 a2 a3 t ih =>
    intro fuel log hf
    have := t.le
    cases fuel with
    | zero => omega
    | succ f =>
      obtain ⟨log', h1⟩ := ih f ((i + 1) :: i :: log) (by omega)
      have hz := t.head_ne_zero
      exact ⟨log', by simp only [scanQ, a1, a2, a3, hz, ↓reduceIte, and_false]; exact h1⟩
  | esc i m q a1 a2 t ih =>
    intro fuel log hf
    have := t.le
    cases fuel with
    | zero => omega
    | succ f =>
      obtain ⟨log', h1⟩ := ih f ((i + 1) :: i :: log) (by omega)
      have hne : cBS ≠ cDQ := by decide
      have hne0 : cBS ≠ 0 := by decide
      exact ⟨log', by simp only [scanQ, a1, a2, hne, hne0, ↓reduceIte, and_false]; exact h1⟩

/-- the scanner walks over a token run without touching the list -/
theorem scan_progress (b : Bytes) {s e : Nat} {o : Bytes} (h : Toks b s e o) :
    s < e → ∀ (fuel : Nat) (val : Option Nat) (lst : List (Option Bytes)) (log : Log), e - s < fuel →
    ∃ fuel' log', fuel + s ≤ fuel' + e ∧
      scan true b fuel s val lst log = scan true b fuel' e (some (val.getD s)) lst log' := by
  induction h with
  | nil i => intro h; omega
  | plain i j o a1 a2 a3 a4 a5 t ih =>
    intro _ fuel val lst log hf
    have := t.le
    cases fuel with
    | zero => omega
    | succ f =>
      have step : scan true b (f + 1) i val lst log =
          scan true b f (i + 1) (some (val.getD i)) lst (i :: log) := by
        simp only [scan, a1, a2, a3, a4, a5, ↓reduceIte]
      by_cases hj : i + 1 < j
      · obtain ⟨fuel', log', h1, h2⟩ := ih hj f (some (val.getD i)) lst (i :: log) (by omega)
        exact ⟨fuel', log', by omega, by rw [step, h2]; simp⟩
      · have : j = i + 1 := by omega
        subst this
        exact ⟨f, _, by omega, step⟩
  | esc i j o a1 a2 t ih =>
    intro _ fuel val lst log hf
    have := t.le
    cases fuel with
    | zero => omega
    | succ f =>
      have e0 : cBS ≠ 0 := by decide
      have e1 : cBS ≠ cRBrace := by decide
      have e2 : cBS ≠ cComma := by decide
      have e3 : cBS ≠ cDQ := by decide
      have step : scan true b (f + 1) i val lst log =
          scan true b f (i + 2) (some (val.getD i)) lst ((i + 1) :: i :: log) := by
        simp only [scan, a1, a2, e0, e1, e2, e3, ↓reduceIte]
      by_cases hj : i + 2 < j
      · obtain ⟨fuel', log', h1, h2⟩ := ih hj f (some (val.getD i)) lst _ (by omega)
        exact ⟨fuel', log', by omega, by rw [step, h2]; simp⟩
      · have : j = i + 2 := by omega
        subst this
        exact ⟨f, _, by omega, step⟩
  | quo i m j q o a1 hq t ih =>
    intro _ fuel val lst log hf
    have := t.le
    have := hq.le
    cases fuel with
    | zero => omega
    | succ f =>
      have e0 : cDQ ≠ 0 := by decide
      have e1 : cDQ ≠ cRBrace := by decide
      have e2 : cDQ ≠ cComma := by decide
      have hm : m < b.length := lt_length_of_getD_ne b m (by rw [hq.close]; exact e0)
      obtain ⟨logq, hsq⟩ := scanQ_progress b hq (b.length + 1) (i :: log) (by omega)
      have step : scan true b (f + 1) i val lst log =
          scan true b f (m + 1) (some (val.getD i)) lst logq := by
        simp only [scan, a1, e0, e1, e2, ↓reduceIte, hsq]
      by_cases hj : m + 1 < j
      · obtain ⟨fuel', log', h1, h2⟩ := ih hj f (some (val.getD i)) lst _ (by omega)
        exact ⟨fuel', log', by omega, by rw [step, h2]; simp⟩
      · have : j = m + 1 := by omega
        subst this
        exact ⟨f, _, by omega, step⟩

end UsualProofs.C13

namespace UsualProofs.C13
open Usual.C13

theorem headD_eq_getD (l : Bytes) : l.headD 0 = l.getD 0 0 := by cases l <;> rfl

theorem getLastD_eq_getD (l : Bytes) : l.getLastD 0 = l.getD (l.length - 1) 0 := by
  induction l with
  | nil => rfl
  | cons a r ih =>
    cases r with
    | nil => rfl
    | cons c r' =>
      simp only [List.getLastD_cons] at ih ⊢
      rw [ih]
      simp

theorem trimL_eq (b : Bytes) (val v1 vend : Nat) (log : Log) (h1 : val ≤ v1) (h2 : v1 < vend)
    (hs : ∀ i, val ≤ i → i < v1 → isSpace (b.getD i 0) = true) (hn : isSpace (b.getD v1 0) = false) :
    (trimL b (vend - val) val vend log).1 = v1 := by
  obtain ⟨a1, a2, a3, a4, _⟩ := trimL_spec b (vend - val) val vend log (by omega) (by omega)
  generalize (trimL b (vend - val) val vend log).1 = r at *
  apply Classical.byContradiction
  intro hne
  by_cases hlt : r < v1
  · have := a4 (by omega)
    rw [hs r a1 hlt] at this
    cases this
  · have := a3 v1 h1 (by omega)
    rw [hn] at this
    cases this

theorem trimR_eq (b : Bytes) (val e1 vend : Nat) (log : Log) (h1 : val < e1) (h2 : e1 ≤ vend)
    (hs : ∀ i, e1 ≤ i → i < vend → isSpace (b.getD i 0) = true)
    (hn : isSpace (b.getD (e1 - 1) 0) = false) :
    (trimR b (vend - val) val vend log).1 = e1 := by
  obtain ⟨a1, a2, a3, a4, _⟩ := trimR_spec b (vend - val) val vend log (by omega) (by omega)
  generalize (trimR b (vend - val) val vend log).1 = r at *
  apply Classical.byContradiction
  intro hne
  by_cases hlt : e1 < r
  · have := a4 (by omega)
    rw [hs (r - 1) (by omega) (by omega)] at this
    cases this
  · have := a3 (e1 - 1) (by omega) (by omega)
    rw [hn] at this
    cases this

theorem null_letter (c : Nat) (h : lower c = 110 ∨ lower c = 117 ∨ lower c = 108) :
    BareCh ⟨c, false⟩ ∧ isSpace c = false := by
  unfold lower at h
  have hc : c = 110 ∨ c = 78 ∨ c = 117 ∨ c = 85 ∨ c = 108 ∨ c = 76 := by
    split at h <;> omega
  rcases hc with h | h | h | h | h | h <;> subst h <;> exact ⟨⟨by decide, Or.inr (by decide)⟩, by decide⟩

theorem nullWord_letters (sp : Bytes) (h : isNullWord sp = true) :
    sp.length = 4 ∧ ∀ c ∈ sp, lower c = 110 ∨ lower c = 117 ∨ lower c = 108 := by
  simp only [isNullWord, Bool.and_eq_true, decide_eq_true_eq] at h
  obtain ⟨hl, hm⟩ := h
  refine ⟨hl, ?_⟩
  intro c hc
  have : lower c ∈ sp.map lower := List.mem_map_of_mem hc
  rw [hm] at this
  simp at this
  omega

theorem renderChars_plain (sp : Bytes) : renderChars (sp.map (fun c => ⟨c, false⟩)) = sp := by
  induction sp with
  | nil => rfl
  | cons c r ih => simp [renderChars, ih]

end UsualProofs.C13

namespace UsualProofs.C13
open Usual.C13

theorem getLastD_mem (l : Bytes) (h : l ≠ []) : l.getLastD 0 ∈ l := by
  induction l with
  | nil => exact absurd rfl h
  | cons a r ih =>
    cases r with
    | nil => simp
    | cons c r' =>
      simp only [List.getLastD_cons] at ih ⊢
      exact List.mem_cons_of_mem _ (ih (by simp))

theorem getLastD_snoc (l : Bytes) (c : Nat) : (l ++ [c]).getLastD 0 = c := by
  induction l with
  | nil => rfl
  | cons a r ih =>
    cases r with
    | nil => rfl
    | cons d r' =>
      simp only [List.cons_append, List.getLastD_cons] at ih ⊢
      exact ih

/-- what a valid element text placed at `A.length` of the block provides -/
theorem elem_facts (b A B : Bytes) (e : Elem) (hv : e.valid = true) (hb : b = A ++ e.text ++ B)
    (hlastns : isSpace (e.text.getLastD 0) = false) :
    A.length < A.length + e.text.length ∧
    isSpace (b.getD A.length 0) = false ∧
    isSpace (b.getD (A.length + e.text.length - 1) 0) = false ∧
    (∃ o, Toks b A.length (A.length + e.text.length) o ∧ (∀ x, e.value = some x → o = x)) ∧
    (e.value = none → isNullWord e.text = true) ∧
    (∀ x, e.value = some x → isNullWord e.text = false) := by
  have hfirst : ∀ (h : 0 < e.text.length), b.getD A.length 0 = e.text.headD 0 := by
    intro h
    have := getD_mid A e.text B 0 h
    rw [headD_eq_getD, ← this, hb]; rfl
  have hlast : ∀ (h : 0 < e.text.length), b.getD (A.length + e.text.length - 1) 0 = e.text.getLastD 0 := by
    intro h
    have := getD_mid A e.text B (e.text.length - 1) (by omega)
    rw [getLastD_eq_getD, ← this, hb]
    congr 1; omega
  cases e with
  | null sp =>
    simp only [Elem.valid] at hv
    obtain ⟨hl, hlet⟩ := nullWord_letters sp hv
    simp only [Elem.text] at hb hfirst hlast ⊢
    have hpos : 0 < sp.length := by omega
    have hbare : ∀ c ∈ sp.map (fun c => (⟨c, false⟩ : Ch)), BareCh c := by
      intro c hc
      simp only [List.mem_map] at hc
      obtain ⟨x, hx, rfl⟩ := hc
      exact (null_letter x (hlet x hx)).1
    have t := toks_of_bare b (sp.map (fun c => ⟨c, false⟩)) A B (by rw [renderChars_plain]; exact hb) hbare
    rw [renderChars_plain] at t
    refine ⟨by omega, ?_, ?_, ⟨_, t, by simp [Elem.value]⟩, fun _ => hv, by simp [Elem.value]⟩
    · rw [hfirst hpos]
      cases sp with
      | nil => simp at hl
      | cons c r => exact (null_letter c (hlet c (by simp))).2
    · rw [hlast hpos]
      have hne : sp ≠ [] := by intro h; rw [h] at hl; simp at hl
      have hmem : sp.getLastD 0 ∈ sp := getLastD_mem sp hne
      exact (null_letter _ (hlet _ hmem)).2
  | bare cs =>
    simp only [Elem.valid, Bool.and_eq_true, decide_eq_true_eq, Bool.not_eq_eq_eq_not, Bool.not_true,
      List.all_eq_true, Bool.or_eq_true] at hv
    obtain ⟨hne, hall, hf, _, hnull⟩ := hv
    simp only [Elem.text] at hb hfirst hlast hlastns ⊢
    have hpos : 0 < (renderChars cs).length := by
      cases cs with
      | nil => exact absurd rfl hne
      | cons c r => unfold renderChars; split <;> simp
    have hbare : ∀ c ∈ cs, BareCh c := by
      intro c hc
      have := hall c hc
      simp only [ne_eq, decide_not, Bool.and_eq_true, Bool.not_eq_eq_eq_not, Bool.not_true,
        decide_eq_false_iff_not, Bool.or_eq_true, decide_eq_true_eq] at this
      exact ⟨this.1, this.2⟩
    have t := toks_of_bare b cs A B hb hbare
    refine ⟨by omega, by rw [hfirst hpos]; exact hf, by rw [hlast hpos]; exact hlastns,
      ⟨_, t, by simp [Elem.value]⟩, by simp [Elem.value], fun _ _ => hnull⟩
  | quoted cs =>
    simp only [Elem.valid, List.all_eq_true] at hv
    simp only [Elem.text] at hb hfirst hlast ⊢
    have hq : ∀ c ∈ cs, QuotedCh c := by
      intro c hc
      have := hv c hc
      simp only [ne_eq, decide_not, Bool.and_eq_true, Bool.not_eq_eq_eq_not, Bool.not_true,
        decide_eq_false_iff_not, Bool.or_eq_true, decide_eq_true_eq] at this
      exact ⟨this.1, this.2⟩
    have hpos : 0 < (cDQ :: (renderChars cs ++ [cDQ])).length := by simp
    have h1 : b.getD A.length 0 = cDQ := by rw [hfirst hpos]; rfl
    have qt := qtoks_of_quoted b cs (A ++ [cDQ]) B (by rw [hb]; simp) hq
    simp only [List.length_append, List.length_cons, List.length_nil] at qt
    have t : Toks b A.length (A.length + (cDQ :: (renderChars cs ++ [cDQ])).length) (cs.map (·.b) ++ []) := by
      refine Toks.quo A.length (A.length + 1 + (renderChars cs).length) _ _ [] h1 (by simpa using qt) ?_
      have : A.length + (cDQ :: (renderChars cs ++ [cDQ])).length = A.length + 1 + (renderChars cs).length + 1 := by
        simp; omega
      rw [this]
      exact Toks.nil _
    refine ⟨by omega, by rw [h1]; decide, ?_, ⟨_, t, by simp [Elem.value]⟩, by simp [Elem.value], ?_⟩
    · rw [hlast hpos]
      have : (cDQ :: (renderChars cs ++ [cDQ])).getLastD 0 = cDQ :=
        getLastD_snoc (cDQ :: renderChars cs) cDQ
      rw [this]; decide
    · intro _ _
      simp [isNullWord, lower, cDQ]

end UsualProofs.C13

namespace UsualProofs.C13
open Usual.C13

theorem all_getD (l : Bytes) (p : Nat → Bool) (h : l.all p = true) (k : Nat) (hk : k < l.length) :
    p (l.getD k 0) = true := by
  rw [List.getD_eq_getElem?_getD, List.getElem?_eq_getElem hk]
  exact List.all_eq_true.mp h _ (List.getElem_mem hk)

theorem renderChars_append (a c : List Ch) : renderChars (a ++ c) = renderChars a ++ renderChars c := by
  induction a with
  | nil => rfl
  | cons x r ih => cases he : x.esc <;> simp [renderChars, he, ih]

theorem exists_snoc {α : Type} : ∀ (l : List α), l ≠ [] → ∃ dl c, l = dl ++ [c]
  | [], h => absurd rfl h
  | [a], _ => ⟨[], a, rfl⟩
  | a :: b :: r, _ => by
    obtain ⟨dl, c, h⟩ := exists_snoc (b :: r) (by simp)
    exact ⟨a :: dl, c, by rw [h]; rfl⟩

theorem nullWord_snoc_bs (X : Bytes) : isNullWord (X ++ [cBS]) = false := by
  cases h : isNullWord (X ++ [cBS]) with
  | false => rfl
  | true =>
    simp only [isNullWord, Bool.and_eq_true, decide_eq_true_eq, List.map_append, List.map_cons,
      List.map_nil] at h
    have := congrArg List.reverse h.2
    simp [lower, cBS] at this

/-- a valid bare element whose text ends in a blank ends in an *escaped* blank -/
theorem bare_dangling (cs : List Ch) (hne : cs ≠ []) (hl : lastOk cs = true)
    (hsp : isSpace ((renderChars cs).getLastD 0) = true) :
    ∃ cs' w, cs = cs' ++ [⟨w, true⟩] ∧ isSpace w = true := by
  obtain ⟨dl, c, hcs⟩ := exists_snoc cs hne
  subst hcs
  have hlast : (renderChars (dl ++ [c])).getLastD 0 = c.b := by
    rw [renderChars_append]
    cases he : c.esc with
    | true =>
      have : renderChars [c] = [cBS] ++ [c.b] := by simp [renderChars, he]
      rw [this, ← List.append_assoc]; exact getLastD_snoc _ _
    | false =>
      have : renderChars [c] = [c.b] := by simp [renderChars, he]
      rw [this]; exact getLastD_snoc _ _
  rw [hlast] at hsp
  simp only [lastOk, List.getLast?_append, List.getLast?_singleton, Option.some_or, Bool.or_eq_true,
    Bool.not_eq_eq_eq_not, Bool.not_true] at hl
  rw [hsp] at hl
  have he : c.esc = true := by simpa using hl
  refine ⟨dl, c.b, ?_, hsp⟩
  congr 2
  cases c; simp_all

/-- one item (blanks, element, blanks) placed at `A.length`: the scanner sees a token run and
    `parse_value` on its range yields the element's value -/
theorem item_spec (b A B : Bytes) (it : Item) (hv : it.valid = true) (hb : b = A ++ it.text ++ B)
    (hlen : A.length + it.text.length ≤ b.length) :
    (∃ o, Toks b A.length (A.length + it.text.length) o) ∧ 0 < it.text.length ∧
    ∀ log, (parseValue b A.length (A.length + it.text.length) log).1 = .ok it.e.value := by
  simp only [Item.valid, Bool.and_eq_true, decide_eq_true_eq] at hv
  obtain ⟨hpre, hpost, hev⟩ := hv
  have hb1 : b = (A ++ it.pre) ++ it.e.text ++ (it.post ++ B) := by
    rw [hb]; simp [Item.text, List.append_assoc]
  have hb2 : b = A ++ it.pre ++ (it.e.text ++ it.post ++ B) := by
    rw [hb]; simp [Item.text, List.append_assoc]
  have hb3 : b = (A ++ it.pre ++ it.e.text) ++ it.post ++ B := by
    rw [hb]; simp [Item.text, List.append_assoc]
  have htl : it.text.length = it.pre.length + it.e.text.length + it.post.length := by
    simp [Item.text]; omega
  have sp1 : ∀ i, A.length ≤ i → i < A.length + it.pre.length → isSpace (b.getD i 0) = true := by
    intro i h1 h2
    have := getD_mid A it.pre (it.e.text ++ it.post ++ B) (i - A.length) (by omega)
    rw [← hb2, show A.length + (i - A.length) = i by omega] at this
    rw [this]
    exact all_getD it.pre isSpace hpre _ (by omega)
  have sp2 : ∀ i, A.length + it.pre.length + it.e.text.length ≤ i → i < A.length + it.text.length →
      isSpace (b.getD i 0) = true := by
    intro i h1 h2
    have := getD_mid (A ++ it.pre ++ it.e.text) it.post B (i - (A.length + it.pre.length + it.e.text.length)) (by omega)
    rw [← hb3] at this
    simp only [List.length_append] at this
    rw [show A.length + it.pre.length + it.e.text.length + (i - (A.length + it.pre.length + it.e.text.length)) = i by omega] at this
    rw [this]
    exact all_getD it.post isSpace hpost _ (by omega)
  have hsl : ∀ (M R : Bytes), it.e.text = M ++ R →
      slice b (A.length + it.pre.length) (A.length + it.pre.length + M.length) = M := by
    intro M R hM
    have := slice_mid (A ++ it.pre) M (R ++ (it.post ++ B))
    rw [show (A ++ it.pre) ++ M ++ (R ++ (it.post ++ B)) = b by rw [hb1, hM]; simp [List.append_assoc]] at this
    simpa using this
  have whole : ∀ {o}, Toks b (A.length + it.pre.length) (A.length + it.pre.length + it.e.text.length) o →
      ∃ o', Toks b A.length (A.length + it.text.length) o' := by
    intro o ft
    obtain ⟨o1, t1⟩ := Toks.of_spaces b A.length it.pre.length
      (fun k hk => sp1 (A.length + k) (by omega) (by omega))
    obtain ⟨o3, t3⟩ := Toks.of_spaces b (A.length + it.pre.length + it.e.text.length) it.post.length
      (fun k hk => sp2 _ (by omega) (by omega))
    have := (t1.append ft).append t3
    rw [show A.length + it.pre.length + it.e.text.length + it.post.length = A.length + it.text.length by omega] at this
    exact ⟨_, this⟩
  by_cases hlastns : isSpace (it.e.text.getLastD 0) = false
  · -- the element text does not end in a blank
    obtain ⟨f1, f2, f3, ⟨o, ft, fo⟩, fnull, fstr⟩ :=
      elem_facts b (A ++ it.pre) (it.post ++ B) it.e hev hb1 hlastns
    simp only [List.length_append] at f1 f2 f3 ft
    refine ⟨whole ft, by omega, ?_⟩
    intro log
    unfold parseValue
    simp only
    rw [trimL_eq b A.length (A.length + it.pre.length) (A.length + it.text.length) log (by omega) (by omega) sp1 f2]
    rw [trimR_eq b (A.length + it.pre.length) (A.length + it.pre.length + it.e.text.length)
      (A.length + it.text.length) _ (by omega) (by omega) sp2 f3]
    have hne : ¬ (A.length + it.pre.length = A.length + it.pre.length + it.e.text.length) := by omega
    simp only [hne, ↓reduceIte]
    rw [hsl it.e.text [] (by simp)]
    cases hval : it.e.value with
    | none =>
      have h1 := fnull hval
      have h2 : it.e.text.length = 4 := by
        simp only [isNullWord, Bool.and_eq_true, decide_eq_true_eq] at h1; exact h1.1
      have h3 : A.length + it.pre.length + it.e.text.length - (A.length + it.pre.length) = 4 := by omega
      simp only [h3, h1, and_self, ↓reduceIte]
    | some x =>
      have h1 := fstr x hval
      have hox := fo x hval
      subst hox
      simp only [h1, Bool.false_eq_true, and_false, ↓reduceIte]
      obtain ⟨log', hu, _⟩ := unq_toks b ft (b.length + 1)
        (if A.length + it.pre.length + it.e.text.length - (A.length + it.pre.length) = 4 then
          (A.length + it.pre.length + 3) :: (A.length + it.pre.length + 2) :: (A.length + it.pre.length + 1) ::
            (A.length + it.pre.length) :: (trimR b (A.length + it.text.length - (A.length + it.pre.length))
              (A.length + it.pre.length) (A.length + it.text.length)
              (trimL b (A.length + it.text.length - A.length) A.length (A.length + it.text.length) log).2).2
          else (trimR b (A.length + it.text.length - (A.length + it.pre.length))
              (A.length + it.pre.length) (A.length + it.text.length)
              (trimL b (A.length + it.text.length - A.length) A.length (A.length + it.text.length) log).2).2)
        (by omega)
      rw [hu]
  · -- it ends in a blank: only a bare element can, and then the blank is escaped
    have hsp : isSpace (it.e.text.getLastD 0) = true := by simpa using hlastns
    cases hE : it.e with
    | null sp =>
      exfalso
      rw [hE] at hev hsp
      simp only [Elem.valid] at hev
      obtain ⟨hl, hlet⟩ := nullWord_letters sp hev
      have hne : sp ≠ [] := by intro h; rw [h] at hl; simp at hl
      have := (null_letter _ (hlet _ (getLastD_mem sp hne))).2
      simp only [Elem.text] at hsp
      rw [this] at hsp; cases hsp
    | quoted cs =>
      exfalso
      rw [hE] at hsp
      simp only [Elem.text] at hsp
      have : (cDQ :: (renderChars cs ++ [cDQ])).getLastD 0 = cDQ := getLastD_snoc (cDQ :: renderChars cs) cDQ
      rw [this] at hsp
      revert hsp; decide
    | bare cs =>
      rw [hE] at hev hsp hb1 hsl whole htl sp2
      simp only [Elem.text, Elem.value] at hsp hb1 hsl whole htl sp2 ⊢
      simp only [Elem.valid, Bool.and_eq_true, decide_eq_true_eq, Bool.not_eq_eq_eq_not, Bool.not_true,
        List.all_eq_true, Bool.or_eq_true] at hev
      obtain ⟨hne, hall, hf, hl, hnull⟩ := hev
      have hbare : ∀ c ∈ cs, BareCh c := by
        intro c hc
        have := hall c hc
        simp only [ne_eq, decide_not, Bool.and_eq_true, Bool.not_eq_eq_eq_not, Bool.not_true,
          decide_eq_false_iff_not, Bool.or_eq_true, decide_eq_true_eq] at this
        exact ⟨this.1, this.2⟩
      obtain ⟨cs', w, hcs, hw⟩ := bare_dangling cs hne hl hsp
      have hrc : renderChars cs = renderChars cs' ++ [cBS, w] := by
        rw [hcs, renderChars_append]; simp [renderChars]
      have hL : (renderChars cs).length = (renderChars cs').length + 2 := by rw [hrc]; simp
      have ft := toks_of_bare b cs (A ++ it.pre) (it.post ++ B) hb1 hbare
      simp only [List.length_append] at ft
      have ft' := toks_of_bare b cs' (A ++ it.pre) (cBS :: w :: (it.post ++ B))
        (by rw [hb1, hrc]; simp [List.append_assoc]) (fun c hc => hbare c (by rw [hcs]; simp [hc]))
      simp only [List.length_append] at ft'
      have hbs : b.getD (A.length + it.pre.length + (renderChars cs').length) 0 = cBS := by
        have e : b = (A ++ it.pre ++ renderChars cs') ++ cBS :: (w :: (it.post ++ B)) := by
          rw [hb1, hrc]; simp [List.append_assoc]
        have := getD_at (A ++ it.pre ++ renderChars cs') cBS (w :: (it.post ++ B))
        rw [← e] at this
        simp only [List.length_append] at this
        exact this
      have hbw : b.getD (A.length + it.pre.length + (renderChars cs').length + 1) 0 = w := by
        have e : b = (A ++ it.pre ++ renderChars cs') ++ cBS :: (w :: (it.post ++ B)) := by
          rw [hb1, hrc]; simp [List.append_assoc]
        have := getD_at1 (A ++ it.pre ++ renderChars cs') cBS w (it.post ++ B)
        rw [← e] at this
        simp only [List.length_append] at this
        exact this
      have hfirst : isSpace (b.getD (A.length + it.pre.length) 0) = false := by
        have := getD_mid (A ++ it.pre) (renderChars cs) (it.post ++ B) 0 (by omega)
        rw [← hb1] at this
        simp only [List.length_append, Nat.add_zero] at this
        rw [this, ← headD_eq_getD]; exact hf
      refine ⟨whole ft, by omega, ?_⟩
      intro log
      unfold parseValue
      simp only
      rw [trimL_eq b A.length (A.length + it.pre.length) (A.length + it.text.length) log (by omega) (by omega) sp1 hfirst]
      rw [trimR_eq b (A.length + it.pre.length) (A.length + it.pre.length + (renderChars cs').length + 1)
        (A.length + it.text.length) _ (by omega) (by omega)
        (by
          intro i h1 h2
          by_cases hi : i = A.length + it.pre.length + (renderChars cs').length + 1
          · rw [hi, hbw]; exact hw
          · exact sp2 i (by omega) h2)
        (by
          rw [show A.length + it.pre.length + (renderChars cs').length + 1 - 1 = A.length + it.pre.length + (renderChars cs').length by omega, hbs]
          decide)]
      have hne2 : ¬ (A.length + it.pre.length = A.length + it.pre.length + (renderChars cs').length + 1) := by omega
      simp only [hne2, ↓reduceIte]
      have hs := hsl (renderChars cs' ++ [cBS]) [w] (by rw [hrc]; simp)
      simp only [List.length_append, List.length_cons, List.length_nil] at hs
      rw [show A.length + it.pre.length + (renderChars cs').length + 1 = A.length + it.pre.length + ((renderChars cs').length + (0 + 1)) by omega] at *
      rw [hs, nullWord_snoc_bs]
      simp only [Bool.false_eq_true, and_false, ↓reduceIte]
      obtain ⟨log', hu, _⟩ := unq_dangling b (s := A.length + it.pre.length)
        (v := A.length + it.pre.length + ((renderChars cs').length + (0 + 1))) (o := cs'.map (·.b))
        (by rw [show A.length + it.pre.length + ((renderChars cs').length + (0 + 1)) - 1 = A.length + it.pre.length + (renderChars cs').length by omega]; exact ft')
        (by omega)
        (by rw [show A.length + it.pre.length + ((renderChars cs').length + (0 + 1)) - 1 = A.length + it.pre.length + (renderChars cs').length by omega]; exact hbs)
        (b.length + 1)
        (if A.length + it.pre.length + ((renderChars cs').length + (0 + 1)) - (A.length + it.pre.length) = 4 then
          (A.length + it.pre.length + 3) :: (A.length + it.pre.length + 2) :: (A.length + it.pre.length + 1) ::
            (A.length + it.pre.length) :: (trimR b (A.length + it.text.length - (A.length + it.pre.length))
              (A.length + it.pre.length) (A.length + it.text.length)
              (trimL b (A.length + it.text.length - A.length) A.length (A.length + it.text.length) log).2).2
          else (trimR b (A.length + it.text.length - (A.length + it.pre.length))
              (A.length + it.pre.length) (A.length + it.text.length)
              (trimL b (A.length + it.text.length - A.length) A.length (A.length + it.text.length) log).2).2)
        (by omega)
      rw [hu, hbw, hcs]
      simp

end UsualProofs.C13

namespace UsualProofs.C13
open Usual.C13

theorem scan_at_rbrace (b : Bytes) (f e v : Nat) (lst : List (Option Bytes)) (log : Log) (x : Option Bytes)
    (h1 : b.getD e 0 = cRBrace) (h2 : b.getD (e + 1) 0 = 0)
    (hp : ∀ log, (parseValue b v e log).1 = .ok x) :
    (scan true b (f + 1) e (some v) lst log).1 = .ok (lst ++ [x]) := by
  have e0 : cRBrace ≠ 0 := by decide
  simp only [scan, h1, h2, e0, ↓reduceIte, ne_eq, not_true_eq_false]
  have := hp ((e + 1) :: e :: log)
  generalize parseValue b v e ((e + 1) :: e :: log) = r at this
  obtain ⟨r1, r2⟩ := r
  simp only at this
  subst this
  rfl

theorem scan_at_comma (b : Bytes) (f e v : Nat) (lst : List (Option Bytes)) (log : Log) (x : Option Bytes)
    (h1 : b.getD e 0 = cComma) (hp : ∀ log, (parseValue b v e log).1 = .ok x) :
    ∃ log', scan true b (f + 1) e (some v) lst log =
      scan true b f (e + 1) (some (e + 1)) (lst ++ [x]) log' := by
  have e0 : cComma ≠ 0 := by decide
  have e1 : cComma ≠ cRBrace := by decide
  simp only [scan, h1, e0, e1, ↓reduceIte, Option.getD_some]
  have := hp (e :: log)
  generalize parseValue b v e (e :: log) = r at this
  obtain ⟨r1, r2⟩ := r
  simp only at this
  subst this
  exact ⟨r2, rfl⟩

/-- the scanner on the comma-separated items up to the closing brace -/
theorem scan_items (b : Bytes) : ∀ (items : List Item), items ≠ [] →
    ∀ (A : Bytes) (lst : List (Option Bytes)) (log : Log) (fuel : Nat) (val : Option Nat),
    b = A ++ joinComma (items.map Item.text) ++ [cRBrace, 0] →
    (∀ it ∈ items, it.valid = true) → (val = none ∨ val = some A.length) →
    b.length + 1 ≤ fuel + A.length →
    (scan true b fuel A.length val lst log).1 = .ok (lst ++ items.map (·.e.value)) := by
  intro items
  induction items with
  | nil => intro h; exact absurd rfl h
  | cons x rest ih =>
    intro _ A lst log fuel val hb hv hval hfuel
    have hvx := hv x (by simp)
    have hvg : val.getD A.length = A.length := by
      rcases hval with h | h <;> simp [h]
    cases rest with
    | nil =>
      simp only [List.map_cons, List.map_nil, joinComma] at hb ⊢
      have hbl : b.length = A.length + x.text.length + 2 := by rw [hb]; simp; omega
      obtain ⟨⟨o, t⟩, hpos, hp⟩ := item_spec b A [cRBrace, 0] x hvx hb (by omega)
      obtain ⟨fuel', log', hf, hs⟩ := scan_progress b t (by omega) fuel val lst log (by omega)
      rw [hs, hvg]
      have h1 : b.getD (A.length + x.text.length) 0 = cRBrace := by
        have := getD_at (A ++ x.text) cRBrace [0]
        rw [hb]; simpa using this
      have h2 : b.getD (A.length + x.text.length + 1) 0 = 0 := by
        have := getD_at1 (A ++ x.text) cRBrace 0 []
        rw [hb]; simpa using this
      cases fuel' with
      | zero => omega
      | succ f => exact scan_at_rbrace b f _ _ lst log' _ h1 h2 hp
    | cons y r =>
      simp only [List.map_cons, joinComma] at hb ⊢
      have hbl : A.length + x.text.length + 3 ≤ b.length := by rw [hb]; simp; omega
      obtain ⟨⟨o, t⟩, hpos, hp⟩ := item_spec b A (cComma :: (joinComma (y.text :: r.map Item.text) ++ [cRBrace, 0])) x hvx
        (by rw [hb]; simp [List.append_assoc]) (by omega)
      obtain ⟨fuel', log', hf, hs⟩ := scan_progress b t (by omega) fuel val lst log (by omega)
      rw [hs, hvg]
      have h1 : b.getD (A.length + x.text.length) 0 = cComma := by
        have := getD_at (A ++ x.text) cComma (joinComma (y.text :: r.map Item.text) ++ [cRBrace, 0])
        rw [hb]; simpa [List.append_assoc] using this
      cases fuel' with
      | zero => omega
      | succ f =>
        obtain ⟨log2, hs2⟩ := scan_at_comma b f _ _ lst log' _ h1 hp
        rw [hs2]
        have := ih (by simp) (A ++ x.text ++ [cComma]) (lst ++ [x.e.value]) log2 f
          (some (A.length + x.text.length + 1))
          (by rw [hb]; simp [List.append_assoc])
          (fun it hit => hv it (by simp at hit ⊢; exact Or.inr hit))
          (Or.inr (by simp; omega)) (by simp; omega)
        simp only [List.length_append, List.length_cons, List.length_nil] at this
        simp only [List.map_cons] at this
        rw [this]
        simp

end UsualProofs.C13

namespace UsualProofs.C13
open Usual.C13

theorem findRBrack_progress (b : Bytes) : ∀ (X pre rest : Bytes) (fuel : Nat) (log : Log),
    b = pre ++ X ++ cRBrack :: rest → (∀ c ∈ X, c ≠ 0 ∧ c ≠ cRBrack) → X.length < fuel →
    ∃ log', findRBrack b fuel pre.length log = (.ok (pre.length + X.length), log') := by
  intro X
  induction X with
  | nil =>
    intro pre rest fuel log hb _ hf
    cases fuel with
    | zero => omega
    | succ f =>
      have : b.getD pre.length 0 = cRBrack := by rw [hb]; simp [getD_at]
      exact ⟨pre.length :: log, by simp only [findRBrack, this, ↓reduceIte, List.length_nil, Nat.add_zero]⟩
  | cons c r ih =>
    intro pre rest fuel log hb hX hf
    cases fuel with
    | zero => omega
    | succ f =>
      have hc := hX c (by simp)
      have h1 : b.getD pre.length 0 = c := by
        rw [hb]; simp [getD_at]
      obtain ⟨log', h2⟩ := ih (pre ++ [c]) rest f (pre.length :: log) (by rw [hb]; simp)
        (fun x hx => hX x (by simp [hx])) (by simp at hf; omega)
      refine ⟨log', ?_⟩
      simp only [findRBrack, h1, hc.1, hc.2, ↓reduceIte]
      simp only [List.length_append, List.length_cons, List.length_nil] at h2
      rw [h2]
      simp; omega

/-- the part of `pg_parse_array` from the opening brace on -/
theorem body_render (b A : Bytes) (items : List Item) (log : Log)
    (hb : b = A ++ cLBrace :: (joinComma (items.map Item.text) ++ [cRBrace]) ++ [0])
    (hv : ∀ it ∈ items, it.valid = true) :
    (if b.getD A.length 0 ≠ cLBrace then ((.fail : Res (List (Option Bytes))), A.length :: log)
      else scan true b (b.length + 1) (A.length + 1) none [] (A.length :: log)).1 =
    .ok (items.map (·.e.value)) := by
  have h0 : b.getD A.length 0 = cLBrace := by rw [hb]; simp [getD_at]
  simp only [h0, ne_eq, not_true_eq_false, ↓reduceIte]
  cases items with
  | nil =>
    simp only [List.map_nil, joinComma, List.nil_append] at hb ⊢
    have h1 : b.getD (A.length + 1) 0 = cRBrace := by
      have := getD_at (A ++ [cLBrace]) cRBrace [0]
      rw [hb]; simpa using this
    have h2 : b.getD (A.length + 1 + 1) 0 = 0 := by
      have := getD_at1 (A ++ [cLBrace]) cRBrace 0 []
      rw [hb]; simpa using this
    have e0 : cRBrace ≠ 0 := by decide
    simp only [scan, h1, h2, e0, ↓reduceIte, ne_eq, not_true_eq_false]
  | cons x r =>
    have := scan_items b (x :: r) (by simp) (A ++ [cLBrace]) [] (A.length :: log) (b.length + 1) none
      (by rw [hb]; simp [List.append_assoc]) hv (Or.inl rfl) (by omega)
    simpa using this

/-- ROUND TRIP: a list rendered in array syntax parses back to exactly that list -/
theorem parseArray_render (dim : Option Bytes) (items : List Item) (hd : dimValid dim = true)
    (hv : ∀ it ∈ items, it.valid = true) :
    (parseArray (renderArray dim items ++ [0])).1 = .ok (items.map (·.e.value)) := by
  unfold parseArray parseArrayGen
  simp only
  cases dim with
  | none =>
    have hb : renderArray none items ++ [0] =
        [] ++ cLBrace :: (joinComma (items.map Item.text) ++ [cRBrace]) ++ [0] := by
      simp [renderArray, dimText]
    have h0 : (renderArray none items ++ [0]).getD 0 0 ≠ cLBrack := by
      rw [hb]; simp; decide
    simp only [h0, ↓reduceIte]
    exact body_render _ [] items [0] hb hv
  | some d =>
    generalize hbdef : renderArray (some d) items ++ [0] = b
    have hb : b = (cLBrack :: d ++ [cRBrack, cEq]) ++ cLBrace :: (joinComma (items.map Item.text) ++ [cRBrace]) ++ [0] := by
      rw [← hbdef]; simp [renderArray, dimText]
    have h0 : b.getD 0 0 = cLBrack := by rw [hb]; simp
    simp only [h0, ↓reduceIte]
    simp only [dimValid, List.all_eq_true, Bool.and_eq_true, decide_eq_true_eq] at hd
    have hbl : d.length + 2 < b.length := by rw [hb]; simp; omega
    obtain ⟨log', hf⟩ := findRBrack_progress b (cLBrack :: d) [] (cEq :: cLBrace :: (joinComma (items.map Item.text) ++ [cRBrace]) ++ [0])
      (b.length + 1) [0] (by rw [hb]; simp [List.append_assoc])
      (by
        intro c hc
        simp only [List.mem_cons] at hc
        rcases hc with h | h
        · subst h; decide
        · have := hd c h
          simpa using this)
      (by simp; omega)
    simp only [List.length_nil, Nat.zero_add, List.length_cons] at hf
    rw [hf]
    simp only
    have h1 : b.getD (d.length + 1 + 1) 0 = cEq := by
      have := getD_at1 (cLBrack :: d) cRBrack cEq (cLBrace :: (joinComma (items.map Item.text) ++ [cRBrace]) ++ [0])
      rw [hb]; simpa [List.append_assoc] using this
    simp only [h1, ne_eq, not_true_eq_false, ↓reduceIte]
    have := body_render b (cLBrack :: d ++ [cRBrack, cEq]) items ((d.length + 1 + 1) :: log') hb hv
    simpa [Nat.add_assoc] using this

end UsualProofs.C13
