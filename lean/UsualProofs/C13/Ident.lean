import UsualProofs.C13.Dst
import UsualProofs.C13.Kw
import Usual.C13.PgText
/-! C13: `pg_quote_ident` — model output = `identText`, bounds, fits, lexer round trip. -/
namespace UsualProofs.C13
open Usual.C13

theorem identBody_length_ge (s : Bytes) : s.length ≤ (identBody s).length := by
  induction s with
  | nil => simp [identBody]
  | cons c cs ih => unfold identBody; split <;> simp <;> omega

theorem identBody_no_nul (s : Bytes) (h : 0 ∉ s) : 0 ∉ identBody s := by
  induction s with
  | nil => simp [identBody]
  | cons c cs ih =>
    have hc : c ≠ 0 := by intro e; subst e; simp at h
    have hcs : 0 ∉ cs := fun hm => h (List.mem_cons_of_mem _ hm)
    have := ih hcs
    unfold identBody
    split
    · simp [cDQ, this]
    · simp [this]; omega

theorem idBody_ne_zero (c : Nat) (h : idBody c = true) : c ≠ 0 := by
  intro e; subst e; revert h; decide

theorem all_idBody_no_nul (s : Bytes) (h : s.all idBody = true) : 0 ∉ s := by
  intro hm
  have := List.all_eq_true.mp h 0 hm
  revert this; decide

/-- bare-identifier loop -/
theorem bareLoop_spec (P : Bytes) (base e N : Nat) (hP : P.length = base) (hN : base + e < N) :
    ∀ (src : Bytes) (p : Nat) (d : Dst) (X : Bytes), Good d (P ++ X) N → X.length = p → p ≤ e →
    match bareLoop base e src p d with
    | .needsQuoting d' => (∃ X', Good d' (P ++ X') N) ∧ src.all idBody = false
    | .done rest p' d' =>
        ∃ C, src = C ++ rest ∧ C.all idBody = true ∧ Good d' (P ++ (X ++ C)) N ∧ p' = p + C.length ∧
          p' ≤ e ∧ (rest ≠ [] → p' = e) := by
  intro src
  induction src with
  | nil =>
    intro p d X g hX hp
    simp only [bareLoop]
    exact ⟨[], by simp, by simp, by simpa using g, by simp, hp, by simp⟩
  | cons c cs ih =>
    intro p d X g hX hp
    by_cases hpe : p < e
    · by_cases hb : idBody c = true
      · simp only [bareLoop, hpe, hb, ↓reduceIte]
        have g1 : Good (d.put (base + p) c) (P ++ (X ++ [c])) N := by
          have := g.put' (base + p) (by simp [hP, hX]) (by omega) c
          simpa [List.append_assoc] using this
        have := ih (p + 1) _ _ g1 (by simp [hX]) (by omega)
        generalize bareLoop base e cs (p + 1) (d.put (base + p) c) = r at this
        cases r with
        | needsQuoting d' =>
          obtain ⟨h1, h2⟩ := this
          exact ⟨h1, by simp [h2]⟩
        | done rest p' d' =>
          obtain ⟨C, h1, h2, h3, h4, h5, h6⟩ := this
          refine ⟨c :: C, by simp [h1], by simp [hb, h2], by simpa using h3, by simp [h4]; omega, h5, h6⟩
      · simp only [bareLoop, hpe, hb, ↓reduceIte]
        refine ⟨⟨X, g⟩, ?_⟩
        simp [hb]
    · simp only [bareLoop, hpe, ↓reduceIte]
      exact ⟨[], by simp, by simp, by simpa using g, by simp, hp, fun _ => by omega⟩

/-- quoted-identifier loop -/
theorem quotedLoop_spec (P : Bytes) (base e N : Nat) (hP : P.length = base) (hN : base + e + 2 ≤ N) :
    ∀ (src : Bytes) (p : Nat) (d : Dst) (X : Bytes), Good d (P ++ X) N → X.length = p → p ≤ e + 1 →
    ∃ X', Good (quotedLoop base e src p d).2.2 (P ++ X') N ∧
      X'.length = (quotedLoop base e src p d).2.1 ∧ (quotedLoop base e src p d).2.1 ≤ e + 1 ∧
      ((quotedLoop base e src p d).1 = [] → X' = X ++ identBody src) ∧
      ((quotedLoop base e src p d).1 ≠ [] → e < p + (identBody src).length) := by
  intro src
  induction src with
  | nil =>
    intro p d X g hX hp
    simp only [quotedLoop]
    exact ⟨X, g, hX, hp, by simp [identBody], by simp⟩
  | cons c cs ih =>
    intro p d X g hX hp
    by_cases hpe : p < e
    · by_cases hq : c = cDQ
      · subst hq
        simp only [quotedLoop, hpe, ↓reduceIte]
        have g1 := g.put' (base + p) (by simp [hP, hX]) (by omega) cDQ
        have g2 := g1.put' (base + p + 1) (by simp [hP, hX]; omega) (by omega) cDQ
        have g3 : Good ((d.put (base + p) cDQ).put (base + p + 1) cDQ) (P ++ (X ++ [cDQ, cDQ])) N := by
          simpa [List.append_assoc] using g2
        obtain ⟨X', h1, h2, h3, h4, h5⟩ := ih (p + 2) _ _ g3 (by simp [hX]) (by omega)
        refine ⟨X', h1, h2, h3, ?_, ?_⟩
        · intro hr
          rw [h4 hr]; simp [identBody]
        · intro hr
          have := h5 hr
          simp [identBody]; omega
      · simp only [quotedLoop, hpe, hq, ↓reduceIte]
        have g1 := g.put' (base + p) (by simp [hP, hX]) (by omega) c
        have g3 : Good (d.put (base + p) c) (P ++ (X ++ [c])) N := by
          simpa [List.append_assoc] using g1
        obtain ⟨X', h1, h2, h3, h4, h5⟩ := ih (p + 1) _ _ g3 (by simp [hX]) (by omega)
        refine ⟨X', h1, h2, h3, ?_, ?_⟩
        · intro hr
          rw [h4 hr]; simp [identBody, hq]
        · intro hr
          have := h5 hr
          simp [identBody, hq]; omega
    · simp only [quotedLoop, hpe, ↓reduceIte]
      refine ⟨X, g, hX, hp, by simp, ?_⟩
      intro _
      have := identBody_length_ge (c :: cs)
      simp at this
      omega

/-- the `needs_quoting:` part of the repaired code -/
theorem identQuoted_spec (P X0 : Bytes) (base n N : Nat) (hP : P.length = base) (hN : base + n ≤ N)
    (s : Bytes) (d : Dst) (g : Good d (P ++ X0) N) :
    (∃ X', Good (identQuoted true d base s n).2 (P ++ X') N) ∧
    ((identQuoted true d base s n).1 = true ↔ (identBody s).length + 3 ≤ n) ∧
    ((identQuoted true d base s n).1 = true →
      ∃ T, (identQuoted true d base s n).2.buf = P ++ (cDQ :: (identBody s ++ [cDQ])) ++ 0 :: T) := by
  unfold identQuoted
  by_cases hn : n < 3
  · simp only [hn, ↓reduceIte]
    exact ⟨⟨X0, g⟩, ⟨(fun h => by cases h), (fun h => by omega)⟩, by simp⟩
  · simp only [hn, ↓reduceIte]
    have g0 : Good (d.put base cDQ) (P ++ [cDQ]) N := g.weaken.put' base hP.symm (by omega) cDQ
    obtain ⟨X', h1, h2, h3, h4, h5⟩ :=
      quotedLoop_spec P base (n - 2) N hP (by omega) s 1 _ _ g0 rfl (by omega)
    generalize quotedLoop base (n - 2) s 1 (d.put base cDQ) = r at h1 h2 h3 h4 h5
    obtain ⟨rest, p, d1⟩ := r
    simp only at h1 h2 h3 h4 h5
    simp only [true_and]
    by_cases hc : rest ≠ [] ∨ n - 2 < p
    · simp only [hc, ↓reduceIte]
      refine ⟨⟨X', h1⟩, ⟨(fun h => by cases h), ?_⟩, by simp⟩
      intro hfit
      exfalso
      cases hc with
      | inl hr => have := h5 hr; omega
      | inr hp =>
        by_cases hr : rest = []
        · have := h4 hr
          rw [this] at h2
          simp at h2
          omega
        · have := h5 hr; omega
    · simp only [hc, ↓reduceIte]
      have hr : rest = [] := by
        apply Classical.byContradiction; intro hh; exact hc (Or.inl hh)
      have hp : p ≤ n - 2 := by
        apply Classical.byContradiction; intro hh; exact hc (Or.inr (by omega))
      have hX' := h4 hr
      have g1 := h1.put' (base + p) (by simp [hP, h2]) (by omega) cDQ
      have g2 := g1.put' (base + p + 1) (by simp [hP, h2]; omega) (by omega) 0
      refine ⟨⟨_, by simpa [List.append_assoc] using g2⟩, ?_, ?_⟩
      · simp only [true_iff]
        rw [hX'] at h2; simp at h2; omega
      · intro _
        obtain ⟨T, hT⟩ := g2.pre
        exact ⟨T, by rw [hT, hX']; simp⟩

end UsualProofs.C13

namespace UsualProofs.C13
open Usual.C13

theorem identText_length_ge (s : Bytes) : s.length ≤ (identText s).length := by
  unfold identText
  have := identBody_length_ge s
  split <;> simp <;> omega

theorem identText_quoted (s : Bytes) (h : bareOk s = false) :
    identText s = cDQ :: (identBody s ++ [cDQ]) := by simp [identText, h]

/-- everything about one call of the repaired `pg_quote_ident` writing at offset `base` of the
    `N`-byte block, with `dstlen = n` -/
theorem quoteIdentAt_spec (P : Bytes) (base n N : Nat) (hP : P.length = base) (hN : base + n ≤ N)
    (s : Bytes) (d : Dst) (g : Good d P N) :
    (∃ X', Good (quoteIdentAt d base s n).2 (P ++ X') N) ∧
    ((quoteIdentAt d base s n).1 = true ↔ identNeeded s ≤ n) ∧
    ((quoteIdentAt d base s n).1 = true →
      ∃ T, (quoteIdentAt d base s n).2.buf = P ++ identText s ++ 0 :: T) := by
  have hge := identText_length_ge s
  unfold quoteIdentAt quoteIdentGen
  by_cases hn : n < 1
  · simp only [hn, ↓reduceIte]
    exact ⟨⟨[], by simpa using g⟩, ⟨(fun h => by cases h), (fun h => by unfold identNeeded at h; omega)⟩, by simp⟩
  · simp only [hn, ↓reduceIte]
    by_cases hs : idStart (s.headD 0) = true
    · simp only [hs, Bool.not_true, Bool.false_eq_true, ↓reduceIte]
      have g' : Good d (P ++ []) N := by simpa using g
      have hb := bareLoop_spec P base (n - 1) N hP (by omega) s 0 d [] g' rfl (by omega)
      generalize bareLoop base (n - 1) s 0 d = r at hb
      cases r with
      | needsQuoting d1 =>
        obtain ⟨⟨X1, g1⟩, hall⟩ := hb
        simp only
        have hbo : bareOk s = false := by simp [bareOk, hall]
        have := identQuoted_spec P X1 base n N hP hN s d1 g1
        simpa [identNeeded, identText_quoted s hbo, Nat.add_assoc] using this
      | done rest p d1 =>
        obtain ⟨C, hsC, hall, g1, hp, hpe, hrest⟩ := hb
        simp only [List.nil_append] at g1
        simp only
        by_cases hr : rest ≠ []
        · simp only [if_pos hr]
          refine ⟨⟨C, g1⟩, ⟨(fun h => by cases h), ?_⟩, by simp⟩
          intro hfit
          exfalso
          have := hrest hr
          have hl : s.length = C.length + rest.length := by rw [hsC]; simp
          have : 0 < rest.length := List.length_pos_iff.mpr hr
          unfold identNeeded at hfit
          omega
        · simp only [if_neg hr]
          have hr' : rest = [] := by simpa using hr
          subst hr'
          simp only [List.append_nil] at hsC
          subst hsC
          have g2 := g1.put' (base + p) (by simp [hP, hp]) (by omega) 0
          have hnn : 0 ∉ s := all_idBody_no_nul s hall
          have hcs : cstrAt (d1.put (base + p) 0).buf base = s := by
            obtain ⟨T, hT⟩ := g2.pre
            have := cstrAt_of_prefix (d1.put (base + p) 0).buf P s T (by rw [hT]; simp) hnn
            rw [hP] at this; exact this
          rw [hcs]
          by_cases hres : isReserved s = true
          · simp only [hres, Bool.not_true, Bool.false_eq_true, ↓reduceIte]
            have hbo : bareOk s = false := by simp [bareOk, hres]
            have := identQuoted_spec P (s ++ [0]) base n N hP hN s _ (by simpa using g2)
            simpa [identNeeded, identText_quoted s hbo, Nat.add_assoc] using this
          · have hres' : isReserved s = false := by simpa using hres
            simp only [hres', Bool.not_false, ↓reduceIte]
            have hbo : bareOk s = true := by unfold bareOk; rw [hs, hall, hres']; rfl
            have hit : identText s = s := by simp [identText, hbo]
            refine ⟨⟨_, by simpa [List.append_assoc] using g2⟩, ?_, ?_⟩
            · simp only [true_iff, identNeeded, hit]
              simp at hp; omega
            · intro _
              obtain ⟨T, hT⟩ := g2.pre
              exact ⟨T, by rw [hT, hit]; simp⟩
    · have hs' : idStart (s.headD 0) = false := by simpa using hs
      simp only [hs', Bool.not_false, ↓reduceIte]
      have hbo : bareOk s = false := by unfold bareOk; rw [hs']; simp
      have := identQuoted_spec P [] base n N hP hN s d (by simpa using g)
      simpa [identNeeded, identText_quoted s hbo, Nat.add_assoc] using this

end UsualProofs.C13

namespace UsualProofs.C13
open Usual.C13

theorem idBody_lexCont (c : Nat) (h : idBody c = true) : lexIdentCont c = true := by
  simp only [idBody, idStart, lexIdentCont, lexIdentStart, isUpper, Bool.or_eq_true, Bool.and_eq_true,
    decide_eq_true_eq] at *
  omega

theorem idStart_lexStart (c : Nat) (h : idStart c = true) : lexIdentStart c = true ∧ c ≠ cDQ := by
  simp only [idStart, lexIdentStart, isUpper, cDQ, Bool.or_eq_true, Bool.and_eq_true,
    decide_eq_true_eq] at *
  omega

theorem idBody_downcase (c : Nat) (h : idBody c = true) : downcase c = c := by
  simp only [idBody, idStart, Bool.or_eq_true, Bool.and_eq_true, decide_eq_true_eq] at h
  have : isUpper c = false := by
    simp only [isUpper, Bool.and_eq_false_iff, decide_eq_false_iff_not]
    omega
  simp [downcase, this]

/-- what may follow an identifier token without being swallowed by it -/
def RestOk (rest : Bytes) : Prop := ∀ c, rest.head? = some c → c ≠ cDQ ∧ lexIdentCont c = false

theorem restOk_nil : RestOk [] := by intro c h; simp at h
theorem restOk_dot (r : Bytes) : RestOk (cDot :: r) := by
  intro c h
  simp at h
  subst h
  decide

theorem spanIdent_bare (s rest : Bytes) (hs : s.all idBody = true) (hr : RestOk rest) :
    spanIdent (s ++ rest) = (s, rest) := by
  induction s with
  | nil =>
    simp only [List.nil_append]
    cases rest with
    | nil => rfl
    | cons r rs =>
      have := (hr r (by simp)).2
      simp [spanIdent, this]
  | cons c cs ih =>
    simp only [List.all_cons, Bool.and_eq_true] at hs
    have := idBody_lexCont c hs.1
    simp [spanIdent, this, ih hs.2]

theorem map_downcase_bare (s : Bytes) (hs : s.all idBody = true) : s.map downcase = s := by
  induction s with
  | nil => rfl
  | cons c cs ih =>
    simp only [List.all_cons, Bool.and_eq_true] at hs
    simp [idBody_downcase c hs.1, ih hs.2]

theorem lexQIdentBody_identBody :
    ∀ (s rest : Bytes) (fuel : Nat), (identBody s).length + 1 ≤ fuel → rest.head? ≠ some cDQ →
      lexQIdentBody fuel (identBody s ++ cDQ :: rest) = some (s, rest) := by
  intro s
  induction s with
  | nil =>
    intro rest fuel hf hr
    cases fuel with
    | zero => simp [identBody] at hf
    | succ fuel =>
      simp only [identBody, List.nil_append, lexQIdentBody, ↓reduceIte]
      cases rest with
      | nil => rfl
      | cons r rs =>
        have : r ≠ cDQ := by intro e; subst e; simp at hr
        simp [this]
  | cons c cs ih =>
    intro rest fuel hf hr
    by_cases hq : c = cDQ
    · subst hq
      have hb : identBody (cDQ :: cs) = cDQ :: cDQ :: identBody cs := by simp [identBody]
      rw [hb] at hf ⊢
      cases fuel with
      | zero => simp at hf
      | succ fuel =>
        simp only [List.cons_append, lexQIdentBody, ↓reduceIte]
        rw [ih rest fuel (by simp at hf; omega) hr]; rfl
    · have hb : identBody (c :: cs) = c :: identBody cs := by simp [identBody, hq]
      rw [hb] at hf ⊢
      cases fuel with
      | zero => simp at hf
      | succ fuel =>
        simp only [List.cons_append, lexQIdentBody, hq, ↓reduceIte]
        rw [ih rest fuel (by simp at hf; omega) hr]; rfl

/-- the text `pg_quote_ident` is expected to produce is one identifier token that the lexer
    decodes to exactly the (non-empty) input and that ends where the text ends -/
theorem lexIdent_identText (s rest : Bytes) (hs : s ≠ []) (hr : RestOk rest) :
    lexIdent (identText s ++ rest) = some (s, rest) := by
  unfold identText
  by_cases hb : bareOk s = true
  · simp only [hb, ↓reduceIte]
    simp only [bareOk, Bool.decide_and, Bool.decide_eq_true, Bool.and_eq_true, Bool.not_eq_eq_eq_not,
      Bool.not_true] at hb
    obtain ⟨h1, h2, h3⟩ := hb
    cases s with
    | nil => exact absurd rfl hs
    | cons c cs =>
      simp only [List.headD_cons] at h1
      obtain ⟨hst, hdq⟩ := idStart_lexStart c h1
      have hsp := spanIdent_bare (c :: cs) rest h2 hr
      simp only [List.cons_append] at hsp
      simp only [lexIdent, List.cons_append, hdq, ↓reduceIte, hst, hsp, map_downcase_bare (c :: cs) h2]
      rw [← isReserved_eq_reservedWord]
      have h3' : isReserved (c :: cs) = false := by simpa using h3
      simp [h3']
  · have hb' : bareOk s = false := by simpa using hb
    rw [hb']
    have hrq : rest.head? ≠ some cDQ := by
      intro h; exact (hr cDQ h).1 rfl
    simp only [Bool.false_eq_true, ↓reduceIte, lexIdent, List.cons_append, List.append_assoc, List.nil_append]
    rw [lexQIdentBody_identBody s rest _ (by simp) hrq]
    simp [hs]

end UsualProofs.C13
