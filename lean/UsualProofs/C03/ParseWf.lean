import UsualProofs.C03.Str
import UsualProofs.C03.Num
/-! C03 proofs — every value of the RFC reference parser is well-formed (up to NUL bytes, which
`\u0000` can put into strings and which `json.c` refuses): trees obtained from parsing are in
the domain of the round-trip theorem. -/
namespace Usual.C03
open Rfc

/-! ## sequences of well-formed UTF-8 -/

/-- a concatenation of well-formed UTF-8 sequences (NUL allowed) -/
inductive Utf8Seq : Bytes → Prop where
  | nil : Utf8Seq []
  | cons (c s : Bytes) (n : Nat) : utf8Len (c ++ s) = some n → c.length = n → Utf8Seq s → Utf8Seq (c ++ s)

theorem Utf8Seq.valid {s : Bytes} (h : Utf8Seq s) : (∀ b ∈ s, b ≠ 0) → ∀ f, s.length < f → validStr f s = true := by
  induction h with
  | nil => intro _ f hf; cases f with | zero => omega | succ f => rfl
  | cons c s n hu hl _ ih =>
    intro hz f hf
    cases f with
    | zero => omega
    | succ f =>
      cases c with
      | nil =>
        -- an empty chunk cannot be recognised
        simp at hl; subst hl
        cases s with
        | nil => simp [utf8Len] at hu
        | cons b r =>
          rcases utf8Len_cases b r 0 hu with ⟨h, _⟩ | ⟨h, _⟩ | ⟨h, _⟩ | ⟨h, _⟩ <;> cases h
      | cons b c' =>
        have hb : (b == 0) = false := by simpa using hz b (by simp)
        simp only [List.cons_append, validStr, hb, Bool.false_eq_true, if_false]
        simp only [List.cons_append] at hu
        rw [hu]
        simp only
        have : (b :: (c' ++ s)).drop n = s := by
          rw [← hl]; simp
        rw [this]
        exact ih (fun x hx => hz x (by simp [hx])) f (by simp at hf; omega)

theorem Utf8Seq.append {a b : Bytes} (ha : Utf8Seq a) (hb : Utf8Seq b) : Utf8Seq (a ++ b) := by
  induction ha with
  | nil => simpa using hb
  | cons c s n hu hl _ ih =>
    rw [List.append_assoc]
    refine Utf8Seq.cons c (s ++ b) n ?_ hl ih
    -- utf8Len looks only at the first n bytes
    cases c with
    | nil =>
      simp at hl; subst hl
      cases s with
      | nil => simp [utf8Len] at hu
      | cons x r =>
        rcases utf8Len_cases x r 0 hu with ⟨h, _⟩ | ⟨h, _⟩ | ⟨h, _⟩ | ⟨h, _⟩ <;> cases h
    | cons x c' =>
      simp only [List.cons_append] at hu ⊢
      rcases utf8Len_cases x (c' ++ s) n hu with ⟨rfl, _, hX⟩ | ⟨rfl, _, b1, r', e, _, hX⟩ |
          ⟨rfl, _, b1, b2, r', e, _, _, hX⟩ | ⟨rfl, _, b1, b2, b3, r', e, _, _, _, hX⟩
      · exact hX _
      · match c', hl, e with
        | [y], _, e => simp at e; obtain ⟨rfl, rfl⟩ := e; exact hX _
      · match c', hl, e with
        | [y, z], _, e => simp at e; obtain ⟨rfl, rfl, rfl⟩ := e; exact hX _
      · match c', hl, e with
        | [y, z, w], _, e => simp at e; obtain ⟨rfl, rfl, rfl, rfl⟩ := e; exact hX _

/-- one sequence -/
theorem Utf8Seq.single (c : Bytes) (h : ∀ X, utf8Len (c ++ X) = some c.length) : Utf8Seq c := by
  have := Utf8Seq.cons c [] c.length (h []) rfl Utf8Seq.nil
  simpa using this

theorem ofNat_toNat_lt {n : Nat} (h : n < 256) : (UInt8.ofNat n).toNat = n := by
  simp [Nat.mod_eq_of_lt h]

theorem utf8Len_1 (b0 : UInt8) (X : Bytes) (h0 : b0.toNat ≤ 0x7F) : utf8Len (b0 :: X) = some 1 := by
  have : b0 ≤ 0x7F := UInt8.le_iff_toNat_le.mpr h0
  simp [utf8Len, this]

theorem utf8Len_2 (b0 b1 : UInt8) (X : Bytes) (h0 : 0xC2 ≤ b0.toNat ∧ b0.toNat ≤ 0xDF)
    (h1 : 0x80 ≤ b1.toNat ∧ b1.toNat ≤ 0xBF) : utf8Len (b0 :: b1 :: X) = some 2 := by
  have c1 : ¬ b0 ≤ 0x7F := by rw [UInt8.le_iff_toNat_le]; simp; omega
  have c2 : (0xC2 ≤ b0 && b0 ≤ 0xDF) = true := by
    simp [UInt8.le_iff_toNat_le]; omega
  have t1 : isTail b1 = true := (isTail_iff b1).mpr h1
  simp [utf8Len, c1, c2, t1]

theorem utf8Len_3 (b0 b1 b2 : UInt8) (X : Bytes)
    (h : (b0.toNat = 0xE0 ∧ 0xA0 ≤ b1.toNat ∧ b1.toNat ≤ 0xBF) ∨
         (0xE1 ≤ b0.toNat ∧ b0.toNat ≤ 0xEC ∧ 0x80 ≤ b1.toNat ∧ b1.toNat ≤ 0xBF) ∨
         (b0.toNat = 0xED ∧ 0x80 ≤ b1.toNat ∧ b1.toNat ≤ 0x9F) ∨
         (0xEE ≤ b0.toNat ∧ b0.toNat ≤ 0xEF ∧ 0x80 ≤ b1.toNat ∧ b1.toNat ≤ 0xBF))
    (h2 : 0x80 ≤ b2.toNat ∧ b2.toNat ≤ 0xBF) : utf8Len (b0 :: b1 :: b2 :: X) = some 3 := by
  have c1 : ¬ b0 ≤ 0x7F := by rw [UInt8.le_iff_toNat_le]; simp; omega
  have c2 : (0xC2 ≤ b0 && b0 ≤ 0xDF) = false := by
    simp [UInt8.le_iff_toNat_le]; omega
  have c3 : (0xE0 ≤ b0 && b0 ≤ 0xEF) = true := by
    simp [UInt8.le_iff_toNat_le]; omega
  have t2 : isTail b2 = true := (isTail_iff b2).mpr h2
  have e0 : ∀ k : UInt8, (b0 == k) = decide (b0.toNat = k.toNat) := by
    intro k
    by_cases h : b0 = k
    · subst h; simp
    · have : b0.toNat ≠ k.toNat := fun e => h (UInt8.toNat_inj.mp e)
      simp [h, this]
  have cc : ((b0 == 0xE0 && 0xA0 ≤ b1 && b1 ≤ 0xBF) || (0xE1 ≤ b0 && b0 ≤ 0xEC && isTail b1) ||
      (b0 == 0xED && 0x80 ≤ b1 && b1 ≤ 0x9F) || (0xEE ≤ b0 && isTail b1)) = true := by
    simp only [e0, isTail, UInt8.le_iff_toNat_le, Bool.or_eq_true, Bool.and_eq_true, decide_eq_true_eq]
    simp
    omega
  simp only [utf8Len, c1, if_false, c2, Bool.false_eq_true, c3, if_true, cc, t2, Bool.and_self]

theorem utf8Len_4 (b0 b1 b2 b3 : UInt8) (X : Bytes)
    (h : (b0.toNat = 0xF0 ∧ 0x90 ≤ b1.toNat ∧ b1.toNat ≤ 0xBF) ∨
         (0xF1 ≤ b0.toNat ∧ b0.toNat ≤ 0xF3 ∧ 0x80 ≤ b1.toNat ∧ b1.toNat ≤ 0xBF) ∨
         (b0.toNat = 0xF4 ∧ 0x80 ≤ b1.toNat ∧ b1.toNat ≤ 0x8F))
    (h2 : 0x80 ≤ b2.toNat ∧ b2.toNat ≤ 0xBF) (h3 : 0x80 ≤ b3.toNat ∧ b3.toNat ≤ 0xBF) :
    utf8Len (b0 :: b1 :: b2 :: b3 :: X) = some 4 := by
  have c1 : ¬ b0 ≤ 0x7F := by rw [UInt8.le_iff_toNat_le]; simp; omega
  have c2 : (0xC2 ≤ b0 && b0 ≤ 0xDF) = false := by
    simp [UInt8.le_iff_toNat_le]; omega
  have c3 : (0xE0 ≤ b0 && b0 ≤ 0xEF) = false := by
    simp [UInt8.le_iff_toNat_le]; omega
  have c4 : (0xF0 ≤ b0 && b0 ≤ 0xF4) = true := by
    simp [UInt8.le_iff_toNat_le]; omega
  have t2 : isTail b2 = true := (isTail_iff b2).mpr h2
  have t3 : isTail b3 = true := (isTail_iff b3).mpr h3
  have e0 : ∀ k : UInt8, (b0 == k) = decide (b0.toNat = k.toNat) := by
    intro k
    by_cases h : b0 = k
    · subst h; simp
    · have : b0.toNat ≠ k.toNat := fun e => h (UInt8.toNat_inj.mp e)
      simp [h, this]
  have cc : ((b0 == 0xF0 && 0x90 ≤ b1 && b1 ≤ 0xBF) || (0xF1 ≤ b0 && b0 ≤ 0xF3 && isTail b1) ||
      (b0 == 0xF4 && 0x80 ≤ b1 && b1 ≤ 0x8F)) = true := by
    simp only [e0, isTail, UInt8.le_iff_toNat_le, Bool.or_eq_true, Bool.and_eq_true, decide_eq_true_eq]
    simp
    omega
  simp only [utf8Len, c1, if_false, c2, Bool.false_eq_true, c3, c4, if_true, cc, t2, t3, Bool.and_self]

/-- the UTF-8 form of a Unicode scalar value is one well-formed sequence -/
theorem utf8Len_utf8Enc (u : Nat) (hu : u < 0xD800 ∨ (0xE000 ≤ u ∧ u ≤ 0x10FFFF)) (X : Bytes) :
    utf8Len (utf8Enc u ++ X) = some (utf8Enc u).length := by
  unfold utf8Enc
  by_cases h1 : u < 0x80
  · simp only [h1, if_true, List.cons_append, List.nil_append, List.length_singleton]
    exact utf8Len_1 _ X (by rw [ofNat_toNat_lt (by omega)]; omega)
  · simp only [h1, if_false]
    by_cases h2 : u < 0x800
    · simp only [h2, if_true, List.cons_append, List.nil_append, List.length_cons, List.length_nil]
      exact utf8Len_2 _ _ X (by rw [ofNat_toNat_lt (by omega)]; omega)
        (by rw [ofNat_toNat_lt (by omega)]; omega)
    · simp only [h2, if_false]
      by_cases h3 : u < 0x10000
      · simp only [h3, if_true, List.cons_append, List.nil_append, List.length_cons, List.length_nil]
        refine utf8Len_3 _ _ _ X ?_ (by rw [ofNat_toNat_lt (by omega)]; omega)
        rw [ofNat_toNat_lt (show 0xE0 + u / 4096 < 256 by omega),
          ofNat_toNat_lt (show 0x80 + u / 64 % 64 < 256 by omega)]
        omega
      · simp only [h3, if_false, List.cons_append, List.nil_append, List.length_cons, List.length_nil]
        refine utf8Len_4 _ _ _ _ X ?_ (by rw [ofNat_toNat_lt (by omega)]; omega)
          (by rw [ofNat_toNat_lt (by omega)]; omega)
        rw [ofNat_toNat_lt (show 0xF0 + u / 262144 < 256 by omega),
          ofNat_toNat_lt (show 0x80 + u / 4096 % 64 < 256 by omega)]
        omega

/-! ## strings of the reference parser are UTF-8 -/

theorem hexVal_lt (b : UInt8) (n : Nat) (h : hexVal b = some n) : n < 16 := by
  unfold hexVal at h
  split at h
  · rename_i hc
    simp only [Bool.and_eq_true, decide_eq_true_eq, UInt8.le_iff_toNat_le] at hc
    simp only [Option.some.injEq] at h; subst h
    have := hc.2; simp at this; omega
  · split at h
    · rename_i hc
      simp only [Bool.and_eq_true, decide_eq_true_eq, UInt8.le_iff_toNat_le] at hc
      simp only [Option.some.injEq] at h; subst h
      have := hc.2; have := hc.1; simp at *; omega
    · split at h
      · rename_i hc
        simp only [Bool.and_eq_true, decide_eq_true_eq, UInt8.le_iff_toNat_le] at hc
        simp only [Option.some.injEq] at h; subst h
        have := hc.2; have := hc.1; simp at *; omega
      · cases h

theorem hex4_lt (inp r : Bytes) (u : Nat) (h : hex4 inp = some (u, r)) : u < 0x10000 := by
  unfold hex4 at h
  split at h
  · rename_i a b c d r'
    split at h
    · rename_i x y z w hx hy hz hw
      simp only [Option.some.injEq, Prod.mk.injEq] at h
      have := hexVal_lt _ _ hx; have := hexVal_lt _ _ hy
      have := hexVal_lt _ _ hz; have := hexVal_lt _ _ hw
      omega
    · cases h
  · cases h

theorem uEscape_seq (inp bs r : Bytes) (h : uEscape inp = some (bs, r)) : Utf8Seq bs := by
  unfold uEscape at h
  split at h
  · cases h
  · rename_i u r1 h4
    have hu := hex4_lt _ _ _ h4
    split at h
    · rename_i hc
      simp only [Option.some.injEq, Prod.mk.injEq] at h
      rw [← h.1]
      refine Utf8Seq.single _ (fun X => utf8Len_utf8Enc u ?_ X)
      simp only [Bool.or_eq_true, decide_eq_true_eq] at hc
      omega
    · split at h
      · rename_i hhi
        split at h
        · rename_i r2
          split at h
          · cases h
          · rename_i l r3 h4'
            have hl := hex4_lt _ _ _ h4'
            split at h
            · rename_i hlo
              simp only [Option.some.injEq, Prod.mk.injEq] at h
              rw [← h.1]
              refine Utf8Seq.single _ (fun X => utf8Len_utf8Enc _ ?_ X)
              simp only [Bool.and_eq_true, decide_eq_true_eq] at hlo
              omega
            · cases h
        · cases h
      · cases h

theorem escape_seq (inp bs r : Bytes) (h : escape inp = some (bs, r)) : Utf8Seq bs := by
  have one : ∀ b : UInt8, b.toNat ≤ 0x7F → Utf8Seq [b] := fun b hb =>
    Utf8Seq.single [b] (fun X => utf8Len_1 b X hb)
  unfold escape at h
  split at h
  · cases h
  · rename_i b r'
    repeat' split at h
    all_goals first
      | (simp only [Option.some.injEq, Prod.mk.injEq] at h; rw [← h.1]; exact one _ (by decide))
      | exact uEscape_seq _ _ _ h
      | cases h

theorem strChar_seq (inp bs r : Bytes) (h : strChar inp = some (bs, r)) : Utf8Seq bs := by
  unfold strChar at h
  split at h
  · cases h
  · rename_i b r'
    split at h
    · exact escape_seq _ _ _ h
    · split at h
      · cases h
      · split at h
        · cases h
        · rename_i n hu
          simp only [Option.some.injEq, Prod.mk.injEq] at h
          rw [← h.1]
          -- the first n bytes are one sequence
          rcases utf8Len_cases b r' n hu with ⟨rfl, _, hX⟩ | ⟨rfl, _, b1, r2, rfl, _, hX⟩ |
              ⟨rfl, _, b1, b2, r2, rfl, _, _, hX⟩ | ⟨rfl, _, b1, b2, b3, r2, rfl, _, _, _, hX⟩
          · exact Utf8Seq.single [b] (fun X => hX X)
          · exact Utf8Seq.single [b, b1] (fun X => hX X)
          · exact Utf8Seq.single [b, b1, b2] (fun X => hX X)
          · exact Utf8Seq.single [b, b1, b2, b3] (fun X => hX X)

theorem strBody_seq : ∀ (fuel : Nat) (inp s r : Bytes), strBody fuel inp = some (s, r) → Utf8Seq s := by
  intro fuel
  induction fuel with
  | zero => intro inp s r h; simp [strBody] at h
  | succ f ih =>
    intro inp s r h
    cases inp with
    | nil => simp [strBody] at h
    | cons b t =>
      simp only [strBody] at h
      split at h
      · simp only [Option.some.injEq, Prod.mk.injEq] at h; rw [← h.1]; exact Utf8Seq.nil
      · split at h
        · cases h
        · rename_i bs r' hc
          split at h
          · cases h
          · rename_i s' r'' hb
            simp only [Option.some.injEq, Prod.mk.injEq] at h
            rw [← h.1]
            exact (strChar_seq _ _ _ hc).append (ih _ _ _ hb)

theorem string_seq (inp s r : Bytes) (h : Rfc.string inp = some (s, r)) : Utf8Seq s :=
  strBody_seq _ _ _ _ h

/-! ## members come out sorted -/

theorem keyLt_total : ∀ a b : Bytes, keyLt a b = false → (a == b) = false → keyLt b a = true
  | [], [], _, h => by simp at h
  | [], _ :: _, h, _ => by simp [keyLt] at h
  | _ :: _, [], _, _ => by simp [keyLt]
  | x :: xs, y :: ys, h, hne => by
    simp only [keyLt, Bool.or_eq_false_iff, Bool.and_eq_false_iff, decide_eq_false_iff_not] at h
    simp only [keyLt, Bool.or_eq_true, Bool.and_eq_true, decide_eq_true_eq]
    by_cases hxy : x = y
    · subst hxy
      right
      refine ⟨by simp, keyLt_total xs ys ?_ ?_⟩
      · rcases h.2 with h2 | h2
        · simp at h2
        · exact h2
      · simpa using hne
    · left
      have h1 : ¬ x < y := h.1
      rw [UInt8.lt_iff_toNat_lt] at h1 ⊢
      have : x.toNat ≠ y.toNat := fun e => hxy (UInt8.toNat_inj.mp e)
      omega

/-- first key of a member list is above `k` (or the list is empty) -/
def headAbove (k : Bytes) : List (Bytes × JVal) → Prop
  | [] => True
  | (k', _) :: _ => keyLt k k' = true

theorem keysSorted_cons (k : Bytes) (v : JVal) (d : List (Bytes × JVal)) :
    keysSorted ((k, v) :: d) = true ↔ headAbove k d ∧ keysSorted d = true := by
  cases d with
  | nil => simp [keysSorted, headAbove]
  | cons kv r => obtain ⟨k', v'⟩ := kv; simp [keysSorted, headAbove]

theorem insertKv_sorted (k : Bytes) (v : JVal) : ∀ (d d' : List (Bytes × JVal)),
    keysSorted d = true → insertKv k v d = some d' →
    keysSorted d' = true ∧ (∀ k0, headAbove k0 d → keyLt k0 k = true → headAbove k0 d') ∧
    ∀ x, x ∈ d' ↔ x = (k, v) ∨ x ∈ d
  | [], d', _, h => by
    simp only [insertKv, Option.some.injEq] at h; subst h
    exact ⟨rfl, fun _ _ hk => hk, fun x => by simp⟩
  | (k', v') :: r, d', hs, h => by
    simp only [insertKv] at h
    by_cases h1 : keyLt k k' = true
    · simp only [h1, if_true, Option.some.injEq] at h; subst h
      refine ⟨?_, fun _ _ hk => hk, fun x => by simp⟩
      rw [keysSorted_cons]; exact ⟨h1, hs⟩
    · simp only [h1, Bool.false_eq_true, if_false] at h
      by_cases h2 : (k == k') = true
      · simp [h2] at h
      · simp only [h2, Bool.false_eq_true, if_false] at h
        cases hr : insertKv k v r with
        | none => simp [hr] at h
        | some r' =>
          simp only [hr, Option.some.injEq] at h; subst h
          have hs' := (keysSorted_cons k' v' r).mp hs
          obtain ⟨i1, i2, i3⟩ := insertKv_sorted k v r r' hs'.2 hr
          have hlt : keyLt k' k = true :=
            keyLt_total k k' (by simpa using h1) (by simpa using h2)
          refine ⟨?_, fun k0 hk0 _ => hk0, ?_⟩
          · rw [keysSorted_cons]; exact ⟨i2 k' hs'.1 hlt, i1⟩
          · intro x; simp only [List.mem_cons, i3 x]
            constructor
            · rintro (h | h | h)
              · exact Or.inr (Or.inl h)
              · exact Or.inl h
              · exact Or.inr (Or.inr h)
            · rintro (h | h | h)
              · exact Or.inr (Or.inl h)
              · exact Or.inl h
              · exact Or.inr (Or.inr h)

theorem mkDict_sorted' : ∀ (ms d : List (Bytes × JVal)), mkDict ms = some d →
    keysSorted d = true ∧ ∀ x, x ∈ d → x ∈ ms
  | [], d, h => by simp only [mkDict, Option.some.injEq] at h; subst h; exact ⟨rfl, fun _ hx => hx⟩
  | (k, v) :: r, d, h => by
    simp only [mkDict] at h
    cases hr : mkDict r with
    | none => simp [hr] at h
    | some d0 =>
      simp only [hr] at h
      obtain ⟨s0, m0⟩ := mkDict_sorted' r d0 hr
      obtain ⟨s1, _, m1⟩ := insertKv_sorted k v d0 d s0 h
      refine ⟨s1, fun x hx => ?_⟩
      rcases (m1 x).mp hx with rfl | hx
      · simp
      · simp [m0 x hx]

/-! ## every value of the reference parser is well-formed up to NUL bytes -/

mutual
/-- `wf` with "UTF-8" instead of "UTF-8 without NUL" for strings and names -/
def JVal.wfU : JVal → Prop
  | .int i => -maxInt ≤ i ∧ i ≤ maxInt
  | .float x => isFinite x = true
  | .str s => Utf8Seq s
  | .list l => wfUList l
  | .dict kvs => keysSorted kvs = true ∧ wfUKvs kvs
  | _ => True
def wfUList : List JVal → Prop
  | [] => True
  | v :: vs => v.wfU ∧ wfUList vs
def wfUKvs : List (Bytes × JVal) → Prop
  | [] => True
  | (k, v) :: r => Utf8Seq k ∧ v.wfU ∧ wfUKvs r
end

mutual
/-- no string and no name contains a 0 byte -/
def JVal.noNul : JVal → Prop
  | .str s => ∀ b ∈ s, b ≠ 0
  | .list l => noNulList l
  | .dict kvs => noNulKvs kvs
  | _ => True
def noNulList : List JVal → Prop
  | [] => True
  | v :: vs => v.noNul ∧ noNulList vs
def noNulKvs : List (Bytes × JVal) → Prop
  | [] => True
  | (k, v) :: r => (∀ b ∈ k, b ≠ 0) ∧ v.noNul ∧ noNulKvs r
end

theorem validString_of_seq (s : Bytes) (h : Utf8Seq s) (hz : ∀ b ∈ s, b ≠ 0) : validString s = true :=
  h.valid hz _ (by omega)

mutual
theorem JVal.wf_of_wfU : ∀ v : JVal, v.wfU → v.noNul → v.wf = true
  | .null, _, _ => rfl
  | .bool _, _, _ => rfl
  | .int i, h, _ => by simp only [JVal.wfU] at h; simp [JVal.wf, h.1, h.2]
  | .float x, h, _ => by simpa [JVal.wf, JVal.wfU] using h
  | .str s, h, hz => by
    simp only [JVal.wfU] at h; simp only [JVal.noNul] at hz
    simp [JVal.wf, validString_of_seq s h hz]
  | .list l, h, hz => by
    simp only [JVal.wfU] at h; simp only [JVal.noNul] at hz
    simp [JVal.wf, wfList_of_wfU l h hz]
  | .dict kvs, h, hz => by
    simp only [JVal.wfU] at h; simp only [JVal.noNul] at hz
    simp [JVal.wf, h.1, wfKvs_of_wfU kvs h.2 hz]
theorem wfList_of_wfU : ∀ l : List JVal, wfUList l → noNulList l → wfList l = true
  | [], _, _ => rfl
  | v :: vs, h, hz => by
    simp only [wfUList] at h; simp only [noNulList] at hz
    simp [wfList, JVal.wf_of_wfU v h.1 hz.1, wfList_of_wfU vs h.2 hz.2]
theorem wfKvs_of_wfU : ∀ l : List (Bytes × JVal), wfUKvs l → noNulKvs l → wfKvs l = true
  | [], _, _ => rfl
  | (k, v) :: r, h, hz => by
    simp only [wfUKvs] at h; simp only [noNulKvs] at hz
    simp [wfKvs, validString_of_seq k h.1 hz.1, JVal.wf_of_wfU v h.2.1 hz.2.1, wfKvs_of_wfU r h.2.2 hz.2.2]
end

theorem wfUKvs_of_mem : ∀ d : List (Bytes × JVal), (∀ x ∈ d, Utf8Seq x.1 ∧ x.2.wfU) → wfUKvs d
  | [], _ => trivial
  | (k, v) :: r, h => by
    have h0 := h (k, v) (by simp)
    exact ⟨h0.1, h0.2, wfUKvs_of_mem r (fun x hx => h x (by simp [hx]))⟩

theorem number_wfU (sd : Bytes → Option UInt64) (inp r : Bytes) (v : JVal)
    (h : number sd inp = some (v, r)) : v.wfU := by
  rw [number_eq] at h
  generalize isNeg inp = neg at h
  generalize (if neg = true then inp.drop 1 else inp) = r0 at h
  simp only [numberCore] at h
  repeat' split at h
  all_goals first
    | (cases h; done)
    | skip
  all_goals
    simp only [Option.some.injEq, Prod.mk.injEq] at h
    rw [← h.1]
  all_goals first
    | (simp only [JVal.wfU, isFinite]; assumption)
    | (have e1 : maxInt = 9007199254740991 := by decide
       have e2 : Rfc.maxInt = 9007199254740991 := by decide
       simp only [Bool.and_eq_true, decide_eq_true_eq, e2] at *
       simp only [JVal.wfU, e1]
       omega)

theorem value_wfU (sd : Bytes → Option UInt64) : ∀ fuel : Nat,
    (∀ inp v r, value sd fuel inp = some (v, r) → v.wfU) ∧
    (∀ inp l r, elems sd fuel inp = some (l, r) → wfUList l) ∧
    (∀ inp ms r, members sd fuel inp = some (ms, r) → ∀ x ∈ ms, Utf8Seq x.1 ∧ x.2.wfU) := by
  intro fuel
  induction fuel with
  | zero =>
    refine ⟨?_, ?_, ?_⟩
    · intro inp v r h; simp [value] at h
    · intro inp l r h; simp [elems] at h
    · intro inp ms r h; simp [members] at h
  | succ f ih =>
    obtain ⟨ihv, ihe, ihm⟩ := ih
    refine ⟨?_, ?_, ?_⟩
    · intro inp v r h
      cases inp with
      | nil => simp [value] at h
      | cons b t =>
        simp only [value] at h
        split at h
        · -- array
          split at h
          · cases h
          · split at h
            · simp only [Option.some.injEq, Prod.mk.injEq] at h; rw [← h.1]; trivial
            · split at h
              · cases h
              · rename_i l r'' he
                simp only [Option.some.injEq, Prod.mk.injEq] at h; rw [← h.1]
                exact ihe _ _ _ he
        · split at h
          · -- object
            split at h
            · cases h
            · split at h
              · simp only [Option.some.injEq, Prod.mk.injEq] at h; rw [← h.1]
                exact ⟨rfl, trivial⟩
              · split at h
                · cases h
                · rename_i ms r'' hm
                  split at h
                  · cases h
                  · rename_i d hd
                    simp only [Option.some.injEq, Prod.mk.injEq] at h; rw [← h.1]
                    obtain ⟨s1, m1⟩ := mkDict_sorted' ms d hd
                    exact ⟨s1, wfUKvs_of_mem d (fun x hx => ihm _ _ _ hm x (m1 x hx))⟩
          · split at h
            · -- string
              split at h
              · cases h
              · rename_i s r' hs
                simp only [Option.some.injEq, Prod.mk.injEq] at h; rw [← h.1]
                exact string_seq _ _ _ hs
            · repeat' split at h
              all_goals first
                | (cases h; done)
                | exact number_wfU sd _ _ _ h
                | (simp only [Option.some.injEq, Prod.mk.injEq] at h; rw [← h.1]; simp [JVal.wfU])
    · intro inp l r h
      simp only [elems] at h
      split at h
      · cases h
      · rename_i v r1 hv
        split at h
        · cases h
        · split at h
          · split at h
            · cases h
            · rename_i vs r'' he
              simp only [Option.some.injEq, Prod.mk.injEq] at h; rw [← h.1]
              exact ⟨ihv _ _ _ hv, ihe _ _ _ he⟩
          · split at h
            · simp only [Option.some.injEq, Prod.mk.injEq] at h; rw [← h.1]
              exact ⟨ihv _ _ _ hv, trivial⟩
            · cases h
    · intro inp ms r h
      cases inp with
      | nil => simp [members] at h
      | cons q t =>
        simp only [members] at h
        split at h
        · split at h
          · cases h
          · rename_i k r1 hk
            split at h
            · cases h
            · split at h
              · split at h
                · cases h
                · rename_i v r3 hv
                  split at h
                  · cases h
                  · split at h
                    · split at h
                      · cases h
                      · rename_i ms' r5 hm
                        simp only [Option.some.injEq, Prod.mk.injEq] at h; rw [← h.1]
                        intro x hx
                        simp only [List.mem_cons] at hx
                        rcases hx with rfl | hx
                        · exact ⟨string_seq _ _ _ hk, ihv _ _ _ hv⟩
                        · exact ihm _ _ _ hm x hx
                    · split at h
                      · simp only [Option.some.injEq, Prod.mk.injEq] at h; rw [← h.1]
                        intro x hx
                        simp only [List.mem_singleton] at hx
                        subst hx
                        exact ⟨string_seq _ _ _ hk, ihv _ _ _ hv⟩
                      · cases h
              · cases h
        · cases h

/-- **Values of the reference parser are well-formed** (given no NUL byte in strings, which
`json.c` cannot represent and refuses) -/
theorem parse_wf (sd : Bytes → Option UInt64) (doc : Bytes) (v : JVal)
    (h : Rfc.parse sd doc = some v) (hz : v.noNul) : v.wf = true := by
  unfold Rfc.parse at h
  split at h
  · cases h
  · rename_i v' r hv
    split at h
    · simp only [Option.some.injEq] at h; subst h
      exact JVal.wf_of_wfU _ ((value_wfU sd _).1 _ _ _ hv) hz
    · cases h

end Usual.C03
