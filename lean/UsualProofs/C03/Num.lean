import Usual.C03.Render
/-! C03 proofs — numbers: `renderInt` read back by `Rfc.number`; number tokens in context. -/
namespace Usual.C03
open Rfc

/-- the decimal digit character -/
def digit (k : Nat) : UInt8 := UInt8.ofNat (0x30 + k)

theorem digit_facts : ∀ k : Fin 10,
    isDigit (digit k) = true ∧ (digit k).toNat - 0x30 = k.val ∧
    ((digit k == 0x30) = decide (k.val = 0)) ∧
    ((0x31 ≤ digit k && digit k ≤ 0x39) = decide (k.val ≠ 0)) ∧
    (digit k == 0x2D) = false := by decide

theorem isDigit_digit {k : Nat} (h : k < 10) : isDigit (digit k) = true := (digit_facts ⟨k, h⟩).1
theorem digit_val {k : Nat} (h : k < 10) : (digit k).toNat - 0x30 = k := (digit_facts ⟨k, h⟩).2.1

/-! ## decNat -/

theorem decAux_acc : ∀ (f n : Nat) (acc : Bytes), n < f → decAux f n acc = decAux f n [] ++ acc := by
  intro f
  induction f with
  | zero => intro n acc h; omega
  | succ f ih =>
    intro n acc h
    unfold decAux
    by_cases h10 : n < 10
    · simp [h10]
    · simp only [h10, if_false]
      have hlt : n / 10 < f := by omega
      rw [ih (n / 10) _ hlt, ih (n / 10) [_] hlt]
      simp

theorem decAux_fuel : ∀ (f g n : Nat) (acc : Bytes), n < f → n < g → decAux f n acc = decAux g n acc := by
  intro f
  induction f with
  | zero => intro g n acc h; omega
  | succ f ih =>
    intro g n acc h hg
    cases g with
    | zero => omega
    | succ g =>
      unfold decAux
      by_cases h10 : n < 10
      · simp [h10]
      · simp only [h10, if_false]
        exact ih g (n / 10) _ (by omega) (by omega)

theorem decNat_small {n : Nat} (h : n < 10) : decNat n = [digit n] := by
  simp [decNat, decAux, h, digit]

theorem decNat_rec {n : Nat} (h : 10 ≤ n) : decNat n = decNat (n / 10) ++ [digit (n % 10)] := by
  have h10 : ¬ n < 10 := by omega
  rw [decNat, decAux]
  simp only [h10, if_false]
  rw [decAux_acc n (n / 10) _ (by omega), decAux_fuel n (n / 10 + 1) (n / 10) [] (by omega) (by omega)]
  rfl

theorem natOfDigits_snoc (ds : Bytes) (d : UInt8) :
    natOfDigits (ds ++ [d]) = natOfDigits ds * 10 + (d.toNat - 0x30) := by
  simp [natOfDigits, List.foldl_append]

theorem natOfDigits_decNat (n : Nat) : natOfDigits (decNat n) = n := by
  induction n using Nat.strongRecOn with
  | _ n ih =>
    by_cases h : n < 10
    · rw [decNat_small h]
      simp [natOfDigits, digit_val h]
    · rw [decNat_rec (by omega), natOfDigits_snoc, ih (n / 10) (by omega), digit_val (by omega)]
      omega

/-- all bytes are decimal digits -/
def allDigits (l : Bytes) : Prop := ∀ b ∈ l, isDigit b = true

theorem allDigits_decNat (n : Nat) : allDigits (decNat n) := by
  induction n using Nat.strongRecOn with
  | _ n ih =>
    by_cases h : n < 10
    · rw [decNat_small h]; intro b hb; simp at hb; subst hb; exact isDigit_digit h
    · rw [decNat_rec (by omega)]
      intro b hb
      simp only [List.mem_append, List.mem_singleton] at hb
      rcases hb with hb | hb
      · exact ih (n / 10) (by omega) b hb
      · subst hb; exact isDigit_digit (by omega)

/-- shape of `decNat`: a single `0`, or a non-zero leading digit followed by digits -/
theorem decNat_shape (n : Nat) :
    (n = 0 ∧ decNat n = [0x30]) ∨
    (0 < n ∧ ∃ k ds, 0 < k ∧ k < 10 ∧ decNat n = digit k :: ds ∧ allDigits ds) := by
  induction n using Nat.strongRecOn with
  | _ n ih =>
    by_cases h : n < 10
    · by_cases h0 : n = 0
      · left; subst h0; exact ⟨rfl, rfl⟩
      · right; exact ⟨by omega, n, [], by omega, h, decNat_small h, by intro b hb; cases hb⟩
    · right
      refine ⟨by omega, ?_⟩
      rcases ih (n / 10) (by omega) with ⟨h0, _⟩ | ⟨_, k, ds, hk0, hk, he, hd⟩
      · omega
      · refine ⟨k, ds ++ [digit (n % 10)], hk0, hk, ?_, ?_⟩
        · rw [decNat_rec (by omega), he]; rfl
        · intro b hb
          simp only [List.mem_append, List.mem_singleton] at hb
          rcases hb with hb | hb
          · exact hd b hb
          · subst hb; exact isDigit_digit (by omega)


/-- what may follow a value inside a document: nothing, `,`, `]` or `}` -/
def Term (rest : Bytes) : Prop :=
  match rest with
  | [] => True
  | b :: _ => b = 0x2C ∨ b = 0x5D ∨ b = 0x7D

theorem Term.head {b : UInt8} {r : Bytes} (h : Term (b :: r)) :
    isDigit b = false ∧ (b == 0x2E) = false ∧ (b == 0x65 || b == 0x45) = false ∧ isWs b = false := by
  rcases h with h | h | h <;> subst h <;> decide

theorem digits_append (a rest : Bytes) (h : Term rest) :
    digits (a ++ rest) = digits a ∧ afterDigits (a ++ rest) = afterDigits a ++ rest := by
  induction a with
  | nil =>
    cases rest with
    | nil => simp [digits, afterDigits]
    | cons b r => simp [digits, afterDigits, (Term.head h).1]
  | cons b a ih =>
    by_cases hb : isDigit b = true
    · simp [digits, afterDigits, hb, ih.1, ih.2]
    · simp [digits, afterDigits, hb]

theorem digits_all (ds rest : Bytes) (hd : allDigits ds) (h : Term rest) :
    digits (ds ++ rest) = ds ∧ afterDigits (ds ++ rest) = rest := by
  induction ds with
  | nil => simpa [digits, afterDigits] using digits_append [] rest h
  | cons b ds ih =>
    have hb : isDigit b = true := hd b (by simp)
    have := ih (fun x hx => hd x (by simp [hx]))
    simp [digits, afterDigits, hb, this.1, this.2]

theorem intPart_append (a c r rest : Bytes) (h : intPart a = some (c, r)) (ht : Term rest) :
    intPart (a ++ rest) = some (c, r ++ rest) := by
  cases a with
  | nil => simp [intPart] at h
  | cons b a =>
    simp only [intPart, List.cons_append] at h ⊢
    by_cases h0 : (b == 0x30) = true
    · simp only [h0, if_true, Option.some.injEq, Prod.mk.injEq] at h ⊢
      obtain ⟨rfl, rfl⟩ := h; simp
    · simp only [h0, Bool.false_eq_true, if_false] at h ⊢
      by_cases h1 : (0x31 ≤ b && b ≤ 0x39) = true
      · simp only [h1, if_true, Option.some.injEq, Prod.mk.injEq] at h ⊢
        obtain ⟨rfl, rfl⟩ := h
        simp [(digits_append a rest ht).1, (digits_append a rest ht).2]
      · simp [h1] at h

theorem fracPart_append (a c r rest : Bytes) (h : fracPart a = some (c, r)) (ht : Term rest) :
    fracPart (a ++ rest) = some (c, r ++ rest) := by
  cases a with
  | nil =>
    simp [fracPart] at h
    obtain ⟨rfl, rfl⟩ := h
    cases rest with
    | nil => simp [fracPart]
    | cons b r =>
      have := (Term.head ht).2.1
      unfold fracPart
      split
      · rename_i heq; simp at heq; simp [heq.1] at this
      · simp
  | cons b a =>
    by_cases hb : b = 0x2E
    · subst hb
      simp only [fracPart, List.cons_append] at h ⊢
      rw [(digits_append a rest ht).1, (digits_append a rest ht).2]
      by_cases hd : (digits a == []) = true
      · simp [hd] at h
      · simp only [hd, Bool.false_eq_true, if_false, Option.some.injEq, Prod.mk.injEq] at h ⊢
        obtain ⟨rfl, rfl⟩ := h; simp
    · have e1 : fracPart (b :: a) = some ([], b :: a) := by
        unfold fracPart; split
        · rename_i heq; simp at heq; exact absurd heq.1 hb
        · rfl
      have e2 : fracPart (b :: a ++ rest) = some ([], b :: a ++ rest) := by
        unfold fracPart; split
        · rename_i heq; simp at heq; exact absurd heq.1 hb
        · rfl
      rw [e1] at h
      simp only [Option.some.injEq, Prod.mk.injEq] at h
      obtain ⟨rfl, rfl⟩ := h
      rw [e2]

theorem expPart_append (a c r rest : Bytes) (h : expPart a = some (c, r)) (ht : Term rest) :
    expPart (a ++ rest) = some (c, r ++ rest) := by
  cases a with
  | nil =>
    simp [expPart] at h
    obtain ⟨rfl, rfl⟩ := h
    cases rest with
    | nil => simp [expPart]
    | cons b r => simp [expPart, (Term.head ht).2.2.1]
  | cons b a =>
    simp only [expPart, List.cons_append] at h ⊢
    by_cases hb : (b == 0x65 || b == 0x45) = true
    · simp only [hb, if_true] at h ⊢
      cases a with
      | nil => simp at h
      | cons s a' =>
        simp only [List.cons_append] at h ⊢
        by_cases hs : (s == 0x2B || s == 0x2D) = true
        · simp only [hs, if_true] at h ⊢
          rw [(digits_append a' rest ht).1, (digits_append a' rest ht).2]
          by_cases hd : (digits a' == []) = true
          · simp [hd] at h
          · simp only [hd, Bool.false_eq_true, if_false, Option.some.injEq, Prod.mk.injEq] at h ⊢
            obtain ⟨rfl, rfl⟩ := h; simp
        · simp only [hs, Bool.false_eq_true, if_false] at h ⊢
          have := digits_append (s :: a') rest ht
          simp only [List.cons_append] at this
          rw [this.1, this.2]
          by_cases hd : (digits (s :: a') == []) = true
          · simp [hd] at h
          · simp only [hd, Bool.false_eq_true, if_false, Option.some.injEq, Prod.mk.injEq] at h ⊢
            obtain ⟨rfl, rfl⟩ := h; simp
    · simp only [hb, Bool.false_eq_true, if_false, Option.some.injEq, Prod.mk.injEq] at h ⊢
      obtain ⟨rfl, rfl⟩ := h; simp

def isNeg : Bytes → Bool
  | 0x2D :: _ => true
  | _ => false

/-- `Rfc.number` after the sign has been looked at -/
def numberCore (sd : Bytes → Option UInt64) (neg : Bool) (r0 : Bytes) : Option (JVal × Bytes) :=
  match intPart r0 with
  | none => none
  | some (ip, r1) =>
    match fracPart r1 with
    | none => none
    | some (fp, r2) =>
      match expPart r2 with
      | none => none
      | some (ep, r3) =>
        if fp == [] && ep == [] && natOfDigits ip ≤ Rfc.maxInt then
          some (.int (if neg then - (natOfDigits ip : Int) else (natOfDigits ip : Int)), r3)
        else
          match sd ((if neg then [0x2D] else []) ++ ip ++ fp ++ ep) with
          | none => none
          | some x => if isFiniteBits x then some (.float x, r3) else none

theorem number_eq (sd : Bytes → Option UInt64) (inp : Bytes) :
    number sd inp = numberCore sd (isNeg inp) (if isNeg inp then inp.drop 1 else inp) := rfl

theorem isNeg_cons (b : UInt8) (a : Bytes) : isNeg (b :: a) = (b == 0x2D) := by
  by_cases hb : b = 0x2D
  · subst hb; rfl
  · unfold isNeg; split
    · rename_i heq; simp at heq; exact absurd heq.1 hb
    · simp [hb]

theorem numberCore_append (sd : Bytes → Option UInt64) (neg : Bool) (r0 r rest : Bytes) (v : JVal)
    (h : numberCore sd neg r0 = some (v, r)) (ht : Term rest) :
    numberCore sd neg (r0 ++ rest) = some (v, r ++ rest) := by
  simp only [numberCore] at h ⊢
  cases hi : intPart r0 with
  | none => simp [hi] at h
  | some p =>
    obtain ⟨ip, r1⟩ := p
    rw [intPart_append r0 ip r1 rest hi ht]
    simp only [hi] at h ⊢
    cases hf : fracPart r1 with
    | none => simp [hf] at h
    | some p =>
      obtain ⟨fp, r2⟩ := p
      rw [fracPart_append r1 fp r2 rest hf ht]
      simp only [hf] at h ⊢
      cases he : expPart r2 with
      | none => simp [he] at h
      | some p =>
        obtain ⟨ep, r3⟩ := p
        rw [expPart_append r2 ep r3 rest he ht]
        simp only [he] at h ⊢
        by_cases hc : (fp == [] && ep == [] && decide (natOfDigits ip ≤ Rfc.maxInt)) = true
        · simp only [hc, if_true, Option.some.injEq, Prod.mk.injEq] at h ⊢
          obtain ⟨rfl, rfl⟩ := h; simp
        · simp only [hc, Bool.false_eq_true, if_false] at h ⊢
          cases hs : sd ((if neg = true then [0x2D] else []) ++ ip ++ fp ++ ep) with
          | none => rw [hs] at h; simp at h
          | some x =>
            simp only [hs] at h ⊢
            by_cases hx : isFiniteBits x = true
            · simp only [hx, if_true, Option.some.injEq, Prod.mk.injEq] at h ⊢
              obtain ⟨rfl, rfl⟩ := h; simp
            · simp [hx] at h

/-- a number token followed by a terminator is read the same way -/
theorem number_append (sd : Bytes → Option UInt64) (a r rest : Bytes) (v : JVal)
    (h : number sd a = some (v, r)) (ht : Term rest) :
    number sd (a ++ rest) = some (v, r ++ rest) := by
  cases a with
  | nil => simp [number_eq, numberCore, isNeg, intPart] at h
  | cons b a =>
    rw [number_eq] at h ⊢
    rw [List.cons_append, isNeg_cons] at *
    have : (if (b == 0x2D) = true then (b :: (a ++ rest)).drop 1 else b :: (a ++ rest)) =
        (if (b == 0x2D) = true then (b :: a).drop 1 else b :: a) ++ rest := by
      cases (b == 0x2D) <;> simp
    rw [this]
    exact numberCore_append sd _ _ r rest v h ht

theorem intPart_split (a c r : Bytes) (h : intPart a = some (c, r)) : a = c ++ r := by
  cases a with
  | nil => simp [intPart] at h
  | cons b a =>
    simp only [intPart] at h
    by_cases h0 : (b == 0x30) = true
    · simp only [h0, if_true, Option.some.injEq, Prod.mk.injEq] at h
      obtain ⟨rfl, rfl⟩ := h; rfl
    · simp only [h0, Bool.false_eq_true, if_false] at h
      by_cases h1 : (0x31 ≤ b && b ≤ 0x39) = true
      · simp only [h1, if_true, Option.some.injEq, Prod.mk.injEq] at h
        obtain ⟨rfl, rfl⟩ := h
        have : ∀ l : Bytes, l = digits l ++ afterDigits l := by
          intro l; induction l with
          | nil => rfl
          | cons x l ih => by_cases hx : isDigit x = true <;> simp [digits, afterDigits, hx]; exact ih
        simp [← this a]
      · simp [h1] at h

theorem digits_split (l : Bytes) : l = digits l ++ afterDigits l := by
  induction l with
  | nil => rfl
  | cons x l ih => by_cases hx : isDigit x = true <;> simp [digits, afterDigits, hx]; exact ih

theorem fracPart_split (a c r : Bytes) (h : fracPart a = some (c, r)) : a = c ++ r := by
  unfold fracPart at h
  split at h
  · rename_i r'
    by_cases hd : (digits r' == []) = true
    · simp [hd] at h
    · simp only [hd, Bool.false_eq_true, if_false, Option.some.injEq, Prod.mk.injEq] at h
      obtain ⟨rfl, rfl⟩ := h
      simp [← digits_split r']
  · simp only [Option.some.injEq, Prod.mk.injEq] at h
    obtain ⟨rfl, rfl⟩ := h; rfl

theorem expPart_split (a c r : Bytes) (h : expPart a = some (c, r)) : a = c ++ r := by
  cases a with
  | nil => simp [expPart] at h; obtain ⟨rfl, rfl⟩ := h; rfl
  | cons b a =>
    simp only [expPart] at h
    by_cases hb : (b == 0x65 || b == 0x45) = true
    · simp only [hb, if_true] at h
      cases a with
      | nil => simp at h
      | cons s a' =>
        simp only at h
        by_cases hs : (s == 0x2B || s == 0x2D) = true
        · simp only [hs, if_true] at h
          by_cases hd : (digits a' == []) = true
          · simp [hd] at h
          · simp only [hd, Bool.false_eq_true, if_false, Option.some.injEq, Prod.mk.injEq] at h
            obtain ⟨rfl, rfl⟩ := h
            simp [← digits_split a']
        · simp only [hs, Bool.false_eq_true, if_false] at h
          by_cases hd : (digits (s :: a') == []) = true
          · simp [hd] at h
          · simp only [hd, Bool.false_eq_true, if_false, Option.some.injEq, Prod.mk.injEq] at h
            obtain ⟨rfl, rfl⟩ := h
            simp [← digits_split (s :: a')]
    · simp only [hb, Bool.false_eq_true, if_false, Option.some.injEq, Prod.mk.injEq] at h
      obtain ⟨rfl, rfl⟩ := h; rfl

/-- a token of the float class is read as a float whatever `strtod` is, and `strtod` is handed
exactly the token -/
theorem numberCore_float (sd0 sd : Bytes → Option UInt64) (neg : Bool) (r0 : Bytes) (z : UInt64)
    (h : numberCore sd0 neg r0 = some (.float z, [])) :
    numberCore sd neg r0 =
      match sd ((if neg then [0x2D] else []) ++ r0) with
      | none => none
      | some x => if isFiniteBits x then some (.float x, []) else none := by
  simp only [numberCore] at h ⊢
  cases hi : intPart r0 with
  | none => simp [hi] at h
  | some p =>
    obtain ⟨ip, r1⟩ := p
    simp only [hi] at h ⊢
    cases hf : fracPart r1 with
    | none => simp [hf] at h
    | some p =>
      obtain ⟨fp, r2⟩ := p
      simp only [hf] at h ⊢
      cases he : expPart r2 with
      | none => simp [he] at h
      | some p =>
        obtain ⟨ep, r3⟩ := p
        simp only [he] at h ⊢
        by_cases hc : (fp == [] && ep == [] && decide (natOfDigits ip ≤ Rfc.maxInt)) = true
        · rw [if_pos hc] at h; simp at h
        · simp only [hc, Bool.false_eq_true, if_false] at h ⊢
          have hr3 : r3 = [] := by
            cases hs : sd0 ((if neg = true then [0x2D] else []) ++ ip ++ fp ++ ep) with
            | none => rw [hs] at h; simp at h
            | some x =>
              rw [hs] at h
              by_cases hx : isFiniteBits x = true
              · simp [hx] at h; exact h.2
              · simp [hx] at h
          subst hr3
          have e : r0 = ip ++ fp ++ ep := by
            rw [intPart_split r0 ip r1 hi, fracPart_split r1 fp r2 hf, expPart_split r2 ep [] he]
            simp
          rw [e]
          simp only [List.append_assoc]

theorem number_floatTok (sd : Bytes → Option UInt64) (t rest : Bytes) (x : UInt64)
    (ht : floatTok t = true) (hs : sd t = some x) (hx : isFiniteBits x = true) (hr : Term rest) :
    number sd (t ++ rest) = some (.float x, rest) := by
  have h0 : ∃ z, number (fun _ => some 0) t = some (.float z, []) := by
    unfold floatTok at ht
    split at ht
    · rename_i z heq; exact ⟨z, heq⟩
    · cases ht
  obtain ⟨z, h0⟩ := h0
  have h1 : number sd t = some (.float x, []) := by
    cases t with
    | nil => simp [number_eq, numberCore, isNeg, intPart] at h0
    | cons b a =>
      rw [number_eq] at h0 ⊢
      rw [numberCore_float _ sd _ _ z h0]
      have : (if isNeg (b :: a) = true then [0x2D] else []) ++
          (if isNeg (b :: a) = true then (b :: a).drop 1 else b :: a) = b :: a := by
        rw [isNeg_cons]
        by_cases hb : b = 0x2D
        · subst hb; simp
        · simp [hb]
      rw [this, hs]
      simp [hx]
  simpa using number_append sd t [] rest _ h1 hr

/-- the first byte of a float token is `-` or a digit -/
theorem floatTok_head (t : Bytes) (ht : floatTok t = true) :
    ∃ b r, t = b :: r ∧ (b = 0x2D ∨ isDigit b = true) := by
  unfold floatTok at ht
  split at ht
  · rename_i z heq
    cases t with
    | nil => simp [number_eq, numberCore, isNeg, intPart] at heq
    | cons b a =>
      refine ⟨b, a, rfl, ?_⟩
      by_cases hb : b = 0x2D
      · exact Or.inl hb
      · right
        rw [number_eq, isNeg_cons] at heq
        have hb' : (b == 0x2D) = false := by simp [hb]
        simp only [hb', Bool.false_eq_true, if_false, numberCore, intPart] at heq
        by_cases h0 : (b == 0x30) = true
        · have : b = 0x30 := by simpa using h0
          subst this; decide
        · by_cases h1 : (0x31 ≤ b && b ≤ 0x39) = true
          · simp only [Bool.and_eq_true, decide_eq_true_eq] at h1
            simp only [isDigit, Bool.and_eq_true, decide_eq_true_eq]
            refine ⟨?_, h1.2⟩
            exact UInt8.le_trans (by decide) h1.1
          · simp [h0, h1] at heq
  · cases ht

theorem intPart_decNat (n : Nat) : intPart (decNat n) = some (decNat n, []) := by
  rcases decNat_shape n with ⟨_, h⟩ | ⟨_, k, ds, hk0, hk, he, hd⟩
  · rw [h]; rfl
  · rw [he]
    have f := digit_facts ⟨k, hk⟩
    have h30 : (digit k == 0x30) = false := by rw [f.2.2.1]; simp; omega
    have h19 : (0x31 ≤ digit k && digit k ≤ 0x39) = true := by rw [f.2.2.2.1]; simp; omega
    have hd' := digits_all ds [] hd trivial
    simp only [List.append_nil] at hd'
    simp only [intPart, h30, Bool.false_eq_true, if_false, h19, if_true, hd'.1, hd'.2]

theorem isNeg_decNat (n : Nat) : isNeg (decNat n) = false := by
  rcases decNat_shape n with ⟨_, h⟩ | ⟨_, k, ds, hk0, hk, he, hd⟩
  · rw [h]; rfl
  · rw [he, isNeg_cons]; exact (digit_facts ⟨k, hk⟩).2.2.2.2

/-- `Rfc.number` reads `renderInt i` back as `.int i` -/
theorem number_renderInt (sd : Bytes → Option UInt64) (i : Int) (rest : Bytes)
    (hi : i.natAbs ≤ Rfc.maxInt) (hr : Term rest) :
    number sd (renderInt i ++ rest) = some (.int i, rest) := by
  have core : ∀ neg, numberCore sd neg (decNat i.natAbs) =
      some (.int (if neg then -(i.natAbs : Int) else (i.natAbs : Int)), []) := by
    intro neg
    simp only [numberCore, intPart_decNat, fracPart, expPart, natOfDigits_decNat]
    simp [hi]
  have h1 : number sd (renderInt i) = some (.int i, []) := by
    rw [number_eq]
    unfold renderInt
    by_cases hneg : i < 0
    · simp only [hneg, if_true]
      have : isNeg (0x2D :: decNat i.natAbs) = true := rfl
      rw [this]
      simp only [if_true, List.drop_succ_cons, List.drop_zero, core]
      have : -(i.natAbs : Int) = i := by omega
      rw [this]
    · simp only [hneg, if_false, isNeg_decNat, Bool.false_eq_true, core]
      have : (i.natAbs : Int) = i := by omega
      rw [this]
  simpa using number_append sd _ [] rest _ h1 hr

/-! ## a concrete (`fmt17`, `strtod`) pair satisfying the hypotheses of the round trip
(used only to show that the hypotheses are satisfiable: the bit pattern written in decimal
followed by `.0`) -/

def fmtCanon (x : UInt64) : Bytes := decNat x.toNat ++ [0x2E, 0x30]
def sdCanon (t : Bytes) : Option UInt64 := some (UInt64.ofNat (natOfDigits (digits t)))

theorem digits_all_dot (ds rest : Bytes) (hd : allDigits ds) :
    digits (ds ++ 0x2E :: rest) = ds ∧ afterDigits (ds ++ 0x2E :: rest) = 0x2E :: rest := by
  induction ds with
  | nil => simp [digits, afterDigits, isDigit]
  | cons b ds ih =>
    have hb : isDigit b = true := hd b (by simp)
    have := ih (fun x hx => hd x (by simp [hx]))
    simp [digits, afterDigits, hb, this.1, this.2]

theorem renderFloat_canon (x : UInt64) : renderFloat fmtCanon x = fmtCanon x := by
  simp [renderFloat, fmtCanon]

theorem floatTok_canon (x : UInt64) : floatTok (fmtCanon x) = true := by
  have hi : intPart (fmtCanon x) = some (decNat x.toNat, [0x2E, 0x30]) := by
    unfold fmtCanon
    rcases decNat_shape x.toNat with ⟨_, h⟩ | ⟨_, k, ds, hk0, hk, he, hd⟩
    · rw [h]; rfl
    · rw [he]
      have f := digit_facts ⟨k, hk⟩
      have h30 : (digit k == 0x30) = false := by rw [f.2.2.1]; simp; omega
      have h19 : (0x31 ≤ digit k && digit k ≤ 0x39) = true := by rw [f.2.2.2.1]; simp; omega
      have hd' := digits_all_dot ds [0x30] hd
      simp only [List.cons_append, intPart, h30, Bool.false_eq_true, if_false, h19, if_true, hd'.1, hd'.2]
  have hn : isNeg (fmtCanon x) = false := by
    unfold fmtCanon
    rcases decNat_shape x.toNat with ⟨_, h⟩ | ⟨_, k, ds, hk0, hk, he, hd⟩
    · rw [h]; rfl
    · rw [he, List.cons_append, isNeg_cons]; exact (digit_facts ⟨k, hk⟩).2.2.2.2
  unfold floatTok
  rw [number_eq, hn]
  simp only [Bool.false_eq_true, if_false, numberCore, hi]
  have hf : fracPart [0x2E, 0x30] = some ([0x2E, 0x30], []) := by decide
  have he : expPart [] = some ([], []) := rfl
  simp only [hf, he]
  have : isFiniteBits 0 = true := by decide
  simp [this]

theorem sdCanon_canon (x : UInt64) : sdCanon (fmtCanon x) = some x := by
  unfold sdCanon fmtCanon
  rw [(digits_all_dot (decNat x.toNat) [0x30] (allDigits_decNat _)).1, natOfDigits_decNat]
  simp

/-- the canonical `strtod` in the shape C02 uses (bits, bytes consumed) -/
def sdCanonC (t : Bytes) : UInt64 × Nat := (UInt64.ofNat (natOfDigits (digits t)), t.length)

theorem sdCanonC_canon (x : UInt64) : sdCanonC (fmtCanon x) = (x, (fmtCanon x).length) := by
  have := sdCanon_canon x
  simp only [sdCanon, Option.some.injEq] at this
  simp [sdCanonC, this]

theorem decNat_length_le : ∀ (k n : Nat), n < 10 ^ (k + 1) → (decNat n).length ≤ k + 1 := by
  intro k
  induction k with
  | zero => intro n h; rw [decNat_small (by simpa using h)]; simp
  | succ k ih =>
    intro n h
    by_cases h10 : n < 10
    · rw [decNat_small h10]; simp
    · rw [decNat_rec (by omega)]
      have : n / 10 < 10 ^ (k + 1) := by
        rw [Nat.pow_succ] at h; omega
      have := ih (n / 10) this
      simp only [List.length_append, List.length_singleton]; omega

theorem fmtCanon_short (x : UInt64) : (fmtCanon x).length < 100 := by
  have h : x.toNat < 10 ^ (19 + 1) := by
    have := x.toNat_lt
    omega
  have := decNat_length_le 19 x.toNat h
  simp only [fmtCanon, List.length_append, List.length_cons, List.length_nil]; omega

end Usual.C03
