import UsualProofs.C03.RoundTrip
import UsualProofs.C03.BuildInv
import UsualProofs.C02.RfcFinal
/-! C03 ∘ C02 — the round trip with the `json_parse` model (`Usual.C02.parse`, property C02) in
place of the reference: `json_parse(json_render(v)) = v`. -/
namespace Usual.C03

/-- well-formed trees with short names satisfy C02's precondition `okV` (no NUL in strings and
names, names ≤ `JSON_MAX_KEY`) -/
theorem no_zero_of_valid (s : Bytes) (h : validString s = true) : (0 : UInt8) ∉ s :=
  fun hm => validStr_ntz _ s h 0 hm rfl

theorem jsonMaxKey_eq : Heap.jsonMaxKey = Usual.Gen.C02Tables.JSON_MAX_KEY := by decide

mutual
theorem okV_of_wf : ∀ v : JVal, v.wf = true → v.shortKeys → Usual.C02.okV v
  | .null, _, _ => trivial
  | .bool _, _, _ => trivial
  | .int _, _, _ => trivial
  | .float _, _, _ => trivial
  | .str s, h, _ => by
    simp only [Usual.C02.okV]; exact no_zero_of_valid s (by simpa [JVal.wf] using h)
  | .list l, h, hs => by
    simp only [Usual.C02.okV]
    exact okL_of_wf l (by simpa [JVal.wf] using h) (by simpa [JVal.shortKeys] using hs)
  | .dict kvs, h, hs => by
    simp only [Usual.C02.okV]
    have : keysSorted kvs = true ∧ wfKvs kvs = true := by simpa [JVal.wf] using h
    exact okM_of_wf kvs this.2 (by simpa [JVal.shortKeys] using hs)
theorem okL_of_wf : ∀ l : List JVal, wfList l = true → shortKeysList l → Usual.C02.okL l
  | [], _, _ => trivial
  | v :: vs, h, hs => by
    have hw : v.wf = true ∧ wfList vs = true := by simpa [wfList] using h
    simp only [shortKeysList] at hs
    exact ⟨okV_of_wf v hw.1 hs.1, okL_of_wf vs hw.2 hs.2⟩
theorem okM_of_wf : ∀ l : List (Bytes × JVal), wfKvs l = true → shortKeysKvs l → Usual.C02.okM l
  | [], _, _ => trivial
  | (k, v) :: r, h, hs => by
    have hw : (validString k = true ∧ v.wf = true) ∧ wfKvs r = true := by simpa [wfKvs] using h
    simp only [shortKeysKvs] at hs
    refine ⟨⟨no_zero_of_valid k hw.1.1, ?_, okV_of_wf v hw.1.2 hs.2.1⟩, okM_of_wf r hw.2 hs.2.2⟩
    rw [← jsonMaxKey_eq]; exact hs.1
end

/-- the reference conversion induced by the platform's `strtod`: defined on the tokens C02's
precondition admits (short, with `.`/`e`/`E`) that `strtod` consumes entirely with a finite result -/
def rsdOf (sd : Bytes → UInt64 × Nat) (tok : Bytes) : Option UInt64 :=
  if tok.length < Usual.Gen.C02Tables.NUMBER_BUF ∧ tok.any Usual.C02.isFloatChar = true ∧
      (sd tok).2 = tok.length ∧ Rfc.isFiniteBits (sd tok).1 = true then some (sd tok).1 else none

theorem strtodAgrees_rsdOf (sd : Bytes → UInt64 × Nat) : Usual.C02.StrtodAgrees (rsdOf sd) sd := by
  intro tok x h _
  unfold rsdOf at h
  split at h
  · rename_i hc
    simp only [Option.some.injEq] at h
    refine ⟨hc.1, hc.2.1, ?_⟩
    rw [← h, ← hc.2.2.1]
  · cases h

theorem renderFloat_has_floatChar (fmt17 : UInt64 → Bytes) (x : UInt64) :
    (renderFloat fmt17 x).any Usual.C02.isFloatChar = true := by
  unfold renderFloat
  simp only
  split
  · rename_i hc
    simp only [Bool.or_eq_true, List.contains_iff_mem] at hc
    rw [List.any_eq_true]
    rcases hc with hc | hc
    · exact ⟨_, hc, by decide⟩
    · exact ⟨_, hc, by decide⟩
  · rw [List.any_eq_true]
    exact ⟨0x2E, by simp, by decide⟩

/-- **`json_parse ∘ json_render = id`** on the models of both functions, for all four option sets. -/
theorem c02_parse_render (sd : Bytes → UInt64 × Nat) (fmt17 : UInt64 → Bytes)
    (hsyn : ∀ x, isFinite x = true → floatTok (renderFloat fmt17 x) = true)
    (hlen : ∀ x, isFinite x = true → (renderFloat fmt17 x).length < Usual.Gen.C02Tables.NUMBER_BUF)
    (hsd : ∀ x, isFinite x = true → sd (renderFloat fmt17 x) = (x, (renderFloat fmt17 x).length))
    (v : JVal) (hv : v.wf = true) (hk : v.shortKeys) (o : Usual.C02.Opts) :
    Usual.C02.parse sd o (render fmt17 v) = .ok v := by
  have hf : ∀ x, isFinite x = true → rsdOf sd (renderFloat fmt17 x) = some x := by
    intro x hx
    unfold rsdOf
    rw [if_pos]
    · rw [hsd x hx]
    · refine ⟨hlen x hx, renderFloat_has_floatChar fmt17 x, ?_, ?_⟩
      · rw [hsd x hx]
      · rw [hsd x hx]; exact hx
  have H : FloatHyp (rsdOf sd) fmt17 id := fun x hx => ⟨hsyn x hx, hf x hx, hx⟩
  have hp : Rfc.parse (rsdOf sd) (render fmt17 v) = some v := by
    rw [parse_render (rsdOf sd) fmt17 id H v hv, JVal.mapF_id]
  exact Usual.C02.parse_of_rfc (rsdOf sd) sd o (strtodAgrees_rsdOf sd) _ v hp (okV_of_wf v hv hk)

end Usual.C03
