import Usual.C03.Render
/-! C03 proofs — strings: un-escaping the rendered string literal gives the string back. -/
namespace Usual.C03
open Rfc

/-! ## hex -/

theorem hexVal_hexLower : ∀ d : Fin 16, hexVal (hexLower d) = some d.val := by decide

theorem hex4_hex04 (c : Nat) (hc : c < 0x10000) (R : Bytes) : hex4 (hex04 c ++ R) = some (c, R) := by
  have h1 := hexVal_hexLower ⟨c / 4096 % 16, by omega⟩
  have h2 := hexVal_hexLower ⟨c / 256 % 16, by omega⟩
  have h3 := hexVal_hexLower ⟨c / 16 % 16, by omega⟩
  have h4 := hexVal_hexLower ⟨c % 16, by omega⟩
  simp only at h1 h2 h3 h4
  simp only [hex04, List.cons_append, List.nil_append, hex4, h1, h2, h3, h4, Option.some.injEq,
    Prod.mk.injEq, and_true]
  omega

/-! ## escape of a single escaped character -/

theorem escapeChar_cons (c : Nat) : escapeChar c = 0x5C :: (escapeChar c).tail := rfl

/-- bytes `escape_char` is called with for one-byte characters -/
def special (b : UInt8) : Bool := b == 0x22 || b == 0x5C || b < 0x20

theorem escape_escapeChar_ascii (b : UInt8) (hs : special b = true) (R : Bytes) :
    escape ((escapeChar b.toNat).tail ++ R) = some ([b], R) := by
  by_cases h22 : b = 0x22
  · subst h22; rfl
  by_cases h5c : b = 0x5C
  · subst h5c; rfl
  by_cases h8 : b = 0x08
  · subst h8; rfl
  by_cases hc : b = 0x0C
  · subst hc; rfl
  by_cases ha : b = 0x0A
  · subst ha; rfl
  by_cases hd : b = 0x0D
  · subst hd; rfl
  by_cases h9 : b = 0x09
  · subst h9; rfl
  have hlt : b.toNat < 0x20 := by
    simp only [special, Bool.or_eq_true, beq_iff_eq, decide_eq_true_eq] at hs
    rcases hs with (h | h) | h
    · exact absurd h h22
    · exact absurd h h5c
    · exact UInt8.lt_iff_toNat_lt.mp h
  have hne : ∀ k : Nat, k < 256 → b ≠ UInt8.ofNat k → b.toNat ≠ k := by
    intro k hk hb he
    apply hb
    rw [← he]; simp
  have n22 := hne 0x22 (by omega) h22
  have n5c := hne 0x5C (by omega) h5c
  have n8 := hne 0x08 (by omega) h8
  have nc := hne 0x0C (by omega) hc
  have na := hne 0x0A (by omega) ha
  have nd := hne 0x0D (by omega) hd
  have n9 := hne 0x09 (by omega) h9
  have hec : escapeChar b.toNat = 0x5C :: 0x75 :: hex04 b.toNat := by
    simp [escapeChar, n22, n5c, n8, nc, na, nd, n9]
  rw [hec]
  simp only [List.tail_cons, List.cons_append]
  have : escape (0x75 :: (hex04 b.toNat ++ R)) = uEscape (hex04 b.toNat ++ R) := rfl
  rw [this, uEscape, hex4_hex04 _ (by omega)]
  have hd8 : (decide (b.toNat < 0xD800) || decide (0xDFFF < b.toNat)) = true := by
    simp; omega
  simp only [hd8, if_true, utf8Enc]
  have h80 : b.toNat < 0x80 := by omega
  simp [h80]

theorem escape_ls (R : Bytes) : escape ((escapeChar 0x2028).tail ++ R) = some ([0xE2, 0x80, 0xA8], R) := rfl
theorem escape_ps (R : Bytes) : escape ((escapeChar 0x2029).tail ++ R) = some ([0xE2, 0x80, 0xA9], R) := rfl

/-! ## structure of one UTF-8 sequence -/

theorem isTail_iff (b : UInt8) : isTail b = true ↔ 0x80 ≤ b.toNat ∧ b.toNat ≤ 0xBF := by
  simp [isTail, UInt8.le_iff_toNat_le]

theorem utf8Len_cases (b : UInt8) (r : Bytes) (n : Nat) (h : utf8Len (b :: r) = some n) :
    (n = 1 ∧ b.toNat ≤ 0x7F ∧ ∀ X, utf8Len (b :: X) = some 1) ∨
    (n = 2 ∧ (0xC2 ≤ b.toNat ∧ b.toNat ≤ 0xDF) ∧ ∃ b1 r', r = b1 :: r' ∧ isTail b1 = true ∧
        ∀ X, utf8Len (b :: b1 :: X) = some 2) ∨
    (n = 3 ∧ (0xE0 ≤ b.toNat ∧ b.toNat ≤ 0xEF) ∧ ∃ b1 b2 r', r = b1 :: b2 :: r' ∧ isTail b1 = true ∧ isTail b2 = true ∧
        ∀ X, utf8Len (b :: b1 :: b2 :: X) = some 3) ∨
    (n = 4 ∧ (0xF0 ≤ b.toNat ∧ b.toNat ≤ 0xF4) ∧ ∃ b1 b2 b3 r', r = b1 :: b2 :: b3 :: r' ∧ isTail b1 = true ∧
        isTail b2 = true ∧ isTail b3 = true ∧ ∀ X, utf8Len (b :: b1 :: b2 :: b3 :: X) = some 4) := by
  unfold utf8Len at h
  by_cases c1 : b ≤ 0x7F
  · simp only [c1, if_true, Option.some.injEq] at h
    left
    refine ⟨h.symm, UInt8.le_iff_toNat_le.mp c1, fun X => by simp [utf8Len, c1]⟩
  · simp only [c1, if_false] at h
    have hb80 : 0x80 ≤ b.toNat := by
      have : ¬ b.toNat ≤ (0x7F : UInt8).toNat := fun hh => c1 (UInt8.le_iff_toNat_le.mpr hh)
      simp at this; omega
    right
    by_cases c2 : (0xC2 ≤ b && b ≤ 0xDF) = true
    · simp only [c2, if_true] at h
      left
      cases r with
      | nil => simp at h
      | cons b1 r' =>
        simp only at h
        by_cases t1 : isTail b1 = true
        · simp only [t1, if_true, Option.some.injEq] at h
          have hr2 : 0xC2 ≤ b.toNat ∧ b.toNat ≤ 0xDF := by
            simpa [UInt8.le_iff_toNat_le] using c2
          exact ⟨h.symm, hr2, b1, r', rfl, t1, fun X => by simp [utf8Len, c1, c2, t1]⟩
        · simp [t1] at h
    · simp only [c2, Bool.false_eq_true, if_false] at h
      right
      by_cases c3 : (0xE0 ≤ b && b ≤ 0xEF) = true
      · simp only [c3, if_true] at h
        left
        match r, h with
        | b1 :: b2 :: r', h =>
          simp only at h
          split at h
          · rename_i hc
            simp only [Option.some.injEq] at h
            have hr3 : 0xE0 ≤ b.toNat ∧ b.toNat ≤ 0xEF := by
              simpa [UInt8.le_iff_toNat_le] using c3
            refine ⟨h.symm, hr3, b1, b2, r', rfl, ?_, ?_, fun X => by simp [utf8Len, c1, c2, c3, hc]⟩
            · simp only [Bool.and_eq_true, Bool.or_eq_true, beq_iff_eq, decide_eq_true_eq,
                UInt8.le_iff_toNat_le] at hc
              rw [isTail_iff]
              rcases hc.1 with ((h1 | h1) | h1) | h1
              · exact ⟨by have := h1.1.2; simp at this; omega, by have := h1.2; simp at this; omega⟩
              · exact (isTail_iff b1).mp h1.2
              · exact ⟨by have := h1.1.2; simp at this; omega, by have := h1.2; simp at this; omega⟩
              · exact (isTail_iff b1).mp h1.2
            · simp only [Bool.and_eq_true] at hc; exact hc.2
          · cases h
        | [], h => simp at h
        | [_], h => simp at h
      · simp only [c3, Bool.false_eq_true, if_false] at h
        right
        by_cases c4 : (0xF0 ≤ b && b ≤ 0xF4) = true
        · simp only [c4, if_true] at h
          match r, h with
          | b1 :: b2 :: b3 :: r', h =>
            simp only at h
            split at h
            · rename_i hc
              simp only [Option.some.injEq] at h
              have hr4 : 0xF0 ≤ b.toNat ∧ b.toNat ≤ 0xF4 := by
                simpa [UInt8.le_iff_toNat_le] using c4
              refine ⟨h.symm, hr4, b1, b2, b3, r', rfl, ?_, ?_, ?_,
                fun X => by simp [utf8Len, c1, c2, c3, c4, hc]⟩
              · simp only [Bool.and_eq_true, Bool.or_eq_true, beq_iff_eq, decide_eq_true_eq,
                  UInt8.le_iff_toNat_le] at hc
                rw [isTail_iff]
                rcases hc.1.1 with (h1 | h1) | h1
                · exact ⟨by have := h1.1.2; simp at this; omega, by have := h1.2; simp at this; omega⟩
                · exact (isTail_iff b1).mp h1.2
                · exact ⟨by have := h1.1.2; simp at this; omega, by have := h1.2; simp at this; omega⟩
              · simp only [Bool.and_eq_true] at hc; exact hc.1.2
              · simp only [Bool.and_eq_true] at hc; exact hc.2
            · cases h
          | [], h => simp at h
          | [_], h => simp at h
          | [_, _], h => simp at h
        · simp [c4] at h

/-! ## the render loop on one sequence -/

theorem needsEscape_tail (t : UInt8) (r : Bytes) (ht : isTail t = true) : needsEscape t r = false := by
  have := (isTail_iff t).mp ht
  have h1 : (t == 0x22) = false := by simp; intro h; subst h; simp at this
  have h2 : (t == 0x5C) = false := by simp; intro h; subst h; simp at this
  have h3 : (t == 0xE2) = false := by simp; intro h; subst h; simp at this
  have h4 : decide (t < 0x20) = false := by
    simp [UInt8.lt_iff_toNat_lt]; omega
  simp [needsEscape, h1, h2, h3, h4]

theorem needsEscape_ascii (b : UInt8) (r : Bytes) (hb : b.toNat ≤ 0x7F) : needsEscape b r = special b := by
  have h3 : (b == 0xE2) = false := by simp; intro h; subst h; simp at hb
  simp [needsEscape, special, h3]

theorem needsEscape_lead (b : UInt8) (r : Bytes) (hb : 0x80 ≤ b.toNat) (hne : b.toNat ≠ 0xE2) :
    needsEscape b r = false := by
  have h1 : (b == 0x22) = false := by simp; intro h; subst h; simp at hb
  have h2 : (b == 0x5C) = false := by simp; intro h; subst h; simp at hb
  have h3 : (b == 0xE2) = false := by simp; intro h; subst h; simp at hne
  have h4 : decide (b < 0x20) = false := by simp [UInt8.lt_iff_toNat_lt]; omega
  simp [needsEscape, h1, h2, h3, h4]

theorem escBody_plain (b : UInt8) (r : Bytes) (h : needsEscape b r = false) :
    escBody 0 (b :: r) = b :: escBody 0 r := by
  simp [escBody, h]

theorem escBody_skip (k : Nat) (b : UInt8) (r : Bytes) (h : needsEscape b r = false) :
    escBody (k + 1) (b :: r) = escBody k r := by
  simp [escBody, h]

theorem strBody_step (g : Nat) (b : UInt8) (R c R' s' rest : Bytes)
    (hq : (b == 0x22) = false) (hc : strChar (b :: R) = some (c, R'))
    (hs : strBody g R' = some (s', rest)) :
    strBody (g + 1) (b :: R) = some (c ++ s', rest) := by
  simp [strBody, hq, hc, hs]

theorem strChar_plain (b : UInt8) (R : Bytes) (n : Nat) (h5c : (b == 0x5C) = false)
    (hq : (b == 0x22 || decide (b < 0x20)) = false) (hu : utf8Len (b :: R) = some n) :
    strChar (b :: R) = some ((b :: R).take n, (b :: R).drop n) := by
  simp only [strChar, h5c, Bool.false_eq_true, if_false, hq, hu]

theorem lead_plain (b : UInt8) (hb : 0x80 ≤ b.toNat) :
    (b == 0x5C) = false ∧ (b == 0x22 || decide (b < 0x20)) = false ∧ (b == 0x22) = false := by
  have h1 : (b == 0x22) = false := by simp; intro h; subst h; simp at hb
  have h2 : (b == 0x5C) = false := by simp; intro h; subst h; simp at hb
  have h4 : decide (b < 0x20) = false := by simp [UInt8.lt_iff_toNat_lt]; omega
  simp [h1, h2, h4]

/-- **escape / unescape.**  For a valid NUL-free UTF-8 string, reading the rendered body back
with the reference string grammar gives the string. -/
theorem strBody_escBody : ∀ (f : Nat) (s : Bytes), validStr f s = true →
    ∀ (g : Nat) (rest : Bytes), (escBody 0 s).length < g →
      strBody g (escBody 0 s ++ 0x22 :: rest) = some (s, rest) := by
  intro f
  induction f with
  | zero => intro s h; simp [validStr] at h
  | succ f ih =>
    intro s h g rest hg
    cases s with
    | nil =>
      cases g with
      | zero => simp at hg
      | succ g => simp [escBody, strBody]
    | cons b r =>
      simp only [validStr] at h
      by_cases hz : (b == 0) = true
      · simp [hz] at h
      simp only [hz, Bool.false_eq_true, if_false] at h
      cases hu : utf8Len (b :: r) with
      | none => simp [hu] at h
      | some n =>
        simp only [hu] at h
        cases g with
        | zero => simp at hg
        | succ g =>
        rcases utf8Len_cases b r n hu with ⟨rfl, hb, hX⟩ | ⟨rfl, hb, b1, r', rfl, t1, hX⟩ |
            ⟨rfl, hb, b1, b2, r', rfl, t1, t2, hX⟩ | ⟨rfl, hb, b1, b2, b3, r', rfl, t1, t2, t3, hX⟩
        · -- one byte
          simp only [List.drop_succ_cons, List.drop_zero] at h
          by_cases hs : special b = true
          · have hne : needsEscape b r = true := by rw [needsEscape_ascii b r hb]; exact hs
            have hE2 : (b == 0xE2) = false := by simp; intro h; subst h; simp at hb
            have he : escBody 0 (b :: r) = escapeChar b.toNat ++ escBody 0 r := by
              simp [escBody, hne, hE2]
            rw [he, escapeChar_cons] at hg ⊢
            simp only [List.cons_append, List.append_assoc]
            have hc : strChar (0x5C :: ((escapeChar b.toNat).tail ++ (escBody 0 r ++ 0x22 :: rest))) =
                some ([b], escBody 0 r ++ 0x22 :: rest) := by
              simp only [strChar]
              exact escape_escapeChar_ascii b hs _
            have := strBody_step g 0x5C _ _ _ r rest (by decide) hc
              (ih r h g rest (by simp at hg; omega))
            simpa using this
          · have hs' : special b = false := by simpa using hs
            have hne : needsEscape b r = false := by rw [needsEscape_ascii b r hb]; exact hs'
            rw [escBody_plain b r hne] at hg ⊢
            simp only [special, Bool.or_eq_false_iff] at hs'
            have hc := strChar_plain b (escBody 0 r ++ 0x22 :: rest) 1 hs'.1.2
              (by simp [hs'.1.1, hs'.2]) (hX _)
            simp only [List.take_succ_cons, List.take_zero, List.drop_succ_cons, List.drop_zero] at hc
            have := strBody_step g b _ _ _ r rest hs'.1.1 hc (ih r h g rest (by simp at hg; omega))
            simpa using this
        · -- two bytes
          simp only [List.drop_succ_cons, List.drop_zero] at h
          have hlp := lead_plain b (by omega)
          have hne : needsEscape b (b1 :: r') = false := needsEscape_lead b _ (by omega) (by omega)
          have he : escBody 0 (b :: b1 :: r') = b :: b1 :: escBody 0 r' := by
            rw [escBody_plain b _ hne, escBody_plain b1 _ (needsEscape_tail b1 r' t1)]
          rw [he] at hg ⊢
          have hc := strChar_plain b (b1 :: (escBody 0 r' ++ 0x22 :: rest)) 2 hlp.1 hlp.2.1 (hX _)
          simp only [List.take_succ_cons, List.take_zero, List.drop_succ_cons, List.drop_zero] at hc
          have := strBody_step g b _ _ _ r' rest hlp.2.2 hc (ih r' h g rest (by simp at hg; omega))
          simpa using this
        · -- three bytes
          simp only [List.drop_succ_cons, List.drop_zero] at h
          have hlp := lead_plain b (by omega)
          by_cases hls : needsEscape b (b1 :: b2 :: r') = true
          · -- U+2028 / U+2029
            have hbE2 : b = 0xE2 := by
              by_cases hh : b.toNat = 0xE2
              · exact UInt8.toNat_inj.mp hh
              · rw [needsEscape_lead b _ (by omega) hh] at hls; cases hls
            subst hbE2
            have hb12 : b1 = 0x80 ∧ (b2 = 0xA8 ∨ b2 = 0xA9) := by
              simpa [needsEscape] using hls
            obtain ⟨rfl, hb2⟩ := hb12
            have hsk : ∀ k, escBody (k + 2) (0x80 :: b2 :: r') = escBody k r' := by
              intro k
              rw [escBody_skip (k + 1) _ _ (needsEscape_tail _ _ t1),
                escBody_skip k _ _ (needsEscape_tail _ _ t2)]
            rcases hb2 with rfl | rfl
            · have he : escBody 0 (0xE2 :: 0x80 :: 0xA8 :: r') = escapeChar 0x2028 ++ escBody 0 r' := by
                rw [← hsk 0]; simp [escBody, hls]
              rw [he, escapeChar_cons] at hg ⊢
              simp only [List.cons_append, List.append_assoc]
              have hc : strChar (0x5C :: ((escapeChar 0x2028).tail ++ (escBody 0 r' ++ 0x22 :: rest))) =
                  some ([0xE2, 0x80, 0xA8], escBody 0 r' ++ 0x22 :: rest) := by
                simp only [strChar]; exact escape_ls _
              have := strBody_step g 0x5C _ _ _ r' rest (by decide) hc
                (ih r' h g rest (by simp at hg; omega))
              simpa using this
            · have he : escBody 0 (0xE2 :: 0x80 :: 0xA9 :: r') = escapeChar 0x2029 ++ escBody 0 r' := by
                rw [← hsk 0]; simp [escBody, hls]
              rw [he, escapeChar_cons] at hg ⊢
              simp only [List.cons_append, List.append_assoc]
              have hc : strChar (0x5C :: ((escapeChar 0x2029).tail ++ (escBody 0 r' ++ 0x22 :: rest))) =
                  some ([0xE2, 0x80, 0xA9], escBody 0 r' ++ 0x22 :: rest) := by
                simp only [strChar]; exact escape_ps _
              have := strBody_step g 0x5C _ _ _ r' rest (by decide) hc
                (ih r' h g rest (by simp at hg; omega))
              simpa using this
          · have hne : needsEscape b (b1 :: b2 :: r') = false := by simpa using hls
            have he : escBody 0 (b :: b1 :: b2 :: r') = b :: b1 :: b2 :: escBody 0 r' := by
              rw [escBody_plain b _ hne, escBody_plain b1 _ (needsEscape_tail b1 _ t1),
                escBody_plain b2 _ (needsEscape_tail b2 _ t2)]
            rw [he] at hg ⊢
            have hc := strChar_plain b (b1 :: b2 :: (escBody 0 r' ++ 0x22 :: rest)) 3 hlp.1 hlp.2.1 (hX _)
            simp only [List.take_succ_cons, List.take_zero, List.drop_succ_cons, List.drop_zero] at hc
            have := strBody_step g b _ _ _ r' rest hlp.2.2 hc (ih r' h g rest (by simp at hg; omega))
            simpa using this
        · -- four bytes
          simp only [List.drop_succ_cons, List.drop_zero] at h
          have hlp := lead_plain b (by omega)
          have hne : needsEscape b (b1 :: b2 :: b3 :: r') = false :=
            needsEscape_lead b _ (by omega) (by omega)
          have he : escBody 0 (b :: b1 :: b2 :: b3 :: r') = b :: b1 :: b2 :: b3 :: escBody 0 r' := by
            rw [escBody_plain b _ hne, escBody_plain b1 _ (needsEscape_tail b1 _ t1),
              escBody_plain b2 _ (needsEscape_tail b2 _ t2), escBody_plain b3 _ (needsEscape_tail b3 _ t3)]
          rw [he] at hg ⊢
          have hc := strChar_plain b (b1 :: b2 :: b3 :: (escBody 0 r' ++ 0x22 :: rest)) 4 hlp.1 hlp.2.1 (hX _)
          simp only [List.take_succ_cons, List.take_zero, List.drop_succ_cons, List.drop_zero] at hc
          have := strBody_step g b _ _ _ r' rest hlp.2.2 hc (ih r' h g rest (by simp at hg; omega))
          simpa using this

/-- `Rfc.string` (after the opening quotation mark) reads the rendered body back -/
theorem string_escBody (s rest : Bytes) (h : validString s = true) :
    Rfc.string (escBody 0 s ++ 0x22 :: rest) = some (s, rest) := by
  unfold Rfc.string
  exact strBody_escBody _ s h _ rest (by simp; omega)

end Usual.C03
