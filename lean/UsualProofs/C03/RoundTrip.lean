import UsualProofs.C03.Num
import UsualProofs.C03.Str
/-! C03 proofs — `Rfc.value` reads `render v` back (structural induction over the value tree). -/
namespace Usual.C03
open Rfc

/-! ## replacing the doubles of a tree (identity for the round trip; a constant for pure
recognition, where `strtod` is irrelevant) -/

mutual
def JVal.mapF (g : UInt64 → UInt64) : JVal → JVal
  | .float x => .float (g x)
  | .list l => .list (mapFList g l)
  | .dict kvs => .dict (mapFKvs g kvs)
  | .null => .null
  | .bool b => .bool b
  | .int i => .int i
  | .str s => .str s
def mapFList (g : UInt64 → UInt64) : List JVal → List JVal
  | [] => []
  | v :: vs => v.mapF g :: mapFList g vs
def mapFKvs (g : UInt64 → UInt64) : List (Bytes × JVal) → List (Bytes × JVal)
  | [] => []
  | (k, v) :: r => (k, v.mapF g) :: mapFKvs g r
end

mutual
theorem JVal.mapF_id : ∀ v : JVal, v.mapF id = v
  | .float x => rfl
  | .list l => by simp [JVal.mapF, mapFList_id l]
  | .dict kvs => by simp [JVal.mapF, mapFKvs_id kvs]
  | .null => rfl
  | .bool b => rfl
  | .int i => rfl
  | .str s => rfl
theorem mapFList_id : ∀ l : List JVal, mapFList id l = l
  | [] => rfl
  | v :: vs => by simp [mapFList, JVal.mapF_id v, mapFList_id vs]
theorem mapFKvs_id : ∀ l : List (Bytes × JVal), mapFKvs id l = l
  | [] => rfl
  | (k, v) :: r => by simp [mapFKvs, JVal.mapF_id v, mapFKvs_id r]
end

/-! ## fuel a value needs -/

mutual
def need : JVal → Nat
  | .list l => needList l + 1
  | .dict kvs => needKvs kvs + 1
  | _ => 1
def needList : List JVal → Nat
  | [] => 0
  | v :: vs => max (need v) (needList vs) + 1
def needKvs : List (Bytes × JVal) → Nat
  | [] => 0
  | (_, v) :: r => max (need v) (needKvs r) + 1
end

/-! ## sorted members -/

theorem keysSorted_mapF (g : UInt64 → UInt64) : ∀ kvs, keysSorted (mapFKvs g kvs) = keysSorted kvs
  | [] => rfl
  | [(k, v)] => rfl
  | (k, v) :: (k', v') :: r => by
    have := keysSorted_mapF g ((k', v') :: r)
    simp only [mapFKvs] at this ⊢
    simp [keysSorted, this]

theorem mkDict_sorted : ∀ kvs : List (Bytes × JVal), keysSorted kvs = true → mkDict kvs = some kvs
  | [], _ => rfl
  | [(k, v)], _ => rfl
  | (k, v) :: (k', v') :: r, h => by
    simp only [keysSorted, Bool.and_eq_true] at h
    have ih := mkDict_sorted ((k', v') :: r) h.2
    rw [mkDict, ih]
    simp [insertKv, h.1]

/-! ## first byte of a rendered value -/

/-- a byte that can start a value: not white space, not a closing bracket -/
def GoodHead (c : UInt8) : Prop := isWs c = false ∧ (c == 0x5D) = false ∧ (c == 0x7D) = false

theorem goodHead_num (c : UInt8) (h : c = 0x2D ∨ isDigit c = true) :
    GoodHead c ∧ (c == 0x5B) = false ∧ (c == 0x7B) = false ∧ (c == 0x22) = false ∧
    (c == 0x66) = false ∧ (c == 0x6E) = false ∧ (c == 0x74) = false := by
  rcases h with h | h
  · subst h; unfold GoodHead; decide
  · have hd : 0x30 ≤ c.toNat ∧ c.toNat ≤ 0x39 := by
      simpa [isDigit, UInt8.le_iff_toNat_le] using h
    have ne : ∀ k : UInt8, (k.toNat < 0x30 ∨ 0x39 < k.toNat) → (c == k) = false := by
      intro k hk; simp; intro e; subst e; omega
    refine ⟨⟨?_, ne _ (by decide), ne _ (by decide)⟩, ne _ (by decide), ne _ (by decide),
      ne _ (by decide), ne _ (by decide), ne _ (by decide), ne _ (by decide)⟩
    simp [isWs, ne 0x20 (by decide), ne 0x09 (by decide), ne 0x0A (by decide), ne 0x0D (by decide)]

theorem skipWs_good (c : UInt8) (r : Bytes) (h : isWs c = false) : skipWs (c :: r) = c :: r := by
  simp [skipWs, h]

theorem value_number (sd : Bytes → Option UInt64) (fuel : Nat) (c : UInt8) (r : Bytes)
    (h : c = 0x2D ∨ isDigit c = true) : value sd (fuel + 1) (c :: r) = number sd (c :: r) := by
  obtain ⟨_, h1, h2, h3, h4, h5, h6⟩ := goodHead_num c h
  simp [value, h1, h2, h3, h4, h5, h6]

theorem renderInt_head (i : Int) : ∃ c r, renderInt i = c :: r ∧ (c = 0x2D ∨ isDigit c = true) := by
  unfold renderInt
  by_cases h : i < 0
  · simp [h]
  · simp only [h, if_false]
    rcases decNat_shape i.natAbs with ⟨_, e⟩ | ⟨_, k, ds, _, hk, e, _⟩
    · rw [e]; exact ⟨_, _, rfl, Or.inr (by decide)⟩
    · rw [e]; exact ⟨_, _, rfl, Or.inr (isDigit_digit hk)⟩

end Usual.C03
