import UsualProofs.C03.Num
import UsualProofs.C03.Str
/-! C03 proofs — `Rfc.value` reads `render v` back (structural induction over the value tree). -/
namespace Usual.C03
open Rfc

/-! ## replacing the doubles of a tree (identity for the round trip; a constant for pure
recognition, where `strtod` is irrelevant) -/

mutual
def JVal.mapF (g : UInt64 → UInt64) : JVal → JVal
  | .float x => .float (g x)
  | .list l => .list (mapFList g l)
  | .dict kvs => .dict (mapFKvs g kvs)
  | .null => .null
  | .bool b => .bool b
  | .int i => .int i
  | .str s => .str s
def mapFList (g : UInt64 → UInt64) : List JVal → List JVal
  | [] => []
  | v :: vs => v.mapF g :: mapFList g vs
def mapFKvs (g : UInt64 → UInt64) : List (Bytes × JVal) → List (Bytes × JVal)
  | [] => []
  | (k, v) :: r => (k, v.mapF g) :: mapFKvs g r
end

mutual
theorem JVal.mapF_id : ∀ v : JVal, v.mapF id = v
  | .float x => rfl
  | .list l => by simp [JVal.mapF, mapFList_id l]
  | .dict kvs => by simp [JVal.mapF, mapFKvs_id kvs]
  | .null => rfl
  | .bool b => rfl
  | .int i => rfl
  | .str s => rfl
theorem mapFList_id : ∀ l : List JVal, mapFList id l = l
  | [] => rfl
  | v :: vs => by simp [mapFList, JVal.mapF_id v, mapFList_id vs]
theorem mapFKvs_id : ∀ l : List (Bytes × JVal), mapFKvs id l = l
  | [] => rfl
  | (k, v) :: r => by simp [mapFKvs, JVal.mapF_id v, mapFKvs_id r]
end

/-! ## fuel a value needs -/

mutual
def need : JVal → Nat
  | .list l => needList l + 1
  | .dict kvs => needKvs kvs + 1
  | _ => 1
def needList : List JVal → Nat
  | [] => 0
  | v :: vs => max (need v) (needList vs) + 1
def needKvs : List (Bytes × JVal) → Nat
  | [] => 0
  | (_, v) :: r => max (need v) (needKvs r) + 1
end

/-! ## sorted members -/

theorem keysSorted_mapF (g : UInt64 → UInt64) : ∀ kvs, keysSorted (mapFKvs g kvs) = keysSorted kvs
  | [] => rfl
  | [(k, v)] => rfl
  | (k, v) :: (k', v') :: r => by
    have := keysSorted_mapF g ((k', v') :: r)
    simp only [mapFKvs] at this ⊢
    simp [keysSorted, this]

theorem mkDict_sorted : ∀ kvs : List (Bytes × JVal), keysSorted kvs = true → mkDict kvs = some kvs
  | [], _ => rfl
  | [(k, v)], _ => rfl
  | (k, v) :: (k', v') :: r, h => by
    simp only [keysSorted, Bool.and_eq_true] at h
    have ih := mkDict_sorted ((k', v') :: r) h.2
    rw [mkDict, ih]
    simp [insertKv, h.1]

/-! ## first byte of a rendered value -/

/-- a byte that can start a value: not white space, not a closing bracket -/
def GoodHead (c : UInt8) : Prop := isWs c = false ∧ (c == 0x5D) = false ∧ (c == 0x7D) = false

theorem goodHead_num (c : UInt8) (h : c = 0x2D ∨ isDigit c = true) :
    GoodHead c ∧ (c == 0x5B) = false ∧ (c == 0x7B) = false ∧ (c == 0x22) = false ∧
    (c == 0x66) = false ∧ (c == 0x6E) = false ∧ (c == 0x74) = false := by
  rcases h with h | h
  · subst h; unfold GoodHead; decide
  · have hd : 0x30 ≤ c.toNat ∧ c.toNat ≤ 0x39 := by
      simpa [isDigit, UInt8.le_iff_toNat_le] using h
    have ne : ∀ k : UInt8, (k.toNat < 0x30 ∨ 0x39 < k.toNat) → (c == k) = false := by
      intro k hk; simp; intro e; subst e; omega
    refine ⟨⟨?_, ne _ (by decide), ne _ (by decide)⟩, ne _ (by decide), ne _ (by decide),
      ne _ (by decide), ne _ (by decide), ne _ (by decide), ne _ (by decide)⟩
    simp [isWs, ne 0x20 (by decide), ne 0x09 (by decide), ne 0x0A (by decide), ne 0x0D (by decide)]

theorem skipWs_good (c : UInt8) (r : Bytes) (h : isWs c = false) : skipWs (c :: r) = c :: r := by
  simp [skipWs, h]

theorem value_number (sd : Bytes → Option UInt64) (fuel : Nat) (c : UInt8) (r : Bytes)
    (h : c = 0x2D ∨ isDigit c = true) : value sd (fuel + 1) (c :: r) = number sd (c :: r) := by
  obtain ⟨_, h1, h2, h3, h4, h5, h6⟩ := goodHead_num c h
  simp [value, h1, h2, h3, h4, h5, h6]

theorem renderInt_head (i : Int) : ∃ c r, renderInt i = c :: r ∧ (c = 0x2D ∨ isDigit c = true) := by
  unfold renderInt
  by_cases h : i < 0
  · simp [h]
  · simp only [h, if_false]
    rcases decNat_shape i.natAbs with ⟨_, e⟩ | ⟨_, k, ds, _, hk, e, _⟩
    · rw [e]; exact ⟨_, _, rfl, Or.inr (by decide)⟩
    · rw [e]; exact ⟨_, _, rfl, Or.inr (isDigit_digit hk)⟩

/-! ## the main induction -/

/-- what the round trip needs from the pair (`%.17g`, `strtod`): every rendered finite double is a
number token of the float class (syntax) that `strtod` maps to the finite double `g x` -/
def FloatHyp (sd : Bytes → Option UInt64) (fmt17 : UInt64 → Bytes) (g : UInt64 → UInt64) : Prop :=
  ∀ x, isFinite x = true →
    floatTok (renderFloat fmt17 x) = true ∧ sd (renderFloat fmt17 x) = some (g x) ∧
    isFiniteBits (g x) = true

theorem int_wf_natAbs (i : Int) (h : (JVal.int i).wf = true) : i.natAbs ≤ Rfc.maxInt := by
  have e1 : maxInt = 9007199254740991 := by decide
  have e2 : Rfc.maxInt = 9007199254740991 := by decide
  simp only [JVal.wf, Bool.and_eq_true, decide_eq_true_eq, e1] at h
  rw [e2]
  omega

theorem render_head (sd : Bytes → Option UInt64) (fmt17 : UInt64 → Bytes) (g : UInt64 → UInt64)
    (H : FloatHyp sd fmt17 g) (v : JVal) (hv : v.wf = true) :
    ∃ c r, render fmt17 v = c :: r ∧ GoodHead c := by
  cases v with
  | null => exact ⟨_, _, rfl, by unfold GoodHead; decide⟩
  | bool b => cases b <;> exact ⟨_, _, rfl, by unfold GoodHead; decide⟩
  | int i =>
    obtain ⟨c, r, e, hc⟩ := renderInt_head i
    exact ⟨c, r, by simp [render, e], (goodHead_num c hc).1⟩
  | float x =>
    obtain ⟨c, r, e, hc⟩ := floatTok_head _ (H x (by simpa [JVal.wf] using hv)).1
    exact ⟨c, r, by simp [render, e], (goodHead_num c hc).1⟩
  | str s => exact ⟨_, _, rfl, by unfold GoodHead; decide⟩
  | list l => exact ⟨_, _, rfl, by unfold GoodHead; decide⟩
  | dict kvs => exact ⟨_, _, rfl, by unfold GoodHead; decide⟩

theorem term_close (c : UInt8) (rest : Bytes) (h : c = 0x2C ∨ c = 0x5D ∨ c = 0x7D) : Term (c :: rest) := h

mutual
theorem value_render (sd : Bytes → Option UInt64) (fmt17 : UInt64 → Bytes) (g : UInt64 → UInt64)
    (H : FloatHyp sd fmt17 g) : ∀ (v : JVal), v.wf = true → ∀ (fuel : Nat) (rest : Bytes),
    need v ≤ fuel → Term rest → value sd fuel (render fmt17 v ++ rest) = some (v.mapF g, rest)
  | .null, _, fuel, rest, hf, _ => by
    cases fuel with
    | zero => simp [need] at hf
    | succ f => simp [render, value, stripPrefix, JVal.mapF]
  | .bool b, _, fuel, rest, hf, _ => by
    cases fuel with
    | zero => simp [need] at hf
    | succ f => cases b <;> simp [render, value, stripPrefix, JVal.mapF]
  | .int i, hv, fuel, rest, hf, ht => by
    cases fuel with
    | zero => simp [need] at hf
    | succ f =>
      obtain ⟨c, r, e, hc⟩ := renderInt_head i
      have : render fmt17 (.int i) ++ rest = c :: (r ++ rest) := by simp [render, e]
      rw [this, value_number sd f c _ hc, ← List.cons_append, ← e]
      exact number_renderInt sd i rest (int_wf_natAbs i hv) ht
  | .float x, hv, fuel, rest, hf, ht => by
    cases fuel with
    | zero => simp [need] at hf
    | succ f =>
      obtain ⟨h1, h2, h3⟩ := H x (by simpa [JVal.wf] using hv)
      obtain ⟨c, r, e, hc⟩ := floatTok_head _ h1
      have : render fmt17 (.float x) ++ rest = c :: (r ++ rest) := by simp [render, e]
      rw [this, value_number sd f c _ hc, ← List.cons_append, ← e]
      exact number_floatTok sd _ rest (g x) h1 h2 h3 ht
  | .str s, hv, fuel, rest, hf, _ => by
    cases fuel with
    | zero => simp [need] at hf
    | succ f =>
      have hs : validString s = true := by simpa [JVal.wf] using hv
      have : render fmt17 (.str s) ++ rest = 0x22 :: (escBody 0 s ++ 0x22 :: rest) := by
        simp [render, renderString]
      rw [this]
      simp [value, string_escBody s rest hs, JVal.mapF]
  | .list l, hv, fuel, rest, hf, ht => by
    cases fuel with
    | zero => simp [need] at hf
    | succ f =>
      have hl : wfList l = true := by simpa [JVal.wf] using hv
      have e0 : render fmt17 (.list l) ++ rest = 0x5B :: (renderElems fmt17 true l ++ 0x5D :: rest) := by
        simp [render]
      rw [e0]
      cases l with
      | nil => simp [value, renderElems, skipWs, isWs, JVal.mapF, mapFList]
      | cons v vs =>
        have hv' : v.wf = true := by simp [wfList] at hl; exact hl.1
        obtain ⟨c, r, e, hc⟩ := render_head sd fmt17 g H v hv'
        have e1 : renderElems fmt17 true (v :: vs) ++ 0x5D :: rest =
            c :: (r ++ (renderElems fmt17 false vs ++ 0x5D :: rest)) := by
          simp [renderElems, e]
        have ih := elems_render sd fmt17 g H (v :: vs) hl (by simp) f rest
          (by simp only [need] at hf; omega)
        rw [e1] at ih
        simp only [value]
        rw [e1, skipWs_good c _ hc.1]
        simp [hc.2.1, ih, JVal.mapF]
  | .dict kvs, hv, fuel, rest, hf, ht => by
    cases fuel with
    | zero => simp [need] at hf
    | succ f =>
      have hl : keysSorted kvs = true ∧ wfKvs kvs = true := by simpa [JVal.wf] using hv
      have e0 : render fmt17 (.dict kvs) ++ rest = 0x7B :: (renderMembers fmt17 true kvs ++ 0x7D :: rest) := by
        simp [render]
      rw [e0]
      cases kvs with
      | nil => simp [value, renderMembers, skipWs, isWs, JVal.mapF, mapFKvs]
      | cons kv r =>
        obtain ⟨k, v⟩ := kv
        have e1 : renderMembers fmt17 true ((k, v) :: r) ++ 0x7D :: rest =
            0x22 :: (escBody 0 k ++ 0x22 :: 0x3A :: (render fmt17 v ++
              (renderMembers fmt17 false r ++ 0x7D :: rest))) := by
          simp [renderMembers, renderString]
        have ih := members_render sd fmt17 g H ((k, v) :: r) hl.2 (by simp) f rest
          (by simp only [need] at hf; omega)
        rw [e1] at ih
        have hs : keysSorted (mapFKvs g ((k, v) :: r)) = true := by rw [keysSorted_mapF]; exact hl.1
        simp only [value]
        rw [e1, skipWs_good 0x22 _ (by decide)]
        simp [ih, mkDict_sorted _ hs, JVal.mapF]
theorem elems_render (sd : Bytes → Option UInt64) (fmt17 : UInt64 → Bytes) (g : UInt64 → UInt64)
    (H : FloatHyp sd fmt17 g) : ∀ (l : List JVal), wfList l = true → l ≠ [] →
    ∀ (fuel : Nat) (rest : Bytes), needList l ≤ fuel →
    elems sd fuel (renderElems fmt17 true l ++ 0x5D :: rest) = some (mapFList g l, rest)
  | [], _, hne, _, _, _ => absurd rfl hne
  | v :: vs, hl, _, fuel, rest, hf => by
    cases fuel with
    | zero => simp [needList] at hf
    | succ f =>
      have hw : v.wf = true ∧ wfList vs = true := by simpa [wfList] using hl
      simp only [needList] at hf
      cases vs with
      | nil =>
        have e1 : renderElems fmt17 true [v] ++ 0x5D :: rest = render fmt17 v ++ 0x5D :: rest := by
          simp [renderElems]
        have iv := value_render sd fmt17 g H v hw.1 f (0x5D :: rest) (by omega)
          (term_close _ _ (Or.inr (Or.inl rfl)))
        rw [e1]
        simp [elems, iv, skipWs, isWs, mapFList]
      | cons w ws =>
        have e1 : renderElems fmt17 true (v :: w :: ws) ++ 0x5D :: rest =
            render fmt17 v ++ 0x2C :: (renderElems fmt17 true (w :: ws) ++ 0x5D :: rest) := by
          simp [renderElems]
        have iv := value_render sd fmt17 g H v hw.1 f
          (0x2C :: (renderElems fmt17 true (w :: ws) ++ 0x5D :: rest)) (by omega)
          (term_close _ _ (Or.inl rfl))
        have ie := elems_render sd fmt17 g H (w :: ws) hw.2 (by simp) f rest (by omega)
        have hw' : w.wf = true := by have := hw.2; simp [wfList] at this; exact this.1
        obtain ⟨c, r, e, hc⟩ := render_head sd fmt17 g H w hw'
        have e2 : renderElems fmt17 true (w :: ws) ++ 0x5D :: rest =
            c :: (r ++ (renderElems fmt17 false ws ++ 0x5D :: rest)) := by
          simp [renderElems, e]
        rw [e1]
        simp only [elems, iv]
        rw [skipWs_good 0x2C _ (by decide)]
        rw [e2] at ie ⊢
        simp [skipWs_good c _ hc.1, ie, mapFList]
theorem members_render (sd : Bytes → Option UInt64) (fmt17 : UInt64 → Bytes) (g : UInt64 → UInt64)
    (H : FloatHyp sd fmt17 g) : ∀ (l : List (Bytes × JVal)), wfKvs l = true → l ≠ [] →
    ∀ (fuel : Nat) (rest : Bytes), needKvs l ≤ fuel →
    members sd fuel (renderMembers fmt17 true l ++ 0x7D :: rest) = some (mapFKvs g l, rest)
  | [], _, hne, _, _, _ => absurd rfl hne
  | (k, v) :: vs, hl, _, fuel, rest, hf => by
    cases fuel with
    | zero => simp [needKvs] at hf
    | succ f =>
      have hw : (validString k = true ∧ v.wf = true) ∧ wfKvs vs = true := by simpa [wfKvs] using hl
      simp only [needKvs] at hf
      obtain ⟨c, r, e, hc⟩ := render_head sd fmt17 g H v hw.1.2
      cases vs with
      | nil =>
        have e1 : renderMembers fmt17 true [(k, v)] ++ 0x7D :: rest =
            0x22 :: (escBody 0 k ++ 0x22 :: 0x3A :: (c :: (r ++ 0x7D :: rest))) := by
          simp [renderMembers, renderString, e]
        have iv := value_render sd fmt17 g H v hw.1.2 f (0x7D :: rest) (by omega)
          (term_close _ _ (Or.inr (Or.inr rfl)))
        rw [e] at iv
        rw [e1]
        simp only [members]
        simp only [string_escBody k _ hw.1.1]
        rw [skipWs_good 0x3A _ (by decide)]
        simp only [beq_self_eq_true, if_true]
        rw [skipWs_good c _ hc.1]
        simp only [List.cons_append] at iv
        simp [iv, skipWs, isWs, mapFKvs]
      | cons w ws =>
        obtain ⟨k', w⟩ := w
        have e1 : renderMembers fmt17 true ((k, v) :: (k', w) :: ws) ++ 0x7D :: rest =
            0x22 :: (escBody 0 k ++ 0x22 :: 0x3A :: (c :: (r ++
              0x2C :: (renderMembers fmt17 true ((k', w) :: ws) ++ 0x7D :: rest)))) := by
          simp [renderMembers, renderString, e]
        have iv := value_render sd fmt17 g H v hw.1.2 f
          (0x2C :: (renderMembers fmt17 true ((k', w) :: ws) ++ 0x7D :: rest)) (by omega)
          (term_close _ _ (Or.inl rfl))
        rw [e] at iv
        have ie := members_render sd fmt17 g H ((k', w) :: ws) hw.2 (by simp) f rest (by omega)
        have e2 : renderMembers fmt17 true ((k', w) :: ws) ++ 0x7D :: rest =
            0x22 :: (escBody 0 k' ++ 0x22 :: 0x3A :: (render fmt17 w ++
              (renderMembers fmt17 false ws ++ 0x7D :: rest))) := by
          simp [renderMembers, renderString]
        rw [e1]
        simp only [members]
        simp only [string_escBody k _ hw.1.1]
        rw [skipWs_good 0x3A _ (by decide)]
        simp only [beq_self_eq_true, if_true]
        rw [skipWs_good c _ hc.1]
        simp only [List.cons_append] at iv
        simp only [iv]
        rw [skipWs_good 0x2C _ (by decide)]
        rw [e2] at ie ⊢
        simp [skipWs_good 0x22 _ (by decide), ie, mapFKvs]
end

/-! ## enough fuel -/

mutual
theorem size_pos : ∀ v : JVal, 1 ≤ v.size
  | .null => by simp [JVal.size]
  | .bool _ => by simp [JVal.size]
  | .int _ => by simp [JVal.size]
  | .float _ => by simp [JVal.size]
  | .str _ => by simp [JVal.size]
  | .list _ => by simp [JVal.size]
  | .dict _ => by simp [JVal.size]
end

mutual
theorem need_le_size : ∀ v : JVal, need v ≤ 2 * v.size
  | .null => by simp [need, JVal.size]
  | .bool _ => by simp [need, JVal.size]
  | .int _ => by simp [need, JVal.size]
  | .float _ => by simp [need, JVal.size]
  | .str _ => by simp [need, JVal.size]
  | .list l => by have := needList_le_size l; simp only [need, JVal.size]; omega
  | .dict kvs => by have := needKvs_le_size kvs; simp only [need, JVal.size]; omega
theorem needList_le_size : ∀ l : List JVal, needList l ≤ 2 * sizeList l + 1
  | [] => by simp [needList]
  | v :: vs => by
    have h1 := need_le_size v
    have h2 := needList_le_size vs
    have h3 := size_pos v
    simp only [needList, sizeList]; omega
theorem needKvs_le_size : ∀ l : List (Bytes × JVal), needKvs l ≤ 2 * sizeKvs l + 1
  | [] => by simp [needKvs]
  | (_, v) :: vs => by
    have h1 := need_le_size v
    have h2 := needKvs_le_size vs
    have h3 := size_pos v
    simp only [needKvs, sizeKvs]; omega
end

mutual
theorem size_le_render (sd : Bytes → Option UInt64) (fmt17 : UInt64 → Bytes) (g : UInt64 → UInt64)
    (H : FloatHyp sd fmt17 g) : ∀ v : JVal, v.wf = true → v.size ≤ (render fmt17 v).length
  | .null, _ => by simp [JVal.size, render]
  | .bool b, _ => by cases b <;> simp [JVal.size, render]
  | .int i, hv => by
    obtain ⟨c, r, e, _⟩ := render_head sd fmt17 g H (.int i) hv
    rw [e]; simp [JVal.size]
  | .float x, hv => by
    obtain ⟨c, r, e, _⟩ := render_head sd fmt17 g H (.float x) hv
    rw [e]; simp [JVal.size]
  | .str s, _ => by simp [JVal.size, render, renderString]
  | .list l, hv => by
    have hl : wfList l = true := by simpa [JVal.wf] using hv
    have := sizeList_le_render sd fmt17 g H l hl true
    simp only [JVal.size, render, List.length_cons, List.length_append, List.length_nil]; omega
  | .dict kvs, hv => by
    have hl : keysSorted kvs = true ∧ wfKvs kvs = true := by simpa [JVal.wf] using hv
    have := sizeKvs_le_render sd fmt17 g H kvs hl.2 true
    simp only [JVal.size, render, List.length_cons, List.length_append, List.length_nil]; omega
theorem sizeList_le_render (sd : Bytes → Option UInt64) (fmt17 : UInt64 → Bytes) (g : UInt64 → UInt64)
    (H : FloatHyp sd fmt17 g) : ∀ l : List JVal, wfList l = true → ∀ b : Bool,
    sizeList l ≤ (renderElems fmt17 b l).length
  | [], _, _ => by simp [sizeList]
  | v :: vs, hl, b => by
    have hw : v.wf = true ∧ wfList vs = true := by simpa [wfList] using hl
    have h1 := size_le_render sd fmt17 g H v hw.1
    have h2 := sizeList_le_render sd fmt17 g H vs hw.2 false
    simp only [sizeList, renderElems, List.length_append]; omega
theorem sizeKvs_le_render (sd : Bytes → Option UInt64) (fmt17 : UInt64 → Bytes) (g : UInt64 → UInt64)
    (H : FloatHyp sd fmt17 g) : ∀ l : List (Bytes × JVal), wfKvs l = true → ∀ b : Bool,
    sizeKvs l ≤ (renderMembers fmt17 b l).length
  | [], _, _ => by simp [sizeKvs]
  | (k, v) :: vs, hl, b => by
    have hw : (validString k = true ∧ v.wf = true) ∧ wfKvs vs = true := by simpa [wfKvs] using hl
    have h1 := size_le_render sd fmt17 g H v hw.1.2
    have h2 := sizeKvs_le_render sd fmt17 g H vs hw.2 false
    simp only [sizeKvs, renderMembers, List.length_append, List.length_cons]; omega
end

/-- the reference parser reads the rendered document back -/
theorem parse_render (sd : Bytes → Option UInt64) (fmt17 : UInt64 → Bytes) (g : UInt64 → UInt64)
    (H : FloatHyp sd fmt17 g) (v : JVal) (hv : v.wf = true) :
    Rfc.parse sd (render fmt17 v) = some (v.mapF g) := by
  obtain ⟨c, r, e, hc⟩ := render_head sd fmt17 g H v hv
  have hfuel : need v ≤ 2 * (render fmt17 v).length + 2 := by
    have := need_le_size v
    have := size_le_render sd fmt17 g H v hv
    omega
  have := value_render sd fmt17 g H v hv _ [] hfuel trivial
  simp only [List.append_nil] at this
  unfold Rfc.parse
  rw [e, skipWs_good c r hc.1, ← e, this]
  simp [skipWs]

end Usual.C03
