import UsualProofs.C03.Forest
import UsualProofs.C03.ParseWf
/-! C03 proofs — `buildOps v` (the driver's model of a tree that came from `json_parse`: the same
tree built through the builder calls, then sealed) rebuilds exactly `v`. -/
namespace Usual.C03
open Usual.C06 (Entry T walk)
open Heap

/-! ## evaluation that refuses to look below `lo` -/

/-- `toVal` restricted to cells `≥ lo` -/
def toValR (h : Heap) (lo : Nat) : Nat → Nat → Option JVal
  | 0, _ => none
  | fuel + 1, i =>
    if i < lo then none else
    match h.cells[i]? with
    | none => none
    | some c =>
      match c.node with
      | .null => some .null
      | .bool b => some (.bool b)
      | .int n => some (.int n)
      | .float x => some (.float x)
      | .str s => some (.str s)
      | .list es _ =>
        match optList (es.map (toValR h lo fuel)) with
        | none => none
        | some l => some (.list l)
      | .dict t _ =>
        match optList ((walk t).map (fun e => toValR h lo fuel e.obj)) with
        | none => none
        | some l => some (.dict ((walk t).map (·.key) |>.zip l))

theorem optList_congr {α β : Type} (g g' : α → Option β) : ∀ (es : List α) (l : List β),
    (∀ e ∈ es, ∀ v, g e = some v → g' e = some v) → optList (es.map g) = some l →
    optList (es.map g') = some l
  | [], l, _, h => h
  | e :: es, l, hg, h => by
    simp only [List.map_cons] at h ⊢
    cases he : g e with
    | none => simp [he, optList] at h
    | some v =>
      simp only [he, optList] at h
      cases hr : optList (es.map g) with
      | none => simp [hr] at h
      | some l' =>
        simp only [hr, Option.some.injEq] at h
        subst h
        have := optList_congr g g' es l' (fun x hx => hg x (by simp [hx])) hr
        simp [optList, hg e (by simp) v he, this]

/-- transfer between heaps that agree (up to the attached flag) on the cells `≥ lo` of the first,
and weakening of the restriction -/
theorem toValR_transfer {h h' : Heap} {lo lo' : Nat} (hlo : lo' ≤ lo)
    (hag : ∀ j c, lo ≤ j → h.cells[j]? = some c → ∃ a, h'.cells[j]? = some ⟨c.node, a⟩) :
    ∀ (f i : Nat) (v : JVal), toValR h lo f i = some v → toValR h' lo' f i = some v := by
  intro f
  induction f with
  | zero => intro i v hv; simp [toValR] at hv
  | succ f ih =>
    intro i v hv
    simp only [toValR] at hv ⊢
    by_cases hi : i < lo
    · simp [hi] at hv
    · simp only [hi, if_false] at hv
      have hi' : ¬ i < lo' := by omega
      simp only [hi', if_false]
      cases hc : h.cells[i]? with
      | none => simp [hc] at hv
      | some c =>
        obtain ⟨a, hc'⟩ := hag i c (by omega) hc
        simp only [hc] at hv
        simp only [hc']
        obtain ⟨node, att⟩ := c
        cases node with
        | null => exact hv
        | bool b => exact hv
        | int n => exact hv
        | float x => exact hv
        | str s => exact hv
        | list es n =>
          simp only at hv ⊢
          cases ho : optList (es.map (toValR h lo f)) with
          | none => simp [ho] at hv
          | some l =>
            simp only [ho] at hv
            rw [optList_congr _ _ es l (fun e _ w hw => ih e w hw) ho]
            exact hv
        | dict t n =>
          simp only at hv ⊢
          cases ho : optList ((walk t).map (fun e => toValR h lo f e.obj)) with
          | none => simp [ho] at hv
          | some l =>
            simp only [ho] at hv
            rw [optList_congr _ (fun e => toValR h' lo' f e.obj) (walk t) l
              (fun e _ w hw => ih e.obj w hw) ho]
            exact hv

/-- dropping the restriction -/
theorem toVal_of_toValR {h : Heap} {lo : Nat} : ∀ (f i : Nat) (v : JVal),
    toValR h lo f i = some v → h.toVal f i = some v := by
  intro f
  induction f with
  | zero => intro i v hv; simp [toValR] at hv
  | succ f ih =>
    intro i v hv
    simp only [toValR] at hv
    rw [Heap.toVal]
    by_cases hi : i < lo
    · simp [hi] at hv
    · simp only [hi, if_false] at hv
      cases hc : h.cells[i]? with
      | none => simp [hc] at hv
      | some c =>
        simp only [hc] at hv ⊢
        obtain ⟨node, att⟩ := c
        cases node with
        | null => exact hv
        | bool b => exact hv
        | int n => exact hv
        | float x => exact hv
        | str s => exact hv
        | list es n =>
          simp only at hv ⊢
          cases ho : optList (es.map (toValR h lo f)) with
          | none => simp [ho] at hv
          | some l =>
            simp only [ho] at hv
            rw [optList_congr _ _ es l (fun e _ w hw => ih e w hw) ho]
            exact hv
        | dict t n =>
          simp only at hv ⊢
          cases ho : optList ((walk t).map (fun e => toValR h lo f e.obj)) with
          | none => simp [ho] at hv
          | some l =>
            simp only [ho] at hv
            rw [optList_congr _ (fun e => h.toVal f e.obj) (walk t) l
              (fun e _ w hw => ih e.obj w hw) ho]
            exact hv

/-! ## effect of the calls `buildOps` issues -/

theorem run_append (a b : Bool) : ∀ (o1 o2 : List Op) (h : Heap),
    (h.run a b (o1 ++ o2)).1 = ((h.run a b o1).1.run a b o2).1
  | [], _, _ => rfl
  | op :: o1, o2, h => by
    simp only [List.cons_append, Heap.run]
    exact run_append a b o1 o2 _

theorem run_cons (a b : Bool) (op : Op) (ops : List Op) (h : Heap) :
    (h.run a b (op :: ops)).1 = ((h.step a b op).1.run a b ops).1 := rfl

theorem run_nil (a b : Bool) (h : Heap) : (h.run a b []).1 = h := rfl

/-- an attaching call on a fresh, parentless container `n` and an unattached value `r` -/
theorem listAppend_ok (cyc : Bool) (h : Heap) (n r : Nat) (nd : Node) (es : List Nat) (k : Nat) (a : Bool)
    (hr : h.cells[r]? = some ⟨nd, false⟩) (hn : h.cells[n]? = some ⟨.list es k, a⟩) (hne : r ≠ n)
    (hp : h.parentOf n = none) :
    (h.listAppend cyc (some n) (some r)).1 =
      { cells := (h.cells.set r ⟨nd, true⟩).set n ⟨.list (es ++ [r]) (k + 1), a⟩,
        par := if h.isContainer r then (r, n) :: h.par else h.par } := by
  have hchk : h.selfOrAncestor r (h.cells.length + 1) n = false := by
    have : (n == r) = false := by simp; exact fun e => hne e.symm
    simp [Heap.selfOrAncestor, this, hp]
  have h1 : h.markAttached r = h.setCell r ⟨nd, true⟩ := by simp [Heap.markAttached, hr]
  have hc1 : (h.setCell r ⟨nd, true⟩).isContainer r = h.isContainer r := by
    rw [isContainer_setCell h r _ _ hr r, isContainer_eq h, hr]; simp [isCont]
  have hn1 : (h.cells.set r ⟨nd, true⟩)[n]? = some ⟨.list es k, a⟩ := by
    rw [List.getElem?_set]; simp [hne, hn]
  simp only [Heap.listAppend, Heap.get, hr, hn, hchk, Bool.and_false, Bool.false_eq_true, if_false, h1]
  unfold Heap.setParent
  rw [hc1]
  by_cases hc : h.isContainer r = true
  · simp [hc, Heap.pushElem, Heap.setCell, hn1]
  · simp [hc, Heap.pushElem, Heap.setCell, hn1]

theorem dictPut_ok (cyc : Bool) (h : Heap) (n r : Nat) (nd : Node) (t t' : Option T) (k : Nat) (a : Bool)
    (key : Bytes) (hr : h.cells[r]? = some ⟨nd, false⟩) (hn : h.cells[n]? = some ⟨.dict t k, a⟩)
    (hne : r ≠ n) (hp : h.parentOf n = none) (hk : validString key = true)
    (hl : key.length ≤ Heap.jsonMaxKey) (hins : Usual.C06.insert t ⟨key, r⟩ = some t') :
    (h.dictPut true cyc (some n) key (some r)).1 =
      { cells := (h.cells.set r ⟨nd, true⟩).set n ⟨.dict t' (k + 1), a⟩,
        par := if h.isContainer r then (r, n) :: h.par else h.par } := by
  have hchk : h.selfOrAncestor r (h.cells.length + 1) n = false := by
    have : (n == r) = false := by simp; exact fun e => hne e.symm
    simp [Heap.selfOrAncestor, this, hp]
  have h1 : h.markAttached r = h.setCell r ⟨nd, true⟩ := by simp [Heap.markAttached, hr]
  have hc1 : (h.setCell r ⟨nd, true⟩).isContainer r = h.isContainer r := by
    rw [isContainer_setCell h r _ _ hr r, isContainer_eq h, hr]; simp [isCont]
  have hn1 : (h.cells.set r ⟨nd, true⟩)[n]? = some ⟨.dict t k, a⟩ := by
    rw [List.getElem?_set]; simp [hne, hn]
  have hl' : ¬ key.length > Heap.jsonMaxKey := by omega
  simp only [Heap.dictPut, Heap.get, hr, hn, hchk, Bool.and_false, Bool.false_eq_true, if_false, hk,
    Bool.not_true, hl', hins, h1]
  unfold Heap.setParent
  rw [hc1]
  by_cases hc : h.isContainer r = true
  · simp [hc, Heap.setDict, Heap.setCell, hn1]
  · simp [hc, Heap.setDict, Heap.setCell, hn1]

/-! ## what a finished subtree looks like -/

/-- parent entries only name existing cells -/
def ParOK (h : Heap) : Prop := ∀ p ∈ h.par, p.1 < h.cells.length

theorem parentOf_none (h : Heap) (n : Nat) (hp : ∀ p ∈ h.par, p.1 ≠ n) : h.parentOf n = none := by
  unfold Heap.parentOf
  cases hf : h.par.find? (fun p => p.1 == n) with
  | none => rfl
  | some p =>
    have h1 := List.find?_some hf
    have h2 := List.mem_of_find?_eq_some hf
    exact absurd (by simpa using h1) (hp p h2)

/-- cell `r` evaluates to `v` looking only at cells `≥ lo` -/
def EvalAt (h : Heap) (lo r : Nat) (v : JVal) : Prop := ∀ f, v.depth < f → toValR h lo f r = some v

theorem EvalAt.transfer {h h' : Heap} {lo lo' r : Nat} {v : JVal} (he : EvalAt h lo r v) (hlo : lo' ≤ lo)
    (hag : ∀ j c, lo ≤ j → h.cells[j]? = some c → ∃ a, h'.cells[j]? = some ⟨c.node, a⟩) :
    EvalAt h' lo' r v := fun f hf => toValR_transfer hlo hag f r v (he f hf)

structure BuiltAt (h h' : Heap) (n : Nat) (v : JVal) (nxt : Nat) : Prop where
  len : h'.cells.length = nxt
  grow : n < nxt ∧ n + v.depth ≤ nxt
  frame : ∀ i, i < n → h'.cells[i]? = h.cells[i]?
  root : ∃ nd, h'.cells[n]? = some ⟨nd, false⟩
  eval : EvalAt h' n n v
  par : ∀ p ∈ h'.par, p ∈ h.par ∨ (n < p.1 ∧ p.1 < nxt)

theorem optList_of_forall₂ (g : Nat → Option JVal) : ∀ (rs : List Nat) (l : List JVal),
    List.Forall₂ (fun r v => g r = some v) rs l → optList (rs.map g) = some l
  | _, _, .nil => rfl
  | _, _, .cons h t => by simp [optList, h, optList_of_forall₂ g _ _ t]

theorem depth_le_depthList {v : JVal} : ∀ {l : List JVal}, v ∈ l → v.depth ≤ depthList l
  | w :: l, h => by
    simp only [List.mem_cons] at h
    simp only [depthList]
    rcases h with rfl | h
    · omega
    · have := depth_le_depthList h; omega

theorem evalList {h : Heap} {lo lo' : Nat} (hlo : lo' ≤ lo) : ∀ {rs : List Nat} {l : List JVal},
    List.Forall₂ (EvalAt h lo) rs l → ∀ f, depthList l < f →
    optList (rs.map (toValR h lo' f)) = some l := by
  intro rs l hf f hd
  apply optList_of_forall₂
  have : ∀ {rs : List Nat} {l' : List JVal}, List.Forall₂ (EvalAt h lo) rs l' → (∀ v ∈ l', v ∈ l) →
      List.Forall₂ (fun r v => toValR h lo' f r = some v) rs l' := by
    intro rs l' h2
    induction h2 with
    | nil => intro _; exact .nil
    | cons hrv _ ih =>
      intro hsub
      refine .cons ?_ (ih (fun v hv => hsub v (by simp [hv])))
      rename_i r0 v0 _ _ _
      have hdv := depth_le_depthList (hsub v0 (by simp))
      exact toValR_transfer hlo (fun j c _ hc => ⟨c.attached, by simpa using hc⟩) f _ _ (hrv f (by omega))
  exact this hf (fun v hv => hv)

/-! ## the builder history of a tree rebuilds the tree -/

/-- what `buildOps v` achieves on any heap (statement of the main induction) -/
def Rebuilds (v : JVal) : Prop :=
  v.wf = true → v.shortKeys → ∀ (cyc : Bool) (h : Heap), ParOK h →
    (buildOps v h.cells.length).2.1 = h.cells.length ∧
    BuiltAt h (h.run true cyc (buildOps v h.cells.length).1).1 h.cells.length v
      (buildOps v h.cells.length).2.2

theorem forall₂_append {α β : Type} {R : α → β → Prop} : ∀ {a1 : List α} {b1 : List β} {a2 : List α}
    {b2 : List β}, List.Forall₂ R a1 b1 → List.Forall₂ R a2 b2 → List.Forall₂ R (a1 ++ a2) (b1 ++ b2)
  | _, _, _, _, .nil, h2 => h2
  | _, _, _, _, .cons h t, h2 => .cons h (forall₂_append t h2)

theorem forall₂_imp {α β : Type} {R S : α → β → Prop} (hrs : ∀ a b, R a b → S a b) :
    ∀ {l1 : List α} {l2 : List β}, List.Forall₂ R l1 l2 → List.Forall₂ S l1 l2
  | _, _, .nil => .nil
  | _, _, .cons h t => .cons (hrs _ _ h) (forall₂_imp hrs t)

theorem set_get_ne {α : Type} (l : List α) (i j : Nat) (a : α) (h : i ≠ j) : (l.set i a)[j]? = l[j]? := by
  rw [List.getElem?_set]; simp [h]

theorem elems_built : ∀ (l : List JVal), (∀ v ∈ l, Rebuilds v) → wfList l = true → shortKeysList l →
    ∀ (cyc : Bool) (g : Heap) (n m : Nat) (es : List Nat) (k : Nat) (vs0 : List JVal),
    g.cells.length = m → n < m → g.cells[n]? = some ⟨.list es k, false⟩ →
    (∀ p ∈ g.par, p.1 ≠ n ∧ p.1 < m) → List.Forall₂ (EvalAt g (n + 1)) es vs0 →
    let g' := (g.run true cyc (buildElems l n m).1).1
    g'.cells.length = (buildElems l n m).2 ∧ m + depthList l ≤ (buildElems l n m).2 ∧
    (∀ i, i < n → g'.cells[i]? = g.cells[i]?) ∧
    (∃ rs, g'.cells[n]? = some ⟨.list (es ++ rs) (k + l.length), false⟩ ∧
      List.Forall₂ (EvalAt g' (n + 1)) (es ++ rs) (vs0 ++ l)) ∧
    (∀ p ∈ g'.par, p ∈ g.par ∨ (n < p.1 ∧ p.1 < (buildElems l n m).2))
  | [], _, _, _, cyc, g, n, m, es, k, vs0, hlen, hnm, hn, hpar, hev => by
    simp only [buildElems, run_nil, depthList, List.length_nil, Nat.add_zero]
    exact ⟨hlen, Nat.le_refl _, by intros; trivial, ⟨[], by simpa using hn, by simpa using hev⟩,
      fun p hp => Or.inl hp⟩
  | v :: vs, ih, hw, hs, cyc, g, n, m, es, k, vs0, hlen, hnm, hn, hpar, hev => by
    have hwv : v.wf = true ∧ wfList vs = true := by simpa [wfList] using hw
    simp only [shortKeysList] at hs
    -- build the element
    have hpok : ParOK g := fun p hp => by rw [hlen]; exact (hpar p hp).2
    obtain ⟨hroot, hb⟩ := ih v (by simp) hwv.1 hs.1 cyc g hpok
    rw [hlen] at hroot hb
    -- names for the pieces of buildElems
    generalize hbo : buildOps v m = bo at hroot hb
    obtain ⟨o1, root, n1⟩ := bo
    simp only at hroot hb
    subst hroot
    set g1 := (g.run true cyc o1).1 with hg1
    obtain ⟨nd, hrootc⟩ := hb.root
    have hn1 : g1.cells[n]? = some ⟨.list es k, false⟩ := by rw [hb.frame n hnm]; exact hn
    have hpar1 : ∀ p ∈ g1.par, p.1 ≠ n ∧ p.1 < n1 := by
      intro p hp
      rcases hb.par p hp with h1 | h1
      · exact ⟨(hpar p h1).1, by have := (hpar p h1).2; have := hb.grow.1; omega⟩
      · exact ⟨by omega, h1.2⟩
    have hne : root ≠ n := by omega
    -- attach it
    have hg2 := listAppend_ok cyc g1 n root nd es k false hrootc hn1 hne
      (parentOf_none g1 n (fun p hp => (hpar1 p hp).1))
    set g2 := (g1.listAppend cyc (some n) (some root)).1 with hg2d
    have hlen2 : g2.cells.length = n1 := by rw [hg2]; simp [hb.len]
    have hcell2 : ∀ j, j ≠ root → j ≠ n → g2.cells[j]? = g1.cells[j]? := by
      intro j h1 h2
      rw [hg2]; simp only
      rw [set_get_ne _ _ _ _ (Ne.symm h2), set_get_ne _ _ _ _ (Ne.symm h1)]
    have hn2 : g2.cells[n]? = some ⟨.list (es ++ [root]) (k + 1), false⟩ := by
      rw [hg2]; simp only
      rw [List.getElem?_set]
      have hnlt : n < g1.cells.length := by rw [hb.len]; have := hb.grow.1; omega
      simp [hnlt]
    have hroot2 : g2.cells[root]? = some ⟨nd, true⟩ := by
      rw [hg2]; simp only
      rw [set_get_ne _ _ _ _ (Ne.symm hne), List.getElem?_set]
      have : root < g1.cells.length := by rw [hb.len]; exact hb.grow.1
      simp [this]
    have hpar2 : ∀ p ∈ g2.par, p.1 ≠ n ∧ p.1 < n1 := by
      intro p hp
      rw [hg2] at hp; simp only at hp
      split at hp
      · simp only [List.mem_cons] at hp
        rcases hp with rfl | hp
        · exact ⟨hne, hb.grow.1⟩
        · exact hpar1 p hp
      · exact hpar1 p hp
    have hev2 : List.Forall₂ (EvalAt g2 (n + 1)) (es ++ [root]) (vs0 ++ [v]) := by
      refine forall₂_append (forall₂_imp (fun r w he => ?_) hev) (.cons ?_ .nil)
      · refine he.transfer (Nat.le_refl _) (fun j c hj hc => ?_)
        have hjm : j < root := by rw [← hlen]; exact (List.getElem?_eq_some_iff.mp hc).1
        exact ⟨c.attached, by rw [hcell2 j (by omega) (by omega), hb.frame j hjm]; simpa using hc⟩
      · refine hb.eval.transfer (by omega) (fun j c hj hc => ?_)
        by_cases e : j = root
        · subst e; rw [hrootc] at hc; cases hc; exact ⟨true, hroot2⟩
        · exact ⟨c.attached, by rw [hcell2 j e (by omega)]; simpa using hc⟩
    -- the remaining elements
    have hrest := elems_built vs (fun w hw => ih w (by simp [hw])) hwv.2 hs.2 cyc g2 n n1
      (es ++ [root]) (k + 1) (vs0 ++ [v]) hlen2 (by have := hb.grow.1; omega) hn2 hpar2 hev2
    generalize hbe : buildElems vs n n1 = be at hrest
    obtain ⟨o2, n2⟩ := be
    simp only at hrest
    obtain ⟨r1, r2, r3, ⟨rs, r4, r5⟩, r6⟩ := hrest
    have hrun : (g.run true cyc (buildElems (v :: vs) n root).1).1 = (g2.run true cyc o2).1 := by
      simp only [buildElems, hbo, hbe]
      rw [run_append, run_append, ← hg1]
      rfl
    have hres : (buildElems (v :: vs) n root).2 = n2 := by simp only [buildElems, hbo, hbe]
    simp only [hrun, hres]
    refine ⟨r1, ?_, ?_, ⟨root :: rs, ?_, ?_⟩, ?_⟩
    · have := hb.grow.2; simp only [depthList]; omega
    · intro i hi
      rw [r3 i hi, hcell2 i (by omega) (by omega), hb.frame i (by omega)]
    · rw [r4]; simp [Nat.add_assoc, Nat.add_comm 1]
    · simpa using r5
    · intro p hp
      rcases r6 p hp with h1 | h1
      · rw [hg2] at h1; simp only at h1
        have hgrow := hb.grow.1
        split at h1
        · simp only [List.mem_cons] at h1
          rcases h1 with rfl | h1
          · exact Or.inr ⟨by omega, by simp only; omega⟩
          · rcases hb.par p h1 with h2 | h2
            · exact Or.inl h2
            · exact Or.inr ⟨by omega, by omega⟩
        · rcases hb.par p h1 with h2 | h2
          · exact Or.inl h2
          · exact Or.inr ⟨by omega, by omega⟩
      · exact Or.inr h1

/-! ## inserting names in ascending order appends to the walk -/

theorem keyLt_asymm : ∀ a b : Bytes, keyLt a b = true → keyLt b a = true → False
  | [], [], h, _ => by simp [keyLt] at h
  | [], _ :: _, _, h => by simp [keyLt] at h
  | _ :: _, [], h, _ => by simp [keyLt] at h
  | x :: xs, y :: ys, h1, h2 => by
    simp only [keyLt, Bool.or_eq_true, Bool.and_eq_true, decide_eq_true_eq, beq_iff_eq,
      UInt8.lt_iff_toNat_lt] at h1 h2
    rcases h1 with h1 | ⟨e1, h1⟩
    · rcases h2 with h2 | ⟨e2, _⟩
      · omega
      · subst e2; omega
    · subst e1
      rcases h2 with h2 | ⟨_, h2⟩
      · omega
      · exact keyLt_asymm xs ys h1 h2

theorem keyLt_irrefl (a : Bytes) : keyLt a a = false := by
  cases h : keyLt a a with
  | false => rfl
  | true => exact absurd h (fun h => keyLt_asymm a a h h)

theorem insert_at_end (t : Option T) (k : Nat) (hok : nodeOk (.dict t k)) (key : Bytes) (r : Nat)
    (hk : validString key = true ∧ key.length ≤ Heap.jsonMaxKey)
    (hall : ∀ e ∈ walk t, keyLt e.key key = true) :
    ∃ t', Usual.C06.insert t ⟨key, r⟩ = some t' ∧ walk t' = walk t ++ [⟨key, r⟩] ∧
      nodeOk (.dict t' (k + 1)) := by
  have hok0 := hok
  obtain ⟨_, hinv, hntz, _⟩ := hok0
  have href := Usual.C06.insert_refines t hinv hntz ⟨key, r⟩ (validString_noTrailingZero key hk.1)
  cases hi : Usual.C06.insert t ⟨key, r⟩ with
  | none =>
    exfalso
    have hs := href.1.mp hi
    obtain ⟨o, ho⟩ := Option.isSome_iff_exists.mp hs
    have hm := (Usual.C06.absMap_some_iff t hinv key o).mp ho
    have := hall _ hm
    simp only at this
    rw [keyLt_irrefl] at this; cases this
  | some t' =>
    have hok' := nodeOk_insert t t' k key r hok hk hi
    refine ⟨t', rfl, ?_, hok'⟩
    obtain ⟨a, b, w1, w2⟩ := insert_walk t t' _ hi
    have hsorted := (Usual.C06.walk_spec t' hok'.2.1).1
    rw [w2] at hsorted
    cases b with
    | nil => rw [w2, w1]; simp
    | cons x b' =>
      exfalso
      have h1 : Usual.C06.keyLt key x.key = true := by
        have := (List.pairwise_append.mp hsorted).2.1
        exact (List.pairwise_cons.mp this).1 x (by simp)
      rw [keyLt_eq] at h1
      have h2 := hall x (by rw [w1]; simp)
      exact keyLt_asymm _ _ h1 h2

theorem keyLt_trans : ∀ a b c : Bytes, keyLt a b = true → keyLt b c = true → keyLt a c = true
  | [], [], _, h, _ => by simp [keyLt] at h
  | [], _ :: _, [], _, h => by simp [keyLt] at h
  | [], _ :: _, _ :: _, _, _ => by simp [keyLt]
  | _ :: _, [], _, h, _ => by simp [keyLt] at h
  | _ :: _, _ :: _, [], _, h => by simp [keyLt] at h
  | x :: xs, y :: ys, z :: zs, h1, h2 => by
    simp only [keyLt, Bool.or_eq_true, Bool.and_eq_true, decide_eq_true_eq, beq_iff_eq,
      UInt8.lt_iff_toNat_lt] at h1 h2 ⊢
    rcases h1 with h1 | ⟨e1, h1⟩
    · rcases h2 with h2 | ⟨e2, _⟩
      · left; omega
      · subst e2; left; exact h1
    · subst e1
      rcases h2 with h2 | ⟨e2, h2⟩
      · left; exact h2
      · subst e2; right; exact ⟨rfl, keyLt_trans xs ys zs h1 h2⟩

theorem forall₂_mem_left {α β : Type} {R : α → β → Prop} : ∀ {l1 : List α} {l2 : List β} {a : α},
    List.Forall₂ R l1 l2 → a ∈ l1 → ∃ b, b ∈ l2 ∧ R a b
  | _, _, _, .nil, h => by cases h
  | _, _, a, .cons (a := a') (b := b') hr t, h => by
    simp only [List.mem_cons] at h
    rcases h with rfl | h
    · exact ⟨b', by simp, hr⟩
    · obtain ⟨b, hb, hrb⟩ := forall₂_mem_left t h
      exact ⟨b, by simp [hb], hrb⟩

/-- a dict entry and the member it stands for -/
def MemberAt (h : Heap) (lo : Nat) (e : Entry) (kv : Bytes × JVal) : Prop :=
  e.key = kv.1 ∧ EvalAt h lo e.obj kv.2

theorem members_built : ∀ (l : List (Bytes × JVal)), (∀ kv ∈ l, Rebuilds kv.2) → wfKvs l = true →
    shortKeysKvs l → keysSorted l = true →
    ∀ (cyc : Bool) (g : Heap) (n m : Nat) (t : Option T) (k : Nat) (kvs0 : List (Bytes × JVal)),
    g.cells.length = m → n < m → g.cells[n]? = some ⟨.dict t k, false⟩ → nodeOk (.dict t k) →
    (∀ p ∈ g.par, p.1 ≠ n ∧ p.1 < m) → List.Forall₂ (MemberAt g (n + 1)) (walk t) kvs0 →
    (∀ kv0 ∈ kvs0, ∀ kv ∈ l, keyLt kv0.1 kv.1 = true) →
    let g' := (g.run true cyc (buildMembers l n m).1).1
    g'.cells.length = (buildMembers l n m).2 ∧ m + depthKvs l ≤ (buildMembers l n m).2 ∧
    (∀ i, i < n → g'.cells[i]? = g.cells[i]?) ∧
    (∃ t', g'.cells[n]? = some ⟨.dict t' (k + l.length), false⟩ ∧
      List.Forall₂ (MemberAt g' (n + 1)) (walk t') (kvs0 ++ l)) ∧
    (∀ p ∈ g'.par, p ∈ g.par ∨ (n < p.1 ∧ p.1 < (buildMembers l n m).2))
  | [], _, _, _, _, cyc, g, n, m, t, k, kvs0, hlen, hnm, hn, hok, hpar, hev, hord => by
    simp only [buildMembers, run_nil, depthKvs, List.length_nil, Nat.add_zero]
    exact ⟨hlen, Nat.le_refl _, by intros; trivial, ⟨t, by simpa using hn, by simpa using hev⟩,
      fun p hp => Or.inl hp⟩
  | (key, v) :: vs, ih, hw, hs, hsort, cyc, g, n, m, t, k, kvs0, hlen, hnm, hn, hok, hpar, hev, hord => by
    have hwv : (validString key = true ∧ v.wf = true) ∧ wfKvs vs = true := by simpa [wfKvs] using hw
    simp only [shortKeysKvs] at hs
    have hsort' := (keysSorted_cons key v vs).mp hsort
    have hpok : ParOK g := fun p hp => by rw [hlen]; exact (hpar p hp).2
    obtain ⟨hroot, hb⟩ := ih (key, v) (by simp) hwv.1.2 hs.2.1 cyc g hpok
    rw [hlen] at hroot hb
    generalize hbo : buildOps v m = bo at hroot hb
    obtain ⟨o1, root, n1⟩ := bo
    simp only at hroot hb
    subst hroot
    set g1 := (g.run true cyc o1).1 with hg1
    obtain ⟨nd, hrootc⟩ := hb.root
    have hn1 : g1.cells[n]? = some ⟨.dict t k, false⟩ := by rw [hb.frame n hnm]; exact hn
    have hpar1 : ∀ p ∈ g1.par, p.1 ≠ n ∧ p.1 < n1 := by
      intro p hp
      rcases hb.par p hp with h1 | h1
      · exact ⟨(hpar p h1).1, by have := (hpar p h1).2; have := hb.grow.1; omega⟩
      · exact ⟨by omega, h1.2⟩
    have hne : root ≠ n := by omega
    -- the name goes behind everything already in the tree
    have hall : ∀ e ∈ walk t, keyLt e.key key = true := by
      intro e he
      obtain ⟨kv0, hkv0, hm⟩ := forall₂_mem_left hev he
      rw [hm.1]
      exact hord kv0 hkv0 (key, v) (by simp)
    obtain ⟨t', hins, hwalk, hok'⟩ := insert_at_end t k hok key root ⟨hwv.1.1, hs.1⟩ hall
    have hg2 := dictPut_ok cyc g1 n root nd t t' k false key hrootc hn1 hne
      (parentOf_none g1 n (fun p hp => (hpar1 p hp).1)) hwv.1.1 hs.1 hins
    set g2 := (g1.dictPut true cyc (some n) key (some root)).1 with hg2d
    have hlen2 : g2.cells.length = n1 := by rw [hg2]; simp [hb.len]
    have hcell2 : ∀ j, j ≠ root → j ≠ n → g2.cells[j]? = g1.cells[j]? := by
      intro j h1 h2
      rw [hg2]; simp only
      rw [set_get_ne _ _ _ _ (Ne.symm h2), set_get_ne _ _ _ _ (Ne.symm h1)]
    have hn2 : g2.cells[n]? = some ⟨.dict t' (k + 1), false⟩ := by
      rw [hg2]; simp only
      rw [List.getElem?_set]
      have hnlt : n < g1.cells.length := by rw [hb.len]; have := hb.grow.1; omega
      simp [hnlt]
    have hroot2 : g2.cells[root]? = some ⟨nd, true⟩ := by
      rw [hg2]; simp only
      rw [set_get_ne _ _ _ _ (Ne.symm hne), List.getElem?_set]
      have : root < g1.cells.length := by rw [hb.len]; exact hb.grow.1
      simp [this]
    have hpar2 : ∀ p ∈ g2.par, p.1 ≠ n ∧ p.1 < n1 := by
      intro p hp
      rw [hg2] at hp; simp only at hp
      split at hp
      · simp only [List.mem_cons] at hp
        rcases hp with rfl | hp
        · exact ⟨hne, hb.grow.1⟩
        · exact hpar1 p hp
      · exact hpar1 p hp
    have tr_old : ∀ r w, EvalAt g (n + 1) r w → EvalAt g2 (n + 1) r w := by
      intro r w he
      refine he.transfer (Nat.le_refl _) (fun j c hj hc => ?_)
      have hjm : j < root := by rw [← hlen]; exact (List.getElem?_eq_some_iff.mp hc).1
      exact ⟨c.attached, by rw [hcell2 j (by omega) (by omega), hb.frame j hjm]; simpa using hc⟩
    have tr_new : EvalAt g2 (n + 1) root v := by
      refine hb.eval.transfer (by omega) (fun j c hj hc => ?_)
      by_cases e : j = root
      · subst e; rw [hrootc] at hc; cases hc; exact ⟨true, hroot2⟩
      · exact ⟨c.attached, by rw [hcell2 j e (by omega)]; simpa using hc⟩
    have hev2 : List.Forall₂ (MemberAt g2 (n + 1)) (walk t') (kvs0 ++ [(key, v)]) := by
      rw [hwalk]
      exact forall₂_append (forall₂_imp (fun e kv he => ⟨he.1, tr_old _ _ he.2⟩) hev)
        (.cons ⟨rfl, tr_new⟩ .nil)
    have hord2 : ∀ kv0 ∈ kvs0 ++ [(key, v)], ∀ kv ∈ vs, keyLt kv0.1 kv.1 = true := by
      intro kv0 h0 kv hkv
      simp only [List.mem_append, List.mem_singleton] at h0
      rcases h0 with h0 | rfl
      · exact hord kv0 h0 kv (by simp [hkv])
      · -- sortedness of the remaining members
        clear hrootc hb hev2 hev hord hall
        have : ∀ (k0 : Bytes) (r : List (Bytes × JVal)), headAbove k0 r → keysSorted r = true →
            ∀ kv ∈ r, keyLt k0 kv.1 = true := by
          intro k0 r
          induction r generalizing k0 with
          | nil => intro _ _ kv hkv; cases hkv
          | cons kv1 r ihr =>
            obtain ⟨k1, v1⟩ := kv1
            intro ha hs1 kv hkv
            simp only [List.mem_cons] at hkv
            rcases hkv with rfl | hkv
            · exact ha
            · have hs1' := (keysSorted_cons k1 v1 r).mp hs1
              have h2 := ihr k1 hs1'.1 hs1'.2 kv hkv
              -- transitivity through k1
              exact keyLt_trans _ _ _ ha h2
        exact this key vs hsort'.1 hsort'.2 kv hkv
    have hrest := members_built vs (fun w hw => ih w (by simp [hw])) hwv.2 hs.2.2 hsort'.2 cyc g2 n n1
      t' (k + 1) (kvs0 ++ [(key, v)]) hlen2 (by have := hb.grow.1; omega) hn2 hok' hpar2 hev2 hord2
    generalize hbe : buildMembers vs n n1 = be at hrest
    obtain ⟨o2, n2⟩ := be
    simp only at hrest
    obtain ⟨r1, r2, r3, ⟨t'', r4, r5⟩, r6⟩ := hrest
    have hrun : (g.run true cyc (buildMembers ((key, v) :: vs) n root).1).1 = (g2.run true cyc o2).1 := by
      simp only [buildMembers, hbo, hbe]
      rw [run_append, run_append, ← hg1]
      rfl
    have hres : (buildMembers ((key, v) :: vs) n root).2 = n2 := by simp only [buildMembers, hbo, hbe]
    simp only [hrun, hres]
    refine ⟨r1, ?_, ?_, ⟨t'', ?_, ?_⟩, ?_⟩
    · have := hb.grow.2; simp only [depthKvs]; omega
    · intro i hi
      rw [r3 i hi, hcell2 i (by omega) (by omega), hb.frame i (by omega)]
    · rw [r4]; simp [Nat.add_assoc, Nat.add_comm 1]
    · simpa using r5
    · intro p hp
      rcases r6 p hp with h1 | h1
      · rw [hg2] at h1; simp only at h1
        have hgrow := hb.grow.1
        split at h1
        · simp only [List.mem_cons] at h1
          rcases h1 with rfl | h1
          · exact Or.inr ⟨by omega, by simp only; omega⟩
          · rcases hb.par p h1 with h2 | h2
            · exact Or.inl h2
            · exact Or.inr ⟨by omega, by omega⟩
        · rcases hb.par p h1 with h2 | h2
          · exact Or.inl h2
          · exact Or.inr ⟨by omega, by omega⟩
      · exact Or.inr h1

theorem depth_le_depthKvs {kv : Bytes × JVal} : ∀ {l : List (Bytes × JVal)}, kv ∈ l → kv.2.depth ≤ depthKvs l
  | (k, w) :: l, h => by
    simp only [List.mem_cons] at h
    simp only [depthKvs]
    rcases h with rfl | h
    · exact Nat.le_max_left _ _
    · have := depth_le_depthKvs h; omega

theorem evalMembers {h : Heap} {lo lo' : Nat} (hlo : lo' ≤ lo) {es : List Entry}
    {l : List (Bytes × JVal)} (hf : List.Forall₂ (MemberAt h lo) es l) (f : Nat) (hd : depthKvs l < f) :
    optList (es.map (fun e => toValR h lo' f e.obj)) = some (l.map (·.2)) := by
  have : ∀ {es : List Entry} {l' : List (Bytes × JVal)}, List.Forall₂ (MemberAt h lo) es l' →
      (∀ kv ∈ l', kv ∈ l) → optList (es.map (fun e => toValR h lo' f e.obj)) = some (l'.map (·.2)) := by
    intro es l' h2
    induction h2 with
    | nil => intro _; rfl
    | cons hrv _ ih =>
      intro hsub
      rename_i e0 kv0 _ _ _
      have hdv := depth_le_depthKvs (hsub kv0 (by simp))
      have h1 := toValR_transfer hlo (fun j c _ hc => ⟨c.attached, by simpa using hc⟩) f _ _
        (hrv.2 f (by omega))
      simp [optList, h1, ih (fun kv hkv => hsub kv (by simp [hkv]))]
  exact this hf (fun kv hkv => hkv)

theorem zip_keys {h : Heap} {lo : Nat} : ∀ {es : List Entry} {l : List (Bytes × JVal)},
    List.Forall₂ (MemberAt h lo) es l → (es.map (·.key)).zip (l.map (·.2)) = l
  | _, _, .nil => rfl
  | _, _, .cons hr t => by
    rename_i e kv _ _
    obtain ⟨k, v⟩ := kv
    have := zip_keys t
    simp only [MemberAt] at hr
    simp [hr.1, this]

/-! ## main induction -/

theorem size_lt_of_mem_list {v : JVal} : ∀ {l : List JVal}, v ∈ l → v.size ≤ sizeList l
  | w :: l, h => by
    simp only [List.mem_cons] at h
    simp only [sizeList]
    rcases h with rfl | h
    · omega
    · have := size_lt_of_mem_list h; omega

theorem size_lt_of_mem_kvs {kv : Bytes × JVal} : ∀ {l : List (Bytes × JVal)}, kv ∈ l → kv.2.size ≤ sizeKvs l
  | (k, w) :: l, h => by
    simp only [List.mem_cons] at h
    simp only [sizeKvs]
    rcases h with rfl | h
    · simp
    · have := size_lt_of_mem_kvs h; omega

theorem alloc_cells (h : Heap) (nd : Node) : (h.alloc nd).1.cells = h.cells ++ [⟨nd, false⟩] := rfl
theorem alloc_par (h : Heap) (nd : Node) : (h.alloc nd).1.par = h.par := rfl

/-- a scalar: one fresh cell -/
theorem scalar_built (h : Heap) (nd : Node) (v : JVal) (hd : v.depth = 0)
    (hev : ∀ (g : Heap) f, g.cells[h.cells.length]? = some ⟨nd, false⟩ →
      toValR g h.cells.length (f + 1) h.cells.length = some v) :
    BuiltAt h (h.alloc nd).1 h.cells.length v (h.cells.length + 1) := by
  have hc : (h.alloc nd).1.cells[h.cells.length]? = some ⟨nd, false⟩ := by
    rw [alloc_cells]; simp
  refine ⟨by simp [alloc_cells], ⟨by omega, by omega⟩, ?_, ⟨nd, hc⟩, ?_, fun p hp => Or.inl hp⟩
  · intro i hi; rw [alloc_cells, List.getElem?_append_left hi]
  · intro f hf
    cases f with
    | zero => omega
    | succ f => exact hev _ f hc

theorem rebuilds_aux : ∀ (s : Nat) (v : JVal), v.size ≤ s → Rebuilds v := by
  intro s
  induction s with
  | zero => intro v hs; have : 1 ≤ v.size := by cases v <;> simp [JVal.size]
            omega
  | succ s ih =>
    intro v hs hw hk cyc h hpar
    cases v with
    | null =>
      refine ⟨rfl, ?_⟩
      exact scalar_built h .null .null rfl (fun g f hg => by simp [toValR, hg])
    | bool b =>
      refine ⟨rfl, ?_⟩
      exact scalar_built h (.bool b) (.bool b) rfl (fun g f hg => by simp [toValR, hg])
    | int i =>
      refine ⟨rfl, ?_⟩
      have hr : (decide (i < -maxInt) || decide (i > maxInt)) = false := by
        simp only [JVal.wf, Bool.and_eq_true, decide_eq_true_eq] at hw
        simp; omega
      have : (h.run true cyc (buildOps (.int i) h.cells.length).1).1 = (h.alloc (.int i)).1 := by
        simp [buildOps, Heap.run, Heap.step, Heap.newScalar, hr]
      rw [this]
      exact scalar_built h (.int i) (.int i) rfl (fun g f hg => by simp [toValR, hg])
    | float x =>
      refine ⟨rfl, ?_⟩
      have hr : isFinite x = true := by simpa [JVal.wf] using hw
      have : (h.run true cyc (buildOps (.float x) h.cells.length).1).1 = (h.alloc (.float x)).1 := by
        simp [buildOps, Heap.run, Heap.step, Heap.newScalar, hr]
      rw [this]
      exact scalar_built h (.float x) (.float x) rfl (fun g f hg => by simp [toValR, hg])
    | str s' =>
      refine ⟨rfl, ?_⟩
      have hr : validString s' = true := by simpa [JVal.wf] using hw
      have : (h.run true cyc (buildOps (.str s') h.cells.length).1).1 = (h.alloc (.str s')).1 := by
        simp [buildOps, Heap.run, Heap.step, Heap.newScalar, hr]
      rw [this]
      exact scalar_built h (.str s') (.str s') rfl (fun g f hg => by simp [toValR, hg])
    | list l =>
      have hwl : wfList l = true := by simpa [JVal.wf] using hw
      have hkl : shortKeysList l := by simpa [JVal.shortKeys] using hk
      have ihl : ∀ w ∈ l, Rebuilds w := fun w hw' => ih w (by
        have := size_lt_of_mem_list hw'; simp only [JVal.size] at hs; omega)
      set n := h.cells.length with hn
      set g := (h.alloc (.list [] 0)).1 with hg
      have hgn : g.cells[n]? = some ⟨.list [] 0, false⟩ := by rw [hg, alloc_cells]; simp [hn]
      have hglen : g.cells.length = n + 1 := by rw [hg, alloc_cells]; simp [hn]
      have hgpar : ∀ p ∈ g.par, p.1 ≠ n ∧ p.1 < n + 1 := by
        intro p hp; rw [hg, alloc_par] at hp; have := hpar p hp; omega
      have hrest := elems_built l ihl hwl hkl cyc g n (n + 1) [] 0 [] hglen (by omega) hgn hgpar .nil
      generalize hbe : buildElems l n (n + 1) = be at hrest
      obtain ⟨ops, nxt⟩ := be
      simp only at hrest
      obtain ⟨r1, r2, r3, ⟨rs, r4, r5⟩, r6⟩ := hrest
      have hbo : buildOps (.list l) n = (.newList :: ops, n, nxt) := by simp [buildOps, hbe]
      rw [hbo]
      refine ⟨rfl, ?_⟩
      have hrun : (h.run true cyc (Op.newList :: ops)).1 = (g.run true cyc ops).1 := rfl
      simp only [hrun]
      simp only [List.nil_append, Nat.zero_add] at r4 r5
      refine ⟨r1, ⟨by omega, by simp only [JVal.depth]; omega⟩, ?_, ⟨_, r4⟩, ?_, ?_⟩
      · intro i hi
        rw [r3 i hi, hg, alloc_cells, List.getElem?_append_left (by omega)]
      · intro f hf
        simp only [JVal.depth] at hf
        cases f with
        | zero => omega
        | succ f =>
          simp only [toValR, Nat.lt_irrefl, if_false, r4]
          rw [evalList (Nat.le_succ n) r5 f (by omega)]
      · intro p hp
        rcases r6 p hp with h1 | h1
        · exact Or.inl (by rw [hg, alloc_par] at h1; exact h1)
        · exact Or.inr h1
    | dict kvs =>
      have hwl : keysSorted kvs = true ∧ wfKvs kvs = true := by simpa [JVal.wf] using hw
      have hkl : shortKeysKvs kvs := by simpa [JVal.shortKeys] using hk
      have ihl : ∀ kv ∈ kvs, Rebuilds kv.2 := fun kv hkv => ih kv.2 (by
        have := size_lt_of_mem_kvs hkv; simp only [JVal.size] at hs; omega)
      set n := h.cells.length with hn
      set g := (h.alloc (.dict none 0)).1 with hg
      have hgn : g.cells[n]? = some ⟨.dict none 0, false⟩ := by rw [hg, alloc_cells]; simp [hn]
      have hglen : g.cells.length = n + 1 := by rw [hg, alloc_cells]; simp [hn]
      have hgpar : ∀ p ∈ g.par, p.1 ≠ n ∧ p.1 < n + 1 := by
        intro p hp; rw [hg, alloc_par] at hp; have := hpar p hp; omega
      have hok0 : nodeOk (.dict none 0) :=
        ⟨rfl, trivial, fun e he => by simp [walk] at he, fun e he => by simp [walk] at he⟩
      have hrest := members_built kvs ihl hwl.2 hkl hwl.1 cyc g n (n + 1) none 0 [] hglen (by omega)
        hgn hok0 hgpar (by simp [walk]) (by intro kv0 h0; cases h0)
      generalize hbe : buildMembers kvs n (n + 1) = be at hrest
      obtain ⟨ops, nxt⟩ := be
      simp only at hrest
      obtain ⟨r1, r2, r3, ⟨t', r4, r5⟩, r6⟩ := hrest
      have hbo : buildOps (.dict kvs) n = (.newDict :: ops, n, nxt) := by simp [buildOps, hbe]
      rw [hbo]
      refine ⟨rfl, ?_⟩
      have hrun : (h.run true cyc (Op.newDict :: ops)).1 = (g.run true cyc ops).1 := rfl
      simp only [hrun]
      simp only [List.nil_append, Nat.zero_add] at r4 r5
      refine ⟨r1, ⟨by omega, by simp only [JVal.depth]; omega⟩, ?_, ⟨_, r4⟩, ?_, ?_⟩
      · intro i hi
        rw [r3 i hi, hg, alloc_cells, List.getElem?_append_left (by omega)]
      · intro f hf
        simp only [JVal.depth] at hf
        cases f with
        | zero => omega
        | succ f =>
          simp only [toValR, Nat.lt_irrefl, if_false, r4]
          rw [evalMembers (Nat.le_succ n) r5 f (by omega)]
          simp [zip_keys r5]
      · intro p hp
        rcases r6 p hp with h1 | h1
        · exact Or.inl (by rw [hg, alloc_par] at h1; exact h1)
        · exact Or.inr h1

theorem rebuilds (v : JVal) : Rebuilds v := rebuilds_aux v.size v (Nat.le_refl _)

/-! ## `ParOK` holds in every reachable heap -/

theorem ParOK.of_len {h h' : Heap} (hp : ParOK h) (hl : h.cells.length ≤ h'.cells.length)
    (hpar : h'.par = h.par) : ParOK h' := fun p hm => by
  rw [hpar] at hm; have := hp p hm; omega

theorem ParOK.setParent {h : Heap} (hp : ParOK h) (a b : Nat) : ParOK (h.setParent a b) := by
  unfold Heap.setParent
  by_cases hc : h.isContainer a = true
  · simp only [hc, if_true]
    intro p hm
    simp only [List.mem_cons] at hm
    rcases hm with rfl | hm
    · rw [isContainer_eq] at hc
      cases hg : h.cells[a]? with
      | none => simp [hg] at hc
      | some c => exact (List.getElem?_eq_some_iff.mp hg).1
    · exact hp p hm
  · simp only [hc, Bool.false_eq_true, if_false]; exact hp

theorem ParOK.setCell {h : Heap} (hp : ParOK h) (i : Nat) (c : Cell) : ParOK (h.setCell i c) :=
  hp.of_len (by simp [Heap.setCell]) rfl

theorem ParOK.markAttached {h : Heap} (hp : ParOK h) (i : Nat) : ParOK (h.markAttached i) := by
  unfold Heap.markAttached; split
  · exact hp.setCell _ _
  · exact hp

theorem ParOK.pushElem {h : Heap} (hp : ParOK h) (a b : Nat) : ParOK (h.pushElem a b) := by
  unfold Heap.pushElem; split
  · exact hp.setCell _ _
  · exact hp

theorem ParOK.setDict {h : Heap} (hp : ParOK h) (a : Nat) (t : Option T) (n : Nat) : ParOK (h.setDict a t n) := by
  unfold Heap.setDict; split
  · exact hp.setCell _ _
  · exact hp

theorem ParOK.alloc {h : Heap} (hp : ParOK h) (nd : Node) : ParOK (h.alloc nd).1 :=
  hp.of_len (by simp [alloc_cells]) rfl

theorem ParOK.newScalar {h : Heap} (hp : ParOK h) (s : Scalar) : ParOK (h.newScalar s).1 := by
  cases s with
  | null => exact hp.alloc _
  | bool b => exact hp.alloc _
  | int i => simp only [Heap.newScalar]; split; exact hp; exact hp.alloc _
  | float x => simp only [Heap.newScalar]; split; exact hp; exact hp.alloc _
  | str s => simp only [Heap.newScalar]; split; exact hp; exact hp.alloc _

theorem ParOK.listAppend {h : Heap} (hp : ParOK h) (cyc : Bool) (l v : Option Nat) :
    ParOK (h.listAppend cyc l v).1 := by
  rcases listAppend_cases cyc h l v with e | ⟨vi, vc, li, es, n, la, _, _, _, _, _, _, e⟩
  · rw [e]; exact hp
  · rw [e]; exact ((hp.markAttached vi).setParent vi li).pushElem li vi

theorem ParOK.dictPut {h : Heap} (hp : ParOK h) (cyc : Bool) (d : Option Nat) (k : Bytes) (v : Option Nat) :
    ParOK (h.dictPut true cyc d k v).1 := by
  rcases dictPut_cases cyc h d k v with e | ⟨vi, vc, di, t, n, da, t', _, _, _, _, _, _, _, _, e⟩
  · rw [e]; exact hp
  · rw [e]; exact ((hp.markAttached vi).setParent vi di).setDict di t' (n + 1)

theorem ParOK.step {h : Heap} (hp : ParOK h) (cyc : Bool) (op : Op) : ParOK (h.step true cyc op).1 := by
  cases op with
  | new s => exact hp.newScalar s
  | newList => exact hp.alloc _
  | newDict => exact hp.alloc _
  | append l v => exact hp.listAppend cyc l v
  | appendS l s =>
    simp only [Heap.step]; split
    · exact (hp.newScalar s).listAppend cyc _ _
    · exact hp
  | put d k v => exact hp.dictPut cyc d k v
  | putS d k s =>
    simp only [Heap.step]; split
    · exact (hp.newScalar s).dictPut cyc _ _ _
    · exact hp
  | «seal» v =>
    simp only [Heap.step]; split
    · exact hp.markAttached _
    · exact hp

theorem ParOK.run {h : Heap} (hp : ParOK h) (cyc : Bool) (ops : List Op) : ParOK (h.run true cyc ops).1 := by
  induction ops generalizing h with
  | nil => exact hp
  | cons op ops ih => simp only [Heap.run]; exact ih (hp.step cyc op)

theorem ParOK.empty : ParOK {} := fun p hm => by cases hm

/-! ## loading a parsed tree -/

/-- **Loading rebuilds the tree.**  On any heap (with sane parent entries), running the builder
history of a well-formed tree `v` and sealing its root leaves the old cells untouched and puts at
the fresh id `h.cells.length` an attached cell whose value tree is exactly `v`. -/
theorem load_spec (v : JVal) (hw : v.wf = true) (hk : v.shortKeys) (cyc : Bool) (h : Heap) (hp : ParOK h) :
    let h' := (h.run true cyc (loadOps v h.cells.length)).1
    h'.value h.cells.length = some v ∧ isAtt h' h.cells.length ∧
    (∀ i, i < h.cells.length → h'.cells[i]? = h.cells[i]?) := by
  obtain ⟨hroot, hb⟩ := rebuilds v hw hk cyc h hp
  simp only [loadOps, hroot]
  rw [run_append]
  set h1 := (h.run true cyc (buildOps v h.cells.length).1).1 with hh1
  obtain ⟨nd, hrc⟩ := hb.root
  have hseal : (h1.run true cyc [.seal (some h.cells.length)]).1 = h1.setCell h.cells.length ⟨nd, true⟩ := by
    simp [Heap.run, Heap.step, Heap.get, hrc, Heap.markAttached]
  rw [hseal]
  have hlt : h.cells.length < h1.cells.length := by rw [hb.len]; exact hb.grow.1
  refine ⟨?_, ⟨⟨nd, true⟩, by rw [getElem?_setCell]; simp [hlt], rfl⟩, ?_⟩
  · have hev : EvalAt (h1.setCell h.cells.length ⟨nd, true⟩) h.cells.length h.cells.length v := by
      refine hb.eval.transfer (Nat.le_refl _) (fun j c _ hc => ?_)
      rw [getElem?_setCell]
      by_cases e : h.cells.length = j
      · subst e; rw [hrc] at hc; cases hc; exact ⟨true, by simp [hlt]⟩
      · exact ⟨c.attached, by simpa [e] using hc⟩
    unfold Heap.value
    apply toVal_of_toValR
    apply hev
    rw [setCell_length, hb.len]
    have := hb.grow.2; omega
  · intro i hi
    rw [getElem?_setCell]
    have : h.cells.length ≠ i := by omega
    simp only [this, if_false]
    exact hb.frame i hi

end Usual.C03
