import UsualProofs.C03.BuildInv
/-! C03 proofs — with repair F38 (cycle check in the attaching calls) every reachable heap is a
forest: the structure hanging off any cell is a finite tree, so `json_render` terminates on every
state the builder API can reach. -/
namespace Usual.C03
open Usual.C06 (Entry T walk)
open Heap

/-- ids a cell links to -/
def childrenOf (h : Heap) (i : Nat) : List Nat :=
  match h.cells[i]? with
  | some c => Heap.children c
  | none => []

/-- reachable from `a` by following child links -/
inductive Reach (h : Heap) (a : Nat) : Nat → Prop where
  | refl : Reach h a a
  | step {x y : Nat} : Reach h a x → y ∈ childrenOf h x → Reach h a y

structure Forest (h : Heap) : Prop where
  /-- links point to existing cells -/
  bound : ∀ i j, j ∈ childrenOf h i → j < h.cells.length
  /-- child links strictly decrease some rank: no cycles -/
  rank : ∃ rank : Nat → Nat, ∀ i j, j ∈ childrenOf h i → rank j < rank i
  /-- `c_parent` of an attached container is the container it sits in -/
  parent : ∀ i j, j ∈ childrenOf h i → h.isContainer j = true → h.parentOf j = some i

theorem isContainer_of_child {h : Heap} {i j : Nat} (hj : j ∈ childrenOf h i) : h.isContainer i = true := by
  unfold childrenOf at hj
  unfold Heap.isContainer
  cases hc : h.cells[i]? with
  | none => simp [hc] at hj
  | some c =>
    obtain ⟨node, a⟩ := c
    cases node <;> simp_all [Heap.children]

/-- walking the `c_parent` chain from a container below `a` finds `a` (or runs out of fuel,
which also answers `true`) -/
theorem selfOrAncestor_of_reach {h : Heap} (hf : Forest h) (a : Nat) :
    ∀ x, Reach h a x → h.isContainer x = true → ∀ f, h.selfOrAncestor a f x = true := by
  intro x hr
  induction hr with
  | refl => intro _ f; cases f <;> simp [Heap.selfOrAncestor]
  | @step x y _ hy ih =>
    intro hc f
    cases f with
    | zero => rfl
    | succ f =>
      simp only [Heap.selfOrAncestor]
      by_cases e : (y == a) = true
      · simp [e]
      · simp only [e, Bool.false_eq_true, if_false, hf.parent x y hy hc]
        exact ih (isContainer_of_child hy) f

theorem le_sum_of_mem : ∀ (l : List Nat) {x : Nat}, x ∈ l → x ≤ l.sum
  | [], _, h => by cases h
  | y :: l, x, h => by
    simp only [List.mem_cons] at h
    simp only [List.sum_cons]
    rcases h with rfl | h
    · omega
    · have := le_sum_of_mem l h; omega

theorem occ_pos_of_child {h : Heap} {i j : Nat} (hj : j ∈ childrenOf h i) : 1 ≤ occ h j := by
  unfold childrenOf at hj
  cases hc : h.cells[i]? with
  | none => simp [hc] at hj
  | some c =>
    simp only [hc] at hj
    have hm : c ∈ h.cells := List.mem_of_getElem? hc
    have h1 : 1 ≤ (Heap.children c).count j := List.count_pos_iff.mpr hj
    have : (Heap.children c).count j ≤ occ h j := by
      unfold occ
      exact le_sum_of_mem _ (List.mem_map.mpr ⟨c, hm, rfl⟩)
    omega

/-- attaching an unattached value `vi` below a container `li` that the cycle check let through -/
theorem Forest.attach {h h' : Heap} (hf : Forest h) (ha : AttInv h) (vi li : Nat) (vc : Cell)
    (hv : h.cells[vi]? = some vc) (hva : vc.attached = false)
    (hli : h.isContainer li = true)
    (hchk : h.selfOrAncestor vi (h.cells.length + 1) li = false)
    (hlen : h'.cells.length = h.cells.length)
    (hch : ∀ i, i ≠ li → childrenOf h' i = childrenOf h i)
    (hli' : ∀ j, j ∈ childrenOf h' li ↔ j = vi ∨ j ∈ childrenOf h li)
    (hcont : ∀ j, h'.isContainer j = h.isContainer j)
    (hpar : ∀ j, h'.parentOf j = if j = vi ∧ h.isContainer vi = true then some li else h.parentOf j) :
    Forest h' := by
  -- every link of h' is an old link or the new one
  have edge : ∀ i j, j ∈ childrenOf h' i → j ∈ childrenOf h i ∨ (i = li ∧ j = vi) := by
    intro i j hj
    by_cases e : i = li
    · subst e
      rcases (hli' j).mp hj with rfl | h1
      · exact Or.inr ⟨rfl, rfl⟩
      · exact Or.inl h1
    · rw [hch i e] at hj; exact Or.inl hj
  -- nothing linked to vi before
  have novi : ∀ i, vi ∉ childrenOf h i := by
    intro i hm
    have h1 := occ_pos_of_child hm
    have h2 := (ha vi).2 (by
      rintro ⟨c, hc, hca⟩
      rw [hv] at hc; cases hc; rw [hva] at hca; cases hca)
    omega
  have hvlt : vi < h.cells.length := (List.getElem?_eq_some_iff.mp hv).1
  have hnot : ¬ Reach h vi li := fun hr => by
    have := selfOrAncestor_of_reach hf vi li hr hli (h.cells.length + 1)
    rw [hchk] at this; cases this
  refine ⟨?_, ?_, ?_⟩
  · intro i j hj
    rw [hlen]
    rcases edge i j hj with h1 | ⟨_, rfl⟩
    · exact hf.bound i j h1
    · exact hvlt
  · obtain ⟨rank, hr⟩ := hf.rank
    classical
    refine ⟨fun x => if Reach h vi x then rank x else rank x + (rank vi + 1), ?_⟩
    intro i j hj
    rcases edge i j hj with h1 | ⟨rfl, rfl⟩
    · have hlt := hr i j h1
      by_cases hi : Reach h vi i
      · have hjr : Reach h vi j := Reach.step hi h1
        simp only [hi, hjr, if_true]; exact hlt
      · by_cases hjr : Reach h vi j
        · simp only [hi, hjr, if_true, if_false]; omega
        · simp only [hi, hjr, if_false]; omega
    · have hvr : Reach h j j := Reach.refl
      simp only [hvr, if_true, hnot, if_false]; omega
  · intro i j hj hc
    rw [hcont] at hc
    rw [hpar]
    rcases edge i j hj with h1 | ⟨rfl, rfl⟩
    · have hne : j ≠ vi := fun e => novi i (e ▸ h1)
      simp only [hne, false_and, if_false]
      exact hf.parent i j h1 hc
    · simp [hc]

/-! ## the primitives -/

def isCont (c : Cell) : Bool :=
  match c.node with
  | .list _ _ => true
  | .dict _ _ => true
  | _ => false

theorem isContainer_eq (h : Heap) (i : Nat) :
    h.isContainer i = match h.cells[i]? with | some c => isCont c | none => false := by
  unfold Heap.isContainer
  cases hc : h.cells[i]? with
  | none => rfl
  | some c => obtain ⟨node, a⟩ := c; cases node <;> rfl

theorem childrenOf_setCell (h : Heap) (i : Nat) (c old : Cell) (ho : h.cells[i]? = some old) (j : Nat) :
    childrenOf (h.setCell i c) j = if i = j then Heap.children c else childrenOf h j := by
  have hlt : i < h.cells.length := (List.getElem?_eq_some_iff.mp ho).1
  unfold childrenOf
  rw [getElem?_setCell]
  by_cases e : i = j
  · subst e; simp [hlt]
  · simp [e]

theorem isContainer_setCell (h : Heap) (i : Nat) (c old : Cell) (ho : h.cells[i]? = some old) (j : Nat) :
    (h.setCell i c).isContainer j = if i = j then isCont c else h.isContainer j := by
  have hlt : i < h.cells.length := (List.getElem?_eq_some_iff.mp ho).1
  rw [isContainer_eq, isContainer_eq, getElem?_setCell]
  by_cases e : i = j
  · subst e; simp [hlt]
  · simp [e]

theorem parentOf_setCell (h : Heap) (i : Nat) (c : Cell) (j : Nat) :
    (h.setCell i c).parentOf j = h.parentOf j := rfl

theorem setCell_length (h : Heap) (i : Nat) (c : Cell) : (h.setCell i c).cells.length = h.cells.length := by
  simp [Heap.setCell]

theorem childrenOf_setParent (h : Heap) (a b j : Nat) : childrenOf (h.setParent a b) j = childrenOf h j := by
  unfold childrenOf; rw [setParent_cells]

theorem isContainer_setParent (h : Heap) (a b j : Nat) : (h.setParent a b).isContainer j = h.isContainer j := by
  rw [isContainer_eq, isContainer_eq, setParent_cells]

theorem parentOf_setParent (h : Heap) (a b j : Nat) :
    (h.setParent a b).parentOf j = if j = a ∧ h.isContainer a = true then some b else h.parentOf j := by
  unfold Heap.setParent
  by_cases hc : h.isContainer a = true
  · simp only [hc, if_true, and_true]
    unfold Heap.parentOf
    simp only [List.find?_cons]
    by_cases e : j = a
    · subst e; simp
    · have : (a == j) = false := by simp; exact fun h => e h.symm
      simp [this, e]
  · simp [hc]

/-- `json_list_append` that succeeds keeps the forest -/
theorem Forest.listAppend {h : Heap} (hf : Forest h) (ha : AttInv h) (l v : Option Nat) :
    Forest (h.listAppend true l v).1 := by
  rcases listAppend_cases true h l v with e | ⟨vi, vc, li, es, n, la, _, _, hv, hva, hl, hchk, e⟩
  · rw [e]; exact hf
  · rw [e]
    have hchk := hchk rfl
    have e1 := markAttached_spec h vi vc hv
    obtain ⟨la', hl1, _⟩ := markAttached_get h vi vc hv li _ hl
    have hl2 : ((h.markAttached vi).setParent vi li).cells[li]? = some ⟨.list es n, la'⟩ := by
      rw [setParent_cells]; exact hl1
    have e3 : ((h.markAttached vi).setParent vi li).pushElem li vi =
        ((h.markAttached vi).setParent vi li).setCell li ⟨.list (es ++ [vi]) (n + 1), la'⟩ := by
      simp [Heap.pushElem, hl1]
    have hcli : h.isContainer li = true := by rw [isContainer_eq, hl]; rfl
    have hch1 : ∀ j, childrenOf (h.markAttached vi) j = childrenOf h j := by
      intro j
      rw [e1, childrenOf_setCell h vi _ vc hv j]
      by_cases e : vi = j
      · subst e; simp [childrenOf, hv, Heap.children]
      · simp [e]
    have hco1 : ∀ j, (h.markAttached vi).isContainer j = h.isContainer j := by
      intro j
      rw [e1, isContainer_setCell h vi _ vc hv j]
      by_cases e : vi = j
      · subst e; simp [isContainer_eq h, hv, isCont]
      · simp [e]
    refine hf.attach ha vi li vc hv hva hcli hchk ?_ ?_ ?_ ?_ ?_
    · rw [e3, setCell_length, setParent_cells, e1, setCell_length]
    · intro i hi
      rw [e3, childrenOf_setCell _ li _ _ hl2 i, childrenOf_setParent, hch1]
      rw [if_neg (fun e => hi (Eq.symm e))]
    · intro j
      rw [e3, childrenOf_setCell _ li _ _ hl2 li]
      simp only [if_true, Heap.children, List.mem_append, List.mem_singleton]
      have : childrenOf h li = es := by simp [childrenOf, hl, Heap.children]
      rw [this]
      constructor
      · rintro (h1 | h1); exact Or.inr h1; exact Or.inl h1
      · rintro (h1 | h1); exact Or.inr h1; exact Or.inl h1
    · intro j
      rw [e3, isContainer_setCell _ li _ _ hl2 j, isContainer_setParent, hco1]
      by_cases e : li = j
      · subst e; simp [hcli, isCont]
      · simp [e]
    · intro j
      rw [e3, parentOf_setCell, parentOf_setParent, hco1, e1, parentOf_setCell]

/-- `json_dict_put` that succeeds keeps the forest -/
theorem Forest.dictPut {h : Heap} (hf : Forest h) (ha : AttInv h) (d : Option Nat) (k : Bytes)
    (v : Option Nat) : Forest (h.dictPut true true d k v).1 := by
  rcases dictPut_cases true h d k v with e | ⟨vi, vc, di, t, n, da, t', _, _, hv, hva, hd, _, hins, hchk, e⟩
  · rw [e]; exact hf
  · rw [e]
    have hchk := hchk rfl
    have e1 := markAttached_spec h vi vc hv
    obtain ⟨da', hd1, _⟩ := markAttached_get h vi vc hv di _ hd
    have hd2 : ((h.markAttached vi).setParent vi di).cells[di]? = some ⟨.dict t n, da'⟩ := by
      rw [setParent_cells]; exact hd1
    have e3 : ((h.markAttached vi).setParent vi di).setDict di t' (n + 1) =
        ((h.markAttached vi).setParent vi di).setCell di ⟨.dict t' (n + 1), da'⟩ := by
      simp [Heap.setDict, hd1]
    have hcdi : h.isContainer di = true := by rw [isContainer_eq, hd]; rfl
    have hch1 : ∀ j, childrenOf (h.markAttached vi) j = childrenOf h j := by
      intro j
      rw [e1, childrenOf_setCell h vi _ vc hv j]
      by_cases e : vi = j
      · subst e; simp [childrenOf, hv, Heap.children]
      · simp [e]
    have hco1 : ∀ j, (h.markAttached vi).isContainer j = h.isContainer j := by
      intro j
      rw [e1, isContainer_setCell h vi _ vc hv j]
      by_cases e : vi = j
      · subst e; simp [isContainer_eq h, hv, isCont]
      · simp [e]
    refine hf.attach ha vi di vc hv hva hcdi hchk ?_ ?_ ?_ ?_ ?_
    · rw [e3, setCell_length, setParent_cells, e1, setCell_length]
    · intro i hi
      rw [e3, childrenOf_setCell _ di _ _ hd2 i, childrenOf_setParent, hch1]
      rw [if_neg (fun e => hi (Eq.symm e))]
    · intro j
      rw [e3, childrenOf_setCell _ di _ _ hd2 di]
      obtain ⟨a, b, w1, w2⟩ := insert_walk t t' _ hins
      have : childrenOf h di = (walk t).map (·.obj) := by simp [childrenOf, hd, Heap.children]
      rw [this]
      simp only [if_true, Heap.children, w1, w2, List.map_append, List.map_cons, List.mem_append,
        List.mem_cons]
      constructor
      · rintro (h1 | h1 | h1)
        · exact Or.inr (Or.inl h1)
        · exact Or.inl h1
        · exact Or.inr (Or.inr h1)
      · rintro (h1 | h1 | h1)
        · exact Or.inr (Or.inl h1)
        · exact Or.inl h1
        · exact Or.inr (Or.inr h1)
    · intro j
      rw [e3, isContainer_setCell _ di _ _ hd2 j, isContainer_setParent, hco1]
      by_cases e : di = j
      · subst e; simp [hcdi, isCont]
      · simp [e]
    · intro j
      rw [e3, parentOf_setCell, parentOf_setParent, hco1, e1, parentOf_setCell]

/-- a fresh cell without links -/
theorem Forest.alloc {h : Heap} (hf : Forest h) (n : Node) (hn : Heap.children ⟨n, false⟩ = []) :
    Forest (h.alloc n).1 := by
  have hch : ∀ i, childrenOf (h.alloc n).1 i = childrenOf h i := by
    intro i
    unfold childrenOf
    simp only [Heap.alloc]
    by_cases hi : i < h.cells.length
    · rw [List.getElem?_append_left hi]
    · have h1 : h.cells[i]? = none := List.getElem?_eq_none (by omega)
      rw [h1]
      by_cases e : i = h.cells.length
      · subst e; simp [hn]
      · rw [List.getElem?_eq_none (by simp; omega)]
  have hco : ∀ j, j < h.cells.length → (h.alloc n).1.isContainer j = h.isContainer j := by
    intro j hj
    rw [isContainer_eq, isContainer_eq]
    simp only [Heap.alloc, List.getElem?_append_left hj]
  refine ⟨?_, ?_, ?_⟩
  · intro i j hj
    rw [hch] at hj
    have := hf.bound i j hj
    simp only [Heap.alloc, List.length_append, List.length_singleton]; omega
  · obtain ⟨r, hr⟩ := hf.rank
    exact ⟨r, fun i j hj => hr i j (by rw [hch] at hj; exact hj)⟩
  · intro i j hj hc
    rw [hch] at hj
    have hb := hf.bound i j hj
    rw [hco j hb] at hc
    exact hf.parent i j hj hc

theorem Forest.markAttached {h : Heap} (hf : Forest h) (vi : Nat) : Forest (h.markAttached vi) := by
  cases hv : h.cells[vi]? with
  | none => simp only [Heap.markAttached, hv]; exact hf
  | some vc =>
    have e1 := markAttached_spec h vi vc hv
    have hch1 : ∀ j, childrenOf (h.markAttached vi) j = childrenOf h j := by
      intro j
      rw [e1, childrenOf_setCell h vi _ vc hv j]
      by_cases e : vi = j
      · subst e; simp [childrenOf, hv, Heap.children]
      · simp [e]
    have hco1 : ∀ j, (h.markAttached vi).isContainer j = h.isContainer j := by
      intro j
      rw [e1, isContainer_setCell h vi _ vc hv j]
      by_cases e : vi = j
      · subst e; simp [isContainer_eq h, hv, isCont]
      · simp [e]
    refine ⟨?_, ?_, ?_⟩
    · intro i j hj; rw [hch1] at hj; rw [e1, setCell_length]; exact hf.bound i j hj
    · obtain ⟨r, hr⟩ := hf.rank
      exact ⟨r, fun i j hj => hr i j (by rw [hch1] at hj; exact hj)⟩
    · intro i j hj hc
      rw [hch1] at hj; rw [hco1] at hc
      rw [e1, parentOf_setCell]; exact hf.parent i j hj hc

theorem Forest.newScalar {h : Heap} (hf : Forest h) (s : Scalar) : Forest (h.newScalar s).1 := by
  cases s with
  | null => exact hf.alloc _ rfl
  | bool b => exact hf.alloc _ rfl
  | int i => simp only [Heap.newScalar]; split; exact hf; exact hf.alloc _ rfl
  | float x => simp only [Heap.newScalar]; split; exact hf; exact hf.alloc _ rfl
  | str s => simp only [Heap.newScalar]; split; exact hf; exact hf.alloc _ rfl

theorem Forest.step {h : Heap} (hf : Forest h) (ha : AttInv h) (op : Op) : Forest (h.step true true op).1 := by
  cases op with
  | new s => exact hf.newScalar s
  | newList => exact hf.alloc _ rfl
  | newDict => exact hf.alloc _ rfl
  | append l v => exact hf.listAppend ha l v
  | appendS l s =>
    simp only [Heap.step]
    split
    · exact (hf.newScalar s).listAppend (ha.of_good (Good.newScalar h s)) _ _
    · exact hf
  | put d k v => exact hf.dictPut ha d k v
  | putS d k s =>
    simp only [Heap.step]
    split
    · exact (hf.newScalar s).dictPut (ha.of_good (Good.newScalar h s)) _ _ _
    · exact hf
  | «seal» v =>
    simp only [Heap.step]
    split
    · exact hf.markAttached _
    · exact hf

theorem Forest.run {h : Heap} (hf : Forest h) (ha : AttInv h) (ops : List Op) :
    Forest (h.run true true ops).1 := by
  induction ops generalizing h with
  | nil => exact hf
  | cons op ops ih => simp only [Heap.run]; exact ih (hf.step ha op) (ha.step true op)

theorem Forest.empty : Forest {} :=
  ⟨fun i j hj => by simp [childrenOf] at hj, ⟨fun _ => 0, fun i j hj => by simp [childrenOf] at hj⟩,
   fun i j hj => by simp [childrenOf] at hj⟩

/-! ## the structure below every cell is a finite tree -/

theorem optList_total {α β : Type} (g : α → Option β) : ∀ es : List α,
    (∀ e ∈ es, ∃ v, g e = some v) → ∃ l, Heap.optList (es.map g) = some l
  | [], _ => ⟨[], rfl⟩
  | e :: es, h => by
    obtain ⟨v, hv⟩ := h e (by simp)
    obtain ⟨l, hl⟩ := optList_total g es (fun x hx => h x (by simp [hx]))
    exact ⟨v :: l, by simp [Heap.optList, hv, hl]⟩

theorem Forest.total {h : Heap} (hf : Forest h) (i : Nat) (hi : i < h.cells.length) :
    ∃ f v, h.toVal f i = some v := by
  obtain ⟨rank, hr⟩ := hf.rank
  have key : ∀ r i, rank i ≤ r → i < h.cells.length → ∃ v, h.toVal (r + 1) i = some v := by
    intro r
    induction r with
    | zero =>
      intro i hri hi
      obtain ⟨c, hc⟩ : ∃ c, h.cells[i]? = some c := ⟨h.cells[i], List.getElem?_eq_getElem hi⟩
      have nochild : ∀ j, j ∉ childrenOf h i := fun j hj => by have := hr i j hj; omega
      obtain ⟨node, a⟩ := c
      rw [Heap.toVal]; simp only [hc]
      cases node with
      | null => exact ⟨_, rfl⟩
      | bool b => exact ⟨_, rfl⟩
      | int n => exact ⟨_, rfl⟩
      | float x => exact ⟨_, rfl⟩
      | str s => exact ⟨_, rfl⟩
      | list es n =>
        have : es = [] := by
          cases es with
          | nil => rfl
          | cons e _ => exact absurd (by simp [childrenOf, hc, Heap.children]) (nochild e)
        subst this; exact ⟨_, rfl⟩
      | dict t n =>
        have : walk t = [] := by
          cases hw : walk t with
          | nil => rfl
          | cons e _ => exact absurd (by simp [childrenOf, hc, Heap.children, hw]) (nochild e.obj)
        simp [this, Heap.optList]
    | succ r ih =>
      intro i hri hi
      obtain ⟨c, hc⟩ : ∃ c, h.cells[i]? = some c := ⟨h.cells[i], List.getElem?_eq_getElem hi⟩
      have child : ∀ j, j ∈ childrenOf h i → ∃ v, h.toVal (r + 1) j = some v := fun j hj =>
        ih j (by have := hr i j hj; omega) (hf.bound i j hj)
      obtain ⟨node, a⟩ := c
      rw [Heap.toVal]; simp only [hc]
      cases node with
      | null => exact ⟨_, rfl⟩
      | bool b => exact ⟨_, rfl⟩
      | int n => exact ⟨_, rfl⟩
      | float x => exact ⟨_, rfl⟩
      | str s => exact ⟨_, rfl⟩
      | list es n =>
        obtain ⟨l, hl⟩ := optList_total (h.toVal (r + 1)) es
          (fun e he => child e (by simp [childrenOf, hc, Heap.children, he]))
        exact ⟨.list l, by simp [hl]⟩
      | dict t n =>
        obtain ⟨l, hl⟩ := optList_total (fun e : Entry => h.toVal (r + 1) e.obj) (walk t)
          (fun e he => child e.obj (by
            simp only [childrenOf, hc, Heap.children, List.mem_map]; exact ⟨e, he, rfl⟩))
        exact ⟨.dict ((walk t).map (·.key) |>.zip l), by simp [hl]⟩
  obtain ⟨v, hv⟩ := key (rank i) i (Nat.le_refl _) hi
  exact ⟨_, v, hv⟩

end Usual.C03
