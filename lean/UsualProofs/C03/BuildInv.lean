import Usual.C03.Build
import UsualProofs.C03.Str
import UsualProofs.C06.Refine
/-! C03 proofs — invariants of the builder heap: `v_size` = number of elements iteration visits,
a value is linked from at most one place, dict trees are well-formed crit-bit trees. -/
namespace Usual.C03
open Usual.C06 (Entry T walk)

/-! ## crit-bit insert adds exactly one entry -/

theorem insertAt_entries (t : T) (n : Nat) (e : Entry) :
    ∃ a b, t.entries = a ++ b ∧ (t.insertAt n e).entries = a ++ e :: b := by
  induction t with
  | leaf x =>
    unfold T.insertAt
    by_cases hb : Usual.C06.getBit e.key n = true
    · exact ⟨[x], [], by simp [T.entries], by simp [hb, T.entries]⟩
    · exact ⟨[], [x], by simp [T.entries], by simp [hb, T.entries]⟩
  | node b l r ihl ihr =>
    unfold T.insertAt
    by_cases hlt : b < n
    · simp only [hlt, if_true]
      by_cases hb : Usual.C06.getBit e.key b = true
      · obtain ⟨a, c, h1, h2⟩ := ihr
        exact ⟨l.entries ++ a, c, by simp [T.entries, h1], by simp [hb, T.entries, h2]⟩
      · obtain ⟨a, c, h1, h2⟩ := ihl
        exact ⟨a, c ++ r.entries, by simp [T.entries, h1], by simp [hb, T.entries, h2]⟩
    · simp only [hlt, if_false]
      by_cases hb : Usual.C06.getBit e.key n = true
      · exact ⟨(T.node b l r).entries, [], by simp, by simp [hb, T.entries]⟩
      · exact ⟨[], (T.node b l r).entries, by simp, by simp [hb, T.entries]⟩

theorem insert_walk (root r : Option T) (e : Entry) (h : Usual.C06.insert root e = some r) :
    ∃ a b, walk root = a ++ b ∧ walk r = a ++ e :: b := by
  cases root with
  | none =>
    simp only [Usual.C06.insert, Option.some.injEq] at h
    subst h
    exact ⟨[], [], rfl, rfl⟩
  | some t =>
    simp only [Usual.C06.insert] at h
    split at h
    · cases h
    · rename_i n _
      simp only [Option.some.injEq] at h
      subst h
      exact insertAt_entries t n e

/-! ## shape of the two attaching calls -/

open Heap

theorem listAppend_cases (cyc : Bool) (h : Heap) (l v : Option Nat) :
    h.listAppend cyc l v = (h, false) ∨
    ∃ vi vc li es n la, v = some vi ∧ l = some li ∧ h.cells[vi]? = some vc ∧ vc.attached = false ∧
      h.cells[li]? = some ⟨.list es n, la⟩ ∧
      (cyc = true → h.selfOrAncestor vi (h.cells.length + 1) li = false) ∧
      h.listAppend cyc l v = (((h.markAttached vi).setParent vi li).pushElem li vi, true) := by
  unfold listAppend
  split
  · rename_i vi vc hg
    split
    · rename_i li es n la hgl
      by_cases ha : vc.attached = true
      · left; simp [ha]
      · by_cases hcy : (cyc && h.selfOrAncestor vi (h.cells.length + 1) li) = true
        · left; simp [ha, hcy]
        right
        refine ⟨vi, vc, li, es, n, la, rfl, rfl, ?_, by simpa using ha, ?_, ?_, by simp [ha, hcy]⟩
        · simpa [Heap.get] using hg
        · simpa [Heap.get] using hgl
        · intro hc; subst hc; simpa using hcy
    · left; rfl
  · left; rfl

theorem dictPut_cases (cyc : Bool) (h : Heap) (d : Option Nat) (k : Bytes) (v : Option Nat) :
    h.dictPut true cyc d k v = (h, false) ∨
    ∃ vi vc di t n da t', v = some vi ∧ d = some di ∧ h.cells[vi]? = some vc ∧ vc.attached = false ∧
      h.cells[di]? = some ⟨.dict t n, da⟩ ∧ (validString k = true ∧ k.length ≤ Heap.jsonMaxKey) ∧
      Usual.C06.insert t ⟨k, vi⟩ = some t' ∧
      (cyc = true → h.selfOrAncestor vi (h.cells.length + 1) di = false) ∧
      h.dictPut true cyc d k v = (((h.markAttached vi).setParent vi di).setDict di t' (n + 1), true) := by
  unfold dictPut
  split
  · rename_i vi vc hg
    split
    · rename_i di t n da hgl
      by_cases ha : vc.attached = true
      · left; simp [ha]
      · by_cases hcy : (cyc && h.selfOrAncestor vi (h.cells.length + 1) di) = true
        · left; simp [ha, hcy]
        by_cases hk : validString k = true
        · by_cases hlen : k.length > Heap.jsonMaxKey
          · left; simp [ha, hcy, hk, hlen]
          cases hi : Usual.C06.insert t ⟨k, vi⟩ with
          | none => left; simp [ha, hcy, hk, hlen]
          | some t' =>
            right
            refine ⟨vi, vc, di, t, n, da, t', rfl, rfl, ?_, by simpa using ha, ?_, ⟨hk, by omega⟩, hi, ?_,
              by simp [ha, hcy, hk, hlen]⟩
            · simpa [Heap.get] using hg
            · simpa [Heap.get] using hgl
            · intro hc; subst hc; simpa using hcy
        · left; simp [ha, hcy, hk]
    · left; rfl
  · left; rfl

/-! ## size invariant -/

/-- what every cell satisfies in a reachable heap -/
def nodeOk : Node → Prop
  | .int i => -maxInt ≤ i ∧ i ≤ maxInt
  | .float x => isFinite x = true
  | .str s => validString s = true
  | .list es n => n = es.length
  | .dict t n => n = (walk t).length ∧ Usual.C06.Inv t ∧ Usual.C06.NTZ t ∧
      ∀ e ∈ walk t, validString e.key = true ∧ e.key.length ≤ Heap.jsonMaxKey
  | _ => True

def SizeInv (h : Heap) : Prop := ∀ c ∈ h.cells, nodeOk c.node

theorem SizeInv.alloc {h : Heap} (hi : SizeInv h) (n : Node) (hn : nodeOk n) : SizeInv (h.alloc n).1 := by
  intro c hc
  simp only [Heap.alloc, List.mem_append, List.mem_singleton] at hc
  rcases hc with hc | rfl
  · exact hi c hc
  · exact hn

theorem SizeInv.setCell {h : Heap} (hi : SizeInv h) (i : Nat) (c : Cell) (hn : nodeOk c.node) :
    SizeInv (h.setCell i c) := by
  intro x hx
  simp only [Heap.setCell] at hx
  rcases List.mem_or_eq_of_mem_set hx with hx | rfl
  · exact hi x hx
  · exact hn

theorem SizeInv.get {h : Heap} (hi : SizeInv h) {i : Nat} {c : Cell} (hc : h.cells[i]? = some c) :
    nodeOk c.node := hi c (List.mem_of_getElem? hc)

theorem SizeInv.markAttached {h : Heap} (hi : SizeInv h) (vi : Nat) : SizeInv (h.markAttached vi) := by
  unfold Heap.markAttached
  split
  · rename_i c hc; exact hi.setCell vi ⟨c.node, true⟩ (SizeInv.get hi (c := c) hc)
  · exact hi

theorem SizeInv.pushElem {h : Heap} (hi : SizeInv h) (li vi : Nat) : SizeInv (h.pushElem li vi) := by
  unfold Heap.pushElem
  split
  · rename_i es n la hc
    have := hi.get hc
    simp only [nodeOk] at this
    exact hi.setCell li _ (by simp [nodeOk, this])
  · exact hi

theorem SizeInv.setDict {h : Heap} (hi : SizeInv h) (di : Nat) (t : Option T) (n : Nat)
    (hn : nodeOk (.dict t n)) : SizeInv (h.setDict di t n) := by
  unfold Heap.setDict
  split
  · exact hi.setCell di _ hn
  · exact hi

theorem SizeInv.newScalar {h : Heap} (hi : SizeInv h) (s : Scalar) : SizeInv (h.newScalar s).1 := by
  cases s with
  | null => exact hi.alloc _ trivial
  | bool b => exact hi.alloc _ trivial
  | int i =>
    simp only [Heap.newScalar]
    by_cases hr : (decide (i < -maxInt) || decide (i > maxInt)) = true
    · simp [hr]; exact hi
    · simp only [hr, Bool.false_eq_true, if_false]
      refine hi.alloc _ ?_
      simp only [Bool.or_eq_true, decide_eq_true_eq, not_or, Int.not_lt] at hr
      exact ⟨hr.1, by have := hr.2; omega⟩
  | float x =>
    simp only [Heap.newScalar]
    by_cases hr : isFinite x = true
    · simp only [hr, Bool.not_true, Bool.false_eq_true, if_false]; exact hi.alloc _ hr
    · simp [hr]; exact hi
  | str s =>
    simp only [Heap.newScalar]
    by_cases hr : validString s = true
    · simp only [hr, Bool.not_true, Bool.false_eq_true, if_false]; exact hi.alloc _ hr
    · simp [hr]; exact hi

/-- a valid string has no zero byte, hence no trailing zero (the precondition of C06) -/
theorem validStr_ntz : ∀ (f : Nat) (s : Bytes), validStr f s = true → ∀ b ∈ s, b ≠ 0 := by
  intro f
  induction f with
  | zero => intro s h; simp [validStr] at h
  | succ f ih =>
    intro s h
    cases s with
    | nil => intro b hb; cases hb
    | cons b r =>
      simp only [validStr] at h
      by_cases hz : (b == 0) = true
      · simp [hz] at h
      simp only [hz, Bool.false_eq_true, if_false] at h
      have hb0 : b ≠ 0 := by simpa using hz
      cases hu : Rfc.utf8Len (b :: r) with
      | none => simp [hu] at h
      | some n =>
        simp only [hu] at h
        have tl : ∀ t : UInt8, Rfc.isTail t = true → t ≠ 0 := by
          intro t ht e; subst e; simp [Rfc.isTail] at ht
        rcases utf8Len_cases b r n hu with ⟨rfl, _, _⟩ | ⟨rfl, _, b1, r', rfl, t1, _⟩ |
            ⟨rfl, _, b1, b2, r', rfl, t1, t2, _⟩ | ⟨rfl, _, b1, b2, b3, r', rfl, t1, t2, t3, _⟩
        all_goals
          simp only [List.drop_succ_cons, List.drop_zero] at h
          have := ih _ h
          intro x hx
          simp only [List.mem_cons] at hx
        · rcases hx with rfl | hx
          · exact hb0
          · exact this x hx
        · rcases hx with rfl | rfl | hx
          · exact hb0
          · exact tl _ t1
          · exact this x hx
        · rcases hx with rfl | rfl | rfl | hx
          · exact hb0
          · exact tl _ t1
          · exact tl _ t2
          · exact this x hx
        · rcases hx with rfl | rfl | rfl | rfl | hx
          · exact hb0
          · exact tl _ t1
          · exact tl _ t2
          · exact tl _ t3
          · exact this x hx

theorem validString_noTrailingZero (k : Bytes) (h : validString k = true) :
    Usual.C06.NoTrailingZero k := by
  intro hl
  have := validStr_ntz _ k h 0 (List.mem_of_getLast? hl)
  exact this rfl

theorem nodeOk_insert (t t' : Option T) (n : Nat) (k : Bytes) (vi : Nat)
    (ho : nodeOk (.dict t n)) (hk : validString k = true ∧ k.length ≤ Heap.jsonMaxKey)
    (hi : Usual.C06.insert t ⟨k, vi⟩ = some t') : nodeOk (.dict t' (n + 1)) := by
  obtain ⟨hn, hinv, hntz, hkeys⟩ := ho
  obtain ⟨a, b, e1, e2⟩ := insert_walk t t' _ hi
  have hr := (Usual.C06.insert_refines t hinv hntz ⟨k, vi⟩ (validString_noTrailingZero k hk.1)).2 t' hi
  refine ⟨?_, hr.1, hr.2.1, ?_⟩
  · rw [hn, e1, e2]; simp; omega
  · intro e he
    rw [e2] at he
    simp only [List.mem_append, List.mem_cons] at he
    rcases he with he | rfl | he
    · exact hkeys e (by rw [e1]; simp [he])
    · exact hk
    · exact hkeys e (by rw [e1]; simp [he])

@[simp] theorem setParent_cells (h : Heap) (vi li : Nat) : (h.setParent vi li).cells = h.cells := by
  unfold Heap.setParent; split <;> rfl

theorem SizeInv.setParent {h : Heap} (hi : SizeInv h) (vi li : Nat) : SizeInv (h.setParent vi li) := by
  intro c hc; rw [setParent_cells] at hc; exact hi c hc

theorem SizeInv.listAppend {h : Heap} (hi : SizeInv h) (cyc : Bool) (l v : Option Nat) :
    SizeInv (h.listAppend cyc l v).1 := by
  rcases listAppend_cases cyc h l v with e | ⟨vi, vc, li, es, n, la, _, _, _, _, _, _, e⟩
  · rw [e]; exact hi
  · rw [e]; exact ((hi.markAttached vi).setParent vi li).pushElem li vi

theorem markAttached_get_dict {h : Heap} {vi di : Nat} {t : Option T} {n : Nat} {da : Bool}
    (hd : h.cells[di]? = some ⟨.dict t n, da⟩) :
    ∃ da', (h.markAttached vi).cells[di]? = some ⟨.dict t n, da'⟩ := by
  unfold Heap.markAttached
  split
  · rename_i c hc
    simp only [Heap.setCell, List.getElem?_set]
    by_cases e : vi = di
    · subst e
      rw [hd] at hc
      simp only [Option.some.injEq] at hc
      subst hc
      have : vi < h.cells.length := by
        have := List.getElem?_eq_some_iff.mp hd; exact this.1
      simp [this]
    · simp [e, hd]
  · exact ⟨da, hd⟩

theorem SizeInv.dictPut {h : Heap} (hi : SizeInv h) (cyc : Bool) (d : Option Nat) (k : Bytes)
    (v : Option Nat) : SizeInv (h.dictPut true cyc d k v).1 := by
  rcases dictPut_cases cyc h d k v with e | ⟨vi, vc, di, t, n, da, t', _, _, _, _, hd, hk, hins, _, e⟩
  · rw [e]; exact hi
  · rw [e]
    exact ((hi.markAttached vi).setParent vi di).setDict di t' (n + 1)
      (nodeOk_insert t t' n k vi (hi.get hd) hk hins)

theorem SizeInv.step {h : Heap} (hi : SizeInv h) (cyc : Bool) (op : Op) :
    SizeInv (h.step true cyc op).1 := by
  cases op with
  | new s => exact hi.newScalar s
  | newList => exact hi.alloc _ (by simp [nodeOk])
  | newDict =>
    refine hi.alloc _ ⟨rfl, trivial, ?_, ?_⟩
    · intro e he; simp [walk] at he
    · intro e he; simp [walk] at he
  | append l v => exact hi.listAppend cyc l v
  | appendS l s =>
    simp only [Heap.step]
    by_cases hc : h.hasContext l = true
    · simp only [hc, if_true]; exact (hi.newScalar s).listAppend cyc _ _
    · simp only [hc, Bool.false_eq_true, if_false]; exact hi
  | put d k v => exact hi.dictPut cyc d k v
  | putS d k s =>
    simp only [Heap.step]
    by_cases hc : h.hasContext d = true
    · simp only [hc, if_true]; exact (hi.newScalar s).dictPut cyc _ _ _
    · simp only [hc, Bool.false_eq_true, if_false]; exact hi
  | «seal» v =>
    simp only [Heap.step]
    split
    · exact hi.markAttached _
    · exact hi

theorem SizeInv.run {h : Heap} (hi : SizeInv h) (cyc : Bool) (ops : List Op) :
    SizeInv (h.run true cyc ops).1 := by
  induction ops generalizing h with
  | nil => exact hi
  | cons op ops ih => simp only [Heap.run]; exact ih (hi.step cyc op)

theorem SizeInv.empty : SizeInv {} := by intro c hc; cases hc

/-- in a heap satisfying the invariant, `json_value_size` of a container is the number of
elements its iterator visits -/
theorem SizeInv.size_eq_iter {h : Heap} (hi : SizeInv h) (p : Option Nat) (l : List Nat)
    (hl : h.iter p = some l) : h.valueSize p = l.length := by
  unfold Heap.iter at hl
  unfold Heap.valueSize
  split at hl
  · rename_i es n a hg
    simp only [Option.some.injEq] at hl; subst hl
    have : nodeOk (.list es n) := by
      cases p with
      | none => simp [Heap.get] at hg
      | some i => exact SizeInv.get hi (c := ⟨.list es n, a⟩) (by simpa [Heap.get] using hg)
    rw [hg]; exact this
  · rename_i t n a hg
    simp only [Option.some.injEq] at hl; subst hl
    have : nodeOk (.dict t n) := by
      cases p with
      | none => simp [Heap.get] at hg
      | some i => exact SizeInv.get hi (c := ⟨.dict t n, a⟩) (by simpa [Heap.get] using hg)
    rw [hg]; simp [this.1]
  · cases hl

/-! ## attachment invariant -/

/-- number of links to cell `id` from all containers of the heap -/
def occ (h : Heap) (id : Nat) : Nat := (h.cells.map (fun c => (Heap.children c).count id)).sum

/-- the cell exists and is not `UNATTACHED` -/
def isAtt (h : Heap) (id : Nat) : Prop := ∃ c, h.cells[id]? = some c ∧ c.attached = true

/-- every value is linked from at most one place, and an `UNATTACHED` value from nowhere -/
def AttInv (h : Heap) : Prop := ∀ id, occ h id ≤ 1 ∧ (¬ isAtt h id → occ h id = 0)

/-- effect of one call on links: flags only go from unattached to attached, and either no link
changes or exactly one link to a previously unattached, now attached value is added -/
def Good (h h' : Heap) : Prop :=
  (∀ id, isAtt h id → isAtt h' id) ∧
  ((∀ id, occ h' id = occ h id) ∨
   ∃ vi, ¬ isAtt h vi ∧ isAtt h' vi ∧ ∀ id, occ h' id = occ h id + if id = vi then 1 else 0)

theorem AttInv.of_good {h h' : Heap} (hi : AttInv h) (hg : Good h h') : AttInv h' := by
  intro id
  obtain ⟨hmono, hocc | ⟨vi, hn, hy, hocc⟩⟩ := hg
  · rw [hocc id]
    exact ⟨(hi id).1, fun hna => (hi id).2 (fun ha => hna (hmono id ha))⟩
  · rw [hocc id]
    by_cases e : id = vi
    · subst e
      have := (hi id).2 hn
      simp only [if_true]
      exact ⟨by omega, fun hna => absurd hy hna⟩
    · simp only [e, if_false, Nat.add_zero]
      exact ⟨(hi id).1, fun hna => (hi id).2 (fun ha => hna (hmono id ha))⟩

theorem Good.refl (h : Heap) : Good h h := ⟨fun _ a => a, Or.inl fun _ => rfl⟩

theorem sum_map_set {α : Type} (f : α → Nat) : ∀ (l : List α) (i : Nat) (a old : α),
    l[i]? = some old → ((l.set i a).map f).sum + f old = (l.map f).sum + f a
  | [], i, a, old, h => by simp at h
  | x :: l, 0, a, old, h => by
    simp only [List.getElem?_cons_zero, Option.some.injEq] at h
    subst h; simp; omega
  | x :: l, i + 1, a, old, h => by
    simp only [List.getElem?_cons_succ] at h
    have := sum_map_set f l i a old h
    simp only [List.set_cons_succ, List.map_cons, List.sum_cons]; omega

theorem occ_setCell (h : Heap) (i : Nat) (c old : Cell) (ho : h.cells[i]? = some old) (id : Nat) :
    occ (h.setCell i c) id + (Heap.children old).count id = occ h id + (Heap.children c).count id := by
  simpa [occ, Heap.setCell] using sum_map_set (fun c => (Heap.children c).count id) h.cells i c old ho

theorem getElem?_setCell (h : Heap) (i j : Nat) (c : Cell) :
    (h.setCell i c).cells[j]? = if i = j then (if i < h.cells.length then some c else none) else h.cells[j]? := by
  simp only [Heap.setCell, List.getElem?_set]

/-- replacing a cell by one with the same flag or an attached one, and the same node kind -/
theorem isAtt_setCell_mono (h : Heap) (i : Nat) (c old : Cell) (ho : h.cells[i]? = some old)
    (hf : old.attached = true → c.attached = true) (id : Nat) (ha : isAtt h id) :
    isAtt (h.setCell i c) id := by
  obtain ⟨x, hx, hxa⟩ := ha
  rw [isAtt, getElem?_setCell]
  have hlt : i < h.cells.length := (List.getElem?_eq_some_iff.mp ho).1
  by_cases e : i = id
  · subst e
    rw [ho] at hx
    simp only [Option.some.injEq] at hx; subst hx
    exact ⟨c, by simp [hlt], hf hxa⟩
  · exact ⟨x, by simp [e, hx], hxa⟩

theorem Good.alloc (h : Heap) (n : Node) (hn : Heap.children ⟨n, false⟩ = []) : Good h (h.alloc n).1 := by
  refine ⟨?_, Or.inl ?_⟩
  · rintro id ⟨c, hc, ha⟩
    have hlt : id < h.cells.length := (List.getElem?_eq_some_iff.mp hc).1
    exact ⟨c, by simp [Heap.alloc, List.getElem?_append_left hlt, hc], ha⟩
  · intro id
    simp [occ, Heap.alloc, hn]

theorem markAttached_spec (h : Heap) (vi : Nat) (vc : Cell) (hv : h.cells[vi]? = some vc) :
    h.markAttached vi = h.setCell vi ⟨vc.node, true⟩ := by
  simp [Heap.markAttached, hv]

theorem Good.markAttached (h : Heap) (vi : Nat) : Good h (h.markAttached vi) := by
  cases hv : h.cells[vi]? with
  | none => simp only [Heap.markAttached, hv]; exact Good.refl h
  | some vc =>
    rw [markAttached_spec h vi vc hv]
    refine ⟨isAtt_setCell_mono h vi _ vc hv (fun _ => rfl), Or.inl ?_⟩
    intro id
    have := occ_setCell h vi ⟨vc.node, true⟩ vc hv id
    simp only [Heap.children] at this
    omega

theorem pushElem_good (h : Heap) (li vi : Nat) (es : List Nat) (n : Nat) (la : Bool)
    (hl : h.cells[li]? = some ⟨.list es n, la⟩) :
    (∀ id, isAtt h id → isAtt (h.pushElem li vi) id) ∧
    ∀ id, occ (h.pushElem li vi) id = occ h id + if id = vi then 1 else 0 := by
  have e : h.pushElem li vi = h.setCell li ⟨.list (es ++ [vi]) (n + 1), la⟩ := by
    simp [Heap.pushElem, hl]
  rw [e]
  refine ⟨isAtt_setCell_mono h li _ _ hl (fun a => a), ?_⟩
  intro id
  have := occ_setCell h li ⟨.list (es ++ [vi]) (n + 1), la⟩ _ hl id
  simp only [Heap.children, List.count_append, List.count_singleton] at this
  by_cases e : id = vi
  · subst e; simp at this ⊢; omega
  · have hne : (vi == id) = false := by simp; exact fun h => e h.symm
    simp only [hne, Bool.false_eq_true, if_false, e] at this ⊢; omega

theorem setDict_good (h : Heap) (di : Nat) (t t' : Option T) (n m : Nat) (da : Bool) (e : Entry)
    (hl : h.cells[di]? = some ⟨.dict t n, da⟩)
    (hw : ∃ a b, walk t = a ++ b ∧ walk t' = a ++ e :: b) :
    (∀ id, isAtt h id → isAtt (h.setDict di t' m) id) ∧
    ∀ id, occ (h.setDict di t' m) id = occ h id + if id = e.obj then 1 else 0 := by
  have e1 : h.setDict di t' m = h.setCell di ⟨.dict t' m, da⟩ := by
    simp [Heap.setDict, hl]
  rw [e1]
  refine ⟨isAtt_setCell_mono h di _ _ hl (fun a => a), ?_⟩
  intro id
  obtain ⟨a, b, w1, w2⟩ := hw
  have := occ_setCell h di ⟨.dict t' m, da⟩ _ hl id
  simp only [Heap.children, w1, w2, List.map_append, List.map_cons, List.count_append,
    List.count_cons] at this
  by_cases hid : id = e.obj
  · subst hid; simp at this ⊢; omega
  · have hne : (e.obj == id) = false := by simp; exact fun h => hid h.symm
    simp only [hne, Bool.false_eq_true, if_false, hid] at this ⊢; omega

theorem markAttached_get (h : Heap) (vi : Nat) (vc : Cell) (hv : h.cells[vi]? = some vc) (i : Nat)
    (c : Cell) (hc : h.cells[i]? = some c) :
    ∃ a, (h.markAttached vi).cells[i]? = some ⟨c.node, a⟩ ∧ (i = vi → a = true) := by
  rw [markAttached_spec h vi vc hv, getElem?_setCell]
  have hlt : vi < h.cells.length := (List.getElem?_eq_some_iff.mp hv).1
  by_cases e : vi = i
  · subst e
    rw [hv] at hc; simp only [Option.some.injEq] at hc; subst hc
    exact ⟨true, by simp [hlt], fun _ => rfl⟩
  · exact ⟨c.attached, by simp [e, hc], fun h => absurd h.symm e⟩

theorem occ_setParent (h : Heap) (a b id : Nat) : occ (h.setParent a b) id = occ h id := by
  simp [occ]

theorem isAtt_setParent (h : Heap) (a b id : Nat) : isAtt (h.setParent a b) id ↔ isAtt h id := by
  simp [isAtt]

theorem Good.listAppend (cyc : Bool) (h : Heap) (l v : Option Nat) : Good h (h.listAppend cyc l v).1 := by
  rcases listAppend_cases cyc h l v with e | ⟨vi, vc, li, es, n, la, _, _, hv, hva, hl, _, e⟩
  · rw [e]; exact Good.refl h
  · rw [e]
    obtain ⟨m1, o1⟩ := Good.markAttached h vi
    have o1' : ∀ id, occ (h.markAttached vi) id = occ h id := by
      rcases o1 with o | ⟨w, hn, hy, o⟩
      · exact o
      · -- markAttached never adds a link; re-derive
        intro id
        rw [markAttached_spec h vi vc hv]
        have := occ_setCell h vi ⟨vc.node, true⟩ vc hv id
        simp only [Heap.children] at this; omega
    obtain ⟨la', hl1, _⟩ := markAttached_get h vi vc hv li _ hl
    obtain ⟨av, hv1, hav⟩ := markAttached_get h vi vc hv vi _ hv
    obtain ⟨m2, o2⟩ := pushElem_good ((h.markAttached vi).setParent vi li) li vi es n la'
      (by rw [setParent_cells]; exact hl1)
    refine ⟨fun id a => m2 id ((isAtt_setParent _ _ _ _).mpr (m1 id a)), Or.inr ⟨vi, ?_, ?_, ?_⟩⟩
    · rintro ⟨c, hc, ha⟩
      rw [hv] at hc; simp only [Option.some.injEq] at hc; subst hc
      rw [hva] at ha; cases ha
    · exact m2 vi ((isAtt_setParent _ _ _ _).mpr ⟨_, hv1, hav rfl⟩)
    · intro id; rw [o2 id, occ_setParent, o1' id]

theorem Good.dictPut (cyc : Bool) (h : Heap) (d : Option Nat) (k : Bytes) (v : Option Nat) :
    Good h (h.dictPut true cyc d k v).1 := by
  rcases dictPut_cases cyc h d k v with e | ⟨vi, vc, di, t, n, da, t', _, _, hv, hva, hd, hk, hins, _, e⟩
  · rw [e]; exact Good.refl h
  · rw [e]
    obtain ⟨m1, _⟩ := Good.markAttached h vi
    have o1' : ∀ id, occ (h.markAttached vi) id = occ h id := by
      intro id
      rw [markAttached_spec h vi vc hv]
      have := occ_setCell h vi ⟨vc.node, true⟩ vc hv id
      simp only [Heap.children] at this; omega
    obtain ⟨da', hd1, _⟩ := markAttached_get h vi vc hv di _ hd
    obtain ⟨av, hv1, hav⟩ := markAttached_get h vi vc hv vi _ hv
    obtain ⟨m2, o2⟩ := setDict_good ((h.markAttached vi).setParent vi di) di t t' n (n + 1) da' ⟨k, vi⟩
      (by rw [setParent_cells]; exact hd1) (insert_walk t t' _ hins)
    refine ⟨fun id a => m2 id ((isAtt_setParent _ _ _ _).mpr (m1 id a)), Or.inr ⟨vi, ?_, ?_, ?_⟩⟩
    · rintro ⟨c, hc, ha⟩
      rw [hv] at hc; simp only [Option.some.injEq] at hc; subst hc
      rw [hva] at ha; cases ha
    · exact m2 vi ((isAtt_setParent _ _ _ _).mpr ⟨_, hv1, hav rfl⟩)
    · intro id; rw [o2 id, occ_setParent, o1' id]

theorem Good.newScalar (h : Heap) (s : Scalar) : Good h (h.newScalar s).1 := by
  cases s with
  | null => exact Good.alloc h _ rfl
  | bool b => exact Good.alloc h _ rfl
  | int i =>
    simp only [Heap.newScalar]
    split
    · exact Good.refl h
    · exact Good.alloc h _ rfl
  | float x =>
    simp only [Heap.newScalar]
    split
    · exact Good.refl h
    · exact Good.alloc h _ rfl
  | str s =>
    simp only [Heap.newScalar]
    split
    · exact Good.refl h
    · exact Good.alloc h _ rfl

theorem AttInv.step {h : Heap} (hi : AttInv h) (cyc : Bool) (op : Op) :
    AttInv (h.step true cyc op).1 := by
  cases op with
  | new s => exact hi.of_good (Good.newScalar h s)
  | newList => exact hi.of_good (Good.alloc h _ rfl)
  | newDict => exact hi.of_good (Good.alloc h _ rfl)
  | append l v => exact hi.of_good (Good.listAppend cyc h l v)
  | appendS l s =>
    simp only [Heap.step]
    split
    · exact (hi.of_good (Good.newScalar h s)).of_good (Good.listAppend cyc _ _ _)
    · exact hi
  | put d k v => exact hi.of_good (Good.dictPut cyc h d k v)
  | putS d k s =>
    simp only [Heap.step]
    split
    · exact (hi.of_good (Good.newScalar h s)).of_good (Good.dictPut cyc _ _ _ _)
    · exact hi
  | «seal» v =>
    simp only [Heap.step]
    split
    · exact hi.of_good (Good.markAttached h _)
    · exact hi

theorem AttInv.run {h : Heap} (hi : AttInv h) (cyc : Bool) (ops : List Op) :
    AttInv (h.run true cyc ops).1 := by
  induction ops generalizing h with
  | nil => exact hi
  | cons op ops ih => simp only [Heap.run]; exact ih (hi.step cyc op)

theorem AttInv.empty : AttInv {} := by intro id; simp [occ, isAtt]

/-! ## the value tree of a cell in a reachable heap is well-formed -/

theorem keyLt_eq : ∀ a b : Bytes, Usual.C06.keyLt a b = keyLt a b
  | [], [] => rfl
  | [], _ :: _ => rfl
  | _ :: _, [] => rfl
  | x :: xs, y :: ys => by simp [Usual.C06.keyLt, keyLt, keyLt_eq xs ys]

theorem optList_map {α β : Type} (f : α → Option β) : ∀ (xs : List α) (l : List β),
    Heap.optList (xs.map f) = some l → List.Forall₂ (fun x y => f x = some y) xs l
  | [], l, h => by simp [Heap.optList] at h; subst h; exact .nil
  | x :: xs, l, h => by
    simp only [List.map_cons] at h
    cases hx : f x with
    | none => simp [hx, Heap.optList] at h
    | some y =>
      simp only [hx, Heap.optList] at h
      cases hr : Heap.optList (xs.map f) with
      | none => simp [hr] at h
      | some l' =>
        simp only [hr, Option.some.injEq] at h
        subst h
        exact .cons hx (optList_map f xs l' hr)

theorem wfList_of_forall₂ {α : Type} (f : α → Option JVal) (xs : List α) (l : List JVal)
    (h : List.Forall₂ (fun x y => f x = some y) xs l)
    (hw : ∀ x y, f x = some y → y.wf = true) : wfList l = true := by
  induction h with
  | nil => rfl
  | cons hxy _ ih => simp [wfList, hw _ _ hxy, ih]

theorem kvs_of_forall₂ (f : Entry → Option JVal) (es : List Entry) (l : List JVal)
    (h : List.Forall₂ (fun x y => f x = some y) es l)
    (hw : ∀ x y, f x = some y → y.wf = true)
    (hk : ∀ e ∈ es, validString e.key = true)
    (hs : es.Pairwise (fun a b => keyLt a.key b.key = true)) :
    wfKvs ((es.map (·.key)).zip l) = true ∧ keysSorted ((es.map (·.key)).zip l) = true ∧
    ∀ k v, (k, v) ∈ (es.map (·.key)).zip l → ∃ e ∈ es, e.key = k := by
  induction h with
  | nil => simp [wfKvs, keysSorted]
  | @cons e y es' l' hxy hrest ih =>
    have hk' : ∀ e ∈ es', validString e.key = true := fun x hx => hk x (by simp [hx])
    have hs' := (List.pairwise_cons.mp hs)
    obtain ⟨i1, i2, i3⟩ := ih hk' hs'.2
    refine ⟨?_, ?_, ?_⟩
    · simp [wfKvs, hk e (by simp), hw _ _ hxy, i1]
    · cases hrest with
      | nil => simp [keysSorted]
      | @cons e2 y2 es2 l2 h2 hr2 =>
        simp only [List.map_cons, List.zip_cons_cons, keysSorted, Bool.and_eq_true]
        refine ⟨hs'.1 e2 (by simp), ?_⟩
        simpa using i2
    · intro k v hm
      simp only [List.map_cons, List.zip_cons_cons, List.mem_cons, Prod.mk.injEq] at hm
      rcases hm with ⟨rfl, _⟩ | hm
      · exact ⟨e, by simp, rfl⟩
      · obtain ⟨e', he', hk2⟩ := i3 k v hm
        exact ⟨e', by simp [he'], hk2⟩

theorem toVal_wf {h : Heap} (hi : SizeInv h) : ∀ (fuel i : Nat) (v : JVal),
    h.toVal fuel i = some v → v.wf = true := by
  intro fuel
  induction fuel with
  | zero => intro i v hv; simp [Heap.toVal] at hv
  | succ f ih =>
    intro i v hv
    simp only [Heap.toVal] at hv
    cases hc : h.cells[i]? with
    | none => simp [hc] at hv
    | some c =>
      simp only [hc] at hv
      have hok := hi.get hc
      obtain ⟨node, att⟩ := c
      cases node with
      | null => simp at hv; subst hv; rfl
      | bool b => simp at hv; subst hv; rfl
      | int n =>
        simp at hv; subst hv
        simp only [nodeOk] at hok
        simp [JVal.wf, hok.1, hok.2]
      | float x => simp at hv; subst hv; simpa [JVal.wf, nodeOk] using hok
      | str s => simp at hv; subst hv; simpa [JVal.wf, nodeOk] using hok
      | list es n =>
        simp only at hv
        cases ho : Heap.optList (es.map (h.toVal f)) with
        | none => simp [ho] at hv
        | some l =>
          simp only [ho, Option.some.injEq] at hv; subst hv
          simp only [JVal.wf]
          exact wfList_of_forall₂ _ es l (optList_map _ es l ho) (fun x y hxy => ih x y hxy)
      | dict t n =>
        simp only at hv
        cases ho : Heap.optList ((walk t).map (fun e => h.toVal f e.obj)) with
        | none => simp [ho] at hv
        | some l =>
          simp only [ho, Option.some.injEq] at hv; subst hv
          simp only [nodeOk] at hok
          obtain ⟨_, hinv, _, hkeys⟩ := hok
          have hsorted := (Usual.C06.walk_spec t hinv).1
          have hsorted' : (walk t).Pairwise (fun a b => keyLt a.key b.key = true) :=
            hsorted.imp (fun {a b} hab => by rw [← keyLt_eq]; exact hab)
          obtain ⟨w1, w2, _⟩ := kvs_of_forall₂ (fun e => h.toVal f e.obj) (walk t) l
            (optList_map _ _ l ho) (fun x y hxy => ih x.obj y hxy) (fun e he => (hkeys e he).1) hsorted'
          simp [JVal.wf, w1, w2]

/-! ## names within `JSON_MAX_KEY` -/

mutual
/-- every member name of the tree is at most `JSON_MAX_KEY` bytes long -/
def JVal.shortKeys : JVal → Prop
  | .list l => shortKeysList l
  | .dict kvs => shortKeysKvs kvs
  | _ => True
def shortKeysList : List JVal → Prop
  | [] => True
  | v :: vs => v.shortKeys ∧ shortKeysList vs
def shortKeysKvs : List (Bytes × JVal) → Prop
  | [] => True
  | (k, v) :: r => k.length ≤ Heap.jsonMaxKey ∧ v.shortKeys ∧ shortKeysKvs r
end

theorem shortKeysList_of_forall₂ {α : Type} (f : α → Option JVal) (xs : List α) (l : List JVal)
    (h : List.Forall₂ (fun x y => f x = some y) xs l)
    (hw : ∀ x y, f x = some y → y.shortKeys) : shortKeysList l := by
  induction h with
  | nil => trivial
  | cons hxy _ ih => exact ⟨hw _ _ hxy, ih⟩

theorem shortKeysKvs_of_forall₂ (f : Entry → Option JVal) (es : List Entry) (l : List JVal)
    (h : List.Forall₂ (fun x y => f x = some y) es l)
    (hw : ∀ x y, f x = some y → y.shortKeys)
    (hk : ∀ e ∈ es, e.key.length ≤ Heap.jsonMaxKey) :
    shortKeysKvs ((es.map (·.key)).zip l) := by
  induction h with
  | nil => trivial
  | @cons e y es' l' hxy _ ih =>
    exact ⟨hk e (by simp), hw _ _ hxy, ih (fun x hx => hk x (by simp [hx]))⟩

theorem toVal_shortKeys {h : Heap} (hi : SizeInv h) : ∀ (fuel i : Nat) (v : JVal),
    h.toVal fuel i = some v → v.shortKeys := by
  intro fuel
  induction fuel with
  | zero => intro i v hv; simp [Heap.toVal] at hv
  | succ f ih =>
    intro i v hv
    simp only [Heap.toVal] at hv
    cases hc : h.cells[i]? with
    | none => simp [hc] at hv
    | some c =>
      simp only [hc] at hv
      have hok := hi.get hc
      obtain ⟨node, att⟩ := c
      cases node with
      | null => simp at hv; subst hv; trivial
      | bool b => simp at hv; subst hv; trivial
      | int n => simp at hv; subst hv; trivial
      | float x => simp at hv; subst hv; trivial
      | str s => simp at hv; subst hv; trivial
      | list es n =>
        simp only at hv
        cases ho : Heap.optList (es.map (h.toVal f)) with
        | none => simp [ho] at hv
        | some l =>
          simp only [ho, Option.some.injEq] at hv; subst hv
          exact shortKeysList_of_forall₂ _ es l (optList_map _ es l ho) (fun x y hxy => ih x y hxy)
      | dict t n =>
        simp only at hv
        cases ho : Heap.optList ((walk t).map (fun e => h.toVal f e.obj)) with
        | none => simp [ho] at hv
        | some l =>
          simp only [ho, Option.some.injEq] at hv; subst hv
          simp only [nodeOk] at hok
          exact shortKeysKvs_of_forall₂ (fun e => h.toVal f e.obj) (walk t) l
            (optList_map _ _ l ho) (fun x y hxy => ih x.obj y hxy) (fun e he => (hok.2.2.2 e he).2)

end Usual.C03
