import UsualProofs.C03.ParseWf
import UsualProofs.C11.Strings
/-! C03 ↔ C11: the string check of the builder model (`validString`, written with the RFC 3629
recogniser of `Rfc.lean`) accepts exactly what the C11 model of `utf8_validate_string`
(`Usual.C11.validateStringU`, bridged to `usual/utf8.c` by property C11) accepts. -/
namespace Usual.C03
open Rfc

/-! ## Table 3-7 on byte values -/

def T1 (a : Nat) : Prop := a ≤ 0x7F
def T2 (a b : Nat) : Prop := 0xC2 ≤ a ∧ a ≤ 0xDF ∧ 0x80 ≤ b ∧ b ≤ 0xBF
def T3 (a b c : Nat) : Prop :=
  ((a = 0xE0 ∧ 0xA0 ≤ b ∧ b ≤ 0xBF) ∨ (0xE1 ≤ a ∧ a ≤ 0xEC ∧ 0x80 ≤ b ∧ b ≤ 0xBF) ∨
   (a = 0xED ∧ 0x80 ≤ b ∧ b ≤ 0x9F) ∨ (0xEE ≤ a ∧ a ≤ 0xEF ∧ 0x80 ≤ b ∧ b ≤ 0xBF)) ∧ 0x80 ≤ c ∧ c ≤ 0xBF
def T4 (a b c d : Nat) : Prop :=
  ((a = 0xF0 ∧ 0x90 ≤ b ∧ b ≤ 0xBF) ∨ (0xF1 ≤ a ∧ a ≤ 0xF3 ∧ 0x80 ≤ b ∧ b ≤ 0xBF) ∨
   (a = 0xF4 ∧ 0x80 ≤ b ∧ b ≤ 0x8F)) ∧ 0x80 ≤ c ∧ c ≤ 0xBF ∧ 0x80 ≤ d ∧ d ≤ 0xBF

open Usual.C11 (ofU8 WF wf1 wf2 wf3 wf4 WFString)

theorem wf1_iff (b0 : UInt8) : wf1 b0.toBitVec ↔ T1 b0.toNat := by
  simp [wf1, T1, BitVec.le_def]
theorem wf2_iff (b0 b1 : UInt8) : wf2 b0.toBitVec b1.toBitVec ↔ T2 b0.toNat b1.toNat := by
  simp [wf2, T2, BitVec.le_def]
theorem wf3_iff (b0 b1 b2 : UInt8) :
    wf3 b0.toBitVec b1.toBitVec b2.toBitVec ↔ T3 b0.toNat b1.toNat b2.toNat := by
  simp [wf3, T3, BitVec.le_def, ← BitVec.toNat_inj]
theorem wf4_iff (b0 b1 b2 b3 : UInt8) :
    wf4 b0.toBitVec b1.toBitVec b2.toBitVec b3.toBitVec ↔ T4 b0.toNat b1.toNat b2.toNat b3.toNat := by
  simp [wf4, T4, BitVec.le_def, ← BitVec.toNat_inj]

theorem beq_toNat (a k : UInt8) : (a == k) = decide (a.toNat = k.toNat) := by
  by_cases h : a = k
  · subst h; simp
  · have : a.toNat ≠ k.toNat := fun e => h (UInt8.toNat_inj.mp e)
    simp [h, this]

theorem utf8Len_T (b : UInt8) (r : Bytes) (n : Nat) (h : utf8Len (b :: r) = some n) :
    (n = 1 ∧ T1 b.toNat) ∨
    (n = 2 ∧ ∃ b1 r', r = b1 :: r' ∧ T2 b.toNat b1.toNat) ∨
    (n = 3 ∧ ∃ b1 b2 r', r = b1 :: b2 :: r' ∧ T3 b.toNat b1.toNat b2.toNat) ∨
    (n = 4 ∧ ∃ b1 b2 b3 r', r = b1 :: b2 :: b3 :: r' ∧ T4 b.toNat b1.toNat b2.toNat b3.toNat) := by
  unfold utf8Len at h
  by_cases c1 : b ≤ 0x7F
  · simp only [c1, if_true, Option.some.injEq] at h
    exact Or.inl ⟨h.symm, UInt8.le_iff_toNat_le.mp c1⟩
  · simp only [c1, if_false] at h
    right
    by_cases c2 : (0xC2 ≤ b && b ≤ 0xDF) = true
    · simp only [c2, if_true] at h
      left
      match r, h with
      | b1 :: r', h =>
        simp only at h
        by_cases t1 : isTail b1 = true
        · simp only [t1, if_true, Option.some.injEq] at h
          refine ⟨h.symm, b1, r', rfl, ?_⟩
          have := (isTail_iff b1).mp t1
          simp only [Bool.and_eq_true, decide_eq_true_eq, UInt8.le_iff_toNat_le] at c2
          have h1 := c2.1; have h2 := c2.2
          simp at h1 h2
          exact ⟨h1, h2, this.1, this.2⟩
        · simp [t1] at h
      | [], h => simp at h
    · simp only [c2, Bool.false_eq_true, if_false] at h
      right
      by_cases c3 : (0xE0 ≤ b && b ≤ 0xEF) = true
      · simp only [c3, if_true] at h
        left
        match r, h with
        | b1 :: b2 :: r', h =>
          simp only at h
          split at h
          · rename_i hc
            simp only [Option.some.injEq] at h
            refine ⟨h.symm, b1, b2, r', rfl, ?_⟩
            simp only [beq_toNat, isTail, Bool.and_eq_true, Bool.or_eq_true, decide_eq_true_eq,
              UInt8.le_iff_toNat_le] at hc c3
            simp at hc c3
            unfold T3
            omega
          · cases h
        | [], h => simp at h
        | [_], h => simp at h
      · simp only [c3, Bool.false_eq_true, if_false] at h
        right
        by_cases c4 : (0xF0 ≤ b && b ≤ 0xF4) = true
        · simp only [c4, if_true] at h
          match r, h with
          | b1 :: b2 :: b3 :: r', h =>
            simp only at h
            split at h
            · rename_i hc
              simp only [Option.some.injEq] at h
              refine ⟨h.symm, b1, b2, b3, r', rfl, ?_⟩
              simp only [beq_toNat, isTail, Bool.and_eq_true, Bool.or_eq_true, decide_eq_true_eq,
                UInt8.le_iff_toNat_le] at hc c4
              simp at hc c4
              unfold T4
              omega
            · cases h
          | [], h => simp at h
          | [_], h => simp at h
          | [_, _], h => simp at h
        · simp [c4] at h

/-! ## the two string checks agree -/

theorem toBitVec_eq_zero (b : UInt8) : b.toBitVec = 0#8 ↔ b = 0 := by
  constructor
  · intro h; exact UInt8.toBitVec_inj.mp h
  · intro h; subst h; rfl

theorem validStr_wfs : ∀ (f : Nat) (s : Bytes), validStr f s = true → WFString (ofU8 s) := by
  intro f
  induction f with
  | zero => intro s h; simp [validStr] at h
  | succ f ih =>
    intro s h
    cases s with
    | nil => exact UsualProofs.C11.WFString_nil
    | cons b r =>
      simp only [validStr] at h
      by_cases hz : (b == 0) = true
      · simp [hz] at h
      simp only [hz, Bool.false_eq_true, if_false] at h
      have hb0 : b ≠ 0 := by simpa using hz
      cases hu : utf8Len (b :: r) with
      | none => simp [hu] at h
      | some n =>
        simp only [hu] at h
        rcases utf8Len_T b r n hu with ⟨rfl, t⟩ | ⟨rfl, b1, r', rfl, t⟩ |
            ⟨rfl, b1, b2, r', rfl, t⟩ | ⟨rfl, b1, b2, b3, r', rfl, t⟩
        all_goals simp only [List.drop_succ_cons, List.drop_zero] at h
        · have := UsualProofs.C11.WFString_cons_chunk [b.toBitVec] (ofU8 r)
            (by simp only [WF]; exact (wf1_iff b).mpr t)
            (by simp only [ne_eq, List.cons.injEq, and_true]; exact fun e => hb0 ((toBitVec_eq_zero b).mp e))
            (ih r h)
          simpa [ofU8] using this
        · have := UsualProofs.C11.WFString_cons_chunk [b.toBitVec, b1.toBitVec] (ofU8 r')
            (by simp only [WF]; exact (wf2_iff b b1).mpr t) (by simp) (ih r' h)
          simpa [ofU8] using this
        · have := UsualProofs.C11.WFString_cons_chunk [b.toBitVec, b1.toBitVec, b2.toBitVec] (ofU8 r')
            (by simp only [WF]; exact (wf3_iff b b1 b2).mpr t) (by simp) (ih r' h)
          simpa [ofU8] using this
        · have := UsualProofs.C11.WFString_cons_chunk
            [b.toBitVec, b1.toBitVec, b2.toBitVec, b3.toBitVec] (ofU8 r')
            (by simp only [WF]; exact (wf4_iff b b1 b2 b3).mpr t) (by simp) (ih r' h)
          simpa [ofU8] using this

theorem wfs_seq : ∀ (n : Nat) (s : Bytes), s.length ≤ n → WFString (ofU8 s) →
    Utf8Seq s ∧ ∀ b ∈ s, b ≠ 0 := by
  intro n
  induction n with
  | zero =>
    intro s hl _
    have : s = [] := List.eq_nil_of_length_eq_zero (by omega)
    subst this; exact ⟨Utf8Seq.nil, fun b hb => by cases hb⟩
  | succ n ih =>
    intro s hl h
    cases s with
    | nil => exact ⟨Utf8Seq.nil, fun b hb => by cases hb⟩
    | cons b0 r =>
      obtain ⟨c, t, e, hc, h0, ht⟩ := UsualProofs.C11.WFString_uncons (ofU8 (b0 :: r)) (by simp [ofU8]) h
      simp only [ofU8, List.map_cons] at e
      match c, hc, h0, e with
      | [x0], hc, h0, e =>
        simp only [List.cons_append, List.nil_append, List.cons.injEq] at e
        obtain ⟨rfl, rfl⟩ := e
        simp only [WF] at hc
        have t1 := (wf1_iff b0).mp hc
        obtain ⟨i1, i2⟩ := ih r (by simp at hl; omega) ht
        refine ⟨?_, ?_⟩
        · have := Utf8Seq.cons [b0] r 1 (utf8Len_1 b0 r t1) rfl i1
          simpa using this
        · intro x hx
          simp only [List.mem_cons] at hx
          rcases hx with rfl | hx
          · intro e; apply h0; subst e; rfl
          · exact i2 x hx
      | [x0, x1], hc, _, e =>
        match r, e, hl with
        | b1 :: r', e, hl =>
          simp only [List.map_cons, List.cons_append, List.nil_append, List.cons.injEq] at e
          obtain ⟨rfl, rfl, rfl⟩ := e
          simp only [WF] at hc
          have t2 := (wf2_iff b0 b1).mp hc
          obtain ⟨i1, i2⟩ := ih r' (by simp at hl; omega) ht
          refine ⟨?_, ?_⟩
          · have := Utf8Seq.cons [b0, b1] r' 2 (utf8Len_2 b0 b1 r' ⟨t2.1, t2.2.1⟩ t2.2.2) rfl i1
            simpa using this
          · intro x hx
            simp only [List.mem_cons] at hx
            unfold T2 at t2
            rcases hx with rfl | rfl | hx
            · intro e; subst e; simp at t2
            · intro e; subst e; simp at t2
            · exact i2 x hx
        | [], e, _ => simp at e
      | [x0, x1, x2], hc, _, e =>
        match r, e, hl with
        | b1 :: b2 :: r', e, hl =>
          simp only [List.map_cons, List.cons_append, List.nil_append, List.cons.injEq] at e
          obtain ⟨rfl, rfl, rfl, rfl⟩ := e
          simp only [WF] at hc
          have t3 := (wf3_iff b0 b1 b2).mp hc
          obtain ⟨i1, i2⟩ := ih r' (by simp at hl; omega) ht
          refine ⟨?_, ?_⟩
          · have := Utf8Seq.cons [b0, b1, b2] r' 3 (utf8Len_3 b0 b1 b2 r' t3.1 t3.2) rfl i1
            simpa using this
          · intro x hx
            simp only [List.mem_cons] at hx
            unfold T3 at t3
            rcases hx with rfl | rfl | rfl | hx
            · intro e; subst e; simp at t3
            · intro e; subst e; simp at t3
            · intro e; subst e; simp at t3
            · exact i2 x hx
        | [], e, _ => simp at e
        | [_], e, _ => simp at e
      | [x0, x1, x2, x3], hc, _, e =>
        match r, e, hl with
        | b1 :: b2 :: b3 :: r', e, hl =>
          simp only [List.map_cons, List.cons_append, List.nil_append, List.cons.injEq] at e
          obtain ⟨rfl, rfl, rfl, rfl, rfl⟩ := e
          simp only [WF] at hc
          have t4 := (wf4_iff b0 b1 b2 b3).mp hc
          obtain ⟨i1, i2⟩ := ih r' (by simp at hl; omega) ht
          refine ⟨?_, ?_⟩
          · have := Utf8Seq.cons [b0, b1, b2, b3] r' 4
              (utf8Len_4 b0 b1 b2 b3 r' t4.1 ⟨t4.2.1, t4.2.2.1⟩ t4.2.2.2) rfl i1
            simpa using this
          · intro x hx
            simp only [List.mem_cons] at hx
            unfold T4 at t4
            rcases hx with rfl | rfl | rfl | rfl | hx
            · intro e; subst e; simp at t4
            · intro e; subst e; simp at t4
            · intro e; subst e; simp at t4
            · intro e; subst e; simp at t4
            · exact i2 x hx
        | [], e, _ => simp at e
        | [_], e, _ => simp at e
        | [_, _], e, _ => simp at e
      | [], hc, _, _ => exact absurd hc UsualProofs.C11.not_WF_nil
      | _ :: _ :: _ :: _ :: _ :: _, hc, _, _ => simp [WF] at hc

/-- **`json_new_string`'s check in the builder model = the C11 model of `utf8_validate_string`.** -/
theorem validString_iff_c11 (s : Bytes) :
    validString s = true ↔ Usual.C11.validateStringU s = true := by
  unfold Usual.C11.validateStringU
  rw [UsualProofs.C11.validateString_iff]
  constructor
  · exact validStr_wfs _ s
  · intro h
    obtain ⟨i1, i2⟩ := wfs_seq s.length s (Nat.le_refl _) h
    exact validString_of_seq s i1 i2

end Usual.C03
