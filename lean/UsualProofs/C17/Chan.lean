import Usual.C17.Tls
import UsualProofs.C17.Wrap
/-! The abstract duplex channel delivers a prefix of what was written, under every schedule (C17 part v). -/
namespace UsualProofs.C17
open Usual.C17

/-- conservation: delivered ++ in flight ++ not yet written = what the application set out to send -/
def Dir.Inv (d : Dir) (a : Bytes) : Prop := d.recvd ++ d.inflight ++ d.pending = a

theorem write_inv (cap k j : Nat) (d : Dir) (a : Bytes) (h : Dir.Inv d a) :
    Dir.Inv (d.write cap k j).1 a := by
  unfold Dir.write
  simp only []
  split
  · exact h
  · split
    · exact h
    · unfold Dir.Inv at *
      simp only [List.append_assoc, List.take_append_drop]
      simpa using h

theorem read_inv (j : Nat) (d : Dir) (a : Bytes) (h : Dir.Inv d a) :
    Dir.Inv (d.read j).1 a := by
  unfold Dir.read
  simp only []
  split
  · exact h
  · unfold Dir.Inv at *
    simp only [List.append_assoc, List.take_append_drop]
    simpa using h

def Duplex.Inv (x : Duplex) (a b : Bytes) : Prop := Dir.Inv x.c2s a ∧ Dir.Inv x.s2c b

theorem step_inv (cap k : Nat) (x : Duplex) (s : Step) (a b : Bytes) (h : Duplex.Inv x a b) :
    Duplex.Inv (x.step cap k s).1 a b := by
  cases s with
  | write t j => cases t <;> simp only [Duplex.step, Duplex.Inv] <;>
      first | exact ⟨h.1, write_inv _ _ _ _ _ h.2⟩ | exact ⟨write_inv _ _ _ _ _ h.1, h.2⟩
  | read t j => cases t <;> simp only [Duplex.step, Duplex.Inv] <;>
      first | exact ⟨h.1, read_inv _ _ _ h.2⟩ | exact ⟨read_inv _ _ _ h.1, h.2⟩
  | close t => cases t <;> exact h

theorem run_inv (cap k : Nat) (sched : List Step) (x : Duplex) (a b : Bytes) (h : Duplex.Inv x a b) :
    Duplex.Inv (Duplex.run cap k sched x).1 a b := by
  induction sched generalizing x with
  | nil => exact h
  | cons s rest ih =>
    simp only [Duplex.run]
    exact ih _ (step_inv cap k x s a b h)

theorem init_inv (a b : Bytes) : Duplex.Inv (Duplex.init a b) a b := by
  simp [Duplex.Inv, Dir.Inv, Duplex.init]

theorem prefix_of_inv (d : Dir) (a : Bytes) (h : Dir.Inv d a) : d.recvd = a.take d.recvd.length := by
  unfold Dir.Inv at h
  rw [← h, List.append_assoc, List.take_left']
  rfl

theorem fifo (cap k : Nat) (sched : List Step) (a b : Bytes) :
    let x := (Duplex.run cap k sched (Duplex.init a b)).1
    x.c2s.recvd = a.take x.c2s.recvd.length ∧ x.s2c.recvd = b.take x.s2c.recvd.length := by
  have h := run_inv cap k sched _ a b (init_inv a b)
  exact ⟨prefix_of_inv _ _ h.1, prefix_of_inv _ _ h.2⟩

theorem write_rv (cap k j : Nat) (d : Dir) : IoRv (d.write cap k j).2 := by
  unfold Dir.write
  simp only []
  split
  · simp [IoRv, StatusRv]
  · split
    · simp [IoRv, StatusRv]
    · rename_i h
      left
      simp only [beq_iff_eq] at h
      simp only [gt_iff_lt, Int.natCast_pos]
      omega

theorem read_rv (j : Nat) (d : Dir) : IoRv (d.read j).2 := by
  unfold Dir.read
  simp only []
  split
  · split <;> simp [IoRv, StatusRv]
  · rename_i h
    left
    simp only [beq_iff_eq] at h
    simp only [gt_iff_lt, Int.natCast_pos]
    omega

/-- `tls_read` answers 0 exactly at the orderly end: peer closed and nothing left in flight -/
theorem read_zero_iff (j : Nat) (d : Dir) :
    (d.read j).2 = 0 ↔ (min j d.inflight.length = 0 ∧ d.closed = true ∧ d.inflight = []) := by
  unfold Dir.read
  simp only []
  by_cases h : (min j d.inflight.length == 0) = true
  · simp only [h, if_true]
    simp only [beq_iff_eq] at h
    by_cases hc : (d.closed && d.inflight.isEmpty) = true
    · simp only [hc, if_true, true_iff]
      simp only [Bool.and_eq_true, List.isEmpty_iff] at hc
      exact ⟨h, hc.1, hc.2⟩
    · simp only [hc, Bool.false_eq_true, if_false, TLS_WANT_POLLIN]
      simp only [Bool.and_eq_true, List.isEmpty_iff] at hc
      constructor
      · intro h'; omega
      · intro h'; exact absurd ⟨h'.2.1, h'.2.2⟩ hc
  · simp only [h, Bool.false_eq_true, if_false]
    simp only [beq_iff_eq] at h
    constructor
    · intro h'
      have : ((min j d.inflight.length : Nat) : Int) = 0 := h'
      omega
    · intro h'; exact absurd h'.1 h

theorem step_rv (cap k : Nat) (x : Duplex) (s : Step) : IoRv (x.step cap k s).2 := by
  cases s with
  | write t j => cases t <;> simp only [Duplex.step] <;> exact write_rv _ _ _ _
  | read t j => cases t <;> simp only [Duplex.step] <;> exact read_rv _ _
  | close t => cases t <;> simp [Duplex.step, IoRv, StatusRv]

theorem run_rvs (cap k : Nat) (sched : List Step) (x : Duplex) :
    ∀ rv ∈ (Duplex.run cap k sched x).2, IoRv rv := by
  induction sched generalizing x with
  | nil => simp [Duplex.run]
  | cons s rest ih =>
    simp only [Duplex.run, List.mem_cons]
    intro rv h
    rcases h with h | h
    · rw [h]; exact step_rv cap k x s
    · exact ih _ rv h

/-- everything written and nothing in flight: the receiver has the whole stream -/
theorem complete_of_drained (d : Dir) (a : Bytes) (h : Dir.Inv d a) (hp : d.pending = []) (hi : d.inflight = []) :
    d.recvd = a := by
  unfold Dir.Inv at h
  simpa [hp, hi] using h
end UsualProofs.C17
