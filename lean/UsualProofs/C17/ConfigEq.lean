import Usual.C17.Config
/-! Lemmas about `tls_config_equal` and the setters (C17 part i). -/
namespace UsualProofs.C17
open Usual.C17

theorem strcmpeq_iff (a b : CStr) : strcmpeq a b = true ↔ a = b := by
  cases a <;> cases b <;> simp [strcmpeq]

theorem memEqual_iff (a b : Mem) : memEqual a b = true ↔ a = b := by
  cases a <;> cases b <;> simp [memEqual, Mem.len, Mem.isNull]
  intro h; simp [h]

/-- a guarded comparison step: `if !t then false else rest` -/
theorem guard_iff (t rest : Bool) : (if !t then false else rest) = true ↔ t = true ∧ rest = true := by
  cases t <;> simp

theorem guardNe_iff {α} [DecidableEq α] (x y : α) (rest : Bool) :
    (if x != y then false else rest) = true ↔ x = y ∧ rest = true := by
  by_cases h : x = y <;> simp [h]

theorem keypairEqual_iff (a b : Keypair) : keypairEqual a b = true ↔ a = b := by
  cases a; cases b
  simp only [keypairEqual, keypairEqualWith, guard_iff, strcmpeq_iff, memEqual_iff, Keypair.mk.injEq]
  simp

theorem keypairListEqual_iff (a b : List Keypair) : keypairListEqual a b = true ↔ a = b := by
  induction a generalizing b with
  | nil => cases b <;> simp [keypairListEqual, keypairListEqualWith]
  | cons x xs ih =>
    cases b with
    | nil => simp [keypairListEqual, keypairListEqualWith]
    | cons y ys =>
      have h := ih ys
      simp only [keypairListEqual] at h ⊢
      simp only [keypairListEqualWith, guard_iff, List.cons.injEq]
      rw [h]
      exact and_congr (keypairEqual_iff x y) Iff.rfl

theorem configEqual_iff_eq (a b : Config) : configEqual a b = true ↔ a = b := by
  cases a; cases b
  simp only [configEqual, configEqualWith, guard_iff, guardNe_iff, strcmpeq_iff, memEqual_iff,
    Config.mk.injEq]
  have := keypairListEqual_iff
  simp only [keypairListEqual] at this
  simp only [this]
  simp

/-- two configs agree on every configurable field iff they are the same record -/
theorem fields_eq_iff (a b : Config) : (∀ f : Field, a.get f = b.get f) ↔ a = b := by
  constructor
  · intro h
    cases a; cases b
    have h1 := h .caFile; have h2 := h .caPath; have h3 := h .caMem; have h4 := h .ciphers
    have h5 := h .ciphersServer; have h6 := h .dheparams; have h7 := h .ecdhecurve
    have h8 := h .keypairs; have h9 := h .ocspFile; have h10 := h .ocspMem
    have h11 := h .protocols; have h12 := h .verifyCert; have h13 := h .verifyClient
    have h14 := h .verifyDepth; have h15 := h .verifyName; have h16 := h .verifyTime
    simp only [Config.get, Value.str.injEq, Value.mem.injEq, Value.int.injEq, Value.u32.injEq,
      Value.kps.injEq] at h1 h2 h3 h4 h5 h6 h7 h8 h9 h10 h11 h12 h13 h14 h15 h16
    simp [*]
  · intro h f; rw [h]

theorem onKeypair_put (c : Config) (f : Keypair → Keypair) :
    c.onKeypair f = c.put .keypairs (.kps (c.onKeypair f).keypair) := by
  cases c with
  | mk a1 a2 a3 a4 a5 a6 a7 kp a9 a10 a11 a12 a13 a14 a15 a16 =>
    cases kp <;> simp [Config.onKeypair, Config.put]

/-- every setter is the composition of the field assignments of its specification -/
theorem apply_eq_spec (c : Config) (s : Setter) : (s.apply c).cfg = c.putAll (s.spec c) := by
  cases s with
  | certFile s => simp only [Setter.apply, Setter.spec, setOk, Config.putAll]; exact onKeypair_put c _
  | certMem s => simp only [Setter.apply, Setter.spec, setOk, Config.putAll]; exact onKeypair_put c _
  | keyFile s => simp only [Setter.apply, Setter.spec, setOk, Config.putAll]; exact onKeypair_put c _
  | keyMem s => simp only [Setter.apply, Setter.spec, setOk, Config.putAll]; exact onKeypair_put c _
  | keypairFile a b => simp only [Setter.apply, Setter.spec, setOk, Config.putAll]; exact onKeypair_put c _
  | keypairMem a b => simp only [Setter.apply, Setter.spec, setOk, Config.putAll]; exact onKeypair_put c _
  | ciphers s v =>
    cases s with
    | none => rfl
    | some t => simp only [Setter.apply, Setter.spec]; split <;> rfl
  | dheparams s =>
    cases s with
    | none => rfl
    | some t => simp only [Setter.apply, Setter.spec]; split <;> (try split) <;> rfl
  | ecdhecurve s n =>
    cases s with
    | none => rfl
    | some t => simp only [Setter.apply, Setter.spec]; split <;> (try split) <;> (try split) <;> rfl
  | ocspFile s => cases s <;> rfl
  | ocspMem m => cases m <;> rfl
  | parseProto s => simp only [Setter.apply, Setter.spec]; split <;> rfl
  | _ => rfl

theorem runSetters_append (xs ys : List Setter) (c : Config) :
    runSetters (xs ++ ys) c = runSetters ys (runSetters xs c) := by
  induction xs generalizing c with
  | nil => rfl
  | cons x xs ih =>
    simp only [runSetters, List.cons_append, applyAll] at ih ⊢
    exact ih _

end UsualProofs.C17
