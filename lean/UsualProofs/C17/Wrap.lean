import Usual.C17.Tls
/-! Lemmas about `tls_ssl_error` and the wrappers `tls_handshake/read/write/close` (C17 part ii). -/
namespace UsualProofs.C17
open Usual.C17

/-- the permitted results of `tls_handshake` / `tls_close` -/
def StatusRv (rv : Int) : Prop := rv = 0 ∨ rv = -1 ∨ rv = TLS_WANT_POLLIN ∨ rv = TLS_WANT_POLLOUT
/-- the permitted results of `tls_read` / `tls_write` -/
def IoRv (rv : Int) : Prop := rv > 0 ∨ StatusRv rv

theorem sslErrorMap_range (e : SslErr) (ret : Int) (q hc : Bool) :
    StatusRv (sslErrorMap e ret q hc).1 := by
  unfold StatusRv sslErrorMap TLS_WANT_POLLIN TLS_WANT_POLLOUT
  cases e <;> simp
  all_goals (repeat' split) <;> simp

theorem mapErr_range (c : Conn) (r : SslRes) : StatusRv (mapErr c r).1 := by
  have := sslErrorMap_range r.err r.ret r.queued c.hc
  simpa [mapErr] using this

theorem handshake_range (c : Conn) (s : List SslRes) : StatusRv (tlsHandshake c s).rv := by
  unfold tlsHandshake
  simp only []
  repeat' split
  all_goals first
    | exact mapErr_range _ _
    | (simp [StatusRv]; done)

theorem doAbort_range (c : Conn) (s : List SslRes) : StatusRv (tlsDoAbort c s).rv := by
  unfold tlsDoAbort
  simp only []
  by_cases h : (pop s).1.ret < 0
  · simp only [h, if_true, decide_true, Bool.true_and]
    split
    · exact mapErr_range _ _
    · simp [StatusRv]
  · simp [h, StatusRv]

theorem io_range (c : Conn) (s : List SslRes) (n : Nat) : IoRv (tlsIO c s n).rv := by
  unfold tlsIO
  simp only []
  repeat' split
  all_goals first
    | exact Or.inr (doAbort_range _ _)
    | exact Or.inr (handshake_range _ _)
    | exact Or.inr (mapErr_range _ _)
    | (simp [IoRv, StatusRv]; done)
    | (left; simp_all; done)

theorem close_range (c : Conn) (s : List SslRes) (k : Option SockEnv) : StatusRv (tlsClose c s k).rv := by
  unfold tlsClose
  simp only []
  by_cases hr : c.roleValid
  · simp only [hr, Bool.not_true, Bool.false_eq_true, if_false]
    by_cases h : (pop s).1.ret < 0
    · have hm := mapErr_range c (pop s).1
      simp only [h, if_true, decide_true, Bool.true_and]
      repeat' split
      all_goals first
        | exact hm
        | (simp [StatusRv]; done)
        | (simp_all [StatusRv]; done)
    · simp only [h, if_false, decide_false, Bool.false_and, Bool.false_eq_true]
      repeat' split
      all_goals first
        | (simp [StatusRv]; done)
        | (simp_all [StatusRv]; done)
  · simp [hr, StatusRv]

/-- EOF from the transport without close_notify, as OpenSSL ≤ 1.1.1 reports it -/
def eofRes : SslRes := ⟨0, .syscall, false⟩

theorem read_eof_sets_flag (c : Conn) (rest : List SslRes) (n : Nat)
    (hhc : c.hc = true) (hab : c.doAbort = false) (hn : n ≤ INT_MAX) :
    (tlsRead c (eofRes :: rest) n).rv = 0 ∧ (tlsRead c (eofRes :: rest) n).st.eofNoNotify = true ∧
    (tlsRead c (eofRes :: rest) n).st.roleValid = c.roleValid := by
  have hn' : ¬ n > INT_MAX := by omega
  simp [tlsRead, tlsIO, hhc, hab, hn', pop, eofRes, mapErr, sslErrorMap]

theorem close_reports_flag (c : Conn) (s : List SslRes) (k : Option SockEnv)
    (hr : c.roleValid = true) (hf : c.eofNoNotify = true) :
    (tlsClose c s k).rv = -1 ∨
    (((tlsClose c s k).rv = TLS_WANT_POLLIN ∨ (tlsClose c s k).rv = TLS_WANT_POLLOUT) ∧
      (tlsClose c s k).st.eofNoNotify = true ∧ (tlsClose c s k).st.roleValid = true) := by
  unfold tlsClose
  simp only [hr, Bool.not_true, Bool.false_eq_true, if_false]
  by_cases h : (pop s).1.ret < 0
  · simp only [h, if_true, decide_true, Bool.true_and]
    split
    · rename_i hw
      right
      simp only [Bool.or_eq_true, beq_iff_eq] at hw
      refine ⟨hw, ?_, ?_⟩ <;> simp [mapErr, hf, hr]
    · left
      have : (mapErr c (pop s).1).2.eofNoNotify = true := by simp [mapErr, hf]
      cases k with
      | none => simp [this]
      | some e => simp only []; repeat' split
                  all_goals simp_all
  · left
    simp only [h, if_false, decide_false, Bool.false_and, Bool.false_eq_true]
    cases k with
    | none => simp [hf]
    | some e => simp only []; repeat' split
                all_goals simp_all

/-- a fatal `SSL_shutdown` result makes `tls_close` fail -/
theorem close_fatal_reported (c : Conn) (r : SslRes) (rest : List SslRes) (k : Option SockEnv)
    (hr : c.roleValid = true) (hneg : r.ret < 0)
    (hfatal : r.err = .ssl ∨ (r.err = .syscall ∧ (r.queued = true ∨ r.ret ≠ 0))) :
    (tlsClose c (r :: rest) k).rv = -1 := by
  unfold tlsClose
  simp only [hr, Bool.not_true, Bool.false_eq_true, if_false, pop, hneg, if_true, decide_true, Bool.true_and]
  have hm : (mapErr c r).1 = -1 := by
    rcases hfatal with h | ⟨h, h2⟩
    · simp only [mapErr, sslErrorMap, h]; split <;> rfl
    · have : r.ret ≠ 0 := by omega
      simp only [mapErr, sslErrorMap, h]
      by_cases hq : r.queued = true
      · simp [hq]
      · simp [hq, this]; split <;> rfl
  simp only [hm]
  simp only [TLS_WANT_POLLIN, TLS_WANT_POLLOUT]
  cases k with
  | none => simp; split <;> rfl
  | some e => simp; repeat' split
              all_goals simp_all

/-- the results of SSL_read/SSL_write that mean "orderly end / nothing to report" -/
def ZeroClass (r : SslRes) : Prop :=
  r.ret ≤ 0 ∧ (r.err = .none ∨ r.err = .zeroReturn ∨ (r.err = .syscall ∧ r.ret = 0 ∧ r.queued = false))

theorem mapErr_zero (c : Conn) (r : SslRes) (h0 : (mapErr c r).1 = 0) (hle : r.ret ≤ 0) : ZeroClass r := by
  refine ⟨hle, ?_⟩
  revert h0
  cases r with
  | mk ret err q =>
    simp only [mapErr, sslErrorMap, TLS_WANT_POLLIN, TLS_WANT_POLLOUT]
    cases err <;> simp
    · intro h
      by_cases hq : q = true
      · simp [hq] at h
      · simp [hq] at h
        by_cases hr : ret = 0
        · exact ⟨hr, by simpa using hq⟩
        · simp [hr] at h
          split at h <;> simp at h
    · intro h; split at h <;> simp at h

/-- once the handshake is complete, `tls_read`/`tls_write` return 0 only for such a result,
    and never for an oversized buffer -/
theorem io_zero_only_at_end (c : Conn) (s : List SslRes) (n : Nat)
    (hhc : c.hc = true) (hab : c.doAbort = false) (h0 : (tlsIO c s n).rv = 0) :
    n ≤ INT_MAX ∧ ZeroClass (pop s).1 := by
  unfold tlsIO at h0
  simp only [hab, hhc, Bool.false_eq_true, if_false, Bool.not_true, bne_self_eq_false] at h0
  by_cases hn : n > INT_MAX
  · simp [hn] at h0
  · simp only [hn, if_false] at h0
    refine ⟨by omega, ?_⟩
    by_cases hp : (pop s).1.ret > 0
    · simp only [hp, if_true] at h0; omega
    · simp only [hp, if_false] at h0
      exact mapErr_zero c _ h0 (by omega)

/-- …and in general (handshake still to be done by this call) a result 0 never comes with an
    oversized buffer -/
theorem io_zero_not_oversize (c : Conn) (s : List SslRes) (n : Nat)
    (hab : c.doAbort = false) (h0 : (tlsIO c s n).rv = 0) : n ≤ INT_MAX := by
  unfold tlsIO at h0
  simp only [hab, Bool.false_eq_true, if_false] at h0
  by_cases hn : n > INT_MAX
  · exfalso
    by_cases h1 : ((if (!c.hc) = true then tlsHandshake c s else ⟨0, c, s⟩ : Out).rv != 0) = true
    · rw [if_pos h1] at h0
      simp only [bne_iff_ne, ne_eq] at h1
      exact h1 h0
    · rw [if_neg h1] at h0
      simp [hn] at h0
  · omega

/-- the pinned tree: a client whose handshake completes inside `tls_read` gets 0 ("end of stream")
    for a buffer longer than INT_MAX -/
theorem ioOld_zero_on_oversize :
    ∃ (c : Conn) (s : List SslRes) (n : Nat), c.roleValid = true ∧ c.doAbort = false ∧ n > INT_MAX ∧
      (tlsIOOld c s n).rv = 0 ∧ (tlsIOOld c s n).st.err = .buflen :=
  ⟨⟨true, true, false, false, false, false, false, false, .unchanged⟩, [⟨1, .none, false⟩], INT_MAX + 1,
    by decide, by decide, by decide, by decide, by decide⟩

/-- A client context whose handshake is not complete and whose policy refuses the peer (verify_name on,
    no certificate or name not covered) stays refused: when `SSL_connect` answers 1 again, or anything
    that `tls_ssl_error` does not map to 0, `tls_read`/`tls_write` fail again, leave the context
    incomplete, and never reach `SSL_read`/`SSL_write` (only the one scripted answer is consumed). -/
theorem refused_io (c : Conn) (r : SslRes) (rest : List SslRes) (n : Nat)
    (hvalid : c.roleValid = true) (hcl : c.isServer = false) (hhc : c.hc = false) (hab : c.doAbort = false)
    (hvn : c.verifyName = true) (hbad : c.peerCert = false ∨ c.nameOk = false)
    (hr : r.ret = 1 ∨ (r.ret ≠ 1 ∧ (mapErr c r).1 ≠ 0)) :
    (tlsIO c (r :: rest) n).rv ≠ 0 ∧ ¬ (tlsIO c (r :: rest) n).rv > 0 ∧
    (tlsIO c (r :: rest) n).st.hc = false ∧ (tlsIO c (r :: rest) n).rest = rest := by
  have hh : (r.ret = 1 → tlsHandshake c (r :: rest) =
      (if c.peerCert = false then ⟨-1, { c with err := .noCert }, rest⟩ else ⟨-1, { c with err := .name }, rest⟩)) := by
    intro h1
    rcases hbad with hb | hb
    · simp [tlsHandshake, hvalid, pop, h1, hcl, hvn, hb]
    · by_cases hp : c.peerCert = false
      · simp [tlsHandshake, hvalid, pop, h1, hcl, hvn, hp]
      · simp [tlsHandshake, hvalid, pop, h1, hcl, hvn, hb, hp]
  rcases hr with h1 | ⟨h1, hm⟩
  · have := hh h1
    unfold tlsIO
    simp only [hab, hhc, Bool.false_eq_true, if_false, Bool.not_false, if_true, this]
    by_cases hp : c.peerCert = false <;> simp [hp]
  · have hs : tlsHandshake c (r :: rest) = ⟨(mapErr c r).1, (mapErr c r).2, rest⟩ := by
      simp [tlsHandshake, hvalid, pop, h1]
    have hrange := mapErr_range c r
    have hhc' : (mapErr c r).2.hc = false := by simp [mapErr, hhc]
    unfold tlsIO
    simp only [hab, hhc, Bool.false_eq_true, if_false, Bool.not_false, if_true, hs]
    have : ((mapErr c r).1 != 0) = true := by simpa using hm
    simp only [this, if_true]
    refine ⟨hm, ?_, hhc', trivial⟩
    unfold StatusRv TLS_WANT_POLLIN TLS_WANT_POLLOUT at hrange
    omega
end UsualProofs.C17
