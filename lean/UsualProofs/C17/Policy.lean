import Usual.C17.Tls
/-! Lemmas about the session-setup decision and the protocol-version negotiation (C17 parts iii, iv).
    Version facts are finite: three 4-bit sets, checked exhaustively by the kernel (4096 cases). -/
namespace UsualProofs.C17
open Usual.C17

theorem imp_bool (a x : Bool) : (!a || x) = true ↔ (a = true → x = true) := by
  cases a <;> cases x <;> simp

theorem chainOk_iff (vt : Bool) (c : PeerCert) :
    chainOk vt c = true ↔ c.trusted = true ∧ (vt = true → c.timeValid = true) := by
  cases c with
  | mk a b => cases a <;> cases b <;> cases vt <;> simp [chainOk]

theorem clientAccepts_iff (p : Policy) :
    clientAccepts p = true ↔
      (p.verifyCert = true → p.serverCert.trusted = true ∧ (p.verifyTime = true → p.serverCert.timeValid = true)) ∧
      (p.verifyName = true → p.serverNameGiven = true ∧ p.nameCovered = true) := by
  simp only [clientAccepts, Bool.and_eq_true, imp_bool, chainOk_iff]

theorem serverAccepts_iff (p : Policy) :
    serverAccepts p = true ↔
      (p.verifyClient = .required → ∃ c, p.clientCert = some c ∧ c.trusted = true ∧
          (p.serverVerifyTime = true → c.timeValid = true)) ∧
      (p.verifyClient = .optional → ∀ c, p.clientCert = some c → c.trusted = true ∧
          (p.serverVerifyTime = true → c.timeValid = true)) := by
  unfold serverAccepts
  cases hv : p.verifyClient <;> cases hc : p.clientCert <;> simp [chainOk_iff]

theorem decision_iff (p : Policy) :
    decision p = true ↔
      (p.verifyCert = true → p.serverCert.trusted = true ∧ (p.verifyTime = true → p.serverCert.timeValid = true)) ∧
      (p.verifyName = true → p.serverNameGiven = true ∧ p.nameCovered = true) ∧
      (p.verifyClient = .required → ∃ c, p.clientCert = some c ∧ c.trusted = true ∧
          (p.serverVerifyTime = true → c.timeValid = true)) ∧
      (p.verifyClient = .optional → ∀ c, p.clientCert = some c → c.trusted = true ∧
          (p.serverVerifyTime = true → c.timeValid = true)) := by
  simp only [decision, Bool.and_eq_true, clientAccepts_iff, serverAccepts_iff, and_assoc]

/-- everything about versions is a statement about three 4-bit sets -/
def negOk (p c s : Fin 16) : Bool :=
  match negotiated p.val c.val s.val with
  | some v =>
    -- it is common to both effective sets and no common version is higher
    common p.val c.val s.val v && (List.range 4).all fun w => !common p.val c.val s.val w || decide (w ≤ v)
  | none =>
    -- nothing in common, or the one downgrade-protection case: best common version is 1.0, the client's maximum
    -- (1.1) is not available at the server, which supports 1.2
    (List.range 4).all (fun w => !common p.val c.val s.val w) ||
      (highest (common p.val c.val s.val) == some 0 && highest (effectiveClient p.val c.val) == some 1 &&
        !effectiveServer p.val s.val 1 && effectiveServer p.val s.val 2)

theorem negOk_all : ∀ p c s : Fin 16, negOk p c s = true := by decide +kernel

/-- OpenSSL's table walk = "the lowest contiguous run" -/
def rangeOk (c : Fin 16) : Bool :=
  match clientRange c.val with
  | (some mn, some mx) =>
    decide (mn ≤ mx) && decide (mx < 4) &&
    (List.range 4).all (fun v =>
      -- inside the range every version is enabled
      (!(decide (mn ≤ v) && decide (v ≤ mx)) || hasVer c.val v) &&
      -- nothing enabled lies below the range, and the version just above it is disabled
      (!(decide (v < mn)) || !hasVer c.val v) && (!(v == mx + 1) || !hasVer c.val v))
  | (none, none) => (List.range 4).all fun v => !hasVer c.val v
  | _ => false

theorem rangeOk_all : ∀ c : Fin 16, rangeOk c = true := by decide +kernel
end UsualProofs.C17
