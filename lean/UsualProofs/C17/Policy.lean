import Usual.C17.Tls
/-! Lemmas about the session-setup decision and the protocol-version negotiation (C17 parts iii, iv).
    Version facts are finite: three 4-bit sets, checked exhaustively by the kernel (4096 cases). -/
namespace UsualProofs.C17
open Usual.C17

theorem imp_bool (a x : Bool) : (!a || x) = true ↔ (a = true → x = true) := by
  cases a <;> cases x <;> simp

theorem chainOk_iff (vt : Bool) (c : PeerCert) :
    chainOk vt c = true ↔ c.trusted = true ∧ (vt = true → c.timeValid = true) := by
  cases c with
  | mk a b => cases a <;> cases b <;> cases vt <;> simp [chainOk]

theorem clientAccepts_iff (p : Policy) :
    clientAccepts p = true ↔
      (p.verifyCert = true → p.serverCert.trusted = true ∧ (p.verifyTime = true → p.serverCert.timeValid = true)) ∧
      (p.verifyName = true → p.serverNameGiven = true ∧ p.nameCovered = true) := by
  simp only [clientAccepts, Bool.and_eq_true, imp_bool, chainOk_iff]

theorem serverAccepts_iff (p : Policy) :
    serverAccepts p = true ↔
      (p.verifyClient = .required → ∃ c, p.clientCert = some c ∧ c.trusted = true ∧
          (p.serverVerifyTime = true → c.timeValid = true)) ∧
      (p.verifyClient = .optional → ∀ c, p.clientCert = some c → c.trusted = true ∧
          (p.serverVerifyTime = true → c.timeValid = true)) := by
  unfold serverAccepts
  cases hv : p.verifyClient <;> cases hc : p.clientCert <;> simp [chainOk_iff]

theorem decision_iff (p : Policy) :
    decision p = true ↔
      (p.verifyCert = true → p.serverCert.trusted = true ∧ (p.verifyTime = true → p.serverCert.timeValid = true)) ∧
      (p.verifyName = true → p.serverNameGiven = true ∧ p.nameCovered = true) ∧
      (p.verifyClient = .required → ∃ c, p.clientCert = some c ∧ c.trusted = true ∧
          (p.serverVerifyTime = true → c.timeValid = true)) ∧
      (p.verifyClient = .optional → ∀ c, p.clientCert = some c → c.trusted = true ∧
          (p.serverVerifyTime = true → c.timeValid = true)) := by
  simp only [decision, Bool.and_eq_true, clientAccepts_iff, serverAccepts_iff, and_assoc]

/-- everything about versions is a statement about three 4-bit sets -/
def negOk (p c s : Fin 16) : Bool :=
  match negotiated p.val c.val s.val with
  | some v =>
    -- it is common to both effective sets and no common version is higher
    common p.val c.val s.val v && (List.range 4).all fun w => !common p.val c.val s.val w || decide (w ≤ v)
  | none =>
    -- nothing in common, or the one downgrade-protection case: best common version is 1.0, the client's maximum
    -- (1.1) is not available at the server, which supports 1.2
    (List.range 4).all (fun w => !common p.val c.val s.val w) ||
      (highest (common p.val c.val s.val) == some 0 && highest (effectiveClient p.val c.val) == some 1 &&
        !effectiveServer p.val s.val 1 && effectiveServer p.val s.val 2)

theorem negOk_all : ∀ p c s : Fin 16, negOk p c s = true := by decide +kernel

/-- OpenSSL's table walk = "the lowest contiguous run" -/
def rangeOk (c : Fin 16) : Bool :=
  match clientRange c.val with
  | (some mn, some mx) =>
    decide (mn ≤ mx) && decide (mx < 4) &&
    (List.range 4).all (fun v =>
      -- inside the range every version is enabled
      (!(decide (mn ≤ v) && decide (v ≤ mx)) || hasVer c.val v) &&
      -- nothing enabled lies below the range, and the version just above it is disabled
      (!(decide (v < mn)) || !hasVer c.val v) && (!(v == mx + 1) || !hasVer c.val v))
  | (none, none) => (List.range 4).all fun v => !hasVer c.val v
  | _ => false

theorem rangeOk_all : ∀ c : Fin 16, rangeOk c = true := by decide +kernel
/-- configuring again replaces the configuration: nothing of the first one is left -/
theorem configure_twice (t : TlsCtx) (a b : Config) : (t.configure a).configure b = t.configure b := by
  cases t with
  | mk srv cfg ctx => cases srv <;> simp [TlsCtx.configure]

/-- …also across a session attempt (`connect`) and `tls_reset` -/
theorem client_configure_after_reset (t : TlsCtx) (a b : Config) (h : t.isServer = false) :
    (((t.configure a).connect.reset).configure b).connect = (t.configure b).connect := by
  cases t with
  | mk srv cfg ctx => subst h; simp [TlsCtx.configure, TlsCtx.connect, TlsCtx.reset]

theorem server_configure_after_reset (t : TlsCtx) (a b : Config) (h : t.isServer = true) :
    ((t.configure a).reset).configure b = t.configure b := by
  cases t with
  | mk srv cfg ctx => subst h; simp [TlsCtx.configure, TlsCtx.reset]

theorem clientVerifyOf_cases (v : Int) :
    (if !(v != 0) then ClientVerify.off else if v == 1 then .required else .optional) = clientVerifyOf v := by
  unfold clientVerifyOf
  by_cases h0 : v = 0
  · simp [h0]
  · by_cases h1 : v = 1 <;> simp [h0, h1]

/-- the policy of two contexts is the policy of their LAST configurations -/
theorem policy_of_last (tc ts : TlsCtx) (hc : tc.isServer = false) (hs : ts.isServer = true)
    (b b' : Config) (g : Bool) (sc : PeerCert) (cov : Bool) (cc : Option PeerCert) :
    Policy.ofCtxs (tc.configure b).connect (ts.configure b') g sc cov cc = some (Policy.ofConfigs b b' g sc cov cc) := by
  cases tc with
  | mk s1 c1 x1 =>
    cases ts with
    | mk s2 c2 x2 =>
      simp only at hc hs
      subst hc; subst hs
      simp only [TlsCtx.configure, TlsCtx.connect, Policy.ofCtxs, Policy.ofConfigs, SslCtx.ofClientConfig,
        SslCtx.ofServerConfig, Bool.false_eq_true, if_false, if_true, Option.some.injEq, Policy.mk.injEq, true_and, and_true]
      refine ⟨?_, ?_, ?_⟩
      · cases h : (b.verifyTime == 0) <;> simp_all
      · exact clientVerifyOf_cases _
      · cases h : (b'.verifyTime == 0) <;> simp_all
end UsualProofs.C17
