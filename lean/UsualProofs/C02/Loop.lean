import UsualProofs.C02.Table
/-!
# C02 — the main loop: progress, fuel independence, reachable configurations
-/
namespace Usual.C02
open Usual.C03 (JVal insertKv)
open Usual.Gen.C02Tables

/-! ## small inversion lemmas -/

theorem withTok_next {st : St} {tok : Nat} {k : St → Step} {st' : St} {r : Bytes}
    (h : withTok st tok k = .next st' r) :
    STEP st.state tok ≠ 0 ∧ k { st with state := STEP st.state tok } = .next st' r := by
  unfold withTok at h
  by_cases h0 : (STEP st.state tok == 0) = true
  · simp [h0] at h
  · simp only [h0] at h
    exact ⟨by simpa using h0, h⟩

theorem withTok_zero {st : St} {tok : Nat} {k : St → Step} (h : STEP st.state tok = 0) :
    withTok st tok k = .err .unexpectedSymbol := by
  unfold withTok; simp [h]

theorem withTok_pos {st : St} {tok : Nat} {k : St → Step} (h : STEP st.state tok ≠ 0) :
    withTok st tok k = k { st with state := STEP st.state tok } := by
  unfold withTok; simp [h]

theorem valueStep_next {st : St} {v : JVal} {rest : Bytes} {st' : St} {r : Bytes}
    (h : valueStep st v rest = .next st' r) : r = rest ∧ attach st v = .ok st' := by
  unfold valueStep at h
  cases ha : attach st v with
  | error e => simp [ha] at h
  | ok s =>
    simp only [ha] at h
    cases h; exact ⟨rfl, rfl⟩

/-! ## every iteration consumes the byte it looked at and never gives bytes back -/

theorem afterNewline_length : ∀ (s r : Bytes), afterNewline s = some r → r.length ≤ s.length
  | [], r, h => by simp [afterNewline] at h
  | c :: s, r, h => by
    unfold afterNewline at h
    by_cases hc : (c == 0x0A) = true
    · simp only [hc, if_true] at h; cases h; simp
    · simp only [hc] at h
      have := afterNewline_length s r h
      simp; omega

theorem blockEnd_length : ∀ (s r : Bytes), blockEnd s = some r → r.length ≤ s.length
  | [], r, h => by simp [blockEnd] at h
  | [_], r, h => by simp [blockEnd] at h
  | a :: b :: t, r, h => by
    unfold blockEnd at h
    by_cases hc : (a == 0x2A && b == 0x2F) = true
    · simp only [hc, if_true] at h; cases h; simp; omega
    · simp only [hc] at h
      have := blockEnd_length (b :: t) r h
      simp at this ⊢; omega

theorem skipComment_length (s r : Bytes) (h : skipComment s = some r) : r.length ≤ s.length := by
  unfold skipComment at h
  cases s with
  | nil => simp at h
  | cons c s =>
    simp only at h
    by_cases h1 : (c == 0x2F) = true
    · simp only [h1, if_true] at h
      cases ha : afterNewline s with
      | none => simp [ha] at h; subst h; simp
      | some x =>
        simp [ha] at h; subst h
        have := afterNewline_length s x ha
        simp; omega
    · simp only [h1] at h
      by_cases h2 : (c == 0x2A) = true
      · simp only [h2, if_true] at h
        have := blockEnd_length s r h
        simp; omega
      · simp [h2] at h

theorem scanBody_length {o : Opts} {src body rest : Bytes} {esc : Bool}
    (h : scanBody o src = .ok (body, esc, rest)) : rest.length ≤ src.length := by
  unfold scanBody at h
  cases hs : scanString (!o.ignoreEnc) (src.length + 1) src 0 false with
  | error e => simp [hs] at h
  | ok p =>
    obtain ⟨n, e⟩ := p
    simp only [hs] at h
    cases h
    simp

theorem parseChar4_length {exp s rest : Bytes} (h : parseChar4 exp s = .ok rest) :
    rest.length + 4 = s.length := by
  unfold parseChar4 at h
  by_cases h1 : s.length < 4
  · simp [h1] at h
  · simp only [h1, if_false] at h
    by_cases h2 : (s.take 4 != exp) = true
    · simp [h2] at h
    · simp only [h2] at h
      cases h
      simp; omega

theorem parseNumber_rest {sd : Bytes → UInt64 × Nat} {s : Bytes} {v : JVal} {rest : Bytes}
    (h : parseNumber sd s = .ok (v, rest)) : rest = s.dropWhile isNumChar := by
  unfold parseNumber at h
  dsimp only at h
  split at h
  · cases h
  · split at h
    · split at h
      · cases h
      · cases h; rfl
    · split at h
      · cases h
      · split at h
        · cases h; rfl
        · split at h
          · cases h
          · cases h; rfl

theorem isNumChar_of_start (c : UInt8) (h : (c == 0x2D || isDigit c) = true) : isNumChar c = true := by
  unfold isNumChar
  rcases Bool.or_eq_true _ _ |>.mp h with h | h
  · simp [h]
  · simp [h]

theorem step_length {sd : Bytes → UInt64 × Nat} {o : Opts} {st : St} {c : UInt8} {src : Bytes}
    {st' : St} {rest : Bytes} (h : step sd o st c src = .next st' rest) :
    rest.length ≤ src.length := by
  unfold step at h
  split at h
  · cases h; exact List.length_dropWhile_le _ _
  split at h
  · obtain ⟨_, h⟩ := withTok_next h
    cases hb : scanBody o src with
    | error e => simp [hb] at h
    | ok p =>
      obtain ⟨body, esc, r⟩ := p
      simp only [hb] at h
      split at h
      · cases h
      · cases hu : unescape body esc with
        | error e => simp [hu] at h
        | ok s =>
          simp only [hu] at h
          obtain ⟨rfl, _⟩ := valueStep_next h
          exact scanBody_length hb
  split at h
  · obtain ⟨_, h⟩ := withTok_next h
    cases hp : parseChar4 C_NULL (c :: src) with
    | error e => simp [hp] at h
    | ok r =>
      simp only [hp] at h
      obtain ⟨rfl, _⟩ := valueStep_next h
      have := parseChar4_length hp
      simp at this; omega
  split at h
  · obtain ⟨_, h⟩ := withTok_next h
    cases hp : parseChar4 C_TRUE (c :: src) with
    | error e => simp [hp] at h
    | ok r =>
      simp only [hp] at h
      obtain ⟨rfl, _⟩ := valueStep_next h
      have := parseChar4_length hp
      simp at this; omega
  split at h
  · obtain ⟨_, h⟩ := withTok_next h
    cases hp : parseChar4 C_ALSE src with
    | error e => simp [hp] at h
    | ok r =>
      simp only [hp] at h
      obtain ⟨rfl, _⟩ := valueStep_next h
      have := parseChar4_length hp
      omega
  split at h
  · rename_i hnum
    obtain ⟨_, h⟩ := withTok_next h
    cases hp : parseNumber sd (c :: src) with
    | error e => simp [hp] at h
    | ok p =>
      obtain ⟨v, r⟩ := p
      simp only [hp] at h
      obtain ⟨rfl, _⟩ := valueStep_next h
      have := parseNumber_rest hp
      rw [this, List.dropWhile_cons_of_pos (isNumChar_of_start c hnum)]
      exact List.length_dropWhile_le _ _
  split at h
  · obtain ⟨_, h⟩ := withTok_next h
    cases ho : openC { st with state := STEP st.state T_OPEN_LIST } (.list []) with
    | error e => simp [ho] at h
    | ok s => simp only [ho] at h; cases h; exact Nat.le_refl _
  split at h
  · obtain ⟨_, h⟩ := withTok_next h
    cases ho : openC { st with state := STEP st.state T_OPEN_DICT } (.dict [] none) with
    | error e => simp [ho] at h
    | ok s => simp only [ho] at h; cases h; exact Nat.le_refl _
  split at h
  · obtain ⟨_, h⟩ := withTok_next h
    cases ho : closeC { st with state := STEP st.state T_CLOSE_LIST } with
    | error e => simp [ho] at h
    | ok s => simp only [ho] at h; cases h; exact Nat.le_refl _
  split at h
  · obtain ⟨_, h⟩ := withTok_next h
    cases ho : closeC { st with state := STEP st.state T_CLOSE_DICT } with
    | error e => simp [ho] at h
    | ok s => simp only [ho] at h; cases h; exact Nat.le_refl _
  split at h
  · obtain ⟨_, h⟩ := withTok_next h
    cases ho : addKey { st with state := STEP st.state T_COLON } with
    | error e => simp [ho] at h
    | ok s => simp only [ho] at h; cases h; exact Nat.le_refl _
  split at h
  · split at h
    · cases h; exact List.length_dropWhile_le _ _
    · obtain ⟨_, h⟩ := withTok_next h
      cases h
      split
      · exact List.length_dropWhile_le _ _
      · exact Nat.le_refl _
  split at h
  · cases hs : skipComment src with
    | none => simp [hs] at h
    | some r => simp only [hs] at h; cases h; exact skipComment_length _ _ hs
  · cases h

/-! ## fuel independence -/

theorem loop_fuel (sd : Bytes → UInt64 × Nat) (o : Opts) :
    ∀ (f g : Nat) (st : St) (inp : Bytes), inp.length < f → inp.length < g →
      loop sd o f st inp = loop sd o g st inp
  | 0, _, _, _, hf, _ => by omega
  | _ + 1, 0, _, _, _, hg => by omega
  | f + 1, g + 1, st, [], _, _ => by simp [loop]
  | f + 1, g + 1, st, c :: src, hf, hg => by
    simp only [loop]
    cases hs : step sd o st c src with
    | err e => rfl
    | next st' rest =>
      have := step_length hs
      simp only [List.length_cons] at hf hg
      exact loop_fuel sd o f g st' rest (by omega) (by omega)

/-- the loop with exactly enough fuel -/
def run (sd : Bytes → UInt64 × Nat) (o : Opts) (st : St) (inp : Bytes) : Except Err JVal :=
  loop sd o (inp.length + 1) st inp

theorem parse_eq_run (sd : Bytes → UInt64 × Nat) (o : Opts) (doc : Bytes) :
    parse sd o doc = run sd o St.init doc := rfl

theorem run_nil (sd : Bytes → UInt64 × Nat) (o : Opts) (st : St) :
    run sd o st [] =
      if st.state != S_DONE then .error .containerStillOpen
      else match st.top with
        | some v => .ok v
        | none => .error .none := by
  rfl

theorem run_cons (sd : Bytes → UInt64 × Nat) (o : Opts) (st : St) (c : UInt8) (src : Bytes) :
    run sd o st (c :: src) =
      match step sd o st c src with
      | .err e => .error e
      | .next st' rest => run sd o st' rest := by
  simp only [run, List.length_cons, loop]
  cases hs : step sd o st c src with
  | err e => rfl
  | next st' rest =>
    have := step_length hs
    exact loop_fuel sd o _ _ st' rest (by omega) (by omega)

/-! ## configurations the loop passes through -/

/-- `Reaches sd o doc st rest`: started on `doc`, the `while` loop of `parse_tokens` arrives at
its head with parser state `st` and `rest` still ahead -/
inductive Reaches (sd : Bytes → UInt64 × Nat) (o : Opts) (doc : Bytes) : St → Bytes → Prop
  | start : Reaches sd o doc St.init doc
  | step {st : St} {c : UInt8} {src : Bytes} {st' : St} {rest : Bytes} :
      Reaches sd o doc st (c :: src) → step sd o st c src = .next st' rest → Reaches sd o doc st' rest

theorem Reaches.parse_eq {sd : Bytes → UInt64 × Nat} {o : Opts} {doc : Bytes} {st : St} {rest : Bytes}
    (h : Reaches sd o doc st rest) : parse sd o doc = run sd o st rest := by
  induction h with
  | start => rfl
  | step _ hs ih => rw [ih, run_cons, hs]

end Usual.C02
