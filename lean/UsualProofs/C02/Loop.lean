import UsualProofs.C02.Table
/-!
# C02 — the main loop: progress, fuel independence, reachable configurations
-/
namespace Usual.C02
open Usual.C03 (JVal insertKv)
open Usual.Gen.C02Tables

/-! ## small inversion lemmas -/

theorem withTok_next {st : St} {tok : Nat} {k : St → Step} {st' : St} {r : Bytes}
    (h : withTok st tok k = .next st' r) :
    STEP st.state tok ≠ 0 ∧ k { st with state := STEP st.state tok } = .next st' r := by
  unfold withTok at h
  by_cases h0 : (STEP st.state tok == 0) = true
  · simp [h0] at h
  · simp only [h0] at h
    exact ⟨by simpa using h0, h⟩

theorem withTok_zero {st : St} {tok : Nat} {k : St → Step} (h : STEP st.state tok = 0) :
    withTok st tok k = .err .unexpectedSymbol := by
  unfold withTok; simp [h]

theorem withTok_pos {st : St} {tok : Nat} {k : St → Step} (h : STEP st.state tok ≠ 0) :
    withTok st tok k = k { st with state := STEP st.state tok } := by
  unfold withTok; simp [h]

theorem valueStep_next {st : St} {v : JVal} {rest : Bytes} {st' : St} {r : Bytes}
    (h : valueStep st v rest = .next st' r) : r = rest ∧ attach st v = .ok st' := by
  unfold valueStep at h
  cases ha : attach st v with
  | error e => simp [ha] at h
  | ok s =>
    simp only [ha] at h
    cases h; exact ⟨rfl, rfl⟩

/-! ## every iteration consumes the byte it looked at and never gives bytes back -/

theorem afterNewline_length : ∀ (s r : Bytes), afterNewline s = some r → r.length ≤ s.length
  | [], r, h => by simp [afterNewline] at h
  | c :: s, r, h => by
    unfold afterNewline at h
    by_cases hc : (c == 0x0A) = true
    · simp only [hc, if_true] at h; cases h; simp
    · simp only [hc] at h
      have := afterNewline_length s r h
      simp; omega

theorem blockEnd_length : ∀ (s r : Bytes), blockEnd s = some r → r.length ≤ s.length
  | [], r, h => by simp [blockEnd] at h
  | [_], r, h => by simp [blockEnd] at h
  | a :: b :: t, r, h => by
    unfold blockEnd at h
    by_cases hc : (a == 0x2A && b == 0x2F) = true
    · simp only [hc, if_true] at h; cases h; simp; omega
    · simp only [hc] at h
      have := blockEnd_length (b :: t) r h
      simp at this ⊢; omega

theorem skipComment_length (s r : Bytes) (h : skipComment s = some r) : r.length ≤ s.length := by
  unfold skipComment at h
  cases s with
  | nil => simp at h
  | cons c s =>
    simp only at h
    by_cases h1 : (c == 0x2F) = true
    · simp only [h1, if_true] at h
      cases ha : afterNewline s with
      | none => simp [ha] at h; subst h; simp
      | some x =>
        simp [ha] at h; subst h
        have := afterNewline_length s x ha
        simp; omega
    · simp only [h1] at h
      by_cases h2 : (c == 0x2A) = true
      · simp only [h2, if_true] at h
        have := blockEnd_length s r h
        simp; omega
      · simp [h2] at h

theorem scanBody_length {o : Opts} {src body rest : Bytes} {esc : Bool}
    (h : scanBody o src = .ok (body, esc, rest)) : rest.length ≤ src.length := by
  unfold scanBody at h
  cases hs : scanString (!o.ignoreEnc) (src.length + 1) src 0 false with
  | error e => simp [hs] at h
  | ok p =>
    obtain ⟨n, e⟩ := p
    simp only [hs] at h
    cases h
    simp

theorem parseChar4_length {exp s rest : Bytes} (h : parseChar4 exp s = .ok rest) :
    rest.length + 4 = s.length := by
  unfold parseChar4 at h
  by_cases h1 : s.length < 4
  · simp [h1] at h
  · simp only [h1, if_false] at h
    by_cases h2 : (s.take 4 != exp) = true
    · simp [h2] at h
    · simp only [h2] at h
      cases h
      simp; omega

theorem parseNumber_rest {sd : Bytes → UInt64 × Nat} {s : Bytes} {v : JVal} {rest : Bytes}
    (h : parseNumber sd s = .ok (v, rest)) :
    rest = s.dropWhile isNumChar ∧ convNumber sd (s.takeWhile isNumChar) = some v := by
  unfold parseNumber at h
  cases hc : convNumber sd (s.takeWhile isNumChar) with
  | none => simp [hc] at h
  | some x => simp only [hc] at h; cases h; exact ⟨rfl, rfl⟩

theorem isNumChar_of_start (c : UInt8) (h : (c == 0x2D || isDigit c) = true) : isNumChar c = true := by
  unfold isNumChar
  rcases Bool.or_eq_true _ _ |>.mp h with h | h
  · simp [h]
  · simp [h]

/-! inversion of the cases of `step` -/

theorem stepString_next {o : Opts} {st st' : St} {src rest : Bytes} (h : stepString o st src = .next st' rest) :
    STEP st.state T_STRING ≠ 0 ∧ ∃ body esc s, scanBody o src = .ok (body, esc, rest) ∧
      unescape body esc = .ok s ∧ attach { st with state := STEP st.state T_STRING } (.str s) = .ok st' := by
  unfold stepString at h
  obtain ⟨h0, h⟩ := withTok_next h
  refine ⟨h0, ?_⟩
  cases hb : scanBody o src with
  | error e => simp [hb] at h
  | ok p =>
    obtain ⟨body, esc, r⟩ := p
    simp only [hb] at h
    split at h
    · cases h
    · cases hu : unescape body esc with
      | error e => simp [hu] at h
      | ok s =>
        simp only [hu] at h
        obtain ⟨rfl, ha⟩ := valueStep_next h
        exact ⟨body, esc, s, rfl, hu, ha⟩

theorem stepLit_next {st st' : St} {exp : Bytes} {v : JVal} {src rest : Bytes}
    (h : stepLit st exp v src = .next st' rest) :
    STEP st.state T_OTHER ≠ 0 ∧ parseChar4 exp src = .ok rest ∧
      attach { st with state := STEP st.state T_OTHER } v = .ok st' := by
  unfold stepLit at h
  obtain ⟨h0, h⟩ := withTok_next h
  refine ⟨h0, ?_⟩
  cases hp : parseChar4 exp src with
  | error e => simp [hp] at h
  | ok r =>
    simp only [hp] at h
    obtain ⟨rfl, ha⟩ := valueStep_next h
    exact ⟨rfl, ha⟩

theorem stepNumber_next {sd : Bytes → UInt64 × Nat} {st st' : St} {src rest : Bytes}
    (h : stepNumber sd st src = .next st' rest) :
    STEP st.state T_OTHER ≠ 0 ∧ ∃ v, parseNumber sd src = .ok (v, rest) ∧
      attach { st with state := STEP st.state T_OTHER } v = .ok st' := by
  unfold stepNumber at h
  obtain ⟨h0, h⟩ := withTok_next h
  refine ⟨h0, ?_⟩
  cases hp : parseNumber sd src with
  | error e => simp [hp] at h
  | ok p =>
    obtain ⟨v, r⟩ := p
    simp only [hp] at h
    obtain ⟨rfl, ha⟩ := valueStep_next h
    exact ⟨v, rfl, ha⟩

theorem stepOpen_next {st st' : St} {tok : Nat} {f : Frame} {src rest : Bytes}
    (h : stepOpen st tok f src = .next st' rest) :
    STEP st.state tok ≠ 0 ∧ rest = src ∧ openC { st with state := STEP st.state tok } f = .ok st' := by
  unfold stepOpen at h
  obtain ⟨h0, h⟩ := withTok_next h
  refine ⟨h0, ?_⟩
  cases ho : openC { st with state := STEP st.state tok } f with
  | error e => simp [ho] at h
  | ok s => simp only [ho] at h; cases h; exact ⟨rfl, rfl⟩

theorem stepClose_next {st st' : St} {tok : Nat} {src rest : Bytes}
    (h : stepClose st tok src = .next st' rest) :
    STEP st.state tok ≠ 0 ∧ rest = src ∧ closeC { st with state := STEP st.state tok } = .ok st' := by
  unfold stepClose at h
  obtain ⟨h0, h⟩ := withTok_next h
  refine ⟨h0, ?_⟩
  cases ho : closeC { st with state := STEP st.state tok } with
  | error e => simp [ho] at h
  | ok s => simp only [ho] at h; cases h; exact ⟨rfl, rfl⟩

theorem stepColon_next {st st' : St} {src rest : Bytes} (h : stepColon st src = .next st' rest) :
    STEP st.state T_COLON ≠ 0 ∧ rest = src ∧ addKey { st with state := STEP st.state T_COLON } = .ok st' := by
  unfold stepColon at h
  obtain ⟨h0, h⟩ := withTok_next h
  refine ⟨h0, ?_⟩
  cases ho : addKey { st with state := STEP st.state T_COLON } with
  | error e => simp [ho] at h
  | ok s => simp only [ho] at h; cases h; exact ⟨rfl, rfl⟩

theorem stepComma_next {o : Opts} {st st' : St} {src rest : Bytes} (h : stepComma o st src = .next st' rest) :
    (o.relaxed = true ∧ (skipExtraComma src st.state).2 = true ∧ st' = st ∧ rest = (skipExtraComma src st.state).1) ∨
    (STEP st.state T_COMMA ≠ 0 ∧ st' = { st with state := STEP st.state T_COMMA } ∧
      rest = (if o.relaxed then (skipExtraComma src st.state).1 else src)) := by
  unfold stepComma at h
  by_cases hc : (o.relaxed && (skipExtraComma src st.state).2) = true
  · simp only [hc, if_true] at h
    cases h
    simp only [Bool.and_eq_true] at hc
    exact Or.inl ⟨hc.1, hc.2, rfl, rfl⟩
  · rw [if_neg hc] at h
    obtain ⟨h0, h⟩ := withTok_next h
    cases h
    exact Or.inr ⟨h0, rfl, rfl⟩

theorem stepSlash_next {o : Opts} {st st' : St} {src rest : Bytes} (h : stepSlash o st src = .next st' rest) :
    o.relaxed = true ∧ st' = st ∧ skipComment src = some rest := by
  unfold stepSlash at h
  by_cases hr : o.relaxed = true
  · simp only [hr, if_true] at h
    cases hs : skipComment src with
    | none => simp [hs] at h
    | some r => simp only [hs] at h; cases h; exact ⟨hr, rfl, rfl⟩
  · simp [hr] at h

theorem skipExtraComma_length (src : Bytes) (s : Nat) : (skipExtraComma src s).1.length ≤ src.length := by
  unfold skipExtraComma
  exact (List.dropWhile_suffix _).length_le

/-- peel one `if` off a hypothesis `h : (if c then a else b) = x` where `a = x` is absurd -/
macro "peel_if " h:ident : tactic =>
  `(tactic| (first
    | (rw [if_neg (by assumption)] at $h:ident)
    | (rw [if_pos (by assumption)] at $h:ident)))

theorem classify_num {c : UInt8} (h : classify c = .num) : isNumChar c = true := by
  unfold classify at h
  by_cases h1 : isWsByte c = true
  · rw [if_pos h1] at h; cases h
  rw [if_neg h1] at h
  by_cases h2 : (c == 0x22) = true
  · rw [if_pos h2] at h; cases h
  rw [if_neg h2] at h
  by_cases h3 : (c == 0x6E) = true
  · rw [if_pos h3] at h; cases h
  rw [if_neg h3] at h
  by_cases h4 : (c == 0x74) = true
  · rw [if_pos h4] at h; cases h
  rw [if_neg h4] at h
  by_cases h5 : (c == 0x66) = true
  · rw [if_pos h5] at h; cases h
  rw [if_neg h5] at h
  by_cases h6 : (c == 0x2D || isDigit c) = true
  · exact isNumChar_of_start c h6
  rw [if_neg h6] at h
  by_cases h7 : (c == 0x5B) = true
  · rw [if_pos h7] at h; cases h
  rw [if_neg h7] at h
  by_cases h8 : (c == 0x7B) = true
  · rw [if_pos h8] at h; cases h
  rw [if_neg h8] at h
  by_cases h9 : (c == 0x5D) = true
  · rw [if_pos h9] at h; cases h
  rw [if_neg h9] at h
  by_cases h10 : (c == 0x7D) = true
  · rw [if_pos h10] at h; cases h
  rw [if_neg h10] at h
  by_cases h11 : (c == 0x3A) = true
  · rw [if_pos h11] at h; cases h
  rw [if_neg h11] at h
  by_cases h12 : (c == 0x2C) = true
  · rw [if_pos h12] at h; cases h
  rw [if_neg h12] at h
  by_cases h13 : (c == 0x2F) = true
  · rw [if_pos h13] at h; cases h
  rw [if_neg h13] at h
  cases h

theorem step_length {sd : Bytes → UInt64 × Nat} {o : Opts} {st : St} {c : UInt8} {src : Bytes}
    {st' : St} {rest : Bytes} (h : step sd o st c src = .next st' rest) :
    rest.length ≤ src.length := by
  unfold step at h
  cases hc : classify c <;> simp only [hc] at h
  · cases h; exact (List.dropWhile_suffix _).length_le
  · obtain ⟨_, body, esc, s, hb, _, _⟩ := stepString_next h
    exact scanBody_length hb
  · obtain ⟨_, hp, _⟩ := stepLit_next h
    have := parseChar4_length hp
    simp at this; omega
  · obtain ⟨_, hp, _⟩ := stepLit_next h
    have := parseChar4_length hp
    simp at this; omega
  · obtain ⟨_, hp, _⟩ := stepLit_next h
    have := parseChar4_length hp
    omega
  · obtain ⟨_, v, hp, _⟩ := stepNumber_next h
    rw [(parseNumber_rest hp).1, List.dropWhile_cons_of_pos (classify_num hc)]
    exact (List.dropWhile_suffix _).length_le
  · obtain ⟨_, rfl, _⟩ := stepOpen_next h; exact Nat.le_refl _
  · obtain ⟨_, rfl, _⟩ := stepOpen_next h; exact Nat.le_refl _
  · obtain ⟨_, rfl, _⟩ := stepClose_next h; exact Nat.le_refl _
  · obtain ⟨_, rfl, _⟩ := stepClose_next h; exact Nat.le_refl _
  · obtain ⟨_, rfl, _⟩ := stepColon_next h; exact Nat.le_refl _
  · rcases stepComma_next h with ⟨_, _, _, rfl⟩ | ⟨_, _, rfl⟩
    · exact skipExtraComma_length _ _
    · split
      · exact skipExtraComma_length _ _
      · exact Nat.le_refl _
  · obtain ⟨_, _, hs⟩ := stepSlash_next h
    exact skipComment_length _ _ hs
  · cases h

/-! ## fuel independence -/

theorem loop_fuel (sd : Bytes → UInt64 × Nat) (o : Opts) :
    ∀ (f g : Nat) (st : St) (inp : Bytes), inp.length < f → inp.length < g →
      loop sd o f st inp = loop sd o g st inp
  | 0, _, _, _, hf, _ => by omega
  | _ + 1, 0, _, _, _, hg => by omega
  | f + 1, g + 1, st, [], _, _ => by simp [loop]
  | f + 1, g + 1, st, c :: src, hf, hg => by
    simp only [loop]
    cases hs : step sd o st c src with
    | err e => rfl
    | next st' rest =>
      have := step_length hs
      simp only [List.length_cons] at hf hg
      exact loop_fuel sd o f g st' rest (by omega) (by omega)

/-- the loop with exactly enough fuel -/
def run (sd : Bytes → UInt64 × Nat) (o : Opts) (st : St) (inp : Bytes) : Except Err JVal :=
  loop sd o (inp.length + 1) st inp

theorem parse_eq_run (sd : Bytes → UInt64 × Nat) (o : Opts) (doc : Bytes) :
    parse sd o doc = run sd o St.init doc := rfl

theorem run_nil (sd : Bytes → UInt64 × Nat) (o : Opts) (st : St) :
    run sd o st [] =
      if st.state != S_DONE then .error .containerStillOpen
      else match st.top with
        | some v => .ok v
        | none => .error .none := by
  rfl

theorem run_cons (sd : Bytes → UInt64 × Nat) (o : Opts) (st : St) (c : UInt8) (src : Bytes) :
    run sd o st (c :: src) =
      match step sd o st c src with
      | .err e => .error e
      | .next st' rest => run sd o st' rest := by
  simp only [run, List.length_cons, loop]
  cases hs : step sd o st c src with
  | err e => rfl
  | next st' rest =>
    have := step_length hs
    exact loop_fuel sd o _ _ st' rest (by omega) (by omega)

/-! ## configurations the loop passes through -/

/-- `Reaches sd o doc st rest`: started on `doc`, the `while` loop of `parse_tokens` arrives at
its head with parser state `st` and `rest` still ahead -/
inductive Reaches (sd : Bytes → UInt64 × Nat) (o : Opts) (doc : Bytes) : St → Bytes → Prop
  | start : Reaches sd o doc St.init doc
  | step {st : St} {c : UInt8} {src : Bytes} {st' : St} {rest : Bytes} :
      Reaches sd o doc st (c :: src) → step sd o st c src = .next st' rest → Reaches sd o doc st' rest

theorem Reaches.parse_eq {sd : Bytes → UInt64 × Nat} {o : Opts} {doc : Bytes} {st : St} {rest : Bytes}
    (h : Reaches sd o doc st rest) : parse sd o doc = run sd o st rest := by
  induction h with
  | start => rfl
  | step _ hs ih => rw [ih, run_cons, hs]

end Usual.C02
