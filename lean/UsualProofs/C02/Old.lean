import UsualProofs.C02.RfcFinal
/-!
# C02 — the unchanged `parse_number` (before fixes/F03-json-subnormal.patch) rejects subnormals

`strtod` reports inexact underflow through `errno = ERANGE` although the result (a subnormal, or
zero) is the correctly rounded finite value.  The unchanged code tests `errno` alone:
`if (*tokend != 0 || errno || !isfinite(v_float)) goto failed;`.
-/
namespace Usual.C02
open Usual.C03 (JVal)
open Usual.Gen.C02Tables

/-- the float branch of the *unchanged* `parse_number`; `sd3` = `strtod` with its `ERANGE` flag -/
def convFloatOld (sd3 : Bytes → UInt64 × Nat × Bool) (tok : Bytes) : Option JVal :=
  if (sd3 tok).2.1 != tok.length || (sd3 tok).2.2 || !isFiniteBits (sd3 tok).1 then none
  else some (.float (sd3 tok).1)

/-- the token `5e-324` -/
def tok5e324 : Bytes := [0x35, 0x65, 0x2D, 0x33, 0x32, 0x34]

/-- With a `strtod` that converts `5e-324` to the smallest subnormal (bits `…0001`), consuming
all six bytes and setting `ERANGE` — what C11 7.22.1.3 §10 permits and glibc does — the unchanged
code fails ("Number parse failed") although the document is RFC 8259 with the finite value `0x1`;
the repaired code (`convNumber`, which ignores `ERANGE` for finite results) returns that value. -/
theorem old_rejects_subnormal (sd3 : Bytes → UInt64 × Nat × Bool) (h : sd3 tok5e324 = (1, 6, true)) :
    convFloatOld sd3 tok5e324 = none ∧
    convNumber (fun t => ((sd3 t).1, (sd3 t).2.1)) tok5e324 = some (.float 1) ∧
    Usual.C03.Rfc.parse (fun t => if t = tok5e324 then some 1 else none) tok5e324 = some (.float 1) := by
  refine ⟨?_, ?_, rfl⟩
  · unfold convFloatOld; rw [h]; rfl
  · unfold convNumber
    rw [if_neg (by decide), if_pos (by decide)]
    simp only [h]
    rfl

end Usual.C02
