import UsualProofs.C02.Unescape
import UsualProofs.C02.Total
/-!
# C02 — every string of an accepted tree comes out of `parse_string`
-/
namespace Usual.C02
open Usual.C03 (JVal insertKv)
open Usual.Gen.C02Tables

mutual
/-- all strings of a value tree: string values and object names -/
def strs : JVal → List Bytes
  | .str s => [s]
  | .list l => strsList l
  | .dict kvs => strsKvs kvs
  | .null => []
  | .bool _ => []
  | .int _ => []
  | .float _ => []
def strsList : List JVal → List Bytes
  | [] => []
  | v :: vs => strs v ++ strsList vs
def strsKvs : List (Bytes × JVal) → List Bytes
  | [] => []
  | (k, v) :: r => k :: (strs v ++ strsKvs r)
end

theorem mem_strsList {s : Bytes} : ∀ {l : List JVal}, s ∈ strsList l ↔ ∃ v ∈ l, s ∈ strs v
  | [] => by simp [strsList]
  | v :: vs => by
    simp only [strsList, List.mem_append, List.mem_cons, exists_eq_or_imp]
    rw [mem_strsList (l := vs)]

theorem mem_strsKvs {s : Bytes} : ∀ {l : List (Bytes × JVal)},
    s ∈ strsKvs l ↔ ∃ p ∈ l, s = p.1 ∨ s ∈ strs p.2
  | [] => by simp [strsKvs]
  | (k, v) :: r => by
    simp only [strsKvs, List.mem_append, List.mem_cons, exists_eq_or_imp]
    rw [mem_strsKvs (l := r)]
    constructor
    · rintro (h | h | h)
      · exact Or.inl (Or.inl h)
      · exact Or.inl (Or.inr h)
      · exact Or.inr h
    · rintro ((h | h) | h)
      · exact Or.inl h
      · exact Or.inr (Or.inl h)
      · exact Or.inr (Or.inr h)

theorem insertKv_mem {k : Bytes} {v : JVal} : ∀ {kvs kvs' : List (Bytes × JVal)},
    insertKv k v kvs = some kvs' → ∀ p, p ∈ kvs' ↔ (p = (k, v) ∨ p ∈ kvs)
  | [], kvs', h, p => by simp [insertKv] at h; subst h; simp
  | (k', v') :: r, kvs', h, p => by
    unfold insertKv at h
    by_cases h1 : Usual.C03.keyLt k k' = true
    · rw [if_pos h1] at h; cases h; simp
    rw [if_neg h1] at h
    by_cases h2 : (k == k') = true
    · rw [if_pos h2] at h; cases h
    rw [if_neg h2] at h
    cases hi : insertKv k v r with
    | none => simp [hi] at h
    | some r' =>
      simp only [hi] at h; cases h
      have ih := insertKv_mem hi p
      simp only [List.mem_cons, ih]
      constructor
      · rintro (h | h | h)
        · exact Or.inr (Or.inl h)
        · exact Or.inl h
        · exact Or.inr (Or.inr h)
      · rintro (h | h | h)
        · exact Or.inr (Or.inl h)
        · exact Or.inl h
        · exact Or.inr (Or.inr h)

section good
variable (P : Bytes → Prop)

def GoodVal (v : JVal) : Prop := ∀ s ∈ strs v, P s

def GoodFrame : Frame → Prop
  | .list es => ∀ v ∈ es, GoodVal P v
  | .dict kvs cur => (∀ p ∈ kvs, P p.1 ∧ GoodVal P p.2) ∧ (∀ v, cur = some v → GoodVal P v)

def GoodSt (st : St) : Prop := (∀ f ∈ st.stack, GoodFrame P f) ∧ (∀ v, st.top = some v → GoodVal P v)

theorem GoodSt_init : GoodSt P St.init :=
  ⟨(by intro f hf; simp [St.init] at hf), (by intro v hv; simp [St.init] at hv)⟩

theorem GoodFrame_value {f : Frame} (h : GoodFrame P f) : GoodVal P f.value := by
  cases f with
  | list es =>
    intro s hs
    simp only [Frame.value, strs] at hs
    obtain ⟨v, hv, hsv⟩ := mem_strsList.mp hs
    exact h v (List.mem_reverse.mp hv) s hsv
  | dict kvs cur =>
    intro s hs
    simp only [Frame.value, strs] at hs
    obtain ⟨p, hp, hsp⟩ := mem_strsKvs.mp hs
    rcases hsp with rfl | hsp
    · exact (h.1 p hp).1
    · exact (h.1 p hp).2 s hsp

theorem attach_good {st st' : St} {v : JVal} (hg : GoodSt P st) (hv : GoodVal P v)
    (h : attach st v = .ok st') : GoodSt P st' := by
  unfold attach at h
  match hst : st.stack, h with
  | .dict kvs cur :: fs, h =>
    simp only at h
    have hf := hg.1 (.dict kvs cur) (by rw [hst]; simp)
    have hfs : ∀ f ∈ fs, GoodFrame P f := fun f hf => hg.1 f (by rw [hst]; simp [hf])
    cases cur with
    | some k =>
      simp only at h; cases h
      refine ⟨?_, hg.2⟩
      intro f hf'
      simp only [List.mem_cons] at hf'
      rcases hf' with rfl | hf'
      · refine ⟨?_, by intro x hx; cases hx⟩
        cases k with
        | str ks =>
          simp only
          cases hi : insertKv ks v kvs with
          | none => simpa using hf.1
          | some kvs' =>
            simp only [Option.getD_some]
            intro p hp
            rcases (insertKv_mem hi p).mp hp with rfl | hp
            · refine ⟨?_, hv⟩
              have := hf.2 (.str ks) rfl
              exact this ks (by simp [strs])
            · exact hf.1 p hp
        | _ => simpa using hf.1
      · exact hfs f hf'
    | none =>
      simp only at h; cases h
      refine ⟨?_, hg.2⟩
      intro f hf'
      simp only [List.mem_cons] at hf'
      rcases hf' with rfl | hf'
      · exact ⟨hf.1, by intro x hx; cases hx; exact hv⟩
      · exact hfs f hf'
  | .list es :: fs, h =>
    simp only at h; cases h
    have hf := hg.1 (.list es) (by rw [hst]; simp)
    have hfs : ∀ f ∈ fs, GoodFrame P f := fun f hf => hg.1 f (by rw [hst]; simp [hf])
    refine ⟨?_, hg.2⟩
    intro f hf'
    simp only [List.mem_cons] at hf'
    rcases hf' with rfl | hf'
    · intro x hx
      simp only [List.mem_cons] at hx
      rcases hx with rfl | hx
      · exact hv
      · exact hf x hx
    · exact hfs f hf'
  | [], h =>
    simp only at h
    split at h
    · cases h
    · cases h
      refine ⟨(by intro f hf; simp at hf), ?_⟩
      intro x hx; cases hx; exact hv

theorem closeC_good {st st' : St} (hg : GoodSt P st) (h : closeC st = .ok st') : GoodSt P st' := by
  unfold closeC at h
  split at h
  · cases h
  · split at h
    · cases h
    · rename_i f fs hst
      refine attach_good P (st := { state := _, stack := fs, top := st.top }) ⟨?_, hg.2⟩ ?_ h
      · intro g hgm; exact hg.1 g (by rw [hst]; simp [hgm])
      · exact GoodFrame_value P (hg.1 f (by rw [hst]; simp))

theorem openC_good {st st' : St} {f : Frame} (hg : GoodSt P st) (hf : GoodFrame P f)
    (h : openC st f = .ok st') : GoodSt P st' := by
  unfold openC at h
  split at h
  · cases h
  · cases h
    refine ⟨?_, hg.2⟩
    intro g hgm
    simp only [List.mem_cons] at hgm
    rcases hgm with rfl | hgm
    · exact hf
    · exact hg.1 g hgm

theorem GoodSt_state {st : St} (hg : GoodSt P st) (n : Nat) : GoodSt P { st with state := n } := hg

theorem GoodVal_scalar {v : JVal} (h : strs v = []) : GoodVal P v := by
  intro s hs; rw [h] at hs; cases hs

/-- one iteration keeps the invariant, provided the strings `parse_string` produces satisfy `P` -/
theorem step_good {sd : Bytes → UInt64 × Nat} {o : Opts} {st : St} {c : UInt8} {src : Bytes}
    {st' : St} {rest : Bytes} (hg : GoodSt P st)
    (hstr : ∀ body esc r s, scanBody o src = .ok (body, esc, r) → unescape body esc = .ok s → P s)
    (h : step sd o st c src = .next st' rest) : GoodSt P st' := by
  unfold step at h
  cases hc : classify c <;> simp only [hc] at h
  · cases h; exact hg
  · obtain ⟨_, body, esc, s, hb, hu, ha⟩ := stepString_next h
    refine attach_good P (GoodSt_state P hg _) ?_ ha
    intro x hx; simp only [strs, List.mem_singleton] at hx; subst hx
    exact hstr body esc rest x hb hu
  · obtain ⟨_, _, ha⟩ := stepLit_next h
    exact attach_good P (GoodSt_state P hg _) (GoodVal_scalar P rfl) ha
  · obtain ⟨_, _, ha⟩ := stepLit_next h
    exact attach_good P (GoodSt_state P hg _) (GoodVal_scalar P rfl) ha
  · obtain ⟨_, _, ha⟩ := stepLit_next h
    exact attach_good P (GoodSt_state P hg _) (GoodVal_scalar P rfl) ha
  · obtain ⟨_, v, hp, ha⟩ := stepNumber_next h
    refine attach_good P (GoodSt_state P hg _) ?_ ha
    have := (parseNumber_rest hp).2
    unfold convNumber at this
    split at this
    · cases this
    · split at this
      · split at this
        · cases this
        · cases this; exact GoodVal_scalar P rfl
      · split at this
        · cases this
        · split at this
          · cases this; exact GoodVal_scalar P rfl
          · split at this
            · cases this
            · cases this; exact GoodVal_scalar P rfl
  · obtain ⟨_, _, ho⟩ := stepOpen_next h
    exact openC_good P (GoodSt_state P hg _) (by unfold GoodFrame; intro v hv; cases hv) ho
  · obtain ⟨_, _, ho⟩ := stepOpen_next h
    exact openC_good P (GoodSt_state P hg _)
      (by unfold GoodFrame; exact ⟨(by intro p hp; cases hp), (by intro v hv; cases hv)⟩) ho
  · obtain ⟨_, _, ho⟩ := stepClose_next h; exact closeC_good P (GoodSt_state P hg _) ho
  · obtain ⟨_, _, ho⟩ := stepClose_next h; exact closeC_good P (GoodSt_state P hg _) ho
  · obtain ⟨_, _, ho⟩ := stepColon_next h
    have := addKey_ok ho; subst this; exact GoodSt_state P hg _
  · rcases stepComma_next h with ⟨_, _, rfl, _⟩ | ⟨_, rfl, _⟩
    · exact hg
    · exact GoodSt_state P hg _
  · obtain ⟨_, rfl, _⟩ := stepSlash_next h; exact hg
  · cases h

theorem run_good (sd : Bytes → UInt64 × Nat) (o : Opts)
    (hstr : ∀ src body esc r s, scanBody o src = .ok (body, esc, r) → unescape body esc = .ok s → P s) :
    ∀ (n : Nat) (st : St) (inp : Bytes) (v : JVal), inp.length ≤ n → GoodSt P st →
      run sd o st inp = .ok v → GoodVal P v
  | _, st, [], v, _, hg, h => by
    rw [run_nil] at h
    split at h
    · cases h
    · split at h
      · rename_i w hw; cases h; exact hg.2 _ hw
      · cases h
  | 0, _, _ :: _, _, hl, _, _ => by simp at hl
  | n + 1, st, c :: src, v, hl, hg, h => by
    rw [run_cons] at h
    cases hs : step sd o st c src with
    | err e => simp [hs] at h
    | next st' rest =>
      simp only [hs] at h
      have := step_length hs
      simp at hl
      exact run_good sd o hstr n st' rest v (by omega) (step_good P hg (hstr src) hs) h

end good

/-- the strings of a tree accepted without `JSON_PARSE_IGNORE_ENCODING` are well-formed UTF-8 -/
theorem parse_strings_wfs (sd : Bytes → UInt64 × Nat) (o : Opts) (doc : Bytes) (v : JVal)
    (hi : o.ignoreEnc = false) (h : parse sd o doc = .ok v) : ∀ s ∈ strs v, WFS s := by
  refine run_good WFS sd o ?_ doc.length St.init doc v (Nat.le_refl _) (GoodSt_init WFS) h
  intro src body esc r s hb hu
  exact unescape_wfs hu ((scanBody_spec hb).2.1 hi)

end Usual.C02
