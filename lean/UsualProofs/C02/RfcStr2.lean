import UsualProofs.C02.RfcStr
/-!
# C02 — acceptance, part 4: `strBody` / `string` of the reference vs `parse_string`
-/
namespace Usual.C02
open Usual.C03 (JVal insertKv)
open Usual.C11 UsualProofs.C11

theorem strChar_sim (chk : Bool) {b : UInt8} {r0 bs r' : Bytes}
    (h : Usual.C03.Rfc.strChar (b :: r0) = some (bs, r')) (h0 : (0 : UInt8) ∉ bs) :
    CharSim chk (b :: r0) bs r' := by
  unfold Usual.C03.Rfc.strChar at h
  dsimp only at h
  by_cases hb : (b == 0x5C) = true
  · -- escape
    rw [if_pos hb] at h
    have hb' : b = 0x5C := by simpa using hb
    subst hb'
    match r0, h with
    | [], h => simp [Usual.C03.Rfc.escape] at h
    | e :: r1, h =>
      by_cases hu : e = 0x75
      · subst hu
        have : Usual.C03.Rfc.uEscape r1 = some (bs, r') := by
          unfold Usual.C03.Rfc.escape at h
          dsimp only at h
          rw [if_neg (by decide), if_neg (by decide), if_neg (by decide), if_neg (by decide),
            if_neg (by decide), if_neg (by decide), if_neg (by decide), if_neg (by decide),
            if_pos (by decide)] at h
          exact h
        exact uEscape_sim chk this h0
      · obtain ⟨x, hs, rfl, rfl⟩ := simple_table e bs r1 r' h hu
        refine ⟨[0x5C, e], rfl, by simp, by simp, ?_, ?_⟩
        · intro n f
          show scanS chk (0x5C :: e :: r') n f = _
          rw [simpleEscape_scan chk hs]
          have : decide ((0x5C : UInt8) ∈ [0x5C, e]) = true := decide_eq_true List.mem_cons_self
          rw [this, Bool.or_true]; rfl
        · intro total acc rest _
          show peS total (0x5C :: e :: rest) acc = _
          rw [peS_simple total hs]; rfl
  · rw [if_neg hb] at h
    have hb' : b ≠ 0x5C := by simpa using hb
    by_cases hq : (b == 0x22 || decide (b < 0x20)) = true
    · rw [if_pos hq] at h; cases h
    rw [if_neg hq] at h
    have hq' : b ≠ 0x22 ∧ ¬ (b < 0x20) := by simpa using hq
    cases hl : Usual.C03.Rfc.utf8Len (b :: r0) with
    | none => simp [hl] at h
    | some n =>
      simp only [hl, Option.some.injEq, Prod.mk.injEq] at h
      obtain ⟨rfl, rfl⟩ := h
      by_cases hasc : b.toNat < 128
      · -- ASCII
        have hn : n = 1 := by
          unfold Usual.C03.Rfc.utf8Len at hl
          dsimp only at hl
          rw [if_pos (by simp only [u8le, UInt8.reduceToNat]; omega)] at hl
          cases hl; rfl
        subst hn
        have hb20 : 32 ≤ b.toNat := by
          have := hq'.2
          simp only [UInt8.lt_iff_toNat_lt, UInt8.reduceToNat] at this
          omega
        have hex : examine b = false := by
          cases hx : examine b with
          | false => rfl
          | true =>
            rcases (examine_spec b).mp hx with e | e | e | e | e
            · exact absurd e hq'.1
            · exact absurd e hb'
            · rw [e] at hb20; simp at hb20
            · rw [e] at hb20; simp at hb20
            · omega
        refine ⟨[b], by simp, by simp, by simp, ?_, ?_⟩
        · intro k f
          show scanS chk (b :: List.drop 1 (b :: r0)) k f = _
          rw [scanS_plain chk hex]
          have : decide ((0x5C : UInt8) ∈ [b]) = false := by
            simp only [List.mem_singleton, decide_eq_false_iff_not]; exact fun e => hb' e.symm
          rw [this, Bool.or_false]; rfl
        · intro total acc rest _
          show peS total (b :: rest) acc = _
          rw [peS_plain total hb']; rfl
      · -- multi-byte
        have hb80 : 128 ≤ b.toNat := by omega
        obtain ⟨hv, n2, n4, nl⟩ := utf8Len_vseq hb80 hl
        have hk0 : vseq (b :: r0) ≠ 0 := by omega
        obtain ⟨_, _, kwf, k0⟩ := vseq_spec (s := b :: r0) (by simp) rfl hk0
        rw [hv] at kwf k0
        have hnm := chunk_no_meta hb80 (by omega) kwf
        refine ⟨(b :: r0).take n, (List.take_append_drop _ _).symm, by simp, by
          rw [List.length_take]; omega, ?_, ?_⟩
        · intro k f
          rw [List.take_append_drop, scanS_utf8 chk hb80 r0 hv (by omega)]
          have : decide ((0x5C : UInt8) ∈ (b :: r0).take n) = false := by
            simp only [decide_eq_false_iff_not]; exact fun hm => (hnm _ hm).2 rfl
          rw [this, Bool.or_false, List.length_take, Nat.min_eq_left nl]
        · intro total acc rest _
          exact peS_plains total _ rest acc (fun hm => (hnm _ hm).2 rfl)

/-- the body of an RFC 8259 string: `scan_string` finds its end, `process_escapes` produces its
value (when no U+0000 is denoted) -/
theorem strBody_sim (chk : Bool) : ∀ (fuel : Nat) (inp s r : Bytes),
    Usual.C03.Rfc.strBody fuel inp = some (s, r) → (0 : UInt8) ∉ s →
    ∃ body, inp = body ++ 0x22 :: r ∧ s.length ≤ body.length ∧
      (∀ n e, scanS chk inp n e = .ok (n + body.length, e || decide (0x5C ∈ body))) ∧
      (∀ total acc, acc.length + body.length ≤ total → peS total body acc = .ok (acc.reverse ++ s))
  | 0, _, _, _, h, _ => by simp [Usual.C03.Rfc.strBody] at h
  | _ + 1, [], _, _, h, _ => by simp [Usual.C03.Rfc.strBody] at h
  | fuel + 1, b :: r0, s, r, h, h0 => by
    unfold Usual.C03.Rfc.strBody at h
    by_cases hq : (b == 0x22) = true
    · rw [if_pos hq] at h
      have : b = 0x22 := by simpa using hq
      subst this
      simp only [Option.some.injEq, Prod.mk.injEq] at h
      obtain ⟨rfl, rfl⟩ := h
      refine ⟨[], rfl, by simp, ?_, ?_⟩
      · intro n e; rw [scanS_quote]; simp
      · intro total acc _; rw [peS_nil]; simp
    · rw [if_neg hq] at h
      cases hc : Usual.C03.Rfc.strChar (b :: r0) with
      | none => simp [hc] at h
      | some p1 =>
        obtain ⟨bs, r'⟩ := p1
        simp only [hc] at h
        cases hb : Usual.C03.Rfc.strBody fuel r' with
        | none => simp [hb] at h
        | some p2 =>
          obtain ⟨s', r''⟩ := p2
          simp only [hb, Option.some.injEq, Prod.mk.injEq] at h
          obtain ⟨rfl, rfl⟩ := h
          have h0a : (0 : UInt8) ∉ bs := fun hm => h0 (by simp [hm])
          have h0b : (0 : UInt8) ∉ s' := fun hm => h0 (by simp [hm])
          obtain ⟨body', e1, l1, sc1, pe1⟩ := strBody_sim chk fuel r' s' r'' hb h0b
          obtain ⟨p, e2, l2, _, sc2, pe2⟩ := strChar_sim chk hc h0a
          refine ⟨p ++ body', by rw [e2, e1, List.append_assoc], by
            simp only [List.length_append]; omega, ?_, ?_⟩
          · intro n e
            rw [e2, sc2, sc1]
            simp only [List.length_append, List.mem_append, Bool.decide_or, Bool.or_assoc]
            congr 2; omega
          · intro total acc hl
            simp only [List.length_append] at hl
            rw [pe2 total acc body' (by omega), pe1 total _ (by simp; omega)]
            simp

/-- an RFC 8259 string token (after the opening quote), no U+0000 denoted: `parse_string`
succeeds with the same value and the same rest, in both encoding modes -/
theorem string_sim (o : Opts) {inp s r : Bytes} (h : Usual.C03.Rfc.string inp = some (s, r))
    (h0 : (0 : UInt8) ∉ s) :
    ∃ body esc, scanBody o inp = .ok (body, esc, r) ∧ unescape body esc = .ok s := by
  unfold Usual.C03.Rfc.string at h
  obtain ⟨body, e1, _, sc, pe⟩ := strBody_sim (!o.ignoreEnc) _ inp s r h h0
  have hs := sc 0 false
  unfold scanS at hs
  have e2 : inp.take body.length = body := by rw [e1, List.take_left']; rfl
  have e3 : inp.drop (body.length + 1) = r := by
    rw [e1]
    have : body ++ 0x22 :: r = (body ++ [0x22]) ++ r := by simp
    rw [this, List.drop_left']; simp
  refine ⟨body, decide (0x5C ∈ body), ?_, ?_⟩
  · unfold scanBody
    rw [hs]
    simp only [Nat.zero_add, Bool.false_or, e2, e3]
  · unfold unescape
    have hp := pe body.length [] (by simp)
    unfold peS at hp
    by_cases hbs : (0x5C : UInt8) ∈ body
    · rw [if_pos (by simpa using hbs), hp]; simp
    · rw [if_neg (by simpa using hbs)]
      have := peS_plains body.length body [] [] hbs
      rw [List.append_nil] at this
      unfold peS at this
      rw [hp] at this
      simp [processEscapes] at this
      rw [this]

end Usual.C02
