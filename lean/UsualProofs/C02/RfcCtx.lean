import UsualProofs.C02.RfcNum
import UsualProofs.C02.Relaxed
import UsualProofs.C02.Dict
/-!
# C02 — acceptance, part 6: parser states that expect a value, and the single-token steps
-/
namespace Usual.C02
open Usual.C03 (JVal insertKv)
open Usual.Gen.C02Tables

/-- the property's preconditions on a value tree that `Rfc.parse` does not already enforce: no
string or object name contains a NUL byte (no U+0000) and no object name is longer than
`JSON_MAX_KEY` -/
def okP (okV : JVal → Prop) (p : Bytes × JVal) : Prop :=
  (0 : UInt8) ∉ p.1 ∧ p.1.length ≤ JSON_MAX_KEY ∧ okV p.2

mutual
def okV : JVal → Prop
  | .str s => (0 : UInt8) ∉ s
  | .list l => okL l
  | .dict kvs => okM kvs
  | .null => True
  | .bool _ => True
  | .int _ => True
  | .float _ => True
def okL : List JVal → Prop
  | [] => True
  | v :: vs => okV v ∧ okL vs
def okM : List (Bytes × JVal) → Prop
  | [] => True
  | (k, v) :: r => ((0 : UInt8) ∉ k ∧ k.length ≤ JSON_MAX_KEY ∧ okV v) ∧ okM r
end

theorem okM_iff : ∀ (l : List (Bytes × JVal)), okM l ↔ ∀ p ∈ l, okP okV p
  | [] => by simp [okM]
  | (k, v) :: r => by
    rw [okM, okM_iff r]
    simp only [List.mem_cons, forall_eq_or_imp, okP]

/-- the state after a complete value, given the open containers below it -/
def done (stack : List Frame) (top : Option JVal) (v : JVal) : St :=
  match stack with
  | [] => ⟨S_DONE, [], some v⟩
  | .list es :: fs => ⟨S_LIST_COMMA_OR_CLOSE, .list (v :: es) :: fs, top⟩
  | .dict kvs cur :: fs =>
    ⟨S_DICT_COMMA_OR_CLOSE,
     .dict (match cur with | some (.str k) => (insertKv k v kvs).getD kvs | _ => kvs) none :: fs, top⟩

/-- the innermost open container (or the top level) is waiting for a value -/
def ParentOK (fs : List Frame) (top : Option JVal) : Prop :=
  match fs with
  | [] => top = none
  | .list _ :: _ => True
  | .dict _ cur :: _ => ∃ k, cur = some (.str k)

def ValState (s : Nat) (fs : List Frame) : Prop :=
  match fs with
  | [] => s = S_INITIAL_VALUE
  | .list _ :: _ => s = S_LIST_VALUE ∨ s = S_LIST_VALUE_OR_CLOSE
  | .dict _ _ :: _ => s = S_DICT_VALUE

structure ValCtx (st : St) : Prop where
  parent : ParentOK st.stack st.top
  state : ValState st.state st.stack

theorem attach_done (s : Nat) (fs : List Frame) (top : Option JVal) (v : JVal) (hp : ParentOK fs top)
    (hs : s = (done fs top v).state) : attach ⟨s, fs, top⟩ v = .ok (done fs top v) := by
  unfold attach
  match fs, hp, hs with
  | [], hp, hs =>
    simp only [ParentOK] at hp
    simp only [hp, Option.isSome_none, Bool.false_eq_true, if_false]
    rw [hs]; rfl
  | .list es :: fs', _, hs => simp only; rw [hs]; rfl
  | .dict kvs cur :: fs', hp, hs =>
    obtain ⟨k, rfl⟩ := hp
    simp only
    rw [hs]; rfl

/-- a scalar token in a value position -/
theorem scalar_attach {st : St} (hc : ValCtx st) (tok : Nat) (ht : tok = T_STRING ∨ tok = T_OTHER) (v : JVal) :
    STEP st.state tok ≠ 0 ∧
    attach { st with state := STEP st.state tok } v = .ok (done st.stack st.top v) := by
  obtain ⟨hp, hs⟩ := hc
  have key : STEP st.state tok = (done st.stack st.top v).state ∧ STEP st.state tok ≠ 0 := by
    match hst : st.stack, hs with
    | [], hs =>
      simp only [ValState] at hs
      rw [hs]; rcases ht with rfl | rfl <;> exact ⟨rfl, by decide⟩
    | .list es :: fs', hs =>
      simp only [ValState] at hs
      rcases hs with hs | hs <;> rw [hs] <;> rcases ht with rfl | rfl <;> exact ⟨rfl, by decide⟩
    | .dict kvs cur :: fs', hs =>
      simp only [ValState] at hs
      rw [hs]; rcases ht with rfl | rfl <;> exact ⟨rfl, by decide⟩
  exact ⟨key.2, attach_done _ _ _ _ hp key.1⟩

theorem valueStep_done {st : St} (hc : ValCtx st) (tok : Nat) (ht : tok = T_STRING ∨ tok = T_OTHER)
    (v : JVal) (rest : Bytes) :
    valueStep { st with state := STEP st.state tok } v rest = .next (done st.stack st.top v) rest := by
  unfold valueStep
  rw [(scalar_attach hc tok ht v).2]

theorem attachErr_false {st : St} (hc : ValCtx st) (s : Nat) : attachErr { st with state := s } = false := by
  unfold attachErr
  obtain ⟨hp, _⟩ := hc
  match hst : st.stack, hp with
  | [], hp => simp only [ParentOK] at hp; simp [hst, hp]
  | .list _ :: _, _ => simp [hst]
  | .dict _ _ :: _, _ => simp [hst]

/-- `[` / `{` in a value position -/
theorem open_step {st : St} (hc : ValCtx st) (src : Bytes) :
    stepOpen st T_OPEN_LIST (.list []) src = .next ⟨S_LIST_VALUE_OR_CLOSE, .list [] :: st.stack, st.top⟩ src ∧
    stepOpen st T_OPEN_DICT (.dict [] none) src = .next ⟨S_DICT_KEY_OR_CLOSE, .dict [] none :: st.stack, st.top⟩ src := by
  have key : STEP st.state T_OPEN_LIST = S_LIST_VALUE_OR_CLOSE ∧ STEP st.state T_OPEN_DICT = S_DICT_KEY_OR_CLOSE := by
    obtain ⟨_, hs⟩ := hc
    match hst : st.stack, hs with
    | [], hs => simp only [ValState] at hs; rw [hs]; exact ⟨by decide, by decide⟩
    | .list es :: fs', hs =>
      simp only [ValState] at hs
      rcases hs with hs | hs <;> rw [hs] <;> exact ⟨by decide, by decide⟩
    | .dict kvs cur :: fs', hs => simp only [ValState] at hs; rw [hs]; exact ⟨by decide, by decide⟩
  constructor
  · unfold stepOpen
    rw [withTok_pos (by rw [key.1]; decide)]
    unfold openC
    rw [attachErr_false hc, key.1]
    rfl
  · unfold stepOpen
    rw [withTok_pos (by rw [key.2]; decide)]
    unfold openC
    rw [attachErr_false hc, key.2]
    rfl

/-- a closer that the table maps to `S_PARENT`: the container becomes a value of its parent -/
theorem close_step (s : Nat) (f : Frame) (fs : List Frame) (top : Option JVal) (tok : Nat) (src : Bytes)
    (hp : ParentOK fs top) (hs : STEP s tok = S_PARENT) :
    stepClose ⟨s, f :: fs, top⟩ tok src = .next (done fs top f.value) src := by
  unfold stepClose
  rw [withTok_pos (by rw [hs]; decide)]
  simp only [hs]
  have hcl : closeC ⟨S_PARENT, f :: fs, top⟩ = .ok (done fs top f.value) := by
    unfold closeC
    simp only [bne_self_eq_false, Bool.false_eq_true, if_false]
    match fs, hp with
    | [], hp => exact attach_done _ [] top _ hp rfl
    | .list es :: fs', hp => exact attach_done _ (.list es :: fs') top _ hp rfl
    | .dict kvs cur :: fs', hp => exact attach_done _ (.dict kvs cur :: fs') top _ hp rfl
  rw [hcl]

/-! ## white space of the reference -/

theorem rfc_isWs_isWsByte {b : UInt8} (h : Usual.C03.Rfc.isWs b = true) : isWsByte b = true ∧ isSpace b = true := by
  unfold Usual.C03.Rfc.isWs at h
  simp only [Bool.or_eq_true, beq_iff_eq] at h
  rcases h with ((h | h) | h) | h <;> (subst h; exact ⟨by decide, by decide⟩)

theorem run_skipWs (sd : Bytes → UInt64 × Nat) (o : Opts) (st : St) : ∀ (r : Bytes),
    run sd o st (Usual.C03.Rfc.skipWs r) = run sd o st r
  | [] => rfl
  | b :: r => by
    unfold Usual.C03.Rfc.skipWs
    by_cases hb : Usual.C03.Rfc.isWs b = true
    · rw [if_pos hb, run_skipWs sd o st r, run_ws_byte sd o st b r (rfc_isWs_isWsByte hb).1, run_dropSpaces]
    · rw [if_neg hb]

theorem dropSpace_skipWs : ∀ (src : Bytes),
    (∀ x t, Usual.C03.Rfc.skipWs src = x :: t → isSpace x = false) →
    src.dropWhile isSpace = Usual.C03.Rfc.skipWs src
  | [], _ => rfl
  | b :: r, h => by
    unfold Usual.C03.Rfc.skipWs at h ⊢
    by_cases hb : Usual.C03.Rfc.isWs b = true
    · rw [if_pos hb] at h ⊢
      rw [List.dropWhile_cons_of_pos (rfc_isWs_isWsByte hb).2]
      exact dropSpace_skipWs r h
    · rw [if_neg hb] at h ⊢
      have := h b r rfl
      rw [List.dropWhile_cons_of_neg (by simp [this])]

/-- a comma that is followed (after white space) by the start of a value or of a name: it is a
separator in both modes -/
theorem run_comma_sep (sd : Bytes → UInt64 × Nat) (o : Opts) (st : St) (src : Bytes) (x : UInt8) (t : Bytes)
    (hx : Usual.C03.Rfc.skipWs src = x :: t) (hsp : isSpace x = false) (hc1 : x ≠ 0x7D) (hc2 : x ≠ 0x5D)
    (hz : STEP st.state T_COMMA ≠ 0) :
    run sd o st (0x2C :: src) = run sd o { st with state := STEP st.state T_COMMA } src := by
  have hdrop : src.dropWhile isSpace = x :: t := by
    rw [dropSpace_skipWs src (by intro y u e; rw [hx] at e; cases e; exact hsp), hx]
  have hskip : (skipExtraComma src st.state).2 = false := by
    unfold skipExtraComma
    simp only [hdrop]
    rw [if_neg (by simpa using hc1), if_neg (by simpa using hc2)]
  rw [run_cons]
  have hcl : classify 0x2C = .comma := by decide
  unfold step; rw [hcl]
  simp only [stepComma, hskip, Bool.and_false, Bool.false_eq_true, if_false]
  rw [withTok_pos hz]
  simp only
  cases hr : o.relaxed with
  | false => simp only [Bool.false_eq_true, if_false]
  | true =>
    simp only [if_true]
    rw [skipExtraComma_fst, run_dropSpace]

end Usual.C02
