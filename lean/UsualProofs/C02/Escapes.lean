import UsualProofs.C02.Utf8Doc
/-!
# C02 — invalid escapes and unpaired surrogates are rejected
-/
namespace Usual.C02
open Usual.C03 (JVal insertKv)
open Usual.Gen.C02Tables

/-- a string body (prefix) made of complete, valid items only: bytes other than `\`, the eight
one-letter escapes, `\uXXXX` for a non-zero non-surrogate value, `\uHHHH\uLLLL` for a surrogate
pair (`parseHex` = value of four hex digits) -/
inductive WellEscaped : Bytes → Prop
  | nil : WellEscaped []
  | plain (c : UInt8) (r : Bytes) : c ≠ 0x5C → WellEscaped r → WellEscaped (c :: r)
  | simple (e b : UInt8) (r : Bytes) : simpleEscape e = some b → WellEscaped r → WellEscaped (0x5C :: e :: r)
  | uni (h r : Bytes) (v : Nat) : h.length = 4 → parseHex h = some v → v ≠ 0 → (v < 0xD800 ∨ 0xDFFF < v) →
      WellEscaped r → WellEscaped (0x5C :: 0x75 :: (h ++ r))
  | pair (h l r : Bytes) (v w : Nat) : h.length = 4 → l.length = 4 → parseHex h = some v → parseHex l = some w →
      (0xD800 ≤ v ∧ v ≤ 0xDBFF) → (0xDC00 ≤ w ∧ w ≤ 0xDFFF) → WellEscaped r →
      WellEscaped (0x5C :: 0x75 :: (h ++ 0x5C :: 0x75 :: (l ++ r)))

theorem parseHex_append {h : Bytes} (hl : h.length = 4) (r : Bytes) : parseHex (h ++ r) = parseHex h := by
  match h, hl with
  | [a, b, c, d], _ => rfl

theorem drop4_append {h : Bytes} (hl : h.length = 4) (r : Bytes) : (h ++ r).drop 4 = r := by
  rw [← hl, List.drop_left]

theorem pe_plain (total f : Nat) {c : UInt8} (hc : c ≠ 0x5C) (rest acc : Bytes) :
    processEscapes total (f + 1) (c :: rest) acc = processEscapes total f rest (c :: acc) := by
  rw [processEscapes.eq_def]
  simp only
  rw [if_pos (by simpa using hc)]

theorem pe_simple (total f : Nat) {e b : UInt8} (hs : simpleEscape e = some b) (rest acc : Bytes) :
    processEscapes total (f + 1) (0x5C :: e :: rest) acc = processEscapes total f rest (b :: acc) := by
  rw [processEscapes.eq_def]
  simp only
  rw [if_neg (by decide)]
  simp only [hs]

theorem pe_u (total f : Nat) (rest acc : Bytes) :
    processEscapes total (f + 1) (0x5C :: 0x75 :: rest) acc =
      match parseUescape (total - acc.length) rest with
      | .error er => .error er
      | .ok (bs, r) => processEscapes total f r (bs.reverse ++ acc) := by
  rw [processEscapes.eq_def]
  simp only
  rw [if_neg (by decide)]
  have hse : simpleEscape 0x75 = none := by decide
  simp only [hse]
  rw [if_pos (by decide)]
  cases parseUescape (total - acc.length) rest with
  | error er => rfl
  | ok p => rfl

theorem pe_bad (total f : Nat) {e : UInt8} (hs : simpleEscape e = none) (he : e ≠ 0x75) (rest acc : Bytes) :
    processEscapes total (f + 1) (0x5C :: e :: rest) acc = .error .invalidEscapeCode := by
  rw [processEscapes.eq_def]
  simp only
  rw [if_neg (by decide)]
  simp only [hs]
  rw [if_neg (by simpa using he)]

/-- processing a well-escaped prefix either fails (no room — never the case in `parse_string`) or
arrives at what follows it -/
theorem processEscapes_prefix (total : Nat) {pre : Bytes} (hw : WellEscaped pre) :
    ∀ (s acc : Bytes) (f : Nat), (pre ++ s).length < f →
      (∃ e, processEscapes total f (pre ++ s) acc = .error e) ∨
      (∃ acc' f', s.length < f' ∧ processEscapes total f (pre ++ s) acc = processEscapes total f' s acc') := by
  induction hw with
  | nil => intro s acc f hf; exact Or.inr ⟨acc, f, by simpa using hf, rfl⟩
  | plain c r hc _ ih =>
    intro s acc f hf
    cases f with
    | zero => omega
    | succ f =>
      rw [List.cons_append, pe_plain total f hc]
      exact ih s (c :: acc) f (by simp at hf ⊢; omega)
  | simple e b r hs _ ih =>
    intro s acc f hf
    cases f with
    | zero => omega
    | succ f =>
      rw [List.cons_append, List.cons_append, pe_simple total f hs]
      exact ih s (b :: acc) f (by simp at hf ⊢; omega)
  | uni h r v hl hp hv hns _ ih =>
    intro s acc f hf
    cases f with
    | zero => omega
    | succ f =>
      rw [List.cons_append, List.cons_append, List.append_assoc, pe_u]
      have hpu : parseUescape (total - acc.length) (h ++ (r ++ s)) =
          putEsc (total - acc.length) v (r ++ s) := by
        unfold parseUescape
        rw [parseHex_append hl, hp]
        simp only
        rw [if_neg (by simpa using hv)]
        rw [if_neg (by
          simp only [Bool.and_eq_true, decide_eq_true_eq]
          omega)]
        rw [drop4_append hl]
      rw [hpu]
      cases hpe : putEsc (total - acc.length) v (r ++ s) with
      | error er => exact Or.inl ⟨er, rfl⟩
      | ok p =>
        obtain ⟨bs, r'⟩ := p
        simp only
        have := putEsc_rest hpe
        subst this
        exact ih s (bs.reverse ++ acc) f (by simp at hf ⊢; omega)
  | pair h l r v w hl hl2 hp hp2 hv hw' _ ih =>
    intro s acc f hf
    cases f with
    | zero => omega
    | succ f =>
      rw [List.cons_append, List.cons_append, List.append_assoc, List.cons_append, List.cons_append,
        List.append_assoc, pe_u]
      have hpu : parseUescape (total - acc.length) (h ++ 0x5C :: 0x75 :: (l ++ (r ++ s))) =
          putEsc (total - acc.length) (0x10000 + (v % 1024) * 1024 + w % 1024) (r ++ s) := by
        unfold parseUescape
        rw [parseHex_append hl, hp]
        simp only
        rw [if_neg (by simp; omega)]
        rw [if_pos (by simp only [Bool.and_eq_true, decide_eq_true_eq]; omega)]
        rw [if_neg (by omega)]
        rw [drop4_append hl]
        simp only
        rw [if_neg (by decide)]
        rw [parseHex_append hl2, hp2]
        simp only
        rw [if_neg (by simp only [Bool.or_eq_true, decide_eq_true_eq]; omega)]
        rw [drop4_append hl2]
      rw [hpu]
      cases hpe : putEsc (total - acc.length) (0x10000 + (v % 1024) * 1024 + w % 1024) (r ++ s) with
      | error er => exact Or.inl ⟨er, rfl⟩
      | ok p =>
        obtain ⟨bs, r'⟩ := p
        simp only
        have := putEsc_rest hpe
        subst this
        exact ih s (bs.reverse ++ acc) f (by simp at hf ⊢; omega)

/-- an invalid escape: `\` followed by a byte that is none of `" \ / b f n r t u`, or `\u` not
followed by four hex digits -/
def BadEscape (s : Bytes) : Prop :=
  ∃ e post, s = 0x5C :: e :: post ∧ simpleEscape e = none ∧ (e ≠ 0x75 ∨ parseHex post = none)

/-- an unpaired surrogate: `\uDC00`…`\uDFFF` first, or `\uD800`…`\uDBFF` not followed by
`\uDC00`…`\uDFFF` -/
def LoneSurrogate (s : Bytes) : Prop :=
  ∃ post v, s = 0x5C :: 0x75 :: post ∧ parseHex post = some v ∧
    ((0xDC00 ≤ v ∧ v ≤ 0xDFFF) ∨
     (0xD800 ≤ v ∧ v ≤ 0xDBFF ∧
       ¬ ∃ r w, post.drop 4 = 0x5C :: 0x75 :: r ∧ parseHex r = some w ∧ 0xDC00 ≤ w ∧ w ≤ 0xDFFF))

theorem processEscapes_bad (total : Nat) {s : Bytes} (hb : BadEscape s) (acc : Bytes) (f : Nat)
    (hf : s.length < f) : ∃ e, processEscapes total f s acc = .error e := by
  obtain ⟨e, post, rfl, hse, hor⟩ := hb
  cases f with
  | zero => omega
  | succ f =>
    by_cases hu : e = 0x75
    · subst hu
      rcases hor with h | h
      · exact absurd rfl h
      · rw [pe_u]
        have : parseUescape (total - acc.length) post = .error .invalidHexEscape := by
          unfold parseUescape; rw [h]
        rw [this]; exact ⟨_, rfl⟩
    · rw [pe_bad total f hse hu]; exact ⟨_, rfl⟩

theorem parseUescape_lone (room : Nat) {post : Bytes} {v : Nat} (hp : parseHex post = some v)
    (h : (0xDC00 ≤ v ∧ v ≤ 0xDFFF) ∨
     (0xD800 ≤ v ∧ v ≤ 0xDBFF ∧
       ¬ ∃ r w, post.drop 4 = 0x5C :: 0x75 :: r ∧ parseHex r = some w ∧ 0xDC00 ≤ w ∧ w ≤ 0xDFFF)) :
    ∃ e, parseUescape room post = .error e := by
  unfold parseUescape
  rw [hp]
  simp only
  by_cases hz : (v == 0) = true
  · rw [if_pos hz]; exact ⟨_, rfl⟩
  rw [if_neg hz]
  rw [if_pos (by simp only [Bool.and_eq_true, decide_eq_true_eq]; omega)]
  rcases h with h | ⟨h1, h2, h3⟩
  · rw [if_pos (by omega)]; exact ⟨_, rfl⟩
  · rw [if_neg (by omega)]
    match hd : post.drop 4 with
    | [] => exact ⟨_, rfl⟩
    | [_] => exact ⟨_, rfl⟩
    | a :: b :: r =>
      simp only
      by_cases hab : (a != 0x5C || b != 0x75) = true
      · rw [if_pos hab]; exact ⟨_, rfl⟩
      rw [if_neg hab]
      have hab' : a = 0x5C ∧ b = 0x75 := by simpa using hab
      cases hp2 : parseHex r with
      | none => exact ⟨_, rfl⟩
      | some w =>
        simp only
        by_cases hw : (decide (w < 0xDC00) || decide (w > 0xDFFF)) = true
        · rw [if_pos hw]; exact ⟨_, rfl⟩
        · exfalso
          apply h3
          have : ¬ (w < 0xDC00) ∧ ¬ (w > 0xDFFF) := by simpa using hw
          exact ⟨r, w, by rw [hd, hab'.1, hab'.2], hp2, by omega, by omega⟩

theorem processEscapes_lone (total : Nat) {s : Bytes} (hb : LoneSurrogate s) (acc : Bytes) (f : Nat)
    (hf : s.length < f) : ∃ e, processEscapes total f s acc = .error e := by
  obtain ⟨post, v, rfl, hp, h⟩ := hb
  cases f with
  | zero => omega
  | succ f =>
    rw [pe_u]
    obtain ⟨e, he⟩ := parseUescape_lone (total - acc.length) hp h
    rw [he]; exact ⟨_, rfl⟩

/-- `process_escapes` fails on a body whose first defect is an invalid escape or an unpaired
surrogate -/
theorem unescape_rejects {pre bad : Bytes} (hw : WellEscaped pre) (hb : BadEscape bad ∨ LoneSurrogate bad) :
    ∃ e, unescape (pre ++ bad) true = .error e := by
  unfold unescape
  rw [if_pos rfl]
  rcases processEscapes_prefix (pre ++ bad).length hw bad [] ((pre ++ bad).length + 1) (by omega) with h | ⟨acc', f', hf', h⟩
  · exact h
  · rw [h]
    rcases hb with hb | hb
    · exact processEscapes_bad _ hb acc' f' hf'
    · exact processEscapes_lone _ hb acc' f' hf'

/-- the loop is at a string token whose body (between the quotes) has such a defect: error -/
theorem run_string_rejects (sd : Bytes → UInt64 × Nat) (o : Opts) (st : St) {pre bad rest : Bytes}
    (hsb : StrBody (pre ++ bad)) (hw : WellEscaped pre) (hb : BadEscape bad ∨ LoneSurrogate bad) :
    ∃ e, run sd o st (0x22 :: (pre ++ bad ++ 0x22 :: rest)) = .error e := by
  rw [run_cons]
  have hcl : classify 0x22 = .quote := by decide
  unfold step; rw [hcl]
  simp only
  cases hs : stepString o st (pre ++ bad ++ 0x22 :: rest) with
  | err e => exact ⟨e, rfl⟩
  | next st' r =>
    exfalso
    obtain ⟨_, body, esc, s, hscan, hun, _⟩ := stepString_next hs
    obtain ⟨hsplit, _, hesc, hsb'⟩ := scanBody_spec hscan
    obtain ⟨rfl, _⟩ := StrBody.unique hsb hsb' hsplit
    have hmem : (0x5C : UInt8) ∈ pre ++ bad := by
      rcases hb with ⟨e, post, rfl, _⟩ | ⟨post, v, rfl, _⟩ <;> simp
    have : esc = true := by rw [hesc]; simpa using hmem
    subst this
    obtain ⟨e, he⟩ := unescape_rejects hw hb
    rw [he] at hun; cases hun

end Usual.C02
