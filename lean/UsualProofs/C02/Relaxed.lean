import UsualProofs.C02.Utf8Doc
/-!
# C02 — relaxed mode: comments and a trailing comma do not change the value
-/
namespace Usual.C02
open Usual.C03 (JVal insertKv)
open Usual.Gen.C02Tables

def strictOf (ie : Bool) : Opts := ⟨false, ie⟩
def relaxedOf (ie : Bool) : Opts := ⟨true, ie⟩

/-! ## relaxed mode accepts whatever strict mode accepts, with the same value -/

theorem isSpace_isWsByte {b : UInt8} (h : isSpace b = true) : isWsByte b = true := by
  unfold isSpace at h
  simp only [Bool.or_eq_true, Bool.and_eq_true, decide_eq_true_eq, beq_iff_eq] at h
  rcases h with ⟨h1, h2⟩ | h
  · have a : (0x09 : UInt8).toNat = 9 := rfl
    have b' : (0x0D : UInt8).toNat = 13 := rfl
    have h1 := UInt8.le_iff_toNat_le.mp h1
    have h2 := UInt8.le_iff_toNat_le.mp h2
    have hcases : b.toNat = 9 ∨ b.toNat = 10 ∨ b.toNat = 11 ∨ b.toNat = 12 ∨ b.toNat = 13 := by omega
    have e : ∀ k : Nat, k < 256 → b.toNat = k → b = UInt8.ofNat k := by
      intro k hk hb; apply UInt8.toNat_inj.mp; rw [hb, UInt8.toNat_ofNat']; omega
    rcases hcases with h | h | h | h | h
    · rw [e 9 (by omega) h]; decide
    · rw [e 10 (by omega) h]; decide
    · rw [e 11 (by omega) h]; decide
    · rw [e 12 (by omega) h]; decide
    · rw [e 13 (by omega) h]; decide
  · subst h; decide

theorem run_dropSpace (sd : Bytes → UInt64 × Nat) (o : Opts) (st : St) (r : Bytes) :
    run sd o st (r.dropWhile isSpace) = run sd o st r := by
  have h := run_ws sd o st (r.takeWhile isSpace) (r.dropWhile isSpace)
    (fun b hb => isSpace_isWsByte (mem_takeWhile_imp hb))
  rw [List.takeWhile_append_dropWhile] at h
  exact h.symm

theorem skipExtraComma_fst (src : Bytes) (s : Nat) : (skipExtraComma src s).1 = src.dropWhile isSpace := rfl

/-- when `skip_extra_comma` says yes, the strict parser fails at this comma or at the closer -/
theorem strict_fails_at_extra_comma (sd : Bytes → UInt64 × Nat) (o : Opts) (st : St) (src : Bytes)
    (hr : o.relaxed = false) (hskip : (skipExtraComma src st.state).2 = true) :
    ∃ e, run sd o st (0x2C :: src) = .error e := by
  rw [run_comma_strict sd o st src hr]
  by_cases hz : STEP st.state T_COMMA = 0
  · rw [if_pos hz]; exact ⟨_, rfl⟩
  rw [if_neg hz]
  obtain ⟨_, b, c, _, _⟩ := STEP_after_comma st.state hz
  rw [← run_dropSpace]
  unfold skipExtraComma at hskip
  simp only at hskip
  cases hd : src.dropWhile isSpace with
  | nil => rw [hd] at hskip; simp at hskip
  | cons x t =>
    rw [hd] at hskip
    simp only at hskip
    by_cases h1 : (x == 0x7D) = true
    · have : x = 0x7D := by simpa using h1
      subst this
      exact ⟨_, run_close_zero sd o _ t _ (Or.inr rfl) b c⟩
    · rw [if_neg h1] at hskip
      by_cases h2 : (x == 0x5D) = true
      · have : x = 0x5D := by simpa using h2
        subst this
        exact ⟨_, run_close_zero sd o _ t _ (Or.inl rfl) b c⟩
      · rw [if_neg h2] at hskip; cases hskip

theorem step_same_of_not_comma_slash (sd : Bytes → UInt64 × Nat) (ie : Bool) (st : St) (c : UInt8) (src : Bytes)
    (h1 : classify c ≠ .comma) (h2 : classify c ≠ .slash) :
    step sd (relaxedOf ie) st c src = step sd (strictOf ie) st c src := by
  unfold step
  cases hc : classify c <;> simp only <;> first | rfl | exact absurd hc h1 | exact absurd hc h2

theorem relaxed_extends_strict_run (sd : Bytes → UInt64 × Nat) (ie : Bool) :
    ∀ (n : Nat) (st : St) (inp : Bytes) (v : JVal), inp.length ≤ n →
      run sd (strictOf ie) st inp = .ok v → run sd (relaxedOf ie) st inp = .ok v
  | _, st, [], v, _, h => by rw [run_nil] at h ⊢; exact h
  | 0, _, _ :: _, _, hl, _ => by simp at hl
  | n + 1, st, c :: src, v, hl, h => by
    have hl' : src.length ≤ n := by simp at hl; omega
    by_cases hcomma : classify c = .comma
    · have hc : c = 0x2C := (classify_inv c).2.2.2.2.2.2.2.2.2.2.1 hcomma
      subst hc
      by_cases hskip : (skipExtraComma src st.state).2 = true
      · obtain ⟨e, he⟩ := strict_fails_at_extra_comma sd (strictOf ie) st src rfl hskip
        rw [he] at h; cases h
      · rw [run_comma_strict sd _ st src rfl] at h
        by_cases hz : STEP st.state T_COMMA = 0
        · rw [if_pos hz] at h; cases h
        rw [if_neg hz] at h
        have ih := relaxed_extends_strict_run sd ie n _ src v hl' h
        rw [run_cons]
        unfold step; rw [hcomma]
        simp only [stepComma, relaxedOf, Bool.true_and]
        rw [if_neg hskip, withTok_pos hz]
        simp only [if_true]
        rw [skipExtraComma_fst, run_dropSpace]
        exact ih
    · by_cases hslash : classify c = .slash
      · have hc : c = 0x2F := (classify_inv c).2.2.2.2.2.2.2.2.2.2.2 hslash
        subst hc
        rw [run_slash_strict sd _ st src rfl] at h; cases h
      · rw [run_cons] at h ⊢
        rw [step_same_of_not_comma_slash sd ie st c src hcomma hslash]
        cases hs : step sd (strictOf ie) st c src with
        | err e => rw [hs] at h; cases h
        | next st' rest =>
          rw [hs] at h
          simp only at h ⊢
          have := step_length hs
          exact relaxed_extends_strict_run sd ie n st' rest v (by omega) h

/-! ## comments -/

/-- `// … \n`, `// …` up to the end of the document, or `/* … */` -/
inductive IsComment : Bytes → Bytes → Prop
  /-- line comment with its newline; `rest` follows -/
  | line (body rest : Bytes) : (0x0A : UInt8) ∉ body → IsComment (0x2F :: 0x2F :: (body ++ [0x0A])) rest
  /-- line comment ending the document -/
  | lineEof (body : Bytes) : (0x0A : UInt8) ∉ body → IsComment (0x2F :: 0x2F :: body) []
  /-- block comment (no `/` inside, hence no `*/`) -/
  | block (body rest : Bytes) : (0x2F : UInt8) ∉ body → IsComment (0x2F :: 0x2A :: (body ++ [0x2A, 0x2F])) rest

theorem afterNewline_found : ∀ (body r : Bytes), (0x0A : UInt8) ∉ body →
    afterNewline (body ++ 0x0A :: r) = some r
  | [], r, _ => by simp [afterNewline]
  | a :: body, r, h => by
    have ha : ¬ (a == 0x0A) = true := by
      intro e; apply h; simp at e; simp [e]
    rw [List.cons_append, afterNewline, if_neg ha]
    exact afterNewline_found body r (fun hm => h (by simp [hm]))

theorem afterNewline_none : ∀ (body : Bytes), (0x0A : UInt8) ∉ body → afterNewline body = none
  | [], _ => rfl
  | a :: body, h => by
    have ha : ¬ (a == 0x0A) = true := by
      intro e; apply h; simp at e; simp [e]
    rw [afterNewline, if_neg ha]
    exact afterNewline_none body (fun hm => h (by simp [hm]))

theorem blockEnd_cons2 (a b : UInt8) (t : Bytes) :
    blockEnd (a :: b :: t) = if (a == 0x2A && b == 0x2F) = true then some t else blockEnd (b :: t) := by
  rw [blockEnd.eq_def]

theorem blockEnd_found : ∀ (body r : Bytes), (0x2F : UInt8) ∉ body →
    blockEnd (body ++ 0x2A :: 0x2F :: r) = some r
  | [], r, _ => by
    show blockEnd (0x2A :: 0x2F :: r) = some r
    rw [blockEnd_cons2, if_pos (by decide)]
  | [a], r, h => by
    have ha : a ≠ 0x2F := fun e => h (by simp [e])
    show blockEnd (a :: 0x2A :: 0x2F :: r) = some r
    rw [blockEnd_cons2, if_neg (by simp), blockEnd_cons2, if_pos (by decide)]
  | a :: b :: body, r, h => by
    have hb : b ≠ 0x2F := fun e => h (by simp [e])
    show blockEnd (a :: b :: (body ++ 0x2A :: 0x2F :: r)) = some r
    rw [blockEnd_cons2, if_neg (by simp [hb])]
    exact blockEnd_found (b :: body) r (fun hm => h (List.mem_cons_of_mem a hm))

/-- relaxed mode: a comment at the head of the loop is skipped, state untouched -/
theorem run_comment (sd : Bytes → UInt64 × Nat) (ie : Bool) (st : St) {c rest : Bytes}
    (hc : IsComment c rest) : run sd (relaxedOf ie) st (c ++ rest) = run sd (relaxedOf ie) st rest := by
  have hcl : classify 0x2F = .slash := by decide
  cases hc with
  | line body rest hb =>
    rw [List.cons_append, run_cons]
    unfold step; rw [hcl]
    simp only [stepSlash, relaxedOf]
    rw [if_pos trivial]
    have : skipComment (0x2F :: (body ++ [0x0A]) ++ rest) = some rest := by
      rw [List.cons_append, skipComment, if_pos (by decide)]
      rw [List.append_assoc, List.singleton_append, afterNewline_found body rest hb]
    rw [this]
  | lineEof body hb =>
    rw [List.append_nil, run_cons]
    unfold step; rw [hcl]
    simp only [stepSlash, relaxedOf]
    rw [if_pos trivial]
    have : skipComment (0x2F :: body) = some [] := by
      rw [skipComment, if_pos (by decide), afterNewline_none body hb]
    rw [this]
  | block body rest hb =>
    rw [List.cons_append, run_cons]
    unfold step; rw [hcl]
    simp only [stepSlash, relaxedOf]
    rw [if_pos trivial]
    have : skipComment (0x2A :: (body ++ [0x2A, 0x2F]) ++ rest) = some rest := by
      rw [List.cons_append, skipComment, if_neg (by decide), if_pos (by decide)]
      rw [List.append_assoc]
      exact blockEnd_found body rest hb
    rw [this]

/-! ## one trailing comma -/

/-- the closer `x` may follow a comma that `skip_extra_comma` drops in state `s` -/
def closerFits (s : Nat) (x : UInt8) : Prop :=
  (x = 0x7D ∧ (s = S_DICT_COMMA_OR_CLOSE ∨ s = S_DICT_KEY_OR_CLOSE)) ∨
  (x = 0x5D ∧ (s = S_LIST_COMMA_OR_CLOSE ∨ s = S_LIST_VALUE_OR_CLOSE))

theorem run_trailing_comma (sd : Bytes → UInt64 × Nat) (ie : Bool) (st : St) (ws : Bytes) (x : UInt8)
    (r : Bytes) (hws : ∀ b ∈ ws, isSpace b = true) (hx : closerFits st.state x) :
    run sd (relaxedOf ie) st (0x2C :: (ws ++ x :: r)) = run sd (relaxedOf ie) st (x :: r) := by
  have hxs : isSpace x = false := by
    rcases hx with ⟨rfl, _⟩ | ⟨rfl, _⟩ <;> decide
  have hdrop : (ws ++ x :: r).dropWhile isSpace = x :: r := by
    rw [List.dropWhile_append_of_pos hws, List.dropWhile_cons_of_neg (by simp [hxs])]
  have hskip : (skipExtraComma (ws ++ x :: r) st.state).2 = true := by
    unfold skipExtraComma
    simp only [hdrop]
    rcases hx with ⟨rfl, h | h⟩ | ⟨rfl, h | h⟩
    · rw [if_pos (by decide), h]; decide
    · rw [if_pos (by decide), h]; decide
    · rw [if_neg (by decide), if_pos (by decide), h]; decide
    · rw [if_neg (by decide), if_pos (by decide), h]; decide
  rw [run_cons]
  have hcl : classify 0x2C = .comma := by decide
  unfold step; rw [hcl]
  simp only [stepComma, relaxedOf, Bool.true_and]
  rw [if_pos hskip, skipExtraComma_fst, hdrop]

/-! ## decorated documents -/

/-- `Decor sd ie st r r'`: with the token loop at its head in state `st`, the input `r'` is the
input `r` decorated with comments between tokens and at most one trailing comma (comma, white
space) directly before a closer.  `token` moves both inputs over one token (one iteration of the
loop in strict mode on `r`, in relaxed mode on `r'`, same resulting state). -/
inductive Decor (sd : Bytes → UInt64 × Nat) (ie : Bool) : St → Bytes → Bytes → Prop
  | same (st : St) (r : Bytes) : Decor sd ie st r r
  | comment (st : St) (c r r' : Bytes) : IsComment c r' → Decor sd ie st r r' → Decor sd ie st r (c ++ r')
  | comma (st : St) (ws : Bytes) (x : UInt8) (r r' : Bytes) : (∀ b ∈ ws, isSpace b = true) →
      closerFits st.state x → Decor sd ie st (x :: r) (x :: r') →
      Decor sd ie st (x :: r) (0x2C :: (ws ++ x :: r'))
  | token (st : St) (c : UInt8) (src src' : Bytes) (st1 : St) (rest rest' : Bytes) :
      step sd (strictOf ie) st c src = .next st1 rest → step sd (relaxedOf ie) st c src' = .next st1 rest' →
      Decor sd ie st1 rest rest' → Decor sd ie st (c :: src) (c :: src')

theorem decor_same_value (sd : Bytes → UInt64 × Nat) (ie : Bool) {st : St} {r r' : Bytes}
    (hd : Decor sd ie st r r') (v : JVal) (h : run sd (strictOf ie) st r = .ok v) :
    run sd (relaxedOf ie) st r' = .ok v := by
  induction hd with
  | same st r => exact relaxed_extends_strict_run sd ie r.length st r v (Nat.le_refl _) h
  | comment st c r r' hc _ ih => rw [run_comment sd ie st hc]; exact ih h
  | comma st ws x r r' hws hx _ ih => rw [run_trailing_comma sd ie st ws x r' hws hx]; exact ih h
  | token st c src src' st1 rest rest' hs hs' _ ih =>
    rw [run_cons, hs] at h
    rw [run_cons, hs']
    exact ih h

end Usual.C02
