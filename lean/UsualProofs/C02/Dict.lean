import Usual.C03.Rfc
/-!
# C02 — object members: inserting in document order (the parser) or folding from the right
(the reference's `mkDict`) gives the same sorted member list
-/
namespace Usual.C02
open Usual.C03 (JVal insertKv keyLt)

abbrev KVs := List (List UInt8 × JVal)

/-! ## `keyLt` is a strict total order -/

theorem u8_lt (a b : UInt8) : (a < b) ↔ a.toNat < b.toNat := UInt8.lt_iff_toNat_lt
theorem u8_eq (a b : UInt8) : a = b ↔ a.toNat = b.toNat := UInt8.toNat_inj.symm

theorem keyLt_cons (x y : UInt8) (xs ys : List UInt8) :
    keyLt (x :: xs) (y :: ys) = true ↔ (x.toNat < y.toNat ∨ (x.toNat = y.toNat ∧ keyLt xs ys = true)) := by
  rw [keyLt]
  simp only [Bool.or_eq_true, decide_eq_true_eq, Bool.and_eq_true, beq_iff_eq, u8_lt, u8_eq]

theorem keyLt_asymm : ∀ (a b : List UInt8), keyLt a b = true → keyLt b a = false
  | [], [], h => by simp [keyLt] at h
  | [], _ :: _, _ => by simp [keyLt]
  | _ :: _, [], h => by simp [keyLt] at h
  | x :: xs, y :: ys, h => by
    rw [keyLt_cons] at h
    cases hb : keyLt (y :: ys) (x :: xs) with
    | false => rfl
    | true =>
      rw [keyLt_cons] at hb
      rcases h with h | ⟨h1, h2⟩
      · rcases hb with hb | ⟨hb, _⟩ <;> omega
      · rcases hb with hb | ⟨_, hb⟩
        · omega
        · rw [keyLt_asymm xs ys h2] at hb; cases hb

theorem keyLt_irrefl (a : List UInt8) : keyLt a a = false := by
  cases h : keyLt a a with
  | false => rfl
  | true => have := keyLt_asymm a a h; rw [h] at this; cases this

theorem keyLt_trans : ∀ (a b c : List UInt8), keyLt a b = true → keyLt b c = true → keyLt a c = true
  | [], [], _, h, _ => by simp [keyLt] at h
  | [], _ :: _, [], _, h => by simp [keyLt] at h
  | [], _ :: _, _ :: _, _, _ => by simp [keyLt]
  | _ :: _, [], _, h, _ => by simp [keyLt] at h
  | _ :: _, _ :: _, [], _, h => by simp [keyLt] at h
  | x :: xs, y :: ys, z :: zs, h1, h2 => by
    rw [keyLt_cons] at h1 h2 ⊢
    rcases h1 with h1 | ⟨h1, h1'⟩
    · rcases h2 with h2 | ⟨h2, _⟩
      · left; omega
      · left; omega
    · rcases h2 with h2 | ⟨h2, h2'⟩
      · left; omega
      · right; exact ⟨by omega, keyLt_trans xs ys zs h1' h2'⟩

theorem keyLt_total : ∀ (a b : List UInt8), keyLt a b = false → keyLt b a = false → a = b
  | [], [], _, _ => rfl
  | [], _ :: _, h, _ => by simp [keyLt] at h
  | _ :: _, [], _, h => by simp [keyLt] at h
  | x :: xs, y :: ys, h1, h2 => by
    have n1 : ¬ (x.toNat < y.toNat ∨ (x.toNat = y.toNat ∧ keyLt xs ys = true)) := by
      rw [← keyLt_cons]; simp [h1]
    have n2 : ¬ (y.toNat < x.toNat ∨ (y.toNat = x.toNat ∧ keyLt ys xs = true)) := by
      rw [← keyLt_cons]; simp [h2]
    have hxy : x.toNat = y.toNat := by omega
    have e1 : keyLt xs ys = false := by
      cases h : keyLt xs ys with
      | false => rfl
      | true => exact absurd (Or.inr ⟨hxy, h⟩) n1
    have e2 : keyLt ys xs = false := by
      cases h : keyLt ys xs with
      | false => rfl
      | true => exact absurd (Or.inr ⟨hxy.symm, h⟩) n2
    rw [(u8_eq x y).mpr hxy, keyLt_total xs ys e1 e2]

/-- the three outcomes of comparing two keys -/
inductive Cmp (a b : List UInt8) : Prop
  | lt : keyLt a b = true → Cmp a b
  | eq : a = b → Cmp a b
  | gt : keyLt b a = true → Cmp a b

theorem cmp (a b : List UInt8) : Cmp a b := by
  cases h1 : keyLt a b with
  | true => exact .lt h1
  | false =>
    cases h2 : keyLt b a with
    | true => exact .gt h2
    | false => exact .eq (keyLt_total a b h1 h2)

/-! ## `insertKv` by cases -/

theorem insertKv_nil (k : List UInt8) (v : JVal) : insertKv k v [] = some [(k, v)] := rfl

theorem insertKv_lt {k k' : List UInt8} (v v' : JVal) (r : KVs) (h : keyLt k k' = true) :
    insertKv k v ((k', v') :: r) = some ((k, v) :: (k', v') :: r) := by
  rw [insertKv, if_pos h]

theorem insertKv_eq (k : List UInt8) (v v' : JVal) (r : KVs) : insertKv k v ((k, v') :: r) = none := by
  rw [insertKv, if_neg (by rw [keyLt_irrefl]; simp), if_pos (by simp)]

theorem insertKv_gt {k k' : List UInt8} (v v' : JVal) (r : KVs) (h : keyLt k' k = true) :
    insertKv k v ((k', v') :: r) = (insertKv k v r).map (fun r' => (k', v') :: r') := by
  have h1 : keyLt k k' = false := keyLt_asymm k' k h
  have h2 : ¬ (k == k') = true := by
    intro e; have : k = k' := by simpa using e
    rw [this, keyLt_irrefl] at h; cases h
  rw [insertKv, if_neg (by simp [h1]), if_neg h2]
  cases insertKv k v r <;> rfl

/-- inserting two members in either order gives the same result (also the same failure) -/
theorem insertKv_comm (a b : List UInt8) (va vb : JVal) : ∀ (d : KVs),
    (insertKv a va d).bind (insertKv b vb) = (insertKv b vb d).bind (insertKv a va)
  | [] => by
    rw [insertKv_nil, insertKv_nil]
    simp only [Option.bind_some]
    rcases cmp a b with h | h | h
    · rw [insertKv_gt _ _ _ h, insertKv_lt _ _ _ h, insertKv_nil]; rfl
    · subst h; rw [insertKv_eq, insertKv_eq]
    · rw [insertKv_lt _ _ _ h, insertKv_gt _ _ _ h, insertKv_nil]; rfl
  | (k, x) :: r => by
    have ih := insertKv_comm a b va vb r
    rcases cmp a k with ha | ha | ha
    · -- a < k
      rw [insertKv_lt _ _ _ ha]
      simp only [Option.bind_some]
      rcases cmp b k with hb | hb | hb
      · rw [insertKv_lt _ _ _ hb]
        simp only [Option.bind_some]
        rcases cmp a b with h | h | h
        · rw [insertKv_gt _ _ _ h, insertKv_lt _ _ _ hb, insertKv_lt _ _ _ h]; rfl
        · subst h; rw [insertKv_eq, insertKv_eq]
        · rw [insertKv_lt _ _ _ h, insertKv_gt _ _ _ h, insertKv_lt _ _ _ ha]; rfl
      · subst hb
        rw [insertKv_eq, insertKv_gt _ _ _ ha, insertKv_eq]; rfl
      · have hab : keyLt a b = true := keyLt_trans a k b ha hb
        rw [insertKv_gt _ _ _ hab, insertKv_gt _ _ _ hb]
        cases hi : insertKv b vb r with
        | none => rfl
        | some r' =>
          simp only [Option.map_some, Option.bind_some]
          rw [insertKv_lt _ _ _ ha]
    · -- a = k
      subst ha
      rw [insertKv_eq]
      simp only [Option.bind_none]
      rcases cmp b a with hb | hb | hb
      · rw [insertKv_lt _ _ _ hb]
        simp only [Option.bind_some]
        rw [insertKv_gt _ _ _ hb, insertKv_eq]; rfl
      · subst hb; rw [insertKv_eq]; rfl
      · rw [insertKv_gt _ _ _ hb]
        cases hi : insertKv b vb r with
        | none => rfl
        | some r' =>
          simp only [Option.map_some, Option.bind_some]
          rw [insertKv_eq]
    · -- a > k
      rw [insertKv_gt _ _ _ ha]
      rcases cmp b k with hb | hb | hb
      · have hba : keyLt b a = true := keyLt_trans b k a hb ha
        rw [insertKv_lt _ _ _ hb]
        simp only [Option.bind_some]
        rw [insertKv_gt _ _ _ hba, insertKv_gt _ _ _ ha]
        cases hi : insertKv a va r with
        | none => rfl
        | some r' =>
          simp only [Option.map_some, Option.bind_some]
          rw [insertKv_lt _ _ _ hb]
      · subst hb
        rw [insertKv_eq]
        simp only [Option.bind_none]
        cases hi : insertKv a va r with
        | none => rfl
        | some r' =>
          simp only [Option.map_some, Option.bind_some]
          rw [insertKv_eq]
      · rw [insertKv_gt _ _ _ hb]
        cases hia : insertKv a va r with
        | none =>
          simp only [Option.map_none, Option.bind_none]
          rw [hia] at ih
          simp only [Option.bind_none] at ih
          cases hib : insertKv b vb r with
          | none => rfl
          | some rb =>
            simp only [Option.map_some, Option.bind_some]
            rw [hib] at ih
            simp only [Option.bind_some] at ih
            rw [insertKv_gt _ _ _ ha, ← ih]; rfl
        | some ra =>
          simp only [Option.map_some, Option.bind_some]
          rw [hia] at ih
          simp only [Option.bind_some] at ih
          rw [insertKv_gt _ _ _ hb, ih]
          cases hib : insertKv b vb r with
          | none => rfl
          | some rb =>
            simp only [Option.map_some, Option.bind_some]
            rw [insertKv_gt _ _ _ ha]

/-! ## left fold = right fold -/

/-- one more member (failure is sticky) -/
def insOp (p : List UInt8 × JVal) (od : Option KVs) : Option KVs := od.bind (insertKv p.1 p.2)

theorem insOp_comm (p q : List UInt8 × JVal) (od : Option KVs) :
    insOp p (insOp q od) = insOp q (insOp p od) := by
  cases od with
  | none => rfl
  | some d => exact insertKv_comm q.1 p.1 q.2 p.2 d

/-- members inserted one after the other in document order, starting from `kvs` -/
def insL (od : Option KVs) : List (List UInt8 × JVal) → Option KVs
  | [] => od
  | p :: ms => insL (insOp p od) ms

theorem foldr_insOp_comm (p : List UInt8 × JVal) : ∀ (ms : List (List UInt8 × JVal)) (od : Option KVs),
    List.foldr insOp (insOp p od) ms = insOp p (List.foldr insOp od ms)
  | [], _ => rfl
  | q :: ms, od => by
    simp only [List.foldr_cons]
    rw [foldr_insOp_comm p ms od, insOp_comm]

theorem insL_eq_foldr : ∀ (ms : List (List UInt8 × JVal)) (od : Option KVs),
    insL od ms = List.foldr insOp od ms
  | [], _ => rfl
  | p :: ms, od => by
    rw [insL, insL_eq_foldr ms, foldr_insOp_comm]; rfl

theorem mkDict_eq_foldr : ∀ (ms : List (List UInt8 × JVal)),
    Usual.C03.Rfc.mkDict ms = List.foldr insOp (some []) ms
  | [] => rfl
  | (k, v) :: r => by
    rw [Usual.C03.Rfc.mkDict, mkDict_eq_foldr r]
    simp only [List.foldr_cons, insOp]
    cases List.foldr insOp (some []) r <;> rfl

/-- the parser's order of insertion gives the reference's dict -/
theorem insL_mkDict (ms : List (List UInt8 × JVal)) : insL (some []) ms = Usual.C03.Rfc.mkDict ms := by
  rw [insL_eq_foldr, mkDict_eq_foldr]

theorem insL_none : ∀ (ms : List (List UInt8 × JVal)), insL none ms = none
  | [] => rfl
  | _ :: ms => by rw [insL]; exact insL_none ms

/-- whether a key can be inserted does not depend on the value -/
theorem insertKv_isSome (k : List UInt8) (v w : JVal) : ∀ (d : KVs),
    (insertKv k v d).isSome = (insertKv k w d).isSome
  | [] => rfl
  | (k', x) :: r => by
    rcases cmp k k' with h | h | h
    · rw [insertKv_lt _ _ _ h, insertKv_lt _ _ _ h]; rfl
    · subst h; rw [insertKv_eq, insertKv_eq]
    · rw [insertKv_gt _ _ _ h, insertKv_gt _ _ _ h]
      have := insertKv_isSome k v w r
      cases h1 : insertKv k v r <;> cases h2 : insertKv k w r <;> simp_all

end Usual.C02
