import UsualProofs.C02.RfcSim
/-!
# C02 — acceptance, part 8: values, the induction over the reference's fuel, whole documents
-/
namespace Usual.C02
open Usual.C03 (JVal insertKv)
open Usual.Gen.C02Tables

theorem classify_digit {b : UInt8} (h : isDigit b = true) : classify b = .num := by
  rw [isDigit_nat] at h
  have e : ∀ k : UInt8, b.toNat ≠ k.toNat → ¬ (b == k) = true := by
    intro k hk; simp only [beq_iff_eq, u8eq]; exact hk
  have hws : ¬ isWsByte b = true := by
    unfold isWsByte
    simp only [Bool.or_eq_true, beq_iff_eq, u8eq, UInt8.reduceToNat]
    omega
  unfold classify
  rw [if_neg hws, if_neg (e 0x22 (by simp only [UInt8.reduceToNat]; omega)),
    if_neg (e 0x6E (by simp only [UInt8.reduceToNat]; omega)),
    if_neg (e 0x74 (by simp only [UInt8.reduceToNat]; omega)),
    if_neg (e 0x66 (by simp only [UInt8.reduceToNat]; omega)),
    if_pos (by rw [(isDigit_nat b).mpr h]; simp)]

theorem mkDict_mem : ∀ (ms d : List (Bytes × JVal)), Usual.C03.Rfc.mkDict ms = some d → ∀ p, p ∈ d ↔ p ∈ ms
  | [], d, h, p => by simp [Usual.C03.Rfc.mkDict] at h; subst h; simp
  | (k, v) :: r, d, h, p => by
    unfold Usual.C03.Rfc.mkDict at h
    cases hr : Usual.C03.Rfc.mkDict r with
    | none => simp [hr] at h
    | some d' =>
      simp only [hr] at h
      rw [insertKv_mem h p, mkDict_mem r d' hr p]
      simp

section sim
variable (rsd : Bytes → Option UInt64) (sd : Bytes → UInt64 × Nat) (o : Opts)

theorem value_step (hsd : StrtodAgrees rsd sd) (fuel : Nat) (he : PE rsd sd o fuel) (hm : PM rsd sd o fuel) :
    PV rsd sd o (fuel + 1) := by
  intro inp v r st h hctx hok hne
  match inp, h with
  | [], h => simp [Usual.C03.Rfc.value] at h
  | b :: t, h =>
    unfold Usual.C03.Rfc.value at h
    by_cases h1 : (b == 0x5B) = true
    · -- array
      rw [if_pos h1] at h
      have : b = 0x5B := by simpa using h1
      subst this
      rw [run_cons]
      have hcl : classify 0x5B = .openL := by decide
      unfold step; rw [hcl]
      simp only
      rw [(open_step hctx t).1]
      simp only
      rw [← run_skipWs]
      cases hws : Usual.C03.Rfc.skipWs t with
      | nil => simp [hws] at h
      | cons c r' =>
        simp only [hws] at h
        by_cases hc : (c == 0x5D) = true
        · rw [if_pos hc] at h
          have : c = 0x5D := by simpa using hc
          subst this
          simp only [Option.some.injEq, Prod.mk.injEq] at h
          obtain ⟨rfl, rfl⟩ := h
          rw [run_cons]
          have hcl2 : classify 0x5D = .closeL := by decide
          unfold step; rw [hcl2]
          simp only
          rw [close_step S_LIST_VALUE_OR_CLOSE _ st.stack st.top T_CLOSE_LIST _ hctx.parent (by decide)]
          rfl
        · rw [if_neg hc] at h
          cases hel : Usual.C03.Rfc.elems rsd fuel (c :: r') with
          | none => simp [hel] at h
          | some q =>
            obtain ⟨l, r''⟩ := q
            simp only [hel, Option.some.injEq, Prod.mk.injEq] at h
            obtain ⟨rfl, rfl⟩ := h
            have hokl : okL l := by simpa only [okV] using hok
            have := he (c :: r') l r'' S_LIST_VALUE_OR_CLOSE [] st.stack st.top hel (Or.inr rfl) hctx.parent hokl
            simpa using this
    rw [if_neg h1] at h
    by_cases h2 : (b == 0x7B) = true
    · -- object
      rw [if_pos h2] at h
      have : b = 0x7B := by simpa using h2
      subst this
      rw [run_cons]
      have hcl : classify 0x7B = .openD := by decide
      unfold step; rw [hcl]
      simp only
      rw [(open_step hctx t).2]
      simp only
      rw [← run_skipWs]
      cases hws : Usual.C03.Rfc.skipWs t with
      | nil => simp [hws] at h
      | cons c r' =>
        simp only [hws] at h
        by_cases hc : (c == 0x7D) = true
        · rw [if_pos hc] at h
          have : c = 0x7D := by simpa using hc
          subst this
          simp only [Option.some.injEq, Prod.mk.injEq] at h
          obtain ⟨rfl, rfl⟩ := h
          rw [run_cons]
          have hcl2 : classify 0x7D = .closeD := by decide
          unfold step; rw [hcl2]
          simp only
          rw [close_step S_DICT_KEY_OR_CLOSE _ st.stack st.top T_CLOSE_DICT _ hctx.parent (by decide)]
          rfl
        · rw [if_neg hc] at h
          cases hmem : Usual.C03.Rfc.members rsd fuel (c :: r') with
          | none => simp [hmem] at h
          | some q =>
            obtain ⟨ms, r''⟩ := q
            simp only [hmem] at h
            cases hmk : Usual.C03.Rfc.mkDict ms with
            | none => simp [hmk] at h
            | some d =>
              simp only [hmk, Option.some.injEq, Prod.mk.injEq] at h
              obtain ⟨rfl, rfl⟩ := h
              have hokm : okM d := by simpa only [okV] using hok
              have hokms : ∀ p ∈ ms, okP okV p := by
                intro p hp
                exact (okM_iff d).mp hokm p ((mkDict_mem ms d hmk p).mpr hp)
              exact hm (c :: r') ms r'' S_DICT_KEY_OR_CLOSE [] st.stack st.top d hmem (Or.inr rfl)
                hctx.parent (by rw [insL_mkDict]; exact hmk) hokms
    rw [if_neg h2] at h
    by_cases h3 : (b == 0x22) = true
    · -- string
      rw [if_pos h3] at h
      have : b = 0x22 := by simpa using h3
      subst this
      cases hstr : Usual.C03.Rfc.string t with
      | none => simp [hstr] at h
      | some q =>
        obtain ⟨s, r'⟩ := q
        simp only [hstr, Option.some.injEq, Prod.mk.injEq] at h
        obtain ⟨rfl, rfl⟩ := h
        have h0 : (0 : UInt8) ∉ s := by simpa only [okV] using hok
        obtain ⟨body, esc, hscan, hun⟩ := string_sim o hstr h0
        rw [run_cons]
        have hcl : classify 0x22 = .quote := by decide
        unfold step; rw [hcl]
        simp only [stepString]
        rw [withTok_pos (scalar_attach hctx T_STRING (Or.inl rfl) (.str s)).1, hscan]
        simp only [attachErr_false hctx, Bool.false_eq_true, if_false, hun]
        rw [valueStep_done hctx T_STRING (Or.inl rfl)]
    rw [if_neg h3] at h
    by_cases h4 : (b == 0x66) = true
    · -- false
      rw [if_pos h4] at h
      have : b = 0x66 := by simpa using h4
      subst this
      cases hsp : Usual.C03.Rfc.stripPrefix [0x61, 0x6C, 0x73, 0x65] t with
      | none => simp [hsp] at h
      | some r' =>
        simp only [hsp, Option.some.injEq, Prod.mk.injEq] at h
        obtain ⟨rfl, rfl⟩ := h
        have ht := stripPrefix_spec _ _ _ hsp
        rw [run_cons]
        have hcl : classify 0x66 = .litF := by decide
        unfold step; rw [hcl]
        simp only [stepLit]
        rw [withTok_pos (scalar_attach hctx T_OTHER (Or.inr rfl) (.bool false)).1]
        have : parseChar4 C_ALSE t = .ok r' := by
          rw [ht]; exact parseChar4_ok C_ALSE r' rfl
        rw [this]
        simp only
        rw [valueStep_done hctx T_OTHER (Or.inr rfl)]
    rw [if_neg h4] at h
    by_cases h5 : (b == 0x6E) = true
    · -- null
      rw [if_pos h5] at h
      have : b = 0x6E := by simpa using h5
      subst this
      cases hsp : Usual.C03.Rfc.stripPrefix [0x75, 0x6C, 0x6C] t with
      | none => simp [hsp] at h
      | some r' =>
        simp only [hsp, Option.some.injEq, Prod.mk.injEq] at h
        obtain ⟨rfl, rfl⟩ := h
        have ht := stripPrefix_spec _ _ _ hsp
        rw [run_cons]
        have hcl : classify 0x6E = .litN := by decide
        unfold step; rw [hcl]
        simp only [stepLit]
        rw [withTok_pos (scalar_attach hctx T_OTHER (Or.inr rfl) .null).1]
        have : parseChar4 C_NULL (0x6E :: t) = .ok r' := by
          rw [ht]; exact parseChar4_ok C_NULL r' rfl
        rw [this]
        simp only
        rw [valueStep_done hctx T_OTHER (Or.inr rfl)]
    rw [if_neg h5] at h
    by_cases h6 : (b == 0x74) = true
    · -- true
      rw [if_pos h6] at h
      have : b = 0x74 := by simpa using h6
      subst this
      cases hsp : Usual.C03.Rfc.stripPrefix [0x72, 0x75, 0x65] t with
      | none => simp [hsp] at h
      | some r' =>
        simp only [hsp, Option.some.injEq, Prod.mk.injEq] at h
        obtain ⟨rfl, rfl⟩ := h
        have ht := stripPrefix_spec _ _ _ hsp
        rw [run_cons]
        have hcl : classify 0x74 = .litT := by decide
        unfold step; rw [hcl]
        simp only [stepLit]
        rw [withTok_pos (scalar_attach hctx T_OTHER (Or.inr rfl) (.bool true)).1]
        have : parseChar4 C_TRUE (0x74 :: t) = .ok r' := by
          rw [ht]; exact parseChar4_ok C_TRUE r' rfl
        rw [this]
        simp only
        rw [valueStep_done hctx T_OTHER (Or.inr rfl)]
    rw [if_neg h6] at h
    -- number
    obtain ⟨hpn, c, t', e, hc⟩ := number_sim hsd h hne
    cases e
    have hcl : classify b = .num := by
      rcases hc with rfl | hc
      · decide
      · exact classify_digit hc
    rw [run_cons]
    unfold step; rw [hcl]
    simp only [stepNumber]
    rw [withTok_pos (scalar_attach hctx T_OTHER (Or.inr rfl) v).1, hpn]
    simp only
    rw [valueStep_done hctx T_OTHER (Or.inr rfl)]

theorem sim_all (hsd : StrtodAgrees rsd sd) : ∀ fuel, PV rsd sd o fuel ∧ PE rsd sd o fuel ∧ PM rsd sd o fuel
  | 0 => by
    refine ⟨?_, ?_, ?_⟩
    · intro inp v r st h; simp [Usual.C03.Rfc.value] at h
    · intro inp vs r s es fs top h; simp [Usual.C03.Rfc.elems] at h
    · intro inp ms r s kvs fs top d h; simp [Usual.C03.Rfc.members] at h
  | fuel + 1 => by
    obtain ⟨pv, pe, pm⟩ := sim_all hsd fuel
    exact ⟨value_step rsd sd o hsd fuel pe pm, elems_step rsd sd o fuel pv pe, members_step rsd sd o fuel pv pm⟩

/-- every document the reference accepts (within the preconditions) is accepted with that value -/
theorem parse_of_rfc (hsd : StrtodAgrees rsd sd) (doc : Bytes) (v : JVal)
    (h : Usual.C03.Rfc.parse rsd doc = some v) (hok : okV v) : parse sd o doc = .ok v := by
  unfold Usual.C03.Rfc.parse at h
  cases hval : Usual.C03.Rfc.value rsd (2 * doc.length + 2) (Usual.C03.Rfc.skipWs doc) with
  | none => simp [hval] at h
  | some q =>
    obtain ⟨v', r⟩ := q
    simp only [hval] at h
    cases hws : Usual.C03.Rfc.skipWs r with
    | cons c t => simp [hws] at h
    | nil =>
      simp only [hws, Option.some.injEq] at h
      subst h
      rw [parse_eq_run, ← run_skipWs]
      have hctx : ValCtx St.init := ⟨rfl, rfl⟩
      rw [(sim_all rsd sd o hsd _).1 _ v' r St.init hval hctx hok (NumEnd_of_skipWs_nil hws)]
      rw [← run_skipWs, hws, run_nil]
      rfl

end sim
end Usual.C02
