import UsualProofs.C02.RfcStr2
/-!
# C02 — acceptance, part 5: an RFC 8259 number token is converted to the same value
-/
namespace Usual.C02
open Usual.C03 (JVal insertKv)
open Usual.Gen.C02Tables

theorem rfc_isDigit (b : UInt8) : Usual.C03.Rfc.isDigit b = isDigit b := rfl
theorem rfc_natOfDigits (ds : Bytes) : Usual.C03.Rfc.natOfDigits ds = natOfDigits ds := rfl
theorem rfc_isFiniteBits (x : UInt64) : Usual.C03.Rfc.isFiniteBits x = isFiniteBits x := rfl

theorem isDigit_nat (b : UInt8) : isDigit b = true ↔ 48 ≤ b.toNat ∧ b.toNat ≤ 57 := by
  unfold isDigit
  simp only [Bool.and_eq_true, decide_eq_true_eq, u8le, UInt8.reduceToNat]

theorem isDigit_numChar {b : UInt8} (h : isDigit b = true) : isNumChar b = true := by
  unfold isNumChar; simp [h]

theorem isDigit_not_float {b : UInt8} (h : isDigit b = true) : isFloatChar b = false := by
  rw [isDigit_nat] at h
  unfold isFloatChar
  have e : ∀ k : UInt8, b.toNat ≠ k.toNat → (b == k) = false := by
    intro k hk; simp only [beq_eq_false_iff_ne, ne_eq, u8eq]; exact hk
  rw [e 0x2E (by simp only [UInt8.reduceToNat]; omega), e 0x65 (by simp only [UInt8.reduceToNat]; omega),
    e 0x45 (by simp only [UInt8.reduceToNat]; omega)]
  rfl

theorem digits_spec : ∀ (r : Bytes), Usual.C03.Rfc.digits r ++ Usual.C03.Rfc.afterDigits r = r ∧
    (∀ x ∈ Usual.C03.Rfc.digits r, isDigit x = true) ∧
    (∀ c t, Usual.C03.Rfc.afterDigits r = c :: t → isDigit c = false)
  | [] => by simp [Usual.C03.Rfc.digits, Usual.C03.Rfc.afterDigits]
  | b :: r => by
    obtain ⟨h1, h2, h3⟩ := digits_spec r
    unfold Usual.C03.Rfc.digits Usual.C03.Rfc.afterDigits
    rw [rfc_isDigit]
    by_cases hb : isDigit b = true
    · rw [if_pos hb, if_pos hb]
      refine ⟨by rw [List.cons_append, h1], ?_, h3⟩
      intro x hx
      rcases List.mem_cons.mp hx with rfl | hx
      · exact hb
      · exact h2 x hx
    · rw [if_neg hb, if_neg hb]
      refine ⟨rfl, (by intro x hx; cases hx), ?_⟩
      intro c t e; cases e; simpa using hb

/-- lower bound: a digit string with a non-zero leading digit is at least `10^(length - 1)` -/
theorem foldl_digits_ge : ∀ (ds : Bytes) (a : Nat),
    a * 10 ^ ds.length ≤ ds.foldl (fun a d => a * 10 + (d.toNat - 0x30)) a
  | [], a => by simp
  | d :: ds, a => by
    simp only [List.foldl_cons, List.length_cons]
    have := foldl_digits_ge ds (a * 10 + (d.toNat - 0x30))
    have h2 : a * 10 ^ (ds.length + 1) = (a * 10) * 10 ^ ds.length := by
      rw [Nat.pow_succ, Nat.mul_comm (10 ^ ds.length) 10, Nat.mul_assoc]
    rw [h2]
    exact Nat.le_trans (Nat.mul_le_mul_right _ (Nat.le_add_right _ _)) this

theorem natOfDigits_ge {d : UInt8} {ds : Bytes} (hd : 49 ≤ d.toNat) :
    10 ^ ds.length ≤ natOfDigits (d :: ds) := by
  unfold natOfDigits
  simp only [List.foldl_cons, Nat.zero_mul, Nat.zero_add]
  have := foldl_digits_ge ds (d.toNat - 0x30)
  exact Nat.le_trans (by
    have : 1 ≤ d.toNat - 0x30 := by omega
    calc 10 ^ ds.length = 1 * 10 ^ ds.length := by rw [Nat.one_mul]
      _ ≤ (d.toNat - 0x30) * 10 ^ ds.length := Nat.mul_le_mul_right _ this) this

/-- `int = zero / digit1-9 *DIGIT` -/
theorem intPart_spec {r0 ip r1 : Bytes} (h : Usual.C03.Rfc.intPart r0 = some (ip, r1)) :
    r0 = ip ++ r1 ∧ (∀ x ∈ ip, isDigit x = true) ∧
    (∃ d ds, ip = d :: ds ∧ (natOfDigits ip ≤ 2 ^ 53 - 1 → ds.length ≤ 15)) := by
  match r0, h with
  | b :: r, h =>
    unfold Usual.C03.Rfc.intPart at h
    dsimp only at h
    by_cases hz : (b == 0x30) = true
    · rw [if_pos hz] at h
      simp only [Option.some.injEq, Prod.mk.injEq] at h
      obtain ⟨rfl, rfl⟩ := h
      have : b = 0x30 := by simpa using hz
      subst this
      exact ⟨rfl, by intro x hx; simp at hx; subst hx; decide, 0x30, [], rfl, by intro _; simp⟩
    · rw [if_neg hz] at h
      by_cases h19 : (decide (0x31 ≤ b) && decide (b ≤ 0x39)) = true
      · rw [if_pos h19] at h
        simp only [Option.some.injEq, Prod.mk.injEq] at h
        obtain ⟨rfl, rfl⟩ := h
        obtain ⟨d1, d2, _⟩ := digits_spec r
        simp only [Bool.and_eq_true, decide_eq_true_eq, u8le, UInt8.reduceToNat] at h19
        refine ⟨by rw [List.cons_append, d1], ?_, b, _, rfl, ?_⟩
        · intro x hx
          rcases List.mem_cons.mp hx with rfl | hx
          · rw [isDigit_nat]; omega
          · exact d2 x hx
        · intro hle
          have hge := natOfDigits_ge (d := b) (ds := Usual.C03.Rfc.digits r) (by omega)
          apply Nat.le_of_not_lt
          intro hc
          have h16 : 16 ≤ (Usual.C03.Rfc.digits r).length := by omega
          have : 10 ^ 16 ≤ 10 ^ (Usual.C03.Rfc.digits r).length := Nat.pow_le_pow_right (by omega) h16
          have hlit : (2 : Nat) ^ 53 - 1 < 10 ^ 16 := by decide
          omega
      · rw [if_neg h19] at h; cases h

theorem fracPart_spec {r1 fp r2 : Bytes} (h : Usual.C03.Rfc.fracPart r1 = some (fp, r2)) :
    r1 = fp ++ r2 ∧ (∀ x ∈ fp, isNumChar x = true) ∧ (fp ≠ [] → isFloatChar 0x2E = true ∧ 0x2E ∈ fp) := by
  unfold Usual.C03.Rfc.fracPart at h
  split at h
  · rename_i r
    split at h
    · cases h
    · simp only [Option.some.injEq, Prod.mk.injEq] at h
      obtain ⟨rfl, rfl⟩ := h
      obtain ⟨d1, d2, _⟩ := digits_spec r
      refine ⟨by rw [List.cons_append, d1], ?_, fun _ => ⟨by decide, by simp⟩⟩
      intro x hx
      rcases List.mem_cons.mp hx with rfl | hx
      · decide
      · exact isDigit_numChar (d2 x hx)
  · simp only [Option.some.injEq, Prod.mk.injEq] at h
    obtain ⟨rfl, rfl⟩ := h
    exact ⟨rfl, (by intro x hx; cases hx), fun hne => absurd rfl hne⟩

theorem expPart_spec {r2 ep r3 : Bytes} (h : Usual.C03.Rfc.expPart r2 = some (ep, r3)) :
    r2 = ep ++ r3 ∧ (∀ x ∈ ep, isNumChar x = true) ∧ (ep ≠ [] → ∃ x ∈ ep, isFloatChar x = true) := by
  unfold Usual.C03.Rfc.expPart at h
  match r2, h with
  | [], h =>
    simp only [Option.some.injEq, Prod.mk.injEq] at h
    obtain ⟨rfl, rfl⟩ := h
    exact ⟨rfl, (by intro x hx; cases hx), fun hne => absurd rfl hne⟩
  | b :: r, h =>
    simp only at h
    by_cases he : (b == 0x65 || b == 0x45) = true
    · rw [if_pos he] at h
      have hbf : isFloatChar b = true := by
        unfold isFloatChar
        rcases Bool.or_eq_true _ _ |>.mp he with h | h <;> simp [h]
      have hbn : isNumChar b = true := by
        unfold isNumChar
        rcases Bool.or_eq_true _ _ |>.mp he with h | h <;> simp [h]
      match r, h with
      | [], h => simp at h
      | s :: r', h =>
        simp only at h
        by_cases hs : (s == 0x2B || s == 0x2D) = true
        · rw [if_pos hs] at h
          split at h
          · cases h
          · simp only [Option.some.injEq, Prod.mk.injEq] at h
            obtain ⟨rfl, rfl⟩ := h
            obtain ⟨d1, d2, _⟩ := digits_spec r'
            have hsn : isNumChar s = true := by
              unfold isNumChar
              rcases Bool.or_eq_true _ _ |>.mp hs with h | h <;> simp [h]
            refine ⟨by rw [List.cons_append, List.cons_append, d1], ?_, fun _ => ⟨b, by simp, hbf⟩⟩
            intro x hx
            simp only [List.mem_cons] at hx
            rcases hx with rfl | rfl | hx
            · exact hbn
            · exact hsn
            · exact isDigit_numChar (d2 x hx)
        · rw [if_neg hs] at h
          split at h
          · cases h
          · simp only [Option.some.injEq, Prod.mk.injEq] at h
            obtain ⟨rfl, rfl⟩ := h
            obtain ⟨d1, d2, _⟩ := digits_spec (s :: r')
            refine ⟨by rw [List.cons_append, d1], ?_, fun _ => ⟨b, by simp, hbf⟩⟩
            intro x hx
            rcases List.mem_cons.mp hx with rfl | hx
            · exact hbn
            · exact isDigit_numChar (d2 x hx)
    · rw [if_neg he] at h
      simp only [Option.some.injEq, Prod.mk.injEq] at h
      obtain ⟨rfl, rfl⟩ := h
      exact ⟨rfl, (by intro x hx; cases hx), fun hne => absurd rfl hne⟩

theorem takeWhile_split {α : Type} (p : α → Bool) : ∀ (a b : List α), (∀ x ∈ a, p x = true) →
    (∀ c t, b = c :: t → p c = false) → (a ++ b).takeWhile p = a ∧ (a ++ b).dropWhile p = b
  | [], b, _, hb => by
    cases b with
    | nil => simp
    | cons c t =>
      have := hb c t rfl
      simp [List.takeWhile_cons, List.dropWhile_cons, this]
  | x :: a, b, ha, hb => by
    have hx := ha x (by simp)
    obtain ⟨h1, h2⟩ := takeWhile_split p a b (fun y hy => ha y (by simp [hy])) hb
    rw [List.cons_append, List.takeWhile_cons_of_pos hx, List.dropWhile_cons_of_pos hx, h1, h2]
    exact ⟨rfl, rfl⟩

/-- nothing that could continue a number token follows -/
def NumEnd (r : Bytes) : Prop := ∀ c t, r = c :: t → isNumChar c = false

theorem strtolDigits_ok {ds : Bytes} (hne : ds ≠ []) (hd : ∀ x ∈ ds, isDigit x = true) :
    strtolDigits ds = some (natOfDigits ds) := by
  unfold strtolDigits
  have h1 : ds.isEmpty = false := by cases ds <;> simp_all
  have h2 : ds.all isDigit = true := List.all_eq_true.mpr hd
  rw [h1, h2]; rfl

/-- hypothesis on the two `strtod`s: the reference conversion `rsd` is defined only on tokens the
property's precondition admits (shorter than `NUMBER_BUF`, with a fraction or an exponent — an
integer-syntax token beyond ±(2^53−1) has no value), and on those `strtod` (`sd`) consumes the
whole token and returns the same bits -/
def StrtodAgrees (rsd : Bytes → Option UInt64) (sd : Bytes → UInt64 × Nat) : Prop :=
  ∀ tok x, rsd tok = some x → isFiniteBits x = true →
    tok.length < NUMBER_BUF ∧ tok.any isFloatChar = true ∧ sd tok = (x, tok.length)

/-- the sign test of `Rfc.number` -/
def negOf (inp : Bytes) : Bool := match inp with | 0x2D :: _ => true | _ => false
theorem negOf_minus (t : Bytes) : negOf (0x2D :: t) = true := rfl
theorem negOf_other (c : UInt8) (t : Bytes) (hc : c ≠ 0x2D) : negOf (c :: t) = false := by
  unfold negOf
  split
  · rename_i x heq
    injection heq with h1 _
    exact absurd h1 hc
  · rfl
theorem negOf_nil : negOf [] = false := rfl

theorem number_eq (rsd : Bytes → Option UInt64) (inp : Bytes) :
    Usual.C03.Rfc.number rsd inp =
      match Usual.C03.Rfc.intPart (if negOf inp = true then inp.drop 1 else inp) with
      | none => none
      | some (ip, r1) =>
        match Usual.C03.Rfc.fracPart r1 with
        | none => none
        | some (fp, r2) =>
          match Usual.C03.Rfc.expPart r2 with
          | none => none
          | some (ep, r3) =>
            if (fp == [] && ep == [] && decide (Usual.C03.Rfc.natOfDigits ip ≤ Usual.C03.Rfc.maxInt)) = true then
              some (.int (if negOf inp = true then - (Usual.C03.Rfc.natOfDigits ip : Int)
                else (Usual.C03.Rfc.natOfDigits ip : Int)), r3)
            else
              match rsd ((if negOf inp = true then [0x2D] else []) ++ ip ++ fp ++ ep) with
              | none => none
              | some x => if Usual.C03.Rfc.isFiniteBits x = true then some (.float x, r3) else none := by
  rfl

theorem number_sim {rsd : Bytes → Option UInt64} {sd : Bytes → UInt64 × Nat} (hsd : StrtodAgrees rsd sd)
    {inp : Bytes} {v : JVal} {r3 : Bytes} (h : Usual.C03.Rfc.number rsd inp = some (v, r3))
    (hend : NumEnd r3) :
    parseNumber sd inp = .ok (v, r3) ∧ ∃ c t, inp = c :: t ∧ (c = 0x2D ∨ isDigit c = true) := by
  rw [number_eq] at h
  -- the sign
  have hneg : ∃ (neg : Bool) (r0 : Bytes), inp = (if neg then [0x2D] else []) ++ r0 ∧
      negOf inp = neg ∧ (if negOf inp = true then inp.drop 1 else inp) = r0 := by
    cases inp with
    | nil => exact ⟨false, [], rfl, rfl, rfl⟩
    | cons c t =>
      by_cases hc : c = 0x2D
      · subst hc; exact ⟨true, t, rfl, rfl, rfl⟩
      · refine ⟨false, c :: t, rfl, negOf_other c t hc, ?_⟩
        rw [negOf_other c t hc]; rfl
  obtain ⟨neg, r0, einp, e1, e2⟩ := hneg
  rw [e2] at h
  simp only [e1] at h
  cases hip : Usual.C03.Rfc.intPart r0 with
  | none => simp [hip] at h
  | some p1 =>
    obtain ⟨ip, r1⟩ := p1
    simp only [hip] at h
    cases hfp : Usual.C03.Rfc.fracPart r1 with
    | none => simp [hfp] at h
    | some p2 =>
      obtain ⟨fp, r2⟩ := p2
      simp only [hfp] at h
      cases hep : Usual.C03.Rfc.expPart r2 with
      | none => simp [hep] at h
      | some p3 =>
        obtain ⟨ep, r3'⟩ := p3
        simp only [hep] at h
        obtain ⟨i1, i2, d, ds, i3, i4⟩ := intPart_spec hip
        obtain ⟨f1, f2, f3⟩ := fracPart_spec hfp
        obtain ⟨x1, x2, x3⟩ := expPart_spec hep
        have hminus : ∀ x ∈ (if neg = true then [(0x2D : UInt8)] else []), isNumChar x = true := by
          intro x hx; cases neg <;> simp at hx; subst hx; decide
        -- the token
        have htokall : ∀ x ∈ (if neg = true then [(0x2D : UInt8)] else []) ++ ip ++ fp ++ ep, isNumChar x = true := by
          intro x hx
          simp only [List.mem_append] at hx
          rcases hx with ((hx | hx) | hx) | hx
          · exact hminus x hx
          · exact isDigit_numChar (i2 x hx)
          · exact f2 x hx
          · exact x2 x hx
        have hinp : inp = ((if neg = true then [(0x2D : UInt8)] else []) ++ ip ++ fp ++ ep) ++ r3' := by
          rw [einp, i1, f1, x1]; simp only [List.append_assoc]
        have hfirst : ∃ c t, inp = c :: t ∧ (c = 0x2D ∨ isDigit c = true) := by
          rw [einp, i1, i3]
          cases neg
          · exact ⟨d, _, rfl, Or.inr (i2 d (by rw [i3]; simp))⟩
          · exact ⟨0x2D, _, rfl, Or.inl rfl⟩
        by_cases hint : (fp == [] && ep == [] && decide (Usual.C03.Rfc.natOfDigits ip ≤ Usual.C03.Rfc.maxInt)) = true
        · -- integer
          rw [if_pos hint] at h
          simp only [Option.some.injEq, Prod.mk.injEq] at h
          obtain ⟨rfl, rfl⟩ := h
          simp only [Bool.and_eq_true, beq_iff_eq, decide_eq_true_eq] at hint
          obtain ⟨⟨rfl, rfl⟩, hle⟩ := hint
          rw [rfc_natOfDigits] at hle ⊢
          have hmax : Usual.C03.Rfc.maxInt = 9007199254740991 := by decide
          rw [hmax] at hle
          have hlen : ds.length ≤ 15 := i4 (by
            have : (2 : Nat) ^ 53 - 1 = 9007199254740991 := by decide
            omega)
          simp only [List.append_nil] at hinp htokall
          obtain ⟨t1, t2⟩ := takeWhile_split isNumChar _ _ htokall hend
          refine ⟨?_, hfirst⟩
          unfold parseNumber
          rw [hinp, t1, t2]
          have hnofloat : ((if neg = true then [(0x2D : UInt8)] else []) ++ ip).any isFloatChar = false := by
            rw [List.any_eq_false]
            intro x hx
            simp only [List.mem_append] at hx
            rcases hx with hx | hx
            · cases neg <;> simp at hx; subst hx; decide
            · simp [isDigit_not_float (i2 x hx)]
          have hconv : convNumber sd ((if neg = true then [(0x2D : UInt8)] else []) ++ ip) =
              some (.int (if neg = true then -(natOfDigits ip : Int) else (natOfDigits ip : Int))) := by
            unfold convNumber
            have hl : ((if neg = true then [(0x2D : UInt8)] else []) ++ ip).length ≤ 17 := by
              rw [i3]; cases neg <;> simp <;> omega
            rw [if_neg (by
              have : NUMBER_BUF = 100 := rfl
              rw [this]; omega), hnofloat]
            simp only [Bool.false_eq_true, if_false]
            have hst : strtolTok ((if neg = true then [(0x2D : UInt8)] else []) ++ ip) =
                some (if neg = true then -(natOfDigits ip : Int) else (natOfDigits ip : Int)) := by
              have hdig := strtolDigits_ok (ds := ip) (by rw [i3]; simp) i2
              cases neg
              · simp only [Bool.false_eq_true, if_false, List.nil_append]
                rw [i3] at hdig ⊢
                unfold strtolTok
                dsimp only
                have hd := (isDigit_nat d).mp (i2 d (by rw [i3]; simp))
                have e : ∀ k : UInt8, d.toNat ≠ k.toNat → ¬ (d == k) = true := by
                  intro k hk; simp only [beq_iff_eq, u8eq]; exact hk
                rw [if_neg (e 0x2D (by simp only [UInt8.reduceToNat]; omega)),
                  if_neg (e 0x2B (by simp only [UInt8.reduceToNat]; omega)), hdig]
                rfl
              · simp only [if_true, List.singleton_append]
                unfold strtolTok
                dsimp only
                rw [if_pos (by decide), hdig]
                rfl
            rw [hst]
            simp only
            have hvv : (if neg = true then -(natOfDigits ip : Int) else (natOfDigits ip : Int)) = -(natOfDigits ip : Int) ∨
                (if neg = true then -(natOfDigits ip : Int) else (natOfDigits ip : Int)) = (natOfDigits ip : Int) := by
              cases neg
              · right; rfl
              · left; rfl
            generalize (if neg = true then -(natOfDigits ip : Int) else (natOfDigits ip : Int)) = v at hvv ⊢
            have hrange : ¬ ((decide (v < JSON_MININT) || decide (v > JSON_MAXINT)) = true) := by
              have h1 : JSON_MININT = -9007199254740991 := rfl
              have h2 : JSON_MAXINT = 9007199254740991 := rfl
              rw [h1, h2]
              simp only [Bool.or_eq_true, decide_eq_true_eq, not_or, Int.not_lt]
              rcases hvv with rfl | rfl <;> omega
            by_cases hl8 : ((if neg = true then [(0x2D : UInt8)] else []) ++ ip).length < 8
            · rw [if_pos hl8]
            · rw [if_neg hl8, if_neg hrange]
          rw [hconv]
        · -- float
          rw [if_neg hint] at h
          split at h
          · cases h
          · rename_i x hr
            have hr' : rsd ((if neg = true then [(0x2D : UInt8)] else []) ++ ip ++ fp ++ ep) = some x := by
              simpa only [List.append_assoc] using hr
            by_cases hfin : Usual.C03.Rfc.isFiniteBits x = true
            · rw [if_pos hfin] at h
              simp only [Option.some.injEq, Prod.mk.injEq] at h
              obtain ⟨rfl, rfl⟩ := h
              rw [rfc_isFiniteBits] at hfin
              obtain ⟨hl, hfl, hsdv⟩ := hsd _ x hr' hfin
              obtain ⟨t1, t2⟩ := takeWhile_split isNumChar _ _ htokall hend
              refine ⟨?_, hfirst⟩
              unfold parseNumber
              rw [hinp, t1, t2]
              have : convNumber sd ((if neg = true then [(0x2D : UInt8)] else []) ++ ip ++ fp ++ ep) = some (.float x) := by
                unfold convNumber
                rw [if_neg (by omega), hfl, if_pos rfl, hsdv]
                simp only [bne_self_eq_false, Bool.false_or, hfin, Bool.not_true, Bool.false_eq_true, if_false]
              rw [this]
            · rw [if_neg hfin] at h; cases h

end Usual.C02
