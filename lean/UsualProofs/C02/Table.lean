import Usual.C02.Parse
/-!
# C02 — finite facts about the table extracted from `json.c`

Everything here is `decide` over `Fin MAX_STATES × Fin MAX_TOKENS` on
`Usual.Gen.C02Tables.stateSteps` (regenerated from the source on every run): an edit of
`STATE_STEPS` that matters to a property theorem makes one of these fail.
-/
namespace Usual.C02
open Usual.Gen.C02Tables

theorem STEP_oob (s t : Nat) (h : ¬(s < 12 ∧ t < 8)) : STEP s t = 0 := by
  unfold STEP
  by_cases hs : s < 12
  · have ht : ¬ t < 8 := fun ht => h ⟨hs, ht⟩
    have : ∀ s : Fin 12, (stateSteps.getD s.val []).length ≤ 8 := by decide
    have hl := this ⟨s, hs⟩
    simp only [List.getD_eq_getElem?_getD] at hl ⊢
    rw [List.getElem?_eq_none (by omega)]
    rfl
  · have : stateSteps.length ≤ s := by
      have : stateSteps.length = 12 := by decide
      omega
    simp only [List.getD_eq_getElem?_getD]
    rw [List.getElem?_eq_none this]
    rfl

/-- lift a decidable fact about all table cells to all `Nat` indices -/
theorem STEP_forall (P : Nat → Nat → Nat → Prop) (h0 : ∀ s t, P s t 0)
    (hf : ∀ s : Fin 12, ∀ t : Fin 8, P s.val t.val (STEP s.val t.val)) (s t : Nat) : P s t (STEP s t) := by
  by_cases h : s < 12 ∧ t < 8
  · exact hf ⟨s, h.1⟩ ⟨t, h.2⟩
  · rw [STEP_oob s t h]; exact h0 s t

/-- no transition leads back to `S_INITIAL_VALUE` -/
theorem STEP_ne_initial (s t : Nat) : STEP s t ≠ S_INITIAL_VALUE :=
  STEP_forall (fun _ _ r => r ≠ S_INITIAL_VALUE) (by intro _ _; decide) (by decide) s t

/-- `S_DONE` is entered only from `S_INITIAL_VALUE` by a scalar (string / other) token -/
theorem STEP_done (s t : Nat) (h : STEP s t = S_DONE) :
    s = S_INITIAL_VALUE ∧ (t = T_STRING ∨ t = T_OTHER) :=
  STEP_forall (fun s t r => r = S_DONE → s = S_INITIAL_VALUE ∧ (t = T_STRING ∨ t = T_OTHER))
    (by intro _ _ h; exact absurd h (by decide)) (by decide) s t h

/-- `∀ t, STEP S_DONE t = 0`: nothing may follow the top-level value -/
theorem STEP_from_done (t : Nat) : STEP S_DONE t = 0 :=
  STEP_forall (fun s _ r => s = S_DONE → r = 0) (by intro _ _ _; rfl) (by decide) S_DONE t rfl

/-- `S_PARENT` is produced only by a closing token -/
theorem STEP_parent (s t : Nat) (h : STEP s t = S_PARENT) : t = T_CLOSE_LIST ∨ t = T_CLOSE_DICT :=
  STEP_forall (fun _ t r => r = S_PARENT → t = T_CLOSE_LIST ∨ t = T_CLOSE_DICT)
    (by intro _ _ h; exact absurd h (by decide)) (by decide) s t h

/-- after an accepted comma, neither a comma nor a closer is accepted, and the state is not final -/
theorem STEP_after_comma (s : Nat) (h : STEP s T_COMMA ≠ 0) :
    STEP (STEP s T_COMMA) T_COMMA = 0 ∧ STEP (STEP s T_COMMA) T_CLOSE_LIST = 0 ∧
    STEP (STEP s T_COMMA) T_CLOSE_DICT = 0 ∧ STEP s T_COMMA ≠ S_DONE ∧
    (STEP s T_COMMA = S_LIST_VALUE ∨ STEP s T_COMMA = S_DICT_KEY) := by
  have := STEP_forall (fun _ t r => t = T_COMMA → r ≠ 0 →
      STEP r T_COMMA = 0 ∧ STEP r T_CLOSE_LIST = 0 ∧ STEP r T_CLOSE_DICT = 0 ∧ r ≠ S_DONE ∧
      (r = S_LIST_VALUE ∨ r = S_DICT_KEY))
    (by intro _ _ _ h; exact absurd rfl h) (by decide) s T_COMMA rfl h
  exact this

/-- a comma is not accepted directly after an opener, at the start, or after a colon -/
theorem STEP_comma_after_open (s t : Nat) (ht : t = T_OPEN_LIST ∨ t = T_OPEN_DICT ∨ t = T_COLON) :
    STEP (STEP s t) T_COMMA = 0 ∧ STEP S_INITIAL_VALUE T_COMMA = 0 := by
  refine ⟨?_, by decide⟩
  exact STEP_forall (fun _ t r => (t = T_OPEN_LIST ∨ t = T_OPEN_DICT ∨ t = T_COLON) → STEP r T_COMMA = 0)
    (by intro _ _ _; decide) (by decide) s t ht

end Usual.C02
