import UsualProofs.C02.RfcBase
/-!
# C02 — acceptance, part 2: RFC 3629 sequences / code points vs `utf8_validate_seq` / `utf8_put_char`
-/
namespace Usual.C02
open Usual.C03 (JVal insertKv)
open Usual.C03 (Rfc.utf8Len Rfc.utf8Enc Rfc.isTail)
open Usual.C11 UsualProofs.C11

theorem u8eq (a b : UInt8) : a = b ↔ a.toNat = b.toNat := UInt8.toNat_inj.symm

theorem wf2_nat (a b : UInt8) : wf2 a.toBitVec b.toBitVec ↔
    (194 ≤ a.toNat ∧ a.toNat ≤ 223 ∧ 128 ≤ b.toNat ∧ b.toNat ≤ 191) := by
  unfold wf2
  simp only [BitVec.le_def, BitVec.toNat_ofNat, Nat.reducePow, Nat.reduceMod, UInt8.toNat_toBitVec]

theorem wf3_nat (a b c : UInt8) : wf3 a.toBitVec b.toBitVec c.toBitVec ↔
    (((a.toNat = 224 ∧ 160 ≤ b.toNat ∧ b.toNat ≤ 191) ∨
      (225 ≤ a.toNat ∧ a.toNat ≤ 236 ∧ 128 ≤ b.toNat ∧ b.toNat ≤ 191) ∨
      (a.toNat = 237 ∧ 128 ≤ b.toNat ∧ b.toNat ≤ 159) ∨
      (238 ≤ a.toNat ∧ a.toNat ≤ 239 ∧ 128 ≤ b.toNat ∧ b.toNat ≤ 191)) ∧ 128 ≤ c.toNat ∧ c.toNat ≤ 191) := by
  unfold wf3
  simp only [BitVec.le_def, BitVec.toNat_ofNat, Nat.reducePow, Nat.reduceMod, UInt8.toNat_toBitVec,
    ← BitVec.toNat_inj]

theorem wf4_nat (a b c d : UInt8) : wf4 a.toBitVec b.toBitVec c.toBitVec d.toBitVec ↔
    (((a.toNat = 240 ∧ 144 ≤ b.toNat ∧ b.toNat ≤ 191) ∨
      (241 ≤ a.toNat ∧ a.toNat ≤ 243 ∧ 128 ≤ b.toNat ∧ b.toNat ≤ 191) ∨
      (a.toNat = 244 ∧ 128 ≤ b.toNat ∧ b.toNat ≤ 143)) ∧
      128 ≤ c.toNat ∧ c.toNat ≤ 191 ∧ 128 ≤ d.toNat ∧ d.toNat ≤ 191) := by
  unfold wf4
  simp only [BitVec.le_def, BitVec.toNat_ofNat, Nat.reducePow, Nat.reduceMod, UInt8.toNat_toBitVec,
    ← BitVec.toNat_inj]

/-- a multi-byte `UTF8-char` of RFC 3629 is exactly what `utf8_validate_seq` measures -/
theorem utf8Len_vseq {b : UInt8} {r : Bytes} {n : Nat} (hb : 128 ≤ b.toNat)
    (h : Rfc.utf8Len (b :: r) = some n) :
    vseq (b :: r) = n ∧ 2 ≤ n ∧ n ≤ 4 ∧ n ≤ (b :: r).length := by
  unfold Rfc.utf8Len at h
  dsimp only at h
  have h7 : ¬ (b ≤ 0x7F) := by simp only [u8le, UInt8.reduceToNat]; omega
  rw [if_neg h7] at h
  by_cases h2 : (decide (0xC2 ≤ b) && decide (b ≤ 0xDF)) = true
  · rw [if_pos h2] at h
    simp only [Bool.and_eq_true, decide_eq_true_eq, u8le, UInt8.reduceToNat] at h2
    match r, h with
    | b1 :: r', h =>
      simp only at h
      by_cases ht : Rfc.isTail b1 = true
      · rw [if_pos ht] at h; cases h
        rw [isTail_iff] at ht
        refine ⟨vseq_of_wf (by omega) (by simp) ?_ (by simp [ofU8]), by omega, by omega, by simp⟩
        show WF (ofU8 [b, b1])
        unfold WF
        exact (wf2_nat b b1).mpr (by omega)
      · rw [if_neg ht] at h; cases h
    | [], h => simp at h
  rw [if_neg h2] at h
  by_cases h3 : (decide (0xE0 ≤ b) && decide (b ≤ 0xEF)) = true
  · rw [if_pos h3] at h
    simp only [Bool.and_eq_true, decide_eq_true_eq, u8le, UInt8.reduceToNat] at h3
    match r, h with
    | b1 :: b2 :: r', h =>
      simp only at h
      split at h
      · rename_i hc
        cases h
        simp only [Bool.and_eq_true, Bool.or_eq_true, decide_eq_true_eq, beq_iff_eq, u8le, isTail_iff,
          u8eq, UInt8.reduceToNat] at hc
        refine ⟨vseq_of_wf (by omega) (by simp) ?_ (by simp [ofU8]), by omega, by omega, by simp⟩
        show WF (ofU8 [b, b1, b2])
        unfold WF
        exact (wf3_nat b b1 b2).mpr (by omega)
      · cases h
    | [], h => simp at h
    | [_], h => simp at h
  rw [if_neg h3] at h
  by_cases h4 : (decide (0xF0 ≤ b) && decide (b ≤ 0xF4)) = true
  · rw [if_pos h4] at h
    simp only [Bool.and_eq_true, decide_eq_true_eq, u8le, UInt8.reduceToNat] at h4
    match r, h with
    | b1 :: b2 :: b3 :: r', h =>
      simp only at h
      split at h
      · rename_i hc
        cases h
        simp only [Bool.and_eq_true, Bool.or_eq_true, decide_eq_true_eq, beq_iff_eq, u8le, isTail_iff,
          u8eq, UInt8.reduceToNat] at hc
        refine ⟨vseq_of_wf (by omega) (by simp) ?_ (by simp [ofU8]), by omega, by omega, by simp⟩
        show WF (ofU8 [b, b1, b2, b3])
        unfold WF
        exact (wf4_nat b b1 b2 b3).mpr (by omega)
      · cases h
    | [], h => simp at h
    | [_], h => simp at h
    | [_, _], h => simp at h
  · rw [if_neg h4] at h; cases h

/-! ## `utf8_put_char` stores `utf8Enc` -/

theorem toU8_lo8 (x : BitVec 32) (k : Nat) (h : x.toNat = k) (hk : k < 256) :
    UInt8.ofBitVec (lo8 x) = UInt8.ofNat k := by
  apply UInt8.toNat_inj.mp
  rw [UInt8.toNat_ofNat']
  show (lo8 x).toNat = k % 256
  rw [lo8_self x (by omega), h, Nat.mod_eq_of_lt hk]

theorem bv_add_toNat (a : Nat) (x : BitVec 32) (h : a + x.toNat < 2 ^ 32) (ha : a < 2 ^ 32) :
    (BitVec.ofNat 32 a + x).toNat = a + x.toNat := by
  rw [BitVec.toNat_add, BitVec.toNat_ofNat, Nat.mod_eq_of_lt ha, Nat.mod_eq_of_lt h]

/-- for a scalar value with room, `utf8_put_char` writes RFC 3629's encoding -/
theorem putCharU_enc (room c : Nat) (hs : c < 0xD800 ∨ (0xDFFF < c ∧ c ≤ 0x10FFFF)) (hr : 4 ≤ room) :
    Usual.C11.putCharU room c = (true, (Rfc.utf8Enc c).length, Rfc.utf8Enc c) := by
  have hlt : c < 2 ^ 32 := by omega
  have hn : (BitVec.ofNat 32 c).toNat = c := by rw [BitVec.toNat_ofNat]; exact Nat.mod_eq_of_lt hlt
  unfold putCharU Rfc.utf8Enc
  by_cases h1 : c < 0x80
  · rw [pc1 room _ (by rw [hn]; exact h1) (by omega)]
    simp only [toU8, List.map, if_pos h1]
    rw [toU8_lo8 _ c hn (by omega)]
    rfl
  rw [if_neg h1]
  by_cases h2 : c < 0x800
  · rw [pc2 room _ (by rw [hn]; omega) (by rw [hn]; exact h2) (by omega)]
    simp only [toU8, List.map, if_pos h2]
    have e1 : (0xC0#32 + BitVec.ofNat 32 c / 64#32).toNat = 0xC0 + c / 64 := by
      rw [bv_add_toNat 0xC0 _ (by rw [div_toNat _ 64 (by omega), hn]; omega) (by omega),
        div_toNat _ 64 (by omega), hn]
    have e2 : (0x80#32 + BitVec.ofNat 32 c % 64#32).toNat = 0x80 + c % 64 := by
      rw [bv_add_toNat 0x80 _ (by rw [mod_toNat _ 64 (by omega), hn]; omega) (by omega),
        mod_toNat _ 64 (by omega), hn]
    rw [toU8_lo8 _ _ e1 (by omega), toU8_lo8 _ _ e2 (by omega)]
    rfl
  rw [if_neg h2]
  by_cases h3 : c < 0x10000
  · rw [pc3 room _ (by rw [hn]; omega) (by rw [hn]; exact h3) (by rw [hn]; omega) (by omega)]
    simp only [toU8, List.map, if_pos h3]
    have e1 : (0xE0#32 + BitVec.ofNat 32 c / 4096#32).toNat = 0xE0 + c / 4096 := by
      rw [bv_add_toNat 0xE0 _ (by rw [div_toNat _ 4096 (by omega), hn]; omega) (by omega),
        div_toNat _ 4096 (by omega), hn]
    have m2 : (BitVec.ofNat 32 c / 64#32 % 64#32).toNat = c / 64 % 64 := by
      rw [mod_toNat _ 64 (by omega), div_toNat _ 64 (by omega), hn]
    have e2 : (0x80#32 + BitVec.ofNat 32 c / 64#32 % 64#32).toNat = 0x80 + c / 64 % 64 := by
      rw [bv_add_toNat 0x80 _ (by rw [m2]; omega) (by omega), m2]
    have e3 : (0x80#32 + BitVec.ofNat 32 c % 64#32).toNat = 0x80 + c % 64 := by
      rw [bv_add_toNat 0x80 _ (by rw [mod_toNat _ 64 (by omega), hn]; omega) (by omega),
        mod_toNat _ 64 (by omega), hn]
    rw [toU8_lo8 _ _ e1 (by omega), toU8_lo8 _ _ e2 (by omega), toU8_lo8 _ _ e3 (by omega)]
    rfl
  rw [if_neg h3]
  rw [pc4 room _ (by rw [hn]; omega) (by rw [hn]; omega) (by omega)]
  simp only [toU8, List.map]
  have e1 : (0xF0#32 + BitVec.ofNat 32 c / 262144#32).toNat = 0xF0 + c / 262144 := by
    rw [bv_add_toNat 0xF0 _ (by rw [div_toNat _ 262144 (by omega), hn]; omega) (by omega),
      div_toNat _ 262144 (by omega), hn]
  have m2 : (BitVec.ofNat 32 c / 4096#32 % 64#32).toNat = c / 4096 % 64 := by
    rw [mod_toNat _ 64 (by omega), div_toNat _ 4096 (by omega), hn]
  have e2 : (0x80#32 + BitVec.ofNat 32 c / 4096#32 % 64#32).toNat = 0x80 + c / 4096 % 64 := by
    rw [bv_add_toNat 0x80 _ (by rw [m2]; omega) (by omega), m2]
  have m3 : (BitVec.ofNat 32 c / 64#32 % 64#32).toNat = c / 64 % 64 := by
    rw [mod_toNat _ 64 (by omega), div_toNat _ 64 (by omega), hn]
  have e3 : (0x80#32 + BitVec.ofNat 32 c / 64#32 % 64#32).toNat = 0x80 + c / 64 % 64 := by
    rw [bv_add_toNat 0x80 _ (by rw [m3]; omega) (by omega), m3]
  have e4 : (0x80#32 + BitVec.ofNat 32 c % 64#32).toNat = 0x80 + c % 64 := by
    rw [bv_add_toNat 0x80 _ (by rw [mod_toNat _ 64 (by omega), hn]; omega) (by omega),
      mod_toNat _ 64 (by omega), hn]
  rw [toU8_lo8 _ _ e1 (by omega), toU8_lo8 _ _ e2 (by omega), toU8_lo8 _ _ e3 (by omega),
    toU8_lo8 _ _ e4 (by omega)]
  rfl

theorem utf8Enc_length (c : Nat) : 1 ≤ (Rfc.utf8Enc c).length ∧ (Rfc.utf8Enc c).length ≤ 4 := by
  unfold Rfc.utf8Enc
  split
  · simp
  · split
    · simp
    · split <;> simp

end Usual.C02
