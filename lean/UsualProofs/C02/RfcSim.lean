import UsualProofs.C02.RfcCtx
/-!
# C02 — acceptance, part 7: the iterative parser follows the recursive reference

`PV`/`PE`/`PM fuel`: whenever `Rfc.value` / `Rfc.elems` / `Rfc.members` with that fuel succeed on
an input, the token loop, started in a matching state on the same input, arrives at the state
"value complete" with exactly the bytes left that the reference left.
-/
namespace Usual.C02
open Usual.C03 (JVal insertKv)
open Usual.Gen.C02Tables

/-! ## first byte of a value -/

def ValStart (b : UInt8) : Prop :=
  b = 0x5B ∨ b = 0x7B ∨ b = 0x22 ∨ b = 0x66 ∨ b = 0x6E ∨ b = 0x74 ∨ b = 0x2D ∨ isDigit b = true

theorem ValStart_facts {b : UInt8} (h : ValStart b) :
    isSpace b = false ∧ b ≠ 0x5D ∧ b ≠ 0x7D ∧ isNumChar 0x2C = false := by
  rcases h with h | h | h | h | h | h | h | h
  iterate 7 (subst h; exact ⟨by decide, by decide, by decide, by decide⟩)
  rw [isDigit_nat] at h
  refine ⟨?_, ?_, ?_, by decide⟩
  · unfold isSpace
    have e : ∀ k : UInt8, b.toNat ≠ k.toNat → (b == k) = false := by
      intro k hk; simp only [beq_eq_false_iff_ne, ne_eq, u8eq]; exact hk
    rw [e 0x20 (by simp only [UInt8.reduceToNat]; omega)]
    simp only [Bool.or_false, Bool.and_eq_false_iff, decide_eq_false_iff_not, u8le, UInt8.reduceToNat]
    omega
  · intro e; rw [e] at h; simp at h
  · intro e; rw [e] at h; simp at h

theorem number_first {rsd : Bytes → Option UInt64} {inp : Bytes} {v : JVal} {r : Bytes}
    (h : Usual.C03.Rfc.number rsd inp = some (v, r)) : ∃ c t, inp = c :: t ∧ (c = 0x2D ∨ isDigit c = true) := by
  rw [number_eq] at h
  cases inp with
  | nil => simp [negOf_nil, Usual.C03.Rfc.intPart] at h
  | cons c t =>
    by_cases hc : c = 0x2D
    · exact ⟨c, t, rfl, Or.inl hc⟩
    · rw [negOf_other c t hc] at h
      simp only [Bool.false_eq_true, if_false] at h
      cases hip : Usual.C03.Rfc.intPart (c :: t) with
      | none => simp [hip] at h
      | some p =>
        obtain ⟨ip, r1⟩ := p
        obtain ⟨i1, i2, d, ds, i3, _⟩ := intPart_spec hip
        rw [i3] at i1 i2
        simp only [List.cons_append, List.cons.injEq] at i1
        exact ⟨c, t, rfl, Or.inr (by rw [i1.1]; exact i2 d (by simp))⟩

theorem value_first {rsd : Bytes → Option UInt64} {fuel : Nat} {inp : Bytes} {v : JVal} {r : Bytes}
    (h : Usual.C03.Rfc.value rsd fuel inp = some (v, r)) : ∃ b t, inp = b :: t ∧ ValStart b := by
  match fuel, inp, h with
  | 0, _, h => simp [Usual.C03.Rfc.value] at h
  | _ + 1, [], h => simp [Usual.C03.Rfc.value] at h
  | f + 1, b :: t, h =>
    refine ⟨b, t, rfl, ?_⟩
    unfold Usual.C03.Rfc.value at h
    by_cases h1 : (b == 0x5B) = true
    · exact Or.inl (by simpa using h1)
    rw [if_neg h1] at h
    by_cases h2 : (b == 0x7B) = true
    · exact Or.inr (Or.inl (by simpa using h2))
    rw [if_neg h2] at h
    by_cases h3 : (b == 0x22) = true
    · exact Or.inr (Or.inr (Or.inl (by simpa using h3)))
    rw [if_neg h3] at h
    by_cases h4 : (b == 0x66) = true
    · exact Or.inr (Or.inr (Or.inr (Or.inl (by simpa using h4))))
    rw [if_neg h4] at h
    by_cases h5 : (b == 0x6E) = true
    · exact Or.inr (Or.inr (Or.inr (Or.inr (Or.inl (by simpa using h5)))))
    rw [if_neg h5] at h
    by_cases h6 : (b == 0x74) = true
    · exact Or.inr (Or.inr (Or.inr (Or.inr (Or.inr (Or.inl (by simpa using h6))))))
    rw [if_neg h6] at h
    obtain ⟨c, t', e, hc⟩ := number_first h
    cases e
    rcases hc with hc | hc
    · exact Or.inr (Or.inr (Or.inr (Or.inr (Or.inr (Or.inr (Or.inl hc))))))
    · exact Or.inr (Or.inr (Or.inr (Or.inr (Or.inr (Or.inr (Or.inr hc))))))

theorem stripPrefix_spec : ∀ (p s r : Bytes), Usual.C03.Rfc.stripPrefix p s = some r → s = p ++ r
  | [], s, r, h => by simp [Usual.C03.Rfc.stripPrefix] at h; simp [h]
  | _ :: _, [], r, h => by simp [Usual.C03.Rfc.stripPrefix] at h
  | a :: p, b :: s, r, h => by
    unfold Usual.C03.Rfc.stripPrefix at h
    by_cases hab : (a == b) = true
    · rw [if_pos hab] at h
      have : a = b := by simpa using hab
      rw [this, List.cons_append, stripPrefix_spec p s r h]
    · rw [if_neg hab] at h; cases h

theorem parseChar4_ok (exp rest : Bytes) (hl : exp.length = 4) : parseChar4 exp (exp ++ rest) = .ok rest := by
  unfold parseChar4
  rw [if_neg (by simp; omega), if_neg (by rw [← hl, List.take_left]; simp)]
  rw [← hl, List.drop_left]

/-- `NumEnd` from what the reference requires after a value -/
theorem NumEnd_of_skipWs {r : Bytes} {c : UInt8} {t : Bytes} (h : Usual.C03.Rfc.skipWs r = c :: t)
    (hc : isNumChar c = false) : NumEnd r := by
  intro x u e
  subst e
  unfold Usual.C03.Rfc.skipWs at h
  by_cases hx : Usual.C03.Rfc.isWs x = true
  · unfold Usual.C03.Rfc.isWs at hx
    simp only [Bool.or_eq_true, beq_iff_eq] at hx
    rcases hx with ((hx | hx) | hx) | hx <;> (subst hx; decide)
  · rw [if_neg hx] at h; cases h; exact hc

theorem NumEnd_of_skipWs_nil {r : Bytes} (h : Usual.C03.Rfc.skipWs r = []) : NumEnd r := by
  intro x u e
  subst e
  unfold Usual.C03.Rfc.skipWs at h
  by_cases hx : Usual.C03.Rfc.isWs x = true
  · unfold Usual.C03.Rfc.isWs at hx
    simp only [Bool.or_eq_true, beq_iff_eq] at hx
    rcases hx with ((hx | hx) | hx) | hx <;> (subst hx; decide)
  · rw [if_neg hx] at h; cases h

section sim
variable (rsd : Bytes → Option UInt64) (sd : Bytes → UInt64 × Nat) (o : Opts)

def PV (fuel : Nat) : Prop :=
  ∀ (inp : Bytes) (v : JVal) (r : Bytes) (st : St), Usual.C03.Rfc.value rsd fuel inp = some (v, r) →
    ValCtx st → okV v → NumEnd r → run sd o st inp = run sd o (done st.stack st.top v) r

def PE (fuel : Nat) : Prop :=
  ∀ (inp : Bytes) (vs : List JVal) (r : Bytes) (s : Nat) (es : List JVal) (fs : List Frame) (top : Option JVal),
    Usual.C03.Rfc.elems rsd fuel inp = some (vs, r) → (s = S_LIST_VALUE ∨ s = S_LIST_VALUE_OR_CLOSE) →
    ParentOK fs top → okL vs →
    run sd o ⟨s, .list es :: fs, top⟩ inp = run sd o (done fs top (.list (es.reverse ++ vs))) r

def PM (fuel : Nat) : Prop :=
  ∀ (inp : Bytes) (ms : List (Bytes × JVal)) (r : Bytes) (s : Nat) (kvs : List (Bytes × JVal))
    (fs : List Frame) (top : Option JVal) (d : List (Bytes × JVal)),
    Usual.C03.Rfc.members rsd fuel inp = some (ms, r) → (s = S_DICT_KEY ∨ s = S_DICT_KEY_OR_CLOSE) →
    ParentOK fs top → insL (some kvs) ms = some d → (∀ p ∈ ms, okP okV p) →
    run sd o ⟨s, .dict kvs none :: fs, top⟩ inp = run sd o (done fs top (.dict d)) r

/-! ### elements of an array -/

theorem elems_step (fuel : Nat) (hv : PV rsd sd o fuel) (he : PE rsd sd o fuel) : PE rsd sd o (fuel + 1) := by
  intro inp vs r s es fs top h hs hp hok
  unfold Usual.C03.Rfc.elems at h
  cases hval : Usual.C03.Rfc.value rsd fuel inp with
  | none => simp [hval] at h
  | some p =>
    obtain ⟨v, r1⟩ := p
    simp only [hval] at h
    cases hws : Usual.C03.Rfc.skipWs r1 with
    | nil => simp [hws] at h
    | cons c r2 =>
      simp only [hws] at h
      have hctx : ValCtx ⟨s, .list es :: fs, top⟩ := ⟨trivial, hs⟩
      by_cases hc : (c == 0x2C) = true
      · rw [if_pos hc] at h
        have hc' : c = 0x2C := by simpa using hc
        subst hc'
        cases hel : Usual.C03.Rfc.elems rsd fuel (Usual.C03.Rfc.skipWs r2) with
        | none => simp [hel] at h
        | some q =>
          obtain ⟨vs', r''⟩ := q
          simp only [hel, Option.some.injEq, Prod.mk.injEq] at h
          obtain ⟨rfl, rfl⟩ := h
          simp only [okL] at hok
          rw [hv inp v r1 _ hval hctx hok.1 (NumEnd_of_skipWs hws (by decide))]
          show run sd o ⟨S_LIST_COMMA_OR_CLOSE, .list (v :: es) :: fs, top⟩ r1 = _
          rw [← run_skipWs, hws]
          -- the comma is a separator: a value follows
          have hfirst : ∃ x t, Usual.C03.Rfc.skipWs r2 = x :: t ∧ ValStart x := by
            match fuel, hel with
            | 0, hel => simp [Usual.C03.Rfc.elems] at hel
            | f + 1, hel =>
              unfold Usual.C03.Rfc.elems at hel
              cases hv2 : Usual.C03.Rfc.value rsd f (Usual.C03.Rfc.skipWs r2) with
              | none => simp [hv2] at hel
              | some q2 => exact value_first hv2
          obtain ⟨x, t, hx, hvs⟩ := hfirst
          obtain ⟨f1, f2, f3, _⟩ := ValStart_facts hvs
          rw [run_comma_sep sd o _ r2 x t hx f1 f3 f2 (by show STEP S_LIST_COMMA_OR_CLOSE T_COMMA ≠ 0; decide)]
          rw [← run_skipWs]
          have := he (Usual.C03.Rfc.skipWs r2) vs' r'' S_LIST_VALUE (v :: es) fs top hel (Or.inl rfl) hp hok.2
          simp only [List.reverse_cons, List.append_assoc, List.singleton_append] at this
          exact this
      · rw [if_neg hc] at h
        by_cases hc2 : (c == 0x5D) = true
        · rw [if_pos hc2] at h
          have hc' : c = 0x5D := by simpa using hc2
          subst hc'
          simp only [Option.some.injEq, Prod.mk.injEq] at h
          obtain ⟨rfl, rfl⟩ := h
          simp only [okL] at hok
          rw [hv inp v r1 _ hval hctx hok.1 (NumEnd_of_skipWs hws (by decide))]
          show run sd o ⟨S_LIST_COMMA_OR_CLOSE, .list (v :: es) :: fs, top⟩ r1 = _
          rw [← run_skipWs, hws, run_cons]
          have hcl : classify 0x5D = .closeL := by decide
          unfold step; rw [hcl]
          simp only
          rw [close_step S_LIST_COMMA_OR_CLOSE _ fs top T_CLOSE_LIST _ hp (by decide)]
          simp only [Frame.value, List.reverse_cons]
        · rw [if_neg hc2] at h; cases h

/-! ### members of an object -/

theorem members_step (fuel : Nat) (hv : PV rsd sd o fuel) (hm : PM rsd sd o fuel) : PM rsd sd o (fuel + 1) := by
  intro inp ms r s kvs fs top d h hs hp hins hok
  match inp, h with
  | [], h => simp [Usual.C03.Rfc.members] at h
  | q :: r0, h =>
    unfold Usual.C03.Rfc.members at h
    by_cases hq : (q == 0x22) = true
    · rw [if_pos hq] at h
      have hq' : q = 0x22 := by simpa using hq
      subst hq'
      cases hstr : Usual.C03.Rfc.string r0 with
      | none => simp [hstr] at h
      | some p1 =>
        obtain ⟨k, r1⟩ := p1
        simp only [hstr] at h
        cases hws1 : Usual.C03.Rfc.skipWs r1 with
        | nil => simp [hws1] at h
        | cons c r2 =>
          simp only [hws1] at h
          by_cases hc : (c == 0x3A) = true
          · rw [if_pos hc] at h
            have hc' : c = 0x3A := by simpa using hc
            subst hc'
            cases hval : Usual.C03.Rfc.value rsd fuel (Usual.C03.Rfc.skipWs r2) with
            | none => simp [hval] at h
            | some p2 =>
              obtain ⟨v, r3⟩ := p2
              simp only [hval] at h
              cases hws3 : Usual.C03.Rfc.skipWs r3 with
              | nil => simp [hws3] at h
              | cons c' r4 =>
                simp only [hws3] at h
                -- facts valid for both continuations, from the first member being (k, v)
                have common : ∀ ms', ms = (k, v) :: ms' →
                    ∃ kvs1, insertKv k v kvs = some kvs1 ∧ insL (some kvs1) ms' = some d ∧ okP okV (k, v) ∧
                    run sd o ⟨s, .dict kvs none :: fs, top⟩ (0x22 :: r0) =
                      run sd o ⟨S_DICT_COMMA_OR_CLOSE, .dict kvs1 none :: fs, top⟩ (c' :: r4) := by
                  intro ms' hms
                  subst hms
                  have hokp := hok (k, v) (by simp)
                  have hins' : insL (insOp (k, v) (some kvs)) ms' = some d := hins
                  cases hik : insertKv k v kvs with
                  | none =>
                    simp only [insOp, hik, Option.bind_some] at hins'
                    rw [insL_none] at hins'; cases hins'
                  | some kvs1 =>
                    simp only [insOp, hik, Option.bind_some] at hins'
                    refine ⟨kvs1, rfl, hins', hokp, ?_⟩
                    -- the name
                    obtain ⟨body, esc, hscan, hun⟩ := string_sim o hstr hokp.1
                    have hsk : STEP s T_STRING = S_DICT_COLON := by
                      rcases hs with rfl | rfl <;> decide
                    rw [run_cons]
                    have hcl : classify 0x22 = .quote := by decide
                    unfold step; rw [hcl]
                    simp only [stepString]
                    rw [withTok_pos (by rw [hsk]; decide), hscan]
                    simp only [attachErr, List.isEmpty_cons, Bool.false_and, Bool.false_eq_true, if_false, hun]
                    simp only [valueStep, attach, hsk]
                    -- the colon
                    rw [← run_skipWs, hws1, run_cons]
                    have hcl2 : classify 0x3A = .colon := by decide
                    unfold step; rw [hcl2]
                    simp only [stepColon]
                    rw [withTok_pos (by show STEP S_DICT_COLON T_COLON ≠ 0; decide)]
                    have hadd : addKey ⟨STEP S_DICT_COLON T_COLON, .dict kvs (some (.str k)) :: fs, top⟩ =
                        .ok ⟨STEP S_DICT_COLON T_COLON, .dict kvs (some (.str k)) :: fs, top⟩ := by
                      unfold addKey
                      simp only
                      rw [if_neg (by have h3 : k.length ≤ JSON_MAX_KEY := hokp.2.1; omega)]
                      have : (insertKv k .null kvs).isNone = false := by
                        have := insertKv_isSome k v .null kvs
                        rw [hik] at this
                        cases h' : insertKv k .null kvs with
                        | none => rw [h'] at this; cases this
                        | some _ => rfl
                      rw [this]; rfl
                    simp only [hadd]
                    -- the value
                    have hctx : ValCtx ⟨STEP S_DICT_COLON T_COLON, .dict kvs (some (.str k)) :: fs, top⟩ :=
                      ⟨⟨k, rfl⟩, by show STEP S_DICT_COLON T_COLON = S_DICT_VALUE; decide⟩
                    rw [← run_skipWs]
                    have hne : NumEnd r3 := by
                      by_cases h1 : (c' == 0x2C) = true
                      · have : c' = 0x2C := by simpa using h1
                        subst this; exact NumEnd_of_skipWs hws3 (by decide)
                      · rw [if_neg h1] at h
                        by_cases h2 : (c' == 0x7D) = true
                        · have : c' = 0x7D := by simpa using h2
                          subst this; exact NumEnd_of_skipWs hws3 (by decide)
                        · rw [if_neg h2] at h; cases h
                    rw [hv _ v r3 _ hval hctx hokp.2.2 hne]
                    show run sd o ⟨S_DICT_COMMA_OR_CLOSE, .dict ((insertKv k v kvs).getD kvs) none :: fs, top⟩ r3 = _
                    rw [hik, Option.getD_some, ← run_skipWs, hws3]
                by_cases hc1 : (c' == 0x2C) = true
                · rw [if_pos hc1] at h
                  have : c' = 0x2C := by simpa using hc1
                  subst this
                  cases hmem : Usual.C03.Rfc.members rsd fuel (Usual.C03.Rfc.skipWs r4) with
                  | none => simp [hmem] at h
                  | some p3 =>
                    obtain ⟨ms', r5⟩ := p3
                    simp only [hmem, Option.some.injEq, Prod.mk.injEq] at h
                    obtain ⟨hms, rfl⟩ := h
                    obtain ⟨kvs1, _, hins1, _, hrun⟩ := common ms' hms.symm
                    rw [hrun]
                    -- after the comma a name follows
                    have hfirst : ∃ t, Usual.C03.Rfc.skipWs r4 = 0x22 :: t := by
                      match fuel, hmem with
                      | 0, hmem => simp [Usual.C03.Rfc.members] at hmem
                      | f + 1, hmem =>
                        cases hsk : Usual.C03.Rfc.skipWs r4 with
                        | nil => rw [hsk] at hmem; simp [Usual.C03.Rfc.members] at hmem
                        | cons x t =>
                          rw [hsk] at hmem
                          unfold Usual.C03.Rfc.members at hmem
                          by_cases hx : (x == 0x22) = true
                          · have : x = 0x22 := by simpa using hx
                            subst this; exact ⟨t, rfl⟩
                          · rw [if_neg hx] at hmem; cases hmem
                    obtain ⟨t, hx⟩ := hfirst
                    rw [run_comma_sep sd o _ r4 0x22 t hx (by decide) (by decide) (by decide)
                      (by show STEP S_DICT_COMMA_OR_CLOSE T_COMMA ≠ 0; decide)]
                    rw [← run_skipWs]
                    have hok' : ∀ p ∈ ms', okP okV p := by
                      intro p hp'; exact hok p (by rw [← hms]; simp [hp'])
                    exact hm (Usual.C03.Rfc.skipWs r4) ms' _ S_DICT_KEY kvs1 fs top d hmem (Or.inl rfl) hp hins1 hok'
                · rw [if_neg hc1] at h
                  by_cases hc2 : (c' == 0x7D) = true
                  · rw [if_pos hc2] at h
                    have : c' = 0x7D := by simpa using hc2
                    subst this
                    simp only [Option.some.injEq, Prod.mk.injEq] at h
                    obtain ⟨hms, rfl⟩ := h
                    obtain ⟨kvs1, _, hins1, _, hrun⟩ := common [] hms.symm
                    rw [hrun, run_cons]
                    have hcl : classify 0x7D = .closeD := by decide
                    unfold step; rw [hcl]
                    simp only
                    rw [close_step S_DICT_COMMA_OR_CLOSE _ fs top T_CLOSE_DICT _ hp (by decide)]
                    simp only [Frame.value]
                    simp only [insL, Option.some.injEq] at hins1
                    rw [hins1]
                  · rw [if_neg hc2] at h; cases h
          · rw [if_neg hc] at h; cases h
    · rw [if_neg hq] at h; cases h

end sim
end Usual.C02
