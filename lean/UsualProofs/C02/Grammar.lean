import UsualProofs.C02.Table
/-!
# C02 — `STATE_STEPS` is the automaton of the RFC 8259 grammar

`specStep` is written from the grammar (`value`, `array = [ value *( , value ) ]`,
`object = { member *( , member ) }`, `member = string : value`), not from `json.c`:
a value may start where one is expected; a name where a member may start; `,` only after a
complete element / member; `:` only after a name; a closer only directly after the opener or after
a complete element / member.  The extracted table agrees with it cell by cell — any edit of
`STATE_STEPS` breaks `state_table_is_grammar`.
-/
namespace Usual.C02
open Usual.Gen.C02Tables

def expectsValue (s : Nat) : Bool :=
  s == S_INITIAL_VALUE || s == S_LIST_VALUE || s == S_LIST_VALUE_OR_CLOSE || s == S_DICT_VALUE

def afterValue (s : Nat) : Nat :=
  if s == S_INITIAL_VALUE then S_DONE
  else if s == S_DICT_VALUE then S_DICT_COMMA_OR_CLOSE
  else S_LIST_COMMA_OR_CLOSE

def specStep (s t : Nat) : Nat :=
  if t == T_STRING then
    (if expectsValue s then afterValue s
     else if s == S_DICT_KEY || s == S_DICT_KEY_OR_CLOSE then S_DICT_COLON else 0)
  else if t == T_OTHER then (if expectsValue s then afterValue s else 0)
  else if t == T_OPEN_LIST then (if expectsValue s then S_LIST_VALUE_OR_CLOSE else 0)
  else if t == T_OPEN_DICT then (if expectsValue s then S_DICT_KEY_OR_CLOSE else 0)
  else if t == T_COMMA then
    (if s == S_LIST_COMMA_OR_CLOSE then S_LIST_VALUE
     else if s == S_DICT_COMMA_OR_CLOSE then S_DICT_KEY else 0)
  else if t == T_COLON then (if s == S_DICT_COLON then S_DICT_VALUE else 0)
  else if t == T_CLOSE_LIST then
    (if s == S_LIST_VALUE_OR_CLOSE || s == S_LIST_COMMA_OR_CLOSE then S_PARENT else 0)
  else if t == T_CLOSE_DICT then
    (if s == S_DICT_KEY_OR_CLOSE || s == S_DICT_COMMA_OR_CLOSE then S_PARENT else 0)
  else 0

theorem specStep_oob (s t : Nat) (h : ¬(s < 12 ∧ t < 8)) : specStep s t = 0 := by
  by_cases ht : t < 8
  · have hs : 12 ≤ s := by omega
    have e : ∀ k, k < 12 → (s == k) = false := by
      intro k hk; simp only [beq_eq_false_iff_ne, ne_eq]; omega
    have hv : expectsValue s = false := by
      unfold expectsValue
      rw [e S_INITIAL_VALUE (by decide), e S_LIST_VALUE (by decide), e S_LIST_VALUE_OR_CLOSE (by decide),
        e S_DICT_VALUE (by decide)]; rfl
    unfold specStep
    rw [hv, e S_DICT_KEY (by decide), e S_DICT_KEY_OR_CLOSE (by decide), e S_LIST_COMMA_OR_CLOSE (by decide),
      e S_DICT_COMMA_OR_CLOSE (by decide), e S_DICT_COLON (by decide), e S_LIST_VALUE_OR_CLOSE (by decide)]
    simp
  · have e : ∀ k, k < 8 → (t == k) = false := by
      intro k hk; simp only [beq_eq_false_iff_ne, ne_eq]; omega
    unfold specStep
    rw [e T_STRING (by decide), e T_OTHER (by decide), e T_OPEN_LIST (by decide), e T_OPEN_DICT (by decide),
      e T_COMMA (by decide), e T_COLON (by decide), e T_CLOSE_LIST (by decide), e T_CLOSE_DICT (by decide)]
    rfl

theorem STEP_eq_specStep (s t : Nat) : STEP s t = specStep s t := by
  by_cases h : s < 12 ∧ t < 8
  · have : ∀ s : Fin 12, ∀ t : Fin 8, STEP s.val t.val = specStep s.val t.val := by decide
    exact this ⟨s, h.1⟩ ⟨t, h.2⟩
  · rw [STEP_oob s t h, specStep_oob s t h]

end Usual.C02
