import UsualProofs.C02.Loop
/-!
# C02 — totality: a failed parse always carries a message

`Err.none` stands for `json_strerror(ctx) == NULL`.  It appears in the model in three places:
fuel exhaustion of the three loops, and `return ctx->top` with `top == NULL` in state `S_DONE`.
None of them is reachable.
-/
namespace Usual.C02
open Usual.C03 (JVal insertKv)
open Usual.Gen.C02Tables

/-! ## inner loops never run out of fuel -/

theorem scanString_ne_none (chk : Bool) : ∀ (f : Nat) (s : Bytes) (n : Nat) (e : Bool),
    s.length < f → scanString chk f s n e ≠ .error .none
  | 0, _, _, _, h => by omega
  | f + 1, [], n, e, _ => by simp [scanString]
  | f + 1, c :: rest, n, e, h => by
    have hl : rest.length < f := by simp at h; omega
    unfold scanString
    split
    · exact scanString_ne_none chk f rest _ _ hl
    split
    · simp
    split
    · cases rest with
      | nil => exact scanString_ne_none chk f [] _ _ (by simp; omega)
      | cons d rest' =>
        simp only
        split
        · exact scanString_ne_none chk f rest' _ _ (by simp at hl; omega)
        · exact scanString_ne_none chk f (d :: rest') _ _ hl
    split
    · split
      · rename_i hk
        refine scanString_ne_none chk f _ _ _ ?_
        have hk' : vseq (c :: rest) ≠ 0 := by simpa using hk
        rw [List.length_drop]
        simp; omega
      · split
        · simp
        · exact scanString_ne_none chk f rest _ _ hl
    split
    · exact scanString_ne_none chk f rest _ _ hl
    · simp

theorem putEsc_rest {room c : Nat} {rest bs r : Bytes} (h : putEsc room c rest = .ok (bs, r)) : r = rest := by
  unfold putEsc at h
  split at h
  · cases h; rfl
  · cases h

theorem putEsc_ne_none (room c : Nat) (rest : Bytes) : putEsc room c rest ≠ .error .none := by
  unfold putEsc
  split <;> simp

theorem parseUescape_rest {room : Nat} {src bs r : Bytes} (h : parseUescape room src = .ok (bs, r)) :
    r.length ≤ src.length := by
  unfold parseUescape at h
  split at h
  · cases h
  · split at h
    · cases h
    · split at h
      · split at h
        · cases h
        · split at h
          · rename_i a b t hd
            split at h
            · cases h
            · split at h
              · cases h
              · split at h
                · cases h
                · have := putEsc_rest h
                  subst this
                  have : (src.drop 4).length = t.length + 2 := by rw [hd]; simp
                  simp at this ⊢
                  omega
          · cases h
      · have := putEsc_rest h
        subst this
        simp

theorem parseUescape_ne_none (room : Nat) (src : Bytes) : parseUescape room src ≠ .error .none := by
  unfold parseUescape
  split
  · simp
  · split
    · simp
    · split
      · split
        · simp
        · split
          · split
            · simp
            · split
              · simp
              · split
                · simp
                · exact putEsc_ne_none _ _ _
          · simp
      · exact putEsc_ne_none _ _ _

theorem processEscapes_ne_none (total : Nat) : ∀ (f : Nat) (s acc : Bytes),
    s.length < f → processEscapes total f s acc ≠ .error .none
  | 0, _, _, h => by omega
  | f + 1, [], acc, _ => by simp [processEscapes]
  | f + 1, c :: rest, acc, h => by
    have hl : rest.length < f := by simp at h; omega
    unfold processEscapes
    split
    · exact processEscapes_ne_none total f rest _ hl
    · cases rest with
      | nil => simp
      | cons e rest' =>
        simp only
        split
        · exact processEscapes_ne_none total f rest' _ (by simp at hl; omega)
        · split
          · cases hp : parseUescape (total - acc.length) rest' with
            | error er =>
              simp only
              intro hc
              cases hc
              exact parseUescape_ne_none _ _ hp
            | ok p =>
              obtain ⟨bs, r⟩ := p
              simp only
              have := parseUescape_rest hp
              exact processEscapes_ne_none total f r _ (by simp at hl; omega)
          · simp

theorem scanBody_ne_none (o : Opts) (src : Bytes) : scanBody o src ≠ .error .none := by
  unfold scanBody
  cases hs : scanString (!o.ignoreEnc) (src.length + 1) src 0 false with
  | error e =>
    simp only
    intro hc; cases hc
    exact scanString_ne_none _ _ _ _ _ (by omega) hs
  | ok p => simp

theorem unescape_ne_none (body : Bytes) (esc : Bool) : unescape body esc ≠ .error .none := by
  unfold unescape
  split
  · exact processEscapes_ne_none _ _ _ _ (by omega)
  · simp

/-! ## the state invariant behind `return ctx->top` -/

/-- in the initial state no container is open; in the final state the top value exists -/
def Inv (st : St) : Prop :=
  (st.state = S_INITIAL_VALUE → st.stack = []) ∧ (st.state = S_DONE → st.top.isSome = true)

theorem Inv_init : Inv St.init := by
  constructor
  · intro _; rfl
  · intro h; exact absurd h (by decide)

theorem attach_state {st st' : St} {v : JVal} (h : attach st v = .ok st') : st'.state = st.state := by
  unfold attach at h
  split at h
  · split at h <;> (cases h; rfl)
  · cases h; rfl
  · split at h
    · cases h
    · cases h; rfl

theorem attach_top {st st' : St} {v : JVal} (h : attach st v = .ok st') (hs : st.stack = []) :
    st'.top.isSome = true := by
  unfold attach at h
  rw [hs] at h
  simp only at h
  split at h
  · cases h
  · cases h; rfl

theorem attach_err {st : St} {v : JVal} {e : Err} (h : attach st v = .error e) : e = .onlyOneTop := by
  unfold attach at h
  split at h
  · split at h <;> cases h
  · cases h
  · split at h
    · cases h; rfl
    · cases h

/-- a scalar attached after MAPSTATE -/
theorem Inv_value {st st' : St} {tok : Nat} {v : JVal} (hi : Inv st)
    (h : attach { st with state := STEP st.state tok } v = .ok st') : Inv st' := by
  have hs := attach_state h
  simp only at hs
  constructor
  · intro h1; rw [hs] at h1; exact absurd h1 (STEP_ne_initial _ _)
  · intro h1
    rw [hs] at h1
    have := (STEP_done _ _ h1).1
    exact attach_top h (hi.1 this)

theorem Inv_of_state {st : St} (h1 : st.state ≠ S_INITIAL_VALUE) (h2 : st.state ≠ S_DONE) : Inv st :=
  ⟨fun h => absurd h h1, fun h => absurd h h2⟩

theorem closeC_inv {st st' : St} (h : closeC st = .ok st') : Inv st' := by
  unfold closeC at h
  split at h
  · cases h
  · split at h
    · cases h
    · rename_i f fs hst
      have hs := attach_state h
      simp only at hs
      cases fs with
      | nil =>
        simp only at hs
        constructor
        · intro h1; rw [hs] at h1; exact absurd h1 (by decide)
        · intro _; exact attach_top h rfl
      | cons g gs =>
        cases g with
        | list es =>
          simp only at hs
          exact Inv_of_state (by rw [hs]; decide) (by rw [hs]; decide)
        | dict kvs cur =>
          simp only at hs
          exact Inv_of_state (by rw [hs]; decide) (by rw [hs]; decide)

theorem closeC_err {st : St} {e : Err} (h : closeC st = .error e) : e ≠ .none := by
  unfold closeC at h
  split at h
  · cases h; simp
  · split at h
    · cases h; simp
    · have := attach_err h; subst this; simp

theorem openC_ok {st st' : St} {f : Frame} (h : openC st f = .ok st') : st'.state = st.state := by
  unfold openC at h
  split at h
  · cases h
  · cases h; rfl

theorem openC_err {st : St} {f : Frame} {e : Err} (h : openC st f = .error e) : e = .onlyOneTop := by
  unfold openC at h
  split at h
  · cases h; rfl
  · cases h

theorem addKey_ok {st st' : St} (h : addKey st = .ok st') : st' = st := by
  unfold addKey at h
  split at h
  · split at h
    · split at h
      · cases h
      · split at h
        · cases h
        · cases h; rfl
    · cases h
  · cases h

theorem addKey_err {st : St} {e : Err} (h : addKey st = .error e) : e ≠ .none := by
  unfold addKey at h
  split at h
  · split at h
    · split at h
      · cases h; simp
      · split at h
        · cases h; simp
        · cases h
    · cases h; simp
  · cases h; simp

theorem STEP_open_ne (s t : Nat) (ht : t = T_OPEN_LIST ∨ t = T_OPEN_DICT ∨ t = T_COLON ∨ t = T_COMMA) :
    STEP s t ≠ S_DONE := by
  intro h
  have := (STEP_done s t h).2
  rcases ht with rfl | rfl | rfl | rfl <;> revert this <;> decide

theorem step_inv {sd : Bytes → UInt64 × Nat} {o : Opts} {st : St} {c : UInt8} {src : Bytes}
    {st' : St} {rest : Bytes} (hi : Inv st) (h : step sd o st c src = .next st' rest) : Inv st' := by
  unfold step at h
  cases hc : classify c <;> simp only [hc] at h
  · cases h; exact hi
  · obtain ⟨_, _, _, _, _, _, ha⟩ := stepString_next h; exact Inv_value hi ha
  · obtain ⟨_, _, ha⟩ := stepLit_next h; exact Inv_value hi ha
  · obtain ⟨_, _, ha⟩ := stepLit_next h; exact Inv_value hi ha
  · obtain ⟨_, _, ha⟩ := stepLit_next h; exact Inv_value hi ha
  · obtain ⟨_, _, _, ha⟩ := stepNumber_next h; exact Inv_value hi ha
  · obtain ⟨_, _, ho⟩ := stepOpen_next h
    have := openC_ok ho
    simp only at this
    exact Inv_of_state (by rw [this]; exact STEP_ne_initial _ _) (by rw [this]; exact STEP_open_ne _ _ (Or.inl rfl))
  · obtain ⟨_, _, ho⟩ := stepOpen_next h
    have := openC_ok ho
    simp only at this
    exact Inv_of_state (by rw [this]; exact STEP_ne_initial _ _)
      (by rw [this]; exact STEP_open_ne _ _ (Or.inr (Or.inl rfl)))
  · obtain ⟨_, _, ho⟩ := stepClose_next h; exact closeC_inv ho
  · obtain ⟨_, _, ho⟩ := stepClose_next h; exact closeC_inv ho
  · obtain ⟨_, _, ho⟩ := stepColon_next h
    have := addKey_ok ho
    subst this
    exact Inv_of_state (STEP_ne_initial _ _) (STEP_open_ne _ _ (Or.inr (Or.inr (Or.inl rfl))))
  · rcases stepComma_next h with ⟨_, _, rfl, _⟩ | ⟨_, rfl, _⟩
    · exact hi
    · exact Inv_of_state (STEP_ne_initial _ _) (STEP_open_ne _ _ (Or.inr (Or.inr (Or.inr rfl))))
  · obtain ⟨_, rfl, _⟩ := stepSlash_next h; exact hi
  · cases h

/-! ## no iteration fails without a message -/

theorem withTok_err {st : St} {tok : Nat} {k : St → Step} (hk : ∀ s, k s ≠ .err .none) :
    withTok st tok k ≠ .err .none := by
  unfold withTok
  split
  · simp
  · exact hk _

theorem valueStep_err (st : St) (v : JVal) (rest : Bytes) : valueStep st v rest ≠ .err .none := by
  unfold valueStep
  cases ha : attach st v with
  | error e => have := attach_err ha; subst this; simp
  | ok s => simp

theorem parseChar4_err {exp s : Bytes} {e : Err} (h : parseChar4 exp s = .error e) : e ≠ .none := by
  unfold parseChar4 at h
  split at h
  · cases h; simp
  · split at h
    · cases h; simp
    · cases h

theorem parseNumber_err {sd : Bytes → UInt64 × Nat} {s : Bytes} {e : Err}
    (h : parseNumber sd s = .error e) : e = .numberParseFailed := by
  unfold parseNumber at h
  split at h
  · cases h; rfl
  · cases h

theorem step_err (sd : Bytes → UInt64 × Nat) (o : Opts) (st : St) (c : UInt8) (src : Bytes) :
    step sd o st c src ≠ .err .none := by
  unfold step
  cases hc : classify c <;> simp only
  · simp
  · unfold stepString
    refine withTok_err (fun s => ?_)
    cases hb : scanBody o src with
    | error e =>
      simp only
      intro h; cases h; exact scanBody_ne_none _ _ hb
    | ok p =>
      obtain ⟨body, esc, r⟩ := p
      simp only
      split
      · simp
      · cases hu : unescape body esc with
        | error e => simp only; intro h; cases h; exact unescape_ne_none _ _ hu
        | ok x => exact valueStep_err _ _ _
  all_goals first
    | (unfold stepLit
       refine withTok_err (fun s => ?_)
       split
       · rename_i e hp; intro h; cases h; exact parseChar4_err hp rfl
       · exact valueStep_err _ _ _)
    | skip
  · unfold stepNumber
    refine withTok_err (fun s => ?_)
    split
    · rename_i e hp; have := parseNumber_err hp; subst this; simp
    · exact valueStep_err _ _ _
  · unfold stepOpen
    refine withTok_err (fun s => ?_)
    split
    · rename_i e hp; have := openC_err hp; subst this; simp
    · simp
  · unfold stepOpen
    refine withTok_err (fun s => ?_)
    split
    · rename_i e hp; have := openC_err hp; subst this; simp
    · simp
  · unfold stepClose
    refine withTok_err (fun s => ?_)
    split
    · rename_i e hp; intro h; cases h; exact closeC_err hp rfl
    · simp
  · unfold stepClose
    refine withTok_err (fun s => ?_)
    split
    · rename_i e hp; intro h; cases h; exact closeC_err hp rfl
    · simp
  · unfold stepColon
    refine withTok_err (fun s => ?_)
    split
    · rename_i e hp; intro h; cases h; exact addKey_err hp rfl
    · simp
  · unfold stepComma
    split
    · simp
    · exact withTok_err (fun s => by simp)
  · unfold stepSlash
    split
    · split <;> simp
    · simp
  · simp

/-- from a state satisfying the invariant, the loop ends with a value or with a message -/
theorem run_total (sd : Bytes → UInt64 × Nat) (o : Opts) :
    ∀ (n : Nat) (st : St) (inp : Bytes), inp.length ≤ n → Inv st →
      (∃ v, run sd o st inp = .ok v) ∨ (∃ e, run sd o st inp = .error e ∧ e ≠ .none)
  | _, st, [], _, hi => by
    rw [run_nil]
    by_cases hd : st.state = S_DONE
    · have := hi.2 hd
      cases ht : st.top with
      | none => rw [ht] at this; cases this
      | some v => left; exact ⟨v, by simp [hd]⟩
    · right; exact ⟨.containerStillOpen, by simp [hd], by simp⟩
  | 0, _, _ :: _, h, _ => by simp at h
  | n + 1, st, c :: src, h, hi => by
    rw [run_cons]
    cases hs : step sd o st c src with
    | err e =>
      right
      refine ⟨e, rfl, ?_⟩
      intro he; subst he
      exact step_err sd o st c src hs
    | next st' rest =>
      simp only
      have hl := step_length hs
      simp at h
      exact run_total sd o n st' rest (by omega) (step_inv hi hs)

end Usual.C02
