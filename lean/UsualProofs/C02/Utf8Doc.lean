import UsualProofs.C02.Values
import UsualProofs.C02.Strict
/-!
# C02 — strict mode without IGNORE_ENCODING: an accepted document is well-formed UTF-8

Every iteration of the token loop consumes a prefix of the input that is well-formed UTF-8
without NUL: structural characters, white space, literals and number tokens are ASCII, string
bodies were validated by `scan_string`.  (In relaxed mode comments are skipped unexamined, so the
statement is about strict mode.)
-/
namespace Usual.C02
open Usual.C03 (JVal insertKv)
open Usual.Gen.C02Tables

theorem mem_takeWhile_imp {α : Type} {p : α → Bool} : ∀ {l : List α} {x : α}, x ∈ l.takeWhile p → p x = true
  | [], _, h => by simp at h
  | a :: l, x, h => by
    by_cases ha : p a = true
    · rw [List.takeWhile_cons_of_pos ha] at h
      rcases List.mem_cons.mp h with rfl | h
      · exact ha
      · exact mem_takeWhile_imp h
    · rw [List.takeWhile_cons_of_neg ha] at h; simp at h

theorem WFS_of_ascii : ∀ (p : Bytes), (∀ x ∈ p, x.toNat < 128 ∧ x ≠ 0) → WFS p
  | [], _ => WFS_nil
  | a :: p, h => by
    have h1 := h a (by simp)
    have := WFS_append (WFS_single a h1.1 h1.2) (WFS_of_ascii p (fun x hx => h x (by simp [hx])))
    simpa using this

/-- the class `classify` reports, inverted: which byte it was -/
theorem classify_inv (c : UInt8) :
    (classify c = .ws → isWsByte c = true) ∧ (classify c = .quote → c = 0x22) ∧
    (classify c = .litN → c = 0x6E) ∧ (classify c = .litT → c = 0x74) ∧ (classify c = .litF → c = 0x66) ∧
    (classify c = .openL → c = 0x5B) ∧ (classify c = .openD → c = 0x7B) ∧
    (classify c = .closeL → c = 0x5D) ∧ (classify c = .closeD → c = 0x7D) ∧
    (classify c = .colon → c = 0x3A) ∧ (classify c = .comma → c = 0x2C) ∧ (classify c = .slash → c = 0x2F) := by
  rcases classify_cases c with ⟨k, h⟩ | ⟨k, h⟩ | ⟨k, h⟩ | ⟨k, h⟩ | ⟨k, h⟩ | ⟨k, h⟩ | ⟨k, h⟩ | ⟨k, h⟩ |
      ⟨k, h⟩ | ⟨k, h⟩ | ⟨k, h⟩ | ⟨k, h⟩ | ⟨k, h⟩ | ⟨_, _, h⟩
  all_goals (rw [h]; refine ⟨?_, ?_, ?_, ?_, ?_, ?_, ?_, ?_, ?_, ?_, ?_, ?_⟩)
  all_goals first
    | (intro hh; cases hh; done)
    | (intro _; exact k)
    | (intro _; simpa using k)

theorem isWsByte_ascii {c : UInt8} (h : isWsByte c = true) : c.toNat < 128 ∧ c ≠ 0 := by
  unfold isWsByte at h
  simp only [Bool.or_eq_true, beq_iff_eq] at h
  rcases h with ((((h | h) | h) | h) | h) | h <;> (subst h; decide)

theorem isNumChar_ascii {c : UInt8} (h : isNumChar c = true) : c.toNat < 128 ∧ c ≠ 0 := by
  unfold isNumChar isDigit at h
  simp only [Bool.or_eq_true, beq_iff_eq, Bool.and_eq_true, decide_eq_true_eq] at h
  rcases h with ((((h | h) | h) | h) | h) | h
  · have a : (0x30 : UInt8).toNat = 48 := rfl
    have b : (0x39 : UInt8).toNat = 57 := rfl
    have h1 := UInt8.le_iff_toNat_le.mp h.1
    have h2 := UInt8.le_iff_toNat_le.mp h.2
    refine ⟨by omega, ?_⟩
    intro h0; subst h0; simp at h1
  all_goals (subst h; decide)

theorem parseChar4_split {exp s rest : Bytes} (h : parseChar4 exp s = .ok rest) : s = exp ++ rest := by
  unfold parseChar4 at h
  by_cases h1 : s.length < 4
  · rw [if_pos h1] at h; cases h
  rw [if_neg h1] at h
  by_cases h2 : (s.take 4 != exp) = true
  · rw [if_pos h2] at h; cases h
  rw [if_neg h2] at h
  cases h
  have : s.take 4 = exp := by simpa using h2
  rw [← this, List.take_append_drop]

/-- strict mode, UTF-8 checked: what one iteration consumes is well-formed UTF-8 without NUL -/
theorem step_consumed {sd : Bytes → UInt64 × Nat} {o : Opts} {st : St} {c : UInt8} {src : Bytes}
    {st' : St} {rest : Bytes} (hr : o.relaxed = false) (hi : o.ignoreEnc = false)
    (h : step sd o st c src = .next st' rest) : ∃ p, c :: src = p ++ rest ∧ WFS p := by
  have inv := classify_inv c
  have single : ∀ k : UInt8, c = k → k.toNat < 128 ∧ k ≠ 0 → rest = src → ∃ p, c :: src = p ++ rest ∧ WFS p := by
    intro k hk hk' hrest
    subst hk hrest
    exact ⟨[c], rfl, WFS_single c hk'.1 hk'.2⟩
  unfold step at h
  cases hc : classify c <;> simp only [hc] at h
  · cases h
    have hw := isWsByte_ascii (inv.1 hc)
    refine ⟨c :: src.takeWhile (· == 0x20), by simp [List.takeWhile_append_dropWhile], ?_⟩
    apply WFS_of_ascii
    intro x hx
    rcases List.mem_cons.mp hx with rfl | hx
    · exact hw
    · have := mem_takeWhile_imp hx
      have : x = 0x20 := by simpa using this
      subst this; decide
  · obtain ⟨_, body, esc, s, hb, _, _⟩ := stepString_next h
    obtain ⟨hsplit, hwf, _⟩ := scanBody_spec hb
    have hq := inv.2.1 hc
    subst hq
    refine ⟨0x22 :: body ++ [0x22], by rw [hsplit]; simp, ?_⟩
    have q : WFS [0x22] := WFS_single 0x22 (by decide) (by decide)
    have := WFS_append (WFS_append q (hwf hi)) q
    simpa using this
  · obtain ⟨_, hp, _⟩ := stepLit_next h
    refine ⟨C_NULL, parseChar4_split hp, WFS_of_ascii _ (by decide)⟩
  · obtain ⟨_, hp, _⟩ := stepLit_next h
    refine ⟨C_TRUE, parseChar4_split hp, WFS_of_ascii _ (by decide)⟩
  · obtain ⟨_, hp, _⟩ := stepLit_next h
    have hf := inv.2.2.2.2.1 hc
    subst hf
    refine ⟨0x66 :: C_ALSE, by rw [parseChar4_split hp]; rfl, WFS_of_ascii _ (by decide)⟩
  · obtain ⟨_, v, hp, _⟩ := stepNumber_next h
    refine ⟨(c :: src).takeWhile isNumChar, by rw [(parseNumber_rest hp).1, List.takeWhile_append_dropWhile], ?_⟩
    apply WFS_of_ascii
    intro x hx
    exact isNumChar_ascii (mem_takeWhile_imp hx)
  · obtain ⟨_, hrest, _⟩ := stepOpen_next h
    exact single _ (inv.2.2.2.2.2.1 hc) (by decide) hrest
  · obtain ⟨_, hrest, _⟩ := stepOpen_next h
    exact single _ (inv.2.2.2.2.2.2.1 hc) (by decide) hrest
  · obtain ⟨_, hrest, _⟩ := stepClose_next h
    exact single _ (inv.2.2.2.2.2.2.2.1 hc) (by decide) hrest
  · obtain ⟨_, hrest, _⟩ := stepClose_next h
    exact single _ (inv.2.2.2.2.2.2.2.2.1 hc) (by decide) hrest
  · obtain ⟨_, hrest, _⟩ := stepColon_next h
    exact single _ (inv.2.2.2.2.2.2.2.2.2.1 hc) (by decide) hrest
  · rcases stepComma_next h with ⟨hrel, _⟩ | ⟨_, _, hrest⟩
    · rw [hr] at hrel; cases hrel
    · rw [hr] at hrest
      exact single _ (inv.2.2.2.2.2.2.2.2.2.2.1 hc) (by decide) (by simpa using hrest)
  · obtain ⟨hrel, _⟩ := stepSlash_next h
    rw [hr] at hrel; cases hrel
  · cases h

theorem run_ok_wfs (sd : Bytes → UInt64 × Nat) (o : Opts) (hr : o.relaxed = false) (hi : o.ignoreEnc = false) :
    ∀ (n : Nat) (st : St) (inp : Bytes) (v : JVal), inp.length ≤ n → run sd o st inp = .ok v → WFS inp
  | _, _, [], _, _, _ => WFS_nil
  | 0, _, _ :: _, _, hl, _ => by simp at hl
  | n + 1, st, c :: src, v, hl, h => by
    rw [run_cons] at h
    cases hs : step sd o st c src with
    | err e => simp [hs] at h
    | next st' rest =>
      simp only [hs] at h
      have := step_length hs
      simp at hl
      obtain ⟨p, e, hp⟩ := step_consumed hr hi hs
      rw [e]
      exact WFS_append hp (run_ok_wfs sd o hr hi n st' rest v (by omega) h)

end Usual.C02
