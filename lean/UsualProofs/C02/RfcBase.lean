import UsualProofs.C02.Escapes
import Usual.C03.Rfc
/-!
# C02 — acceptance of RFC 8259 documents, part 1: fuel-free forms of the string loops,
UTF-8 sequences and code points
-/
namespace Usual.C02
open Usual.C03 (JVal insertKv)
open Usual.C03 (Rfc.utf8Len Rfc.utf8Enc Rfc.isTail)
open Usual.C11 UsualProofs.C11
open Usual.Gen.C02Tables

/-! ## `scan_string` without fuel -/

theorem scanString_step (chk : Bool) (f : Nat) (c : UInt8) (rest : Bytes) (n : Nat) (esc : Bool) :
    scanString chk (f + 1) (c :: rest) n esc =
      if (!examine c) = true then scanString chk f rest (n + 1) esc
      else if (c == 0x22) = true then .ok (n, esc)
      else if (c == 0x5C) = true then
        match rest with
        | d :: rest' =>
          if (d == 0x5C || d == 0x22) = true then scanString chk f rest' (n + 2) true
          else scanString chk f rest (n + 1) true
        | [] => scanString chk f [] (n + 1) true
      else if (c &&& 0x80 != 0) = true then
        if (vseq (c :: rest) != 0) = true then
          scanString chk f ((c :: rest).drop (vseq (c :: rest))) (n + vseq (c :: rest)) esc
        else if chk = true then .error .invalidUtf8
        else scanString chk f rest (n + 1) esc
      else if (c == 0x0A) = true then scanString chk f rest (n + 1) esc
      else .error .invalidUtf8 := by
  rw [scanString.eq_def]; rfl

theorem processEscapes_step (total f : Nat) (c : UInt8) (rest acc : Bytes) :
    processEscapes total (f + 1) (c :: rest) acc =
      if (c != 0x5C) = true then processEscapes total f rest (c :: acc)
      else
        match rest with
        | [] => .ok (0x22 :: acc).reverse
        | e :: rest' =>
          match simpleEscape e with
          | some b => processEscapes total f rest' (b :: acc)
          | none =>
            if (e == 0x75) = true then
              match parseUescape (total - acc.length) rest' with
              | .error er => .error er
              | .ok (bs, r) => processEscapes total f r (bs.reverse ++ acc)
            else .error .invalidEscapeCode := by
  rw [processEscapes.eq_def]; rfl

theorem scanString_fuel (chk : Bool) : ∀ (f g : Nat) (s : Bytes) (n : Nat) (e : Bool),
    s.length < f → s.length < g → scanString chk f s n e = scanString chk g s n e
  | 0, _, _, _, _, h, _ => by omega
  | _ + 1, 0, _, _, _, _, h => by omega
  | f + 1, g + 1, [], n, e, _, _ => by simp [scanString]
  | f + 1, g + 1, c :: rest, n, e, hf, hg => by
    have hf' : rest.length < f := by simp at hf; omega
    have hg' : rest.length < g := by simp at hg; omega
    rw [scanString_step, scanString_step]
    by_cases h1 : (!examine c) = true
    · rw [if_pos h1, if_pos h1]; exact scanString_fuel chk f g rest _ _ hf' hg'
    rw [if_neg h1, if_neg h1]
    by_cases h2 : (c == 0x22) = true
    · rw [if_pos h2, if_pos h2]
    rw [if_neg h2, if_neg h2]
    by_cases h3 : (c == 0x5C) = true
    · rw [if_pos h3, if_pos h3]
      cases rest with
      | nil => exact scanString_fuel chk f g [] _ _ hf' hg'
      | cons d rest' =>
        simp only
        by_cases h4 : (d == 0x5C || d == 0x22) = true
        · rw [if_pos h4, if_pos h4]
          exact scanString_fuel chk f g rest' _ _ (by simp at hf'; omega) (by simp at hg'; omega)
        · rw [if_neg h4, if_neg h4]
          exact scanString_fuel chk f g (d :: rest') _ _ hf' hg'
    rw [if_neg h3, if_neg h3]
    by_cases h5 : (c &&& 0x80 != 0) = true
    · rw [if_pos h5, if_pos h5]
      by_cases h6 : (vseq (c :: rest) != 0) = true
      · rw [if_pos h6, if_pos h6]
        have hk : vseq (c :: rest) ≠ 0 := by simpa using h6
        have hl : ((c :: rest).drop (vseq (c :: rest))).length ≤ rest.length := by
          rw [List.length_drop]; simp; omega
        exact scanString_fuel chk f g _ _ _ (by omega) (by omega)
      · rw [if_neg h6, if_neg h6]
        by_cases h7 : chk = true
        · rw [if_pos h7, if_pos h7]
        · rw [if_neg h7, if_neg h7]; exact scanString_fuel chk f g rest _ _ hf' hg'
    rw [if_neg h5, if_neg h5]
    by_cases h8 : (c == 0x0A) = true
    · rw [if_pos h8, if_pos h8]; exact scanString_fuel chk f g rest _ _ hf' hg'
    · rw [if_neg h8, if_neg h8]

/-- `scan_string` with exactly enough fuel -/
def scanS (chk : Bool) (s : Bytes) (n : Nat) (e : Bool) : Except Err (Nat × Bool) :=
  scanString chk (s.length + 1) s n e

theorem scanS_plain (chk : Bool) {c : UInt8} (h : examine c = false) (r : Bytes) (n : Nat) (e : Bool) :
    scanS chk (c :: r) n e = scanS chk r (n + 1) e := by
  unfold scanS
  rw [List.length_cons, scanString_step]
  rw [if_pos (by simp [h])]

theorem scanS_quote (chk : Bool) (r : Bytes) (n : Nat) (e : Bool) :
    scanS chk (0x22 :: r) n e = .ok (n, e) := by
  unfold scanS
  rw [List.length_cons, scanString_step]
  rw [if_neg (by decide), if_pos (by decide)]

theorem scanS_pair (chk : Bool) {d : UInt8} (hd : d = 0x5C ∨ d = 0x22) (r : Bytes) (n : Nat) (e : Bool) :
    scanS chk (0x5C :: d :: r) n e = scanS chk r (n + 2) true := by
  unfold scanS
  rw [List.length_cons, scanString_step]
  rw [if_neg (by decide), if_neg (by decide), if_pos (by decide)]
  simp only
  rw [if_pos (by rcases hd with rfl | rfl <;> decide)]
  exact scanString_fuel chk _ _ r _ _ (by simp; omega) (by omega)

theorem scanS_backslash (chk : Bool) {d : UInt8} (hd : d ≠ 0x5C ∧ d ≠ 0x22) (r : Bytes) (n : Nat) (e : Bool) :
    scanS chk (0x5C :: d :: r) n e = scanS chk (d :: r) (n + 1) true := by
  unfold scanS
  rw [List.length_cons, scanString_step]
  rw [if_neg (by decide), if_neg (by decide), if_pos (by decide)]
  simp only
  rw [if_neg (by simp [hd.1, hd.2])]

theorem scanS_utf8 (chk : Bool) {c : UInt8} (hc : 128 ≤ c.toNat) (r : Bytes) {k : Nat}
    (hk : vseq (c :: r) = k) (hk0 : k ≠ 0) (n : Nat) (e : Bool) :
    scanS chk (c :: r) n e = scanS chk ((c :: r).drop k) (n + k) e := by
  have hex : examine c = true := (examine_spec c).mpr (Or.inr (Or.inr (Or.inr (Or.inr hc))))
  have hq : ¬ (c == 0x22) = true := by
    intro h; have : c = 0x22 := by simpa using h
    rw [this] at hc; exact absurd hc (by decide)
  have hb : ¬ (c == 0x5C) = true := by
    intro h; have : c = 0x5C := by simpa using h
    rw [this] at hc; exact absurd hc (by decide)
  unfold scanS
  rw [List.length_cons, scanString_step]
  rw [if_neg (by simp [hex]), if_neg hq, if_neg hb, if_pos ((UInt8_and_80 c).mpr hc)]
  rw [hk, if_pos (by simpa using hk0)]
  have hl : ((c :: r).drop k).length ≤ r.length := by rw [List.length_drop]; simp; omega
  exact scanString_fuel chk _ _ _ _ _ (by omega) (by omega)

/-! ## `process_escapes` without fuel -/

theorem processEscapes_fuel (total : Nat) : ∀ (f g : Nat) (s acc : Bytes),
    s.length < f → s.length < g → processEscapes total f s acc = processEscapes total g s acc
  | 0, _, _, _, h, _ => by omega
  | _ + 1, 0, _, _, _, h => by omega
  | f + 1, g + 1, [], acc, _, _ => by simp [processEscapes]
  | f + 1, g + 1, c :: rest, acc, hf, hg => by
    have hf' : rest.length < f := by simp at hf; omega
    have hg' : rest.length < g := by simp at hg; omega
    rw [processEscapes_step, processEscapes_step]
    by_cases h1 : (c != 0x5C) = true
    · rw [if_pos h1, if_pos h1]; exact processEscapes_fuel total f g rest _ hf' hg'
    rw [if_neg h1, if_neg h1]
    cases rest with
    | nil => rfl
    | cons e rest' =>
      simp only
      cases hse : simpleEscape e with
      | some b =>
        simp only
        exact processEscapes_fuel total f g rest' _ (by simp at hf'; omega) (by simp at hg'; omega)
      | none =>
        simp only
        by_cases hu : (e == 0x75) = true
        · rw [if_pos hu, if_pos hu]
          cases hp : parseUescape (total - acc.length) rest' with
          | error er => rfl
          | ok p =>
            obtain ⟨bs, r⟩ := p
            simp only
            have := parseUescape_rest hp
            exact processEscapes_fuel total f g r _ (by simp at hf'; omega) (by simp at hg'; omega)
        · rw [if_neg hu, if_neg hu]

/-- `process_escapes` with exactly enough fuel -/
def peS (total : Nat) (s acc : Bytes) : Except Err Bytes := processEscapes total (s.length + 1) s acc

theorem peS_nil (total : Nat) (acc : Bytes) : peS total [] acc = .ok acc.reverse := by
  simp [peS, processEscapes]

theorem peS_plain (total : Nat) {c : UInt8} (hc : c ≠ 0x5C) (r acc : Bytes) :
    peS total (c :: r) acc = peS total r (c :: acc) := by
  unfold peS
  rw [List.length_cons, pe_plain total _ hc]

theorem peS_simple (total : Nat) {e b : UInt8} (hs : simpleEscape e = some b) (r acc : Bytes) :
    peS total (0x5C :: e :: r) acc = peS total r (b :: acc) := by
  unfold peS
  rw [List.length_cons, pe_simple total _ hs]
  exact processEscapes_fuel total _ _ r _ (by simp; omega) (by omega)

theorem peS_u (total : Nat) (r acc : Bytes) {bs r' : Bytes}
    (hp : parseUescape (total - acc.length) r = .ok (bs, r')) :
    peS total (0x5C :: 0x75 :: r) acc = peS total r' (bs.reverse ++ acc) := by
  unfold peS
  rw [List.length_cons, pe_u, hp]
  simp only
  have := parseUescape_rest hp
  exact processEscapes_fuel total _ _ r' _ (by simp; omega) (by omega)

theorem peS_plains (total : Nat) : ∀ (p r acc : Bytes), (0x5C : UInt8) ∉ p →
    peS total (p ++ r) acc = peS total r (p.reverse ++ acc)
  | [], r, acc, _ => by simp
  | a :: p, r, acc, h => by
    rw [List.cons_append, peS_plain total (fun e => h (by simp [e])), peS_plains total p r _ (fun hm => h (by simp [hm]))]
    simp

/-! ## UTF-8: the RFC 3629 recogniser and `utf8_validate_seq` agree -/

theorem vseq_of_wf {s : Bytes} {k : Nat} (hk : k ≤ 4) (hk' : k ≤ s.length)
    (hwf : WF (ofU8 (s.take k))) (h0 : ofU8 (s.take k) ≠ [0#8]) : vseq s = k := by
  unfold vseq validateSeqU
  have e : s.take 4 = s.take k ++ (s.drop k).take (4 - k) := by
    have : 4 = k + (4 - k) := by omega
    conv => lhs; rw [this, List.take_add]
  rw [e, ofU8_append, vsL_of_chunk _ _ hwf h0, ofU8_length, List.length_take]
  omega

theorem u8le (a b : UInt8) : (a ≤ b) ↔ a.toNat ≤ b.toNat := UInt8.le_iff_toNat_le
theorem bvle (a b : B) : (a ≤ b) ↔ a.toNat ≤ b.toNat := BitVec.le_def

theorem isTail_iff (b : UInt8) : Rfc.isTail b = true ↔ 128 ≤ b.toNat ∧ b.toNat ≤ 191 := by
  unfold Rfc.isTail
  simp only [Bool.and_eq_true, decide_eq_true_eq, u8le]
  have a : (0x80 : UInt8).toNat = 128 := rfl
  have c : (0xBF : UInt8).toNat = 191 := rfl
  omega

end Usual.C02
