import UsualProofs.C02.Scan
/-!
# C02 — `process_escapes` keeps strings well-formed
-/
namespace Usual.C02
open Usual.C11 UsualProofs.C11

theorem ofU8_toU8 (l : List B) : ofU8 (toU8 l) = l := by
  unfold ofU8 toU8
  rw [List.map_map]
  conv => rhs; rw [← List.map_id l]
  apply List.map_congr_left
  intro a _; rfl

/-- for a scalar value that fits, `utf8_put_char` stores its well-formed sequence -/
theorem putChar_wf (room : Nat) (c : BitVec 32) (hs : isScalar c.toNat) (hr : encLen c.toNat ≤ room) :
    ∃ bytes n, putChar room c = (true, n, bytes) ∧ WF bytes ∧ decode bytes = c.toNat := by
  unfold isScalar at hs
  by_cases h1 : c.toNat < 0x80
  · have e : encLen c.toNat = 1 := by unfold encLen; rw [if_pos h1]
    rw [e] at hr
    refine ⟨_, _, pc1 room c h1 hr, ?_, ?_⟩
    · unfold WF wf1
      simp only [BitVec.le_def]
      rw [lo8_self c (by omega)]
      have : (0x7F#8).toNat = 127 := by decide
      omega
    · unfold decode cp1; exact lo8_self c (by omega)
  · by_cases h2 : c.toNat < 0x800
    · have e : encLen c.toNat = 2 := by unfold encLen; rw [if_neg h1, if_pos h2]
      rw [e] at hr
      have ok := enc2_ok c (by omega) h2
      exact ⟨_, _, pc2 room c (by omega) h2 hr, ok.1, ok.2⟩
    · by_cases h3 : c.toNat < 0x10000
      · have e : encLen c.toNat = 3 := by unfold encLen; rw [if_neg h1, if_neg h2, if_pos h3]
        rw [e] at hr
        have hs' : c.toNat < 0xD800 ∨ 0xDFFF < c.toNat := by omega
        have ok := enc3_ok c (by omega) h3 hs'
        exact ⟨_, _, pc3 room c (by omega) h3 hs' hr, ok.1, ok.2⟩
      · have e : encLen c.toNat = 4 := by unfold encLen; rw [if_neg h1, if_neg h2, if_neg h3]
        rw [e] at hr
        have ok := enc4_ok c (by omega) (by omega)
        exact ⟨_, _, pc4 room c (by omega) (by omega) hr, ok.1, ok.2⟩

/-- bytes stored by `utf8_put_char` for a non-zero value are well-formed UTF-8 (or nothing) -/
theorem putCharU_wfs (room c : Nat) (hc : c ≠ 0) (hlt : c < 2 ^ 32) (hok : (putCharU room c).1 = true) :
    WFS (putCharU room c).2.2 := by
  unfold putCharU at hok ⊢
  simp only at hok ⊢
  unfold WFS
  rw [ofU8_toU8]
  have hn : (BitVec.ofNat 32 c).toNat = c := by rw [BitVec.toNat_ofNat]; exact Nat.mod_eq_of_lt hlt
  by_cases hs : isScalar (BitVec.ofNat 32 c).toNat
  · have hroom : encLen (BitVec.ofNat 32 c).toNat ≤ room := by
      apply Nat.le_of_not_lt
      intro hlt'
      have := (pc_false_iff room (BitVec.ofNat 32 c)).mpr ⟨by
        unfold isScalar at hs; omega, hlt'⟩
      rw [this] at hok; cases hok
    obtain ⟨bytes, nn, e, hwf, hdec⟩ := putChar_wf room _ hs hroom
    rw [e]
    simp only
    have := WFString_cons_chunk bytes [] hwf (by
      intro h0; rw [h0] at hdec
      have : decode [0#8] = 0 := rfl
      rw [this, hn] at hdec; exact hc hdec.symm) WFString_nil
    simpa using this
  · rw [pc_nonscalar room _ hs]; exact WFString_nil

theorem putEsc_spec {room c : Nat} {rest bs r : Bytes} (hc : c ≠ 0) (hlt : c < 2 ^ 32)
    (h : putEsc room c rest = .ok (bs, r)) : r = rest ∧ WFS bs := by
  unfold putEsc at h
  by_cases hok : (putCharU room c).1 = true
  · rw [if_pos hok] at h; cases h
    exact ⟨rfl, putCharU_wfs room c hc hlt hok⟩
  · rw [if_neg hok] at h; cases h

theorem hexDig_ascii {c : UInt8} {x : Nat} (h : hexDig c = some x) : c.toNat < 128 ∧ x < 16 := by
  unfold hexDig at h
  by_cases h1 : (0x30 ≤ c && c ≤ 0x39) = true
  · rw [if_pos h1] at h; cases h
    simp only [Bool.and_eq_true, decide_eq_true_eq, UInt8.le_iff_toNat_le] at h1
    have a : (0x30 : UInt8).toNat = 48 := rfl
    have b : (0x39 : UInt8).toNat = 57 := rfl
    omega
  rw [if_neg h1] at h
  by_cases h2 : (0x61 ≤ c && c ≤ 0x66) = true
  · rw [if_pos h2] at h; cases h
    simp only [Bool.and_eq_true, decide_eq_true_eq, UInt8.le_iff_toNat_le] at h2
    have a : (0x61 : UInt8).toNat = 97 := rfl
    have b : (0x66 : UInt8).toNat = 102 := rfl
    omega
  rw [if_neg h2] at h
  by_cases h3 : (0x41 ≤ c && c ≤ 0x46) = true
  · rw [if_pos h3] at h; cases h
    simp only [Bool.and_eq_true, decide_eq_true_eq, UInt8.le_iff_toNat_le] at h3
    have a : (0x41 : UInt8).toNat = 65 := rfl
    have b : (0x46 : UInt8).toNat = 70 := rfl
    omega
  rw [if_neg h3] at h; cases h

theorem parseHex_spec {s : Bytes} {v : Nat} (h : parseHex s = some v) :
    ∃ a b c d r, s = a :: b :: c :: d :: r ∧ a.toNat < 128 ∧ b.toNat < 128 ∧ c.toNat < 128 ∧
      d.toNat < 128 ∧ v < 65536 := by
  match s, h with
  | a :: b :: c :: d :: r, h =>
    unfold parseHex at h
    cases ha : hexDig a with
    | none => simp [ha] at h
    | some x =>
      cases hb : hexDig b with
      | none => simp [ha, hb] at h
      | some y =>
        cases hc : hexDig c with
        | none => simp [ha, hb, hc] at h
        | some z =>
          cases hd : hexDig d with
          | none => simp [ha, hb, hc, hd] at h
          | some w =>
            simp only [ha, hb, hc, hd] at h
            cases h
            have := hexDig_ascii ha; have := hexDig_ascii hb
            have := hexDig_ascii hc; have := hexDig_ascii hd
            exact ⟨a, b, c, d, r, rfl, by omega, by omega, by omega, by omega, by omega⟩

/-- `parse_uescape` consumes ASCII bytes only and stores well-formed UTF-8 -/
theorem parseUescape_spec {room : Nat} {src bs r : Bytes} (h : parseUescape room src = .ok (bs, r)) :
    ∃ p, src = p ++ r ∧ (∀ x ∈ p, x.toNat < 128) ∧ WFS bs := by
  unfold parseUescape at h
  cases hp : parseHex src with
  | none => simp [hp] at h
  | some c =>
    simp only [hp] at h
    obtain ⟨a1, a2, a3, a4, t, rfl, l1, l2, l3, l4, hv⟩ := parseHex_spec hp
    by_cases hz : (c == 0) = true
    · rw [if_pos hz] at h; cases h
    rw [if_neg hz] at h
    have hc0 : c ≠ 0 := by simpa using hz
    by_cases hsur : (decide (0xD800 ≤ c) && decide (c ≤ 0xDFFF)) = true
    · rw [if_pos hsur] at h
      by_cases hlow : c ≥ 0xDC00
      · rw [if_pos hlow] at h; cases h
      rw [if_neg hlow] at h
      simp only [List.drop_succ_cons, List.drop_zero] at h
      match t, h with
      | x :: y :: t', h =>
        simp only at h
        by_cases hxy : (x != 0x5C || y != 0x75) = true
        · rw [if_pos hxy] at h; cases h
        rw [if_neg hxy] at h
        have hx : x = 0x5C ∧ y = 0x75 := by simpa using hxy
        cases hp2 : parseHex t' with
        | none => simp [hp2] at h
        | some c2 =>
          simp only [hp2] at h
          obtain ⟨b1, b2, b3, b4, t'', rfl, m1, m2, m3, m4, hv2⟩ := parseHex_spec hp2
          by_cases hr2 : (decide (c2 < 0xDC00) || decide (c2 > 0xDFFF)) = true
          · rw [if_pos hr2] at h; cases h
          rw [if_neg hr2] at h
          obtain ⟨rfl, hw⟩ := putEsc_spec (by omega) (by omega) h
          refine ⟨[a1, a2, a3, a4, x, y, b1, b2, b3, b4], by simp, ?_, hw⟩
          intro z hz
          simp only [List.mem_cons, List.not_mem_nil, or_false] at hz
          rcases hz with rfl | rfl | rfl | rfl | rfl | rfl | rfl | rfl | rfl | rfl
          all_goals first | assumption | (rw [hx.1]; decide) | (rw [hx.2]; decide)
    · rw [if_neg hsur] at h
      obtain ⟨rfl, hw⟩ := putEsc_spec hc0 (by omega) h
      refine ⟨[a1, a2, a3, a4], by simp, ?_, hw⟩
      intro z hz
      simp only [List.mem_cons, List.not_mem_nil, or_false] at hz
      rcases hz with rfl | rfl | rfl | rfl <;> assumption

theorem simpleEscape_spec {e b : UInt8} (h : simpleEscape e = some b) :
    e.toNat < 128 ∧ b.toNat < 128 ∧ b ≠ 0 := by
  unfold simpleEscape at h
  by_cases h1 : (e == 0x22) = true
  · rw [if_pos h1] at h; cases h; have : e = 0x22 := by simpa using h1
    subst this; decide
  rw [if_neg h1] at h
  by_cases h2 : (e == 0x5C) = true
  · rw [if_pos h2] at h; cases h; have : e = 0x5C := by simpa using h2
    subst this; decide
  rw [if_neg h2] at h
  by_cases h3 : (e == 0x2F) = true
  · rw [if_pos h3] at h; cases h; have : e = 0x2F := by simpa using h3
    subst this; decide
  rw [if_neg h3] at h
  by_cases h4 : (e == 0x62) = true
  · rw [if_pos h4] at h; cases h; have : e = 0x62 := by simpa using h4
    subst this; decide
  rw [if_neg h4] at h
  by_cases h5 : (e == 0x66) = true
  · rw [if_pos h5] at h; cases h; have : e = 0x66 := by simpa using h5
    subst this; decide
  rw [if_neg h5] at h
  by_cases h6 : (e == 0x6E) = true
  · rw [if_pos h6] at h; cases h; have : e = 0x6E := by simpa using h6
    subst this; decide
  rw [if_neg h6] at h
  by_cases h7 : (e == 0x72) = true
  · rw [if_pos h7] at h; cases h; have : e = 0x72 := by simpa using h7
    subst this; decide
  rw [if_neg h7] at h
  by_cases h8 : (e == 0x74) = true
  · rw [if_pos h8] at h; cases h; have : e = 0x74 := by simpa using h8
    subst this; decide
  rw [if_neg h8] at h; cases h

/-- ASCII bytes in front of a well-formed string can be dropped -/
theorem WFS_drop_ascii : ∀ (p : Bytes) (r : Bytes), (∀ x ∈ p, x.toNat < 128) → WFS (p ++ r) → WFS r
  | [], _, _, h => h
  | a :: p, r, hp, h => by
    have := (WFS_split (x := []) (a := a) (y := p ++ r) (hp a (by simp)) (by simpa using h)).2
    exact WFS_drop_ascii p r (fun x hx => hp x (by simp [hx])) this

theorem processEscapes_wfs (total : Nat) : ∀ (f : Nat) (s acc out : Bytes),
    processEscapes total f s acc = .ok out → WFS (acc.reverse ++ s) → WFS out
  | 0, _, _, _, h, _ => by simp [processEscapes] at h
  | f + 1, [], acc, out, h, hw => by
    simp [processEscapes] at h; subst h; simpa using hw
  | f + 1, c :: rest, acc, out, h, hw => by
    unfold processEscapes at h
    by_cases hc : (c != 0x5C) = true
    · rw [if_pos hc] at h
      exact processEscapes_wfs total f rest (c :: acc) out h (by simpa using hw)
    rw [if_neg hc] at h
    have hc : c = 0x5C := by simpa using hc
    subst hc
    have hbs : (0x5C : UInt8).toNat < 128 := by decide
    cases rest with
    | nil =>
      simp only at h; cases h
      have := WFS_replace (m := [0x22]) hbs hw (WFS_single 0x22 (by decide) (by decide))
      simpa using this
    | cons e rest' =>
      simp only at h
      cases hse : simpleEscape e with
      | some b =>
        simp only [hse] at h
        obtain ⟨he, hb, hb0⟩ := simpleEscape_spec hse
        obtain ⟨h1, h2⟩ := WFS_split hbs hw
        have h3 := (WFS_split (x := []) he (by simpa using h2)).2
        refine processEscapes_wfs total f rest' (b :: acc) out h ?_
        have := WFS_append (WFS_append h1 (WFS_single b hb hb0)) h3
        simpa using this
      | none =>
        simp only [hse] at h
        by_cases hu : (e == 0x75) = true
        · rw [if_pos hu] at h
          have hu : e = 0x75 := by simpa using hu
          subst hu
          cases hpu : parseUescape (total - acc.length) rest' with
          | error er => simp [hpu] at h
          | ok p =>
            obtain ⟨bs, r⟩ := p
            simp only [hpu] at h
            obtain ⟨pp, rfl, hpa, hbw⟩ := parseUescape_spec hpu
            obtain ⟨h1, h2⟩ := WFS_split hbs hw
            have h3 := (WFS_split (x := []) (a := 0x75) (by decide) (by simpa using h2)).2
            have h4 := WFS_drop_ascii pp r hpa h3
            refine processEscapes_wfs total f r (bs.reverse ++ acc) out h ?_
            have := WFS_append (WFS_append h1 hbw) h4
            simpa using this
        · rw [if_neg hu] at h; cases h

theorem unescape_wfs {body s : Bytes} {esc : Bool} (h : unescape body esc = .ok s) (hw : WFS body) : WFS s := by
  unfold unescape at h
  by_cases he : esc = true
  · rw [if_pos he] at h
    exact processEscapes_wfs _ _ _ _ _ h (by simpa using hw)
  · rw [if_neg he] at h; cases h; exact hw

end Usual.C02
