import UsualProofs.C02.Total
/-!
# C02 — strictness at the token level: comments, extra commas, trailing garbage
-/
namespace Usual.C02
open Usual.C03 (JVal insertKv)
open Usual.Gen.C02Tables

/-- what `classify` answers, with the condition of the `case` label that fired -/
theorem classify_cases (c : UInt8) :
    (isWsByte c = true ∧ classify c = .ws) ∨ ((c == 0x22) = true ∧ classify c = .quote) ∨
    ((c == 0x6E) = true ∧ classify c = .litN) ∨ ((c == 0x74) = true ∧ classify c = .litT) ∨
    ((c == 0x66) = true ∧ classify c = .litF) ∨ ((c == 0x2D || isDigit c) = true ∧ classify c = .num) ∨
    ((c == 0x5B) = true ∧ classify c = .openL) ∨ ((c == 0x7B) = true ∧ classify c = .openD) ∨
    ((c == 0x5D) = true ∧ classify c = .closeL) ∨ ((c == 0x7D) = true ∧ classify c = .closeD) ∨
    ((c == 0x3A) = true ∧ classify c = .colon) ∨ ((c == 0x2C) = true ∧ classify c = .comma) ∨
    ((c == 0x2F) = true ∧ classify c = .slash) ∨ (isWsByte c = false ∧ (c == 0x2F) = false ∧ classify c = .other) := by
  unfold classify
  by_cases h1 : isWsByte c = true
  · rw [if_pos h1]; exact Or.inl ⟨h1, rfl⟩
  rw [if_neg h1]; right
  by_cases h2 : (c == 0x22) = true
  · rw [if_pos h2]; exact Or.inl ⟨h2, rfl⟩
  rw [if_neg h2]; right
  by_cases h3 : (c == 0x6E) = true
  · rw [if_pos h3]; exact Or.inl ⟨h3, rfl⟩
  rw [if_neg h3]; right
  by_cases h4 : (c == 0x74) = true
  · rw [if_pos h4]; exact Or.inl ⟨h4, rfl⟩
  rw [if_neg h4]; right
  by_cases h5 : (c == 0x66) = true
  · rw [if_pos h5]; exact Or.inl ⟨h5, rfl⟩
  rw [if_neg h5]; right
  by_cases h6 : (c == 0x2D || isDigit c) = true
  · rw [if_pos h6]; exact Or.inl ⟨h6, rfl⟩
  rw [if_neg h6]; right
  by_cases h7 : (c == 0x5B) = true
  · rw [if_pos h7]; exact Or.inl ⟨h7, rfl⟩
  rw [if_neg h7]; right
  by_cases h8 : (c == 0x7B) = true
  · rw [if_pos h8]; exact Or.inl ⟨h8, rfl⟩
  rw [if_neg h8]; right
  by_cases h9 : (c == 0x5D) = true
  · rw [if_pos h9]; exact Or.inl ⟨h9, rfl⟩
  rw [if_neg h9]; right
  by_cases h10 : (c == 0x7D) = true
  · rw [if_pos h10]; exact Or.inl ⟨h10, rfl⟩
  rw [if_neg h10]; right
  by_cases h11 : (c == 0x3A) = true
  · rw [if_pos h11]; exact Or.inl ⟨h11, rfl⟩
  rw [if_neg h11]; right
  by_cases h12 : (c == 0x2C) = true
  · rw [if_pos h12]; exact Or.inl ⟨h12, rfl⟩
  rw [if_neg h12]; right
  by_cases h13 : (c == 0x2F) = true
  · rw [if_pos h13]; exact Or.inl ⟨h13, rfl⟩
  rw [if_neg h13]; right
  exact ⟨by simpa using h1, by simpa using h13, rfl⟩

theorem classify_ws {c : UInt8} (h : isWsByte c = true) : classify c = .ws := by
  unfold classify; rw [if_pos h]

/-! ## white space -/

theorem run_ws_byte (sd : Bytes → UInt64 × Nat) (o : Opts) (st : St) (c : UInt8) (src : Bytes)
    (h : isWsByte c = true) : run sd o st (c :: src) = run sd o st (src.dropWhile (· == 0x20)) := by
  rw [run_cons]; unfold step; rw [classify_ws h]

theorem run_dropSpaces (sd : Bytes → UInt64 × Nat) (o : Opts) (st : St) (r : Bytes) :
    run sd o st (r.dropWhile (· == 0x20)) = run sd o st r := by
  cases r with
  | nil => rfl
  | cons c r' =>
    by_cases hc : (c == 0x20) = true
    · rw [List.dropWhile_cons_of_pos (p := (· == 0x20)) hc]
      have : isWsByte c = true := by
        have : c = 0x20 := by simpa using hc
        subst this; decide
      rw [run_ws_byte sd o st c r' this]
    · rw [List.dropWhile_cons_of_neg (p := (· == 0x20)) hc]

/-- white space (`\n`, space, `\t`, `\r`, `\f`, `\v`) between tokens is skipped -/
theorem run_ws (sd : Bytes → UInt64 × Nat) (o : Opts) (st : St) :
    ∀ (ws r : Bytes), (∀ b ∈ ws, isWsByte b = true) → run sd o st (ws ++ r) = run sd o st r
  | [], r, _ => rfl
  | w :: ws, r, h => by
    rw [List.cons_append, run_ws_byte sd o st w _ (h w (by simp)), run_dropSpaces]
    exact run_ws sd o st ws r (fun b hb => h b (by simp [hb]))

/-! ## comments in strict mode -/

theorem run_slash_strict (sd : Bytes → UInt64 × Nat) (o : Opts) (st : St) (src : Bytes)
    (hr : o.relaxed = false) : run sd o st (0x2F :: src) = .error .invalidSymbol := by
  rw [run_cons]
  have : classify 0x2F = .slash := by decide
  unfold step; rw [this]
  simp only [stepSlash, hr]
  rfl

/-! ## trailing garbage -/

theorem skipExtraComma_done (src : Bytes) : (skipExtraComma src S_DONE).2 = false := by
  unfold skipExtraComma
  simp only
  split
  · split
    · decide
    · split
      · decide
      · rfl
  · rfl

theorem run_after_done (sd : Bytes → UInt64 × Nat) (o : Opts) (st : St) (c : UInt8) (src : Bytes)
    (hs : st.state = S_DONE) (hw : isWsByte c = false) (hc : ¬(o.relaxed = true ∧ c = 0x2F)) :
    run sd o st (c :: src) = .error .unexpectedSymbol ∨ run sd o st (c :: src) = .error .invalidSymbol := by
  rw [run_cons]
  have hz : ∀ t, STEP st.state t = 0 := by intro t; rw [hs]; exact STEP_from_done t
  unfold step
  rcases classify_cases c with ⟨h, _⟩ | ⟨_, h⟩ | ⟨_, h⟩ | ⟨_, h⟩ | ⟨_, h⟩ | ⟨_, h⟩ | ⟨_, h⟩ | ⟨_, h⟩ |
      ⟨_, h⟩ | ⟨_, h⟩ | ⟨_, h⟩ | ⟨_, h⟩ | ⟨hc2, h⟩ | ⟨_, _, h⟩
  · rw [hw] at h; cases h
  · rw [h]; left; simp only [stepString, withTok_zero (hz _)]
  · rw [h]; left; simp only [stepLit, withTok_zero (hz _)]
  · rw [h]; left; simp only [stepLit, withTok_zero (hz _)]
  · rw [h]; left; simp only [stepLit, withTok_zero (hz _)]
  · rw [h]; left; simp only [stepNumber, withTok_zero (hz _)]
  · rw [h]; left; simp only [stepOpen, withTok_zero (hz _)]
  · rw [h]; left; simp only [stepOpen, withTok_zero (hz _)]
  · rw [h]; left; simp only [stepClose, withTok_zero (hz _)]
  · rw [h]; left; simp only [stepClose, withTok_zero (hz _)]
  · rw [h]; left; simp only [stepColon, withTok_zero (hz _)]
  · rw [h]; left
    simp only [stepComma, hs, skipExtraComma_done, Bool.and_false, Bool.false_eq_true, if_false]
    rw [withTok_zero (by rw [hs]; exact STEP_from_done _)]
  · rw [h]; right
    have hc3 : c = 0x2F := by simpa using hc2
    have hr : o.relaxed = false := by
      cases hro : o.relaxed with
      | false => rfl
      | true => exact absurd ⟨hro, hc3⟩ hc
    simp only [stepSlash, hr]
    rfl
  · rw [h]; right; rfl

/-! ## extra commas in strict mode -/

theorem run_comma_strict (sd : Bytes → UInt64 × Nat) (o : Opts) (st : St) (src : Bytes)
    (hr : o.relaxed = false) :
    run sd o st (0x2C :: src) =
      if STEP st.state T_COMMA = 0 then .error .unexpectedSymbol
      else run sd o { st with state := STEP st.state T_COMMA } src := by
  rw [run_cons]
  have : classify 0x2C = .comma := by decide
  unfold step; rw [this]
  simp only [stepComma, hr, Bool.false_and, Bool.false_eq_true, if_false]
  by_cases hz : STEP st.state T_COMMA = 0
  · rw [withTok_zero hz, if_pos hz]
  · rw [withTok_pos hz, if_neg hz]

theorem run_close_zero (sd : Bytes → UInt64 × Nat) (o : Opts) (st : St) (src : Bytes) (d : UInt8)
    (hd : d = 0x5D ∨ d = 0x7D) (h1 : STEP st.state T_CLOSE_LIST = 0) (h2 : STEP st.state T_CLOSE_DICT = 0) :
    run sd o st (d :: src) = .error .unexpectedSymbol := by
  rw [run_cons]
  rcases hd with rfl | rfl
  · have : classify 0x5D = .closeL := by decide
    unfold step; rw [this]; simp only [stepClose, withTok_zero h1]
  · have : classify 0x7D = .closeD := by decide
    unfold step; rw [this]; simp only [stepClose, withTok_zero h2]

/-- strict mode: a comma followed (after white space) by a comma, a closer or the end of the
document is an error -/
theorem run_extra_comma_strict (sd : Bytes → UInt64 × Nat) (o : Opts) (st : St) (ws tail : Bytes)
    (hr : o.relaxed = false) (hws : ∀ b ∈ ws, isWsByte b = true)
    (ht : tail = [] ∨ ∃ d t, tail = d :: t ∧ (d = 0x2C ∨ d = 0x5D ∨ d = 0x7D)) :
    ∃ e, run sd o st (0x2C :: (ws ++ tail)) = .error e := by
  rw [run_comma_strict sd o st _ hr]
  by_cases hz : STEP st.state T_COMMA = 0
  · rw [if_pos hz]; exact ⟨_, rfl⟩
  · rw [if_neg hz, run_ws sd o _ ws tail hws]
    obtain ⟨a, b, c, d, _⟩ := STEP_after_comma st.state hz
    rcases ht with rfl | ⟨x, t, rfl, hx⟩
    · rw [run_nil]
      simp only
      refine ⟨.containerStillOpen, ?_⟩
      rw [if_pos]
      simpa using d
    · rcases hx with rfl | hx
      · rw [run_comma_strict sd o _ _ hr]
        simp only
        rw [if_pos a]; exact ⟨_, rfl⟩
      · exact ⟨_, run_close_zero sd o _ t x hx b c⟩

/-- strict mode: a comma directly (white space only) after `[`, `{` is an error -/
theorem run_leading_comma_strict (sd : Bytes → UInt64 × Nat) (o : Opts) (st : St) (b : UInt8)
    (ws tail : Bytes) (hr : o.relaxed = false) (hb : b = 0x5B ∨ b = 0x7B)
    (hws : ∀ x ∈ ws, isWsByte x = true) :
    ∃ e, run sd o st (b :: (ws ++ 0x2C :: tail)) = .error e := by
  rw [run_cons]
  have key : ∀ (tok : Nat) (f : Frame), (tok = T_OPEN_LIST ∨ tok = T_OPEN_DICT) →
      ∃ e, (match stepOpen st tok f (ws ++ 0x2C :: tail) with
        | .err e => (.error e : Except Err JVal)
        | .next st' rest => run sd o st' rest) = .error e := by
    intro tok f htok
    cases hs : stepOpen st tok f (ws ++ 0x2C :: tail) with
    | err e => exact ⟨e, rfl⟩
    | next st' rest =>
      obtain ⟨_, rfl, ho⟩ := stepOpen_next hs
      have hst := openC_ok ho
      simp only at hst ⊢
      rw [run_ws sd o st' ws _ hws, run_comma_strict sd o st' _ hr, hst]
      have := (STEP_comma_after_open st.state tok (by rcases htok with h | h <;> simp [h])).1
      rw [if_pos this]; exact ⟨_, rfl⟩
  rcases hb with rfl | rfl
  · have : classify 0x5B = .openL := by decide
    unfold step; rw [this]; exact key _ _ (Or.inl rfl)
  · have : classify 0x7B = .openD := by decide
    unfold step; rw [this]; exact key _ _ (Or.inr rfl)

end Usual.C02
