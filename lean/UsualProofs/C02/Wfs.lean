import UsualProofs.C02.Loop
import UsualProofs.C11.Strings
/-!
# C02 — well-formed UTF-8 byte strings (`C11.WFString`) over `List UInt8`
-/
namespace Usual.C02
open Usual.C11 UsualProofs.C11

/-- the bytes form well-formed UTF-8 (concatenation of rows of Table 3-7) without NUL -/
def WFS (s : Bytes) : Prop := WFString (ofU8 s)

theorem ofU8_append (a b : Bytes) : ofU8 (a ++ b) = ofU8 a ++ ofU8 b := by simp [ofU8]
theorem ofU8_cons (a : UInt8) (b : Bytes) : ofU8 (a :: b) = a.toBitVec :: ofU8 b := rfl
theorem ofU8_take (a : Bytes) (n : Nat) : ofU8 (a.take n) = (ofU8 a).take n := by simp [ofU8]
theorem ofU8_length (a : Bytes) : (ofU8 a).length = a.length := by simp [ofU8]

theorem WFString_append {a b : List B} (ha : WFString a) (hb : WFString b) : WFString (a ++ b) := by
  obtain ⟨ca, ea, ha⟩ := ha
  obtain ⟨cb, eb, hb⟩ := hb
  refine ⟨ca ++ cb, by rw [List.flatten_append, ea, eb], ?_⟩
  intro c hc
  rcases List.mem_append.mp hc with h | h
  · exact ha c h
  · exact hb c h

theorem WFS_nil : WFS [] := WFString_nil

theorem WFS_append {a b : Bytes} (ha : WFS a) (hb : WFS b) : WFS (a ++ b) := by
  unfold WFS; rw [ofU8_append]; exact WFString_append ha hb

theorem WFString_single (b : B) (h1 : b.toNat < 128) (h0 : b ≠ 0#8) : WFString [b] := by
  have : WFString ([b] ++ []) := WFString_cons_chunk [b] [] (by
    unfold WF wf1
    simp only [BitVec.le_def]
    have : (0x7F#8).toNat = 127 := by decide
    omega) (by simpa using h0) WFString_nil
  simpa using this

theorem WFS_single (c : UInt8) (h1 : c.toNat < 128) (h0 : c ≠ 0) : WFS [c] := by
  unfold WFS
  rw [ofU8_cons]
  refine WFString_single _ h1 ?_
  intro h
  apply h0
  exact UInt8.toBitVec_inj.mp h

/-- in a well-formed sequence every byte after the first is a continuation byte -/
theorem WF_tail_ge (b : B) (t : List B) (h : WF (b :: t)) : ∀ y ∈ t, 128 ≤ y.toNat := by
  match t, h with
  | [], _ => intro y hy; cases hy
  | [b1], h =>
    unfold WF wf2 at h; u8nat
    intro y hy; simp at hy; subst hy; omega
  | [b1, b2], h =>
    unfold WF wf3 at h; u8nat
    intro y hy; simp at hy; rcases hy with rfl | rfl <;> omega
  | [b1, b2, b3], h =>
    unfold WF wf4 at h; u8nat
    intro y hy; simp at hy; rcases hy with rfl | rfl | rfl <;> omega

/-- an ASCII byte is a chunk of its own: a well-formed string splits around it -/
theorem WFString_split (a : B) (y : List B) (ha : a.toNat < 128) :
    ∀ (n : Nat) (x : List B), x.length ≤ n → WFString (x ++ a :: y) → WFString x ∧ WFString y
  | _, [], _, h => by
    obtain ⟨c, t, e, hc, _, ht⟩ := WFString_uncons (a :: y) (by simp) h
    obtain ⟨t', rfl, e2⟩ := chunk_head a y c t e hc
    have := WF_ascii a t' hc ha
    subst this
    simp at e2; subst e2
    exact ⟨WFString_nil, ht⟩
  | 0, _ :: _, hl, _ => by simp at hl
  | n + 1, b :: x', hl, h => by
    obtain ⟨c, t, e, hc, h0, ht⟩ := WFString_uncons (b :: (x' ++ a :: y)) (by simp) h
    obtain ⟨t', rfl, e2⟩ := chunk_head b (x' ++ a :: y) c t e hc
    have htail := WF_tail_ge b t' hc
    rcases List.append_eq_append_iff.mp e2 with ⟨a', e3, e4⟩ | ⟨c', e3, e4⟩
    · -- t' = x' ++ a', a :: y = a' ++ t
      cases a' with
      | nil =>
        simp at e3 e4
        subst e3
        have hy : WFString y := by
          have := WFString_split a y ha n [] (by simp) (by rw [← e4] at ht; simpa using ht)
          exact this.2
        refine ⟨?_, hy⟩
        have := WFString_cons_chunk (b :: t') [] hc h0 WFString_nil
        simpa using this
      | cons z a'' =>
        simp at e4
        obtain ⟨rfl, _⟩ := e4
        have := htail a (by rw [e3]; simp)
        omega
    · -- x' = t' ++ c', t = c' ++ a :: y
      subst e3
      have hlen : c'.length ≤ n := by simp at hl; omega
      obtain ⟨h1, h2⟩ := WFString_split a y ha n c' hlen (by rw [e4] at ht; exact ht)
      refine ⟨?_, h2⟩
      have := WFString_cons_chunk (b :: t') c' hc h0 h1
      simpa using this

theorem WFS_split {x y : Bytes} {a : UInt8} (ha : a.toNat < 128) (h : WFS (x ++ a :: y)) :
    WFS x ∧ WFS y := by
  unfold WFS at h ⊢
  rw [ofU8_append, ofU8_cons] at h
  exact WFString_split a.toBitVec (ofU8 y) ha _ (ofU8 x) (Nat.le_refl _) h

/-- replace an ASCII byte of a well-formed string by a well-formed string -/
theorem WFS_replace {x y m : Bytes} {a : UInt8} (ha : a.toNat < 128) (h : WFS (x ++ a :: y)) (hm : WFS m) :
    WFS (x ++ m ++ y) := by
  obtain ⟨h1, h2⟩ := WFS_split ha h
  exact WFS_append (WFS_append h1 hm) h2

/-- no byte of a well-formed string is NUL -/
theorem WFString_no_nul : ∀ (n : Nat) (s : List B), s.length ≤ n → WFString s → ∀ b ∈ s, b ≠ 0#8
  | _, [], _, _ => by intro b hb; cases hb
  | 0, _ :: _, hl, _ => by simp at hl
  | n + 1, b :: r, hl, h => by
    obtain ⟨c, t, e, hc, h0, ht⟩ := WFString_uncons (b :: r) (by simp) h
    obtain ⟨t', rfl, e2⟩ := chunk_head b r c t e hc
    have htail := WF_tail_ge b t' hc
    have hb0 : b ≠ 0#8 := by
      intro hb; subst hb
      have := WF_ascii 0#8 t' hc (by decide)
      subst this
      exact h0 rfl
    have ih := WFString_no_nul n t (by simp at hl; rw [e2] at hl; simp at hl; omega) ht
    intro z hz
    rcases List.mem_cons.mp hz with rfl | hz
    · exact hb0
    · rw [e2] at hz
      rcases List.mem_append.mp hz with hz | hz
      · intro h0'; subst h0'; have := htail _ hz; simp at this
      · exact ih z hz

theorem WFS_no_nul {s : Bytes} (h : WFS s) : (0 : UInt8) ∉ s := by
  intro hm
  have : (0 : UInt8).toBitVec ∈ ofU8 s := by
    unfold ofU8; exact List.mem_map.mpr ⟨0, hm, rfl⟩
  exact WFString_no_nul _ _ (Nat.le_refl _) h _ this rfl

/-! ## `utf8_validate_seq` as used by `scan_string` -/

theorem vseq_spec {s : Bytes} (hs : s ≠ []) {k : Nat} (hk : vseq s = k) (h0 : k ≠ 0) :
    k ≤ s.length ∧ k ≤ 4 ∧ WF (ofU8 (s.take k)) ∧ ofU8 (s.take k) ≠ [0#8] := by
  unfold vseq validateSeqU at hk
  have hne : ofU8 (s.take 4) ≠ [] := by
    cases s with
    | nil => exact absurd rfl hs
    | cons a r => simp [ofU8]
  obtain ⟨h1, h2, h3⟩ := vsL_chunk (ofU8 (s.take 4)) k hne h0 hk
  rw [ofU8_length, List.length_take] at h1
  have h4 : k ≤ 4 := by omega
  have e : (ofU8 (s.take 4)).take k = ofU8 (s.take k) := by
    rw [← ofU8_take, List.take_take, Nat.min_eq_left h4]
  rw [e] at h2 h3
  exact ⟨by omega, h4, h2, h3⟩

theorem WFS_chunk {c : Bytes} (h : WF (ofU8 c)) (h0 : ofU8 c ≠ [0#8]) : WFS c := by
  have := WFString_cons_chunk (ofU8 c) [] h h0 WFString_nil
  unfold WFS; simpa using this

end Usual.C02
