import UsualProofs.C02.RfcUtf8
/-!
# C02 — acceptance, part 3: an RFC 8259 string token is scanned and un-escaped to the same bytes
-/
namespace Usual.C02
open Usual.C03 (JVal insertKv)
open Usual.C11 UsualProofs.C11

/-! ## hex digits -/

theorem hexVal_eq (b : UInt8) : Usual.C03.Rfc.hexVal b = hexDig b := rfl

theorem hexDig_plain {c : UInt8} {x : Nat} (h : hexDig c = some x) : examine c = false ∧ c ≠ 0x5C := by
  have hc := hexDig_ascii h
  have hne : ∀ k : UInt8, hexDig k = none → c ≠ k := by
    intro k hk e; rw [e, hk] at h; cases h
  have h22 := hne 0x22 (by decide)
  have h5c := hne 0x5C (by decide)
  have h0 := hne 0 (by decide)
  have ha := hne 0x0A (by decide)
  refine ⟨?_, h5c⟩
  cases hex : examine c with
  | false => rfl
  | true =>
    rcases (examine_spec c).mp hex with e | e | e | e | e
    · exact absurd e h22
    · exact absurd e h5c
    · exact absurd e h0
    · exact absurd e ha
    · omega

theorem hex4_spec {s : Bytes} {v : Nat} {r : Bytes} (h : Usual.C03.Rfc.hex4 s = some (v, r)) :
    ∃ a b c d, s = a :: b :: c :: d :: r ∧ parseHex s = some v ∧ v < 65536 ∧
      examine a = false ∧ examine b = false ∧ examine c = false ∧ examine d = false ∧
      a ≠ 0x5C ∧ b ≠ 0x5C ∧ c ≠ 0x5C ∧ d ≠ 0x5C := by
  match s, h with
  | a :: b :: c :: d :: t, h =>
    unfold Usual.C03.Rfc.hex4 at h
    simp only [hexVal_eq] at h
    cases ha : hexDig a with
    | none => simp [ha] at h
    | some x =>
      cases hb : hexDig b with
      | none => simp [ha, hb] at h
      | some y =>
        cases hc : hexDig c with
        | none => simp [ha, hb, hc] at h
        | some z =>
          cases hd : hexDig d with
          | none => simp [ha, hb, hc, hd] at h
          | some w =>
            simp only [ha, hb, hc, hd] at h
            cases h
            have := hexDig_ascii ha; have := hexDig_ascii hb
            have := hexDig_ascii hc; have := hexDig_ascii hd
            refine ⟨a, b, c, d, rfl, ?_, by omega, (hexDig_plain ha).1, (hexDig_plain hb).1,
              (hexDig_plain hc).1, (hexDig_plain hd).1, (hexDig_plain ha).2, (hexDig_plain hb).2,
              (hexDig_plain hc).2, (hexDig_plain hd).2⟩
            unfold parseHex
            simp only [ha, hb, hc, hd]

/-! ## plain runs -/

theorem scanS_plains (chk : Bool) : ∀ (p r : Bytes) (n : Nat) (e : Bool), (∀ x ∈ p, examine x = false) →
    scanS chk (p ++ r) n e = scanS chk r (n + p.length) e
  | [], r, n, e, _ => by simp
  | a :: p, r, n, e, h => by
    rw [List.cons_append, scanS_plain chk (h a (by simp)), scanS_plains chk p r _ e (fun x hx => h x (by simp [hx]))]
    simp only [List.length_cons]
    congr 1; omega

/-! ## one `char` of RFC 8259 §7 -/

/-- the source bytes `p` of one `char`, how `scan_string` and `process_escapes` get across them -/
def CharSim (chk : Bool) (inp bs r' : Bytes) : Prop :=
  ∃ p : Bytes, inp = p ++ r' ∧ bs.length ≤ p.length ∧ 1 ≤ p.length ∧
    (∀ n e, scanS chk (p ++ r') n e = scanS chk r' (n + p.length) (e || decide (0x5C ∈ p))) ∧
    (∀ total acc rest, acc.length + p.length ≤ total →
      peS total (p ++ rest) acc = peS total rest (bs.reverse ++ acc))

theorem simple_table (e : UInt8) (bs r r' : Bytes) (h : Usual.C03.Rfc.escape (e :: r) = some (bs, r'))
    (hu : e ≠ 0x75) : ∃ x, simpleEscape e = some x ∧ bs = [x] ∧ r' = r := by
  unfold Usual.C03.Rfc.escape at h
  dsimp only at h
  unfold simpleEscape
  by_cases h1 : (e == 0x22) = true
  · rw [if_pos h1] at h ⊢; cases h; exact ⟨_, rfl, rfl, rfl⟩
  rw [if_neg h1] at h ⊢
  by_cases h2 : (e == 0x5C) = true
  · rw [if_pos h2] at h ⊢; cases h; exact ⟨_, rfl, rfl, rfl⟩
  rw [if_neg h2] at h ⊢
  by_cases h3 : (e == 0x2F) = true
  · rw [if_pos h3] at h ⊢; cases h; exact ⟨_, rfl, rfl, rfl⟩
  rw [if_neg h3] at h ⊢
  by_cases h4 : (e == 0x62) = true
  · rw [if_pos h4] at h ⊢; cases h; exact ⟨_, rfl, rfl, rfl⟩
  rw [if_neg h4] at h ⊢
  by_cases h5 : (e == 0x66) = true
  · rw [if_pos h5] at h ⊢; cases h; exact ⟨_, rfl, rfl, rfl⟩
  rw [if_neg h5] at h ⊢
  by_cases h6 : (e == 0x6E) = true
  · rw [if_pos h6] at h ⊢; cases h; exact ⟨_, rfl, rfl, rfl⟩
  rw [if_neg h6] at h ⊢
  by_cases h7 : (e == 0x72) = true
  · rw [if_pos h7] at h ⊢; cases h; exact ⟨_, rfl, rfl, rfl⟩
  rw [if_neg h7] at h ⊢
  by_cases h8 : (e == 0x74) = true
  · rw [if_pos h8] at h ⊢; cases h; exact ⟨_, rfl, rfl, rfl⟩
  rw [if_neg h8] at h ⊢
  by_cases h9 : (e == 0x75) = true
  · exact absurd (by simpa using h9) hu
  rw [if_neg h9] at h; cases h

theorem simpleEscape_scan (chk : Bool) {e x : UInt8} (hs : simpleEscape e = some x) (r : Bytes) (n : Nat) (b : Bool) :
    scanS chk (0x5C :: e :: r) n b = scanS chk r (n + 2) true := by
  by_cases hp : e = 0x5C ∨ e = 0x22
  · exact scanS_pair chk hp r n b
  · have hp' : e ≠ 0x5C ∧ e ≠ 0x22 := by
      constructor <;> (intro h; exact hp (by simp [h]))
    rw [scanS_backslash chk hp']
    have hex : examine e = false := by
      cases hx : examine e with
      | false => rfl
      | true =>
        have hne : ∀ k : UInt8, simpleEscape k = none → e ≠ k := by
          intro k hk he; rw [he, hk] at hs; cases hs
        have he128 := (simpleEscape_spec hs).1
        rcases (examine_spec e).mp hx with h | h | h | h | h
        · exact absurd h hp'.2
        · exact absurd h hp'.1
        · exact absurd h (hne 0 (by decide))
        · exact absurd h (hne 0x0A (by decide))
        · omega
    rw [scanS_plain chk hex]

/-- `\uXXXX` / `\uHHHH\uLLLL` -/
theorem uEscape_sim (chk : Bool) {r1 bs r' : Bytes} (h : Usual.C03.Rfc.uEscape r1 = some (bs, r'))
    (h0 : (0 : UInt8) ∉ bs) : CharSim chk (0x5C :: 0x75 :: r1) bs r' := by
  unfold Usual.C03.Rfc.uEscape at h
  cases hh : Usual.C03.Rfc.hex4 r1 with
  | none => simp [hh] at h
  | some p1 =>
    obtain ⟨u, t⟩ := p1
    simp only [hh] at h
    obtain ⟨a1, a2, a3, a4, rfl, hp1, hu, x1, x2, x3, x4, y1, y2, y3, y4⟩ := hex4_spec hh
    have hu75 : examine 0x75 = false := by decide
    by_cases hs : (decide (u < 0xD800) || decide (0xDFFF < u)) = true
    · rw [if_pos hs] at h
      simp only [Option.some.injEq, Prod.mk.injEq] at h
      obtain ⟨hbs, rfl⟩ := h
      have hs' : u < 0xD800 ∨ 0xDFFF < u := by simpa using hs
      have hu0 : u ≠ 0 := by
        intro e; subst e; rw [← hbs] at h0; exact h0 (by decide)
      have hlen := utf8Enc_length u
      rw [hbs] at hlen
      refine ⟨[0x5C, 0x75, a1, a2, a3, a4], rfl, by simp; omega, by simp, ?_, ?_⟩
      · intro n e
        show scanS chk (0x5C :: 0x75 :: ([a1, a2, a3, a4] ++ t)) n e = _
        rw [scanS_backslash chk (by decide), scanS_plain chk hu75,
          scanS_plains chk [a1, a2, a3, a4] t _ _ (by
            intro x hx; simp at hx; rcases hx with rfl | rfl | rfl | rfl <;> assumption)]
        simp only [List.length_cons, List.length_nil]
        have : decide ((0x5C : UInt8) ∈ [0x5C, 0x75, a1, a2, a3, a4]) = true :=
          decide_eq_true List.mem_cons_self
        rw [this, Bool.or_true]
      · intro total acc rest hl
        show peS total (0x5C :: 0x75 :: (a1 :: a2 :: a3 :: a4 :: rest)) acc = _
        refine peS_u total _ acc ?_
        unfold parseUescape
        have : parseHex (a1 :: a2 :: a3 :: a4 :: rest) = some u := by
          have := parseHex_append (h := [a1, a2, a3, a4]) rfl rest
          simp only [List.cons_append, List.nil_append] at this
          rw [this]
          have := parseHex_append (h := [a1, a2, a3, a4]) rfl t
          simp only [List.cons_append, List.nil_append] at this
          rw [← this]; exact hp1
        rw [this]
        simp only
        rw [if_neg (by simpa using hu0), if_neg (by simp only [Bool.and_eq_true, decide_eq_true_eq]; omega)]
        unfold putEsc
        simp only [List.length_cons, List.length_nil] at hl
        rw [putCharU_enc _ u (by omega) (by omega), hbs]
        simp
    · rw [if_neg hs] at h
      have hs' : ¬ (u < 0xD800) ∧ ¬ (0xDFFF < u) := by simpa using hs
      by_cases hhi : u < 0xDC00
      · rw [if_pos hhi] at h
        split at h
        · rename_i t'
          cases hh2 : Usual.C03.Rfc.hex4 t' with
          | none => simp [hh2] at h
          | some p2 =>
            obtain ⟨l, t''⟩ := p2
            simp only [hh2] at h
            obtain ⟨b1, b2, b3, b4, rfl, hp2, hl, z1, z2, z3, z4, w1, w2, w3, w4⟩ := hex4_spec hh2
            by_cases hlo : (decide (0xDC00 ≤ l) && decide (l ≤ 0xDFFF)) = true
            · rw [if_pos hlo] at h
              simp only [Option.some.injEq, Prod.mk.injEq] at h
              obtain ⟨hbs, rfl⟩ := h
              have hlo' : 0xDC00 ≤ l ∧ l ≤ 0xDFFF := by simpa using hlo
              have hlen := utf8Enc_length (0x10000 + (u - 0xD800) * 1024 + (l - 0xDC00))
              rw [hbs] at hlen
              refine ⟨[0x5C, 0x75, a1, a2, a3, a4, 0x5C, 0x75, b1, b2, b3, b4], rfl, by simp; omega, by simp, ?_, ?_⟩
              · intro n e
                show scanS chk (0x5C :: 0x75 :: ([a1, a2, a3, a4] ++ 0x5C :: 0x75 :: ([b1, b2, b3, b4] ++ t''))) n e = _
                rw [scanS_backslash chk (by decide), scanS_plain chk hu75,
                  scanS_plains chk [a1, a2, a3, a4] _ _ _ (by
                    intro x hx; simp at hx; rcases hx with rfl | rfl | rfl | rfl <;> assumption),
                  scanS_backslash chk (by decide), scanS_plain chk hu75,
                  scanS_plains chk [b1, b2, b3, b4] t'' _ _ (by
                    intro x hx; simp at hx; rcases hx with rfl | rfl | rfl | rfl <;> assumption)]
                simp only [List.length_cons, List.length_nil]
                have : decide ((0x5C : UInt8) ∈ [0x5C, 0x75, a1, a2, a3, a4, 0x5C, 0x75, b1, b2, b3, b4]) = true :=
                  decide_eq_true List.mem_cons_self
                rw [this, Bool.or_true]
              · intro total acc rest hl'
                show peS total (0x5C :: 0x75 :: (a1 :: a2 :: a3 :: a4 :: 0x5C :: 0x75 :: b1 :: b2 :: b3 :: b4 :: rest)) acc = _
                refine peS_u total _ acc ?_
                unfold parseUescape
                have e1 : parseHex (a1 :: a2 :: a3 :: a4 :: 0x5C :: 0x75 :: b1 :: b2 :: b3 :: b4 :: rest) = some u := by
                  have := parseHex_append (h := [a1, a2, a3, a4]) rfl (0x5C :: 0x75 :: b1 :: b2 :: b3 :: b4 :: rest)
                  simp only [List.cons_append, List.nil_append] at this
                  rw [this]
                  have := parseHex_append (h := [a1, a2, a3, a4]) rfl (0x5C :: 0x75 :: b1 :: b2 :: b3 :: b4 :: t'')
                  simp only [List.cons_append, List.nil_append] at this
                  rw [← this]; exact hp1
                have e2 : parseHex (b1 :: b2 :: b3 :: b4 :: rest) = some l := by
                  have := parseHex_append (h := [b1, b2, b3, b4]) rfl rest
                  simp only [List.cons_append, List.nil_append] at this
                  rw [this]
                  have := parseHex_append (h := [b1, b2, b3, b4]) rfl t''
                  simp only [List.cons_append, List.nil_append] at this
                  rw [← this]; exact hp2
                rw [e1]
                simp only
                rw [if_neg (by simp; omega), if_pos (by simp only [Bool.and_eq_true, decide_eq_true_eq]; omega),
                  if_neg (by omega)]
                simp only [List.drop_succ_cons, List.drop_zero]
                rw [if_neg (by decide), e2]
                simp only
                rw [if_neg (by simp only [Bool.or_eq_true, decide_eq_true_eq]; omega)]
                unfold putEsc
                simp only [List.length_cons, List.length_nil] at hl'
                have harith : 0x10000 + u % 1024 * 1024 + l % 1024 = 0x10000 + (u - 0xD800) * 1024 + (l - 0xDC00) := by
                  omega
                rw [harith, putCharU_enc _ _ (by omega) (by omega), hbs]
                simp
            · rw [if_neg hlo] at h; cases h
        · cases h
      · rw [if_neg hhi] at h; cases h

end Usual.C02
