import UsualProofs.C02.Wfs
/-!
# C02 — what `scan_string` establishes
-/
namespace Usual.C02
open Usual.C11 UsualProofs.C11
open Usual.Gen.C02Tables

/-! ## `string_examine_chars` (extracted table): exactly `"`, `\`, NUL, LF and bytes ≥ 0x80 -/

def examineN (n : Nat) : Bool := stringExamineChars.getD n 0 != 0

theorem examine_eq (c : UInt8) : examine c = examineN c.toNat := rfl

theorem examineN_spec : ∀ n : Fin 256,
    examineN n.val = true ↔ (n.val = 0x22 ∨ n.val = 0x5C ∨ n.val = 0 ∨ n.val = 0x0A ∨ 128 ≤ n.val) := by
  decide +kernel

theorem examine_spec (c : UInt8) :
    examine c = true ↔ (c = 0x22 ∨ c = 0x5C ∨ c = 0 ∨ c = 0x0A ∨ 128 ≤ c.toNat) := by
  rw [examine_eq]
  have h := examineN_spec ⟨c.toNat, c.toNat_lt⟩
  simp only at h
  rw [h]
  have e : ∀ k : Nat, k < 256 → (c.toNat = k ↔ c = UInt8.ofNat k) := by
    intro k hk
    constructor
    · intro hc; apply UInt8.toNat_inj.mp; rw [hc, UInt8.toNat_ofNat']; omega
    · intro hc; rw [hc, UInt8.toNat_ofNat']; omega
  rw [e 0x22 (by omega), e 0x5C (by omega), e 0 (by omega), e 0x0A (by omega)]
  rfl

theorem examine_false {c : UInt8} (h : examine c = false) :
    c ≠ 0x22 ∧ c ≠ 0x5C ∧ c ≠ 0 ∧ c.toNat < 128 := by
  have := (not_congr (examine_spec c)).mp (by simp [h])
  refine ⟨fun e => this (Or.inl e), fun e => this (Or.inr (Or.inl e)),
    fun e => this (Or.inr (Or.inr (Or.inl e))), ?_⟩
  apply Nat.lt_of_not_le
  intro e; exact this (Or.inr (Or.inr (Or.inr (Or.inr e))))

theorem and128 : ∀ c : Fin 256, (c.val &&& 128 = 0 ↔ c.val < 128) := by decide +kernel

theorem UInt8_and_80 (c : UInt8) : (c &&& 0x80 != 0) = true ↔ 128 ≤ c.toNat := by
  have h := and128 ⟨c.toNat, c.toNat_lt⟩
  simp only at h
  have e : (c &&& 0x80 = 0) ↔ (c.toNat &&& 128 = 0) := by
    constructor
    · intro hc
      have : (c &&& 0x80).toNat = 0 := by rw [hc]; rfl
      rw [UInt8.toNat_and] at this; exact this
    · intro hc
      apply UInt8.toNat_inj.mp
      rw [UInt8.toNat_and]; exact hc
  constructor
  · intro hc
    have : ¬ (c &&& 0x80 = 0) := by simpa using hc
    rw [e, h] at this; omega
  · intro hc
    have : ¬ (c &&& 0x80 = 0) := by rw [e, h]; omega
    simpa using this

/-! ## the result of `scan_string` -/

/-- `body` contains no unescaped quotation mark and does not end in a lone backslash: it is the
body of a string token (the bytes between the quotes) -/
inductive StrBody : Bytes → Prop
  | nil : StrBody []
  | plain (c : UInt8) (r : Bytes) : c ≠ 0x22 → c ≠ 0x5C → StrBody r → StrBody (c :: r)
  | esc (d : UInt8) (r : Bytes) : StrBody r → StrBody (0x5C :: d :: r)

theorem StrBody.plains : ∀ (p : Bytes) (b : Bytes), (∀ x ∈ p, x ≠ 0x22 ∧ x ≠ 0x5C) → StrBody b → StrBody (p ++ b)
  | [], _, _, h => h
  | a :: p, b, hp, h =>
    StrBody.plain a (p ++ b) (hp a (by simp)).1 (hp a (by simp)).2
      (StrBody.plains p b (fun x hx => hp x (by simp [hx])) h)

/-- the token boundaries are determined by the bytes -/
theorem StrBody.unique : ∀ {b1 b2 r1 r2 : Bytes}, StrBody b1 → StrBody b2 →
    b1 ++ 0x22 :: r1 = b2 ++ 0x22 :: r2 → b1 = b2 ∧ r1 = r2 := by
  intro b1 b2 r1 r2 h1
  induction h1 generalizing b2 with
  | nil =>
    intro h2 e
    cases h2 with
    | nil => simp at e; exact ⟨rfl, e⟩
    | plain c r hq _ _ => simp at e; exact absurd e.1.symm hq
    | esc d r _ => simp at e
  | plain c r hq hb _ ih =>
    intro h2 e
    cases h2 with
    | nil => simp at e; exact absurd e.1 hq
    | plain c' r' _ _ h2' =>
      simp at e
      obtain ⟨rfl, e⟩ := e
      obtain ⟨rfl, rfl⟩ := ih h2' e
      exact ⟨rfl, rfl⟩
    | esc d r' _ => simp at e; exact absurd e.1 hb
  | esc d r _ ih =>
    intro h2 e
    cases h2 with
    | nil => simp at e
    | plain c' r' _ hb' _ => simp at e; exact absurd e.1.symm hb'
    | esc d' r' h2' =>
      simp at e
      obtain ⟨rfl, e⟩ := e
      obtain ⟨rfl, rfl⟩ := ih h2' e
      exact ⟨rfl, rfl⟩

/-- what a successful `scan_string` found: the bytes before the closing quote (`body`), what
follows it, well-formedness when `check_utf8`, and the `hasesc` flag -/
def ScanOk (chk : Bool) (s : Bytes) (n0 : Nat) (e0 : Bool) (n : Nat) (e : Bool) : Prop :=
  ∃ body rest, s = body ++ 0x22 :: rest ∧ n = n0 + body.length ∧ (chk = true → WFS body) ∧
    e = (e0 || decide (0x5C ∈ body)) ∧ StrBody body

theorem ScanOk.extend {chk : Bool} {p s' : Bytes} {n0 : Nat} {e0 : Bool} {n : Nat} {e : Bool}
    (h : ScanOk chk s' (n0 + p.length) (e0 || decide (0x5C ∈ p)) n e) (hp : chk = true → WFS p)
    (hsb : ∀ b r, s' = b ++ 0x22 :: r → StrBody b → StrBody (p ++ b)) :
    ScanOk chk (p ++ s') n0 e0 n e := by
  obtain ⟨body, rest, split, len, wf, esc, sb⟩ := h
  refine ⟨p ++ body, rest, by rw [split, List.append_assoc], by rw [len, List.length_append]; omega,
    fun hc => WFS_append (hp hc) (wf hc), ?_, hsb body rest split sb⟩
  rw [esc]
  simp only [List.mem_append, Bool.decide_or, Bool.or_assoc]

/-- one plain (no backslash, no quote) chunk `p` consumed -/
theorem ScanOk.plain {chk : Bool} {p s' : Bytes} {n0 : Nat} {e0 : Bool} {n : Nat} {e : Bool}
    (h : ScanOk chk s' (n0 + p.length) e0 n e) (hp : chk = true → WFS p)
    (hb : ∀ x ∈ p, x ≠ 0x22 ∧ x ≠ 0x5C) :
    ScanOk chk (p ++ s') n0 e0 n e := by
  refine ScanOk.extend ?_ hp (fun b _ _ sb => StrBody.plains p b hb sb)
  have : decide ((0x5C : UInt8) ∈ p) = false := by
    simp only [decide_eq_false_iff_not]; exact fun hm => (hb _ hm).2 rfl
  rw [this, Bool.or_false]; exact h

/-- a chunk containing a backslash consumed, flag set -/
theorem ScanOk.escaped {chk : Bool} {p s' : Bytes} {n0 : Nat} {e0 : Bool} {n : Nat} {e : Bool}
    (h : ScanOk chk s' (n0 + p.length) true n e) (hp : chk = true → WFS p) (hb : (0x5C : UInt8) ∈ p)
    (hsb : ∀ b r, s' = b ++ 0x22 :: r → StrBody b → StrBody (p ++ b)) :
    ScanOk chk (p ++ s') n0 e0 n e := by
  refine ScanOk.extend ?_ hp hsb
  have : decide ((0x5C : UInt8) ∈ p) = true := by simpa using hb
  rw [this, Bool.or_true]; exact h

theorem chunk_no_ascii {c : UInt8} {rest : Bytes} {k : Nat} (hc : 128 ≤ c.toNat)
    (hk : k ≠ 0) (kwf : WF (ofU8 ((c :: rest).take k))) : ∀ x ∈ (c :: rest).take k, 128 ≤ x.toNat := by
  cases k with
  | zero => exact absurd rfl hk
  | succ j =>
    rw [List.take_succ_cons] at kwf ⊢
    intro x hm
    rcases List.mem_cons.mp hm with h | h
    · rw [h]; exact hc
    · rw [ofU8_cons] at kwf
      exact WF_tail_ge _ _ kwf x.toBitVec (by unfold ofU8; exact List.mem_map.mpr ⟨_, h, rfl⟩)

theorem chunk_no_meta {c : UInt8} {rest : Bytes} {k : Nat} (hc : 128 ≤ c.toNat)
    (hk : k ≠ 0) (kwf : WF (ofU8 ((c :: rest).take k))) :
    ∀ x ∈ (c :: rest).take k, x ≠ 0x22 ∧ x ≠ 0x5C := by
  intro x hx
  have := chunk_no_ascii hc hk kwf x hx
  constructor <;> (intro h; rw [h] at this; exact absurd this (by decide))

theorem scanString_spec (chk : Bool) : ∀ (f : Nat) (s : Bytes) (n0 : Nat) (e0 : Bool) (n : Nat) (e : Bool),
    scanString chk f s n0 e0 = .ok (n, e) → ScanOk chk s n0 e0 n e
  | 0, _, _, _, _, _, h => by simp [scanString] at h
  | f + 1, [], _, _, _, _, h => by simp [scanString] at h
  | f + 1, c :: rest, n0, e0, n, e, h => by
    unfold scanString at h
    by_cases hex : (!examine c) = true
    · -- plain byte
      rw [if_pos hex] at h
      have hx := examine_false (by simpa using hex)
      have ih := scanString_spec chk f rest (n0 + 1) e0 n e h
      exact ScanOk.plain (p := [c]) ih (fun _ => WFS_single c hx.2.2.2 hx.2.2.1)
        (by intro x hxm; simp only [List.mem_singleton] at hxm; subst hxm; exact ⟨hx.1, hx.2.1⟩)
    rw [if_neg hex] at h
    by_cases hq : (c == 0x22) = true
    · -- closing quote
      rw [if_pos hq] at h
      have hq : c = 0x22 := by simpa using hq
      cases h
      exact ⟨[], rest, by rw [hq]; rfl, by simp, fun _ => WFS_nil, by simp, StrBody.nil⟩
    rw [if_neg hq] at h
    by_cases hb : (c == 0x5C) = true
    · -- backslash
      rw [if_pos hb] at h
      have hb : c = 0x5C := by simpa using hb
      subst hb
      have hbs : WFS [0x5C] := WFS_single 0x5C (by decide) (by decide)
      cases rest with
      | nil =>
        cases f with
        | zero => simp [scanString] at h
        | succ f' => simp [scanString] at h
      | cons d rest' =>
        simp only at h
        by_cases hd : (d == 0x5C || d == 0x22) = true
        · rw [if_pos hd] at h
          have ih := scanString_spec chk f rest' (n0 + 2) true n e h
          have hdw : WFS [d] := by
            rcases Bool.or_eq_true _ _ |>.mp hd with hd | hd
            · have : d = 0x5C := by simpa using hd
              subst this; exact hbs
            · have : d = 0x22 := by simpa using hd
              subst this; exact WFS_single 0x22 (by decide) (by decide)
          exact ScanOk.escaped (p := [0x5C, d]) ih
            (fun _ => WFS_append (a := [0x5C]) (b := [d]) hbs hdw) (by simp)
            (fun b _ _ sb => StrBody.esc d b sb)
        · rw [if_neg hd] at h
          have ih := scanString_spec chk f (d :: rest') (n0 + 1) true n e h
          have hd' : d ≠ 0x5C ∧ d ≠ 0x22 := by simpa using hd
          refine ScanOk.escaped (p := [0x5C]) ih (fun _ => hbs) (by simp) ?_
          intro b r eb sb
          cases sb with
          | nil => simp at eb; exact absurd eb.1 hd'.2
          | plain c' r' _ _ sb' => exact StrBody.esc c' r' sb'
          | esc d' r' _ => simp at eb; exact absurd eb.1 hd'.1
    rw [if_neg hb] at h
    have hcb : c ≠ 0x5C := by simpa using hb
    by_cases h80 : (c &&& 0x80 != 0) = true
    · -- byte >= 0x80
      rw [if_pos h80] at h
      have hc80 := (UInt8_and_80 c).mp h80
      by_cases hk : (vseq (c :: rest) != 0) = true
      · rw [if_pos hk] at h
        have hk' : vseq (c :: rest) ≠ 0 := by simpa using hk
        obtain ⟨k1, k4, kwf, k0⟩ := vseq_spec (s := c :: rest) (by simp) rfl hk'
        have ih := scanString_spec chk f _ _ e0 n e h
        have hsplit : c :: rest = (c :: rest).take (vseq (c :: rest)) ++ (c :: rest).drop (vseq (c :: rest)) :=
          (List.take_append_drop _ _).symm
        rw [hsplit]
        refine ScanOk.plain ?_ (fun _ => WFS_chunk kwf k0) (chunk_no_meta hc80 hk' kwf)
        rw [List.length_take, Nat.min_eq_left k1]
        exact ih
      · rw [if_neg hk] at h
        by_cases hchk : chk = true
        · rw [if_pos hchk] at h; cases h
        · rw [if_neg hchk] at h
          have ih := scanString_spec chk f rest (n0 + 1) e0 n e h
          have hcq : c ≠ 0x22 := by simpa using hq
          exact ScanOk.plain (p := [c]) ih (fun hc => absurd hc hchk)
            (by intro x hxm; simp only [List.mem_singleton] at hxm; subst hxm; exact ⟨hcq, hcb⟩)
    rw [if_neg h80] at h
    by_cases hnl : (c == 0x0A) = true
    · -- newline
      rw [if_pos hnl] at h
      have hnl : c = 0x0A := by simpa using hnl
      subst hnl
      have ih := scanString_spec chk f rest (n0 + 1) e0 n e h
      exact ScanOk.plain (p := [0x0A]) ih (fun _ => WFS_single 0x0A (by decide) (by decide))
        (by intro x hxm; simp only [List.mem_singleton] at hxm; subst hxm; decide)
    · rw [if_neg hnl] at h; cases h

theorem scanBody_spec {o : Opts} {src body rest : Bytes} {esc : Bool}
    (h : scanBody o src = .ok (body, esc, rest)) :
    src = body ++ 0x22 :: rest ∧ (o.ignoreEnc = false → WFS body) ∧ esc = decide (0x5C ∈ body) ∧
      StrBody body := by
  unfold scanBody at h
  cases hs : scanString (!o.ignoreEnc) (src.length + 1) src 0 false with
  | error e => simp [hs] at h
  | ok p =>
    obtain ⟨n, e⟩ := p
    simp only [hs] at h
    obtain ⟨b, r, split, len, wf, hesc, sb⟩ := scanString_spec _ _ _ _ _ _ _ hs
    have hn : n = b.length := by omega
    have e1 : src.take n = b := by rw [split, hn, List.take_left']; rfl
    have e2 : src.drop (n + 1) = r := by
      rw [split, hn]
      have : b ++ 0x22 :: r = (b ++ [0x22]) ++ r := by simp
      rw [this, List.drop_left']; simp
    cases h
    refine ⟨by rw [e1, e2]; exact split, fun hi => by rw [e1]; exact wf (by simp [hi]), ?_, by rw [e1]; exact sb⟩
    rw [e1, hesc]; simp

end Usual.C02
