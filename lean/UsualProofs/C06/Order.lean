import Mathlib.Data.Nat.Bitwise
import UsualProofs.C06.Transfer
/-! Bit order on zero-padded keys versus bytewise order; keys without trailing zero byte. -/
namespace Usual.C06

/-- byte `j` of the zero-padded key -/
def byteAt (k : Key) (j : Nat) : UInt8 := (k[j]?).getD 0

/-- standard bytewise lexicographic order on byte strings (a proper prefix is smaller) -/
def keyLt : Key → Key → Bool
  | [], [] => false
  | [], _ :: _ => true
  | _ :: _, [] => false
  | x :: xs, y :: ys => x < y || (x == y && keyLt xs ys)

/-- order of the zero-padded strings, bytewise -/
def PadLt (a b : Key) : Prop :=
  ∃ j, (∀ i, i < j → byteAt a i = byteAt b i) ∧ byteAt a j < byteAt b j

/-- order of the zero-padded strings, bitwise MSB first (what the tree shape gives) -/
def BitLt (a b : Key) : Prop :=
  ∃ n, (∀ i, i < n → getBit a i = getBit b i) ∧ getBit a n = false ∧ getBit b n = true

/-- the property's precondition on keys -/
def NoTrailingZero (k : Key) : Prop := k.getLast? ≠ some 0

theorem getBit_eq (k : Key) (pos : Nat) :
    getBit k pos = (byteAt k (pos / 8)).toNat.testBit (7 - pos % 8) := by
  simp only [getBit, getBitN, toNats, byteAt, List.getElem?_map]
  cases k[pos / 8]? <;> simp

theorem byte_eq_of_bits (a b : Key) (j : Nat)
    (h : ∀ p, p < 8 → getBit a (8 * j + p) = getBit b (8 * j + p)) : byteAt a j = byteAt b j := by
  apply UInt8.toNat_inj.mp
  apply Nat.eq_of_testBit_eq
  intro q
  by_cases hq : q < 8
  · have := h (7 - q) (by omega)
    rw [getBit_eq, getBit_eq] at this
    have e1 : (8 * j + (7 - q)) / 8 = j := by omega
    have e2 : 7 - (8 * j + (7 - q)) % 8 = q := by omega
    rw [e1, e2] at this
    exact this
  · have ha : (byteAt a j).toNat < 2 ^ q :=
      Nat.lt_of_lt_of_le (UInt8.toNat_lt _) (Nat.pow_le_pow_right (by omega) (by omega))
    have hb : (byteAt b j).toNat < 2 ^ q :=
      Nat.lt_of_lt_of_le (UInt8.toNat_lt _) (Nat.pow_le_pow_right (by omega) (by omega))
    rw [Nat.testBit_lt_two_pow ha, Nat.testBit_lt_two_pow hb]

theorem padLt_of_bitLt (a b : Key) (h : BitLt a b) : PadLt a b := by
  obtain ⟨n, heq, ha, hb⟩ := h
  refine ⟨n / 8, ?_, ?_⟩
  · intro i hi
    apply byte_eq_of_bits
    intro p hp
    exact heq _ (by omega)
  · rw [UInt8.lt_iff_toNat_lt]
    rw [getBit_eq] at ha hb
    apply Nat.lt_of_testBit (7 - n % 8) ha hb
    intro q hq
    by_cases hq8 : q < 8
    · have := heq (8 * (n / 8) + (7 - q)) (by omega)
      rw [getBit_eq, getBit_eq] at this
      have e1 : (8 * (n / 8) + (7 - q)) / 8 = n / 8 := by omega
      have e2 : 7 - (8 * (n / 8) + (7 - q)) % 8 = q := by omega
      rw [e1, e2] at this
      exact this
    · have h1 : (byteAt a (n / 8)).toNat < 2 ^ q :=
        Nat.lt_of_lt_of_le (UInt8.toNat_lt _) (Nat.pow_le_pow_right (by omega) (by omega))
      have h2 : (byteAt b (n / 8)).toNat < 2 ^ q :=
        Nat.lt_of_lt_of_le (UInt8.toNat_lt _) (Nat.pow_le_pow_right (by omega) (by omega))
      rw [Nat.testBit_lt_two_pow h1, Nat.testBit_lt_two_pow h2]

@[simp] theorem byteAt_nil (j : Nat) : byteAt [] j = 0 := by simp [byteAt]
@[simp] theorem byteAt_cons_zero (x : UInt8) (xs : Key) : byteAt (x :: xs) 0 = x := by simp [byteAt]
@[simp] theorem byteAt_cons_succ (x : UInt8) (xs : Key) (j : Nat) :
    byteAt (x :: xs) (j + 1) = byteAt xs j := by simp [byteAt]

/-- zero-padded order implies the standard lexicographic order -/
theorem keyLt_of_padLt (a b : Key) (h : PadLt a b) : keyLt a b = true := by
  induction a generalizing b with
  | nil =>
    cases b with
    | nil => obtain ⟨j, _, hj⟩ := h; simp at hj
    | cons y ys => simp [keyLt]
  | cons x xs ih =>
    cases b with
    | nil =>
      obtain ⟨j, _, hj⟩ := h
      simp at hj
    | cons y ys =>
      obtain ⟨j, heq, hj⟩ := h
      cases j with
      | zero => simp at hj; simp [keyLt, hj]
      | succ j =>
        have hxy : x = y := by simpa using heq 0 (by omega)
        have : PadLt xs ys := ⟨j, fun i hi => by simpa using heq (i + 1) (by omega), by simpa using hj⟩
        simp [keyLt, hxy, ih ys this]

/-- bit order (the order of the tree walk) implies bytewise lexicographic order -/
theorem keyLt_of_bitLt (a b : Key) (h : BitLt a b) : keyLt a b = true :=
  keyLt_of_padLt a b (padLt_of_bitLt a b h)

theorem bytes_eq_of_padEq (a b : Key) (h : ∀ i, getBit a i = getBit b i) :
    ∀ j, byteAt a j = byteAt b j :=
  fun j => byte_eq_of_bits a b j (fun p _ => h _)

theorem getLast_zero_of_all_zero (k : Key) (hne : k ≠ []) (h : ∀ j, byteAt k j = 0) :
    k.getLast? = some 0 := by
  induction k with
  | nil => exact absurd rfl hne
  | cons x xs ih =>
    cases xs with
    | nil => have := h 0; simp at this; simp [this]
    | cons y ys =>
      rw [List.getLast?_cons_cons]
      exact ih (by simp) (fun j => by simpa using h (j + 1))

/-- for keys not ending in a zero byte, equal zero-padded strings are equal keys -/
theorem eq_of_padEq (a b : Key) (ha : NoTrailingZero a) (hb : NoTrailingZero b)
    (h : ∀ j, byteAt a j = byteAt b j) : a = b := by
  induction a generalizing b with
  | nil =>
    cases b with
    | nil => rfl
    | cons y ys =>
      exact absurd (getLast_zero_of_all_zero (y :: ys) (by simp) (fun j => by simpa using (h j).symm)) hb
  | cons x xs ih =>
    cases b with
    | nil =>
      exact absurd (getLast_zero_of_all_zero (x :: xs) (by simp) (fun j => by simpa using h j)) ha
    | cons y ys =>
      have hxy : x = y := by simpa using h 0
      have hxs : NoTrailingZero xs := by
        intro hl
        cases xs with
        | nil => simp at hl
        | cons z zs => exact ha (by rw [List.getLast?_cons_cons]; exact hl)
      have hys : NoTrailingZero ys := by
        intro hl
        cases ys with
        | nil => simp at hl
        | cons z zs => exact hb (by rw [List.getLast?_cons_cons]; exact hl)
      rw [hxy, ih ys hxs hys (fun j => by simpa using h (j + 1))]

theorem pad_eq_iff_eq (a b : Key) (ha : NoTrailingZero a) (hb : NoTrailingZero b) :
    (∀ i, getBit a i = getBit b i) ↔ a = b :=
  ⟨fun h => eq_of_padEq a b ha hb (bytes_eq_of_padEq a b h), fun h => by subst h; intro; rfl⟩

end Usual.C06
