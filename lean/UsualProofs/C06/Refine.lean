import UsualProofs.C06.Spec
/-! Refinement of the crit-bit tree to a finite map `Key → Option obj`, for every operation
    sequence over keys that do not end in a zero byte. -/
namespace Usual.C06

def Inv (root : Option T) : Prop :=
  match root with
  | none => True
  | some t => WF t

/-- every stored key satisfies the property's precondition -/
def NTZ (root : Option T) : Prop := ∀ e, e ∈ walk root → NoTrailingZero e.key

/-- abstraction: the finite map the tree represents -/
def absMap (root : Option T) (k : Key) : Option Nat := (lookup root k).map (·.obj)

theorem absMap_some_iff (root : Option T) (h : Inv root) (k : Key) (o : Nat) :
    absMap root k = some o ↔ (⟨k, o⟩ : Entry) ∈ walk root := by
  cases root with
  | none => simp [absMap, lookup, walk]
  | some t =>
    simp only [absMap, walk, Option.map_eq_some_iff]
    constructor
    · rintro ⟨e, hl, ho⟩
      obtain ⟨hm, hk⟩ := (lookup_some_iff t h k e).mp hl
      have : e = ⟨k, o⟩ := by cases e; simp_all
      rwa [← this]
    · intro hm
      exact ⟨⟨k, o⟩, (lookup_some_iff t h k _).mpr ⟨hm, rfl⟩, rfl⟩

theorem absMap_none_iff (root : Option T) (h : Inv root) (k : Key) :
    absMap root k = none ↔ ∀ e, e ∈ walk root → e.key ≠ k := by
  cases root with
  | none => simp [absMap, lookup, walk]
  | some t =>
    simp only [absMap, walk, Option.map_eq_none_iff]
    exact lookup_none_iff t h k

theorem wf_leaf (e : Entry) : WF (.leaf e) := G.WF.leaf e

/-- insert: refused exactly when the key is present; otherwise the map is updated at that key -/
theorem insert_refines (root : Option T) (h : Inv root) (hz : NTZ root) (e : Entry)
    (he : NoTrailingZero e.key) :
    (insert root e = none ↔ (absMap root e.key).isSome) ∧
    (∀ r, insert root e = some r →
      Inv r ∧ NTZ r ∧ ∀ k, absMap r k = if k = e.key then some e.obj else absMap root k) := by
  cases root with
  | none =>
    refine ⟨by simp [insert, absMap, lookup], ?_⟩
    intro r hr
    simp only [insert, Option.some.injEq] at hr
    subst hr
    refine ⟨wf_leaf e, ?_, ?_⟩
    · intro x hx
      simp only [walk, T.entries, List.mem_singleton] at hx
      subst hx; exact he
    · intro k
      simp only [absMap, lookup, T.rawLookup, keyMatches]
      by_cases hk : k = e.key
      · subst hk; simp
      · have : ¬ (e.key == k) = true := by simpa using fun h => hk h.symm
        simp [this, hk]
  | some t =>
    obtain ⟨h1, h2⟩ := insert_some_spec t h e
    constructor
    · rw [h1]
      constructor
      · rintro ⟨y, hy, hb⟩
        have hyk : e.key = y.key := (pad_eq_iff_eq _ _ he (hz y hy)).mp hb
        have : absMap (some t) e.key = some y.obj :=
          (absMap_some_iff (some t) h e.key y.obj).mpr (by rw [hyk]; exact hy)
        simp [this]
      · intro hs
        obtain ⟨o, ho⟩ := Option.isSome_iff_exists.mp hs
        have := (absMap_some_iff (some t) h e.key o).mp ho
        exact ⟨_, this, fun _ => rfl⟩
    · intro r hr
      obtain ⟨t', rfl, hwf, hmem⟩ := h2 r hr
      have hnot : ∀ y, y ∈ t.entries → y.key ≠ e.key := by
        intro y hy hk
        have : insert (some t) e = none := h1.mpr ⟨y, hy, by rw [hk]; intro; rfl⟩
        rw [this] at hr; cases hr
      refine ⟨hwf, ?_, ?_⟩
      · intro x hx
        rcases (hmem x).mp hx with rfl | hx
        · exact he
        · exact hz x hx
      · intro k
        apply Option.ext
        intro o
        rw [absMap_some_iff (some t') hwf]
        simp only [walk]
        rw [hmem]
        by_cases hk : k = e.key
        · subst hk
          simp only [↓reduceIte, Option.some.injEq]
          constructor
          · rintro (h | h)
            · rw [← h]
            · exact absurd rfl (hnot ⟨e.key, o⟩ h)
          · intro ho; left; cases e; simp_all
        · simp only [hk, ↓reduceIte]
          rw [absMap_some_iff (some t) h]
          simp only [walk]
          constructor
          · rintro (h | h)
            · exact absurd (by rw [← h]) hk
            · exact h
          · intro h; exact Or.inr h

/-- delete: fails exactly when the key is absent; otherwise removes exactly that key and hands
    exactly that object to the free callback -/
theorem delete_refines (root : Option T) (h : Inv root) (k : Key) :
    (delete root k = none ↔ absMap root k = none) ∧
    (∀ e r, delete root k = some (e, r) →
      e.key = k ∧ absMap root k = some e.obj ∧ Inv r ∧ (NTZ root → NTZ r) ∧
      (∀ k', absMap r k' = if k' = k then none else absMap root k') ∧
      ∃ pre post, walk root = pre ++ e :: post ∧ walk r = pre ++ post) := by
  cases root with
  | none => simp [delete, absMap, lookup]
  | some t =>
    obtain ⟨h1, h2⟩ := delete_spec t h k
    constructor
    · simp only [delete]
      rw [h1, absMap_none_iff (some t) h]
      simp [walk]
    · intro e r hd
      simp only [delete] at hd
      obtain ⟨hm, hk, hwf, pre, post, e1, e2⟩ := h2 e r hd
      have hInv : Inv r := by
        cases r with
        | none => trivial
        | some t' => exact hwf t' rfl
      have hw : walk r = pre ++ post := by cases r <;> simpa [walk] using e2
      have hpw := entries_pairwise t h
      rw [e1] at hpw
      have hsub : ∀ x, x ∈ walk r → x ∈ t.entries := by
        intro x hx; rw [hw] at hx; rw [e1]
        simp only [List.mem_append, List.mem_cons] at hx ⊢
        rcases hx with hx | hx
        · exact Or.inl hx
        · exact Or.inr (Or.inr hx)
      have hne : ∀ x, x ∈ walk r → x.key ≠ k := by
        intro x hx hxk
        have hxe : x = e := entry_unique t h x e (hsub x hx) hm (by rw [hxk, hk]; intro; rfl)
        subst hxe
        rw [hw] at hx
        rw [List.pairwise_append] at hpw
        obtain ⟨_, hp2, hp3⟩ := hpw
        rw [List.pairwise_cons] at hp2
        rcases List.mem_append.mp hx with hx | hx
        · exact bitLt_irrefl_of_padEq _ _ (fun _ => rfl) (hp3 _ hx _ (List.mem_cons_self))
        · exact bitLt_irrefl_of_padEq _ _ (fun _ => rfl) (hp2.1 _ hx)
      refine ⟨hk, ?_, hInv, ?_, ?_, pre, post, by simpa [walk] using e1, hw⟩
      · rw [absMap_some_iff (some t) h]
        simp only [walk]
        have : (⟨k, e.obj⟩ : Entry) = e := by cases e; simp_all
        rw [this]; exact hm
      · intro hz x hx
        exact hz x (by simpa [walk] using hsub x hx)
      · intro k'
        apply Option.ext
        intro o
        rw [absMap_some_iff r hInv]
        by_cases hk' : k' = k
        · subst hk'
          simp only [↓reduceIte]
          constructor
          · intro hx; exact absurd rfl (hne _ hx)
          · intro hx; cases hx
        · simp only [hk', ↓reduceIte]
          rw [absMap_some_iff (some t) h]
          simp only [walk]
          constructor
          · exact hsub _
          · intro hx
            show (⟨k', o⟩ : Entry) ∈ walk r
            rw [hw]
            rw [e1] at hx
            simp only [List.mem_append, List.mem_cons] at hx ⊢
            rcases hx with hx | hx | hx
            · exact Or.inl hx
            · exact absurd (by rw [← hx]) (fun h : e.key = k' => hk' (by rw [← h, hk]))
            · exact Or.inr hx

/-- walk: every stored object exactly once, in strictly ascending bytewise key order -/
theorem walk_spec (root : Option T) (h : Inv root) :
    (walk root).Pairwise (fun a b => keyLt a.key b.key = true) ∧
    (∀ e, e ∈ walk root ↔ absMap root e.key = some e.obj) := by
  constructor
  · cases root with
    | none => simp [walk]
    | some t => exact (entries_pairwise t h).imp (fun hlt => keyLt_of_bitLt _ _ hlt)
  · intro e
    rw [absMap_some_iff root h]

/-! ## operation sequences -/

inductive Op where
  | ins (e : Entry)
  | del (k : Key)
  | get (k : Key)

/-- what an operation reports: insert → accepted?, delete → object freed, lookup → object found -/
inductive Out where
  | flag (b : Bool)
  | obj (o : Option Nat)
deriving DecidableEq

def Op.keyOk : Op → Prop
  | .ins e => NoTrailingZero e.key
  | .del _ => True
  | .get _ => True

def step (root : Option T) : Op → Option T × Out
  | .ins e => match insert root e with
    | none => (root, .flag false)
    | some r => (r, .flag true)
  | .del k => match delete root k with
    | none => (root, .obj none)
    | some (e, r) => (r, .obj (some e.obj))
  | .get k => (root, .obj ((lookup root k).map (·.obj)))

/-- the reference: a finite map as a function -/
def specStep (m : Key → Option Nat) : Op → (Key → Option Nat) × Out
  | .ins e => if (m e.key).isSome then (m, .flag false)
              else (fun k => if k = e.key then some e.obj else m k, .flag true)
  | .del k => match m k with
    | none => (m, .obj none)
    | some o => (fun k' => if k' = k then none else m k', .obj (some o))
  | .get k => (m, .obj (m k))

def run (root : Option T) : List Op → Option T × List Out
  | [] => (root, [])
  | op :: ops => let (r, o) := step root op; let (r', os) := run r ops; (r', o :: os)

def specRun (m : Key → Option Nat) : List Op → (Key → Option Nat) × List Out
  | [] => (m, [])
  | op :: ops => let (m', o) := specStep m op; let (m'', os) := specRun m' ops; (m'', o :: os)

theorem step_refines (root : Option T) (h : Inv root) (hz : NTZ root) (op : Op) (hk : op.keyOk) :
    Inv (step root op).1 ∧ NTZ (step root op).1 ∧
    absMap (step root op).1 = (specStep (absMap root) op).1 ∧
    (step root op).2 = (specStep (absMap root) op).2 := by
  cases op with
  | ins e =>
    obtain ⟨h1, h2⟩ := insert_refines root h hz e hk
    simp only [step, specStep]
    cases hi : insert root e with
    | none =>
      have := h1.mp hi
      simp [this, h, hz]
    | some r =>
      obtain ⟨a, b, c⟩ := h2 r hi
      have hns : ¬ (absMap root e.key).isSome := by
        intro hs; have := h1.mpr hs; rw [hi] at this; cases this
      simp only [hns, Bool.false_eq_true, ↓reduceIte]
      exact ⟨a, b, funext c, trivial⟩
  | del k =>
    obtain ⟨h1, h2⟩ := delete_refines root h k
    simp only [step, specStep]
    cases hd : delete root k with
    | none =>
      have := h1.mp hd
      simp [this, h, hz]
    | some p =>
      obtain ⟨e, r⟩ := p
      obtain ⟨_, b, c, d, f, _⟩ := h2 e r hd
      simp only [b]
      exact ⟨c, d hz, funext f, trivial⟩
  | get k =>
    simp only [step, specStep]
    exact ⟨h, hz, trivial, rfl⟩

/-- **Refinement**: every sequence of insert / delete / lookup on the crit-bit tree, over keys
    not ending in a zero byte, reports exactly what the reference map reports, and the tree
    keeps representing the reference map. -/
theorem run_refines (ops : List Op) (hk : ∀ op, op ∈ ops → op.keyOk)
    (root : Option T) (h : Inv root) (hz : NTZ root) :
    (run root ops).2 = (specRun (absMap root) ops).2 ∧
    absMap (run root ops).1 = (specRun (absMap root) ops).1 ∧
    Inv (run root ops).1 ∧ NTZ (run root ops).1 := by
  induction ops generalizing root with
  | nil => simp [run, specRun, h, hz]
  | cons op ops ih =>
    obtain ⟨a, b, c, d⟩ := step_refines root h hz op (hk op (by simp))
    have := ih (fun o ho => hk o (by simp [ho])) (step root op).1 a b
    simp only [run, specRun]
    rw [← c, ← d]
    exact ⟨by rw [this.1], this.2.1, this.2.2.1, this.2.2.2⟩

end Usual.C06
