import UsualProofs.C06.MDictSpec
/-! dict-level url round trip: decoding the encoding of a dict reproduces the dict -/
namespace Usual.C06

theorem bitLt_asymm (a b : Key) (h1 : BitLt a b) (h2 : BitLt b a) : False := by
  obtain ⟨n, hn, an, bn⟩ := h1
  obtain ⟨m, hm, bm, am⟩ := h2
  rcases Nat.lt_trichotomy n m with h | h | h
  · have := hm n h; rw [an, bn] at this; cases this
  · subst h; rw [an] at am; cases am
  · have := hn m h; rw [am, bm] at this; cases this

theorem bitLt_irrefl (a : Key) : ¬ BitLt a a := fun h => bitLt_asymm a a h h

/-- strictly sorted lists with the same members are equal -/
theorem sorted_ext {α : Type} (R : α → α → Prop) (hasym : ∀ a b, R a b → R b a → False)
    (l1 l2 : List α) (h1 : l1.Pairwise R) (h2 : l2.Pairwise R)
    (hm : ∀ a, a ∈ l1 ↔ a ∈ l2) : l1 = l2 := by
  have nd : ∀ l : List α, l.Pairwise R → l.Nodup := by
    intro l hl
    rw [List.nodup_iff_pairwise_ne]
    exact hl.imp (fun {a b} hab e => by subst e; exact hasym a a hab hab)
  have hp : l1.Perm l2 := (List.perm_ext_iff_of_nodup (nd l1 h1) (nd l2 h2)).mpr hm
  exact List.Perm.eq_of_pairwise (fun a b _ _ hab hba => (hasym a b hab hba).elim) h1 h2 hp

theorem walk_bitLt (root : Option T) (h : Inv root) :
    (walk root).Pairwise (fun a b => BitLt a.key b.key) := by
  cases root with
  | none => simp [walk]
  | some t => exact entries_pairwise t h

theorem pairs_sorted (d : MDict) (h : MInv d) :
    d.pairs.Pairwise (fun a b => BitLt a.1 b.1) := by
  simp only [MDict.pairs, List.pairwise_map]
  exact walk_bitLt d.tree h.inv

theorem pairs_mem_iff (d : MDict) (h : MInv d) (k : Key) (v : Val) :
    (k, v) ∈ d.pairs ↔ d.get k = some v := by
  rw [get_eq]
  simp only [MDict.pairs, List.mem_map, Prod.mk.injEq, Option.map_eq_some_iff]
  constructor
  · rintro ⟨e, he, hk, hv⟩
    refine ⟨e.obj, ?_, hv⟩
    rw [absMap_some_iff d.tree h.inv, ← hk]
    exact he
  · rintro ⟨o, ho, hv⟩
    exact ⟨⟨k, o⟩, (absMap_some_iff d.tree h.inv k o).mp ho, rfl, hv⟩

theorem pairs_ntz (d : MDict) (h : MInv d) : ∀ p, p ∈ d.pairs → NoTrailingZero p.1 := by
  intro p hp
  simp only [MDict.pairs, List.mem_map] at hp
  obtain ⟨e, he, rfl⟩ := hp
  exact h.ntz e he

theorem bitLt_nil_right (a : Key) : ¬ BitLt a [] := by
  rintro ⟨n, _, _, h⟩
  simp [getBit, getBitN, toNats] at h

theorem lastOk_of_sorted (ps : List (Key × Val)) (hs : ps.Pairwise (fun a b => BitLt a.1 b.1))
    (hne : ps ≠ [([], none)]) : LastOk ps := by
  induction ps with
  | nil => trivial
  | cons p rest ih =>
    cases rest with
    | nil => simpa [LastOk] using hne
    | cons q rest' =>
      simp only [LastOk]
      rw [List.pairwise_cons] at hs
      apply ih hs.2
      intro hq
      have := hs.1 q (by simp)
      simp only [List.cons.injEq] at hq
      rw [hq.1] at this
      exact bitLt_nil_right _ this

theorem lastVal_iff_mem (ps : List (Key × Val)) (hd : ps.Pairwise (fun a b => a.1 ≠ b.1))
    (k : Key) (v : Val) : lastVal ps k = some v ↔ (k, v) ∈ ps := by
  induction ps generalizing v with
  | nil => simp [lastVal]
  | cons p rest ih =>
    rw [List.pairwise_cons] at hd
    rw [lastVal_cons]
    cases hl : lastVal rest k with
    | some w =>
      have hw : (k, w) ∈ rest := (ih hd.2 w).mp hl
      simp only [Option.some.injEq, List.mem_cons]
      constructor
      · intro e; subst e; exact Or.inr hw
      · rintro (e | e)
        · have := hd.1 (k, w) hw
          rw [← e] at this; exact absurd rfl this
        · have := (ih hd.2 v).mpr e
          rw [hl] at this; exact Option.some.inj this
    | none =>
      have hnot : ∀ w, (k, w) ∉ rest := by
        intro w hw
        have := (ih hd.2 w).mpr hw
        rw [hl] at this; cases this
      by_cases hp : p.1 = k
      · simp only [hp, ↓reduceIte, Option.some.injEq, List.mem_cons]
        constructor
        · intro e; left; rw [← e, ← hp]
        · rintro (e | e)
          · rw [← e]
          · exact absurd e (hnot v)
      · simp only [hp, ↓reduceIte, List.mem_cons]
        constructor
        · intro e; cases e
        · rintro (e | e)
          · rw [← e] at hp; exact absurd rfl hp
          · exact absurd e (hnot v)

/-- **URL round trip (dict level).**  For every dict reachable through the API over keys not
ending in a zero byte, url-encoding it and decoding the text into an empty dict succeeds and
reproduces exactly its key/value pairs — unless the dict is `{"" ↦ NULL}` (K1). -/
theorem mdict_roundtrip (d : MDict) (h : MInv d) (hne : d.pairs ≠ [([], none)]) :
    (({} : MDict).urldecode (urlencode d.pairs)).2 = true ∧
    (({} : MDict).urldecode (urlencode d.pairs)).1.pairs = d.pairs := by
  have hs := pairs_sorted d h
  have hlast := lastOk_of_sorted d.pairs hs hne
  have hdec := urldecode_urlencode_text d.pairs hlast
  obtain ⟨a, b, c⟩ := putAll_spec d.pairs {} minv_empty (pairs_ntz d h)
  have hu : ({} : MDict).urldecode (urlencode d.pairs) =
      ((({} : MDict).putAll d.pairs).1, (({} : MDict).putAll d.pairs).2) := by
    simp only [MDict.urldecode, hdec, Bool.true_and]
  rw [hu]
  refine ⟨a, ?_⟩
  apply sorted_ext (fun (x y : Key × Val) => BitLt x.1 y.1) (fun x y => bitLt_asymm x.1 y.1)
  · exact pairs_sorted _ b
  · exact hs
  · rintro ⟨k, v⟩
    rw [pairs_mem_iff _ b, c k]
    have hd : d.pairs.Pairwise (fun a b => a.1 ≠ b.1) :=
      hs.imp (fun {x y} hxy e => by rw [e] at hxy; exact bitLt_irrefl _ hxy)
    rw [← lastVal_iff_mem d.pairs hd k v]
    cases lastVal d.pairs k with
    | some w => rfl
    | none => simp [MDict.get, lookup]

end Usual.C06
