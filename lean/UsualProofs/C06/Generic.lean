/-! Crit-bit tree over abstract bit-string keys (generic lemmas; instantiated for the model
    of usual/cbtree.c in Transfer.lean). -/
namespace Usual.C06.G

/-- abstract key interface: infinite zero-padded bit string + first differing bit -/
class BitKey (K : Type) where
  bit : K → Nat → Bool
  crit : K → K → Option Nat
  crit_none : ∀ a b, crit a b = none ↔ ∀ i, bit a i = bit b i
  crit_some : ∀ a b n, crit a b = some n → (∀ i, i < n → bit a i = bit b i) ∧ bit a n ≠ bit b n

open BitKey

variable {K : Type} [BitKey K]

inductive T (K : Type) where
  | leaf (k : K)
  | node (b : Nat) (l r : T K)

def keys : T K → List K
  | .leaf k => [k]
  | .node _ l r => keys l ++ keys r

/-- raw_lookup: follow the bits of `k` down to a leaf -/
def rawLookup : T K → K → K
  | .leaf x, _ => x
  | .node b l r, k => if bit k b then rawLookup r k else rawLookup l k

/-- insert_at: descend while bitpos < newbit, then splice a new node -/
def insertAt (t : T K) (n : Nat) (k : K) : T K :=
  match t with
  | .node b l r =>
    if b < n then
      (if bit k b then .node b l (insertAt r n k) else .node b (insertAt l n k) r)
    else
      (if bit k n then .node n t (.leaf k) else .node n (.leaf k) t)
  | .leaf _ =>
      (if bit k n then .node n t (.leaf k) else .node n (.leaf k) t)

def insert (t : T K) (k : K) : Option (T K) :=
  match crit k (rawLookup t k) with
  | none => none
  | some n => some (insertAt t n k)

/-- in-order walk -/
def walk : T K → List K := keys

/-- all keys of a list agree with each other below position m -/
def AgreeBelow (m : Nat) (ks : List K) : Prop :=
  ∀ x, x ∈ ks → ∀ y, y ∈ ks → ∀ i, i < m → bit x i = bit y i

inductive WF : T K → Prop where
  | leaf (k : K) : WF (.leaf k)
  | node (b : Nat) (l r : T K) : WF l → WF r →
      (∀ x, x ∈ keys l → bit x b = false) → (∀ x, x ∈ keys r → bit x b = true) →
      AgreeBelow b (keys l ++ keys r) → WF (.node b l r)

/-- strict lexicographic order on bit strings -/
def Lt (a b : K) : Prop := ∃ n, (∀ i, i < n → bit a i = bit b i) ∧ bit a n = false ∧ bit b n = true

theorem keys_ne_nil (t : T K) : keys t ≠ [] := by
  induction t with
  | leaf k => simp [keys]
  | node b l r ihl _ => simp [keys, ihl]

theorem rawLookup_mem (t : T K) (k : K) : rawLookup t k ∈ keys t := by
  induction t with
  | leaf x => simp [rawLookup, keys]
  | node b l r ihl ihr =>
    unfold rawLookup
    split <;> simp [keys, ihl, ihr]

/-- walk of a well-formed tree is sorted: everything on the left is below everything on the right -/
theorem walk_sorted (t : T K) (h : WF t) : (walk t).Pairwise Lt := by
  induction h with
  | leaf k => simp [walk, keys]
  | node b l r _ _ hl hr hag ihl ihr =>
    simp only [walk, keys] at *
    rw [List.pairwise_append]
    refine ⟨ihl, ihr, ?_⟩
    intro x hx y hy
    refine ⟨b, ?_, hl x hx, hr y hy⟩
    intro i hi
    exact hag x (List.mem_append_left _ hx) y (List.mem_append_right _ hy) i hi

/-- keys after insertAt -/
theorem mem_keys_insertAt (t : T K) (n : Nat) (k : K) :
    ∀ x, x ∈ keys (insertAt t n k) ↔ x = k ∨ x ∈ keys t := by
  induction t with
  | leaf y =>
    intro x; unfold insertAt; split <;> simp [keys, or_comm]
  | node b l r ihl ihr =>
    intro x
    unfold insertAt
    split
    · split
      · simp [keys, ihr, or_left_comm]
      · simp [keys, ihl, or_assoc]
    · split
      · simp [keys, or_comm, or_left_comm, or_assoc]
      · simp [keys, or_assoc]

/-- in a well-formed node the found leaf carries the key's bit at the node position -/
theorem rawLookup_bit (b : Nat) (l r : T K) (k : K) (h : WF (.node b l r)) :
    bit (rawLookup (.node b l r) k) b = bit k b := by
  cases h with
  | node _ _ _ _ _ hl hr _ =>
    unfold rawLookup
    split
    · next hk => rw [hk]; exact hr _ (rawLookup_mem r k)
    · next hk =>
      have : bit k b = false := by simpa using hk
      rw [this]; exact hl _ (rawLookup_mem l k)

theorem wf_agree (t : T K) (h : WF t) (b : Nat) (l r : T K) (ht : t = .node b l r) :
    AgreeBelow b (keys t) := by
  subst ht
  cases h with
  | node _ _ _ _ _ _ _ hag => simpa [keys] using hag

/-- main preservation lemma -/
theorem wf_insertAt (t : T K) (n : Nat) (k : K) (h : WF t)
    (hpath : ∀ i, i < n → bit (rawLookup t k) i = bit k i)
    (hdiff : bit (rawLookup t k) n ≠ bit k n) :
    WF (insertAt t n k) := by
  induction t with
  | leaf y =>
    unfold insertAt
    simp only [rawLookup] at hpath hdiff
    split
    · next hk =>
      refine WF.node n _ _ (WF.leaf y) (WF.leaf k) ?_ ?_ ?_
      · intro x hx; simp [keys] at hx; subst hx
        cases hb : bit x n <;> simp_all
      · intro x hx; simp [keys] at hx; subst hx; exact hk
      · intro x hx z hz i hi
        simp [keys] at hx hz
        rcases hx with rfl | rfl <;> rcases hz with rfl | rfl <;> simp_all
    · next hk =>
      refine WF.node n _ _ (WF.leaf k) (WF.leaf y) ?_ ?_ ?_
      · intro x hx; simp [keys] at hx; subst hx; simpa using hk
      · intro x hx; simp [keys] at hx; subst hx
        cases hb : bit x n <;> simp_all
      · intro x hx z hz i hi
        simp [keys] at hx hz
        rcases hx with rfl | rfl <;> rcases hz with rfl | rfl <;> simp_all
  | node b l r ihl ihr =>
    have hbit := rawLookup_bit b l r k h
    have hmem := rawLookup_mem (.node b l r) k
    have hagb : AgreeBelow b (keys (.node b l r)) := wf_agree _ h b l r rfl
    cases h with
    | node _ _ _ hwl hwr hl hr hag =>
    unfold insertAt
    by_cases hbn : b < n
    · simp only [hbn, ↓reduceIte]
      -- k agrees with every key of t below b
      have hk_agree : ∀ x, x ∈ keys l ++ keys r → ∀ i, i < b → bit x i = bit k i := by
        intro x hx i hi
        have h1 := hagb x (by simpa [keys] using hx) _ hmem i hi
        rw [h1]; exact hpath i (by omega)
      by_cases hkb : bit k b = true
      · simp only [hkb, ↓reduceIte]
        have hpath' : ∀ i, i < n → bit (rawLookup r k) i = bit k i := by
          intro i hi; have := hpath i hi; simpa [rawLookup, hkb] using this
        have hdiff' : bit (rawLookup r k) n ≠ bit k n := by
          simpa [rawLookup, hkb] using hdiff
        refine WF.node b _ _ hwl (ihr hwr hpath' hdiff') hl ?_ ?_
        · intro x hx
          rcases (mem_keys_insertAt r n k x).mp hx with rfl | hx
          · exact hkb
          · exact hr x hx
        · intro x hx z hz i hi
          have conv : ∀ w, w ∈ keys l ++ keys (insertAt r n k) → bit w i = bit k i := by
            intro w hw
            rcases List.mem_append.mp hw with hw | hw
            · exact hk_agree w (List.mem_append_left _ hw) i hi
            · rcases (mem_keys_insertAt r n k w).mp hw with rfl | hw
              · rfl
              · exact hk_agree w (List.mem_append_right _ hw) i hi
          rw [conv x hx, conv z hz]
      · have hkb' : bit k b = false := by simpa using hkb
        simp only [hkb', Bool.false_eq_true, ↓reduceIte]
        have hpath' : ∀ i, i < n → bit (rawLookup l k) i = bit k i := by
          intro i hi; have := hpath i hi; simpa [rawLookup, hkb'] using this
        have hdiff' : bit (rawLookup l k) n ≠ bit k n := by
          simpa [rawLookup, hkb'] using hdiff
        refine WF.node b _ _ (ihl hwl hpath' hdiff') hwr ?_ hr ?_
        · intro x hx
          rcases (mem_keys_insertAt l n k x).mp hx with rfl | hx
          · exact hkb'
          · exact hl x hx
        · intro x hx z hz i hi
          have conv : ∀ w, w ∈ keys (insertAt l n k) ++ keys r → bit w i = bit k i := by
            intro w hw
            rcases List.mem_append.mp hw with hw | hw
            · rcases (mem_keys_insertAt l n k w).mp hw with rfl | hw
              · rfl
              · exact hk_agree w (List.mem_append_left _ hw) i hi
            · exact hk_agree w (List.mem_append_right _ hw) i hi
          rw [conv x hx, conv z hz]
    · simp only [hbn, ↓reduceIte]
      -- n ≠ b because the found leaf agrees with k at b, hence n < b
      have hnb : n < b := by
        rcases Nat.lt_or_ge n b with h | h
        · exact h
        · have : n = b := by omega
          subst this; exact absurd hbit hdiff
      have hy : ∀ x, x ∈ keys (T.node b l r) → bit x n = bit (rawLookup (.node b l r) k) n :=
        fun x hx => hagb x hx _ hmem n hnb
      have hk_agree : ∀ x, x ∈ keys (T.node b l r) → ∀ i, i < n → bit x i = bit k i := by
        intro x hx i hi
        rw [hagb x hx _ hmem i (by omega)]; exact hpath i hi
      have hwf : WF (T.node b l r) := WF.node b l r hwl hwr hl hr hag
      by_cases hkn : bit k n = true
      · simp only [hkn, ↓reduceIte]
        refine WF.node n _ _ hwf (WF.leaf k) ?_ ?_ ?_
        · intro x hx; rw [hy x hx]
          cases hb : bit (rawLookup (T.node b l r) k) n <;> simp_all
        · intro x hx; simp [keys] at hx; subst hx; exact hkn
        · intro x hx z hz i hi
          have conv : ∀ w, w ∈ keys (T.node b l r) ++ keys (T.leaf k) → bit w i = bit k i := by
            intro w hw
            rcases List.mem_append.mp hw with hw | hw
            · exact hk_agree w hw i hi
            · simp [keys] at hw; subst hw; rfl
          rw [conv x hx, conv z hz]
      · have hkn' : bit k n = false := by simpa using hkn
        simp only [hkn', Bool.false_eq_true, ↓reduceIte]
        refine WF.node n _ _ (WF.leaf k) hwf ?_ ?_ ?_
        · intro x hx; simp [keys] at hx; subst hx; exact hkn'
        · intro x hx; rw [hy x hx]
          cases hb : bit (rawLookup (T.node b l r) k) n <;> simp_all
        · intro x hx z hz i hi
          have conv : ∀ w, w ∈ keys (T.leaf k) ++ keys (T.node b l r) → bit w i = bit k i := by
            intro w hw
            rcases List.mem_append.mp hw with hw | hw
            · simp [keys] at hw; subst hw; rfl
            · exact hk_agree w hw i hi
          rw [conv x hx, conv z hz]

/-- if some stored key has exactly the bits of `k`, raw_lookup finds a leaf with those bits -/
theorem rawLookup_same_bits (t : T K) (k y : K) (h : WF t) (hy : y ∈ keys t)
    (hb : ∀ i, bit k i = bit y i) : ∀ i, bit (rawLookup t k) i = bit y i := by
  induction h with
  | leaf x => simp [keys] at hy; subst hy; simp [rawLookup]
  | node b l r _ _ hl hr _ ihl ihr =>
    simp only [keys, List.mem_append] at hy
    unfold rawLookup
    rcases hy with hy | hy
    · have : bit k b = false := by rw [hb b]; exact hl y hy
      simp only [this, Bool.false_eq_true, ↓reduceIte]; exact ihl hy
    · have : bit k b = true := by rw [hb b]; exact hr y hy
      simp only [this, ↓reduceIte]; exact ihr hy

/-- insert: refuses exactly the keys whose bit string is already present; otherwise keeps WF
    and adds exactly the new key -/
theorem insert_spec (t : T K) (k : K) (h : WF t) :
    (insert t k = none ↔ ∃ y, y ∈ keys t ∧ ∀ i, bit k i = bit y i) ∧
    (∀ t', insert t k = some t' → WF t' ∧ ∀ x, x ∈ keys t' ↔ x = k ∨ x ∈ keys t) := by
  unfold insert
  constructor
  · constructor
    · intro hn
      split at hn
      · next hc => exact ⟨_, rawLookup_mem t k, (BitKey.crit_none _ _).mp hc⟩
      · cases hn
    · rintro ⟨y, hy, hb⟩
      have hs := rawLookup_same_bits t k y h hy hb
      have : crit k (rawLookup t k) = none :=
        (BitKey.crit_none _ _).mpr (fun i => by rw [hs i, hb i])
      simp [this]
  · intro t' ht'
    split at ht'
    · cases ht'
    · next n hc =>
      cases ht'
      obtain ⟨h1, h2⟩ := BitKey.crit_some _ _ n hc
      refine ⟨wf_insertAt t n k h (fun i hi => (h1 i hi).symm) (fun e => h2 e.symm), mem_keys_insertAt t n k⟩

end Usual.C06.G

/-! crit-bit tree: lookup and delete (usual/cbtree.c) over the abstract BitKey interface -/
namespace Usual.C06.G
open BitKey
variable {K : Type} [BitKey K]

/-- same zero-padded bit string -/
def SameBits (a b : K) : Prop := ∀ i, bit a i = bit b i

/-- cbtree_delete on a non-empty tree: `none` = key not present (nothing changes),
    `some none` = the last leaf was removed, `some (some t')` = remaining tree.
    `eq` is key_matches (exact comparison of the stored key with the argument). -/
def delete (eq : K → K → Bool) : T K → K → Option (Option (T K))
  | .leaf x, k => if eq x k then some none else none
  | .node b l r, k =>
    if bit k b then
      match delete eq r k with
      | none => none
      | some none => some (some l)                 -- sibling takes the node's place
      | some (some r') => some (some (.node b l r'))
    else
      match delete eq l k with
      | none => none
      | some none => some (some r)
      | some (some l') => some (some (.node b l' r))

/-- keys of the result are keys of the tree (so every WF constraint survives) -/
theorem delete_keys_sub (eq : K → K → Bool) (t : T K) (k : K) :
    ∀ t', delete eq t k = some (some t') → ∀ x, x ∈ keys t' → x ∈ keys t := by
  induction t with
  | leaf y => intro t' h; unfold delete at h; split at h <;> simp at h
  | node b l r ihl ihr =>
    intro t' h x hx
    unfold delete at h
    split at h
    · split at h
      · cases h
      · simp only [Option.some.injEq] at h; subst h; simp [keys, hx]
      · next r' hr =>
        simp only [Option.some.injEq] at h; subst h
        simp only [keys, List.mem_append] at hx ⊢
        rcases hx with hx | hx
        · exact Or.inl hx
        · exact Or.inr (ihr r' hr x hx)
    · split at h
      · cases h
      · simp only [Option.some.injEq] at h; subst h; simp [keys, hx]
      · next l' hl' =>
        simp only [Option.some.injEq] at h; subst h
        simp only [keys, List.mem_append] at hx ⊢
        rcases hx with hx | hx
        · exact Or.inl (ihl l' hl' x hx)
        · exact Or.inr hx

theorem wf_delete (eq : K → K → Bool) (t : T K) (k : K) (h : WF t) :
    ∀ t', delete eq t k = some (some t') → WF t' := by
  induction h with
  | leaf y => intro t' h; unfold delete at h; split at h <;> simp at h
  | node b l r hwl hwr hl hr hag ihl ihr =>
    intro t' h
    unfold delete at h
    split at h
    · split at h
      · cases h
      · simp only [Option.some.injEq] at h; subst h; exact hwl
      · next r' hr' =>
        simp only [Option.some.injEq] at h; subst h
        have hsub := delete_keys_sub eq r k r' hr'
        refine WF.node b l r' hwl (ihr r' hr') hl (fun x hx => hr x (hsub x hx)) ?_
        intro x hx z hz i hi
        have cx : x ∈ keys l ++ keys r := by
          rcases List.mem_append.mp hx with h | h
          · exact List.mem_append_left _ h
          · exact List.mem_append_right _ (hsub x h)
        have cz : z ∈ keys l ++ keys r := by
          rcases List.mem_append.mp hz with h | h
          · exact List.mem_append_left _ h
          · exact List.mem_append_right _ (hsub z h)
        exact hag x cx z cz i hi
    · split at h
      · cases h
      · simp only [Option.some.injEq] at h; subst h; exact hwr
      · next l' hl' =>
        simp only [Option.some.injEq] at h; subst h
        have hsub := delete_keys_sub eq l k l' hl'
        refine WF.node b l' r (ihl l' hl') hwr (fun x hx => hl x (hsub x hx)) hr ?_
        intro x hx z hz i hi
        have cx : x ∈ keys l ++ keys r := by
          rcases List.mem_append.mp hx with h | h
          · exact List.mem_append_left _ (hsub x h)
          · exact List.mem_append_right _ h
        have cz : z ∈ keys l ++ keys r := by
          rcases List.mem_append.mp hz with h | h
          · exact List.mem_append_left _ (hsub z h)
          · exact List.mem_append_right _ h
        exact hag x cx z cz i hi

/-- delete refuses iff key_matches rejects the leaf raw_lookup finds -/
theorem delete_none_iff (eq : K → K → Bool) (t : T K) (k : K) :
    delete eq t k = none ↔ eq (rawLookup t k) k = false := by
  induction t with
  | leaf y => unfold delete rawLookup; split <;> simp_all
  | node b l r ihl ihr =>
    unfold delete rawLookup
    split
    · split <;> simp_all
    · split <;> simp_all

/-- a successful delete removes exactly that one leaf from the in-order walk; the rest keeps its order -/
theorem delete_walk (eq : K → K → Bool) (t : T K) (k : K) :
    (delete eq t k = some none → walk t = [rawLookup t k]) ∧
    (∀ t', delete eq t k = some (some t') →
        ∃ pre post, walk t = pre ++ rawLookup t k :: post ∧ walk t' = pre ++ post) := by
  induction t with
  | leaf y =>
    constructor
    · intro _; simp [walk, keys, rawLookup]
    · intro t' h; unfold delete at h; split at h <;> simp at h
  | node b l r ihl ihr =>
    constructor
    · intro h; unfold delete at h
      split at h <;> split at h <;> simp at h
    · intro t' h
      unfold delete at h
      unfold rawLookup
      split at h
      · next hb =>
        simp only [hb, ↓reduceIte]
        split at h
        · cases h
        · next hr =>
          simp only [Option.some.injEq] at h; subst h
          refine ⟨walk l, [], ?_, by simp⟩
          simp only [walk, keys] at *
          rw [ihr.1 hr]
        · next r' hr =>
          simp only [Option.some.injEq] at h; subst h
          obtain ⟨pre, post, e1, e2⟩ := ihr.2 r' hr
          refine ⟨keys l ++ pre, post, ?_, ?_⟩
          · simp only [walk, keys] at *; rw [e1]; simp [List.append_assoc]
          · simp only [walk, keys] at *; rw [e2]; simp [List.append_assoc]
      · next hb =>
        simp only [hb, Bool.false_eq_true, ↓reduceIte]
        split at h
        · cases h
        · next hl =>
          simp only [Option.some.injEq] at h; subst h
          refine ⟨[], walk r, ?_, by simp⟩
          simp only [walk, keys] at *
          rw [ihl.1 hl]; simp
        · next l' hl =>
          simp only [Option.some.injEq] at h; subst h
          obtain ⟨pre, post, e1, e2⟩ := ihl.2 l' hl
          refine ⟨pre, post ++ keys r, ?_, ?_⟩
          · simp only [walk, keys] at *; rw [e1]; simp [List.append_assoc]
          · simp only [walk, keys] at *; rw [e2]; simp [List.append_assoc]

end Usual.C06.G
