import UsualProofs.C06.Order
/-! Crit-bit tree operations against their specification (concrete model level). -/
namespace Usual.C06
open G

theorem entries_pairwise (t : T) (h : WF t) :
    t.entries.Pairwise (fun a b => BitLt a.key b.key) := by
  have := G.walk_sorted (toG t) h
  simp only [G.walk, keys_toG] at this
  exact this

theorem bitLt_irrefl_of_padEq (a b : Key) (h : ∀ i, getBit a i = getBit b i) : ¬ BitLt a b := by
  rintro ⟨n, _, ha, hb⟩
  rw [h n, hb] at ha
  cases ha

theorem pairwise_mem {α : Type} (R : α → α → Prop) (l : List α) (hp : l.Pairwise R) (a b : α)
    (ha : a ∈ l) (hb : b ∈ l) (hab : a ≠ b) : R a b ∨ R b a := by
  induction hp with
  | nil => cases ha
  | cons hx _ ih =>
    simp only [List.mem_cons] at ha hb
    rcases ha with rfl | ha <;> rcases hb with rfl | hb
    · exact absurd rfl hab
    · exact Or.inl (hx _ hb)
    · exact Or.inr (hx _ ha)
    · exact ih ha hb

/-- two stored entries with the same zero-padded key are the same entry -/
theorem entry_unique (t : T) (h : WF t) (a b : Entry) (ha : a ∈ t.entries) (hb : b ∈ t.entries)
    (hbits : ∀ i, getBit a.key i = getBit b.key i) : a = b := by
  have hp := entries_pairwise t h
  by_cases hab : a = b
  · exact hab
  · have := pairwise_mem _ _ hp a b ha hb hab
    rcases this with h1 | h1
    · exact absurd h1 (bitLt_irrefl_of_padEq _ _ hbits)
    · exact absurd h1 (bitLt_irrefl_of_padEq _ _ (fun i => (hbits i).symm))

theorem rawLookup_mem (t : T) (k : Key) : t.rawLookup k ∈ t.entries := by
  have := G.rawLookup_mem (toG t) (⟨k, 0⟩ : Entry)
  rwa [rawLookup_toG, keys_toG] at this

/-- `cbtree_lookup` finds exactly the stored entry with that key -/
theorem lookup_some_iff (t : T) (h : WF t) (k : Key) (e : Entry) :
    lookup (some t) k = some e ↔ e ∈ t.entries ∧ e.key = k := by
  simp only [lookup, keyMatches]
  constructor
  · intro hl
    by_cases hm : ((t.rawLookup k).key == k) = true
    · simp only [hm, ↓reduceIte, Option.some.injEq] at hl
      subst hl
      exact ⟨rawLookup_mem t k, by simpa using hm⟩
    · simp [hm] at hl
  · rintro ⟨hmem, hk⟩
    have hb : ∀ i, getBit (t.rawLookup k).key i = getBit e.key i := by
      have := G.rawLookup_same_bits (toG t) (⟨k, 0⟩ : Entry) e h (by simpa using hmem)
        (by intro i; simp only [BitKey.bit]; rw [hk])
      intro i
      have := this i
      rw [rawLookup_toG] at this
      exact this
    have : t.rawLookup k = e := entry_unique t h _ _ (rawLookup_mem t k) hmem hb
    rw [this]
    simp [hk]

theorem lookup_none_iff (t : T) (h : WF t) (k : Key) :
    lookup (some t) k = none ↔ ∀ e, e ∈ t.entries → e.key ≠ k := by
  constructor
  · intro hn e he hk
    have := (lookup_some_iff t h k e).mpr ⟨he, hk⟩
    rw [hn] at this; cases this
  · intro hall
    cases hl : lookup (some t) k with
    | none => rfl
    | some e =>
      obtain ⟨he, hk⟩ := (lookup_some_iff t h k e).mp hl
      exact absurd hk (hall e he)

/-- `cbtree_insert` into a non-empty tree -/
theorem insert_some_spec (t : T) (h : WF t) (e : Entry) :
    (insert (some t) e = none ↔ ∃ y, y ∈ t.entries ∧ ∀ i, getBit e.key i = getBit y.key i) ∧
    (∀ r, insert (some t) e = some r → ∃ t', r = some t' ∧ WF t' ∧
        ∀ x, x ∈ t'.entries ↔ x = e ∨ x ∈ t.entries) := by
  have hg := G.insert_spec (toG t) e h
  simp only [keys_toG] at hg
  have hcrit : BitKey.crit e (G.rawLookup (toG t) e) = findCrit e.key (t.rawLookup e.key).key := by
    simp only [BitKey.crit]
    rw [show e = (⟨e.key, e.obj⟩ : Entry) from rfl, rawLookup_toG]
  cases hc : findCrit e.key (t.rawLookup e.key).key with
  | none =>
    have hins : insert (some t) e = none := by simp [insert, hc]
    have hgi : G.insert (toG t) e = none := by simp [G.insert, hcrit, hc]
    refine ⟨⟨fun _ => ?_, fun _ => hins⟩, fun r hr => by rw [hins] at hr; cases hr⟩
    exact hg.1.mp hgi
  | some n =>
    have hins : insert (some t) e = some (some (t.insertAt n e)) := by simp [insert, hc]
    have hgi : G.insert (toG t) e = some (toG (t.insertAt n e)) := by
      simp [G.insert, hcrit, hc, insertAt_toG]
    obtain ⟨hwf, hmem⟩ := hg.2 _ hgi
    refine ⟨⟨fun hn => (by rw [hins] at hn; cases hn), fun hex => ?_⟩, fun r hr => ?_⟩
    · have := hg.1.mpr hex
      rw [hgi] at this; cases this
    · rw [hins] at hr
      cases hr
      refine ⟨_, rfl, hwf, ?_⟩
      intro x
      have := hmem x
      simpa using this

/-- `cbtree_delete` below the root -/
theorem delete_spec (t : T) (h : WF t) (k : Key) :
    (t.delete k = none ↔ ∀ e, e ∈ t.entries → e.key ≠ k) ∧
    (∀ e r, t.delete k = some (e, r) →
        e ∈ t.entries ∧ e.key = k ∧
        (∀ t', r = some t' → WF t') ∧
        ∃ pre post, t.entries = pre ++ e :: post ∧
          (match r with | none => [] | some t' => t'.entries) = pre ++ post) := by
  have htg := delete_toG t k
  constructor
  · rw [← lookup_none_iff t h k]
    have := G.delete_none_iff eqK (toG t) (⟨k, 0⟩ : Entry)
    rw [← htg, rawLookup_toG] at this
    have hek : eqK (t.rawLookup k) (⟨k, 0⟩ : Entry) = keyMatches (t.rawLookup k) k := rfl
    rw [hek] at this
    simp only [lookup]
    constructor
    · intro hd
      have := this.mp (by simp [hd])
      simp [this]
    · intro hl
      cases hd : t.delete k with
      | none => rfl
      | some p =>
        have hne : ¬ (Option.map (fun p => Option.map toG p.2) (t.delete k) = none) := by simp [hd]
        have hkm := mt this.mpr hne
        simp only [Bool.not_eq_false] at hkm
        simp [hkm] at hl
  · intro e r hd
    have he := delete_entry t k e r hd
    have hgd : G.delete eqK (toG t) (⟨k, 0⟩ : Entry) = some (r.map toG) := by rw [← htg, hd]; rfl
    have hnn : ¬ (G.delete eqK (toG t) (⟨k, 0⟩ : Entry) = none) := by rw [hgd]; simp
    have hm := mt (G.delete_none_iff eqK (toG t) (⟨k, 0⟩ : Entry)).mpr hnn
    rw [rawLookup_toG] at hm
    simp only [Bool.not_eq_false, eqK, keyMatches, beq_iff_eq] at hm
    have hw := G.delete_walk eqK (toG t) (⟨k, 0⟩ : Entry)
    rw [rawLookup_toG] at hw
    subst he
    refine ⟨rawLookup_mem t k, hm, ?_, ?_⟩
    · intro t' hr
      subst hr
      exact G.wf_delete eqK (toG t) _ h (toG t') hgd
    · cases r with
      | none =>
        have := hw.1 hgd
        simp only [G.walk, keys_toG] at this
        exact ⟨[], [], by simpa using this, rfl⟩
      | some t' =>
        obtain ⟨pre, post, e1, e2⟩ := hw.2 (toG t') hgd
        simp only [G.walk, keys_toG] at e1 e2
        exact ⟨pre, post, e1, e2⟩

end Usual.C06
