import UsualProofs.C06.Generic
import UsualProofs.C06.Bits
/-! Instantiate the generic crit-bit lemmas for the model of `usual/cbtree.c`. -/
namespace Usual.C06
open G

theorem isBytes_toNats (k : Key) : IsBytes (toNats k) := by
  intro x hx
  simp only [toNats, List.mem_map] at hx
  obtain ⟨b, _, rfl⟩ := hx
  exact UInt8.toNat_lt b

theorem findCrit_none_iff (a b : Key) : findCrit a b = none ↔ ∀ i, getBit a i = getBit b i := by
  have h := findCritN_spec (toNats a) (toNats b) 0 (isBytes_toNats a) (isBytes_toNats b)
  constructor
  · exact h.1
  · intro hall
    cases hc : findCrit a b with
    | none => rfl
    | some n =>
      obtain ⟨m, _, _, hm⟩ := h.2 n hc
      exact absurd (hall m) hm

theorem findCrit_some (a b : Key) (n : Nat) (h : findCrit a b = some n) :
    (∀ i, i < n → getBit a i = getBit b i) ∧ getBit a n ≠ getBit b n := by
  obtain ⟨m, hm, h1, h2⟩ :=
    (findCritN_spec (toNats a) (toNats b) 0 (isBytes_toNats a) (isBytes_toNats b)).2 n h
  have : n = m := by omega
  subst this
  exact ⟨h1, h2⟩

instance : BitKey Entry where
  bit e i := getBit e.key i
  crit a b := findCrit a.key b.key
  crit_none a b := findCrit_none_iff a.key b.key
  crit_some a b n h := findCrit_some a.key b.key n h

/-- the model tree seen as a generic tree -/
def toG : T → G.T Entry
  | .leaf e => .leaf e
  | .node b l r => .node b (toG l) (toG r)

@[simp] theorem keys_toG (t : T) : G.keys (toG t) = t.entries := by
  induction t with
  | leaf e => rfl
  | node b l r ihl ihr => simp [toG, G.keys, T.entries, ihl, ihr]

theorem rawLookup_toG (t : T) (k : Key) (o : Nat) :
    G.rawLookup (toG t) (⟨k, o⟩ : Entry) = t.rawLookup k := by
  induction t with
  | leaf e => rfl
  | node b l r ihl ihr =>
    simp only [toG, G.rawLookup, T.rawLookup, BitKey.bit]
    split <;> simp [ihl, ihr]

theorem insertAt_toG (t : T) (n : Nat) (e : Entry) :
    toG (t.insertAt n e) = G.insertAt (toG t) n e := by
  induction t with
  | leaf x =>
    simp only [T.insertAt, toG, G.insertAt, BitKey.bit]
    split <;> simp [toG]
  | node b l r ihl ihr =>
    simp only [T.insertAt, toG, G.insertAt, BitKey.bit]
    split
    · split <;> simp [toG, ihl, ihr]
    · split <;> simp [toG]

theorem insert_toG (t : T) (e : Entry) :
    insert (some t) e = (G.insert (toG t) e).elim none
      (fun _ => match findCrit e.key (t.rawLookup e.key).key with
                | none => none
                | some n => some (some (t.insertAt n e))) := by
  simp only [insert, G.insert, BitKey.crit]
  rw [rawLookup_toG t e.key e.obj]
  cases findCrit e.key (t.rawLookup e.key).key <;> simp

/-- well-formedness of the model tree -/
def WF (t : T) : Prop := G.WF (toG t)

/-- the exact-key test used by `cbtree_delete`/`cbtree_lookup` as a generic `eq` -/
def eqK (x k : Entry) : Bool := keyMatches x k.key

theorem delete_toG (t : T) (k : Key) :
    (t.delete k).map (fun p => p.2.map toG) = G.delete eqK (toG t) (⟨k, 0⟩ : Entry) := by
  induction t with
  | leaf x =>
    simp only [T.delete, toG, G.delete, eqK]
    split <;> simp_all
  | node b l r ihl ihr =>
    simp only [T.delete, toG, G.delete, BitKey.bit]
    split
    · rw [← ihr]
      cases hr : r.delete k with
      | none => simp
      | some p =>
        obtain ⟨e, o⟩ := p
        cases o <;> simp [toG]
    · rw [← ihl]
      cases hl : l.delete k with
      | none => simp
      | some p =>
        obtain ⟨e, o⟩ := p
        cases o <;> simp [toG]

/-- the entry handed to the free callback is the leaf `raw_lookup` finds -/
theorem delete_entry (t : T) (k : Key) (e : Entry) (o : Option T)
    (h : t.delete k = some (e, o)) : e = t.rawLookup k := by
  induction t generalizing e o with
  | leaf x =>
    simp only [T.delete] at h
    split at h <;> simp_all [T.rawLookup]
  | node b l r ihl ihr =>
    simp only [T.delete] at h
    simp only [T.rawLookup]
    split at h
    · next hb =>
      simp only [hb, ↓reduceIte]
      cases hr : r.delete k with
      | none => simp [hr] at h
      | some p =>
        obtain ⟨e', o'⟩ := p
        have := ihr e' o' hr
        cases o' <;> simp_all
    · next hb =>
      simp only [hb, Bool.false_eq_true, ↓reduceIte]
      cases hl : l.delete k with
      | none => simp [hl] at h
      | some p =>
        obtain ⟨e', o'⟩ := p
        have := ihl e' o' hl
        cases o' <;> simp_all

end Usual.C06
