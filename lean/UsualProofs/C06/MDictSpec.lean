import UsualProofs.C06.Refine
import UsualProofs.C06.Url
/-! `usual/mdict.c` on top of the crit-bit tree: refinement to `Key → Option Val`. -/
namespace Usual.C06

/-! ### value table lemmas -/

theorem valOf_setVal_same (vals : List (Nat × Val)) (id : Nat) (v : Val)
    (h : ∃ p, p ∈ vals ∧ p.1 = id) : valOf (setVal vals id v) id = v := by
  induction vals with
  | nil => obtain ⟨p, hp, _⟩ := h; cases hp
  | cons q rest ih =>
    simp only [setVal, List.map_cons, valOf]
    by_cases hq : q.1 = id
    · simp [hq]
    · have hq' : (q.1 == id) = false := by simpa using hq
      simp only [hq', Bool.false_eq_true, ↓reduceIte, List.find?_cons]
      obtain ⟨p, hp, hpi⟩ := h
      have : ∃ p, p ∈ rest ∧ p.1 = id := by
        rcases List.mem_cons.mp hp with rfl | hp
        · exact absurd hpi hq
        · exact ⟨p, hp, hpi⟩
      have := ih this
      simpa [setVal, valOf] using this

theorem valOf_setVal_other (vals : List (Nat × Val)) (id id' : Nat) (v : Val) (h : id' ≠ id) :
    valOf (setVal vals id v) id' = valOf vals id' := by
  induction vals with
  | nil => rfl
  | cons q rest ih =>
    simp only [setVal, List.map_cons, valOf, List.find?_cons]
    by_cases hq : q.1 = id
    · have h1 : (q.1 == id) = true := by simpa using hq
      have h2 : (id == id') = false := by simpa using fun e => h e.symm
      have h3 : (q.1 == id') = false := by rw [hq]; exact h2
      simp only [h1, ↓reduceIte, h2, h3]
      simpa [setVal, valOf] using ih
    · have h1 : (q.1 == id) = false := by simpa using hq
      simp only [h1, Bool.false_eq_true, ↓reduceIte]
      by_cases hq2 : (q.1 == id') = true
      · simp [hq2]
      · simp only [hq2]
        simpa [setVal, valOf] using ih

theorem valOf_append_new (vals : List (Nat × Val)) (id : Nat) (v : Val)
    (h : ∀ p, p ∈ vals → p.1 ≠ id) : valOf (vals ++ [(id, v)]) id = v := by
  induction vals with
  | nil => simp [valOf]
  | cons q rest ih =>
    have hq : (q.1 == id) = false := by simpa using h q (by simp)
    simp only [valOf, List.cons_append, List.find?_cons, hq]
    simpa [valOf] using ih (fun p hp => h p (by simp [hp]))

theorem valOf_append_other (vals : List (Nat × Val)) (id id' : Nat) (v : Val) (h : id' ≠ id) :
    valOf (vals ++ [(id, v)]) id' = valOf vals id' := by
  induction vals with
  | nil =>
    have : (id == id') = false := by simpa using fun e => h e.symm
    simp [valOf, this]
  | cons q rest ih =>
    simp only [valOf, List.cons_append, List.find?_cons]
    by_cases hq : (q.1 == id') = true
    · simp [hq]
    · simp only [hq]
      simpa [valOf] using ih

theorem valOf_filter_other (vals : List (Nat × Val)) (id id' : Nat) (h : id' ≠ id) :
    valOf (vals.filter (·.1 != id)) id' = valOf vals id' := by
  induction vals with
  | nil => rfl
  | cons q rest ih =>
    simp only [List.filter_cons]
    by_cases hq : q.1 = id
    · have h1 : (q.1 != id) = false := by simp [hq]
      have h2 : (q.1 == id') = false := by rw [hq]; simpa using fun e => h e.symm
      simp only [h1, Bool.false_eq_true, ↓reduceIte, valOf, List.find?_cons, h2]
      simpa [valOf] using ih
    · have h1 : (q.1 != id) = true := by simpa using hq
      simp only [h1, ↓reduceIte, valOf, List.find?_cons]
      by_cases hq2 : (q.1 == id') = true
      · simp [hq2]
      · simp only [hq2]
        simpa [valOf] using ih

/-! ### invariant and refinement -/

structure MInv (d : MDict) : Prop where
  inv : Inv d.tree
  ntz : NTZ d.tree
  fresh : ∀ e, e ∈ walk d.tree → e.obj < d.nextId
  vfresh : ∀ p, p ∈ d.vals → p.1 < d.nextId
  present : ∀ e, e ∈ walk d.tree → ∃ p, p ∈ d.vals ∧ p.1 = e.obj
  ids : ∀ a b, a ∈ walk d.tree → b ∈ walk d.tree → a.obj = b.obj → a = b

theorem minv_empty : MInv {} := by
  refine ⟨trivial, ?_, ?_, ?_, ?_, ?_⟩
  · intro e he; simp [walk] at he
  · intro e he; simp [walk] at he
  · intro p hp; simp at hp
  · intro e he; simp [walk] at he
  · intro a b ha; simp [walk] at ha

theorem put_found (d : MDict) (k : Key) (v : Val) (e : Entry) (hl : lookup d.tree k = some e) :
    d.put k v = ({ d with vals := setVal d.vals e.obj v }, true) := by
  simp [MDict.put, hl]

theorem put_new (d : MDict) (k : Key) (v : Val) (r : Option T) (hl : lookup d.tree k = none)
    (hi : insert d.tree ⟨k, d.nextId⟩ = some r) :
    d.put k v = ({ tree := r, vals := d.vals ++ [(d.nextId, v)], nextId := d.nextId + 1 }, true) := by
  simp [MDict.put, hl, hi]

theorem get_eq (d : MDict) (k : Key) : d.get k = (absMap d.tree k).map (valOf d.vals) := by
  simp [MDict.get, absMap, Option.map_map, Function.comp_def]

theorem lookup_mem (root : Option T) (h : Inv root) (k : Key) (e : Entry)
    (hl : lookup root k = some e) : e ∈ walk root ∧ e.key = k := by
  cases root with
  | none => simp [lookup] at hl
  | some t => exact (lookup_some_iff t h k e).mp hl

/-- `mdict_put_str` / one pair of `mdict_urldecode`: always succeeds on keys without trailing
    zero byte and afterwards `get` returns the new value for that key, the old ones elsewhere -/
theorem put_spec (d : MDict) (h : MInv d) (k : Key) (hk : NoTrailingZero k) (v : Val) :
    (d.put k v).2 = true ∧ MInv (d.put k v).1 ∧
    ∀ k', (d.put k v).1.get k' = if k' = k then some v else d.get k' := by
  cases hl : lookup d.tree k with
  | some e =>
    obtain ⟨hem, hek⟩ := lookup_mem d.tree h.inv k e hl
    rw [put_found d k v e hl]
    refine ⟨rfl, ⟨h.inv, h.ntz, h.fresh, ?_, ?_, h.ids⟩, ?_⟩
    · intro p hp
      simp only [setVal, List.mem_map] at hp
      obtain ⟨q, hq, rfl⟩ := hp
      split
      · exact h.fresh e hem
      · exact h.vfresh q hq
    · intro x hx
      obtain ⟨p, hp, hpx⟩ := h.present x hx
      by_cases hxe : p.1 = e.obj
      · exact ⟨(e.obj, v), by simp only [setVal, List.mem_map]; exact ⟨p, hp, by simp [hxe]⟩, by rw [← hpx, hxe]⟩
      · refine ⟨p, ?_, hpx⟩
        simp only [setVal, List.mem_map]
        exact ⟨p, hp, by simp [hxe]⟩
    · intro k'
      simp only [MDict.get]
      by_cases hkk : k' = k
      · subst hkk
        simp only [hl, Option.map_some, ↓reduceIte]
        rw [valOf_setVal_same _ _ _ (h.present e hem)]
      · simp only [hkk, ↓reduceIte]
        cases hl' : lookup d.tree k' with
        | none => rfl
        | some e' =>
          obtain ⟨hem', hek'⟩ := lookup_mem d.tree h.inv k' e' hl'
          have hne : e'.obj ≠ e.obj := by
            intro ho
            have := h.ids e' e hem' hem ho
            rw [this, hek] at hek'
            exact hkk hek'.symm
          simp only [Option.map_some]
          rw [valOf_setVal_other _ _ _ _ hne]
  | none =>
    have hnone : absMap d.tree k = none := by simp [absMap, hl]
    obtain ⟨h1, h2⟩ := insert_refines d.tree h.inv h.ntz ⟨k, d.nextId⟩ hk
    cases hi : insert d.tree ⟨k, d.nextId⟩ with
    | none =>
      have := h1.mp hi
      simp [hnone] at this
    | some r =>
      obtain ⟨hinv, hntz, hmap⟩ := h2 r hi
      rw [put_new d k v r hl hi]
      have hwalk : ∀ x, x ∈ walk r ↔ x = ⟨k, d.nextId⟩ ∨ x ∈ walk d.tree := by
        intro x
        rw [(walk_spec r hinv).2 x, (walk_spec d.tree h.inv).2 x, hmap x.key]
        by_cases hxk : x.key = k
        · simp only [hxk, ↓reduceIte, Option.some.injEq, hnone]
          constructor
          · intro ho; left; cases x; simp_all
          · rintro (hx | hx)
            · rw [hx]
            · cases hx
        · simp only [hxk, ↓reduceIte]
          constructor
          · intro hx; exact Or.inr hx
          · rintro (hx | hx)
            · rw [hx] at hxk; exact absurd rfl hxk
            · exact hx
      refine ⟨rfl, ⟨hinv, hntz, ?_, ?_, ?_, ?_⟩, ?_⟩
      · intro x hx
        rcases (hwalk x).mp hx with rfl | hx
        · simp
        · have := h.fresh x hx; simp; omega
      · intro p hp
        rcases List.mem_append.mp hp with hp | hp
        · have := h.vfresh p hp; simp; omega
        · simp at hp; subst hp; simp
      · intro x hx
        rcases (hwalk x).mp hx with rfl | hx
        · exact ⟨(d.nextId, v), by simp, rfl⟩
        · obtain ⟨p, hp, hpx⟩ := h.present x hx
          exact ⟨p, by simp [hp], hpx⟩
      · intro a b ha hb hab
        rcases (hwalk a).mp ha with rfl | ha <;> rcases (hwalk b).mp hb with rfl | hb
        · rfl
        · have := h.fresh b hb; simp at hab; omega
        · have := h.fresh a ha; simp at hab; omega
        · exact h.ids a b ha hb hab
      · intro k'
        rw [get_eq, get_eq]
        simp only [hmap k']
        by_cases hkk : k' = k
        · simp only [hkk, ↓reduceIte, Option.map_some]
          rw [valOf_append_new _ _ _ (fun p hp => by have := h.vfresh p hp; omega)]
        · simp only [hkk, ↓reduceIte]
          cases ha : absMap d.tree k' with
          | none => rfl
          | some o =>
            have hm := (absMap_some_iff d.tree h.inv k' o).mp ha
            have := h.fresh _ hm
            simp only [Option.map_some]
            rw [valOf_append_other _ _ _ _ (by simp at this; omega)]

/-- `mdict_del_key` -/
theorem del_spec (d : MDict) (h : MInv d) (k : Key) :
    (d.del k).2 = (d.get k).isSome ∧ MInv (d.del k).1 ∧
    ∀ k', (d.del k).1.get k' = if k' = k then none else d.get k' := by
  obtain ⟨h1, h2⟩ := delete_refines d.tree h.inv k
  unfold MDict.del
  cases hd : delete d.tree k with
  | none =>
    have hn := h1.mp hd
    simp only
    refine ⟨by rw [get_eq, hn]; rfl, h, ?_⟩
    intro k'
    by_cases hkk : k' = k
    · subst hkk; simp [get_eq, hn]
    · simp [hkk]
  | some p =>
    obtain ⟨e, r⟩ := p
    obtain ⟨hek, hab, hinv, hntz, hmap, pre, post, e1, e2⟩ := h2 e r hd
    have hsub : ∀ x, x ∈ walk r → x ∈ walk d.tree := by
      intro x hx; rw [e2] at hx; rw [e1]
      simp only [List.mem_append, List.mem_cons] at hx ⊢
      rcases hx with hx | hx
      · exact Or.inl hx
      · exact Or.inr (Or.inr hx)
    have hem : e ∈ walk d.tree := by rw [e1]; simp
    have hne : ∀ x, x ∈ walk r → x.obj ≠ e.obj := by
      intro x hx ho
      have hxe := h.ids x e (hsub x hx) hem ho
      have := (walk_spec r hinv).2 x |>.mp hx
      rw [hmap, hxe, hek] at this
      simp at this
    simp only
    refine ⟨by rw [get_eq, hab]; rfl, ⟨hinv, hntz h.ntz, ?_, ?_, ?_, ?_⟩, ?_⟩
    · intro x hx; exact h.fresh x (hsub x hx)
    · intro p hp; exact h.vfresh p (List.mem_filter.mp hp).1
    · intro x hx
      obtain ⟨p, hp, hpx⟩ := h.present x (hsub x hx)
      refine ⟨p, List.mem_filter.mpr ⟨hp, ?_⟩, hpx⟩
      simpa [hpx] using hne x hx
    · intro a b ha hb hab'; exact h.ids a b (hsub a ha) (hsub b hb) hab'
    · intro k'
      rw [get_eq, get_eq]
      simp only [hmap k']
      by_cases hkk : k' = k
      · simp [hkk]
      · simp only [hkk, ↓reduceIte]
        cases ha : absMap d.tree k' with
        | none => rfl
        | some o =>
          have hm := (absMap_some_iff d.tree h.inv k' o).mp ha
          have hoe : o ≠ e.obj := by
            intro ho
            have := h.ids ⟨k', o⟩ e hm hem ho
            rw [← this] at hek
            exact hkk hek
          simp only [Option.map_some]
          rw [valOf_filter_other _ _ _ hoe]

/-- last value given for `k` in a list of pairs -/
def lastVal (ps : List (Key × Val)) (k : Key) : Option Val :=
  (ps.reverse.find? (·.1 == k)).map (·.2)

theorem lastVal_cons (p : Key × Val) (ps : List (Key × Val)) (k : Key) :
    lastVal (p :: ps) k = match lastVal ps k with
      | some v => some v
      | none => if p.1 = k then some p.2 else none := by
  simp only [lastVal, List.reverse_cons, List.find?_append]
  cases h : List.find? (fun x => x.1 == k) ps.reverse with
  | some q => simp
  | none =>
    by_cases hp : p.1 = k <;> simp [hp]

/-- **`mdict_get` returns the last value put (or url-decoded) for a key.** -/
theorem putAll_spec (ps : List (Key × Val)) (d : MDict) (h : MInv d)
    (hk : ∀ p, p ∈ ps → NoTrailingZero p.1) :
    (d.putAll ps).2 = true ∧ MInv (d.putAll ps).1 ∧
    ∀ k, (d.putAll ps).1.get k = match lastVal ps k with
      | some v => some v
      | none => d.get k := by
  induction ps generalizing d with
  | nil => exact ⟨rfl, h, fun k => by simp [MDict.putAll, lastVal]⟩
  | cons p rest ih =>
    obtain ⟨k0, v0⟩ := p
    obtain ⟨a, b, c⟩ := put_spec d h k0 (hk (k0, v0) (by simp)) v0
    obtain ⟨a', b', c'⟩ := ih (d.put k0 v0).1 b (fun p hp => hk p (by simp [hp]))
    simp only [MDict.putAll]
    rw [show (d.put k0 v0) = ((d.put k0 v0).1, (d.put k0 v0).2) from rfl]
    simp only [a, ↓reduceIte]
    refine ⟨a', b', ?_⟩
    intro k
    rw [c' k, lastVal_cons, c k]
    cases lastVal rest k with
    | some v => rfl
    | none =>
      by_cases hkk : k = k0
      · subst hkk; simp
      · have : ¬ k0 = k := fun e => hkk e.symm
        simp [hkk, this]

end Usual.C06
