import Usual.C06.CBTree
/-! Byte-string instance of the crit-bit key interface: get_bit and find_crit_bit of usual/cbtree.c -/
namespace Usual.C06

theorem hiBit_spec : ∀ c : Fin 256, c.val ≠ 0 →
    c.val.testBit (hiBit c.val) = true ∧ (∀ j : Fin 8, hiBit c.val < j.val → c.val.testBit j.val = false) ∧
    hiBit c.val < 8 := by
  decide +kernel

abbrev Bytes := List Nat

def IsBytes (k : Bytes) : Prop := ∀ x, x ∈ k → x < 256

theorem getBitN_nil (p : Nat) : getBitN [] p = false := by simp [getBitN]

theorem getBitN_cons_lt (x : Nat) (xs : Bytes) (p : Nat) (h : p < 8) :
    getBitN (x :: xs) p = x.testBit (7 - p) := by
  have h0 : p / 8 = 0 := by omega
  have h1 : p % 8 = p := by omega
  simp [getBitN, h0, h1]

theorem getBitN_cons_ge (x : Nat) (xs : Bytes) (p : Nat) (h : 8 ≤ p) :
    getBitN (x :: xs) p = getBitN xs (p - 8) := by
  have h0 : p / 8 = (p - 8) / 8 + 1 := by omega
  have h1 : p % 8 = (p - 8) % 8 := by omega
  simp [getBitN, h0, h1]

/-- two different bytes: first differing bit (MSB first) is `firstBit (x ^^^ y)` -/
theorem byte_diff (x y : Nat) (hx : x < 256) (hy : y < 256) (hne : x ≠ y) :
    let m := firstBit (x ^^^ y)
    m < 8 ∧ x.testBit (7 - m) ≠ y.testBit (7 - m) ∧ ∀ p, p < m → x.testBit (7 - p) = y.testBit (7 - p) := by
  have hc : x ^^^ y < 256 := Nat.xor_lt_two_pow (n := 8) hx hy
  have hc0 : x ^^^ y ≠ 0 := by
    intro h; apply hne
    apply Nat.eq_of_testBit_eq
    intro i
    have : (x ^^^ y).testBit i = false := by rw [h]; simp
    rw [Nat.testBit_xor] at this
    revert this; cases x.testBit i <;> cases y.testBit i <;> simp
  obtain ⟨h1, h2, h3⟩ := hiBit_spec ⟨x ^^^ y, hc⟩ hc0
  simp only at h1 h2 h3
  simp only [firstBit]
  have e : 7 - (7 - hiBit (x ^^^ y)) = hiBit (x ^^^ y) := by omega
  refine ⟨by omega, ?_, ?_⟩
  · rw [e]; rw [Nat.testBit_xor] at h1
    intro heq; rw [heq] at h1; simp at h1
  · intro p hp
    have := h2 ⟨7 - p, by omega⟩ (by simp only; omega)
    simp only at this
    rw [Nat.testBit_xor] at this
    revert this; cases x.testBit (7 - p) <;> cases y.testBit (7 - p) <;> simp

/-- a non-zero byte against zero padding -/
theorem byte_nonzero (x : Nat) (hx : x < 256) (hne : x ≠ 0) :
    let m := firstBit x
    m < 8 ∧ x.testBit (7 - m) = true ∧ ∀ p, p < m → x.testBit (7 - p) = false := by
  have := byte_diff x 0 hx (by omega) hne
  simp only [Nat.xor_zero, Nat.zero_testBit] at this
  obtain ⟨a, b, c⟩ := this
  refine ⟨a, ?_, c⟩
  revert b; cases x.testBit (7 - firstBit x) <;> simp

/-- the longer key against zero padding -/
theorem critTail_spec (b : Bytes) (i : Nat) (hb : IsBytes b) :
    (critTail b i = none → ∀ p, getBitN b p = false) ∧
    (∀ n, critTail b i = some n → ∃ m, n = i * 8 + m ∧
        (∀ p, p < m → getBitN b p = false) ∧ getBitN b m = true) := by
  induction b generalizing i with
  | nil => simp [critTail, getBitN_nil]
  | cons y ys ih =>
    have hy : y < 256 := hb y (by simp)
    have hys : IsBytes ys := fun x hx => hb x (by simp [hx])
    unfold critTail
    by_cases h0 : y ≠ 0
    · simp only [h0, ne_eq, not_false_eq_true, ↓reduceIte]
      obtain ⟨m1, m2, m3⟩ := byte_nonzero y hy h0
      constructor
      · intro h; cases h
      · intro n hn
        simp only [Option.some.injEq] at hn; subst hn
        refine ⟨firstBit y, rfl, ?_, ?_⟩
        · intro p hp; rw [getBitN_cons_lt y ys p (by omega), m3 p hp]
        · rw [getBitN_cons_lt y ys _ m1, m2]
    · have h0' : y = 0 := by omega
      subst h0'
      simp only [ne_eq, not_true_eq_false, ↓reduceIte]
      obtain ⟨i1, i2⟩ := ih (i + 1) hys
      constructor
      · intro h p
        by_cases hp : p < 8
        · rw [getBitN_cons_lt 0 ys p hp]; simp
        · rw [getBitN_cons_ge 0 ys p (by omega)]; exact i1 h (p - 8)
      · intro n hn
        obtain ⟨m, e1, e2, e3⟩ := i2 n hn
        refine ⟨m + 8, by omega, ?_, ?_⟩
        · intro p hp
          by_cases hp8 : p < 8
          · rw [getBitN_cons_lt 0 ys p hp8]; simp
          · rw [getBitN_cons_ge 0 ys p (by omega)]; exact e2 (p - 8) (by omega)
        · rw [getBitN_cons_ge 0 ys (m + 8) (by omega)]
          have : m + 8 - 8 = m := by omega
          rw [this]; exact e3

/-- soundness of find_crit_bit: `none` means the zero-padded bit strings coincide; `some n`
    is the first differing bit position -/
theorem findCritN_spec (a b : Bytes) (i : Nat) (ha : IsBytes a) (hb : IsBytes b) :
    (findCritN a b i = none → ∀ p, getBitN a p = getBitN b p) ∧
    (∀ n, findCritN a b i = some n → ∃ m, n = i * 8 + m ∧
        (∀ p, p < m → getBitN a p = getBitN b p) ∧ getBitN a m ≠ getBitN b m) := by
  induction a generalizing b i with
  | nil =>
    obtain ⟨t1, t2⟩ := critTail_spec b i hb
    simp only [findCritN]
    constructor
    · intro h p; rw [getBitN_nil, t1 h p]
    · intro n hn
      obtain ⟨m, e1, e2, e3⟩ := t2 n hn
      exact ⟨m, e1, fun p hp => by rw [getBitN_nil, e2 p hp], by rw [getBitN_nil, e3]; simp⟩
  | cons x xs ih =>
    have hx : x < 256 := ha x (by simp)
    have hxs : IsBytes xs := fun z hz => ha z (by simp [hz])
    cases b with
    | nil =>
      obtain ⟨t1, t2⟩ := critTail_spec (x :: xs) i ha
      simp only [findCritN]
      constructor
      · intro h p; rw [getBitN_nil, t1 h p]
      · intro n hn
        obtain ⟨m, e1, e2, e3⟩ := t2 n hn
        exact ⟨m, e1, fun p hp => by rw [getBitN_nil, e2 p hp], by rw [getBitN_nil, e3]; simp⟩
    | cons y ys =>
      have hy : y < 256 := hb y (by simp)
      have hys : IsBytes ys := fun z hz => hb z (by simp [hz])
      unfold findCritN
      by_cases hne : x ≠ y
      · simp only [hne, ne_eq, not_false_eq_true, ↓reduceIte]
        obtain ⟨m1, m2, m3⟩ := byte_diff x y hx hy hne
        constructor
        · intro h; cases h
        · intro n hn
          simp only [Option.some.injEq] at hn; subst hn
          refine ⟨firstBit (x ^^^ y), rfl, ?_, ?_⟩
          · intro p hp; rw [getBitN_cons_lt x xs p (by omega), getBitN_cons_lt y ys p (by omega), m3 p hp]
          · rw [getBitN_cons_lt x xs _ m1, getBitN_cons_lt y ys _ m1]; exact m2
      · have he : x = y := by omega
        subst he
        simp only [ne_eq, not_true_eq_false, ↓reduceIte]
        obtain ⟨i1, i2⟩ := ih ys (i + 1) hxs hys
        constructor
        · intro h p
          by_cases hp : p < 8
          · rw [getBitN_cons_lt x xs p hp, getBitN_cons_lt x ys p hp]
          · rw [getBitN_cons_ge x xs p (by omega), getBitN_cons_ge x ys p (by omega)]; exact i1 h (p - 8)
        · intro n hn
          obtain ⟨m, e1, e2, e3⟩ := i2 n hn
          refine ⟨m + 8, by omega, ?_, ?_⟩
          · intro p hp
            by_cases hp8 : p < 8
            · rw [getBitN_cons_lt x xs p hp8, getBitN_cons_lt x ys p hp8]
            · rw [getBitN_cons_ge x xs p (by omega), getBitN_cons_ge x ys p (by omega)]; exact e2 (p - 8) (by omega)
          · rw [getBitN_cons_ge x xs (m + 8) (by omega), getBitN_cons_ge x ys (m + 8) (by omega)]
            have : m + 8 - 8 = m := by omega
            rw [this]; exact e3

end Usual.C06
