import UsualProofs.C06.Refine
import Usual.C06.Pools
/-! `usual/strpool.c` on top of the crit-bit tree: handles, reference counts, total. -/
namespace Usual.C06

theorem refOf_setRef_same (refs : List (Nat × Nat)) (id n : Nat)
    (h : ∃ m, refOf refs id = some m) : refOf (setRef refs id n) id = some n := by
  induction refs with
  | nil => obtain ⟨m, hm⟩ := h; simp [refOf] at hm
  | cons q rest ih =>
    simp only [setRef, List.map_cons, refOf, List.find?_cons]
    by_cases hq : q.1 = id
    · simp [hq]
    · have hq' : (q.1 == id) = false := by simpa using hq
      simp only [hq', Bool.false_eq_true, ↓reduceIte]
      obtain ⟨m, hm⟩ := h
      simp only [refOf, List.find?_cons, hq'] at hm
      simpa [setRef, refOf] using ih ⟨m, by simpa [refOf] using hm⟩

theorem refOf_setRef_other (refs : List (Nat × Nat)) (id id' n : Nat) (h : id' ≠ id) :
    refOf (setRef refs id n) id' = refOf refs id' := by
  induction refs with
  | nil => rfl
  | cons q rest ih =>
    simp only [setRef, List.map_cons, refOf, List.find?_cons]
    by_cases hq : q.1 = id
    · have h1 : (q.1 == id) = true := by simpa using hq
      have h2 : (id == id') = false := by simpa using fun e => h e.symm
      have h3 : (q.1 == id') = false := by rw [hq]; exact h2
      simp only [h1, ↓reduceIte, h2, h3]
      simpa [setRef, refOf] using ih
    · have h1 : (q.1 == id) = false := by simpa using hq
      simp only [h1, Bool.false_eq_true, ↓reduceIte]
      by_cases hq2 : (q.1 == id') = true
      · simp [hq2]
      · simp only [hq2]
        simpa [setRef, refOf] using ih

theorem refOf_append_new (refs : List (Nat × Nat)) (id n : Nat)
    (h : refOf refs id = none) : refOf (refs ++ [(id, n)]) id = some n := by
  induction refs with
  | nil => simp [refOf]
  | cons q rest ih =>
    simp only [refOf, List.find?_cons] at h
    by_cases hq : (q.1 == id) = true
    · simp [hq] at h
    · simp only [hq] at h
      simp only [refOf, List.cons_append, List.find?_cons, hq]
      simpa [refOf] using ih (by simpa [refOf] using h)

theorem refOf_append_other (refs : List (Nat × Nat)) (id id' n : Nat) (h : id' ≠ id) :
    refOf (refs ++ [(id, n)]) id' = refOf refs id' := by
  induction refs with
  | nil =>
    have : (id == id') = false := by simpa using fun e => h e.symm
    simp [refOf, this]
  | cons q rest ih =>
    simp only [refOf, List.cons_append, List.find?_cons]
    by_cases hq : (q.1 == id') = true
    · simp [hq]
    · simp only [hq]
      simpa [refOf] using ih

theorem refOf_filter_same (refs : List (Nat × Nat)) (id : Nat) :
    refOf (refs.filter (·.1 != id)) id = none := by
  induction refs with
  | nil => rfl
  | cons q rest ih =>
    simp only [List.filter_cons]
    by_cases hq : q.1 = id
    · have h1 : (q.1 != id) = false := by simp [hq]
      simp only [h1, Bool.false_eq_true, ↓reduceIte]
      exact ih
    · have h1 : (q.1 != id) = true := by simpa using hq
      have h2 : (q.1 == id) = false := by simpa using hq
      simp only [h1, ↓reduceIte, refOf, List.find?_cons, h2]
      simpa [refOf] using ih

theorem refOf_filter_other (refs : List (Nat × Nat)) (id id' : Nat) (h : id' ≠ id) :
    refOf (refs.filter (·.1 != id)) id' = refOf refs id' := by
  induction refs with
  | nil => rfl
  | cons q rest ih =>
    simp only [List.filter_cons]
    by_cases hq : q.1 = id
    · have h1 : (q.1 != id) = false := by simp [hq]
      have h2 : (q.1 == id') = false := by rw [hq]; simpa using fun e => h e.symm
      simp only [h1, Bool.false_eq_true, ↓reduceIte, refOf, List.find?_cons, h2]
      simpa [refOf] using ih
    · have h1 : (q.1 != id) = true := by simpa using hq
      simp only [h1, ↓reduceIte, refOf, List.find?_cons]
      by_cases hq2 : (q.1 == id') = true
      · simp [hq2]
      · simp only [hq2]
        simpa [refOf] using ih

theorem refOf_lt (refs : List (Nat × Nat)) (id n : Nat) (b : Nat)
    (hb : ∀ p, p ∈ refs → p.1 < b) (h : refOf refs id = some n) : id < b := by
  simp only [refOf, Option.map_eq_some_iff] at h
  obtain ⟨p, hp, _⟩ := h
  have hm := List.mem_of_find?_eq_some hp
  have he := List.find?_some hp
  have : p.1 = id := by simpa using he
  rw [← this]; exact hb p hm

/-- invariant of a string pool -/
structure SPInv (sp : StrPool) : Prop where
  inv : Inv sp.tree
  ntz : NTZ sp.tree
  count : sp.count = ((walk sp.tree).length : Int)
  fresh : ∀ e, e ∈ walk sp.tree → e.obj < sp.nextId
  rfresh : ∀ p, p ∈ sp.refs → p.1 < sp.nextId
  live : ∀ id, (∃ n, refOf sp.refs id = some n) ↔ ∃ e, e ∈ walk sp.tree ∧ e.obj = id
  pos : ∀ id n, refOf sp.refs id = some n → 0 < n
  ids : ∀ a b, a ∈ walk sp.tree → b ∈ walk sp.tree → a.obj = b.obj → a = b

theorem spinv_empty : SPInv {} := by
  refine ⟨trivial, ?_, rfl, ?_, ?_, ?_, ?_, ?_⟩
  · intro e he; simp [walk] at he
  · intro e he; simp [walk] at he
  · intro p hp; simp at hp
  · intro id; simp [refOf, walk]
  · intro id n h; simp [refOf] at h
  · intro a b ha; simp [walk] at ha

/-- `strpool_get` of a string that is live returns the live handle and bumps its count -/
theorem get_live (sp : StrPool) (h : SPInv sp) (e : Entry) (he : e ∈ walk sp.tree) :
    (sp.get e.key).2 = some e.obj ∧ SPInv (sp.get e.key).1 ∧
    walk (sp.get e.key).1.tree = walk sp.tree ∧
    (∀ n, refOf sp.refs e.obj = some n → refOf (sp.get e.key).1.refs e.obj = some (n + 1)) := by
  have hl : lookup sp.tree e.key = some e := by
    cases ht : sp.tree with
    | none => rw [ht] at he; simp [walk] at he
    | some t =>
      have hi := h.inv; rw [ht] at hi he
      exact (lookup_some_iff t hi e.key e).mpr ⟨he, rfl⟩
  obtain ⟨n0, hn0⟩ := (h.live e.obj).mpr ⟨e, he, rfl⟩
  have hg : sp.get e.key = ({ sp with refs := setRef sp.refs e.obj (n0 + 1) }, some e.obj) := by
    simp [StrPool.get, hl, hn0]
  rw [hg]
  refine ⟨rfl, ⟨h.inv, h.ntz, h.count, h.fresh, ?_, ?_, ?_, h.ids⟩, rfl, ?_⟩
  · intro p hp
    simp only [setRef, List.mem_map] at hp
    obtain ⟨q, hq, rfl⟩ := hp
    split
    · exact h.fresh e he
    · exact h.rfresh q hq
  · intro id
    rw [← h.live id]
    by_cases hid : id = e.obj
    · subst hid
      simp only [refOf_setRef_same _ _ _ ⟨n0, hn0⟩]
      exact ⟨fun _ => ⟨n0, hn0⟩, fun _ => ⟨_, rfl⟩⟩
    · simp only [refOf_setRef_other _ _ _ _ hid]
  · intro id n hr
    by_cases hid : id = e.obj
    · subst hid
      rw [refOf_setRef_same _ _ _ ⟨n0, hn0⟩] at hr
      cases hr; omega
    · rw [refOf_setRef_other _ _ _ _ hid] at hr
      exact h.pos id n hr
  · intro n hn
    rw [hn0] at hn; cases hn
    exact refOf_setRef_same _ _ _ ⟨n0, hn0⟩

/-- `strpool_get` of a string that is not in the pool creates a fresh handle with count 1 -/
theorem get_new (sp : StrPool) (h : SPInv sp) (s : Key) (hs : NoTrailingZero s)
    (habs : ∀ e, e ∈ walk sp.tree → e.key ≠ s) :
    (sp.get s).2 = some sp.nextId ∧ SPInv (sp.get s).1 ∧
    (∀ x, x ∈ walk (sp.get s).1.tree ↔ x = ⟨s, sp.nextId⟩ ∨ x ∈ walk sp.tree) ∧
    refOf (sp.get s).1.refs sp.nextId = some 1 := by
  have hnone : absMap sp.tree s = none := (absMap_none_iff sp.tree h.inv s).mpr habs
  have hl : lookup sp.tree s = none := by simpa [absMap] using hnone
  obtain ⟨h1, h2⟩ := insert_refines sp.tree h.inv h.ntz ⟨s, sp.nextId⟩ hs
  cases hi : insert sp.tree ⟨s, sp.nextId⟩ with
  | none => have := h1.mp hi; simp [hnone] at this
  | some r =>
    obtain ⟨hinv, hntz, hmap⟩ := h2 r hi
    have hg : sp.get s = (StrPool.mk r (sp.count + 1) (sp.refs ++ [(sp.nextId, 1)]) (sp.nextId + 1),
        some sp.nextId) := by
      simp [StrPool.get, hl, hi]
    have hwalk : ∀ x, x ∈ walk r ↔ x = ⟨s, sp.nextId⟩ ∨ x ∈ walk sp.tree := by
      intro x
      rw [(walk_spec r hinv).2 x, (walk_spec sp.tree h.inv).2 x, hmap x.key]
      by_cases hxk : x.key = s
      · simp only [hxk, ↓reduceIte, Option.some.injEq, hnone]
        constructor
        · intro ho; left; cases x; simp_all
        · rintro (hx | hx)
          · rw [hx]
          · cases hx
      · simp only [hxk, ↓reduceIte]
        constructor
        · intro hx; exact Or.inr hx
        · rintro (hx | hx)
          · rw [hx] at hxk; exact absurd rfl hxk
          · exact hx
    have hrnone : refOf sp.refs sp.nextId = none := by
      cases hr : refOf sp.refs sp.nextId with
      | none => rfl
      | some n => have := refOf_lt _ _ _ _ h.rfresh hr; omega
    have hlen : (walk r).length = (walk sp.tree).length + 1 := by
      have hp1 := (walk_bitLt' r hinv)
      have hp2 := (walk_bitLt' sp.tree h.inv)
      have hnd : ∀ l : List Entry, l.Pairwise (fun a b => BitLt a.key b.key) → l.Nodup := by
        intro l hl
        rw [List.nodup_iff_pairwise_ne]
        exact hl.imp (fun {a b} hab e => by
          subst e; exact bitLt_irrefl_of_padEq _ _ (fun _ => rfl) hab)
      have hnot : (⟨s, sp.nextId⟩ : Entry) ∉ walk sp.tree := fun hm => habs _ hm rfl
      have hperm : (walk r).Perm (⟨s, sp.nextId⟩ :: walk sp.tree) := by
        apply (List.perm_ext_iff_of_nodup (hnd _ hp1) (List.nodup_cons.mpr ⟨hnot, hnd _ hp2⟩)).mpr
        intro a; rw [hwalk a]; simp
      simpa using hperm.length_eq
    rw [hg]
    refine ⟨rfl, ⟨hinv, hntz, ?_, ?_, ?_, ?_, ?_, ?_⟩, hwalk, refOf_append_new _ _ _ hrnone⟩
    · simp only [hlen, h.count]; omega
    · intro x hx
      rcases (hwalk x).mp hx with rfl | hx
      · simp
      · have := h.fresh x hx; simp; omega
    · intro p hp
      rcases List.mem_append.mp hp with hp | hp
      · have := h.rfresh p hp; simp; omega
      · simp at hp; subst hp; simp
    · intro id
      by_cases hid : id = sp.nextId
      · subst hid
        simp only [refOf_append_new _ _ _ hrnone]
        exact ⟨fun _ => ⟨_, (hwalk _).mpr (Or.inl rfl), rfl⟩, fun _ => ⟨1, rfl⟩⟩
      · simp only [refOf_append_other _ _ _ _ hid]
        rw [h.live id]
        constructor
        · rintro ⟨e, he, ho⟩; exact ⟨e, (hwalk e).mpr (Or.inr he), ho⟩
        · rintro ⟨e, he, ho⟩
          rcases (hwalk e).mp he with rfl | he
          · exact absurd ho.symm hid
          · exact ⟨e, he, ho⟩
    · intro id n hr
      by_cases hid : id = sp.nextId
      · subst hid; rw [refOf_append_new _ _ _ hrnone] at hr; cases hr; omega
      · rw [refOf_append_other _ _ _ _ hid] at hr; exact h.pos id n hr
    · intro a b ha hb hab
      rcases (hwalk a).mp ha with rfl | ha <;> rcases (hwalk b).mp hb with rfl | hb
      · rfl
      · have := h.fresh b hb; simp at hab; omega
      · have := h.fresh a ha; simp at hab; omega
      · exact h.ids a b ha hb hab
where
  walk_bitLt' (root : Option T) (h : Inv root) :
      (walk root).Pairwise (fun a b => BitLt a.key b.key) := by
    cases root with
    | none => simp [walk]
    | some t => exact entries_pairwise t h

end Usual.C06

namespace Usual.C06

theorem find_obj (l : List Entry) (e : Entry) (he : e ∈ l)
    (hu : ∀ a b, a ∈ l → b ∈ l → a.obj = b.obj → a = b) :
    l.find? (·.obj == e.obj) = some e := by
  induction l with
  | nil => cases he
  | cons x xs ih =>
    simp only [List.find?_cons]
    by_cases hx : (x.obj == e.obj) = true
    · have : x = e := hu x e (by simp) he (by simpa using hx)
      simp [hx, this]
    · simp only [hx]
      rcases List.mem_cons.mp he with rfl | he'
      · simp at hx
      · exact ih he' (fun a b ha hb => hu a b (by simp [ha]) (by simp [hb]))

/-- `strpool_incref` -/
theorem incref_spec (sp : StrPool) (h : SPInv sp) (id n : Nat) (hr : refOf sp.refs id = some n) :
    SPInv (sp.incref id) ∧ (sp.incref id).tree = sp.tree ∧
    refOf (sp.incref id).refs id = some (n + 1) := by
  have hg : sp.incref id = { sp with refs := setRef sp.refs id (n + 1) } := by
    simp [StrPool.incref, hr]
  rw [hg]
  obtain ⟨e, he, heo⟩ := (h.live id).mp ⟨n, hr⟩
  refine ⟨⟨h.inv, h.ntz, h.count, h.fresh, ?_, ?_, ?_, h.ids⟩, rfl, refOf_setRef_same _ _ _ ⟨n, hr⟩⟩
  · intro p hp
    simp only [setRef, List.mem_map] at hp
    obtain ⟨q, hq, rfl⟩ := hp
    split
    · rw [← heo]; exact h.fresh e he
    · exact h.rfresh q hq
  · intro id'
    rw [← h.live id']
    by_cases hid : id' = id
    · subst hid
      simp only [refOf_setRef_same _ _ _ ⟨n, hr⟩]
      exact ⟨fun _ => ⟨n, hr⟩, fun _ => ⟨_, rfl⟩⟩
    · simp only [refOf_setRef_other _ _ _ _ hid]
  · intro id' m hm
    by_cases hid : id' = id
    · subst hid
      rw [refOf_setRef_same _ _ _ ⟨n, hr⟩] at hm
      cases hm; omega
    · rw [refOf_setRef_other _ _ _ _ hid] at hm
      exact h.pos id' m hm

/-- `strpool_decref` with more than one reference left: only the count changes -/
theorem decref_keep (sp : StrPool) (h : SPInv sp) (id n : Nat) (hr : refOf sp.refs id = some n)
    (hn : 1 < n) :
    (sp.decref id).2 = false ∧ SPInv (sp.decref id).1 ∧ (sp.decref id).1.tree = sp.tree ∧
    refOf (sp.decref id).1.refs id = some (n - 1) := by
  have hg : sp.decref id = ({ sp with refs := setRef sp.refs id (n - 1) }, false) := by
    simp [StrPool.decref, hr, hn]
  rw [hg]
  obtain ⟨e, he, heo⟩ := (h.live id).mp ⟨n, hr⟩
  refine ⟨rfl, ⟨h.inv, h.ntz, h.count, h.fresh, ?_, ?_, ?_, h.ids⟩, rfl, refOf_setRef_same _ _ _ ⟨n, hr⟩⟩
  · intro p hp
    simp only [setRef, List.mem_map] at hp
    obtain ⟨q, hq, rfl⟩ := hp
    split
    · rw [← heo]; exact h.fresh e he
    · exact h.rfresh q hq
  · intro id'
    rw [← h.live id']
    by_cases hid : id' = id
    · subst hid
      simp only [refOf_setRef_same _ _ _ ⟨n, hr⟩]
      exact ⟨fun _ => ⟨n, hr⟩, fun _ => ⟨_, rfl⟩⟩
    · simp only [refOf_setRef_other _ _ _ _ hid]
  · intro id' m hm
    by_cases hid : id' = id
    · subst hid
      rw [refOf_setRef_same _ _ _ ⟨n, hr⟩] at hm
      cases hm; omega
    · rw [refOf_setRef_other _ _ _ _ hid] at hm
      exact h.pos id' m hm

/-- `strpool_decref` of the last reference: exactly that string leaves the pool -/
theorem decref_release (sp : StrPool) (h : SPInv sp) (id : Nat) (hr : refOf sp.refs id = some 1) :
    (sp.decref id).2 = true ∧ SPInv (sp.decref id).1 ∧
    ∃ e pre post, e.obj = id ∧ walk sp.tree = pre ++ e :: post ∧
      walk (sp.decref id).1.tree = pre ++ post ∧ refOf (sp.decref id).1.refs id = none := by
  obtain ⟨e, he, heo⟩ := (h.live id).mp ⟨1, hr⟩
  have hstr : sp.strOf id = some e.key := by
    simp only [StrPool.strOf]
    rw [← heo, find_obj _ e he h.ids]; rfl
  obtain ⟨h1, h2⟩ := delete_refines sp.tree h.inv e.key
  cases hd : delete sp.tree e.key with
  | none =>
    have := (absMap_none_iff sp.tree h.inv e.key).mp (h1.mp hd) e he
    exact absurd rfl this
  | some p =>
    obtain ⟨e', r⟩ := p
    obtain ⟨hek, hab, hinv, hntz, hmap, pre, post, e1, e2⟩ := h2 e' r hd
    have hee : e' = e := by
      have hm : e' ∈ walk sp.tree := by rw [e1]; simp
      have h3 := (absMap_some_iff sp.tree h.inv e.key e.obj).mpr he
      rw [hab] at h3
      cases e; cases e'; simp_all
    subst hee
    have hg : sp.decref id = ({ sp with tree := r, count := sp.count - 1,
                                        refs := sp.refs.filter (·.1 != id) }, true) := by
      simp [StrPool.decref, hr, hstr, hd]
    rw [hg]
    have hsub : ∀ x, x ∈ walk r → x ∈ walk sp.tree := by
      intro x hx; rw [e2] at hx; rw [e1]
      simp only [List.mem_append, List.mem_cons] at hx ⊢
      rcases hx with hx | hx
      · exact Or.inl hx
      · exact Or.inr (Or.inr hx)
    have hne : ∀ x, x ∈ walk r → x.obj ≠ id := by
      intro x hx ho
      have hxe := h.ids x e' (hsub x hx) he (by rw [ho, heo])
      have := (walk_spec r hinv).2 x |>.mp hx
      rw [hmap, hxe] at this
      simp at this
    refine ⟨rfl, ⟨hinv, hntz h.ntz, ?_, ?_, ?_, ?_, ?_, ?_⟩, e', pre, post, heo, e1, e2, refOf_filter_same _ _⟩
    · have : (walk sp.tree).length = (walk r).length + 1 := by rw [e1, e2]; simp; omega
      simp only [h.count, this]; omega
    · intro x hx; exact h.fresh x (hsub x hx)
    · intro p hp; exact h.rfresh p (List.mem_filter.mp hp).1
    · intro id'
      by_cases hid : id' = id
      · subst hid
        simp only [refOf_filter_same]
        constructor
        · rintro ⟨n, hn⟩; cases hn
        · rintro ⟨x, hx, hxo⟩; exact absurd hxo (hne x hx)
      · simp only [refOf_filter_other _ _ _ hid]
        rw [h.live id']
        constructor
        · rintro ⟨x, hx, hxo⟩
          refine ⟨x, ?_, hxo⟩
          rw [e1] at hx; rw [e2]
          simp only [List.mem_append, List.mem_cons] at hx ⊢
          rcases hx with hx | hx | hx
          · exact Or.inl hx
          · rw [hx, heo] at hxo; exact absurd hxo.symm hid
          · exact Or.inr hx
        · rintro ⟨x, hx, hxo⟩; exact ⟨x, hsub x hx, hxo⟩
    · intro id' m hm
      by_cases hid : id' = id
      · subst hid; rw [refOf_filter_same] at hm; cases hm
      · rw [refOf_filter_other _ _ _ hid] at hm; exact h.pos id' m hm
    · intro a b ha hb hab'; exact h.ids a b (hsub a ha) (hsub b hb) hab'

/-! ### operation sequences -/

inductive SOp where
  | get (s : Key)
  | inc (id : Nat)
  | dec (id : Nat)

def SOp.keyOk : SOp → Prop
  | .get s => NoTrailingZero s
  | _ => True

def sstep (sp : StrPool) : SOp → StrPool
  | .get s => (sp.get s).1
  | .inc id => sp.incref id
  | .dec id => (sp.decref id).1

theorem sstep_inv (sp : StrPool) (h : SPInv sp) (op : SOp) (hk : op.keyOk) : SPInv (sstep sp op) := by
  cases op with
  | get s =>
    simp only [sstep]
    by_cases hex : ∃ e, e ∈ walk sp.tree ∧ e.key = s
    · obtain ⟨e, he, rfl⟩ := hex
      exact (get_live sp h e he).2.1
    · exact (get_new sp h s hk (fun e he hke => hex ⟨e, he, hke⟩)).2.1
  | inc id =>
    simp only [sstep]
    cases hr : refOf sp.refs id with
    | none => simp [StrPool.incref, hr, h]
    | some n => exact (incref_spec sp h id n hr).1
  | dec id =>
    simp only [sstep]
    cases hr : refOf sp.refs id with
    | none => simp [StrPool.decref, hr, h]
    | some n =>
      have hp := h.pos id n hr
      by_cases hn : 1 < n
      · exact (decref_keep sp h id n hr hn).2.1
      · have : n = 1 := by omega
        subst this
        exact (decref_release sp h id hr).2.1

theorem srun_inv (ops : List SOp) (hk : ∀ op, op ∈ ops → op.keyOk) (sp : StrPool) (h : SPInv sp) :
    SPInv (ops.foldl sstep sp) := by
  induction ops generalizing sp with
  | nil => exact h
  | cons op ops ih =>
    simp only [List.foldl_cons]
    exact ih (fun o ho => hk o (by simp [ho])) _ (sstep_inv sp h op (hk op (by simp)))

end Usual.C06
