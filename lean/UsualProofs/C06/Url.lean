import Usual.C06.Pools
/-! `mdict_urlencode` / `mdict_urldecode`: the parser inverts the printer (except for the one
    dict whose encoding is the empty string). -/
namespace Usual.C06

theorem gethex_hexTbl : ∀ n : Fin 16, gethex (hexTbl n.val) = some n.val := by decide

theorem ofNat_div_mod (c : UInt8) : UInt8.ofNat (c.toNat / 16 * 16 + c.toNat % 16) = c := by
  have : c.toNat / 16 * 16 + c.toNat % 16 = c.toNat := by omega
  rw [this]; simp

/-- bytes that `urlenc_str` copies verbatim are not special for the decoder -/
theorem plain_not_special (c : UInt8) (h : isAlnum c = true ∨ c = 46 ∨ c = 95) :
    (c == 37) = false ∧ (c == 43) = false ∧ (c == 38 || c == 61) = false := by
  rcases h with h | h | h
  · simp only [isAlnum, Bool.or_eq_true, Bool.and_eq_true, decide_eq_true_eq,
      UInt8.le_iff_toNat_le] at h
    have ne : ∀ d : UInt8, c.toNat ≠ d.toNat → (c == d) = false := by
      intro d hd
      simp only [beq_eq_false_iff_ne, ne_eq]
      intro hcd; exact hd (by rw [hcd])
    try simp only [UInt8.reduceToNat] at h
    have h37 := ne 37 (by show c.toNat ≠ 37; omega)
    have h43 := ne 43 (by show c.toNat ≠ 43; omega)
    have h38 := ne 38 (by show c.toNat ≠ 38; omega)
    have h61 := ne 61 (by show c.toNat ≠ 61; omega)
    simp only [Bool.or_eq_false_iff]
    exact ⟨h37, h43, h38, h61⟩
  · subst h; decide
  · subst h; decide

theorem urldecStr_plain (c : UInt8) (tail : List UInt8)
    (a : (c == 37) = false) (b : (c == 43) = false) (d : (c == 38 || c == 61) = false) :
    urldecStr (c :: tail) = (urldecStr tail).map fun p => (c :: p.1, p.2) := by
  rw [urldecStr.eq_def]
  simp only [a, b, d, Bool.false_eq_true, ↓reduceIte]

/-- the text that may follow an encoded string: end of input, `&` or `=` -/
def Stops (rest : List UInt8) : Prop := rest = [] ∨ ∃ r, rest = 38 :: r ∨ rest = 61 :: r

theorem urldecStr_stop (rest : List UInt8) (h : Stops rest) : urldecStr rest = some ([], rest) := by
  rcases h with rfl | ⟨r, rfl | rfl⟩
  · simp [urldecStr]
  · rw [urldecStr.eq_def]; simp
  · rw [urldecStr.eq_def]; simp

theorem urldec_byte (c : UInt8) (tail : List UInt8) :
    urldecStr (urlencByte c ++ tail) = (urldecStr tail).map fun p => (c :: p.1, p.2) := by
  unfold urlencByte
  by_cases h32 : (c == 32) = true
  · simp only [h32, ↓reduceIte, List.cons_append, List.nil_append]
    have : c = 32 := by simpa using h32
    subst this
    rw [urldecStr.eq_def]; simp
  · simp only [h32, Bool.false_eq_true, ↓reduceIte]
    by_cases hal : isAlnum c = true
    · obtain ⟨a, b, d⟩ := plain_not_special c (Or.inl hal)
      simp only [hal, ↓reduceIte, List.cons_append, List.nil_append]
      exact urldecStr_plain c tail a b d
    · simp only [hal, Bool.false_eq_true, ↓reduceIte]
      by_cases hd : (c == 46 || c == 95) = true
      · have hd' : c = 46 ∨ c = 95 := by simpa using hd
        obtain ⟨a, b, d⟩ := plain_not_special c (Or.inr hd')
        simp only [hd, ↓reduceIte, List.cons_append, List.nil_append]
        exact urldecStr_plain c tail a b d
      · simp only [hd, Bool.false_eq_true, ↓reduceIte, List.cons_append, List.nil_append]
        have h1 := gethex_hexTbl ⟨c.toNat / 16, by have := UInt8.toNat_lt c; omega⟩
        have h2 := gethex_hexTbl ⟨c.toNat % 16, by omega⟩
        simp only at h1 h2
        rw [urldecStr.eq_def]
        simp only [beq_self_eq_true, ↓reduceIte, h1, h2, ofNat_div_mod]

/-- decoding an encoded string gives the string back and stops where the encoding ends -/
theorem urldec_enc_str (s rest : List UInt8) (h : Stops rest) :
    urldecStr (urlencStr s ++ rest) = some (s, rest) := by
  induction s with
  | nil => simpa [urlencStr] using urldecStr_stop rest h
  | cons c cs ih =>
    have : urlencStr (c :: cs) ++ rest = urlencByte c ++ (urlencStr cs ++ rest) := by
      simp [urlencStr, List.append_assoc]
    rw [this, urldec_byte, ih]
    rfl

theorem urlencByte_ne_nil (c : UInt8) : urlencByte c ≠ [] := by
  unfold urlencByte
  split
  · simp
  · split
    · simp
    · split <;> simp

theorem urlencStr_ne_nil (s : List UInt8) (h : s ≠ []) : urlencStr s ≠ [] := by
  cases s with
  | nil => exact absurd rfl h
  | cons c cs =>
    simp only [urlencStr, List.flatMap_cons, ne_eq, List.append_eq_nil_iff, not_and]
    intro h1; exact absurd h1 (urlencByte_ne_nil c)

/-- the one shape the encoding cannot express: an empty key with NULL value in last position
    (for a dict, whose walk is sorted with the empty key first: the dict `{"" ↦ NULL}`) -/
def LastOk : List (Key × Val) → Prop
  | [] => True
  | [p] => p ≠ ([], none)
  | _ :: q :: rest => LastOk (q :: rest)

theorem urlencElem_decode (k : Key) (v : Val) (R : List UInt8) (hR : R = [] ∨ ∃ r, R = 38 :: r) :
    (v = none → urldecStr (urlencElem (k, v) ++ R) = some (k, R)) ∧
    (∀ w, v = some w → urldecStr (urlencElem (k, v) ++ R) = some (k, 61 :: (urlencStr w ++ R)) ∧
        urldecStr (urlencStr w ++ R) = some (w, R)) := by
  have hs : Stops R := by
    rcases hR with rfl | ⟨r, rfl⟩
    · exact Or.inl rfl
    · exact Or.inr ⟨r, Or.inl rfl⟩
  constructor
  · intro hv; subst hv
    simpa [urlencElem] using urldec_enc_str k R hs
  · intro w hv; subst hv
    constructor
    · have := urldec_enc_str k (61 :: (urlencStr w ++ R)) (Or.inr ⟨_, Or.inr rfl⟩)
      simpa [urlencElem, List.append_assoc] using this
    · exact urldec_enc_str w R hs

theorem urlencElem_ne_nil (p : Key × Val) (h : p ≠ ([], none)) : urlencElem p ≠ [] := by
  obtain ⟨k, v⟩ := p
  cases v with
  | none =>
    have : k ≠ [] := by intro hk; subst hk; exact h rfl
    simpa [urlencElem] using urlencStr_ne_nil k this
  | some w => simp [urlencElem]

/-- **Round trip of the text format**: decoding the encoding of a pair list returns exactly the
    pair list, provided the list does not end in the inexpressible pair `("", NULL)`. -/
theorem urldecode_urlencode_pairs (ps : List (Key × Val)) (h : LastOk ps) :
    ∀ fuel, ps.length ≤ fuel → urldecodePairs fuel (urlencode ps) = (ps, true) := by
  induction ps with
  | nil => intro fuel _; cases fuel <;> simp [urlencode, urldecodePairs]
  | cons p rest ih =>
    intro fuel hf
    cases fuel with
    | zero => simp at hf
    | succ fuel =>
      obtain ⟨k, v⟩ := p
      cases rest with
      | nil =>
        have hne : urlencElem (k, v) ≠ [] := urlencElem_ne_nil (k, v) h
        have hemp : (urlencElem (k, v)).isEmpty = false := by
          cases hE : urlencElem (k, v) with
          | nil => exact absurd hE hne
          | cons a as => rfl
        simp only [urlencode]
        obtain ⟨d1, d2⟩ := urlencElem_decode k v [] (Or.inl rfl)
        simp only [List.append_nil] at d1 d2
        have hz : urldecodePairs fuel [] = ([], true) := by cases fuel <;> simp [urldecodePairs]
        cases v with
        | none =>
          have := d1 rfl
          rw [urldecodePairs]
          simp [hemp, this, hz]
        | some w =>
          obtain ⟨e1, e2⟩ := d2 w rfl
          rw [urldecodePairs]
          simp [hemp, e1, e2, hz]
      | cons q rest' =>
        have ih' := ih h fuel (by simp at hf ⊢; omega)
        simp only [urlencode]
        obtain ⟨d1, d2⟩ := urlencElem_decode k v (38 :: urlencode (q :: rest')) (Or.inr ⟨_, rfl⟩)
        have hemp : (urlencElem (k, v) ++ 38 :: urlencode (q :: rest')).isEmpty = false := by
          cases hE : urlencElem (k, v) <;> rfl
        rw [urldecodePairs]
        cases v with
        | none =>
          have := d1 rfl
          simp [hemp, this, ih']
        | some w =>
          obtain ⟨e1, e2⟩ := d2 w rfl
          simp [hemp, e1, e2, ih']

theorem urlencode_length (ps : List (Key × Val)) : ps.length ≤ (urlencode ps).length + 1 := by
  induction ps with
  | nil => simp
  | cons p rest ih =>
    cases rest with
    | nil => simp
    | cons q rest' =>
      simp only [urlencode, List.length_append, List.length_cons] at ih ⊢
      omega

/-- with the fuel `mdict_urldecode`'s model uses (text length + 1) -/
theorem urldecode_urlencode_text (ps : List (Key × Val)) (h : LastOk ps) :
    urldecodePairs ((urlencode ps).length + 1) (urlencode ps) = (ps, true) :=
  urldecode_urlencode_pairs ps h _ (urlencode_length ps)

end Usual.C06
