import UsualProofs.C04.CMatchGrp
/-! Helper lemmas for C04: the matcher model on ARBITRARY compiled op lists — repeated groups
included.  `Sem` is the declarative reading of the search space of `do_match`: an AND-list in
front of a continuation (`Kont`: the open group iterations up to group #0) with the rules of
`match_group` / `match_gend` (one more repeat, the `minok` rule, zero-length pruning, the
`mincnt = 0` skip).  `coreR` proves that the model explores exactly `Sem`. -/
set_option linter.unusedSimpArgs false
set_option linter.unusedVariables false
namespace Usual.C04.CM
open Usual.C04

/-- continuation of an AND-list: the open iterations of the enclosing groups.  `gend … c s minok next k`:
we are in iteration number `c` (0-based) of the group, it started at `s`, `minok` as in `struct
GMatch`; after the group, `next` is matched under `k`. -/
inductive Kont where
  | root
  | gend (gno : Nat) (alts : List (List COp)) (mn mx c s : Nat) (minok : Bool) (next : List COp) (k : Kont)

def isAtomOp : COp → Bool
  | .chr _ _ _ => true
  | .any _ _ => true
  | .cls _ _ _ => true
  | _ => false

def minOfOp : COp → Nat
  | .chr _ mn _ => mn
  | .any mn _ => mn
  | .cls _ mn _ => mn
  | _ => 0

/-- greedy run length of a simple atom at `p` -/
def runOf (e : Env) : COp → Nat → Nat
  | .chr c _ mx, p => countWhile e (fun b => chrOk e c b) (e.s.size + 1) p (simpleMax mx) 0
  | .any _ mx, p => countWhile e (fun b => anyOk e b) (e.s.size + 1) p (simpleMax mx) 0
  | .cls bm _ mx, p => countWhile e (fun b => clsOk bm b) (e.s.size + 1) p (simpleMax mx) 0
  | _, _ => 0

/-- **declarative reading of the matcher's search**: `Sem e ops k p j` — matching the AND-list `ops`
from `p` and then the continuation `k` can end the whole match at `j` -/
inductive Sem (e : Env) : List COp → Kont → Nat → Nat → Prop
  | root (p : Nat) : Sem e [] .root p p
  | atom {op : COp} {rest : List COp} {k : Kont} {p n j : Nat} : isAtomOp op = true → minOfOp op ≤ n →
      n ≤ runOf e op p → Sem e rest k (p + n) j → Sem e (op :: rest) k p j
  | bol {rest : List COp} {k : Kont} {p j : Nat} : bolOk e p = true → Sem e rest k p j → Sem e (.bol :: rest) k p j
  | eol {rest : List COp} {k : Kont} {p j : Nat} : eolOk e p = true → Sem e rest k p j → Sem e (.eol :: rest) k p j
  /-- `match_group`: one of the alternatives, as iteration 0 -/
  | enter {gno : Nat} {alts : List (List COp)} {mn mx : Nat} {a rest : List COp} {k : Kont} {p j : Nat} :
      0 < mx → a ∈ alts → Sem e a (.gend gno alts mn mx 0 p false rest k) p j →
      Sem e (.group gno alts mn mx :: rest) k p j
  /-- `match_group`: "is no-match allowed?" -/
  | skip {gno : Nat} {alts : List (List COp)} {mn mx : Nat} {rest : List COp} {k : Kont} {p j : Nat} :
      mn = 0 → Sem e rest k p j → Sem e (.group gno alts mn mx :: rest) k p j
  /-- `match_gend`: one more repeat -/
  | more {gno : Nat} {alts : List (List COp)} {mn mx c s : Nat} {minok : Bool} {a next : List COp} {k : Kont}
      {p j : Nat} : ¬ (p = s ∧ 0 < c ∧ mn ≤ c) → c + 1 < mx → (p ≠ s ∨ (c + 1 < mn ∧ minok = false)) → a ∈ alts →
      Sem e a (.gend gno alts mn mx (c + 1) p (minok || (p == s)) next k) p j →
      Sem e [] (.gend gno alts mn mx c s minok next k) p j
  /-- `match_gend`: continue with the parent's AND-list -/
  | exit {gno : Nat} {alts : List (List COp)} {mn mx c s : Nat} {minok : Bool} {next : List COp} {k : Kont}
      {p j : Nat} : ¬ (p = s ∧ 0 < c ∧ mn ≤ c) → (p = s ∨ minok = true ∨ mn ≤ c + 1) → Sem e next k p j →
      Sem e [] (.gend gno alts mn mx c s minok next k) p j

/-- op lists with any counts; group numbers exceed the number of the enclosing group -/
inductive WFG : Nat → List COp → Prop
  | nil (n : Nat) : WFG n []
  | simple {n : Nat} {op : COp} {rest : List COp} : Simple op = true → WFG n rest → WFG n (op :: rest)
  | grp {n gno mn mx : Nat} {alts : List (List COp)} {rest : List COp} :
      n < gno → (∀ a, a ∈ alts → WFG gno a) → WFG n rest → WFG n (.group gno alts mn mx :: rest)

theorem WFG.tail {n : Nat} {op : COp} {rest : List COp} (h : WFG n (op :: rest)) : WFG n rest := by
  cases h with
  | simple _ h2 => exact h2
  | grp _ _ h3 => exact h3

/-- the continuation that a frame stands for -/
def kontOf (fr : Frame) (k : Kont) : Kont :=
  .gend fr.gno fr.alts fr.min fr.max fr.count fr.start fr.minok fr.next k

theorem kontOf_feq {a b : Frame} (h : FrameEq a b) (k : Kont) : kontOf b k = kontOf a k := by
  simp only [kontOf, h.gno, h.alts, h.min, h.max, h.count, h.start, h.minok, h.next]

/-- frame `g` and its ancestors up to the frame `g0` of group #0 stand for the continuation `k` -/
inductive ChainK (g0 : Nat) (st : St) : Nat → Kont → Prop
  | root : g0 < st.frames.size → (st.fr g0).gno = 0 → ChainK g0 st g0 .root
  | nest {g p : Nat} {k : Kont} : g < st.frames.size → (st.fr g).gno ≠ 0 → (st.fr g).parent = some p →
      (st.fr p).gno < (st.fr g).gno → (∀ a, a ∈ (st.fr g).alts → WFG (st.fr g).gno a) →
      WFG (st.fr p).gno (st.fr g).next → ChainK g0 st p k → ChainK g0 st g (kontOf (st.fr g) k)

theorem ChainK.lt {g0 : Nat} {st : St} {g : Nat} {k : Kont} (h : ChainK g0 st g k) : g < st.frames.size := by
  cases h with
  | root h1 _ => exact h1
  | nest h1 => exact h1

theorem ChainK.ext {g0 : Nat} {st st' : St} {g : Nat} {k : Kont} (h : ChainK g0 st g k) (he : Ext st st') :
    ChainK g0 st' g k := by
  induction h with
  | root h1 h2 =>
    exact ChainK.root (Nat.lt_of_lt_of_le h1 he.size) (by rw [(he.feq _ h1).gno]; exact h2)
  | @nest g p k h1 h2 h3 h4 h5 h6 h7 ih =>
    have fe := he.feq g h1
    have hp : p < st.frames.size := h7.lt
    have fp := he.feq p hp
    have := ChainK.nest (g0 := g0) (st := st') (g := g) (p := p) (k := k) (Nat.lt_of_lt_of_le h1 he.size)
      (by rw [fe.gno]; exact h2) (by rw [fe.parent]; exact h3) (by rw [fp.gno, fe.gno]; exact h4)
      (by rw [fe.alts, fe.gno]; exact h5) (by rw [fp.gno, fe.next]; exact h6) ih
    rw [kontOf_feq fe] at this
    exact this

/-- two searches one after the other, both started without a pending `gotmatch` -/
theorem Post2.seq' {cx : Cx} {J : St → Prop} {P1 P2 : Nat → Prop} {st st1 st2 : St} {e1 e2 : Nat}
    (p1 : Post2 cx J P1 false st e1 st1) (p2 : Post2 cx J P2 false st1 e2 st2) :
    Post2 cx J (fun j => P1 j ∨ P2 j) false st (if e2 = NOMATCH ∧ e1 = 0 then 0 else e2) st2 := by
  have p2' : Post2 cx J P2 (false || decide (e1 = 0)) st1 (if e2 = NOMATCH ∧ e1 = 0 then 0 else e2) st2 := by
    refine ⟨p2.same, ?_, ?_, p2.mono, p2.upper, p2.attained, p2.keepJ⟩
    · by_cases h : e2 = NOMATCH ∧ e1 = 0
      · rw [if_pos h]; exact Or.inl rfl
      · rw [if_neg h]; exact p2.code
    · by_cases h : e2 = NOMATCH ∧ e1 = 0
      · rw [if_pos h]; simp [h.2]
      · rw [if_neg h, p2.ok]
        simp only [Bool.false_or, decide_eq_true_eq, Bool.false_eq_true, false_or]
        constructor
        · intro hx; exact Or.inr hx
        · rintro (he | hx)
          · have hc := p2.code
            rcases hc with h0 | h1
            · exact (p2.ok.mp h0).resolve_left (by simp)
            · exact absurd ⟨h1, he⟩ h
          · exact hx
  exact Post2.seq p1 p2'

/-! ## inversion of `Sem` -/

theorem Sem.root_iff {e : Env} {p j : Nat} : Sem e [] .root p j ↔ j = p := by
  constructor
  · intro h; cases h; rfl
  · rintro rfl; exact Sem.root _

theorem Sem.atom_iff {e : Env} {op : COp} {rest : List COp} {k : Kont} {p j : Nat} (ha : isAtomOp op = true) :
    Sem e (op :: rest) k p j ↔ ∃ n, minOfOp op ≤ n ∧ n ≤ runOf e op p ∧ Sem e rest k (p + n) j := by
  constructor
  · intro h
    cases h with
    | atom _ h1 h2 h3 => exact ⟨_, h1, h2, h3⟩
    | bol _ _ => simp [isAtomOp] at ha
    | eol _ _ => simp [isAtomOp] at ha
    | enter _ _ _ => simp [isAtomOp] at ha
    | skip _ _ => simp [isAtomOp] at ha
  · rintro ⟨n, h1, h2, h3⟩; exact Sem.atom ha h1 h2 h3

theorem Sem.bol_iff {e : Env} {rest : List COp} {k : Kont} {p j : Nat} :
    Sem e (.bol :: rest) k p j ↔ bolOk e p = true ∧ Sem e rest k p j := by
  constructor
  · intro h
    cases h with
    | atom ha _ _ _ => simp [isAtomOp] at ha
    | bol h1 h2 => exact ⟨h1, h2⟩
  · rintro ⟨h1, h2⟩; exact Sem.bol h1 h2

theorem Sem.eol_iff {e : Env} {rest : List COp} {k : Kont} {p j : Nat} :
    Sem e (.eol :: rest) k p j ↔ eolOk e p = true ∧ Sem e rest k p j := by
  constructor
  · intro h
    cases h with
    | atom ha _ _ _ => simp [isAtomOp] at ha
    | eol h1 h2 => exact ⟨h1, h2⟩
  · rintro ⟨h1, h2⟩; exact Sem.eol h1 h2

theorem Sem.group_iff {e : Env} {gno : Nat} {alts : List (List COp)} {mn mx : Nat} {rest : List COp} {k : Kont}
    {p j : Nat} :
    Sem e (.group gno alts mn mx :: rest) k p j ↔
      (0 < mx ∧ ∃ a, a ∈ alts ∧ Sem e a (.gend gno alts mn mx 0 p false rest k) p j) ∨ (mn = 0 ∧ Sem e rest k p j) := by
  constructor
  · intro h
    cases h with
    | atom ha _ _ _ => simp [isAtomOp] at ha
    | enter h1 h2 h3 => exact Or.inl ⟨h1, _, h2, h3⟩
    | skip h1 h2 => exact Or.inr ⟨h1, h2⟩
  · rintro (⟨h1, a, h2, h3⟩ | ⟨h1, h2⟩)
    · exact Sem.enter h1 h2 h3
    · exact Sem.skip h1 h2

theorem Sem.gend_iff {e : Env} {gno : Nat} {alts : List (List COp)} {mn mx c s : Nat} {minok : Bool}
    {next : List COp} {k : Kont} {p j : Nat} :
    Sem e [] (.gend gno alts mn mx c s minok next k) p j ↔
      ¬ (p = s ∧ 0 < c ∧ mn ≤ c) ∧
      ((c + 1 < mx ∧ (p ≠ s ∨ (c + 1 < mn ∧ minok = false)) ∧
          ∃ a, a ∈ alts ∧ Sem e a (.gend gno alts mn mx (c + 1) p (minok || (p == s)) next k) p j) ∨
       ((p = s ∨ minok = true ∨ mn ≤ c + 1) ∧ Sem e next k p j)) := by
  constructor
  · intro h
    cases h with
    | more h1 h2 h3 h4 h5 => exact ⟨h1, Or.inl ⟨h2, h3, _, h4, h5⟩⟩
    | exit h1 h2 h3 => exact ⟨h1, Or.inr ⟨h2, h3⟩⟩
  · rintro ⟨h1, (⟨h2, h3, a, h4, h5⟩ | ⟨h2, h3⟩)⟩
    · exact Sem.more h1 h2 h3 h4 h5
    · exact Sem.exit h1 h2 h3

/-! ## structured unfoldings of `match_group` and `match_gend` -/

def newFrame (st : St) (gno : Nat) (alts : List (List COp)) (mn mx : Nat) (next : List COp) (str : Nat)
    (gm : Option Nat) : Frame :=
  match (match gm with
      | some g => if (st.fr g).gno = gno then some (st.fr g) else none
      | none => none : Option Frame) with
  | some pf => { gno := gno, alts := alts, min := mn, max := mx, next := next, start := str,
                 prev := st.stacks[gno]!, parent := pf.parent, count := pf.count + 1,
                 minok := pf.minok || pf.end_ == some pf.start }
  | none => { gno := gno, alts := alts, min := mn, max := mx, next := next, start := str,
              prev := st.stacks[gno]!, parent := gm }

def groupTail (cx : Cx) (f : Nat) (fr : Frame) (id gno : Nat) (next : List COp) (str mn : Nat)
    (r : Nat × Bool × St) : Nat × St :=
  let es : Nat × St :=
    if mn = 0 ∧ fr.count = 0 ∧ (r.1 = NOMATCH ∨ (r.1 = 0 ∧ cx.strict)) then
      doOps cx f next str fr.parent (r.2.2.setFr id { r.2.2.fr id with end_ := none })
    else (r.1, r.2.2)
  ((if r.2.1 ∧ es.1 ≠ OUT_OF_BUDGET ∧ es.1 ≠ OUT_OF_FUEL then 0 else es.1),
   { es.2 with stacks := es.2.stacks.set! gno fr.prev })

theorem matchGroup_eq (cx : Cx) (f gno : Nat) (alts : List (List COp)) (mn mx : Nat) (next : List COp) (str : Nat)
    (gm : Option Nat) (st : St) :
    matchGroup cx (f + 1) gno alts mn mx next str gm st =
      groupTail cx f (newFrame st gno alts mn mx next str gm) st.frames.size gno next str mn
        (if mx > 0 then
          altLoop cx f alts str st.frames.size NOMATCH false
            { st with frames := st.frames.push (newFrame st gno alts mn mx next str gm),
                      stacks := st.stacks.set! gno (some st.frames.size) }
         else (NOMATCH, false,
            { st with frames := st.frames.push (newFrame st gno alts mn mx next str gm),
                      stacks := st.stacks.set! gno (some st.frames.size) })) := by
  rw [matchGroup.eq_def]
  rfl

def gendMore (fr : Frame) (str : Nat) : Bool :=
  fr.count + 1 < fr.max && (!(str == fr.start) || (fr.count + 1 < fr.min && !fr.minok))

def gendTail (cx : Cx) (f : Nat) (fr : Frame) (str : Nat) (more : Bool) (r : Nat × St) : Nat × St :=
  let got := more && r.1 = 0 && cx.strict
  if more && !got && r.1 ≠ NOMATCH then (r.1, r.2)
  else if !(str == fr.start) && !fr.minok && fr.count + 1 < fr.min then (r.1, r.2)
  else
    match doOps cx f fr.next str fr.parent r.2 with
    | (err2, st) => ((if err2 = NOMATCH ∧ got then 0 else err2), st)

theorem matchGend_eq (cx : Cx) (f str g : Nat) (st : St) :
    matchGend cx (f + 1) str g st =
      (if (str == (st.fr g).start && decide ((st.fr g).count > 0) && decide ((st.fr g).count ≥ (st.fr g).min)) = true
       then (NOMATCH, st)
       else gendTail cx f (st.fr g) str (gendMore (st.fr g) str)
         (if gendMore (st.fr g) str = true then
            matchGroup cx f (st.fr g).gno (st.fr g).alts (st.fr g).min (st.fr g).max (st.fr g).next str (some g)
              (st.setFr g { st.fr g with end_ := some str })
          else (NOMATCH, st.setFr g { st.fr g with end_ := some str }))) := by
  simp only [matchGend, gendTail, gendMore]
  rfl

theorem newFrame_enter (st : St) (gno : Nat) (alts : List (List COp)) (mn mx : Nat) (next : List COp) (str g : Nat)
    (h : (st.fr g).gno ≠ gno) :
    newFrame st gno alts mn mx next str (some g) =
      { gno := gno, alts := alts, min := mn, max := mx, next := next, start := str, prev := st.stacks[gno]!,
        parent := some g } := by
  simp [newFrame, h]

theorem newFrame_re (st : St) (alts : List (List COp)) (mn mx : Nat) (next : List COp) (str g : Nat) :
    newFrame st (st.fr g).gno alts mn mx next str (some g) =
      { gno := (st.fr g).gno, alts := alts, min := mn, max := mx, next := next, start := str,
        prev := st.stacks[(st.fr g).gno]!, parent := (st.fr g).parent, count := (st.fr g).count + 1,
        minok := (st.fr g).minok || (st.fr g).end_ == some (st.fr g).start } := by
  simp [newFrame]

theorem groupTail_noskip (cx : Cx) (f : Nat) (fr : Frame) (id gno : Nat) (next : List COp) (str mn e1 : Nat)
    (got1 : Bool) (st2 : St) (h : mn ≠ 0 ∨ fr.count ≠ 0) :
    groupTail cx f fr id gno next str mn (e1, got1, st2) =
      ((if got1 = true ∧ e1 ≠ OUT_OF_BUDGET ∧ e1 ≠ OUT_OF_FUEL then 0 else e1),
       { st2 with stacks := st2.stacks.set! gno fr.prev }) := by
  have : ¬ (mn = 0 ∧ fr.count = 0 ∧ (e1 = NOMATCH ∨ (e1 = 0 ∧ cx.strict = true))) := by
    rintro ⟨h1, h2, _⟩
    rcases h with h | h
    · exact h h1
    · exact h h2
  simp only [groupTail, this, if_false]

theorem gendMore_iff (fr : Frame) (str : Nat) :
    gendMore fr str = true ↔ fr.count + 1 < fr.max ∧ (str ≠ fr.start ∨ (fr.count + 1 < fr.min ∧ fr.minok = false)) := by
  simp [gendMore]

def gendNoExit (fr : Frame) (str : Nat) : Bool := !(str == fr.start) && !fr.minok && decide (fr.count + 1 < fr.min)

theorem gendNoExit_iff (fr : Frame) (str : Nat) :
    gendNoExit fr str = true ↔ ¬ (str = fr.start ∨ fr.minok = true ∨ fr.min ≤ fr.count + 1) := by
  simp only [gendNoExit, Bool.and_eq_true, Bool.not_eq_true', beq_eq_false_iff_ne, ne_eq, decide_eq_true_eq]
  constructor
  · rintro ⟨⟨h1, h2⟩, h3⟩ (h | h | h)
    · exact h1 h
    · rw [h2] at h; cases h
    · omega
  · intro h
    refine ⟨⟨fun hh => h (Or.inl hh), ?_⟩, ?_⟩
    · cases hm : fr.minok with
      | false => rfl
      | true => exact absurd (Or.inr (Or.inl hm)) h
    · apply Nat.lt_of_not_ge
      intro hh
      exact h (Or.inr (Or.inr hh))

/-- `gendTail` after the "one more repeat" phase returned `(e1, st2)` with `more` as given -/
theorem gendTail_eq (cx : Cx) (f : Nat) (fr : Frame) (str : Nat) (more : Bool) (e1 : Nat) (st2 : St) :
    gendTail cx f fr str more (e1, st2) =
      (if (more && !(more && decide (e1 = 0) && cx.strict) && decide (e1 ≠ NOMATCH)) = true then (e1, st2)
       else if gendNoExit fr str = true then (e1, st2)
       else ((if (doOps cx f fr.next str fr.parent st2).1 = NOMATCH ∧ (more && decide (e1 = 0) && cx.strict) = true then 0
              else (doOps cx f fr.next str fr.parent st2).1), (doOps cx f fr.next str fr.parent st2).2)) := by
  simp only [gendTail, gendNoExit]
  rfl

/-- a successful non-strict search also is a search of any larger set -/
theorem Post2.widen {cx : Cx} {J : St → Prop} {P Q : Nat → Prop} {st st' : St}
    (p : Post2 cx J P false st 0 st') (hs : cx.strict = false) (hPQ : ∀ j, P j → Q j) :
    Post2 cx J Q false st 0 st' := by
  obtain ⟨j0, hj0⟩ := (p.ok.mp rfl).resolve_left (by simp)
  refine ⟨p.same, Or.inl rfl, by simp; exact ⟨j0, hPQ j0 hj0⟩, p.mono, (fun h => by rw [hs] at h; cases h), ?_, p.keepJ⟩
  rcases p.attained with h | ⟨j, hj, h⟩
  · exact Or.inl h
  · exact Or.inr ⟨j, hPQ j hj, h⟩

/-! ## the model explores exactly `Sem` -/

theorem coreR (cx : Cx) (J : St → Prop) (g0 : Nat) (hJ : JOk cx g0 J) : ∀ f : Nat,
    -- do_match
    (∀ ops str g K st err st', WFG (st.fr g).gno ops → ChainK g0 st g K →
        doOps cx f ops str (some g) st = (err, st') → Good err →
        Post2 cx J (Sem cx.env ops K str) false st err st') ∧
    -- scan_next
    (∀ rest str g K cur mn st err st', WFG (st.fr g).gno rest → ChainK g0 st g K → cur ≤ str →
        scanNext cx f rest str (some g) cur mn st = (err, st') → Good err →
        Post2 cx J (fun j => ∃ k, mn ≤ k ∧ k ≤ cur ∧ Sem cx.env rest K (str - cur + k) j) false st err st') ∧
    -- its back-off loop
    (∀ rest str g K cur mn got st err st', WFG (st.fr g).gno rest → ChainK g0 st g K → mn ≤ cur → cur ≤ str →
        (got = true → cx.strict = true) →
        scanLoop cx f rest str (some g) cur mn got st = (err, st') → Good err →
        Post2 cx J (fun j => ∃ k, mn ≤ k ∧ k ≤ cur ∧ Sem cx.env rest K (str - cur + k) j) got st err st') ∧
    -- match_group entered from the AND-list of frame `g`
    (∀ gno alts mn mx rest str g K st err st', (st.fr g).gno < gno → (∀ a, a ∈ alts → WFG gno a) →
        WFG (st.fr g).gno rest → ChainK g0 st g K →
        matchGroup cx f gno alts mn mx rest str (some g) st = (err, st') → Good err →
        Post2 cx J (Sem cx.env (.group gno alts mn mx :: rest) K str) false st err st') ∧
    -- match_group re-entered from match_gend of frame `g` for one more repeat
    (∀ str g p K st err st', g < st.frames.size → (st.fr g).gno ≠ 0 → (st.fr g).parent = some p →
        (st.fr p).gno < (st.fr g).gno → (∀ a, a ∈ (st.fr g).alts → WFG (st.fr g).gno a) →
        WFG (st.fr p).gno (st.fr g).next → ChainK g0 st p K → (st.fr g).end_ = some str → 0 < (st.fr g).max →
        matchGroup cx f (st.fr g).gno (st.fr g).alts (st.fr g).min (st.fr g).max (st.fr g).next str (some g) st
          = (err, st') → Good err →
        Post2 cx J (fun j => ∃ a, a ∈ (st.fr g).alts ∧
            Sem cx.env a (.gend (st.fr g).gno (st.fr g).alts (st.fr g).min (st.fr g).max ((st.fr g).count + 1) str
              ((st.fr g).minok || (str == (st.fr g).start)) (st.fr g).next K) str j) false st err st') ∧
    -- the OR-list loop for frame `id`
    (∀ alts str id K err0 got st err got' st', (∀ a, a ∈ alts → WFG (st.fr id).gno a) → ChainK g0 st id K →
        (got = true → cx.strict = true) → (err0 = NOMATCH ∨ (err0 = 0 ∧ got = true)) →
        altLoop cx f alts str id err0 got st = (err, got', st') → Good err →
        Post2 cx J (fun j => ∃ a, a ∈ alts ∧ Sem cx.env a K str j) got st (if got' then 0 else err) st') ∧
    -- … and what it returns
    (∀ alts str id K err0 got st err got' st', (∀ a, a ∈ alts → WFG (st.fr id).gno a) → ChainK g0 st id K →
        (err0 = NOMATCH ∨ (err0 = 0 ∧ got = true)) →
        altLoop cx f alts str id err0 got st = (err, got', st') → Good err →
        (err = 0 ∨ err = NOMATCH) ∧ (err = 0 → cx.strict = true → got' = true)) ∧
    -- match_gend
    (∀ str g K st err st', ChainK g0 st g K → (st.fr g).gno ≠ 0 →
        matchGend cx f str g st = (err, st') → Good err →
        Post2 cx J (Sem cx.env [] K str) false st err st') := by
  intro f
  induction f with
  | zero =>
    refine ⟨?_, ?_, ?_, ?_, ?_, ?_, ?_, ?_⟩
    · intro ops str g K st err st' _ _ h hg
      simp only [doOps] at h
      obtain ⟨rfl, _⟩ := Prod.mk.inj h
      exact absurd rfl hg.2
    · intro rest str g K cur mn st err st' _ _ _ h hg
      simp only [scanNext] at h
      obtain ⟨rfl, _⟩ := Prod.mk.inj h
      exact absurd rfl hg.2
    · intro rest str g K cur mn got st err st' _ _ _ _ _ h hg
      simp only [scanLoop] at h
      obtain ⟨rfl, _⟩ := Prod.mk.inj h
      exact absurd rfl hg.2
    · intro gno alts mn mx rest str g K st err st' _ _ _ _ h hg
      simp only [matchGroup] at h
      obtain ⟨rfl, _⟩ := Prod.mk.inj h
      exact absurd rfl hg.2
    · intro str g p K st err st' _ _ _ _ _ _ _ _ _ h hg
      simp only [matchGroup] at h
      obtain ⟨rfl, _⟩ := Prod.mk.inj h
      exact absurd rfl hg.2
    · intro alts str id K err0 got st err got' st' _ _ _ _ h hg
      simp only [altLoop] at h
      obtain ⟨rfl, _⟩ := Prod.mk.inj h
      exact absurd rfl hg.2
    · intro alts str id K err0 got st err got' st' _ _ _ h hg
      simp only [altLoop] at h
      obtain ⟨rfl, _⟩ := Prod.mk.inj h
      exact absurd rfl hg.2
    · intro str g K st err st' _ _ h hg
      simp only [matchGend] at h
      obtain ⟨rfl, _⟩ := Prod.mk.inj h
      exact absurd rfl hg.2
  | succ f ih =>
    obtain ⟨ihd, ihn, ihs, ihg, ihr, iha, iha2, ihe⟩ := ih
    refine ⟨?_, ?_, ?_, ?_, ?_, ?_, ?_, ?_⟩
    · -- doOps
      intro ops str g K st err st' hwf hch h hg
      simp only [doOps] at h
      by_cases hb : st.budget = 0
      · rw [if_pos hb] at h
        obtain ⟨rfl, _⟩ := Prod.mk.inj h
        exact absurd rfl hg.1
      · rw [if_neg hb] at h
        obtain ⟨st0, hst0⟩ : ∃ st0 : St, st0 = { st with budget := st.budget - 1 } := ⟨_, rfl⟩
        rw [← hst0] at h
        have he0 : Ext st st0 := by rw [hst0]; exact ext_budget st _
        have hch0 : ChainK g0 st0 g K := hch.ext he0
        have hfr0 : ∀ k, st0.fr k = st.fr k := by intro k; rw [hst0]; rfl
        refine Post2.pre he0 (by rw [hst0]) (by rw [hst0]; exact hJ.budget st) ?_
        cases ops with
        | nil =>
          cases hch0 with
          | root h1 h2 =>
            rw [if_pos h2] at h
            exact Post2.congr (fun j => Sem.root_iff.symm)
              (post_gotFull cx J g0 str st0 err st' hJ.full h).toPost2
          | nest h1 h2 h3 h4 h5 h6 h7 =>
            rw [if_neg h2] at h
            exact ihe str g _ st0 err st' (ChainK.nest h1 h2 h3 h4 h5 h6 h7) h2 h hg
        | cons op rest =>
          have hwf0 : WFG (st0.fr g).gno (op :: rest) := by rw [hfr0]; exact hwf
          have hrest : WFG (st0.fr g).gno rest := hwf0.tail
          cases op with
          | chr c mn mx =>
            simp only [] at h
            refine Post2.congr ?_ (ihn rest _ g K _ mn st0 err st' hrest hch0 (Nat.le_add_left _ _) h hg)
            intro j
            rw [Sem.atom_iff rfl]
            simp only [Nat.add_sub_cancel, minOfOp, runOf]
          | any mn mx =>
            simp only [] at h
            refine Post2.congr ?_ (ihn rest _ g K _ mn st0 err st' hrest hch0 (Nat.le_add_left _ _) h hg)
            intro j
            rw [Sem.atom_iff rfl]
            simp only [Nat.add_sub_cancel, minOfOp, runOf]
          | cls bm mn mx =>
            simp only [] at h
            refine Post2.congr ?_ (ihn rest _ g K _ mn st0 err st' hrest hch0 (Nat.le_add_left _ _) h hg)
            intro j
            rw [Sem.atom_iff rfl]
            simp only [Nat.add_sub_cancel, minOfOp, runOf]
          | bol =>
            simp only [] at h
            by_cases hbol : bolOk cx.env str = true
            · rw [if_pos hbol] at h
              refine Post2.congr ?_ (ihd rest str g K st0 err st' hrest hch0 h hg)
              intro j; rw [Sem.bol_iff]; simp [hbol]
            · rw [if_neg hbol] at h
              obtain ⟨rfl, rfl⟩ := Prod.mk.inj h
              exact Post2.none st0 (fun j hj => hbol (Sem.bol_iff.mp hj).1)
          | eol =>
            simp only [] at h
            by_cases heol : eolOk cx.env str = true
            · rw [if_pos heol] at h
              refine Post2.congr ?_ (ihd rest str g K st0 err st' hrest hch0 h hg)
              intro j; rw [Sem.eol_iff]; simp [heol]
            · rw [if_neg heol] at h
              obtain ⟨rfl, rfl⟩ := Prod.mk.inj h
              exact Post2.none st0 (fun j hj => heol (Sem.eol_iff.mp hj).1)
          | group gno alts mn mx =>
            simp only [] at h
            cases hwf0 with
            | simple hs _ => simp [Simple] at hs
            | grp hlt halts hr =>
              exact ihg gno alts mn mx rest str g K st0 err st' hlt halts hr hch0 h hg
    · -- scanNext
      intro rest str g K cur mn st err st' hrest hch hcs h hg
      simp only [scanNext] at h
      by_cases h1 : cur = mn
      · rw [if_pos h1] at h
        refine Post2.congr ?_ (ihd rest str g K st err st' hrest hch h hg)
        intro j
        constructor
        · intro hj
          exact ⟨cur, by omega, Nat.le_refl _, by rw [Nat.sub_add_cancel hcs]; exact hj⟩
        · rintro ⟨k, hk1, hk2, hj⟩
          have : k = cur := by omega
          subst this
          rw [Nat.sub_add_cancel hcs] at hj
          exact hj
      · rw [if_neg h1] at h
        by_cases h2 : cur < mn
        · rw [if_pos h2] at h
          obtain ⟨rfl, rfl⟩ := Prod.mk.inj h
          exact Post2.none st (fun j ⟨k, hk1, hk2, _⟩ => by omega)
        · rw [if_neg h2] at h
          exact ihs rest str g K cur mn false st err st' hrest hch (by omega) hcs (fun hh => by cases hh) h hg
    · -- scanLoop
      intro rest str g K cur mn got st err st' hrest hch hmc hcs hgot h hg
      simp only [scanLoop] at h
      cases h1 : doOps cx f rest str (some g) st with
      | mk e1 st1 =>
        rw [h1] at h
        simp only [] at h
        have hfirst : ∀ j, Sem cx.env rest K str j ↔ Sem cx.env rest K (str - cur + cur) j := by
          intro j; rw [Nat.sub_add_cancel hcs]
        by_cases hsucc : (cx.strict && decide (e1 = 0)) = true
        · rw [if_pos hsucc] at h
          simp only [Bool.and_eq_true, decide_eq_true_eq] at hsucc
          obtain ⟨hstrict, he1⟩ := hsucc
          have p1 := ihd rest str g K st e1 st1 hrest hch h1 (by subst he1; exact ⟨by decide, by decide⟩)
          by_cases hcm : cur = mn
          · rw [if_pos hcm] at h
            obtain ⟨rfl, rfl⟩ := Prod.mk.inj h
            refine ⟨p1.same, Or.inl rfl, ?_, p1.mono, ?_, ?_, p1.keepJ⟩
            · subst he1
              simp only [true_iff]
              right
              obtain ⟨j, hj⟩ := (p1.ok.mp rfl).resolve_left (by simp)
              exact ⟨j, cur, by omega, Nat.le_refl _, (hfirst j).mp hj⟩
            · rintro hs j ⟨k, hk1, hk2, hj⟩
              have : k = cur := by omega
              subst this
              exact p1.upper hs j ((hfirst j).mpr hj)
            · rcases p1.attained with ha | ⟨j, hj, ha⟩
              · exact Or.inl ha
              · exact Or.inr ⟨j, ⟨cur, by omega, Nat.le_refl _, (hfirst j).mp hj⟩, ha⟩
          · rw [if_neg hcm] at h
            have hg1 : (st1.fr g).gno = (st.fr g).gno := (p1.same.feq g hch.lt).gno
            have p2 := ihs rest (str - 1) g K (cur - 1) mn true st1 err st' (by rw [hg1]; exact hrest)
              (hch.ext p1.same) (by omega) (by omega) (fun _ => hstrict) h hg
            have p1' : Post2 cx J (Sem cx.env rest K str) got st e1 st1 :=
              ⟨p1.same, p1.code, by rw [p1.ok]; subst he1; simp; exact fun _ => (p1.ok.mp rfl).resolve_left (by simp),
               p1.mono, p1.upper, p1.attained, p1.keepJ⟩
            have hgg : (got || decide (e1 = 0)) = true := by simp [he1]
            have p2' : Post2 cx J (fun j => ∃ k, mn ≤ k ∧ k ≤ cur - 1 ∧ Sem cx.env rest K (str - 1 - (cur - 1) + k) j)
                (got || decide (e1 = 0)) st1 err st' := by rw [hgg]; exact p2
            refine Post2.congr ?_ (Post2.seq p1' p2')
            intro j
            constructor
            · rintro (hj | ⟨k, hk1, hk2, hj⟩)
              · exact ⟨cur, hmc, Nat.le_refl _, (hfirst j).mp hj⟩
              · refine ⟨k, hk1, by omega, ?_⟩
                have : str - 1 - (cur - 1) + k = str - cur + k := by omega
                rw [← this]; exact hj
            · rintro ⟨k, hk1, hk2, hj⟩
              by_cases hkc : k = cur
              · subst hkc; exact Or.inl ((hfirst j).mpr hj)
              · refine Or.inr ⟨k, hk1, by omega, ?_⟩
                have : str - 1 - (cur - 1) + k = str - cur + k := by omega
                rw [this]; exact hj
        · rw [if_neg hsucc] at h
          by_cases hnm : e1 ≠ NOMATCH
          · rw [if_pos hnm] at h
            obtain ⟨rfl, rfl⟩ := Prod.mk.inj h
            have p1 := ihd rest str g K st e1 st1 hrest hch h1 hg
            have he0 : e1 = 0 := p1.code.resolve_right hnm
            have hns : cx.strict = false := by
              cases hcs' : cx.strict with
              | false => rfl
              | true => exact absurd (by simp [hcs', he0]) hsucc
            have hgf : got = false := by
              cases got with
              | false => rfl
              | true => rw [hgot rfl] at hns; cases hns
            subst hgf
            obtain ⟨j0, hj0⟩ := (p1.ok.mp he0).resolve_left (by simp)
            refine ⟨p1.same, Or.inl he0, ?_, p1.mono, (fun hs => by rw [hns] at hs; cases hs), ?_, p1.keepJ⟩
            · simp only [he0, true_iff]
              exact Or.inr ⟨j0, cur, hmc, Nat.le_refl _, (hfirst j0).mp hj0⟩
            · rcases p1.attained with ha | ⟨j, hj, ha⟩
              · exact Or.inl ha
              · exact Or.inr ⟨j, ⟨cur, hmc, Nat.le_refl _, (hfirst j).mp hj⟩, ha⟩
          · rw [if_neg hnm] at h
            have he1 : e1 = NOMATCH := Decidable.not_not.mp hnm
            have p1 := ihd rest str g K st e1 st1 hrest hch h1 (by rw [he1]; exact ⟨by decide, by decide⟩)
            have hno : ∀ j, ¬ Sem cx.env rest K str j := by
              intro j hj
              have := p1.ok.mpr (Or.inr ⟨j, hj⟩)
              rw [he1] at this
              exact absurd this (by decide)
            have p1' : Post2 cx J (Sem cx.env rest K str) got st (if got then 0 else NOMATCH) st1 :=
              ⟨p1.same, by cases got <;> simp, by cases got <;> simp [NOMATCH] <;> exact fun j => hno j,
               p1.mono, p1.upper, p1.attained, p1.keepJ⟩
            by_cases hcm : cur = mn
            · rw [if_pos hcm] at h
              obtain ⟨rfl, rfl⟩ := Prod.mk.inj h
              refine Post2.congr ?_ p1'
              intro j
              constructor
              · intro hj; exact absurd hj (hno j)
              · rintro ⟨k, hk1, hk2, hj⟩
                have : k = cur := by omega
                subst this
                exact absurd ((hfirst j).mpr hj) (hno j)
            · rw [if_neg hcm] at h
              have hg1 : (st1.fr g).gno = (st.fr g).gno := (p1.same.feq g hch.lt).gno
              have p2 := ihs rest (str - 1) g K (cur - 1) mn got st1 err st' (by rw [hg1]; exact hrest)
                (hch.ext p1.same) (by omega) (by omega) hgot h hg
              have hgg : (got || decide ((if got then 0 else NOMATCH) = 0)) = got := by cases got <;> simp [NOMATCH]
              have p2' : Post2 cx J (fun j => ∃ k, mn ≤ k ∧ k ≤ cur - 1 ∧ Sem cx.env rest K (str - 1 - (cur - 1) + k) j)
                  (got || decide ((if got then 0 else NOMATCH) = 0)) st1 err st' := by rw [hgg]; exact p2
              refine Post2.congr ?_ (Post2.seq p1' p2')
              intro j
              constructor
              · rintro (hj | ⟨k, hk1, hk2, hj⟩)
                · exact absurd hj (hno j)
                · refine ⟨k, hk1, by omega, ?_⟩
                  have : str - 1 - (cur - 1) + k = str - cur + k := by omega
                  rw [← this]; exact hj
              · rintro ⟨k, hk1, hk2, hj⟩
                by_cases hkc : k = cur
                · subst hkc; exact absurd ((hfirst j).mpr hj) (hno j)
                · refine Or.inr ⟨k, hk1, by omega, ?_⟩
                  have : str - 1 - (cur - 1) + k = str - cur + k := by omega
                  rw [this]; exact hj
    · -- match_group entered from an AND-list
      intro gno alts mn mx rest str g K st err st' hlt halts hrest hch h hg
      have hne : (st.fr g).gno ≠ gno := by omega
      have hgno0 : gno ≠ 0 := by omega
      rw [matchGroup_eq, newFrame_enter st gno alts mn mx rest str g hne] at h
      obtain ⟨fr0, hfr0⟩ : ∃ fr0 : Frame, fr0 = { gno := gno, alts := alts, min := mn, max := mx, next := rest, start := str, prev := st.stacks[gno]!, parent := some g } := ⟨_, rfl⟩
      rw [← hfr0] at h
      obtain ⟨st1, hst1⟩ : ∃ s : St, s = { st with frames := st.frames.push fr0, stacks := st.stacks.set! gno (some st.frames.size) } := ⟨_, rfl⟩
      rw [← hst1] at h
      have he1 : Ext st st1 := by rw [hst1]; exact ext_push st fr0 gno hgno0
      have hnew : st1.fr st.frames.size = fr0 := by rw [hst1]; exact fr_push_new st _ _
      have hfg : st1.fr g = st.fr g := by rw [hst1]; exact fr_push_lt st _ _ g hch.lt
      have hc0 : fr0.count = 0 := by rw [hfr0]
      have hpar0 : fr0.parent = some g := by rw [hfr0]
      have hk0 : kontOf fr0 K = .gend gno alts mn mx 0 str false rest K := by rw [hfr0]; rfl
      have hch1 : ChainK g0 st1 st.frames.size (.gend gno alts mn mx 0 str false rest K) := by
        have := ChainK.nest (g0 := g0) (st := st1) (g := st.frames.size) (p := g) (k := K)
          (by rw [hst1]; simp) (by rw [hnew, hfr0]; exact hgno0) (by rw [hnew, hfr0])
          (by rw [hnew, hfg, hfr0]; exact hlt) (by rw [hnew, hfr0]; exact halts)
          (by rw [hnew, hfg, hfr0]; exact hrest) (hch.ext he1)
        rw [hnew, hk0] at this
        exact this
      -- the alternatives
      obtain ⟨e1, got1, st2, hr, pa, pc⟩ : ∃ e1 got1 st2,
          (if mx > 0 then altLoop cx f alts str st.frames.size NOMATCH false st1 else (NOMATCH, false, st1)) = (e1, got1, st2) ∧
          (Good e1 → Post2 cx J (fun j => 0 < mx ∧ ∃ a, a ∈ alts ∧
              Sem cx.env a (.gend gno alts mn mx 0 str false rest K) str j) false st1 (if got1 then 0 else e1) st2) ∧
          (Good e1 → (e1 = 0 ∨ e1 = NOMATCH) ∧ (e1 = 0 → cx.strict = true → got1 = true)) := by
        by_cases hmx : mx > 0
        · rw [if_pos hmx]
          cases h1 : altLoop cx f alts str st.frames.size NOMATCH false st1 with
          | mk e1 r1 =>
            obtain ⟨got1, st2⟩ := r1
            have hw : ∀ a, a ∈ alts → WFG (st1.fr st.frames.size).gno a := by
              intro a ha; rw [hnew, hfr0]; exact halts a ha
            refine ⟨e1, got1, st2, rfl, ?_, ?_⟩
            · intro hge
              have := iha alts str st.frames.size _ NOMATCH false st1 e1 got1 st2 hw hch1 (fun hh => by cases hh)
                (Or.inl rfl) h1 hge
              exact Post2.congr (fun j => by simp [hmx]) this
            · intro hge
              exact iha2 alts str st.frames.size _ NOMATCH false st1 e1 got1 st2 hw hch1 (Or.inl rfl) h1 hge
        · rw [if_neg hmx]
          refine ⟨NOMATCH, false, st1, rfl, ?_, ?_⟩
          · intro _
            simp only [Bool.false_eq_true, if_false]
            exact Post2.none st1 (fun j hj => hmx hj.1)
          · intro _
            exact ⟨Or.inr rfl, fun h' => absurd h' (by decide)⟩
      rw [hr] at h
      simp only [groupTail] at h
      refine Post2.congr (fun j => Sem.group_iff.symm) ?_
      by_cases hskip : mn = 0 ∧ fr0.count = 0 ∧ (e1 = NOMATCH ∨ (e1 = 0 ∧ cx.strict = true))
      · rw [if_pos hskip] at h
        obtain ⟨st2', hst2'⟩ : ∃ s : St, s = st2.setFr st.frames.size { st2.fr st.frames.size with end_ := none } := ⟨_, rfl⟩
        rw [← hst2', hpar0] at h
        cases h2 : doOps cx f rest str (some g) st2' with
        | mk e2 st3 =>
          rw [h2] at h
          simp only [] at h
          obtain ⟨rfl, rfl⟩ := Prod.mk.inj h
          have hge2 : Good e2 := good_of_final hg
          have hge1 : Good e1 := by
            rcases hskip.2.2 with h' | h'
            · rw [h']; exact ⟨by decide, by decide⟩
            · rw [h'.1]; exact ⟨by decide, by decide⟩
          have pa' := pa hge1
          have pc' := pc hge1
          have k2 : Keeps st2 st2' := by rw [hst2']; exact keeps_setFr st2 _ _ rfl
          have e12 : Ext st st2' := he1.trans (pa'.same.trans k2.ext)
          have hg2 : (st2'.fr g).gno = (st.fr g).gno := (e12.feq g hch.lt).gno
          have p2 := ihd rest str g K st2' e2 st3 (by rw [hg2]; exact hrest) (hch.ext e12) h2 hge2
          have p2' := Post2.pre k2.ext k2.last (by rw [hst2']; exact hJ.setEnd st2 _ none) p2
          have pq := Post2.seq' pa' p2'
          rw [final_eq hge2]
          have hcode : (if got1 = true then 0 else e2) =
              (if e2 = NOMATCH ∧ (if got1 = true then 0 else e1) = 0 then 0 else e2) := by
            cases hgot : got1 with
            | true =>
              simp only [if_true, and_true]
              rcases p2.code with h0 | h1
              · rw [h0]; simp [NOMATCH]
              · rw [h1]; simp
            | false =>
              simp only [Bool.false_eq_true, if_false]
              rcases hskip.2.2 with h' | h'
              · rw [h']; simp [NOMATCH]
              · have := pc'.2 h'.1 h'.2
                rw [hgot] at this; cases this
          rw [hcode]
          refine Post2.pre he1 (by rw [hst1]) (by rw [hst1]; exact hJ.push st fr0 gno hgno0) ?_
          refine Post2.post ?_ (ext_pop st3 gno _ hgno0) rfl (hJ.pop st3 gno _ hgno0)
          refine Post2.congr ?_ pq
          intro j
          simp [hskip.1]
      · rw [if_neg hskip] at h
        simp only [] at h
        obtain ⟨rfl, rfl⟩ := Prod.mk.inj h
        have hge1 : Good e1 := good_of_final hg
        have pa' := pa hge1
        have pc' := pc hge1
        rw [final_eq hge1]
        refine Post2.pre he1 (by rw [hst1]) (by rw [hst1]; exact hJ.push st fr0 gno hgno0) ?_
        refine Post2.post ?_ (ext_pop st2 gno _ hgno0) rfl (hJ.pop st2 gno _ hgno0)
        by_cases hmn : mn = 0
        · -- the skip was not tried: a non-strict search that already succeeded
          have hne1 : ¬ (e1 = NOMATCH ∨ (e1 = 0 ∧ cx.strict = true)) := fun hh => hskip ⟨hmn, hc0, hh⟩
          have he10 : e1 = 0 := by
            rcases pc'.1 with h0 | h1
            · exact h0
            · exact absurd (Or.inl h1) hne1
          have hns : cx.strict = false := by
            cases hcs : cx.strict with
            | false => rfl
            | true => exact absurd (Or.inr ⟨he10, hcs⟩) hne1
          have hE : (if got1 = true then 0 else e1) = 0 := by cases got1 <;> simp [he10]
          rw [hE] at pa' ⊢
          exact Post2.widen pa' hns (fun j hj => Or.inl hj)
        · refine Post2.congr ?_ pa'
          intro j
          simp [hmn]
    · -- match_group re-entered from match_gend for one more repeat
      intro str g p K st err st' hlt hne hpar hlt2 halts hnext hchp hend hmx h hg
      rw [matchGroup_eq, newFrame_re st (st.fr g).alts (st.fr g).min (st.fr g).max (st.fr g).next str g] at h
      obtain ⟨fr0, hfr0⟩ : ∃ fr0 : Frame, fr0 = { gno := (st.fr g).gno, alts := (st.fr g).alts, min := (st.fr g).min, max := (st.fr g).max, next := (st.fr g).next, start := str, prev := st.stacks[(st.fr g).gno]!, parent := (st.fr g).parent, count := (st.fr g).count + 1, minok := (st.fr g).minok || (st.fr g).end_ == some (st.fr g).start } := ⟨_, rfl⟩
      rw [← hfr0] at h
      obtain ⟨st1, hst1⟩ : ∃ s : St, s = { st with frames := st.frames.push fr0, stacks := st.stacks.set! (st.fr g).gno (some st.frames.size) } := ⟨_, rfl⟩
      rw [← hst1] at h
      have he1 : Ext st st1 := by rw [hst1]; exact ext_push st fr0 _ hne
      have hnew : st1.fr st.frames.size = fr0 := by rw [hst1]; exact fr_push_new st _ _
      have hp : p < st.frames.size := hchp.lt
      have hfp : st1.fr p = st.fr p := by rw [hst1]; exact fr_push_lt st _ _ p hp
      have hk0 : kontOf fr0 K = .gend (st.fr g).gno (st.fr g).alts (st.fr g).min (st.fr g).max ((st.fr g).count + 1) str
          ((st.fr g).minok || (str == (st.fr g).start)) (st.fr g).next K := by
        rw [hfr0]; simp [kontOf, hend]
      have hch1 : ChainK g0 st1 st.frames.size (kontOf fr0 K) := by
        have := ChainK.nest (g0 := g0) (st := st1) (g := st.frames.size) (p := p) (k := K)
          (by rw [hst1]; simp) (by rw [hnew, hfr0]; exact hne) (by rw [hnew, hfr0]; exact hpar)
          (by rw [hnew, hfp, hfr0]; exact hlt2) (by rw [hnew, hfr0]; exact halts)
          (by rw [hnew, hfp, hfr0]; exact hnext) (hchp.ext he1)
        rw [hnew] at this
        exact this
      rw [if_pos hmx] at h
      cases h1 : altLoop cx f (st.fr g).alts str st.frames.size NOMATCH false st1 with
      | mk e1 r1 =>
        obtain ⟨got1, st2⟩ := r1
        rw [h1] at h
        have hcnt : fr0.count ≠ 0 := by rw [hfr0]; simp
        rw [groupTail_noskip cx f fr0 st.frames.size (st.fr g).gno (st.fr g).next str (st.fr g).min e1 got1 st2
          (Or.inr hcnt)] at h
        obtain ⟨rfl, rfl⟩ := Prod.mk.inj h
        have hge : Good e1 := good_of_final hg
        have hw : ∀ a, a ∈ (st.fr g).alts → WFG (st1.fr st.frames.size).gno a := by
          intro a ha; rw [hnew, hfr0]; exact halts a ha
        have pa := iha (st.fr g).alts str st.frames.size _ NOMATCH false st1 e1 got1 st2 hw hch1 (fun hh => by cases hh)
          (Or.inl rfl) h1 hge
        rw [hk0] at pa
        rw [final_eq hge]
        refine Post2.pre he1 (by rw [hst1]) (by rw [hst1]; exact hJ.push st fr0 _ hne) ?_
        exact Post2.post pa (ext_pop st2 _ _ hne) rfl (hJ.pop st2 _ _ hne)
    · -- altLoop
      intro alts str id K err0 got st err got' st' hwfa hch hgot herr0 h hg
      cases alts with
      | nil =>
        simp only [altLoop] at h
        obtain ⟨rfl, h2⟩ := Prod.mk.inj h
        obtain ⟨rfl, rfl⟩ := Prod.mk.inj h2
        have hno : ∀ j, ¬ ∃ a, a ∈ ([] : List (List COp)) ∧ Sem cx.env a K str j := fun j ⟨a, ha, _⟩ => by cases ha
        refine ⟨Ext.refl st, ?_, ?_, fun le hle => ⟨le, hle, Nat.le_refl _⟩, fun _ j hj => absurd hj (hno j), Or.inl rfl,
          fun h => h⟩
        · clear ihd ihn ihs ihg ihr iha iha2 ihe hJ
          cases got <;> rcases herr0 with h0 | ⟨h0, h1⟩ <;> simp_all [NOMATCH]
        · clear ihd ihn ihs ihg ihr iha iha2 ihe hJ
          cases got <;> rcases herr0 with h0 | ⟨h0, h1⟩ <;> simp_all [NOMATCH]
      | cons a more =>
        simp only [altLoop] at h
        have hmore : ∀ b, b ∈ more → WFG (st.fr id).gno b := fun b hb => hwfa b (List.mem_cons_of_mem _ hb)
        have hsplit : ∀ j, (Sem cx.env a K str j ∨ ∃ b, b ∈ more ∧ Sem cx.env b K str j) ↔
            ∃ b, b ∈ a :: more ∧ Sem cx.env b K str j := by
          intro j
          constructor
          · rintro (hj | ⟨b, hb, hj⟩)
            · exact ⟨a, List.mem_cons_self, hj⟩
            · exact ⟨b, List.mem_cons_of_mem _ hb, hj⟩
          · rintro ⟨b, hb, hj⟩
            rcases List.mem_cons.mp hb with rfl | hb
            · exact Or.inl hj
            · exact Or.inr ⟨b, hb, hj⟩
        cases h1 : doOps cx f a str (some id) st with
        | mk e1 st1 =>
          rw [h1] at h
          simp only [] at h
          by_cases hsucc : e1 = 0 ∧ cx.strict = true
          · rw [if_pos hsucc] at h
            obtain ⟨he1, hstrict⟩ := hsucc
            have p1 := ihd a str id K st e1 st1 (hwfa a List.mem_cons_self) hch h1
              (by subst he1; exact ⟨by decide, by decide⟩)
            obtain ⟨st1', hst1'⟩ : ∃ s : St, s = st1.setFr id { st1.fr id with end_ := none } := ⟨_, rfl⟩
            rw [← hst1'] at h
            have k1 : Keeps st1 st1' := by rw [hst1']; exact keeps_setFr st1 id _ rfl
            have hgid : (st1'.fr id).gno = (st.fr id).gno := by
              rw [k1.gno, (p1.same.feq id hch.lt).gno]
            have p2 := iha more str id K e1 true st1' err got' st' (by rw [hgid]; exact hmore)
              ((hch.ext p1.same).ext k1.ext) (fun _ => hstrict) (Or.inr ⟨he1, rfl⟩) h hg
            have p2' := Post2.pre k1.ext k1.last (by rw [hst1']; exact hJ.setEnd st1 id none) p2
            have p1' : Post2 cx J (Sem cx.env a K str) got st e1 st1 :=
              ⟨p1.same, p1.code, by rw [p1.ok]; subst he1; simp; exact fun _ => (p1.ok.mp rfl).resolve_left (by simp),
               p1.mono, p1.upper, p1.attained, p1.keepJ⟩
            have hgg : (got || decide (e1 = 0)) = true := by simp [he1]
            have p2'' : Post2 cx J (fun j => ∃ b, b ∈ more ∧ Sem cx.env b K str j) (got || decide (e1 = 0)) st1
                (if got' then 0 else err) st' := by rw [hgg]; exact p2'
            exact Post2.congr hsplit (Post2.seq p1' p2'')
          · rw [if_neg hsucc] at h
            by_cases hnm : e1 ≠ NOMATCH
            · rw [if_pos hnm] at h
              obtain ⟨rfl, h2⟩ := Prod.mk.inj h
              obtain ⟨rfl, rfl⟩ := Prod.mk.inj h2
              have p1 := ihd a str id K st e1 st1 (hwfa a List.mem_cons_self) hch h1 hg
              have he0 : e1 = 0 := p1.code.resolve_right hnm
              have hns : cx.strict = false := by
                cases hcs' : cx.strict with
                | false => rfl
                | true => exact absurd ⟨he0, hcs'⟩ hsucc
              have hgf : got = false := by
                cases got with
                | false => rfl
                | true => rw [hgot rfl] at hns; cases hns
              subst hgf
              obtain ⟨j0, hj0⟩ := (p1.ok.mp he0).resolve_left (by simp)
              simp only [Bool.false_eq_true, if_false]
              refine ⟨p1.same, Or.inl he0, ?_, p1.mono, (fun hs => by rw [hns] at hs; cases hs), ?_, p1.keepJ⟩
              · simp only [he0, true_iff]
                exact Or.inr ⟨j0, (hsplit j0).mp (Or.inl hj0)⟩
              · rcases p1.attained with ha | ⟨j, hj, ha⟩
                · exact Or.inl ha
                · exact Or.inr ⟨j, (hsplit j).mp (Or.inl hj), ha⟩
            · rw [if_neg hnm] at h
              have he1 : e1 = NOMATCH := Decidable.not_not.mp hnm
              have p1 := ihd a str id K st e1 st1 (hwfa a List.mem_cons_self) hch h1
                (by rw [he1]; exact ⟨by decide, by decide⟩)
              have hno : ∀ j, ¬ Sem cx.env a K str j := by
                intro j hj
                have := p1.ok.mpr (Or.inr ⟨j, hj⟩)
                rw [he1] at this
                exact absurd this (by decide)
              have p1' : Post2 cx J (Sem cx.env a K str) got st (if got then 0 else NOMATCH) st1 :=
                ⟨p1.same, by cases got <;> simp, by cases got <;> simp [NOMATCH] <;> exact fun j => hno j,
                 p1.mono, p1.upper, p1.attained, p1.keepJ⟩
              have hgid : (st1.fr id).gno = (st.fr id).gno := (p1.same.feq id hch.lt).gno
              have p2 := iha more str id K e1 got st1 err got' st' (by rw [hgid]; exact hmore)
                (hch.ext p1.same) hgot (Or.inl he1) h hg
              have hgg : (got || decide ((if got then 0 else NOMATCH) = 0)) = got := by cases got <;> simp [NOMATCH]
              have p2'' : Post2 cx J (fun j => ∃ b, b ∈ more ∧ Sem cx.env b K str j)
                  (got || decide ((if got then 0 else NOMATCH) = 0)) st1 (if got' then 0 else err) st' := by
                rw [hgg]; exact p2
              exact Post2.congr hsplit (Post2.seq p1' p2'')
    · -- what altLoop returns
      intro alts str id K err0 got st err got' st' hwfa hch herr0 h hg
      cases alts with
      | nil =>
        simp only [altLoop] at h
        obtain ⟨rfl, h2⟩ := Prod.mk.inj h
        obtain ⟨rfl, rfl⟩ := Prod.mk.inj h2
        rcases herr0 with h0 | ⟨h0, h1⟩
        · exact ⟨Or.inr h0, fun h' => by rw [h0] at h'; exact absurd h' (by decide)⟩
        · exact ⟨Or.inl h0, fun _ _ => h1⟩
      | cons a more =>
        simp only [altLoop] at h
        have hmore : ∀ b, b ∈ more → WFG (st.fr id).gno b := fun b hb => hwfa b (List.mem_cons_of_mem _ hb)
        cases h1 : doOps cx f a str (some id) st with
        | mk e1 st1 =>
          rw [h1] at h
          simp only [] at h
          by_cases hsucc : e1 = 0 ∧ cx.strict = true
          · rw [if_pos hsucc] at h
            have p1 := ihd a str id K st e1 st1 (hwfa a List.mem_cons_self) hch h1
              (by rw [hsucc.1]; exact ⟨by decide, by decide⟩)
            obtain ⟨st1', hst1'⟩ : ∃ s : St, s = st1.setFr id { st1.fr id with end_ := none } := ⟨_, rfl⟩
            rw [← hst1'] at h
            have k1 : Keeps st1 st1' := by rw [hst1']; exact keeps_setFr st1 id _ rfl
            have hgid : (st1'.fr id).gno = (st.fr id).gno := by
              rw [k1.gno, (p1.same.feq id hch.lt).gno]
            exact iha2 more str id K e1 true st1' err got' st' (by rw [hgid]; exact hmore)
              ((hch.ext p1.same).ext k1.ext) (Or.inr ⟨hsucc.1, rfl⟩) h hg
          · rw [if_neg hsucc] at h
            by_cases hnm : e1 ≠ NOMATCH
            · rw [if_pos hnm] at h
              obtain ⟨rfl, h2⟩ := Prod.mk.inj h
              obtain ⟨rfl, rfl⟩ := Prod.mk.inj h2
              have p1 := ihd a str id K st e1 st1 (hwfa a List.mem_cons_self) hch h1 hg
              have he0 : e1 = 0 := p1.code.resolve_right hnm
              exact ⟨Or.inl he0, fun _ hs => absurd ⟨he0, hs⟩ hsucc⟩
            · rw [if_neg hnm] at h
              have he1 : e1 = NOMATCH := Decidable.not_not.mp hnm
              have p1 := ihd a str id K st e1 st1 (hwfa a List.mem_cons_self) hch h1
                (by rw [he1]; exact ⟨by decide, by decide⟩)
              have hgid : (st1.fr id).gno = (st.fr id).gno := (p1.same.feq id hch.lt).gno
              exact iha2 more str id K e1 got st1 err got' st' (by rw [hgid]; exact hmore)
                (hch.ext p1.same) (Or.inl he1) h hg
    · -- matchGend
      intro str g K st err st' hch hne h hg
      cases hch with
      | root h1 h2 => exact absurd h2 hne
      | @nest _ p k h1 h2 h3 h4 h5 h6 h7 =>
        rw [matchGend_eq] at h
        simp only [kontOf]
        by_cases hpr : (str == (st.fr g).start && decide ((st.fr g).count > 0) &&
            decide ((st.fr g).count ≥ (st.fr g).min)) = true
        · rw [if_pos hpr] at h
          obtain ⟨rfl, rfl⟩ := Prod.mk.inj h
          refine Post2.none st ?_
          intro j hj
          apply (Sem.gend_iff.mp hj).1
          simp only [Bool.and_eq_true, beq_iff_eq, decide_eq_true_eq] at hpr
          exact ⟨hpr.1.1, hpr.1.2, hpr.2⟩
        · rw [if_neg hpr] at h
          have hnp : ¬ (str = (st.fr g).start ∧ 0 < (st.fr g).count ∧ (st.fr g).min ≤ (st.fr g).count) := by
            intro hc
            apply hpr
            simp only [Bool.and_eq_true, beq_iff_eq, decide_eq_true_eq]
            exact ⟨⟨hc.1, hc.2.1⟩, hc.2.2⟩
          obtain ⟨st1, hst1⟩ : ∃ s : St, s = st.setFr g { st.fr g with end_ := some str } := ⟨_, rfl⟩
          rw [← hst1] at h
          have k1 : Keeps st st1 := by rw [hst1]; exact keeps_setFr st g _ rfl
          have fe := k1.feq g
          have hend1 : (st1.fr g).end_ = some str := by rw [hst1, fr_setFr]; simp [h1]
          have hJ1 : J st → J st1 := by rw [hst1]; exact hJ.setEnd st g (some str)
          have hp : p < st.frames.size := h7.lt
          have fp := k1.feq p
          -- the two parts of the target
          let Pmore : Nat → Prop := fun j => ∃ a, a ∈ (st.fr g).alts ∧
            Sem cx.env a (.gend (st.fr g).gno (st.fr g).alts (st.fr g).min (st.fr g).max ((st.fr g).count + 1) str
              ((st.fr g).minok || (str == (st.fr g).start)) (st.fr g).next k) str j
          let Pexit : Nat → Prop := fun j => Sem cx.env (st.fr g).next k str j
          -- the continuation with the parent's AND-list
          have hexit : ∀ (s2 : St) (e2 : Nat) (s3 : St), Ext st1 s2 → (J st1 → J s2) → s2.lastEnd = s2.lastEnd →
              doOps cx f (st.fr g).next str (st.fr g).parent s2 = (e2, s3) → Good e2 →
              Post2 cx J Pexit false s2 e2 s3 := by
            intro s2 e2 s3 hes _ _ hd hge2
            rw [h3] at hd
            have e02 : Ext st s2 := k1.ext.trans hes
            exact ihd (st.fr g).next str p k s2 e2 s3 (by rw [(e02.feq p hp).gno]; exact h6) (h7.ext e02) hd hge2
          by_cases hmore : gendMore (st.fr g) str = true
          · rw [if_pos hmore] at h
            obtain ⟨hm1, hm2⟩ := (gendMore_iff _ _).mp hmore
            cases hg1 : matchGroup cx f (st.fr g).gno (st.fr g).alts (st.fr g).min (st.fr g).max (st.fr g).next str
                (some g) st1 with
            | mk e1 st2 =>
              rw [hg1, gendTail_eq, hmore] at h
              simp only [Bool.true_and] at h
              have hg1' : matchGroup cx f (st1.fr g).gno (st1.fr g).alts (st1.fr g).min (st1.fr g).max (st1.fr g).next str
                  (some g) st1 = (e1, st2) := by rw [fe.gno, fe.alts, fe.min, fe.max, fe.next]; exact hg1
              by_cases hge1 : Good e1
              · have pr := ihr str g p k st1 e1 st2 (by rw [k1.size]; exact h1) (by rw [fe.gno]; exact h2)
                  (by rw [fe.parent]; exact h3) (by rw [fp.gno, fe.gno]; exact h4) (by rw [fe.alts, fe.gno]; exact h5)
                  (by rw [fp.gno, fe.next]; exact h6) (h7.ext k1.ext) hend1 (by rw [fe.max]; omega) hg1' hge1
                simp only [fe.gno, fe.alts, fe.min, fe.max, fe.count, fe.minok, fe.start, fe.next] at pr
                have pr' : Post2 cx J Pmore false st1 e1 st2 := pr
                have hmoreSem : ∀ j, Pmore j → Sem cx.env [] (.gend (st.fr g).gno (st.fr g).alts (st.fr g).min (st.fr g).max
                    (st.fr g).count (st.fr g).start (st.fr g).minok (st.fr g).next k) str j := by
                  rintro j ⟨a, ha, hj⟩
                  exact Sem.more hnp hm1 hm2 ha hj
                have hexitSem : ∀ j, gendNoExit (st.fr g) str ≠ true → Pexit j →
                    Sem cx.env [] (.gend (st.fr g).gno (st.fr g).alts (st.fr g).min (st.fr g).max
                      (st.fr g).count (st.fr g).start (st.fr g).minok (st.fr g).next k) str j := by
                  intro j hB hj
                  have : ¬¬ (str = (st.fr g).start ∨ (st.fr g).minok = true ∨ (st.fr g).min ≤ (st.fr g).count + 1) :=
                    fun hn => hB ((gendNoExit_iff (st.fr g) str).mpr hn)
                  exact Sem.exit hnp (Decidable.not_not.mp this) hj
                have hsplit : ∀ j, Sem cx.env [] (.gend (st.fr g).gno (st.fr g).alts (st.fr g).min (st.fr g).max
                      (st.fr g).count (st.fr g).start (st.fr g).minok (st.fr g).next k) str j →
                    Pmore j ∨ (gendNoExit (st.fr g) str ≠ true ∧ Pexit j) := by
                  intro j hj
                  rcases (Sem.gend_iff.mp hj).2 with ⟨_, _, a, ha, hs⟩ | ⟨hc, hs⟩
                  · exact Or.inl ⟨a, ha, hs⟩
                  · exact Or.inr ⟨fun hB => ((gendNoExit_iff _ _).mp hB) hc, hs⟩
                by_cases hA : (!(decide (e1 = 0) && cx.strict) && decide (e1 ≠ NOMATCH)) = true
                · -- non-strict success of the repeat: returned at once
                  rw [if_pos hA] at h
                  obtain ⟨rfl, rfl⟩ := Prod.mk.inj h
                  simp only [Bool.and_eq_true, Bool.not_eq_true', Bool.and_eq_false_iff, decide_eq_false_iff_not,
                    decide_eq_true_eq] at hA
                  have he10 : e1 = 0 := pr'.code.resolve_right hA.2
                  have hns : cx.strict = false := by
                    rcases hA.1 with h' | h'
                    · exact absurd he10 h'
                    · exact h'
                  subst he10
                  exact Post2.pre k1.ext k1.last hJ1 (Post2.widen pr' hns hmoreSem)
                · rw [if_neg hA] at h
                  have hst : e1 = 0 → cx.strict = true := by
                    intro he
                    cases hcs : cx.strict with
                    | true => rfl
                    | false => exact absurd (by simp [he, hcs, NOMATCH]) hA
                  by_cases hB : gendNoExit (st.fr g) str = true
                  · rw [if_pos hB] at h
                    obtain ⟨rfl, rfl⟩ := Prod.mk.inj h
                    refine Post2.pre k1.ext k1.last hJ1 (Post2.congr ?_ pr')
                    intro j
                    constructor
                    · exact hmoreSem j
                    · intro hj
                      rcases hsplit j hj with h' | ⟨h', _⟩
                      · exact h'
                      · exact absurd hB h'
                  · rw [if_neg hB] at h
                    cases hD : doOps cx f (st.fr g).next str (st.fr g).parent st2 with
                    | mk e2 st3 =>
                      rw [hD] at h
                      simp only [] at h
                      obtain ⟨rfl, rfl⟩ := Prod.mk.inj h
                      have hge2 : Good e2 := by
                        constructor
                        · intro h98; rw [h98] at hg; simp [OUT_OF_BUDGET, NOMATCH] at hg; exact hg.1 (by simp [OUT_OF_BUDGET])
                        · intro h99; rw [h99] at hg; simp [OUT_OF_FUEL, NOMATCH] at hg; exact hg.2 (by simp [OUT_OF_FUEL])
                      have p2 := hexit st2 e2 st3 pr'.same pr'.keepJ rfl hD hge2
                      have pq := Post2.seq' pr' p2
                      have hcode : (if e2 = NOMATCH ∧ (decide (e1 = 0) && cx.strict) = true then 0 else e2) =
                          (if e2 = NOMATCH ∧ e1 = 0 then 0 else e2) := by
                        by_cases he : e1 = 0
                        · simp [he, hst he]
                        · simp [he]
                      rw [hcode]
                      refine Post2.pre k1.ext k1.last hJ1 (Post2.congr ?_ pq)
                      intro j
                      constructor
                      · rintro (h' | h')
                        · exact hmoreSem j h'
                        · exact hexitSem j hB h'
                      · intro hj
                        rcases hsplit j hj with h' | ⟨_, h'⟩
                        · exact Or.inl h'
                        · exact Or.inr h'
              · -- the repeat aborted: the abort is what `match_gend` returns
                exfalso
                have hne0 : e1 ≠ 0 := by rintro rfl; exact hge1 ⟨by decide, by decide⟩
                have hne1 : e1 ≠ NOMATCH := by rintro rfl; exact hge1 ⟨by decide, by decide⟩
                simp [hne0, hne1] at h
                exact hge1 (h.1 ▸ hg)
          · rw [if_neg hmore] at h
            have hmf : gendMore (st.fr g) str = false := by
              cases hm : gendMore (st.fr g) str with
              | false => rfl
              | true => exact absurd hm hmore
            rw [gendTail_eq, hmf] at h
            simp only [Bool.false_and, Bool.false_eq_true, if_false, and_false] at h
            have hnomore : ∀ j, Sem cx.env [] (.gend (st.fr g).gno (st.fr g).alts (st.fr g).min (st.fr g).max
                  (st.fr g).count (st.fr g).start (st.fr g).minok (st.fr g).next k) str j →
                gendNoExit (st.fr g) str ≠ true ∧ Pexit j := by
              intro j hj
              rcases (Sem.gend_iff.mp hj).2 with ⟨hm1, hm2, _⟩ | ⟨hc, hs⟩
              · exact absurd ((gendMore_iff _ _).mpr ⟨hm1, hm2⟩) hmore
              · exact ⟨fun hB => ((gendNoExit_iff _ _).mp hB) hc, hs⟩
            by_cases hB : gendNoExit (st.fr g) str = true
            · rw [if_pos hB] at h
              obtain ⟨rfl, rfl⟩ := Prod.mk.inj h
              refine Post2.pre k1.ext k1.last hJ1 (Post2.none st1 ?_)
              intro j hj
              exact (hnomore j hj).1 hB
            · rw [if_neg hB] at h
              cases hD : doOps cx f (st.fr g).next str (st.fr g).parent st1 with
              | mk e2 st3 =>
                rw [hD] at h
                simp only [] at h
                obtain ⟨rfl, rfl⟩ := Prod.mk.inj h
                have p2 := hexit st1 e2 st3 (Ext.refl st1) (fun h' => h') rfl hD hg
                refine Post2.pre k1.ext k1.last hJ1 (Post2.congr ?_ p2)
                intro j
                constructor
                · intro hj
                  have : ¬¬ (str = (st.fr g).start ∨ (st.fr g).minok = true ∨ (st.fr g).min ≤ (st.fr g).count + 1) :=
                    fun hn => hB ((gendNoExit_iff (st.fr g) str).mpr hn)
                  exact Sem.exit hnp (Decidable.not_not.mp this) hj
                · intro hj; exact (hnomore j hj).2

def AltsSem (e : Env) (alts : List (List COp)) (str j : Nat) : Prop := ∃ a, a ∈ alts ∧ Sem e a .root str j

structure RootPostR (cx : Cx) (P : Nat → Prop) (str : Nat) (st : St) (err : Nat) (st' : St) : Prop where
  code : err = 0 ∨ err = NOMATCH
  ok : err = 0 ↔ ∃ j, P j
  upper : cx.strict = true → ∀ j, P j → ∃ le', st'.lastEnd = some le' ∧ j ≤ le'
  attained : st'.lastEnd = st.lastEnd ∨ ∃ j, P j ∧ st'.lastEnd = some j
  ssz : st'.stacks.size = st.stacks.size
  psz : st'.pm.size = st.pm.size
  pm0 : 1 ≤ cx.nmatch → 0 < st.stacks.size → 0 < st.pm.size → st.lastEnd = none →
    ∀ le, st'.lastEnd = some le → st'.pm[0]! = ((str : Int), (le : Int))

theorem root_specR (cx : Cx) (f : Nat) (alts : List (List COp)) (str : Nat) (st : St)
    (err : Nat) (st' : St) (hwf : ∀ a, a ∈ alts → WFG 0 a)
    (h : matchGroup cx f 0 alts 1 1 [] str none st = (err, st')) (hg : Good err) :
    RootPostR cx (AltsSem cx.env alts str) str st err st' := by
  cases f with
  | zero =>
    simp only [matchGroup] at h
    obtain ⟨rfl, _⟩ := Prod.mk.inj h
    exact absurd rfl hg.2
  | succ f =>
    simp only [matchGroup] at h
    obtain ⟨fr0, hfr0⟩ : ∃ fr0 : Frame, fr0 = { gno := 0, alts := alts, min := 1, max := 1, next := [], start := str, prev := st.stacks[0]!, parent := none } := ⟨_, rfl⟩
    rw [← hfr0] at h
    obtain ⟨st1, hst1⟩ : ∃ s : St, s = { st with frames := st.frames.push fr0, stacks := st.stacks.set! 0 (some st.frames.size) } := ⟨_, rfl⟩
    rw [← hst1] at h
    have hnew : st1.fr st.frames.size = fr0 := by rw [hst1]; exact fr_push_new st _ _
    rw [hfr0] at hnew
    have hlast1 : st1.lastEnd = st.lastEnd := by rw [hst1]
    have hch1 : ChainK st.frames.size st1 st.frames.size .root :=
      ChainK.root (by rw [hst1]; simp) (by rw [hnew])
    obtain ⟨J, hJdef⟩ : ∃ J : St → Prop, J = fun s => (1 ≤ cx.nmatch ∧ 0 < st.stacks.size ∧ 0 < st.pm.size) →
        RootInv st.frames.size str st.stacks.size st.pm.size s := ⟨_, rfl⟩
    have hJ : JOk cx st.frames.size J := by
      rw [hJdef]; exact jOk_rootInv cx _ _ _ _ _ (fun hc => hc)
    cases h1 : altLoop cx f alts str st.frames.size NOMATCH false st1 with
    | mk e1 r1 =>
      obtain ⟨got1, st2⟩ := r1
      rw [h1] at h
      simp only [Nat.lt_irrefl, Nat.zero_lt_one, if_true, Nat.one_ne_zero, false_and, if_false] at h
      obtain ⟨rfl, rfl⟩ := Prod.mk.inj h
      have hge : Good e1 := good_of_final hg
      have p := (coreR cx J st.frames.size hJ f).2.2.2.2.2.1 alts str st.frames.size .root NOMATCH false st1 e1 got1 st2
        (by intro a ha; rw [hnew]; exact hwf a ha) hch1 (fun hh => by cases hh) (Or.inl rfl) h1 hge
      rw [final_eq hge]
      have hP : ∀ j, (∃ a, a ∈ alts ∧ Sem cx.env a .root str j) ↔ AltsSem cx.env alts str j := by
        intro j; simp only [AltsSem]
      refine ⟨p.code, ?_, ?_, ?_, ?_, ?_, ?_⟩
      · rw [p.ok]; simp only [Bool.false_eq_true, false_or]
        constructor
        · rintro ⟨j, hj⟩; exact ⟨j, (hP j).mp hj⟩
        · rintro ⟨j, hj⟩; exact ⟨j, (hP j).mpr hj⟩
      · intro hs j hj; exact p.upper hs j ((hP j).mpr hj)
      · rcases p.attained with ha | ⟨j, hj, ha⟩
        · exact Or.inl (ha.trans hlast1)
        · exact Or.inr ⟨j, (hP j).mp hj, ha⟩
      · show (st2.stacks.set! 0 _).size = _
        simp only [Array.set!_eq_setIfInBounds, Array.size_setIfInBounds]
        rw [p.same.ssz, hst1]; simp
      · show st2.pm.size = _
        rw [p.same.psize, hst1]
      · intro hc1 hc2 hc3 hl le hle
        have hJ1 : J st1 := by
          rw [hJdef]; intro _
          refine ⟨by rw [hst1]; simp, by rw [hst1]; simp, by rw [hst1], by rw [hst1]; simp [hc2],
            by rw [hnew], by rw [hnew], by rw [hnew], ?_⟩
          intro le' hle'
          rw [hlast1, hl] at hle'; cases hle'
        have hJ2 := p.keepJ hJ1
        rw [hJdef] at hJ2
        exact (hJ2 ⟨hc1, hc2, hc3⟩).pm0 le hle

theorem startLoop_specR (cx : Cx) (alts : List (List COp)) (hwf : ∀ a, a ∈ alts → WFG 0 a) (fuel : Nat) :
    ∀ (k str : Nat) (st : St) (rc pos : Nat) (st' : St),
    st.lastEnd = none → str ≤ cx.env.s.size → startLoop cx alts fuel k str st = (rc, pos, st') → Good rc →
    (rc = 0 ∧ str ≤ pos ∧ pos ≤ cx.env.s.size ∧ (∃ j, AltsSem cx.env alts pos j) ∧
        (∀ i, str ≤ i → i < pos → ∀ j, ¬ AltsSem cx.env alts i j) ∧
        (cx.strict = true → ∃ le, st'.lastEnd = some le ∧ AltsSem cx.env alts pos le ∧
            ∀ j, AltsSem cx.env alts pos j → j ≤ le) ∧
        st'.pm.size = st.pm.size ∧
        (1 ≤ cx.nmatch → 0 < st.stacks.size → 0 < st.pm.size →
            ∀ le, st'.lastEnd = some le → st'.pm[0]! = ((pos : Int), (le : Int)))) ∨
    (rc = NOMATCH ∧ ∀ i, str ≤ i → i < str + k → i ≤ cx.env.s.size → ∀ j, ¬ AltsSem cx.env alts i j) := by
  intro k
  induction k with
  | zero =>
    intro str st rc pos st' _ _ h _
    simp only [startLoop] at h
    obtain ⟨rfl, _⟩ := Prod.mk.inj h
    exact Or.inr ⟨rfl, fun i h1 h2 => by omega⟩
  | succ k ih =>
    intro str st rc pos st' hl hstr h hg
    simp only [startLoop] at h
    cases h1 : matchGroup cx fuel 0 alts 1 1 [] str none st with
    | mk e1 st1 =>
      rw [h1] at h
      simp only [] at h
      by_cases hc : e1 = NOMATCH ∧ str < cx.env.s.size
      · rw [if_pos hc] at h
        have p := root_specR cx fuel alts str st e1 st1 hwf h1 (by rw [hc.1]; exact ⟨by decide, by decide⟩)
        have hno : ∀ j, ¬ AltsSem cx.env alts str j := by
          intro j hj
          have := p.ok.mpr ⟨j, hj⟩
          rw [hc.1] at this
          exact absurd this (by decide)
        have hl1 : st1.lastEnd = none := by
          rcases p.attained with ha | ⟨j, hj, _⟩
          · exact ha.trans hl
          · exact absurd hj (hno j)
        rcases ih (str + 1) st1 rc pos st' hl1 (by omega) h hg with
          ⟨r0, hp, hpb, hf, hleft, hlong, hps, hpm⟩ | ⟨r1, hnone⟩
        · refine Or.inl ⟨r0, by omega, hpb, hf, ?_, hlong, hps.trans p.psz, ?_⟩
          · intro i hi1 hi2 j
            by_cases his : i = str
            · subst his; exact hno j
            · exact hleft i (by omega) hi2 j
          · intro c1 c2 c3
            exact hpm c1 (by rw [p.ssz]; exact c2) (by rw [p.psz]; exact c3)
        · refine Or.inr ⟨r1, ?_⟩
          intro i hi1 hi2 hi3 j
          by_cases his : i = str
          · subst his; exact hno j
          · exact hnone i (by omega) (by omega) hi3 j
      · rw [if_neg hc] at h
        obtain ⟨rfl, h2⟩ := Prod.mk.inj h
        obtain ⟨rfl, rfl⟩ := Prod.mk.inj h2
        have p := root_specR cx fuel alts str st e1 st1 hwf h1 hg
        rcases p.code with r0 | r1
        · refine Or.inl ⟨r0, Nat.le_refl _, hstr, p.ok.mp r0, fun i h1 h2 => by omega, ?_, p.psz,
            fun c1 c2 c3 => p.pm0 c1 c2 c3 hl⟩
          intro hs
          obtain ⟨j0, hj0⟩ := p.ok.mp r0
          obtain ⟨le, hle, _⟩ := p.upper hs j0 hj0
          rcases p.attained with ha | ⟨j, hj, ha⟩
          · rw [ha, hl] at hle; cases hle
          · refine ⟨j, ha, hj, ?_⟩
            intro j' hj'
            obtain ⟨le', hle', hle''⟩ := p.upper hs j' hj'
            rw [ha] at hle'
            cases hle'
            exact hle''
        · refine Or.inr ⟨r1, ?_⟩
          intro i hi1 hi2 hi3 j hj
          have hsz : ¬ str < cx.env.s.size := fun hh => hc ⟨r1, hh⟩
          have : i = str := by omega
          subst this
          have := p.ok.mpr ⟨j, hj⟩
          rw [r1] at this
          exact absurd this (by decide)

/-- leftmost-longest with respect to `Sem` -/
structure SemLL (e : Env) (alts : List (List COp)) (strict : Bool) (pos : Nat) (last : Option Nat) : Prop where
  inb : pos ≤ e.s.size
  found : ∃ j, AltsSem e alts pos j
  leftmost : ∀ i, i < pos → ∀ j, ¬ AltsSem e alts i j
  longest : strict = true → ∃ le, last = some le ∧ AltsSem e alts pos le ∧ ∀ j, AltsSem e alts pos j → j ≤ le

theorem cExec_specR (alts : List (List COp)) (hwf : ∀ a, a ∈ alts → WFG 0 a) (nsub : Nat) (nosub : Bool) (e : Env)
    (nmatch budget fuel : Nat) (hg : Good (cExec alts nsub nosub e nmatch budget fuel).rc) :
    let res := cExec alts nsub nosub e nmatch budget fuel
    (res.rc = 0 ∧ SemLL e alts (!nosub && decide (nmatch > 0)) res.start res.last ∧
      ((!nosub && decide (nmatch > 0)) = true → ∀ le, res.last = some le →
        res.pm.head? = some ((res.start : Int), (le : Int)))) ∨
    (res.rc = NOMATCH ∧ ∀ i, i ≤ e.s.size → ∀ j, ¬ AltsSem e alts i j) := by
  intro res
  obtain ⟨cx, hcx⟩ : ∃ cx : Cx, cx = mkCx e nsub nosub nmatch := ⟨_, rfl⟩
  have hce : cx.env = e := by rw [hcx]; rfl
  have hcs : cx.strict = (!nosub && decide (nmatch > 0)) := by
    rw [hcx]; simp only [mkCx]
    cases nosub <;> simp
    split <;> simp <;> omega
  obtain ⟨st0, hst0⟩ : ∃ st0 : St, st0 = initSt nsub nosub nmatch budget := ⟨_, rfl⟩
  have hl0 : st0.lastEnd = none := by rw [hst0]; rfl
  cases hrun : startLoop cx alts fuel (e.s.size + 1) 0 st0 with
  | mk rc r2 =>
    obtain ⟨pos, st'⟩ := r2
    have hres : res = { rc := rc, pm := st'.pm.toList, start := pos, last := st'.lastEnd, stepsLeft := st'.budget } := by
      show cExec alts nsub nosub e nmatch budget fuel = _
      unfold cExec
      rw [← hcx, ← hst0, hrun]
    have hg' : Good rc := by
      have : res.rc = rc := by rw [hres]
      rw [← this]; exact hg
    rcases startLoop_specR cx alts hwf fuel (e.s.size + 1) 0 st0 rc pos st' hl0 (Nat.zero_le _) hrun hg' with
      ⟨r0, _, hpb, hf, hleft, hlong, hps, hpm⟩ | ⟨r1, hnone⟩
    · left
      rw [hres]
      refine ⟨r0, ⟨?_, ?_, ?_, ?_⟩, ?_⟩
      · rw [← hce]; exact hpb
      · rw [← hce]; exact hf
      · intro i hi j; rw [← hce]; exact hleft i (Nat.zero_le _) hi j
      · intro hs
        rw [← hcs] at hs
        obtain ⟨le, h1, h2, h3⟩ := hlong hs
        rw [hce] at h2 h3
        exact ⟨le, h1, h2, h3⟩
      · intro hs le hle
        simp only [Bool.and_eq_true, Bool.not_eq_true', decide_eq_true_eq] at hs
        obtain ⟨hns, hnm⟩ := hs
        have hc1 : 1 ≤ cx.nmatch := by
          rw [hcx]; simp only [mkCx, hns]
          simp
          split <;> omega
        have hst : 0 < st0.stacks.size := by rw [hst0]; simp [initSt]
        have hpz : 0 < st0.pm.size := by rw [hst0]; simp [initSt, hns]; exact hnm
        have h0 := hpm hc1 hst hpz le hle
        have hsz' : 0 < st'.pm.size := by rw [hps]; exact hpz
        show st'.pm.toList.head? = _
        rw [← h0]
        cases hpl : st'.pm.toList with
        | nil =>
          have : st'.pm.size = 0 := by simpa using congrArg List.length hpl
          omega
        | cons x xs =>
          simp only [List.head?_cons, Option.some.injEq]
          have : st'.pm[0]! = st'.pm.toList[0]! := by simp [Array.getElem!_eq_getD, Array.getD_eq_getD_getElem?]
          rw [this, hpl]; rfl
    · right
      rw [hres]
      refine ⟨r1, ?_⟩
      intro i hi j
      rw [← hce]
      exact hnone i (Nat.zero_le _) (by omega) (by rw [hce]; exact hi) j


end Usual.C04.CM
