import UsualProofs.C04.CMatchGrp
/-! Helper lemmas for C04: the matcher model on ARBITRARY compiled op lists — repeated groups
included.  `Sem` is the declarative reading of the search space of `do_match`: an AND-list in
front of a continuation (`Kont`: the open group iterations up to group #0) with the rules of
`match_group` / `match_gend` (one more repeat, the `minok` rule, zero-length pruning, the
`mincnt = 0` skip).  `coreR` proves that the model explores exactly `Sem`. -/
set_option linter.unusedSimpArgs false
set_option linter.unusedVariables false
namespace Usual.C04.CM
open Usual.C04

/-- continuation of an AND-list: the open iterations of the enclosing groups.  `gend … c s minok next k`:
we are in iteration number `c` (0-based) of the group, it started at `s`, `minok` as in `struct
GMatch`; after the group, `next` is matched under `k`. -/
inductive Kont where
  | root
  | gend (gno : Nat) (alts : List (List COp)) (mn mx c s : Nat) (minok : Bool) (next : List COp) (k : Kont)

def isAtomOp : COp → Bool
  | .chr _ _ _ => true
  | .any _ _ => true
  | .cls _ _ _ => true
  | _ => false

def minOfOp : COp → Nat
  | .chr _ mn _ => mn
  | .any mn _ => mn
  | .cls _ mn _ => mn
  | _ => 0

/-- greedy run length of a simple atom at `p` -/
def runOf (e : Env) : COp → Nat → Nat
  | .chr c _ mx, p => countWhile e (fun b => chrOk e c b) (e.s.size + 1) p (simpleMax mx) 0
  | .any _ mx, p => countWhile e (fun b => anyOk e b) (e.s.size + 1) p (simpleMax mx) 0
  | .cls bm _ mx, p => countWhile e (fun b => clsOk bm b) (e.s.size + 1) p (simpleMax mx) 0
  | _, _ => 0

/-- **declarative reading of the matcher's search**: `Sem e ops k p j` — matching the AND-list `ops`
from `p` and then the continuation `k` can end the whole match at `j` -/
inductive Sem (e : Env) : List COp → Kont → Nat → Nat → Prop
  | root (p : Nat) : Sem e [] .root p p
  | atom {op : COp} {rest : List COp} {k : Kont} {p n j : Nat} : isAtomOp op = true → minOfOp op ≤ n →
      n ≤ runOf e op p → Sem e rest k (p + n) j → Sem e (op :: rest) k p j
  | bol {rest : List COp} {k : Kont} {p j : Nat} : bolOk e p = true → Sem e rest k p j → Sem e (.bol :: rest) k p j
  | eol {rest : List COp} {k : Kont} {p j : Nat} : eolOk e p = true → Sem e rest k p j → Sem e (.eol :: rest) k p j
  /-- `match_group`: one of the alternatives, as iteration 0 -/
  | enter {gno : Nat} {alts : List (List COp)} {mn mx : Nat} {a rest : List COp} {k : Kont} {p j : Nat} :
      0 < mx → a ∈ alts → Sem e a (.gend gno alts mn mx 0 p false rest k) p j →
      Sem e (.group gno alts mn mx :: rest) k p j
  /-- `match_group`: "is no-match allowed?" -/
  | skip {gno : Nat} {alts : List (List COp)} {mn mx : Nat} {rest : List COp} {k : Kont} {p j : Nat} :
      mn = 0 → Sem e rest k p j → Sem e (.group gno alts mn mx :: rest) k p j
  /-- `match_gend`: one more repeat -/
  | more {gno : Nat} {alts : List (List COp)} {mn mx c s : Nat} {minok : Bool} {a next : List COp} {k : Kont}
      {p j : Nat} : ¬ (p = s ∧ 0 < c ∧ mn ≤ c) → c + 1 < mx → (p ≠ s ∨ (c + 1 < mn ∧ minok = false)) → a ∈ alts →
      Sem e a (.gend gno alts mn mx (c + 1) p (minok || (p == s)) next k) p j →
      Sem e [] (.gend gno alts mn mx c s minok next k) p j
  /-- `match_gend`: continue with the parent's AND-list -/
  | exit {gno : Nat} {alts : List (List COp)} {mn mx c s : Nat} {minok : Bool} {next : List COp} {k : Kont}
      {p j : Nat} : ¬ (p = s ∧ 0 < c ∧ mn ≤ c) → (p = s ∨ minok = true ∨ mn ≤ c + 1) → Sem e next k p j →
      Sem e [] (.gend gno alts mn mx c s minok next k) p j

/-- op lists with any counts; group numbers exceed the number of the enclosing group -/
inductive WFG : Nat → List COp → Prop
  | nil (n : Nat) : WFG n []
  | simple {n : Nat} {op : COp} {rest : List COp} : Simple op = true → WFG n rest → WFG n (op :: rest)
  | grp {n gno mn mx : Nat} {alts : List (List COp)} {rest : List COp} :
      n < gno → (∀ a, a ∈ alts → WFG gno a) → WFG n rest → WFG n (.group gno alts mn mx :: rest)

theorem WFG.tail {n : Nat} {op : COp} {rest : List COp} (h : WFG n (op :: rest)) : WFG n rest := by
  cases h with
  | simple _ h2 => exact h2
  | grp _ _ h3 => exact h3

/-- the continuation that a frame stands for -/
def kontOf (fr : Frame) (k : Kont) : Kont :=
  .gend fr.gno fr.alts fr.min fr.max fr.count fr.start fr.minok fr.next k

theorem kontOf_feq {a b : Frame} (h : FrameEq a b) (k : Kont) : kontOf b k = kontOf a k := by
  simp only [kontOf, h.gno, h.alts, h.min, h.max, h.count, h.start, h.minok, h.next]

/-- frame `g` and its ancestors up to the frame `g0` of group #0 stand for the continuation `k` -/
inductive ChainK (g0 : Nat) (st : St) : Nat → Kont → Prop
  | root : g0 < st.frames.size → (st.fr g0).gno = 0 → ChainK g0 st g0 .root
  | nest {g p : Nat} {k : Kont} : g < st.frames.size → (st.fr g).gno ≠ 0 → (st.fr g).parent = some p →
      (st.fr p).gno < (st.fr g).gno → (∀ a, a ∈ (st.fr g).alts → WFG (st.fr g).gno a) →
      WFG (st.fr p).gno (st.fr g).next → ChainK g0 st p k → ChainK g0 st g (kontOf (st.fr g) k)

theorem ChainK.lt {g0 : Nat} {st : St} {g : Nat} {k : Kont} (h : ChainK g0 st g k) : g < st.frames.size := by
  cases h with
  | root h1 _ => exact h1
  | nest h1 => exact h1

theorem ChainK.ext {g0 : Nat} {st st' : St} {g : Nat} {k : Kont} (h : ChainK g0 st g k) (he : Ext st st') :
    ChainK g0 st' g k := by
  induction h with
  | root h1 h2 =>
    exact ChainK.root (Nat.lt_of_lt_of_le h1 he.size) (by rw [(he.feq _ h1).gno]; exact h2)
  | @nest g p k h1 h2 h3 h4 h5 h6 h7 ih =>
    have fe := he.feq g h1
    have hp : p < st.frames.size := h7.lt
    have fp := he.feq p hp
    have := ChainK.nest (g0 := g0) (st := st') (g := g) (p := p) (k := k) (Nat.lt_of_lt_of_le h1 he.size)
      (by rw [fe.gno]; exact h2) (by rw [fe.parent]; exact h3) (by rw [fp.gno, fe.gno]; exact h4)
      (by rw [fe.alts, fe.gno]; exact h5) (by rw [fp.gno, fe.next]; exact h6) ih
    rw [kontOf_feq fe] at this
    exact this

/-- two searches one after the other, both started without a pending `gotmatch` -/
theorem Post2.seq' {cx : Cx} {J : St → Prop} {P1 P2 : Nat → Prop} {st st1 st2 : St} {e1 e2 : Nat}
    (p1 : Post2 cx J P1 false st e1 st1) (p2 : Post2 cx J P2 false st1 e2 st2) :
    Post2 cx J (fun j => P1 j ∨ P2 j) false st (if e2 = NOMATCH ∧ e1 = 0 then 0 else e2) st2 := by
  have p2' : Post2 cx J P2 (false || decide (e1 = 0)) st1 (if e2 = NOMATCH ∧ e1 = 0 then 0 else e2) st2 := by
    refine ⟨p2.same, ?_, ?_, p2.mono, p2.upper, p2.attained, p2.keepJ⟩
    · by_cases h : e2 = NOMATCH ∧ e1 = 0
      · rw [if_pos h]; exact Or.inl rfl
      · rw [if_neg h]; exact p2.code
    · by_cases h : e2 = NOMATCH ∧ e1 = 0
      · rw [if_pos h]; simp [h.2]
      · rw [if_neg h, p2.ok]
        simp only [Bool.false_or, decide_eq_true_eq, Bool.false_eq_true, false_or]
        constructor
        · intro hx; exact Or.inr hx
        · rintro (he | hx)
          · have hc := p2.code
            rcases hc with h0 | h1
            · exact (p2.ok.mp h0).resolve_left (by simp)
            · exact absurd ⟨h1, he⟩ h
          · exact hx
  exact Post2.seq p1 p2'

/-! ## inversion of `Sem` -/

theorem Sem.root_iff {e : Env} {p j : Nat} : Sem e [] .root p j ↔ j = p := by
  constructor
  · intro h; cases h; rfl
  · rintro rfl; exact Sem.root _

theorem Sem.atom_iff {e : Env} {op : COp} {rest : List COp} {k : Kont} {p j : Nat} (ha : isAtomOp op = true) :
    Sem e (op :: rest) k p j ↔ ∃ n, minOfOp op ≤ n ∧ n ≤ runOf e op p ∧ Sem e rest k (p + n) j := by
  constructor
  · intro h
    cases h with
    | atom _ h1 h2 h3 => exact ⟨_, h1, h2, h3⟩
    | bol _ _ => simp [isAtomOp] at ha
    | eol _ _ => simp [isAtomOp] at ha
    | enter _ _ _ => simp [isAtomOp] at ha
    | skip _ _ => simp [isAtomOp] at ha
  · rintro ⟨n, h1, h2, h3⟩; exact Sem.atom ha h1 h2 h3

theorem Sem.bol_iff {e : Env} {rest : List COp} {k : Kont} {p j : Nat} :
    Sem e (.bol :: rest) k p j ↔ bolOk e p = true ∧ Sem e rest k p j := by
  constructor
  · intro h
    cases h with
    | atom ha _ _ _ => simp [isAtomOp] at ha
    | bol h1 h2 => exact ⟨h1, h2⟩
  · rintro ⟨h1, h2⟩; exact Sem.bol h1 h2

theorem Sem.eol_iff {e : Env} {rest : List COp} {k : Kont} {p j : Nat} :
    Sem e (.eol :: rest) k p j ↔ eolOk e p = true ∧ Sem e rest k p j := by
  constructor
  · intro h
    cases h with
    | atom ha _ _ _ => simp [isAtomOp] at ha
    | eol h1 h2 => exact ⟨h1, h2⟩
  · rintro ⟨h1, h2⟩; exact Sem.eol h1 h2

theorem Sem.group_iff {e : Env} {gno : Nat} {alts : List (List COp)} {mn mx : Nat} {rest : List COp} {k : Kont}
    {p j : Nat} :
    Sem e (.group gno alts mn mx :: rest) k p j ↔
      (0 < mx ∧ ∃ a, a ∈ alts ∧ Sem e a (.gend gno alts mn mx 0 p false rest k) p j) ∨ (mn = 0 ∧ Sem e rest k p j) := by
  constructor
  · intro h
    cases h with
    | atom ha _ _ _ => simp [isAtomOp] at ha
    | enter h1 h2 h3 => exact Or.inl ⟨h1, _, h2, h3⟩
    | skip h1 h2 => exact Or.inr ⟨h1, h2⟩
  · rintro (⟨h1, a, h2, h3⟩ | ⟨h1, h2⟩)
    · exact Sem.enter h1 h2 h3
    · exact Sem.skip h1 h2

theorem Sem.gend_iff {e : Env} {gno : Nat} {alts : List (List COp)} {mn mx c s : Nat} {minok : Bool}
    {next : List COp} {k : Kont} {p j : Nat} :
    Sem e [] (.gend gno alts mn mx c s minok next k) p j ↔
      ¬ (p = s ∧ 0 < c ∧ mn ≤ c) ∧
      ((c + 1 < mx ∧ (p ≠ s ∨ (c + 1 < mn ∧ minok = false)) ∧
          ∃ a, a ∈ alts ∧ Sem e a (.gend gno alts mn mx (c + 1) p (minok || (p == s)) next k) p j) ∨
       ((p = s ∨ minok = true ∨ mn ≤ c + 1) ∧ Sem e next k p j)) := by
  constructor
  · intro h
    cases h with
    | more h1 h2 h3 h4 h5 => exact ⟨h1, Or.inl ⟨h2, h3, _, h4, h5⟩⟩
    | exit h1 h2 h3 => exact ⟨h1, Or.inr ⟨h2, h3⟩⟩
  · rintro ⟨h1, (⟨h2, h3, a, h4, h5⟩ | ⟨h2, h3⟩)⟩
    · exact Sem.more h1 h2 h3 h4 h5
    · exact Sem.exit h1 h2 h3

/-! ## the model explores exactly `Sem` -/

theorem coreR (cx : Cx) (J : St → Prop) (g0 : Nat) (hJ : JOk cx g0 J) : ∀ f : Nat,
    -- do_match
    (∀ ops str g K st err st', WFG (st.fr g).gno ops → ChainK g0 st g K →
        doOps cx f ops str (some g) st = (err, st') → Good err →
        Post2 cx J (Sem cx.env ops K str) false st err st') ∧
    -- scan_next
    (∀ rest str g K cur mn st err st', WFG (st.fr g).gno rest → ChainK g0 st g K → cur ≤ str →
        scanNext cx f rest str (some g) cur mn st = (err, st') → Good err →
        Post2 cx J (fun j => ∃ k, mn ≤ k ∧ k ≤ cur ∧ Sem cx.env rest K (str - cur + k) j) false st err st') ∧
    -- its back-off loop
    (∀ rest str g K cur mn got st err st', WFG (st.fr g).gno rest → ChainK g0 st g K → mn ≤ cur → cur ≤ str →
        (got = true → cx.strict = true) →
        scanLoop cx f rest str (some g) cur mn got st = (err, st') → Good err →
        Post2 cx J (fun j => ∃ k, mn ≤ k ∧ k ≤ cur ∧ Sem cx.env rest K (str - cur + k) j) got st err st') ∧
    -- match_group entered from the AND-list of frame `g`
    (∀ gno alts mn mx rest str g K st err st', (st.fr g).gno < gno → (∀ a, a ∈ alts → WFG gno a) →
        WFG (st.fr g).gno rest → ChainK g0 st g K →
        matchGroup cx f gno alts mn mx rest str (some g) st = (err, st') → Good err →
        Post2 cx J (Sem cx.env (.group gno alts mn mx :: rest) K str) false st err st') ∧
    -- match_group re-entered from match_gend of frame `g` for one more repeat
    (∀ str g p K st err st', g < st.frames.size → (st.fr g).gno ≠ 0 → (st.fr g).parent = some p →
        (st.fr p).gno < (st.fr g).gno → (∀ a, a ∈ (st.fr g).alts → WFG (st.fr g).gno a) →
        WFG (st.fr p).gno (st.fr g).next → ChainK g0 st p K → (st.fr g).end_ = some str →
        matchGroup cx f (st.fr g).gno (st.fr g).alts (st.fr g).min (st.fr g).max (st.fr g).next str (some g) st
          = (err, st') → Good err →
        Post2 cx J (fun j => ∃ a, a ∈ (st.fr g).alts ∧
            Sem cx.env a (.gend (st.fr g).gno (st.fr g).alts (st.fr g).min (st.fr g).max ((st.fr g).count + 1) str
              ((st.fr g).minok || (str == (st.fr g).start)) (st.fr g).next K) str j) false st err st') ∧
    -- the OR-list loop for frame `id`
    (∀ alts str id K err0 got st err got' st', (∀ a, a ∈ alts → WFG (st.fr id).gno a) → ChainK g0 st id K →
        (got = true → cx.strict = true) → (err0 = NOMATCH ∨ (err0 = 0 ∧ got = true)) →
        altLoop cx f alts str id err0 got st = (err, got', st') → Good err →
        Post2 cx J (fun j => ∃ a, a ∈ alts ∧ Sem cx.env a K str j) got st (if got' then 0 else err) st') ∧
    -- … and what it returns
    (∀ alts str id K err0 got st err got' st', (∀ a, a ∈ alts → WFG (st.fr id).gno a) → ChainK g0 st id K →
        (err0 = NOMATCH ∨ (err0 = 0 ∧ got = true)) →
        altLoop cx f alts str id err0 got st = (err, got', st') → Good err →
        (err = 0 ∨ err = NOMATCH) ∧ (err = 0 → cx.strict = true → got' = true)) ∧
    -- match_gend
    (∀ str g K st err st', ChainK g0 st g K → (st.fr g).gno ≠ 0 →
        matchGend cx f str g st = (err, st') → Good err →
        Post2 cx J (Sem cx.env [] K str) false st err st') := by
  intro f
  induction f with
  | zero =>
    refine ⟨?_, ?_, ?_, ?_, ?_, ?_, ?_, ?_⟩
    · intro ops str g K st err st' _ _ h hg
      simp only [doOps] at h
      obtain ⟨rfl, _⟩ := Prod.mk.inj h
      exact absurd rfl hg.2
    · intro rest str g K cur mn st err st' _ _ _ h hg
      simp only [scanNext] at h
      obtain ⟨rfl, _⟩ := Prod.mk.inj h
      exact absurd rfl hg.2
    · intro rest str g K cur mn got st err st' _ _ _ _ _ h hg
      simp only [scanLoop] at h
      obtain ⟨rfl, _⟩ := Prod.mk.inj h
      exact absurd rfl hg.2
    · intro gno alts mn mx rest str g K st err st' _ _ _ _ h hg
      simp only [matchGroup] at h
      obtain ⟨rfl, _⟩ := Prod.mk.inj h
      exact absurd rfl hg.2
    · intro str g p K st err st' _ _ _ _ _ _ _ _ h hg
      simp only [matchGroup] at h
      obtain ⟨rfl, _⟩ := Prod.mk.inj h
      exact absurd rfl hg.2
    · intro alts str id K err0 got st err got' st' _ _ _ _ h hg
      simp only [altLoop] at h
      obtain ⟨rfl, _⟩ := Prod.mk.inj h
      exact absurd rfl hg.2
    · intro alts str id K err0 got st err got' st' _ _ _ h hg
      simp only [altLoop] at h
      obtain ⟨rfl, _⟩ := Prod.mk.inj h
      exact absurd rfl hg.2
    · intro str g K st err st' _ _ h hg
      simp only [matchGend] at h
      obtain ⟨rfl, _⟩ := Prod.mk.inj h
      exact absurd rfl hg.2
  | succ f ih =>
    obtain ⟨ihd, ihn, ihs, ihg, ihr, iha, iha2, ihe⟩ := ih
    refine ⟨?_, ?_, ?_, ?_, ?_, ?_, ?_, ?_⟩
    · -- doOps
      intro ops str g K st err st' hwf hch h hg
      simp only [doOps] at h
      by_cases hb : st.budget = 0
      · rw [if_pos hb] at h
        obtain ⟨rfl, _⟩ := Prod.mk.inj h
        exact absurd rfl hg.1
      · rw [if_neg hb] at h
        obtain ⟨st0, hst0⟩ : ∃ st0 : St, st0 = { st with budget := st.budget - 1 } := ⟨_, rfl⟩
        rw [← hst0] at h
        have he0 : Ext st st0 := by rw [hst0]; exact ext_budget st _
        have hch0 : ChainK g0 st0 g K := hch.ext he0
        have hfr0 : ∀ k, st0.fr k = st.fr k := by intro k; rw [hst0]; rfl
        refine Post2.pre he0 (by rw [hst0]) (by rw [hst0]; exact hJ.budget st) ?_
        cases ops with
        | nil =>
          cases hch0 with
          | root h1 h2 =>
            rw [if_pos h2] at h
            exact Post2.congr (fun j => Sem.root_iff.symm)
              (post_gotFull cx J g0 str st0 err st' hJ.full h).toPost2
          | nest h1 h2 h3 h4 h5 h6 h7 =>
            rw [if_neg h2] at h
            exact ihe str g _ st0 err st' (ChainK.nest h1 h2 h3 h4 h5 h6 h7) h2 h hg
        | cons op rest =>
          have hwf0 : WFG (st0.fr g).gno (op :: rest) := by rw [hfr0]; exact hwf
          have hrest : WFG (st0.fr g).gno rest := hwf0.tail
          cases op with
          | chr c mn mx =>
            simp only [] at h
            refine Post2.congr ?_ (ihn rest _ g K _ mn st0 err st' hrest hch0 (Nat.le_add_left _ _) h hg)
            intro j
            rw [Sem.atom_iff rfl]
            simp only [Nat.add_sub_cancel, minOfOp, runOf]
          | any mn mx =>
            simp only [] at h
            refine Post2.congr ?_ (ihn rest _ g K _ mn st0 err st' hrest hch0 (Nat.le_add_left _ _) h hg)
            intro j
            rw [Sem.atom_iff rfl]
            simp only [Nat.add_sub_cancel, minOfOp, runOf]
          | cls bm mn mx =>
            simp only [] at h
            refine Post2.congr ?_ (ihn rest _ g K _ mn st0 err st' hrest hch0 (Nat.le_add_left _ _) h hg)
            intro j
            rw [Sem.atom_iff rfl]
            simp only [Nat.add_sub_cancel, minOfOp, runOf]
          | bol =>
            simp only [] at h
            by_cases hbol : bolOk cx.env str = true
            · rw [if_pos hbol] at h
              refine Post2.congr ?_ (ihd rest str g K st0 err st' hrest hch0 h hg)
              intro j; rw [Sem.bol_iff]; simp [hbol]
            · rw [if_neg hbol] at h
              obtain ⟨rfl, rfl⟩ := Prod.mk.inj h
              exact Post2.none st0 (fun j hj => hbol (Sem.bol_iff.mp hj).1)
          | eol =>
            simp only [] at h
            by_cases heol : eolOk cx.env str = true
            · rw [if_pos heol] at h
              refine Post2.congr ?_ (ihd rest str g K st0 err st' hrest hch0 h hg)
              intro j; rw [Sem.eol_iff]; simp [heol]
            · rw [if_neg heol] at h
              obtain ⟨rfl, rfl⟩ := Prod.mk.inj h
              exact Post2.none st0 (fun j hj => heol (Sem.eol_iff.mp hj).1)
          | group gno alts mn mx =>
            simp only [] at h
            cases hwf0 with
            | simple hs _ => simp [Simple] at hs
            | grp hlt halts hr =>
              exact ihg gno alts mn mx rest str g K st0 err st' hlt halts hr hch0 h hg
    · -- scanNext
      intro rest str g K cur mn st err st' hrest hch hcs h hg
      simp only [scanNext] at h
      by_cases h1 : cur = mn
      · rw [if_pos h1] at h
        refine Post2.congr ?_ (ihd rest str g K st err st' hrest hch h hg)
        intro j
        constructor
        · intro hj
          exact ⟨cur, by omega, Nat.le_refl _, by rw [Nat.sub_add_cancel hcs]; exact hj⟩
        · rintro ⟨k, hk1, hk2, hj⟩
          have : k = cur := by omega
          subst this
          rw [Nat.sub_add_cancel hcs] at hj
          exact hj
      · rw [if_neg h1] at h
        by_cases h2 : cur < mn
        · rw [if_pos h2] at h
          obtain ⟨rfl, rfl⟩ := Prod.mk.inj h
          exact Post2.none st (fun j ⟨k, hk1, hk2, _⟩ => by omega)
        · rw [if_neg h2] at h
          exact ihs rest str g K cur mn false st err st' hrest hch (by omega) hcs (fun hh => by cases hh) h hg
    · -- scanLoop
      intro rest str g K cur mn got st err st' hrest hch hmc hcs hgot h hg
      simp only [scanLoop] at h
      cases h1 : doOps cx f rest str (some g) st with
      | mk e1 st1 =>
        rw [h1] at h
        simp only [] at h
        have hfirst : ∀ j, Sem cx.env rest K str j ↔ Sem cx.env rest K (str - cur + cur) j := by
          intro j; rw [Nat.sub_add_cancel hcs]
        by_cases hsucc : (cx.strict && decide (e1 = 0)) = true
        · rw [if_pos hsucc] at h
          simp only [Bool.and_eq_true, decide_eq_true_eq] at hsucc
          obtain ⟨hstrict, he1⟩ := hsucc
          have p1 := ihd rest str g K st e1 st1 hrest hch h1 (by subst he1; exact ⟨by decide, by decide⟩)
          by_cases hcm : cur = mn
          · rw [if_pos hcm] at h
            obtain ⟨rfl, rfl⟩ := Prod.mk.inj h
            refine ⟨p1.same, Or.inl rfl, ?_, p1.mono, ?_, ?_, p1.keepJ⟩
            · subst he1
              simp only [true_iff]
              right
              obtain ⟨j, hj⟩ := (p1.ok.mp rfl).resolve_left (by simp)
              exact ⟨j, cur, by omega, Nat.le_refl _, (hfirst j).mp hj⟩
            · rintro hs j ⟨k, hk1, hk2, hj⟩
              have : k = cur := by omega
              subst this
              exact p1.upper hs j ((hfirst j).mpr hj)
            · rcases p1.attained with ha | ⟨j, hj, ha⟩
              · exact Or.inl ha
              · exact Or.inr ⟨j, ⟨cur, by omega, Nat.le_refl _, (hfirst j).mp hj⟩, ha⟩
          · rw [if_neg hcm] at h
            have hg1 : (st1.fr g).gno = (st.fr g).gno := (p1.same.feq g hch.lt).gno
            have p2 := ihs rest (str - 1) g K (cur - 1) mn true st1 err st' (by rw [hg1]; exact hrest)
              (hch.ext p1.same) (by omega) (by omega) (fun _ => hstrict) h hg
            have p1' : Post2 cx J (Sem cx.env rest K str) got st e1 st1 :=
              ⟨p1.same, p1.code, by rw [p1.ok]; subst he1; simp; exact fun _ => (p1.ok.mp rfl).resolve_left (by simp),
               p1.mono, p1.upper, p1.attained, p1.keepJ⟩
            have hgg : (got || decide (e1 = 0)) = true := by simp [he1]
            have p2' : Post2 cx J (fun j => ∃ k, mn ≤ k ∧ k ≤ cur - 1 ∧ Sem cx.env rest K (str - 1 - (cur - 1) + k) j)
                (got || decide (e1 = 0)) st1 err st' := by rw [hgg]; exact p2
            refine Post2.congr ?_ (Post2.seq p1' p2')
            intro j
            constructor
            · rintro (hj | ⟨k, hk1, hk2, hj⟩)
              · exact ⟨cur, hmc, Nat.le_refl _, (hfirst j).mp hj⟩
              · refine ⟨k, hk1, by omega, ?_⟩
                have : str - 1 - (cur - 1) + k = str - cur + k := by omega
                rw [← this]; exact hj
            · rintro ⟨k, hk1, hk2, hj⟩
              by_cases hkc : k = cur
              · subst hkc; exact Or.inl ((hfirst j).mpr hj)
              · refine Or.inr ⟨k, hk1, by omega, ?_⟩
                have : str - 1 - (cur - 1) + k = str - cur + k := by omega
                rw [this]; exact hj
        · rw [if_neg hsucc] at h
          by_cases hnm : e1 ≠ NOMATCH
          · rw [if_pos hnm] at h
            obtain ⟨rfl, rfl⟩ := Prod.mk.inj h
            have p1 := ihd rest str g K st e1 st1 hrest hch h1 hg
            have he0 : e1 = 0 := p1.code.resolve_right hnm
            have hns : cx.strict = false := by
              cases hcs' : cx.strict with
              | false => rfl
              | true => exact absurd (by simp [hcs', he0]) hsucc
            have hgf : got = false := by
              cases got with
              | false => rfl
              | true => rw [hgot rfl] at hns; cases hns
            subst hgf
            obtain ⟨j0, hj0⟩ := (p1.ok.mp he0).resolve_left (by simp)
            refine ⟨p1.same, Or.inl he0, ?_, p1.mono, (fun hs => by rw [hns] at hs; cases hs), ?_, p1.keepJ⟩
            · simp only [he0, true_iff]
              exact Or.inr ⟨j0, cur, hmc, Nat.le_refl _, (hfirst j0).mp hj0⟩
            · rcases p1.attained with ha | ⟨j, hj, ha⟩
              · exact Or.inl ha
              · exact Or.inr ⟨j, ⟨cur, hmc, Nat.le_refl _, (hfirst j).mp hj⟩, ha⟩
          · rw [if_neg hnm] at h
            have he1 : e1 = NOMATCH := Decidable.not_not.mp hnm
            have p1 := ihd rest str g K st e1 st1 hrest hch h1 (by rw [he1]; exact ⟨by decide, by decide⟩)
            have hno : ∀ j, ¬ Sem cx.env rest K str j := by
              intro j hj
              have := p1.ok.mpr (Or.inr ⟨j, hj⟩)
              rw [he1] at this
              exact absurd this (by decide)
            have p1' : Post2 cx J (Sem cx.env rest K str) got st (if got then 0 else NOMATCH) st1 :=
              ⟨p1.same, by cases got <;> simp, by cases got <;> simp [NOMATCH] <;> exact fun j => hno j,
               p1.mono, p1.upper, p1.attained, p1.keepJ⟩
            by_cases hcm : cur = mn
            · rw [if_pos hcm] at h
              obtain ⟨rfl, rfl⟩ := Prod.mk.inj h
              refine Post2.congr ?_ p1'
              intro j
              constructor
              · intro hj; exact absurd hj (hno j)
              · rintro ⟨k, hk1, hk2, hj⟩
                have : k = cur := by omega
                subst this
                exact absurd ((hfirst j).mpr hj) (hno j)
            · rw [if_neg hcm] at h
              have hg1 : (st1.fr g).gno = (st.fr g).gno := (p1.same.feq g hch.lt).gno
              have p2 := ihs rest (str - 1) g K (cur - 1) mn got st1 err st' (by rw [hg1]; exact hrest)
                (hch.ext p1.same) (by omega) (by omega) hgot h hg
              have hgg : (got || decide ((if got then 0 else NOMATCH) = 0)) = got := by cases got <;> simp [NOMATCH]
              have p2' : Post2 cx J (fun j => ∃ k, mn ≤ k ∧ k ≤ cur - 1 ∧ Sem cx.env rest K (str - 1 - (cur - 1) + k) j)
                  (got || decide ((if got then 0 else NOMATCH) = 0)) st1 err st' := by rw [hgg]; exact p2
              refine Post2.congr ?_ (Post2.seq p1' p2')
              intro j
              constructor
              · rintro (hj | ⟨k, hk1, hk2, hj⟩)
                · exact absurd hj (hno j)
                · refine ⟨k, hk1, by omega, ?_⟩
                  have : str - 1 - (cur - 1) + k = str - cur + k := by omega
                  rw [← this]; exact hj
              · rintro ⟨k, hk1, hk2, hj⟩
                by_cases hkc : k = cur
                · subst hkc; exact absurd ((hfirst j).mpr hj) (hno j)
                · refine Or.inr ⟨k, hk1, by omega, ?_⟩
                  have : str - 1 - (cur - 1) + k = str - cur + k := by omega
                  rw [this]; exact hj
    · sorry
    · sorry
    · -- altLoop
      intro alts str id K err0 got st err got' st' hwfa hch hgot herr0 h hg
      cases alts with
      | nil =>
        simp only [altLoop] at h
        obtain ⟨rfl, h2⟩ := Prod.mk.inj h
        obtain ⟨rfl, rfl⟩ := Prod.mk.inj h2
        have hno : ∀ j, ¬ ∃ a, a ∈ ([] : List (List COp)) ∧ Sem cx.env a K str j := fun j ⟨a, ha, _⟩ => by cases ha
        refine ⟨Ext.refl st, ?_, ?_, fun le hle => ⟨le, hle, Nat.le_refl _⟩, fun _ j hj => absurd hj (hno j), Or.inl rfl,
          fun h => h⟩
        · clear ihd ihn ihs ihg ihr iha iha2 ihe hJ
          cases got <;> rcases herr0 with h0 | ⟨h0, h1⟩ <;> simp_all [NOMATCH]
        · clear ihd ihn ihs ihg ihr iha iha2 ihe hJ
          cases got <;> rcases herr0 with h0 | ⟨h0, h1⟩ <;> simp_all [NOMATCH]
      | cons a more =>
        simp only [altLoop] at h
        have hmore : ∀ b, b ∈ more → WFG (st.fr id).gno b := fun b hb => hwfa b (List.mem_cons_of_mem _ hb)
        have hsplit : ∀ j, (Sem cx.env a K str j ∨ ∃ b, b ∈ more ∧ Sem cx.env b K str j) ↔
            ∃ b, b ∈ a :: more ∧ Sem cx.env b K str j := by
          intro j
          constructor
          · rintro (hj | ⟨b, hb, hj⟩)
            · exact ⟨a, List.mem_cons_self, hj⟩
            · exact ⟨b, List.mem_cons_of_mem _ hb, hj⟩
          · rintro ⟨b, hb, hj⟩
            rcases List.mem_cons.mp hb with rfl | hb
            · exact Or.inl hj
            · exact Or.inr ⟨b, hb, hj⟩
        cases h1 : doOps cx f a str (some id) st with
        | mk e1 st1 =>
          rw [h1] at h
          simp only [] at h
          by_cases hsucc : e1 = 0 ∧ cx.strict = true
          · rw [if_pos hsucc] at h
            obtain ⟨he1, hstrict⟩ := hsucc
            have p1 := ihd a str id K st e1 st1 (hwfa a List.mem_cons_self) hch h1
              (by subst he1; exact ⟨by decide, by decide⟩)
            obtain ⟨st1', hst1'⟩ : ∃ s : St, s = st1.setFr id { st1.fr id with end_ := none } := ⟨_, rfl⟩
            rw [← hst1'] at h
            have k1 : Keeps st1 st1' := by rw [hst1']; exact keeps_setFr st1 id _ rfl
            have hgid : (st1'.fr id).gno = (st.fr id).gno := by
              rw [k1.gno, (p1.same.feq id hch.lt).gno]
            have p2 := iha more str id K e1 true st1' err got' st' (by rw [hgid]; exact hmore)
              ((hch.ext p1.same).ext k1.ext) (fun _ => hstrict) (Or.inr ⟨he1, rfl⟩) h hg
            have p2' := Post2.pre k1.ext k1.last (by rw [hst1']; exact hJ.setEnd st1 id none) p2
            have p1' : Post2 cx J (Sem cx.env a K str) got st e1 st1 :=
              ⟨p1.same, p1.code, by rw [p1.ok]; subst he1; simp; exact fun _ => (p1.ok.mp rfl).resolve_left (by simp),
               p1.mono, p1.upper, p1.attained, p1.keepJ⟩
            have hgg : (got || decide (e1 = 0)) = true := by simp [he1]
            have p2'' : Post2 cx J (fun j => ∃ b, b ∈ more ∧ Sem cx.env b K str j) (got || decide (e1 = 0)) st1
                (if got' then 0 else err) st' := by rw [hgg]; exact p2'
            exact Post2.congr hsplit (Post2.seq p1' p2'')
          · rw [if_neg hsucc] at h
            by_cases hnm : e1 ≠ NOMATCH
            · rw [if_pos hnm] at h
              obtain ⟨rfl, h2⟩ := Prod.mk.inj h
              obtain ⟨rfl, rfl⟩ := Prod.mk.inj h2
              have p1 := ihd a str id K st e1 st1 (hwfa a List.mem_cons_self) hch h1 hg
              have he0 : e1 = 0 := p1.code.resolve_right hnm
              have hns : cx.strict = false := by
                cases hcs' : cx.strict with
                | false => rfl
                | true => exact absurd ⟨he0, hcs'⟩ hsucc
              have hgf : got = false := by
                cases got with
                | false => rfl
                | true => rw [hgot rfl] at hns; cases hns
              subst hgf
              obtain ⟨j0, hj0⟩ := (p1.ok.mp he0).resolve_left (by simp)
              simp only [Bool.false_eq_true, if_false]
              refine ⟨p1.same, Or.inl he0, ?_, p1.mono, (fun hs => by rw [hns] at hs; cases hs), ?_, p1.keepJ⟩
              · simp only [he0, true_iff]
                exact Or.inr ⟨j0, (hsplit j0).mp (Or.inl hj0)⟩
              · rcases p1.attained with ha | ⟨j, hj, ha⟩
                · exact Or.inl ha
                · exact Or.inr ⟨j, (hsplit j).mp (Or.inl hj), ha⟩
            · rw [if_neg hnm] at h
              have he1 : e1 = NOMATCH := Decidable.not_not.mp hnm
              have p1 := ihd a str id K st e1 st1 (hwfa a List.mem_cons_self) hch h1
                (by rw [he1]; exact ⟨by decide, by decide⟩)
              have hno : ∀ j, ¬ Sem cx.env a K str j := by
                intro j hj
                have := p1.ok.mpr (Or.inr ⟨j, hj⟩)
                rw [he1] at this
                exact absurd this (by decide)
              have p1' : Post2 cx J (Sem cx.env a K str) got st (if got then 0 else NOMATCH) st1 :=
                ⟨p1.same, by cases got <;> simp, by cases got <;> simp [NOMATCH] <;> exact fun j => hno j,
                 p1.mono, p1.upper, p1.attained, p1.keepJ⟩
              have hgid : (st1.fr id).gno = (st.fr id).gno := (p1.same.feq id hch.lt).gno
              have p2 := iha more str id K e1 got st1 err got' st' (by rw [hgid]; exact hmore)
                (hch.ext p1.same) hgot (Or.inl he1) h hg
              have hgg : (got || decide ((if got then 0 else NOMATCH) = 0)) = got := by cases got <;> simp [NOMATCH]
              have p2'' : Post2 cx J (fun j => ∃ b, b ∈ more ∧ Sem cx.env b K str j)
                  (got || decide ((if got then 0 else NOMATCH) = 0)) st1 (if got' then 0 else err) st' := by
                rw [hgg]; exact p2
              exact Post2.congr hsplit (Post2.seq p1' p2'')
    · -- what altLoop returns
      intro alts str id K err0 got st err got' st' hwfa hch herr0 h hg
      cases alts with
      | nil =>
        simp only [altLoop] at h
        obtain ⟨rfl, h2⟩ := Prod.mk.inj h
        obtain ⟨rfl, rfl⟩ := Prod.mk.inj h2
        rcases herr0 with h0 | ⟨h0, h1⟩
        · exact ⟨Or.inr h0, fun h' => by rw [h0] at h'; exact absurd h' (by decide)⟩
        · exact ⟨Or.inl h0, fun _ _ => h1⟩
      | cons a more =>
        simp only [altLoop] at h
        have hmore : ∀ b, b ∈ more → WFG (st.fr id).gno b := fun b hb => hwfa b (List.mem_cons_of_mem _ hb)
        cases h1 : doOps cx f a str (some id) st with
        | mk e1 st1 =>
          rw [h1] at h
          simp only [] at h
          by_cases hsucc : e1 = 0 ∧ cx.strict = true
          · rw [if_pos hsucc] at h
            have p1 := ihd a str id K st e1 st1 (hwfa a List.mem_cons_self) hch h1
              (by rw [hsucc.1]; exact ⟨by decide, by decide⟩)
            obtain ⟨st1', hst1'⟩ : ∃ s : St, s = st1.setFr id { st1.fr id with end_ := none } := ⟨_, rfl⟩
            rw [← hst1'] at h
            have k1 : Keeps st1 st1' := by rw [hst1']; exact keeps_setFr st1 id _ rfl
            have hgid : (st1'.fr id).gno = (st.fr id).gno := by
              rw [k1.gno, (p1.same.feq id hch.lt).gno]
            exact iha2 more str id K e1 true st1' err got' st' (by rw [hgid]; exact hmore)
              ((hch.ext p1.same).ext k1.ext) (Or.inr ⟨hsucc.1, rfl⟩) h hg
          · rw [if_neg hsucc] at h
            by_cases hnm : e1 ≠ NOMATCH
            · rw [if_pos hnm] at h
              obtain ⟨rfl, h2⟩ := Prod.mk.inj h
              obtain ⟨rfl, rfl⟩ := Prod.mk.inj h2
              have p1 := ihd a str id K st e1 st1 (hwfa a List.mem_cons_self) hch h1 hg
              have he0 : e1 = 0 := p1.code.resolve_right hnm
              exact ⟨Or.inl he0, fun _ hs => absurd ⟨he0, hs⟩ hsucc⟩
            · rw [if_neg hnm] at h
              have he1 : e1 = NOMATCH := Decidable.not_not.mp hnm
              have p1 := ihd a str id K st e1 st1 (hwfa a List.mem_cons_self) hch h1
                (by rw [he1]; exact ⟨by decide, by decide⟩)
              have hgid : (st1.fr id).gno = (st.fr id).gno := (p1.same.feq id hch.lt).gno
              exact iha2 more str id K e1 got st1 err got' st' (by rw [hgid]; exact hmore)
                (hch.ext p1.same) (Or.inl he1) h hg
    · -- matchGend
      intro str g K st err st' hch hne h hg
      cases hch with
      | root h1 h2 => exact absurd h2 hne
      | @nest _ p k h1 h2 h3 h4 h5 h6 h7 =>
        simp only [matchGend] at h
        simp only [kontOf]
        by_cases hpr : (str == (st.fr g).start && decide ((st.fr g).count > 0) &&
            decide ((st.fr g).count ≥ (st.fr g).min)) = true
        · rw [if_pos hpr] at h
          obtain ⟨rfl, rfl⟩ := Prod.mk.inj h
          refine Post2.none st ?_
          intro j hj
          apply (Sem.gend_iff.mp hj).1
          simp only [Bool.and_eq_true, beq_iff_eq, decide_eq_true_eq] at hpr
          exact ⟨hpr.1.1, hpr.1.2, hpr.2⟩
        · rw [if_neg hpr] at h
          have hnp : ¬ (str = (st.fr g).start ∧ 0 < (st.fr g).count ∧ (st.fr g).min ≤ (st.fr g).count) := by
            intro hc
            apply hpr
            simp only [Bool.and_eq_true, beq_iff_eq, decide_eq_true_eq]
            exact ⟨⟨hc.1, hc.2.1⟩, hc.2.2⟩
          sorry

end Usual.C04.CM
