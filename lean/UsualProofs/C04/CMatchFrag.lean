import Usual.C04.CMatch
import UsualProofs.C04.Ends
/-! Helper lemmas for C04: the model of the C back-tracking matcher (`Usual.C04.CM`) refines the
reference on the parenthesis-free fragment (simple atoms with counts, anchors, concatenation,
top-level alternation): return code, start position and `last_endpos`. -/
set_option linter.unusedSimpArgs false
set_option linter.unusedVariables false
namespace Usual.C04.CM
open Usual.C04

/-! ## what the bookkeeping (`publish_gm`, `fill_history`) cannot change -/

/-- two frames agree on everything except `end` and the history slot -/
structure FrameEq (a b : Frame) : Prop where
  gno : b.gno = a.gno
  alts : b.alts = a.alts
  min : b.min = a.min
  max : b.max = a.max
  next : b.next = a.next
  start : b.start = a.start
  prev : b.prev = a.prev
  count : b.count = a.count
  minok : b.minok = a.minok
  parent : b.parent = a.parent

theorem FrameEq.refl (a : Frame) : FrameEq a a := ⟨rfl, rfl, rfl, rfl, rfl, rfl, rfl, rfl, rfl, rfl⟩
theorem FrameEq.trans {a b c : Frame} (h1 : FrameEq a b) (h2 : FrameEq b c) : FrameEq a c :=
  ⟨h2.gno.trans h1.gno, h2.alts.trans h1.alts, h2.min.trans h1.min, h2.max.trans h1.max, h2.next.trans h1.next,
   h2.start.trans h1.start, h2.prev.trans h1.prev, h2.count.trans h1.count, h2.minok.trans h1.minok,
   h2.parent.trans h1.parent⟩

/-- `st'` has the same frames as `st` up to fields other than the owner group number, and the same
search state (`last_endpos`, step budget) -/
structure Keeps (st st' : St) : Prop where
  size : st'.frames.size = st.frames.size
  gno : ∀ k, (st'.fr k).gno = (st.fr k).gno
  last : st'.lastEnd = st.lastEnd
  budget : st'.budget = st.budget
  stacks : st'.stacks = st.stacks
  start : ∀ k, (st'.fr k).start = (st.fr k).start
  parent : ∀ k, (st'.fr k).parent = (st.fr k).parent
  psize : st'.pm.size = st.pm.size
  feq : ∀ k, FrameEq (st.fr k) (st'.fr k)

theorem Keeps.refl (st : St) : Keeps st st :=
  ⟨rfl, fun _ => rfl, rfl, rfl, rfl, fun _ => rfl, fun _ => rfl, rfl, fun _ => FrameEq.refl _⟩

theorem Keeps.trans {a b c : St} (h1 : Keeps a b) (h2 : Keeps b c) : Keeps a c :=
  ⟨h2.size.trans h1.size, fun k => (h2.gno k).trans (h1.gno k), h2.last.trans h1.last, h2.budget.trans h1.budget,
   h2.stacks.trans h1.stacks, fun k => (h2.start k).trans (h1.start k), fun k => (h2.parent k).trans (h1.parent k),
   h2.psize.trans h1.psize, fun k => (h1.feq k).trans (h2.feq k)⟩

theorem fr_setFr (st : St) (g k : Nat) (f : Frame) :
    (st.setFr g f).fr k = if k = g ∧ g < st.frames.size then f else st.fr k := by
  simp only [St.fr, St.setFr]
  by_cases h : k = g ∧ g < st.frames.size
  · obtain ⟨rfl, hg⟩ := h
    simp [hg]
  · rw [if_neg h]
    by_cases hk : k = g
    · subst hk
      have : ¬ k < st.frames.size := fun hh => h ⟨rfl, hh⟩
      simp [Array.getElem!_eq_getD, Array.getD_eq_getD_getElem?, this]
    · simp [Array.getElem!_eq_getD, Array.getD_eq_getD_getElem?, Array.getElem?_setIfInBounds, Ne.symm hk]

theorem keeps_setFr (st : St) (g : Nat) (f : Frame) (h : f.gno = (st.fr g).gno)
    (h2 : f.start = (st.fr g).start := by rfl) (h3 : f.parent = (st.fr g).parent := by rfl)
    (h4 : FrameEq (st.fr g) f := by exact ⟨rfl, rfl, rfl, rfl, rfl, rfl, rfl, rfl, rfl, rfl⟩) :
    Keeps st (st.setFr g f) := by
  refine ⟨by simp [St.setFr], ?_, rfl, rfl, rfl, ?_, ?_, rfl, ?_⟩
  · intro k
    rw [fr_setFr]
    by_cases hk : k = g ∧ g < st.frames.size
    · rw [if_pos hk, hk.1]; exact h
    · rw [if_neg hk]
  · intro k
    rw [fr_setFr]
    by_cases hk : k = g ∧ g < st.frames.size
    · rw [if_pos hk, hk.1]; exact h2
    · rw [if_neg hk]
  · intro k
    rw [fr_setFr]
    by_cases hk : k = g ∧ g < st.frames.size
    · rw [if_pos hk, hk.1]; exact h3
    · rw [if_neg hk]
  · intro k
    rw [fr_setFr]
    by_cases hk : k = g ∧ g < st.frames.size
    · rw [if_pos hk, hk.1]; exact h4
    · rw [if_neg hk]; exact FrameEq.refl _

theorem keeps_fillHist (gno : Nat) : ∀ (f : Nat) (gm : Option Nat) (rl : Int) (st : St),
    Keeps st (fillHist gno f gm rl st) := by
  intro f
  induction f with
  | zero => intro gm rl st; simp only [fillHist]; exact Keeps.refl st
  | succ f ih =>
    intro gm rl st
    cases gm with
    | none => simp only [fillHist]; exact Keeps.refl st
    | some g =>
      simp only [fillHist]
      cases hp : (st.fr g).prev with
      | none =>
        simp only []
        refine Keeps.trans ?_ (ih _ _ _)
        exact ⟨rfl, fun _ => rfl, rfl, rfl, rfl, fun _ => rfl, fun _ => rfl, rfl, fun _ => FrameEq.refl _⟩
      | some p =>
        simp only []
        refine Keeps.trans ?_ (ih _ _ _)
        exact keeps_setFr st p _ rfl

theorem keeps_publish (st : St) (gno : Nat) : Keeps st (publish st gno) := by
  unfold publish
  simp only []
  split <;> exact ⟨rfl, fun _ => rfl, rfl, rfl, rfl, fun _ => rfl, fun _ => rfl, by simp, fun _ => FrameEq.refl _⟩

theorem keeps_publishAll (cx : Cx) : ∀ (f gno : Nat) (st : St), Keeps st (publishAll cx f gno st) := by
  intro f
  induction f with
  | zero => intro gno st; simp only [publishAll]; exact Keeps.refl st
  | succ f ih =>
    intro gno st
    simp only [publishAll]
    by_cases hg : gno < cx.nmatch
    · rw [if_pos hg]
      by_cases hs : cx.strict = true
      · simp only [hs, if_true]
        exact Keeps.trans (Keeps.trans (keeps_publish st gno) (keeps_fillHist gno _ _ _ _)) (ih _ _)
      · simp only [hs, if_false]
        exact Keeps.trans (keeps_publish st gno) (ih _ _)
    · rw [if_neg hg]; exact Keeps.refl st

/-- `SameG`: like `Keeps` but `last_endpos` may have moved -/
structure SameG (st st' : St) : Prop where
  size : st'.frames.size = st.frames.size
  gno : ∀ k, (st'.fr k).gno = (st.fr k).gno
  stacks : st'.stacks = st.stacks
  start : ∀ k, (st'.fr k).start = (st.fr k).start
  parent : ∀ k, (st'.fr k).parent = (st.fr k).parent
  psize : st'.pm.size = st.pm.size
  feq : ∀ k, FrameEq (st.fr k) (st'.fr k)

theorem SameG.refl (st : St) : SameG st st :=
  ⟨rfl, fun _ => rfl, rfl, fun _ => rfl, fun _ => rfl, rfl, fun _ => FrameEq.refl _⟩
theorem SameG.trans {a b c : St} (h1 : SameG a b) (h2 : SameG b c) : SameG a c :=
  ⟨h2.size.trans h1.size, fun k => (h2.gno k).trans (h1.gno k), h2.stacks.trans h1.stacks,
   fun k => (h2.start k).trans (h1.start k), fun k => (h2.parent k).trans (h1.parent k), h2.psize.trans h1.psize,
   fun k => (h1.feq k).trans (h2.feq k)⟩
theorem Keeps.sameG {a b : St} (h : Keeps a b) : SameG a b :=
  ⟨h.size, h.gno, h.stacks, h.start, h.parent, h.psize, h.feq⟩

def newLast (old : Option Nat) (str : Nat) : Option Nat :=
  match old with
  | none => some str
  | some le => some (max le str)

/-- `got_full_match` when at most `pmatch[0]` is wanted: always 0; `last_endpos` becomes the
larger of its old value and `str`; no step is consumed -/
theorem gotFull_spec (cx : Cx) (g str : Nat) (st : St) :
    ∃ st', gotFull cx str g st = (0, st') ∧ SameG st st' ∧ st'.budget = st.budget ∧
      st'.lastEnd = newLast st.lastEnd str := by
  have k1 : Keeps st (st.setFr g { st.fr g with end_ := some str }) := keeps_setFr st g _ rfl
  unfold gotFull
  simp only []
  rw [k1.last]
  cases hl : st.lastEnd with
  | none =>
    simp only []
    have kp := keeps_publishAll cx cx.nmatch 0 { st.setFr g { st.fr g with end_ := some str } with lastEnd := some str }
    refine ⟨_, rfl, (k1.sameG).trans ⟨kp.size, kp.gno, kp.stacks, kp.start, kp.parent, kp.psize, kp.feq⟩, kp.budget.trans k1.budget, ?_⟩
    rw [kp.last]; simp [newLast]
  | some le =>
    simp only []
    by_cases h1 : str < le
    · rw [if_pos h1]
      refine ⟨_, rfl, k1.sameG, k1.budget, ?_⟩
      rw [k1.last, hl]; simp [newLast]; omega
    · rw [if_neg h1]
      by_cases h2 : str > le
      · rw [if_pos h2]
        have kp := keeps_publishAll cx cx.nmatch 0 { st.setFr g { st.fr g with end_ := some str } with lastEnd := some str }
        refine ⟨_, rfl, (k1.sameG).trans ⟨kp.size, kp.gno, kp.stacks, kp.start, kp.parent, kp.psize, kp.feq⟩, kp.budget.trans k1.budget, ?_⟩
        rw [kp.last]; simp [newLast]; omega
      · rw [if_neg h2]
        have hle : str = le := by omega
        by_cases hb : (cx.strict && decide (cx.nmatch > 1)) = true
        · rw [if_pos hb]
          by_cases ht : tieLoop cx (st.setFr g { st.fr g with end_ := some str }) cx.nmatch 0 = true
          · rw [if_pos ht]
            simp only []
            have kp := keeps_publishAll cx cx.nmatch 0 (st.setFr g { st.fr g with end_ := some str })
            refine ⟨_, rfl, (k1.sameG).trans kp.sameG, kp.budget.trans k1.budget, ?_⟩
            rw [kp.last, k1.last, hl]; simp [newLast]; omega
          · rw [if_neg ht]
            refine ⟨_, rfl, k1.sameG, k1.budget, ?_⟩
            rw [k1.last, hl]; simp [newLast]; omega
        · rw [if_neg hb]
          refine ⟨_, rfl, k1.sameG, k1.budget, ?_⟩
          rw [k1.last, hl]; simp [newLast]; omega

/-! ## the search on parenthesis-free op lists -/

def Simple : COp → Bool
  | .group _ _ _ _ => false
  | _ => true

/-- declarative reading of an AND-list of simple ops: the greedy run of each atom may be cut back
to any length down to its minimum count -/
def OpsMatch (e : Env) : List COp → Nat → Nat → Prop
  | [], str, j => j = str
  | .chr c mn mx :: rest, str, j =>
      ∃ k, mn ≤ k ∧ k ≤ countWhile e (fun b => chrOk e c b) (e.s.size + 1) str (simpleMax mx) 0 ∧
        OpsMatch e rest (str + k) j
  | .any mn mx :: rest, str, j =>
      ∃ k, mn ≤ k ∧ k ≤ countWhile e (fun b => anyOk e b) (e.s.size + 1) str (simpleMax mx) 0 ∧
        OpsMatch e rest (str + k) j
  | .cls bm mn mx :: rest, str, j =>
      ∃ k, mn ≤ k ∧ k ≤ countWhile e (fun b => clsOk bm b) (e.s.size + 1) str (simpleMax mx) 0 ∧
        OpsMatch e rest (str + k) j
  | .bol :: rest, str, j => bolOk e str = true ∧ OpsMatch e rest str j
  | .eol :: rest, str, j => eolOk e str = true ∧ OpsMatch e rest str j
  | .group _ _ _ _ :: _, _, _ => False

def Good (err : Nat) : Prop := err ≠ OUT_OF_BUDGET ∧ err ≠ OUT_OF_FUEL

/-- what a (non-aborted) search over the match set `P` does: `got` = a match was already seen by
the caller's loop (strict mode only) -/
structure Post (cx : Cx) (J : St → Prop) (P : Nat → Prop) (got : Bool) (st : St) (err : Nat) (st' : St) : Prop where
  same : SameG st st'
  code : err = 0 ∨ err = NOMATCH
  ok : err = 0 ↔ (got = true ∨ ∃ j, P j)
  mono : ∀ le, st.lastEnd = some le → ∃ le', st'.lastEnd = some le' ∧ le ≤ le'
  upper : cx.strict = true → ∀ j, P j → ∃ le', st'.lastEnd = some le' ∧ j ≤ le'
  attained : st'.lastEnd = st.lastEnd ∨ ∃ j, P j ∧ st'.lastEnd = some j
  /-- a caller-chosen state invariant (used for `pmatch[0]`) is carried along -/
  keepJ : J st → J st'

theorem Post.congr {cx : Cx} {J : St → Prop} {P Q : Nat → Prop} {got st err st'} (h : ∀ j, P j ↔ Q j)
    (p : Post cx J P got st err st') : Post cx J Q got st err st' :=
  ⟨p.same, p.code, by rw [p.ok]; simp only [h], p.mono, fun hs j hj => p.upper hs j ((h j).mpr hj),
   by rcases p.attained with h1 | ⟨j, hj, h2⟩
      · exact Or.inl h1
      · exact Or.inr ⟨j, (h j).mp hj, h2⟩, p.keepJ⟩

/-- nothing matched, nothing changed -/
theorem Post.none {cx : Cx} {J : St → Prop} {P : Nat → Prop} (st : St) (hP : ∀ j, ¬ P j) : Post cx J P false st NOMATCH st :=
  ⟨SameG.refl st, Or.inr rfl, by simp [NOMATCH]; exact fun j => hP j, fun le h => ⟨le, h, Nat.le_refl _⟩,
   fun _ j hj => absurd hj (hP j), Or.inl rfl, id⟩

/-- a search over `P1` followed by a search over `P2` from the resulting state -/
theorem Post.seq {cx : Cx} {J : St → Prop} {P1 P2 : Nat → Prop} {g1 : Bool} {st st1 st2 : St} {e1 e2 : Nat}
    (p1 : Post cx J P1 g1 st e1 st1) (p2 : Post cx J P2 (g1 || decide (e1 = 0)) st1 e2 st2) :
    Post cx J (fun j => P1 j ∨ P2 j) g1 st e2 st2 := by
  refine ⟨p1.same.trans p2.same, p2.code, ?_, ?_, ?_, ?_, fun h => p2.keepJ (p1.keepJ h)⟩
  · rw [p2.ok]
    simp only [Bool.or_eq_true, decide_eq_true_eq]
    rw [p1.ok]
    constructor
    · rintro ((h | h | ⟨j, hj⟩) | ⟨j, hj⟩)
      · exact Or.inl h
      · exact Or.inl h
      · exact Or.inr ⟨j, Or.inl hj⟩
      · exact Or.inr ⟨j, Or.inr hj⟩
    · rintro (h | ⟨j, hj | hj⟩)
      · exact Or.inl (Or.inl h)
      · exact Or.inl (Or.inr (Or.inr ⟨j, hj⟩))
      · exact Or.inr ⟨j, hj⟩
  · intro le h
    obtain ⟨l1, h1, h1'⟩ := p1.mono le h
    obtain ⟨l2, h2, h2'⟩ := p2.mono l1 h1
    exact ⟨l2, h2, by omega⟩
  · intro hs j hj
    rcases hj with hj | hj
    · obtain ⟨l1, h1, h1'⟩ := p1.upper hs j hj
      obtain ⟨l2, h2, h2'⟩ := p2.mono l1 h1
      exact ⟨l2, h2, by omega⟩
    · exact p2.upper hs j hj
  · rcases p2.attained with h2 | ⟨j, hj, h2⟩
    · rcases p1.attained with h1 | ⟨j, hj, h1⟩
      · exact Or.inl (h2.trans h1)
      · exact Or.inr ⟨j, Or.inl hj, h2.trans h1⟩
    · exact Or.inr ⟨j, Or.inr hj, h2⟩

theorem Post.shift {cx : Cx} {J : St → Prop} {P : Nat → Prop} {got : Bool} {st st0 : St} {err : Nat} {st' : St}
    (hs : SameG st st0) (hl : st0.lastEnd = st.lastEnd) (hJ : J st → J st0) (p : Post cx J P got st0 err st') :
    Post cx J P got st err st' :=
  ⟨hs.trans p.same, p.code, p.ok, fun le h => p.mono le (hl.trans h), p.upper,
   by rcases p.attained with h | h
      · exact Or.inl (h.trans hl)
      · exact Or.inr h, fun h => p.keepJ (hJ h)⟩

theorem post_gotFull (cx : Cx) (J : St → Prop) (g str : Nat) (st : St) (err : Nat) (st' : St)
    (hJg : ∀ str st e st', gotFull cx str g st = (e, st') → J st → J st')
    (h : gotFull cx str g st = (err, st')) : Post cx J (fun j => j = str) false st err st' := by
  have hJ' : J st → J st' := hJg str st err st' h
  obtain ⟨st2, h2, hsame, _, hlast⟩ := gotFull_spec cx g str st
  rw [h2] at h
  obtain ⟨rfl, rfl⟩ := Prod.mk.inj h
  refine ⟨hsame, Or.inl rfl, by simp, ?_, ?_, ?_, hJ'⟩
  · intro le hle
    rw [hlast, hle]
    exact ⟨max le str, rfl, Nat.le_max_left _ _⟩
  · intro _ j hj
    subst hj
    rw [hlast]
    cases st.lastEnd with
    | none => exact ⟨j, rfl, Nat.le_refl _⟩
    | some le => exact ⟨max le j, rfl, Nat.le_max_right _ _⟩
  · rw [hlast]
    cases hl : st.lastEnd with
    | none => exact Or.inr ⟨str, rfl, rfl⟩
    | some le =>
      simp only [newLast]
      by_cases hc : str ≤ le
      · left; rw [Nat.max_eq_left hc]
      · right; exact ⟨str, rfl, by rw [Nat.max_eq_right (by omega)]⟩

def AllSimple (ops : List COp) : Prop := ∀ op, op ∈ ops → Simple op = true

theorem AllSimple.tail {op : COp} {ops : List COp} (h : AllSimple (op :: ops)) : AllSimple ops :=
  fun o ho => h o (List.mem_cons_of_mem _ ho)

/-- the search functions on simple op lists, by simultaneous induction on the fuel -/
theorem core (cx : Cx) (hn : cx.nmatch ≤ 1) (J : St → Prop) (g : Nat)
    (hJb : ∀ st : St, J st → J { st with budget := st.budget - 1 })
    (hJg : ∀ str st e st', gotFull cx str g st = (e, st') → J st → J st') : ∀ f : Nat,
    (∀ ops str st err st', AllSimple ops → (st.fr g).gno = 0 →
        doOps cx f ops str (some g) st = (err, st') → Good err →
        Post cx J (OpsMatch cx.env ops str) false st err st') ∧
    (∀ rest str cur mn st err st', AllSimple rest → (st.fr g).gno = 0 → cur ≤ str →
        scanNext cx f rest str (some g) cur mn st = (err, st') → Good err →
        Post cx J (fun j => ∃ k, mn ≤ k ∧ k ≤ cur ∧ OpsMatch cx.env rest (str - cur + k) j) false st err st') ∧
    (∀ rest str cur mn got st err st', AllSimple rest → (st.fr g).gno = 0 → mn ≤ cur → cur ≤ str →
        (got = true → cx.strict = true) →
        scanLoop cx f rest str (some g) cur mn got st = (err, st') → Good err →
        Post cx J (fun j => ∃ k, mn ≤ k ∧ k ≤ cur ∧ OpsMatch cx.env rest (str - cur + k) j) got st err st') := by
  intro f
  induction f with
  | zero =>
    refine ⟨?_, ?_, ?_⟩
    · intro ops str st err st' _ _ h hg
      simp only [doOps] at h
      obtain ⟨rfl, _⟩ := Prod.mk.inj h
      exact absurd rfl hg.2
    · intro rest str cur mn st err st' _ _ _ h hg
      simp only [scanNext] at h
      obtain ⟨rfl, _⟩ := Prod.mk.inj h
      exact absurd rfl hg.2
    · intro rest str cur mn got st err st' _ _ _ _ _ h hg
      simp only [scanLoop] at h
      obtain ⟨rfl, _⟩ := Prod.mk.inj h
      exact absurd rfl hg.2
  | succ f ih =>
    obtain ⟨ihd, ihn, ihs⟩ := ih
    refine ⟨?_, ?_, ?_⟩
    · -- doOps
      intro ops str st err st' hsimple hgno h hg
      simp only [doOps] at h
      by_cases hb : st.budget = 0
      · rw [if_pos hb] at h
        obtain ⟨rfl, _⟩ := Prod.mk.inj h
        exact absurd rfl hg.1
      · rw [if_neg hb] at h
        obtain ⟨st0, hst0⟩ : ∃ st0 : St, st0 = { st with budget := st.budget - 1 } := ⟨_, rfl⟩
        rw [← hst0] at h
        have hs0 : SameG st st0 := by rw [hst0]; exact ⟨rfl, fun _ => rfl, rfl, fun _ => rfl, fun _ => rfl, rfl, fun _ => FrameEq.refl _⟩
        have hg0 : (st0.fr g).gno = 0 := by rw [hst0]; exact hgno
        refine Post.shift hs0 (by rw [hst0]) (by rw [hst0]; exact hJb st) ?_
        cases ops with
        | nil =>
          simp only [hg0, if_true] at h
          exact post_gotFull cx J g str st0 err st' hJg h
        | cons op rest =>
          have hrest := hsimple.tail
          cases op with
          | chr c mn mx =>
            simp only [] at h
            refine Post.congr ?_ (ihn rest _ _ mn st0 err st' hrest hg0 (Nat.le_add_left _ _) h hg)
            intro j
            simp only [OpsMatch, Nat.add_sub_cancel]
          | any mn mx =>
            simp only [] at h
            refine Post.congr ?_ (ihn rest _ _ mn st0 err st' hrest hg0 (Nat.le_add_left _ _) h hg)
            intro j
            simp only [OpsMatch, Nat.add_sub_cancel]
          | cls bm mn mx =>
            simp only [] at h
            refine Post.congr ?_ (ihn rest _ _ mn st0 err st' hrest hg0 (Nat.le_add_left _ _) h hg)
            intro j
            simp only [OpsMatch, Nat.add_sub_cancel]
          | bol =>
            simp only [] at h
            by_cases hbol : bolOk cx.env str = true
            · rw [if_pos hbol] at h
              refine Post.congr ?_ (ihd rest str st0 err st' hrest hg0 h hg)
              intro j; simp [OpsMatch, hbol]
            · rw [if_neg hbol] at h
              obtain ⟨rfl, rfl⟩ := Prod.mk.inj h
              exact Post.none st0 (fun j hj => hbol hj.1)
          | eol =>
            simp only [] at h
            by_cases heol : eolOk cx.env str = true
            · rw [if_pos heol] at h
              refine Post.congr ?_ (ihd rest str st0 err st' hrest hg0 h hg)
              intro j; simp [OpsMatch, heol]
            · rw [if_neg heol] at h
              obtain ⟨rfl, rfl⟩ := Prod.mk.inj h
              exact Post.none st0 (fun j hj => heol hj.1)
          | group gno alts mn mx =>
            have := hsimple _ List.mem_cons_self
            simp [Simple] at this
    · -- scanNext
      intro rest str cur mn st err st' hrest hgno hcs h hg
      simp only [scanNext] at h
      by_cases h1 : cur = mn
      · rw [if_pos h1] at h
        refine Post.congr ?_ (ihd rest str st err st' hrest hgno h hg)
        intro j
        constructor
        · intro hj
          exact ⟨cur, by omega, Nat.le_refl _, by rw [Nat.sub_add_cancel hcs]; exact hj⟩
        · rintro ⟨k, hk1, hk2, hj⟩
          have : k = cur := by omega
          subst this
          rw [Nat.sub_add_cancel hcs] at hj
          exact hj
      · rw [if_neg h1] at h
        by_cases h2 : cur < mn
        · rw [if_pos h2] at h
          obtain ⟨rfl, rfl⟩ := Prod.mk.inj h
          exact Post.none st (fun j ⟨k, hk1, hk2, _⟩ => by omega)
        · rw [if_neg h2] at h
          exact ihs rest str cur mn false st err st' hrest hgno (by omega) hcs (fun hh => by cases hh) h hg
    · -- scanLoop
      intro rest str cur mn got st err st' hrest hgno hmc hcs hgot h hg
      simp only [scanLoop] at h
      cases h1 : doOps cx f rest str (some g) st with
      | mk e1 st1 =>
        rw [h1] at h
        simp only [] at h
        -- the first iteration looks at exactly `k = cur`
        have hfirst : ∀ j, OpsMatch cx.env rest str j ↔ OpsMatch cx.env rest (str - cur + cur) j := by
          intro j; rw [Nat.sub_add_cancel hcs]
        by_cases hsucc : (cx.strict && decide (e1 = 0)) = true
        · rw [if_pos hsucc] at h
          simp only [Bool.and_eq_true, decide_eq_true_eq] at hsucc
          obtain ⟨hstrict, he1⟩ := hsucc
          have p1 := ihd rest str st e1 st1 hrest hgno h1 (by subst he1; exact ⟨by decide, by decide⟩)
          by_cases hcm : cur = mn
          · rw [if_pos hcm] at h
            obtain ⟨rfl, rfl⟩ := Prod.mk.inj h
            refine ⟨p1.same, Or.inl rfl, ?_, p1.mono, ?_, ?_, p1.keepJ⟩
            · subst he1
              simp only [true_iff]
              right
              obtain ⟨j, hj⟩ := (p1.ok.mp rfl).resolve_left (by simp)
              exact ⟨j, cur, by omega, Nat.le_refl _, (hfirst j).mp hj⟩
            · rintro hs j ⟨k, hk1, hk2, hj⟩
              have : k = cur := by omega
              subst this
              exact p1.upper hs j ((hfirst j).mpr hj)
            · rcases p1.attained with ha | ⟨j, hj, ha⟩
              · exact Or.inl ha
              · exact Or.inr ⟨j, ⟨cur, by omega, Nat.le_refl _, (hfirst j).mp hj⟩, ha⟩
          · rw [if_neg hcm] at h
            have hgno1 : (st1.fr g).gno = 0 := by rw [p1.same.gno]; exact hgno
            have p2 := ihs rest (str - 1) (cur - 1) mn true st1 err st' hrest hgno1 (by omega) (by omega)
              (fun _ => hstrict) h hg
            have p1' : Post cx J (OpsMatch cx.env rest str) got st e1 st1 :=
              ⟨p1.same, p1.code, by rw [p1.ok]; subst he1; simp; exact fun _ => (p1.ok.mp rfl).resolve_left (by simp),
               p1.mono, p1.upper, p1.attained, p1.keepJ⟩
            have hgg : (got || decide (e1 = 0)) = true := by simp [he1]
            rw [← hgg] at p2
            refine Post.congr ?_ (Post.seq p1' p2)
            intro j
            constructor
            · rintro (hj | ⟨k, hk1, hk2, hj⟩)
              · exact ⟨cur, hmc, Nat.le_refl _, (hfirst j).mp hj⟩
              · refine ⟨k, hk1, by omega, ?_⟩
                have : str - 1 - (cur - 1) + k = str - cur + k := by omega
                rw [← this]; exact hj
            · rintro ⟨k, hk1, hk2, hj⟩
              by_cases hkc : k = cur
              · subst hkc; exact Or.inl ((hfirst j).mpr hj)
              · refine Or.inr ⟨k, hk1, by omega, ?_⟩
                have : str - 1 - (cur - 1) + k = str - cur + k := by omega
                rw [this]; exact hj
        · rw [if_neg hsucc] at h
          by_cases hnm : e1 ≠ NOMATCH
          · rw [if_pos hnm] at h
            obtain ⟨rfl, rfl⟩ := Prod.mk.inj h
            have p1 := ihd rest str st e1 st1 hrest hgno h1 hg
            have he0 : e1 = 0 := p1.code.resolve_right hnm
            have hns : cx.strict = false := by
              cases hcs' : cx.strict with
              | false => rfl
              | true => exact absurd (by simp [hcs', he0]) hsucc
            have hgf : got = false := by
              cases got with
              | false => rfl
              | true => rw [hgot rfl] at hns; cases hns
            subst hgf
            obtain ⟨j0, hj0⟩ := (p1.ok.mp he0).resolve_left (by simp)
            refine ⟨p1.same, Or.inl he0, ?_, p1.mono, (fun hs => by rw [hns] at hs; cases hs), ?_, p1.keepJ⟩
            · simp only [he0, true_iff]
              exact Or.inr ⟨j0, cur, hmc, Nat.le_refl _, (hfirst j0).mp hj0⟩
            · rcases p1.attained with ha | ⟨j, hj, ha⟩
              · exact Or.inl ha
              · exact Or.inr ⟨j, ⟨cur, hmc, Nat.le_refl _, (hfirst j).mp hj⟩, ha⟩
          · rw [if_neg hnm] at h
            have he1 : e1 = NOMATCH := Decidable.not_not.mp hnm
            have p1 := ihd rest str st e1 st1 hrest hgno h1 (by rw [he1]; exact ⟨by decide, by decide⟩)
            have hno : ∀ j, ¬ OpsMatch cx.env rest str j := by
              intro j hj
              have := p1.ok.mpr (Or.inr ⟨j, hj⟩)
              rw [he1] at this
              exact absurd this (by decide)
            have p1' : Post cx J (OpsMatch cx.env rest str) got st (if got then 0 else NOMATCH) st1 :=
              ⟨p1.same, by cases got <;> simp, by cases got <;> simp [NOMATCH] <;> exact fun j => hno j,
               p1.mono, p1.upper, p1.attained, p1.keepJ⟩
            by_cases hcm : cur = mn
            · rw [if_pos hcm] at h
              obtain ⟨rfl, rfl⟩ := Prod.mk.inj h
              refine Post.congr ?_ p1'
              intro j
              constructor
              · intro hj; exact absurd hj (hno j)
              · rintro ⟨k, hk1, hk2, hj⟩
                have : k = cur := by omega
                subst this
                exact absurd ((hfirst j).mpr hj) (hno j)
            · rw [if_neg hcm] at h
              have hgno1 : (st1.fr g).gno = 0 := by rw [p1.same.gno]; exact hgno
              have p2 := ihs rest (str - 1) (cur - 1) mn got st1 err st' hrest hgno1 (by omega) (by omega) hgot h hg
              have hgg : (got || decide ((if got then 0 else NOMATCH) = 0)) = got := by cases got <;> simp [NOMATCH]
              rw [← hgg] at p2
              refine Post.congr ?_ (Post.seq p1' p2)
              intro j
              constructor
              · rintro (hj | ⟨k, hk1, hk2, hj⟩)
                · exact absurd hj (hno j)
                · refine ⟨k, hk1, by omega, ?_⟩
                  have : str - 1 - (cur - 1) + k = str - cur + k := by omega
                  rw [← this]; exact hj
              · rintro ⟨k, hk1, hk2, hj⟩
                by_cases hkc : k = cur
                · subst hkc; exact absurd ((hfirst j).mpr hj) (hno j)
                · refine Or.inr ⟨k, hk1, by omega, ?_⟩
                  have : str - 1 - (cur - 1) + k = str - cur + k := by omega
                  rw [this]; exact hj

/-! ## group #0: the OR-list, the frame, the start-position loop -/

def AltsMatch (e : Env) (alts : List (List COp)) (str j : Nat) : Prop :=
  ∃ a, a ∈ alts ∧ OpsMatch e a str j

/-- the `while (alist)` loop for the frame `id` of group #0 -/
theorem altLoop_spec (cx : Cx) (hn : cx.nmatch ≤ 1) (J : St → Prop) (id : Nat)
    (hJb : ∀ st : St, J st → J { st with budget := st.budget - 1 })
    (hJg : ∀ str st e st', gotFull cx str id st = (e, st') → J st → J st')
    (hJe : ∀ st : St, J st → J (st.setFr id { st.fr id with end_ := none })) :
    ∀ (f : Nat) (alts : List (List COp)) (str err0 : Nat)
    (got : Bool) (st : St) (err : Nat) (got' : Bool) (st' : St),
    (∀ a, a ∈ alts → AllSimple a) → (st.fr id).gno = 0 → (got = true → cx.strict = true) →
    (err0 = NOMATCH ∨ (err0 = 0 ∧ got = true)) →
    altLoop cx f alts str id err0 got st = (err, got', st') → Good err →
    Post cx J (AltsMatch cx.env alts str) got st (if got' then 0 else err) st' := by
  intro f
  induction f with
  | zero =>
    intro alts str err0 got st err got' st' _ _ _ _ h hg
    simp only [altLoop] at h
    obtain ⟨rfl, _⟩ := Prod.mk.inj h
    exact absurd rfl hg.2
  | succ f ih =>
    intro alts str err0 got st err got' st' hsimple hgno hgot herr0 h hg
    cases alts with
    | nil =>
      simp only [altLoop] at h
      obtain ⟨rfl, h2⟩ := Prod.mk.inj h
      obtain ⟨rfl, rfl⟩ := Prod.mk.inj h2
      have hno : ∀ j, ¬ AltsMatch cx.env [] str j := fun j ⟨a, ha, _⟩ => by cases ha
      refine ⟨SameG.refl st, ?_, ?_, fun le hle => ⟨le, hle, Nat.le_refl _⟩, fun _ j hj => absurd hj (hno j), Or.inl rfl, fun h => h⟩
      · cases got <;> rcases herr0 with h0 | ⟨h0, h1⟩ <;> simp_all [NOMATCH]
      · cases got <;> rcases herr0 with h0 | ⟨h0, h1⟩ <;> simp_all [NOMATCH] <;> exact fun j => hno j
    | cons a more =>
      simp only [altLoop] at h
      have hmore : ∀ b, b ∈ more → AllSimple b := fun b hb => hsimple b (List.mem_cons_of_mem _ hb)
      have hsplit : ∀ j, (OpsMatch cx.env a str j ∨ AltsMatch cx.env more str j) ↔ AltsMatch cx.env (a :: more) str j := by
        intro j
        constructor
        · rintro (hj | ⟨b, hb, hj⟩)
          · exact ⟨a, List.mem_cons_self, hj⟩
          · exact ⟨b, List.mem_cons_of_mem _ hb, hj⟩
        · rintro ⟨b, hb, hj⟩
          rcases List.mem_cons.mp hb with rfl | hb
          · exact Or.inl hj
          · exact Or.inr ⟨b, hb, hj⟩
      cases h1 : doOps cx f a str (some id) st with
      | mk e1 st1 =>
        rw [h1] at h
        simp only [] at h
        by_cases hsucc : e1 = 0 ∧ cx.strict = true
        · rw [if_pos hsucc] at h
          obtain ⟨he1, hstrict⟩ := hsucc
          have p1 := (core cx hn J id hJb hJg f).1 a str st e1 st1 (hsimple a List.mem_cons_self) hgno h1
            (by subst he1; exact ⟨by decide, by decide⟩)
          obtain ⟨st1', hst1'⟩ : ∃ s : St, s = st1.setFr id { st1.fr id with end_ := none } := ⟨_, rfl⟩
          rw [← hst1'] at h
          have k1 : Keeps st1 st1' := by rw [hst1']; exact keeps_setFr st1 id _ rfl
          have hgno1 : (st1'.fr id).gno = 0 := by rw [k1.gno, p1.same.gno]; exact hgno
          have p2 := ih more str e1 true st1' err got' st' hmore hgno1 (fun _ => hstrict)
            (Or.inr ⟨he1, rfl⟩) h hg
          have p2' := Post.shift k1.sameG k1.last (by rw [hst1']; exact hJe st1) p2
          have p1' : Post cx J (OpsMatch cx.env a str) got st e1 st1 :=
            ⟨p1.same, p1.code, by rw [p1.ok]; subst he1; simp; exact fun _ => (p1.ok.mp rfl).resolve_left (by simp),
             p1.mono, p1.upper, p1.attained, p1.keepJ⟩
          have hgg : (got || decide (e1 = 0)) = true := by simp [he1]
          have p2'' : Post cx J (AltsMatch cx.env more str) (got || decide (e1 = 0)) st1 (if got' then 0 else err) st' := by
            rw [hgg]; exact p2'
          exact Post.congr hsplit (Post.seq p1' p2'')
        · rw [if_neg hsucc] at h
          by_cases hnm : e1 ≠ NOMATCH
          · rw [if_pos hnm] at h
            obtain ⟨rfl, h2⟩ := Prod.mk.inj h
            obtain ⟨rfl, rfl⟩ := Prod.mk.inj h2
            have p1 := (core cx hn J id hJb hJg f).1 a str st e1 st1 (hsimple a List.mem_cons_self) hgno h1 hg
            have he0 : e1 = 0 := p1.code.resolve_right hnm
            have hns : cx.strict = false := by
              cases hcs' : cx.strict with
              | false => rfl
              | true => exact absurd ⟨he0, hcs'⟩ hsucc
            have hgf : got = false := by
              cases got with
              | false => rfl
              | true => rw [hgot rfl] at hns; cases hns
            subst hgf
            obtain ⟨j0, hj0⟩ := (p1.ok.mp he0).resolve_left (by simp)
            simp only [Bool.false_eq_true, if_false]
            refine ⟨p1.same, Or.inl he0, ?_, p1.mono, (fun hs => by rw [hns] at hs; cases hs), ?_, p1.keepJ⟩
            · simp only [he0, true_iff]
              exact Or.inr ⟨j0, (hsplit j0).mp (Or.inl hj0)⟩
            · rcases p1.attained with ha | ⟨j, hj, ha⟩
              · exact Or.inl ha
              · exact Or.inr ⟨j, (hsplit j).mp (Or.inl hj), ha⟩
          · rw [if_neg hnm] at h
            have he1 : e1 = NOMATCH := Decidable.not_not.mp hnm
            have p1 := (core cx hn J id hJb hJg f).1 a str st e1 st1 (hsimple a List.mem_cons_self) hgno h1
              (by rw [he1]; exact ⟨by decide, by decide⟩)
            have hno : ∀ j, ¬ OpsMatch cx.env a str j := by
              intro j hj
              have := p1.ok.mpr (Or.inr ⟨j, hj⟩)
              rw [he1] at this
              exact absurd this (by decide)
            have p1' : Post cx J (OpsMatch cx.env a str) got st (if got then 0 else NOMATCH) st1 :=
              ⟨p1.same, by cases got <;> simp, by cases got <;> simp [NOMATCH] <;> exact fun j => hno j,
               p1.mono, p1.upper, p1.attained, p1.keepJ⟩
            have hgno1 : (st1.fr id).gno = 0 := by rw [p1.same.gno]; exact hgno
            have herr1 : e1 = NOMATCH ∨ (e1 = 0 ∧ got = true) := Or.inl he1
            have p2 := ih more str e1 got st1 err got' st' hmore hgno1 hgot herr1 h hg
            have hgg : (got || decide ((if got then 0 else NOMATCH) = 0)) = got := by cases got <;> simp [NOMATCH]
            have p2'' : Post cx J (AltsMatch cx.env more str) (got || decide ((if got then 0 else NOMATCH) = 0)) st1
                (if got' then 0 else err) st' := by rw [hgg]; exact p2
            exact Post.congr hsplit (Post.seq p1' p2'')

/-! ### `pmatch[0]`: the invariant carried through the search of group #0 -/

/-- `id` is the frame of group #0 for the start `s0`, on top of stack #0, and `pmatch[0]` shows
`(s0, last_endpos)` whenever a full match was seen -/
structure RootInv (id s0 N M : Nat) (st : St) : Prop where
  gsz : id < st.frames.size
  ssz : st.stacks.size = N
  psz : st.pm.size = M
  stk : st.stacks[0]! = some id
  start : (st.fr id).start = s0
  par : (st.fr id).parent = none
  gno : (st.fr id).gno = 0
  pm0 : ∀ le, st.lastEnd = some le → st.pm[0]! = ((s0 : Int), (le : Int))

theorem fillHist_pm (gno : Nat) : ∀ (f : Nat) (gm : Option Nat) (rl : Int) (st : St),
    (fillHist gno f gm rl st).pm = st.pm := by
  intro f
  induction f with
  | zero => intro gm rl st; simp only [fillHist]
  | succ f ih =>
    intro gm rl st
    cases gm with
    | none => simp only [fillHist]
    | some g =>
      simp only [fillHist]
      cases hp : (st.fr g).prev with
      | none => simp only []; rw [ih]
      | some p => simp only []; rw [ih]; rfl

theorem skip_root (st : St) (g n e : Nat) (he : (st.fr g).end_ = some e) :
    skipUnmatched st (n + 1) (some g) = some g := by
  simp [skipUnmatched, he]

theorem publish_pm_root (st : St) (g s0 e : Nat) (hstk : st.stacks[0]! = some g)
    (he : (st.fr g).end_ = some e) (hstart : (st.fr g).start = s0) (hpar : (st.fr g).parent = none) :
    (publish st 0).pm = st.pm.set! 0 ((s0 : Int), (e : Int)) := by
  unfold publish
  rw [hstk, skip_root st g _ e he]
  simp only [hpar]
  simp only [St.fr] at he hstart ⊢
  simp [he, hstart]

theorem publish_pm0_other (st : St) (gno : Nat) (hg : gno ≠ 0) : (publish st gno).pm[0]! = st.pm[0]! := by
  unfold publish
  simp only []
  split <;> simp [Array.getElem!_eq_getD, Array.getD_eq_getD_getElem?, Array.getElem?_setIfInBounds, hg]

theorem publishAll_pm0_from (cx : Cx) : ∀ (f gno : Nat) (st : St), gno ≠ 0 →
    (publishAll cx f gno st).pm[0]! = st.pm[0]! := by
  intro f
  induction f with
  | zero => intro gno st _; simp only [publishAll]
  | succ f ih =>
    intro gno st hg
    simp only [publishAll]
    by_cases hlt : gno < cx.nmatch
    · rw [if_pos hlt]
      cases hcs : cx.strict with
      | true =>
        simp only [if_true]
        rw [ih _ _ (by omega), fillHist_pm, publish_pm0_other st gno hg]
      | false =>
        simp only [Bool.false_eq_true, if_false]
        rw [ih _ _ (by omega), publish_pm0_other st gno hg]
    · rw [if_neg hlt]

theorem publishAll_pm_root (cx : Cx) (hn : 1 ≤ cx.nmatch) (st : St) (g s0 e : Nat) (hstk : st.stacks[0]! = some g)
    (he : (st.fr g).end_ = some e) (hstart : (st.fr g).start = s0) (hpar : (st.fr g).parent = none)
    (hp : 0 < st.pm.size) : (publishAll cx cx.nmatch 0 st).pm[0]! = ((s0 : Int), (e : Int)) := by
  obtain ⟨f, hf⟩ : ∃ f, cx.nmatch = f + 1 := ⟨cx.nmatch - 1, by omega⟩
  have h1 := publish_pm_root st g s0 e hstk he hstart hpar
  have hlt : 0 < cx.nmatch := by omega
  rw [hf]
  simp only [publishAll]
  rw [if_pos hlt]
  cases hcs : cx.strict with
  | true =>
    simp only [if_true]
    rw [publishAll_pm0_from cx f 1 _ (by omega), fillHist_pm, h1]
    simp [hp]
  | false =>
    simp only [Bool.false_eq_true, if_false]
    rw [publishAll_pm0_from cx f 1 _ (by omega), h1]
    simp [hp]

theorem rootInv_budget {id s0 N M : Nat} {st : St} (h : RootInv id s0 N M st) (b : Nat) :
    RootInv id s0 N M { st with budget := b } :=
  ⟨h.gsz, h.ssz, h.psz, h.stk, h.start, h.par, h.gno, h.pm0⟩

theorem rootInv_setEnd {id s0 N M : Nat} {st : St} (h : RootInv id s0 N M st) (en : Option Nat) :
    RootInv id s0 N M (st.setFr id { st.fr id with end_ := en }) := by
  have k := keeps_setFr st id { st.fr id with end_ := en } rfl
  exact ⟨by rw [k.size]; exact h.gsz, by rw [k.stacks]; exact h.ssz, h.psz, by rw [k.stacks]; exact h.stk,
    by rw [k.start]; exact h.start, by rw [k.parent]; exact h.par, by rw [k.gno]; exact h.gno, h.pm0⟩

theorem rootInv_gotFull (cx : Cx) (hn : 1 ≤ cx.nmatch) {id s0 N M : Nat} (hN : 0 < N) (hM : 0 < M) (str : Nat)
    (st : St) (e : Nat) (st' : St) (hgf : gotFull cx str id st = (e, st')) (h : RootInv id s0 N M st) :
    RootInv id s0 N M st' := by
  obtain ⟨st1, hst1⟩ : ∃ s : St, s = st.setFr id { st.fr id with end_ := some str } := ⟨_, rfl⟩
  have h1 : RootInv id s0 N M st1 := by rw [hst1]; exact rootInv_setEnd h (some str)
  have hend1 : (st1.fr id).end_ = some str := by
    rw [hst1, fr_setFr]; simp [h.gsz]
  have hl1 : st1.lastEnd = st.lastEnd := by rw [hst1]; rfl
  -- the publishing step, from any state that differs from `st1` at most in `last_endpos`
  have hpub : ∀ st2 : St, (∀ k, st2.fr k = st1.fr k) → st2.frames.size = st1.frames.size →
      st2.stacks = st1.stacks → st2.pm = st1.pm → st2.lastEnd = some str →
      RootInv id s0 N M (publishAll cx cx.nmatch 0 st2) := by
    intro st2 f2 hsz2 hstk2 hpm2 hl2
    have kp := keeps_publishAll cx cx.nmatch 0 st2
    have hpm := publishAll_pm_root cx hn st2 id s0 str (by rw [hstk2]; exact h1.stk) (by rw [f2]; exact hend1)
      (by rw [f2]; exact h1.start) (by rw [f2]; exact h1.par) (by rw [hpm2, h1.psz]; exact hM)
    refine ⟨by rw [kp.size, hsz2]; exact h1.gsz, by rw [kp.stacks, hstk2]; exact h1.ssz,
      by rw [kp.psize, hpm2]; exact h1.psz, by rw [kp.stacks, hstk2]; exact h1.stk,
      by rw [kp.start, f2]; exact h1.start, by rw [kp.parent, f2]; exact h1.par, by rw [kp.gno, f2]; exact h1.gno, ?_⟩
    intro le hle
    rw [kp.last, hl2] at hle
    cases hle
    exact hpm
  unfold gotFull at hgf
  simp only [] at hgf
  rw [← hst1] at hgf
  rw [hl1] at hgf
  cases hl : st.lastEnd with
  | none =>
    rw [hl] at hgf
    simp only [] at hgf
    obtain ⟨_, rfl⟩ := Prod.mk.inj hgf
    exact hpub _ (fun _ => rfl) rfl rfl rfl rfl
  | some le =>
    rw [hl] at hgf
    simp only [] at hgf
    by_cases c1 : str < le
    · rw [if_pos c1] at hgf
      obtain ⟨_, rfl⟩ := Prod.mk.inj hgf
      exact h1
    · rw [if_neg c1] at hgf
      by_cases c2 : str > le
      · rw [if_pos c2] at hgf
        obtain ⟨_, rfl⟩ := Prod.mk.inj hgf
        exact hpub _ (fun _ => rfl) rfl rfl rfl rfl
      · rw [if_neg c2] at hgf
        have hle : str = le := by omega
        by_cases hb : (cx.strict && decide (cx.nmatch > 1)) = true
        · rw [if_pos hb] at hgf
          by_cases ht : tieLoop cx st1 cx.nmatch 0 = true
          · rw [if_pos ht] at hgf
            simp only [] at hgf
            obtain ⟨_, rfl⟩ := Prod.mk.inj hgf
            exact hpub st1 (fun _ => rfl) rfl rfl rfl (by rw [hl1, hl, hle])
          · rw [if_neg ht] at hgf
            obtain ⟨_, rfl⟩ := Prod.mk.inj hgf
            exact h1
        · rw [if_neg hb] at hgf
          obtain ⟨_, rfl⟩ := Prod.mk.inj hgf
          exact h1

/-- result of one `do_match(root, str, NULL)` -/
structure RootPost (cx : Cx) (P : Nat → Prop) (str : Nat) (st : St) (err : Nat) (st' : St) : Prop where
  code : err = 0 ∨ err = NOMATCH
  ok : err = 0 ↔ ∃ j, P j
  upper : cx.strict = true → ∀ j, P j → ∃ le', st'.lastEnd = some le' ∧ j ≤ le'
  attained : st'.lastEnd = st.lastEnd ∨ ∃ j, P j ∧ st'.lastEnd = some j
  ssz : st'.stacks.size = st.stacks.size
  psz : st'.pm.size = st.pm.size
  pm0 : cx.nmatch = 1 → 0 < st.stacks.size → 0 < st.pm.size → st.lastEnd = none →
    ∀ le, st'.lastEnd = some le → st'.pm[0]! = ((str : Int), (le : Int))

theorem root_spec (cx : Cx) (hn : cx.nmatch ≤ 1) (f : Nat) (alts : List (List COp)) (str : Nat) (st : St)
    (err : Nat) (st' : St) (hsimple : ∀ a, a ∈ alts → AllSimple a)
    (h : matchGroup cx f 0 alts 1 1 [] str none st = (err, st')) (hg : Good err) :
    RootPost cx (AltsMatch cx.env alts str) str st err st' := by
  cases f with
  | zero =>
    simp only [matchGroup] at h
    obtain ⟨rfl, _⟩ := Prod.mk.inj h
    exact absurd rfl hg.2
  | succ f =>
    simp only [matchGroup] at h
    obtain ⟨st1, hst1⟩ : ∃ s : St, s = { st with
        frames := st.frames.push { gno := 0, alts := alts, min := 1, max := 1, next := [], start := str,
                                   prev := st.stacks[0]!, parent := none },
        stacks := st.stacks.set! 0 (some st.frames.size) } := ⟨_, rfl⟩
    rw [← hst1] at h
    have hgno : (st1.fr st.frames.size).gno = 0 := by rw [hst1]; simp [St.fr]
    have hstart1 : (st1.fr st.frames.size).start = str := by rw [hst1]; simp [St.fr]
    have hpar1 : (st1.fr st.frames.size).parent = none := by rw [hst1]; simp [St.fr]
    have hlast1 : st1.lastEnd = st.lastEnd := by rw [hst1]
    -- the invariant for pmatch[0], needed only when pmatch[0] is wanted
    obtain ⟨J, hJ⟩ : ∃ J : St → Prop, J = fun s => (cx.nmatch = 1 ∧ 0 < st.stacks.size ∧ 0 < st.pm.size) →
        RootInv st.frames.size str st.stacks.size st.pm.size s := ⟨_, rfl⟩
    have hJb : ∀ s : St, J s → J { s with budget := s.budget - 1 } := by
      intro s hs; rw [hJ] at hs ⊢; intro hc; exact rootInv_budget (hs hc) _
    have hJg : ∀ str' s e s', gotFull cx str' st.frames.size s = (e, s') → J s → J s' := by
      intro str' s e s' hgf hs; rw [hJ] at hs ⊢; intro hc
      exact rootInv_gotFull cx (by omega) hc.2.1 hc.2.2 str' s e s' hgf (hs hc)
    have hJe : ∀ s : St, J s → J (s.setFr st.frames.size { s.fr st.frames.size with end_ := none }) := by
      intro s hs; rw [hJ] at hs ⊢; intro hc; exact rootInv_setEnd (hs hc) none
    cases h1 : altLoop cx f alts str st.frames.size NOMATCH false st1 with
    | mk e1 r1 =>
      obtain ⟨got1, st2⟩ := r1
      rw [h1] at h
      simp only [Nat.lt_irrefl, Nat.zero_lt_one, if_true, Nat.one_ne_zero, false_and, if_false] at h
      obtain ⟨rfl, rfl⟩ := Prod.mk.inj h
      have hge : Good e1 := by
        constructor
        · intro h98
          rw [h98] at hg
          simp [OUT_OF_BUDGET] at hg
          exact hg.1 (by simp [OUT_OF_BUDGET])
        · intro h99
          rw [h99] at hg
          simp [OUT_OF_FUEL] at hg
          exact hg.2 (by simp [OUT_OF_FUEL])
      have p := altLoop_spec cx hn J st.frames.size hJb hJg hJe f alts str NOMATCH false st1 e1 got1 st2 hsimple hgno
        (fun hh => by cases hh) (Or.inl rfl) h1 hge
      have hfin : (if got1 = true ∧ e1 ≠ OUT_OF_BUDGET ∧ e1 ≠ OUT_OF_FUEL then 0 else e1) = (if got1 then 0 else e1) := by
        cases got1 <;> simp [hge.1, hge.2]
      rw [hfin]
      refine ⟨p.code, ?_, p.upper, ?_, ?_, ?_, ?_⟩
      · rw [p.ok]; simp
      · rcases p.attained with ha | ha
        · exact Or.inl (ha.trans hlast1)
        · exact Or.inr ha
      · show (st2.stacks.set! 0 _).size = _
        have := p.same.stacks
        simp only [Array.set!_eq_setIfInBounds, Array.size_setIfInBounds]
        rw [this, hst1]; simp
      · show st2.pm.size = _
        rw [p.same.psize, hst1]
      · intro hc1 hc2 hc3 hl le hle
        have hJ1 : J st1 := by
          rw [hJ]; intro _
          refine ⟨by rw [hst1]; simp, by rw [hst1]; simp, by rw [hst1], by rw [hst1]; simp [hc2],
            hstart1, hpar1, hgno, ?_⟩
          intro le' hle'
          rw [hlast1, hl] at hle'; cases hle'
        have hJ2 := p.keepJ hJ1
        rw [hJ] at hJ2
        exact (hJ2 ⟨hc1, hc2, hc3⟩).pm0 le hle

/-- leftmost-longest, stated for the op lists of group #0 -/
structure OpsLL (e : Env) (alts : List (List COp)) (strict : Bool) (rc pos : Nat) (last : Option Nat) : Prop where
  /-- the start is inside the subject (or at its end) -/
  inb : pos ≤ e.s.size
  /-- some alternative matches from `pos` -/
  found : ∃ j, AltsMatch e alts pos j
  /-- nothing matches from an earlier start -/
  leftmost : ∀ i, i < pos → ∀ j, ¬ AltsMatch e alts i j
  /-- in strict mode `last_endpos` is the longest end from `pos` -/
  longest : strict = true → ∃ le, last = some le ∧ AltsMatch e alts pos le ∧ ∀ j, AltsMatch e alts pos j → j ≤ le

theorem startLoop_spec (cx : Cx) (hn : cx.nmatch ≤ 1) (alts : List (List COp))
    (hsimple : ∀ a, a ∈ alts → AllSimple a) (fuel : Nat) : ∀ (k str : Nat) (st : St) (rc pos : Nat) (st' : St),
    st.lastEnd = none → str ≤ cx.env.s.size → startLoop cx alts fuel k str st = (rc, pos, st') → Good rc →
    (rc = 0 ∧ str ≤ pos ∧ pos ≤ cx.env.s.size ∧ (∃ j, AltsMatch cx.env alts pos j) ∧
        (∀ i, str ≤ i → i < pos → ∀ j, ¬ AltsMatch cx.env alts i j) ∧
        (cx.strict = true → ∃ le, st'.lastEnd = some le ∧ AltsMatch cx.env alts pos le ∧
            ∀ j, AltsMatch cx.env alts pos j → j ≤ le) ∧
        st'.pm.size = st.pm.size ∧
        (cx.nmatch = 1 → 0 < st.stacks.size → 0 < st.pm.size →
            ∀ le, st'.lastEnd = some le → st'.pm[0]! = ((pos : Int), (le : Int)))) ∨
    (rc = NOMATCH ∧ ∀ i, str ≤ i → i < str + k → i ≤ cx.env.s.size → ∀ j, ¬ AltsMatch cx.env alts i j) := by
  intro k
  induction k with
  | zero =>
    intro str st rc pos st' _ _ h _
    simp only [startLoop] at h
    obtain ⟨rfl, _⟩ := Prod.mk.inj h
    exact Or.inr ⟨rfl, fun i h1 h2 => by omega⟩
  | succ k ih =>
    intro str st rc pos st' hl hstr h hg
    simp only [startLoop] at h
    cases h1 : matchGroup cx fuel 0 alts 1 1 [] str none st with
    | mk e1 st1 =>
      rw [h1] at h
      simp only [] at h
      by_cases hc : e1 = NOMATCH ∧ str < cx.env.s.size
      · rw [if_pos hc] at h
        have p := root_spec cx hn fuel alts str st e1 st1 hsimple h1 (by rw [hc.1]; exact ⟨by decide, by decide⟩)
        have hno : ∀ j, ¬ AltsMatch cx.env alts str j := by
          intro j hj
          have := p.ok.mpr ⟨j, hj⟩
          rw [hc.1] at this
          exact absurd this (by decide)
        have hl1 : st1.lastEnd = none := by
          rcases p.attained with ha | ⟨j, hj, _⟩
          · exact ha.trans hl
          · exact absurd hj (hno j)
        rcases ih (str + 1) st1 rc pos st' hl1 (by omega) h hg with
          ⟨r0, hp, hpb, hf, hleft, hlong, hps, hpm⟩ | ⟨r1, hnone⟩
        · refine Or.inl ⟨r0, by omega, hpb, hf, ?_, hlong, hps.trans p.psz, ?_⟩
          · intro i hi1 hi2 j
            by_cases his : i = str
            · subst his; exact hno j
            · exact hleft i (by omega) hi2 j
          · intro c1 c2 c3
            exact hpm c1 (by rw [p.ssz]; exact c2) (by rw [p.psz]; exact c3)
        · refine Or.inr ⟨r1, ?_⟩
          intro i hi1 hi2 hi3 j
          by_cases his : i = str
          · subst his; exact hno j
          · exact hnone i (by omega) (by omega) hi3 j
      · rw [if_neg hc] at h
        obtain ⟨rfl, h2⟩ := Prod.mk.inj h
        obtain ⟨rfl, rfl⟩ := Prod.mk.inj h2
        have p := root_spec cx hn fuel alts str st e1 st1 hsimple h1 hg
        rcases p.code with r0 | r1
        · refine Or.inl ⟨r0, Nat.le_refl _, hstr, p.ok.mp r0, fun i h1 h2 => by omega, ?_, p.psz,
            fun c1 c2 c3 => p.pm0 c1 c2 c3 hl⟩
          intro hs
          obtain ⟨j0, hj0⟩ := p.ok.mp r0
          obtain ⟨le, hle, _⟩ := p.upper hs j0 hj0
          rcases p.attained with ha | ⟨j, hj, ha⟩
          · rw [ha, hl] at hle; cases hle
          · refine ⟨j, ha, hj, ?_⟩
            intro j' hj'
            obtain ⟨le', hle', hle''⟩ := p.upper hs j' hj'
            rw [ha] at hle'
            cases hle'
            exact hle''
        · refine Or.inr ⟨r1, ?_⟩
          intro i hi1 hi2 hi3 j hj
          have hsz : ¬ str < cx.env.s.size := fun hh => hc ⟨r1, hh⟩
          have : i = str := by omega
          subst this
          have := p.ok.mpr ⟨j, hj⟩
          rw [r1] at this
          exact absurd this (by decide)

/-- **the matcher model on parenthesis-free patterns**: unless the model itself ran out of
fuel/steps, `usual_regexec` returns 0 exactly when some alternative matches somewhere, stops at
the leftmost such start, and (when `pmatch` is wanted) leaves the longest end in `last_endpos` -/
theorem cExec_ops_spec (alts : List (List COp)) (hsimple : ∀ a, a ∈ alts → AllSimple a) (nosub : Bool) (e : Env)
    (nmatch budget fuel : Nat) (hg : Good (cExec alts 0 nosub e nmatch budget fuel).rc) :
    let res := cExec alts 0 nosub e nmatch budget fuel
    (res.rc = 0 ∧ OpsLL e alts (!nosub && decide (nmatch > 0)) res.rc res.start res.last ∧
      ((!nosub && decide (nmatch > 0)) = true → ∀ le, res.last = some le →
        res.pm.head? = some ((res.start : Int), (le : Int)))) ∨
    (res.rc = NOMATCH ∧ ∀ i, i ≤ e.s.size → ∀ j, ¬ AltsMatch e alts i j) := by
  intro res
  obtain ⟨cx, hcx⟩ : ∃ cx : Cx, cx = mkCx e 0 nosub nmatch := ⟨_, rfl⟩
  have hcn : cx.nmatch ≤ 1 := by
    rw [hcx]; simp only [mkCx]
    split
    · omega
    · split <;> omega
  have hce : cx.env = e := by rw [hcx]; rfl
  have hcs : cx.strict = (!nosub && decide (nmatch > 0)) := by
    rw [hcx]; simp only [mkCx]
    cases nosub <;> simp
    split <;> simp <;> omega
  obtain ⟨st0, hst0⟩ : ∃ st0 : St, st0 = initSt 0 nosub nmatch budget := ⟨_, rfl⟩
  have hl0 : st0.lastEnd = none := by rw [hst0]; rfl
  cases hrun : startLoop cx alts fuel (e.s.size + 1) 0 st0 with
  | mk rc r2 =>
    obtain ⟨pos, st'⟩ := r2
    have hres : res = { rc := rc, pm := st'.pm.toList, start := pos, last := st'.lastEnd, stepsLeft := st'.budget } := by
      show cExec alts 0 nosub e nmatch budget fuel = _
      unfold cExec
      rw [← hcx, ← hst0, hrun]
    have hg' : Good rc := by
      have : res.rc = rc := by rw [hres]
      rw [← this]; exact hg
    rcases startLoop_spec cx hcn alts hsimple fuel (e.s.size + 1) 0 st0 rc pos st' hl0 (Nat.zero_le _) hrun hg' with
      ⟨r0, _, hpb, hf, hleft, hlong, hps, hpm⟩ | ⟨r1, hnone⟩
    · left
      rw [hres]
      refine ⟨r0, ⟨?_, ?_, ?_, ?_⟩, ?_⟩
      · rw [← hce]; exact hpb
      · rw [← hce]; exact hf
      · intro i hi j; rw [← hce]; exact hleft i (Nat.zero_le _) hi j
      · intro hs
        rw [← hcs] at hs
        obtain ⟨le, h1, h2, h3⟩ := hlong hs
        rw [hce] at h2 h3
        exact ⟨le, h1, h2, h3⟩
      · intro hs le hle
        simp only [Bool.and_eq_true, Bool.not_eq_true', decide_eq_true_eq] at hs
        obtain ⟨hns, hnm⟩ := hs
        have hc1 : cx.nmatch = 1 := by
          rw [hcx]; simp only [mkCx, hns]
          simp
          omega
        have hst : 0 < st0.stacks.size := by rw [hst0]; simp [initSt]
        have hpz : 0 < st0.pm.size := by rw [hst0]; simp [initSt, hns]; exact hnm
        have h0 := hpm hc1 hst hpz le hle
        have hsz' : 0 < st'.pm.size := by rw [hps]; exact hpz
        show st'.pm.toList.head? = _
        rw [← h0]
        cases hpl : st'.pm.toList with
        | nil =>
          have : st'.pm.size = 0 := by simpa using congrArg List.length hpl
          omega
        | cons x xs =>
          simp only [List.head?_cons, Option.some.injEq]
          have : st'.pm[0]! = st'.pm.toList[0]! := by simp [Array.getElem!_eq_getD, Array.getD_eq_getD_getElem?]
          rw [this, hpl]; rfl
    · right
      rw [hres]
      refine ⟨r1, ?_⟩
      intro i hi j
      rw [← hce]
      exact hnone i (Nat.zero_le _) (by omega) (by rw [hce]; exact hi) j

end Usual.C04.CM
