import Usual.C04.CMatch
import UsualProofs.C04.Ends
/-! Helper lemmas for C04: the model of the C back-tracking matcher (`Usual.C04.CM`) refines the
reference on the parenthesis-free fragment (simple atoms with counts, anchors, concatenation,
top-level alternation): return code, start position and `last_endpos`. -/
set_option linter.unusedSimpArgs false
set_option linter.unusedVariables false
namespace Usual.C04.CM
open Usual.C04

/-! ## what the bookkeeping (`publish_gm`, `fill_history`) cannot change -/

/-- `st'` has the same frames as `st` up to fields other than the owner group number, and the same
search state (`last_endpos`, step budget) -/
structure Keeps (st st' : St) : Prop where
  size : st'.frames.size = st.frames.size
  gno : ∀ k, (st'.fr k).gno = (st.fr k).gno
  last : st'.lastEnd = st.lastEnd
  budget : st'.budget = st.budget

theorem Keeps.refl (st : St) : Keeps st st := ⟨rfl, fun _ => rfl, rfl, rfl⟩

theorem Keeps.trans {a b c : St} (h1 : Keeps a b) (h2 : Keeps b c) : Keeps a c :=
  ⟨h2.size.trans h1.size, fun k => (h2.gno k).trans (h1.gno k), h2.last.trans h1.last, h2.budget.trans h1.budget⟩

theorem fr_setFr (st : St) (g k : Nat) (f : Frame) :
    (st.setFr g f).fr k = if k = g ∧ g < st.frames.size then f else st.fr k := by
  simp only [St.fr, St.setFr]
  by_cases h : k = g ∧ g < st.frames.size
  · obtain ⟨rfl, hg⟩ := h
    simp [hg]
  · rw [if_neg h]
    by_cases hk : k = g
    · subst hk
      have : ¬ k < st.frames.size := fun hh => h ⟨rfl, hh⟩
      simp [Array.getElem!_eq_getD, Array.getD_eq_getD_getElem?, this]
    · simp [Array.getElem!_eq_getD, Array.getD_eq_getD_getElem?, Array.getElem?_setIfInBounds, Ne.symm hk]

theorem keeps_setFr (st : St) (g : Nat) (f : Frame) (h : f.gno = (st.fr g).gno) : Keeps st (st.setFr g f) := by
  refine ⟨by simp [St.setFr], ?_, rfl, rfl⟩
  intro k
  rw [fr_setFr]
  by_cases hk : k = g ∧ g < st.frames.size
  · rw [if_pos hk, h, hk.1]
  · rw [if_neg hk]

theorem keeps_fillHist (gno : Nat) : ∀ (f : Nat) (gm : Option Nat) (rl : Int) (st : St),
    Keeps st (fillHist gno f gm rl st) := by
  intro f
  induction f with
  | zero => intro gm rl st; simp only [fillHist]; exact Keeps.refl st
  | succ f ih =>
    intro gm rl st
    cases gm with
    | none => simp only [fillHist]; exact Keeps.refl st
    | some g =>
      simp only [fillHist]
      cases hp : (st.fr g).prev with
      | none =>
        simp only []
        refine Keeps.trans ?_ (ih _ _ _)
        exact ⟨rfl, fun _ => rfl, rfl, rfl⟩
      | some p =>
        simp only []
        refine Keeps.trans ?_ (ih _ _ _)
        exact keeps_setFr st p _ rfl

theorem keeps_publish (st : St) (gno : Nat) : Keeps st (publish st gno) := by
  unfold publish
  simp only []
  split <;> exact ⟨rfl, fun _ => rfl, rfl, rfl⟩

theorem keeps_publishAll (cx : Cx) : ∀ (f gno : Nat) (st : St), Keeps st (publishAll cx f gno st) := by
  intro f
  induction f with
  | zero => intro gno st; simp only [publishAll]; exact Keeps.refl st
  | succ f ih =>
    intro gno st
    simp only [publishAll]
    by_cases hg : gno < cx.nmatch
    · rw [if_pos hg]
      by_cases hs : cx.strict = true
      · simp only [hs, if_true]
        exact Keeps.trans (Keeps.trans (keeps_publish st gno) (keeps_fillHist gno _ _ _ _)) (ih _ _)
      · simp only [hs, if_false]
        exact Keeps.trans (keeps_publish st gno) (ih _ _)
    · rw [if_neg hg]; exact Keeps.refl st

/-- `SameG`: like `Keeps` but `last_endpos` may have moved -/
structure SameG (st st' : St) : Prop where
  size : st'.frames.size = st.frames.size
  gno : ∀ k, (st'.fr k).gno = (st.fr k).gno

theorem SameG.refl (st : St) : SameG st st := ⟨rfl, fun _ => rfl⟩
theorem SameG.trans {a b c : St} (h1 : SameG a b) (h2 : SameG b c) : SameG a c :=
  ⟨h2.size.trans h1.size, fun k => (h2.gno k).trans (h1.gno k)⟩
theorem Keeps.sameG {a b : St} (h : Keeps a b) : SameG a b := ⟨h.size, h.gno⟩

def newLast (old : Option Nat) (str : Nat) : Option Nat :=
  match old with
  | none => some str
  | some le => some (max le str)

/-- `got_full_match` when at most `pmatch[0]` is wanted: always 0; `last_endpos` becomes the
larger of its old value and `str`; no step is consumed -/
theorem gotFull_spec (cx : Cx) (hn : cx.nmatch ≤ 1) (g str : Nat) (st : St) :
    ∃ st', gotFull cx str g st = (0, st') ∧ SameG st st' ∧ st'.budget = st.budget ∧
      st'.lastEnd = newLast st.lastEnd str := by
  have k1 : Keeps st (st.setFr g { st.fr g with end_ := some str }) := keeps_setFr st g _ rfl
  unfold gotFull
  simp only []
  rw [k1.last]
  have hnm : ¬ cx.nmatch > 1 := by omega
  cases hl : st.lastEnd with
  | none =>
    simp only []
    have kp := keeps_publishAll cx cx.nmatch 0 { st.setFr g { st.fr g with end_ := some str } with lastEnd := some str }
    refine ⟨_, rfl, ⟨kp.size.trans k1.size, fun k => (kp.gno k).trans (k1.gno k)⟩, kp.budget.trans k1.budget, ?_⟩
    rw [kp.last]; simp [newLast]
  | some le =>
    simp only []
    by_cases h1 : str < le
    · rw [if_pos h1]
      refine ⟨_, rfl, k1.sameG, k1.budget, ?_⟩
      rw [k1.last, hl]; simp [newLast]; omega
    · rw [if_neg h1]
      by_cases h2 : str > le
      · rw [if_pos h2]
        have kp := keeps_publishAll cx cx.nmatch 0 { st.setFr g { st.fr g with end_ := some str } with lastEnd := some str }
        refine ⟨_, rfl, ⟨kp.size.trans k1.size, fun k => (kp.gno k).trans (k1.gno k)⟩, kp.budget.trans k1.budget, ?_⟩
        rw [kp.last]; simp [newLast]; omega
      · rw [if_neg h2]
        simp only [hnm, decide_false, Bool.and_false, Bool.false_eq_true, if_false]
        refine ⟨_, rfl, k1.sameG, k1.budget, ?_⟩
        rw [k1.last, hl]; simp [newLast]; omega

/-! ## the search on parenthesis-free op lists -/

def Simple : COp → Bool
  | .group _ _ _ _ => false
  | _ => true

/-- declarative reading of an AND-list of simple ops: the greedy run of each atom may be cut back
to any length down to its minimum count -/
def OpsMatch (e : Env) : List COp → Nat → Nat → Prop
  | [], str, j => j = str
  | .chr c mn mx :: rest, str, j =>
      ∃ k, mn ≤ k ∧ k ≤ countWhile e (fun b => chrOk e c b) (e.s.size + 1) str (simpleMax mx) 0 ∧
        OpsMatch e rest (str + k) j
  | .any mn mx :: rest, str, j =>
      ∃ k, mn ≤ k ∧ k ≤ countWhile e (fun b => anyOk e b) (e.s.size + 1) str (simpleMax mx) 0 ∧
        OpsMatch e rest (str + k) j
  | .cls bm mn mx :: rest, str, j =>
      ∃ k, mn ≤ k ∧ k ≤ countWhile e (fun b => clsOk bm b) (e.s.size + 1) str (simpleMax mx) 0 ∧
        OpsMatch e rest (str + k) j
  | .bol :: rest, str, j => bolOk e str = true ∧ OpsMatch e rest str j
  | .eol :: rest, str, j => eolOk e str = true ∧ OpsMatch e rest str j
  | .group _ _ _ _ :: _, _, _ => False

def Good (err : Nat) : Prop := err ≠ OUT_OF_BUDGET ∧ err ≠ OUT_OF_FUEL

/-- what a (non-aborted) search over the match set `P` does: `got` = a match was already seen by
the caller's loop (strict mode only) -/
structure Post (cx : Cx) (P : Nat → Prop) (got : Bool) (st : St) (err : Nat) (st' : St) : Prop where
  same : SameG st st'
  code : err = 0 ∨ err = NOMATCH
  ok : err = 0 ↔ (got = true ∨ ∃ j, P j)
  mono : ∀ le, st.lastEnd = some le → ∃ le', st'.lastEnd = some le' ∧ le ≤ le'
  upper : cx.strict = true → ∀ j, P j → ∃ le', st'.lastEnd = some le' ∧ j ≤ le'
  attained : st'.lastEnd = st.lastEnd ∨ ∃ j, P j ∧ st'.lastEnd = some j

theorem Post.congr {cx : Cx} {P Q : Nat → Prop} {got st err st'} (h : ∀ j, P j ↔ Q j)
    (p : Post cx P got st err st') : Post cx Q got st err st' :=
  ⟨p.same, p.code, by rw [p.ok]; simp only [h], p.mono, fun hs j hj => p.upper hs j ((h j).mpr hj),
   by rcases p.attained with h1 | ⟨j, hj, h2⟩
      · exact Or.inl h1
      · exact Or.inr ⟨j, (h j).mp hj, h2⟩⟩

/-- nothing matched, nothing changed -/
theorem Post.none {cx : Cx} {P : Nat → Prop} (st : St) (hP : ∀ j, ¬ P j) : Post cx P false st NOMATCH st :=
  ⟨SameG.refl st, Or.inr rfl, by simp [NOMATCH]; exact fun j => hP j, fun le h => ⟨le, h, Nat.le_refl _⟩,
   fun _ j hj => absurd hj (hP j), Or.inl rfl⟩

/-- a search over `P1` followed by a search over `P2` from the resulting state -/
theorem Post.seq {cx : Cx} {P1 P2 : Nat → Prop} {g1 : Bool} {st st1 st2 : St} {e1 e2 : Nat}
    (p1 : Post cx P1 g1 st e1 st1) (p2 : Post cx P2 (g1 || decide (e1 = 0)) st1 e2 st2) :
    Post cx (fun j => P1 j ∨ P2 j) g1 st e2 st2 := by
  refine ⟨p1.same.trans p2.same, p2.code, ?_, ?_, ?_, ?_⟩
  · rw [p2.ok]
    simp only [Bool.or_eq_true, decide_eq_true_eq]
    rw [p1.ok]
    constructor
    · rintro ((h | h | ⟨j, hj⟩) | ⟨j, hj⟩)
      · exact Or.inl h
      · exact Or.inl h
      · exact Or.inr ⟨j, Or.inl hj⟩
      · exact Or.inr ⟨j, Or.inr hj⟩
    · rintro (h | ⟨j, hj | hj⟩)
      · exact Or.inl (Or.inl h)
      · exact Or.inl (Or.inr (Or.inr ⟨j, hj⟩))
      · exact Or.inr ⟨j, hj⟩
  · intro le h
    obtain ⟨l1, h1, h1'⟩ := p1.mono le h
    obtain ⟨l2, h2, h2'⟩ := p2.mono l1 h1
    exact ⟨l2, h2, by omega⟩
  · intro hs j hj
    rcases hj with hj | hj
    · obtain ⟨l1, h1, h1'⟩ := p1.upper hs j hj
      obtain ⟨l2, h2, h2'⟩ := p2.mono l1 h1
      exact ⟨l2, h2, by omega⟩
    · exact p2.upper hs j hj
  · rcases p2.attained with h2 | ⟨j, hj, h2⟩
    · rcases p1.attained with h1 | ⟨j, hj, h1⟩
      · exact Or.inl (h2.trans h1)
      · exact Or.inr ⟨j, Or.inl hj, h2.trans h1⟩
    · exact Or.inr ⟨j, Or.inr hj, h2⟩

theorem Post.shift {cx : Cx} {P : Nat → Prop} {got : Bool} {st st0 : St} {err : Nat} {st' : St}
    (hs : SameG st st0) (hl : st0.lastEnd = st.lastEnd) (p : Post cx P got st0 err st') :
    Post cx P got st err st' :=
  ⟨hs.trans p.same, p.code, p.ok, fun le h => p.mono le (hl.trans h), p.upper,
   by rcases p.attained with h | h
      · exact Or.inl (h.trans hl)
      · exact Or.inr h⟩

theorem post_gotFull (cx : Cx) (hn : cx.nmatch ≤ 1) (g str : Nat) (st : St) (err : Nat) (st' : St)
    (h : gotFull cx str g st = (err, st')) : Post cx (fun j => j = str) false st err st' := by
  obtain ⟨st2, h2, hsame, _, hlast⟩ := gotFull_spec cx hn g str st
  rw [h2] at h
  obtain ⟨rfl, rfl⟩ := Prod.mk.inj h
  refine ⟨hsame, Or.inl rfl, by simp, ?_, ?_, ?_⟩
  · intro le hle
    rw [hlast, hle]
    exact ⟨max le str, rfl, Nat.le_max_left _ _⟩
  · intro _ j hj
    subst hj
    rw [hlast]
    cases st.lastEnd with
    | none => exact ⟨j, rfl, Nat.le_refl _⟩
    | some le => exact ⟨max le j, rfl, Nat.le_max_right _ _⟩
  · rw [hlast]
    cases hl : st.lastEnd with
    | none => exact Or.inr ⟨str, rfl, rfl⟩
    | some le =>
      simp only [newLast]
      by_cases hc : str ≤ le
      · left; rw [Nat.max_eq_left hc]
      · right; exact ⟨str, rfl, by rw [Nat.max_eq_right (by omega)]⟩

def AllSimple (ops : List COp) : Prop := ∀ op, op ∈ ops → Simple op = true

theorem AllSimple.tail {op : COp} {ops : List COp} (h : AllSimple (op :: ops)) : AllSimple ops :=
  fun o ho => h o (List.mem_cons_of_mem _ ho)

/-- the search functions on simple op lists, by simultaneous induction on the fuel -/
theorem core (cx : Cx) (hn : cx.nmatch ≤ 1) : ∀ f : Nat,
    (∀ ops str g st err st', AllSimple ops → (st.fr g).gno = 0 →
        doOps cx f ops str (some g) st = (err, st') → Good err →
        Post cx (OpsMatch cx.env ops str) false st err st') ∧
    (∀ rest str g cur mn st err st', AllSimple rest → (st.fr g).gno = 0 → cur ≤ str →
        scanNext cx f rest str (some g) cur mn st = (err, st') → Good err →
        Post cx (fun j => ∃ k, mn ≤ k ∧ k ≤ cur ∧ OpsMatch cx.env rest (str - cur + k) j) false st err st') ∧
    (∀ rest str g cur mn got st err st', AllSimple rest → (st.fr g).gno = 0 → mn ≤ cur → cur ≤ str →
        (got = true → cx.strict = true) →
        scanLoop cx f rest str (some g) cur mn got st = (err, st') → Good err →
        Post cx (fun j => ∃ k, mn ≤ k ∧ k ≤ cur ∧ OpsMatch cx.env rest (str - cur + k) j) got st err st') := by
  intro f
  induction f with
  | zero =>
    refine ⟨?_, ?_, ?_⟩
    · intro ops str g st err st' _ _ h hg
      simp only [doOps] at h
      obtain ⟨rfl, _⟩ := Prod.mk.inj h
      exact absurd rfl hg.2
    · intro rest str g cur mn st err st' _ _ _ h hg
      simp only [scanNext] at h
      obtain ⟨rfl, _⟩ := Prod.mk.inj h
      exact absurd rfl hg.2
    · intro rest str g cur mn got st err st' _ _ _ _ _ h hg
      simp only [scanLoop] at h
      obtain ⟨rfl, _⟩ := Prod.mk.inj h
      exact absurd rfl hg.2
  | succ f ih =>
    obtain ⟨ihd, ihn, ihs⟩ := ih
    refine ⟨?_, ?_, ?_⟩
    · -- doOps
      intro ops str g st err st' hsimple hgno h hg
      simp only [doOps] at h
      by_cases hb : st.budget = 0
      · rw [if_pos hb] at h
        obtain ⟨rfl, _⟩ := Prod.mk.inj h
        exact absurd rfl hg.1
      · rw [if_neg hb] at h
        obtain ⟨st0, hst0⟩ : ∃ st0 : St, st0 = { st with budget := st.budget - 1 } := ⟨_, rfl⟩
        rw [← hst0] at h
        have hs0 : SameG st st0 := by rw [hst0]; exact ⟨rfl, fun _ => rfl⟩
        have hg0 : (st0.fr g).gno = 0 := by rw [hst0]; exact hgno
        refine Post.shift hs0 (by rw [hst0]) ?_
        cases ops with
        | nil =>
          simp only [hg0, if_true] at h
          exact post_gotFull cx hn g str st0 err st' h
        | cons op rest =>
          have hrest := hsimple.tail
          cases op with
          | chr c mn mx =>
            simp only [] at h
            refine Post.congr ?_ (ihn rest _ g _ mn st0 err st' hrest hg0 (Nat.le_add_left _ _) h hg)
            intro j
            simp only [OpsMatch, Nat.add_sub_cancel]
          | any mn mx =>
            simp only [] at h
            refine Post.congr ?_ (ihn rest _ g _ mn st0 err st' hrest hg0 (Nat.le_add_left _ _) h hg)
            intro j
            simp only [OpsMatch, Nat.add_sub_cancel]
          | cls bm mn mx =>
            simp only [] at h
            refine Post.congr ?_ (ihn rest _ g _ mn st0 err st' hrest hg0 (Nat.le_add_left _ _) h hg)
            intro j
            simp only [OpsMatch, Nat.add_sub_cancel]
          | bol =>
            simp only [] at h
            by_cases hbol : bolOk cx.env str = true
            · rw [if_pos hbol] at h
              refine Post.congr ?_ (ihd rest str g st0 err st' hrest hg0 h hg)
              intro j; simp [OpsMatch, hbol]
            · rw [if_neg hbol] at h
              obtain ⟨rfl, rfl⟩ := Prod.mk.inj h
              exact Post.none st0 (fun j hj => hbol hj.1)
          | eol =>
            simp only [] at h
            by_cases heol : eolOk cx.env str = true
            · rw [if_pos heol] at h
              refine Post.congr ?_ (ihd rest str g st0 err st' hrest hg0 h hg)
              intro j; simp [OpsMatch, heol]
            · rw [if_neg heol] at h
              obtain ⟨rfl, rfl⟩ := Prod.mk.inj h
              exact Post.none st0 (fun j hj => heol hj.1)
          | group gno alts mn mx =>
            have := hsimple _ List.mem_cons_self
            simp [Simple] at this
    · -- scanNext
      intro rest str g cur mn st err st' hrest hgno hcs h hg
      simp only [scanNext] at h
      by_cases h1 : cur = mn
      · rw [if_pos h1] at h
        refine Post.congr ?_ (ihd rest str g st err st' hrest hgno h hg)
        intro j
        constructor
        · intro hj
          exact ⟨cur, by omega, Nat.le_refl _, by rw [Nat.sub_add_cancel hcs]; exact hj⟩
        · rintro ⟨k, hk1, hk2, hj⟩
          have : k = cur := by omega
          subst this
          rw [Nat.sub_add_cancel hcs] at hj
          exact hj
      · rw [if_neg h1] at h
        by_cases h2 : cur < mn
        · rw [if_pos h2] at h
          obtain ⟨rfl, rfl⟩ := Prod.mk.inj h
          exact Post.none st (fun j ⟨k, hk1, hk2, _⟩ => by omega)
        · rw [if_neg h2] at h
          exact ihs rest str g cur mn false st err st' hrest hgno (by omega) hcs (fun hh => by cases hh) h hg
    · -- scanLoop
      intro rest str g cur mn got st err st' hrest hgno hmc hcs hgot h hg
      simp only [scanLoop] at h
      cases h1 : doOps cx f rest str (some g) st with
      | mk e1 st1 =>
        rw [h1] at h
        simp only [] at h
        -- the first iteration looks at exactly `k = cur`
        have hfirst : ∀ j, OpsMatch cx.env rest str j ↔ OpsMatch cx.env rest (str - cur + cur) j := by
          intro j; rw [Nat.sub_add_cancel hcs]
        by_cases hsucc : (cx.strict && decide (e1 = 0)) = true
        · rw [if_pos hsucc] at h
          simp only [Bool.and_eq_true, decide_eq_true_eq] at hsucc
          obtain ⟨hstrict, he1⟩ := hsucc
          have p1 := ihd rest str g st e1 st1 hrest hgno h1 (by subst he1; exact ⟨by decide, by decide⟩)
          by_cases hcm : cur = mn
          · rw [if_pos hcm] at h
            obtain ⟨rfl, rfl⟩ := Prod.mk.inj h
            refine ⟨p1.same, Or.inl rfl, ?_, p1.mono, ?_, ?_⟩
            · subst he1
              simp only [true_iff]
              right
              obtain ⟨j, hj⟩ := (p1.ok.mp rfl).resolve_left (by simp)
              exact ⟨j, cur, by omega, Nat.le_refl _, (hfirst j).mp hj⟩
            · rintro hs j ⟨k, hk1, hk2, hj⟩
              have : k = cur := by omega
              subst this
              exact p1.upper hs j ((hfirst j).mpr hj)
            · rcases p1.attained with ha | ⟨j, hj, ha⟩
              · exact Or.inl ha
              · exact Or.inr ⟨j, ⟨cur, by omega, Nat.le_refl _, (hfirst j).mp hj⟩, ha⟩
          · rw [if_neg hcm] at h
            have hgno1 : (st1.fr g).gno = 0 := by rw [p1.same.gno]; exact hgno
            have p2 := ihs rest (str - 1) g (cur - 1) mn true st1 err st' hrest hgno1 (by omega) (by omega)
              (fun _ => hstrict) h hg
            have p1' : Post cx (OpsMatch cx.env rest str) got st e1 st1 :=
              ⟨p1.same, p1.code, by rw [p1.ok]; subst he1; simp; exact fun _ => (p1.ok.mp rfl).resolve_left (by simp),
               p1.mono, p1.upper, p1.attained⟩
            have hgg : (got || decide (e1 = 0)) = true := by simp [he1]
            rw [← hgg] at p2
            refine Post.congr ?_ (Post.seq p1' p2)
            intro j
            constructor
            · rintro (hj | ⟨k, hk1, hk2, hj⟩)
              · exact ⟨cur, hmc, Nat.le_refl _, (hfirst j).mp hj⟩
              · refine ⟨k, hk1, by omega, ?_⟩
                have : str - 1 - (cur - 1) + k = str - cur + k := by omega
                rw [← this]; exact hj
            · rintro ⟨k, hk1, hk2, hj⟩
              by_cases hkc : k = cur
              · subst hkc; exact Or.inl ((hfirst j).mpr hj)
              · refine Or.inr ⟨k, hk1, by omega, ?_⟩
                have : str - 1 - (cur - 1) + k = str - cur + k := by omega
                rw [this]; exact hj
        · rw [if_neg hsucc] at h
          by_cases hnm : e1 ≠ NOMATCH
          · rw [if_pos hnm] at h
            obtain ⟨rfl, rfl⟩ := Prod.mk.inj h
            have p1 := ihd rest str g st e1 st1 hrest hgno h1 hg
            have he0 : e1 = 0 := p1.code.resolve_right hnm
            have hns : cx.strict = false := by
              cases hcs' : cx.strict with
              | false => rfl
              | true => exact absurd (by simp [hcs', he0]) hsucc
            have hgf : got = false := by
              cases got with
              | false => rfl
              | true => rw [hgot rfl] at hns; cases hns
            subst hgf
            obtain ⟨j0, hj0⟩ := (p1.ok.mp he0).resolve_left (by simp)
            refine ⟨p1.same, Or.inl he0, ?_, p1.mono, (fun hs => by rw [hns] at hs; cases hs), ?_⟩
            · simp only [he0, true_iff]
              exact Or.inr ⟨j0, cur, hmc, Nat.le_refl _, (hfirst j0).mp hj0⟩
            · rcases p1.attained with ha | ⟨j, hj, ha⟩
              · exact Or.inl ha
              · exact Or.inr ⟨j, ⟨cur, hmc, Nat.le_refl _, (hfirst j).mp hj⟩, ha⟩
          · rw [if_neg hnm] at h
            have he1 : e1 = NOMATCH := Decidable.not_not.mp hnm
            have p1 := ihd rest str g st e1 st1 hrest hgno h1 (by rw [he1]; exact ⟨by decide, by decide⟩)
            have hno : ∀ j, ¬ OpsMatch cx.env rest str j := by
              intro j hj
              have := p1.ok.mpr (Or.inr ⟨j, hj⟩)
              rw [he1] at this
              exact absurd this (by decide)
            have p1' : Post cx (OpsMatch cx.env rest str) got st (if got then 0 else NOMATCH) st1 :=
              ⟨p1.same, by cases got <;> simp, by cases got <;> simp [NOMATCH] <;> exact fun j => hno j,
               p1.mono, p1.upper, p1.attained⟩
            by_cases hcm : cur = mn
            · rw [if_pos hcm] at h
              obtain ⟨rfl, rfl⟩ := Prod.mk.inj h
              refine Post.congr ?_ p1'
              intro j
              constructor
              · intro hj; exact absurd hj (hno j)
              · rintro ⟨k, hk1, hk2, hj⟩
                have : k = cur := by omega
                subst this
                exact absurd ((hfirst j).mpr hj) (hno j)
            · rw [if_neg hcm] at h
              have hgno1 : (st1.fr g).gno = 0 := by rw [p1.same.gno]; exact hgno
              have p2 := ihs rest (str - 1) g (cur - 1) mn got st1 err st' hrest hgno1 (by omega) (by omega) hgot h hg
              have hgg : (got || decide ((if got then 0 else NOMATCH) = 0)) = got := by cases got <;> simp [NOMATCH]
              rw [← hgg] at p2
              refine Post.congr ?_ (Post.seq p1' p2)
              intro j
              constructor
              · rintro (hj | ⟨k, hk1, hk2, hj⟩)
                · exact absurd hj (hno j)
                · refine ⟨k, hk1, by omega, ?_⟩
                  have : str - 1 - (cur - 1) + k = str - cur + k := by omega
                  rw [← this]; exact hj
              · rintro ⟨k, hk1, hk2, hj⟩
                by_cases hkc : k = cur
                · subst hkc; exact absurd ((hfirst j).mpr hj) (hno j)
                · refine Or.inr ⟨k, hk1, by omega, ?_⟩
                  have : str - 1 - (cur - 1) + k = str - cur + k := by omega
                  rw [this]; exact hj

/-! ## group #0: the OR-list, the frame, the start-position loop -/

def AltsMatch (e : Env) (alts : List (List COp)) (str j : Nat) : Prop :=
  ∃ a, a ∈ alts ∧ OpsMatch e a str j

/-- the `while (alist)` loop for the frame `id` of group #0 -/
theorem altLoop_spec (cx : Cx) (hn : cx.nmatch ≤ 1) : ∀ (f : Nat) (alts : List (List COp)) (str id err0 : Nat)
    (got : Bool) (st : St) (err : Nat) (got' : Bool) (st' : St),
    (∀ a, a ∈ alts → AllSimple a) → (st.fr id).gno = 0 → (got = true → cx.strict = true) →
    (err0 = NOMATCH ∨ (err0 = 0 ∧ got = true)) →
    altLoop cx f alts str id err0 got st = (err, got', st') → Good err →
    Post cx (AltsMatch cx.env alts str) got st (if got' then 0 else err) st' := by
  intro f
  induction f with
  | zero =>
    intro alts str id err0 got st err got' st' _ _ _ _ h hg
    simp only [altLoop] at h
    obtain ⟨rfl, _⟩ := Prod.mk.inj h
    exact absurd rfl hg.2
  | succ f ih =>
    intro alts str id err0 got st err got' st' hsimple hgno hgot herr0 h hg
    cases alts with
    | nil =>
      simp only [altLoop] at h
      obtain ⟨rfl, h2⟩ := Prod.mk.inj h
      obtain ⟨rfl, rfl⟩ := Prod.mk.inj h2
      have hno : ∀ j, ¬ AltsMatch cx.env [] str j := fun j ⟨a, ha, _⟩ => by cases ha
      refine ⟨SameG.refl st, ?_, ?_, fun le hle => ⟨le, hle, Nat.le_refl _⟩, fun _ j hj => absurd hj (hno j), Or.inl rfl⟩
      · cases got <;> rcases herr0 with h0 | ⟨h0, h1⟩ <;> simp_all [NOMATCH]
      · cases got <;> rcases herr0 with h0 | ⟨h0, h1⟩ <;> simp_all [NOMATCH] <;> exact fun j => hno j
    | cons a more =>
      simp only [altLoop] at h
      have hmore : ∀ b, b ∈ more → AllSimple b := fun b hb => hsimple b (List.mem_cons_of_mem _ hb)
      have hsplit : ∀ j, (OpsMatch cx.env a str j ∨ AltsMatch cx.env more str j) ↔ AltsMatch cx.env (a :: more) str j := by
        intro j
        constructor
        · rintro (hj | ⟨b, hb, hj⟩)
          · exact ⟨a, List.mem_cons_self, hj⟩
          · exact ⟨b, List.mem_cons_of_mem _ hb, hj⟩
        · rintro ⟨b, hb, hj⟩
          rcases List.mem_cons.mp hb with rfl | hb
          · exact Or.inl hj
          · exact Or.inr ⟨b, hb, hj⟩
      cases h1 : doOps cx f a str (some id) st with
      | mk e1 st1 =>
        rw [h1] at h
        simp only [] at h
        by_cases hsucc : e1 = 0 ∧ cx.strict = true
        · rw [if_pos hsucc] at h
          obtain ⟨he1, hstrict⟩ := hsucc
          have p1 := (core cx hn f).1 a str id st e1 st1 (hsimple a List.mem_cons_self) hgno h1
            (by subst he1; exact ⟨by decide, by decide⟩)
          obtain ⟨st1', hst1'⟩ : ∃ s : St, s = st1.setFr id { st1.fr id with end_ := none } := ⟨_, rfl⟩
          rw [← hst1'] at h
          have k1 : Keeps st1 st1' := by rw [hst1']; exact keeps_setFr st1 id _ rfl
          have hgno1 : (st1'.fr id).gno = 0 := by rw [k1.gno, p1.same.gno]; exact hgno
          have p2 := ih more str id e1 true st1' err got' st' hmore hgno1 (fun _ => hstrict)
            (Or.inr ⟨he1, rfl⟩) h hg
          have p2' := Post.shift k1.sameG k1.last p2
          have p1' : Post cx (OpsMatch cx.env a str) got st e1 st1 :=
            ⟨p1.same, p1.code, by rw [p1.ok]; subst he1; simp; exact fun _ => (p1.ok.mp rfl).resolve_left (by simp),
             p1.mono, p1.upper, p1.attained⟩
          have hgg : (got || decide (e1 = 0)) = true := by simp [he1]
          have p2'' : Post cx (AltsMatch cx.env more str) (got || decide (e1 = 0)) st1 (if got' then 0 else err) st' := by
            rw [hgg]; exact p2'
          exact Post.congr hsplit (Post.seq p1' p2'')
        · rw [if_neg hsucc] at h
          by_cases hnm : e1 ≠ NOMATCH
          · rw [if_pos hnm] at h
            obtain ⟨rfl, h2⟩ := Prod.mk.inj h
            obtain ⟨rfl, rfl⟩ := Prod.mk.inj h2
            have p1 := (core cx hn f).1 a str id st e1 st1 (hsimple a List.mem_cons_self) hgno h1 hg
            have he0 : e1 = 0 := p1.code.resolve_right hnm
            have hns : cx.strict = false := by
              cases hcs' : cx.strict with
              | false => rfl
              | true => exact absurd ⟨he0, hcs'⟩ hsucc
            have hgf : got = false := by
              cases got with
              | false => rfl
              | true => rw [hgot rfl] at hns; cases hns
            subst hgf
            obtain ⟨j0, hj0⟩ := (p1.ok.mp he0).resolve_left (by simp)
            simp only [Bool.false_eq_true, if_false]
            refine ⟨p1.same, Or.inl he0, ?_, p1.mono, (fun hs => by rw [hns] at hs; cases hs), ?_⟩
            · simp only [he0, true_iff]
              exact Or.inr ⟨j0, (hsplit j0).mp (Or.inl hj0)⟩
            · rcases p1.attained with ha | ⟨j, hj, ha⟩
              · exact Or.inl ha
              · exact Or.inr ⟨j, (hsplit j).mp (Or.inl hj), ha⟩
          · rw [if_neg hnm] at h
            have he1 : e1 = NOMATCH := Decidable.not_not.mp hnm
            have p1 := (core cx hn f).1 a str id st e1 st1 (hsimple a List.mem_cons_self) hgno h1
              (by rw [he1]; exact ⟨by decide, by decide⟩)
            have hno : ∀ j, ¬ OpsMatch cx.env a str j := by
              intro j hj
              have := p1.ok.mpr (Or.inr ⟨j, hj⟩)
              rw [he1] at this
              exact absurd this (by decide)
            have p1' : Post cx (OpsMatch cx.env a str) got st (if got then 0 else NOMATCH) st1 :=
              ⟨p1.same, by cases got <;> simp, by cases got <;> simp [NOMATCH] <;> exact fun j => hno j,
               p1.mono, p1.upper, p1.attained⟩
            have hgno1 : (st1.fr id).gno = 0 := by rw [p1.same.gno]; exact hgno
            have herr1 : e1 = NOMATCH ∨ (e1 = 0 ∧ got = true) := Or.inl he1
            have p2 := ih more str id e1 got st1 err got' st' hmore hgno1 hgot herr1 h hg
            have hgg : (got || decide ((if got then 0 else NOMATCH) = 0)) = got := by cases got <;> simp [NOMATCH]
            have p2'' : Post cx (AltsMatch cx.env more str) (got || decide ((if got then 0 else NOMATCH) = 0)) st1
                (if got' then 0 else err) st' := by rw [hgg]; exact p2
            exact Post.congr hsplit (Post.seq p1' p2'')

/-- result of one `do_match(root, str, NULL)` -/
structure RootPost (cx : Cx) (P : Nat → Prop) (st : St) (err : Nat) (st' : St) : Prop where
  code : err = 0 ∨ err = NOMATCH
  ok : err = 0 ↔ ∃ j, P j
  upper : cx.strict = true → ∀ j, P j → ∃ le', st'.lastEnd = some le' ∧ j ≤ le'
  attained : st'.lastEnd = st.lastEnd ∨ ∃ j, P j ∧ st'.lastEnd = some j

theorem root_spec (cx : Cx) (hn : cx.nmatch ≤ 1) (f : Nat) (alts : List (List COp)) (str : Nat) (st : St)
    (err : Nat) (st' : St) (hsimple : ∀ a, a ∈ alts → AllSimple a)
    (h : matchGroup cx f 0 alts 1 1 [] str none st = (err, st')) (hg : Good err) :
    RootPost cx (AltsMatch cx.env alts str) st err st' := by
  cases f with
  | zero =>
    simp only [matchGroup] at h
    obtain ⟨rfl, _⟩ := Prod.mk.inj h
    exact absurd rfl hg.2
  | succ f =>
    simp only [matchGroup] at h
    obtain ⟨st1, hst1⟩ : ∃ s : St, s = { st with
        frames := st.frames.push { gno := 0, alts := alts, min := 1, max := 1, next := [], start := str,
                                   prev := st.stacks[0]!, parent := none },
        stacks := st.stacks.set! 0 (some st.frames.size) } := ⟨_, rfl⟩
    rw [← hst1] at h
    have hgno : (st1.fr st.frames.size).gno = 0 := by rw [hst1]; simp [St.fr]
    have hlast1 : st1.lastEnd = st.lastEnd := by rw [hst1]
    cases h1 : altLoop cx f alts str st.frames.size NOMATCH false st1 with
    | mk e1 r1 =>
      obtain ⟨got1, st2⟩ := r1
      rw [h1] at h
      simp only [Nat.lt_irrefl, Nat.zero_lt_one, if_true, Nat.one_ne_zero, false_and, if_false] at h
      obtain ⟨rfl, rfl⟩ := Prod.mk.inj h
      have hge : Good e1 := by
        constructor
        · intro h98
          rw [h98] at hg
          simp [OUT_OF_BUDGET] at hg
          exact hg.1 (by simp [OUT_OF_BUDGET])
        · intro h99
          rw [h99] at hg
          simp [OUT_OF_FUEL] at hg
          exact hg.2 (by simp [OUT_OF_FUEL])
      have p := altLoop_spec cx hn f alts str st.frames.size NOMATCH false st1 e1 got1 st2 hsimple hgno
        (fun hh => by cases hh) (Or.inl rfl) h1 hge
      have hfin : (if got1 = true ∧ e1 ≠ OUT_OF_BUDGET ∧ e1 ≠ OUT_OF_FUEL then 0 else e1) = (if got1 then 0 else e1) := by
        cases got1 <;> simp [hge.1, hge.2]
      rw [hfin]
      refine ⟨p.code, ?_, p.upper, ?_⟩
      · rw [p.ok]; simp
      · rcases p.attained with ha | ha
        · exact Or.inl (ha.trans hlast1)
        · exact Or.inr ha

/-- leftmost-longest, stated for the op lists of group #0 -/
structure OpsLL (e : Env) (alts : List (List COp)) (strict : Bool) (rc pos : Nat) (last : Option Nat) : Prop where
  /-- some alternative matches from `pos` -/
  found : ∃ j, AltsMatch e alts pos j
  /-- nothing matches from an earlier start -/
  leftmost : ∀ i, i < pos → ∀ j, ¬ AltsMatch e alts i j
  /-- in strict mode `last_endpos` is the longest end from `pos` -/
  longest : strict = true → ∃ le, last = some le ∧ AltsMatch e alts pos le ∧ ∀ j, AltsMatch e alts pos j → j ≤ le

theorem startLoop_spec (cx : Cx) (hn : cx.nmatch ≤ 1) (alts : List (List COp))
    (hsimple : ∀ a, a ∈ alts → AllSimple a) (fuel : Nat) : ∀ (k str : Nat) (st : St) (rc pos : Nat) (st' : St),
    st.lastEnd = none → startLoop cx alts fuel k str st = (rc, pos, st') → Good rc →
    (rc = 0 ∧ str ≤ pos ∧ (∃ j, AltsMatch cx.env alts pos j) ∧
        (∀ i, str ≤ i → i < pos → ∀ j, ¬ AltsMatch cx.env alts i j) ∧
        (cx.strict = true → ∃ le, st'.lastEnd = some le ∧ AltsMatch cx.env alts pos le ∧
            ∀ j, AltsMatch cx.env alts pos j → j ≤ le)) ∨
    (rc = NOMATCH ∧ ∀ i, str ≤ i → i < str + k → i ≤ cx.env.s.size → ∀ j, ¬ AltsMatch cx.env alts i j) := by
  intro k
  induction k with
  | zero =>
    intro str st rc pos st' _ h _
    simp only [startLoop] at h
    obtain ⟨rfl, _⟩ := Prod.mk.inj h
    exact Or.inr ⟨rfl, fun i h1 h2 => by omega⟩
  | succ k ih =>
    intro str st rc pos st' hl h hg
    simp only [startLoop] at h
    cases h1 : matchGroup cx fuel 0 alts 1 1 [] str none st with
    | mk e1 st1 =>
      rw [h1] at h
      simp only [] at h
      by_cases hc : e1 = NOMATCH ∧ str < cx.env.s.size
      · rw [if_pos hc] at h
        have p := root_spec cx hn fuel alts str st e1 st1 hsimple h1 (by rw [hc.1]; exact ⟨by decide, by decide⟩)
        have hno : ∀ j, ¬ AltsMatch cx.env alts str j := by
          intro j hj
          have := p.ok.mpr ⟨j, hj⟩
          rw [hc.1] at this
          exact absurd this (by decide)
        have hl1 : st1.lastEnd = none := by
          rcases p.attained with ha | ⟨j, hj, _⟩
          · exact ha.trans hl
          · exact absurd hj (hno j)
        rcases ih (str + 1) st1 rc pos st' hl1 h hg with ⟨r0, hp, hf, hleft, hlong⟩ | ⟨r1, hnone⟩
        · refine Or.inl ⟨r0, by omega, hf, ?_, hlong⟩
          intro i hi1 hi2 j
          by_cases his : i = str
          · subst his; exact hno j
          · exact hleft i (by omega) hi2 j
        · refine Or.inr ⟨r1, ?_⟩
          intro i hi1 hi2 hi3 j
          by_cases his : i = str
          · subst his; exact hno j
          · exact hnone i (by omega) (by omega) hi3 j
      · rw [if_neg hc] at h
        obtain ⟨rfl, h2⟩ := Prod.mk.inj h
        obtain ⟨rfl, rfl⟩ := Prod.mk.inj h2
        have p := root_spec cx hn fuel alts str st e1 st1 hsimple h1 hg
        rcases p.code with r0 | r1
        · refine Or.inl ⟨r0, Nat.le_refl _, p.ok.mp r0, fun i h1 h2 => by omega, ?_⟩
          intro hs
          obtain ⟨j0, hj0⟩ := p.ok.mp r0
          obtain ⟨le, hle, _⟩ := p.upper hs j0 hj0
          rcases p.attained with ha | ⟨j, hj, ha⟩
          · rw [ha, hl] at hle; cases hle
          · refine ⟨j, ha, hj, ?_⟩
            intro j' hj'
            obtain ⟨le', hle', hle''⟩ := p.upper hs j' hj'
            rw [ha] at hle'
            cases hle'
            exact hle''
        · refine Or.inr ⟨r1, ?_⟩
          intro i hi1 hi2 hi3 j hj
          have hsz : ¬ str < cx.env.s.size := fun hh => hc ⟨r1, hh⟩
          have : i = str := by omega
          subst this
          have := p.ok.mpr ⟨j, hj⟩
          rw [r1] at this
          exact absurd this (by decide)

/-- **the matcher model on parenthesis-free patterns**: unless the model itself ran out of
fuel/steps, `usual_regexec` returns 0 exactly when some alternative matches somewhere, stops at
the leftmost such start, and (when `pmatch` is wanted) leaves the longest end in `last_endpos` -/
theorem cExec_ops_spec (alts : List (List COp)) (hsimple : ∀ a, a ∈ alts → AllSimple a) (nosub : Bool) (e : Env)
    (nmatch budget fuel : Nat) (hg : Good (cExec alts 0 nosub e nmatch budget fuel).rc) :
    let res := cExec alts 0 nosub e nmatch budget fuel
    (res.rc = 0 ∧ OpsLL e alts (!nosub && decide (nmatch > 0)) res.rc res.start res.last) ∨
    (res.rc = NOMATCH ∧ ∀ i, i ≤ e.s.size → ∀ j, ¬ AltsMatch e alts i j) := by
  intro res
  obtain ⟨cx, hcx⟩ : ∃ cx : Cx, cx = mkCx e 0 nosub nmatch := ⟨_, rfl⟩
  have hcn : cx.nmatch ≤ 1 := by
    rw [hcx]; simp only [mkCx]
    split
    · omega
    · split <;> omega
  have hce : cx.env = e := by rw [hcx]; rfl
  have hcs : cx.strict = (!nosub && decide (nmatch > 0)) := by
    rw [hcx]; simp only [mkCx]
    cases nosub <;> simp
    split <;> simp <;> omega
  obtain ⟨st0, hst0⟩ : ∃ st0 : St, st0 = initSt 0 nosub nmatch budget := ⟨_, rfl⟩
  have hl0 : st0.lastEnd = none := by rw [hst0]; rfl
  cases hrun : startLoop cx alts fuel (e.s.size + 1) 0 st0 with
  | mk rc r2 =>
    obtain ⟨pos, st'⟩ := r2
    have hres : res = { rc := rc, pm := st'.pm.toList, start := pos, last := st'.lastEnd, stepsLeft := st'.budget } := by
      show cExec alts 0 nosub e nmatch budget fuel = _
      unfold cExec
      rw [← hcx, ← hst0, hrun]
    have hg' : Good rc := by
      have : res.rc = rc := by rw [hres]
      rw [← this]; exact hg
    rcases startLoop_spec cx hcn alts hsimple fuel (e.s.size + 1) 0 st0 rc pos st' hl0 hrun hg' with
      ⟨r0, _, hf, hleft, hlong⟩ | ⟨r1, hnone⟩
    · left
      rw [hres]
      refine ⟨r0, ?_, ?_, ?_⟩
      · rw [← hce]; exact hf
      · intro i hi j; rw [← hce]; exact hleft i (Nat.zero_le _) hi j
      · intro hs
        rw [← hcs] at hs
        obtain ⟨le, h1, h2, h3⟩ := hlong hs
        rw [hce] at h2 h3
        exact ⟨le, h1, h2, h3⟩
    · right
      rw [hres]
      refine ⟨r1, ?_⟩
      intro i hi j
      rw [← hce]
      exact hnone i (Nat.zero_le _) (by omega) (by rw [hce]; exact hi) j

end Usual.C04.CM
