import UsualProofs.C04.CMatchRep
import UsualProofs.C04.CMatchLinkG
import UsualProofs.C04.RepIter
/-! Helper lemmas for C04: every op list the compiler produces is well numbered (`WFG`), so the
search theorem `cExec_specR` applies to every compiled pattern. -/
set_option linter.unusedSimpArgs false
set_option linter.unusedVariables false
namespace Usual.C04.CM
open Usual.C04

theorem WFG.mono {n m : Nat} {ops : List COp} (h : WFG n ops) (hm : m ≤ n) : WFG m ops := by
  induction h with
  | nil _ => exact WFG.nil _
  | simple hs _ ih => exact WFG.simple hs (ih hm)
  | grp hlt ha _ _ ih => exact WFG.grp (by omega) ha (ih hm)

theorem WFG.append {n : Nat} {a b : List COp} (ha : WFG n a) (hb : WFG n b) : WFG n (a ++ b) := by
  induction ha with
  | nil _ => simpa using hb
  | simple hs _ ih => exact WFG.simple hs (ih hb)
  | grp hlt hal _ _ ih => exact WFG.grp hlt hal (ih hb)

/-- whatever `compR` returns is well numbered from `n` on, and the counter only grows -/
theorem compR_wfg : ∀ (r : Re) (mn mx n : Nat) (alts : List (List COp)) (n' : Nat),
    compR r mn mx n = some (alts, n') → n ≤ n' ∧ ∀ a, a ∈ alts → WFG n a := by
  intro r
  induction r with
  | empty =>
    intro mn mx n alts n' h
    simp only [compR, Option.some.injEq, Prod.mk.injEq] at h
    obtain ⟨rfl, rfl⟩ := h
    exact ⟨Nat.le_refl _, fun a ha => by simp at ha; subst ha; exact WFG.nil _⟩
  | chr c =>
    intro mn mx n alts n' h
    simp only [compR, Option.some.injEq, Prod.mk.injEq] at h
    obtain ⟨rfl, rfl⟩ := h
    exact ⟨Nat.le_refl _, fun a ha => by simp at ha; subst ha; exact WFG.simple rfl (WFG.nil _)⟩
  | any =>
    intro mn mx n alts n' h
    simp only [compR, Option.some.injEq, Prod.mk.injEq] at h
    obtain ⟨rfl, rfl⟩ := h
    exact ⟨Nat.le_refl _, fun a ha => by simp at ha; subst ha; exact WFG.simple rfl (WFG.nil _)⟩
  | cls bm =>
    intro mn mx n alts n' h
    simp only [compR, Option.some.injEq, Prod.mk.injEq] at h
    obtain ⟨rfl, rfl⟩ := h
    exact ⟨Nat.le_refl _, fun a ha => by simp at ha; subst ha; exact WFG.simple rfl (WFG.nil _)⟩
  | bol =>
    intro mn mx n alts n' h
    simp only [compR, Option.some.injEq, Prod.mk.injEq] at h
    obtain ⟨rfl, rfl⟩ := h
    exact ⟨Nat.le_refl _, fun a ha => by simp at ha; subst ha; exact WFG.simple rfl (WFG.nil _)⟩
  | eol =>
    intro mn mx n alts n' h
    simp only [compR, Option.some.injEq, Prod.mk.injEq] at h
    obtain ⟨rfl, rfl⟩ := h
    exact ⟨Nat.le_refl _, fun a ha => by simp at ha; subst ha; exact WFG.simple rfl (WFG.nil _)⟩
  | group body ih =>
    intro mn mx n alts n' h
    simp only [compR] at h
    cases hb : compR body 1 1 (n + 1) with
    | none => rw [hb] at h; cases h
    | some p =>
      obtain ⟨altsB, nb⟩ := p
      rw [hb] at h
      simp only [Option.some.injEq, Prod.mk.injEq] at h
      obtain ⟨rfl, rfl⟩ := h
      obtain ⟨h1, h2⟩ := ih 1 1 (n + 1) altsB nb hb
      exact ⟨by omega, fun a ha => by
        simp at ha; subst ha
        exact WFG.grp (Nat.lt_succ_self n) h2 (WFG.nil _)⟩
  | rep r m k ih =>
    intro mn mx n alts n' h
    cases r with
    | chr c =>
      simp only [compR, Option.some.injEq, Prod.mk.injEq] at h
      obtain ⟨rfl, rfl⟩ := h
      exact ⟨Nat.le_refl _, fun a ha => by simp at ha; subst ha; exact WFG.simple rfl (WFG.nil _)⟩
    | any =>
      simp only [compR, Option.some.injEq, Prod.mk.injEq] at h
      obtain ⟨rfl, rfl⟩ := h
      exact ⟨Nat.le_refl _, fun a ha => by simp at ha; subst ha; exact WFG.simple rfl (WFG.nil _)⟩
    | cls bm =>
      simp only [compR, Option.some.injEq, Prod.mk.injEq] at h
      obtain ⟨rfl, rfl⟩ := h
      exact ⟨Nat.le_refl _, fun a ha => by simp at ha; subst ha; exact WFG.simple rfl (WFG.nil _)⟩
    | group body =>
      simp only [compR] at h
      cases hb : compR body 1 1 (n + 1) with
      | none => rw [hb] at h; cases h
      | some p =>
        obtain ⟨altsB, nb⟩ := p
        rw [hb] at h
        simp only [Option.some.injEq, Prod.mk.injEq] at h
        obtain ⟨rfl, rfl⟩ := h
        have hg := ih 1 1 n [[.group (n + 1) altsB 1 1]] nb (by simp [compR, hb])
        obtain ⟨h1, h2⟩ := hg
        refine ⟨h1, fun a ha => ?_⟩
        simp at ha; subst ha
        have := h2 [.group (n + 1) altsB 1 1] (by simp)
        cases this with
        | simple hs _ => simp [Simple] at hs
        | grp hlt hal hr => exact WFG.grp hlt hal hr
    | _ => simp [compR] at h
  | cat a b iha ihb =>
    intro mn mx n alts n' h
    simp only [compR] at h
    cases ha : compR a 1 1 n with
    | none => rw [ha] at h; cases h
    | some pa =>
      obtain ⟨altsA, na⟩ := pa
      rw [ha] at h
      obtain ⟨a1, a2⟩ := iha 1 1 n altsA na ha
      -- the shape `[[op]]`
      match altsA, h, a2 with
      | [[op]], h, a2 =>
        simp only [] at h
        cases hb : compR b 1 1 na with
        | none => rw [hb] at h; cases h
        | some pb =>
          obtain ⟨altsB, nb⟩ := pb
          rw [hb] at h
          obtain ⟨b1, b2⟩ := ihb 1 1 na altsB nb hb
          match altsB, h, b2 with
          | [ops], h, b2 =>
            simp only [Option.some.injEq, Prod.mk.injEq] at h
            obtain ⟨rfl, rfl⟩ := h
            refine ⟨by omega, fun x hx => ?_⟩
            simp at hx; subst hx
            have w1 := a2 [op] (by simp)
            have w2 := (b2 ops (by simp)).mono a1
            exact WFG.append w1 w2
          | [], h, _ => simp at h
          | _ :: _ :: _, h, _ => simp at h
      | [], h, _ => simp at h
      | [[]], h, _ => simp at h
      | [_ :: _ :: _], h, _ => simp at h
      | _ :: _ :: _, h, _ => simp at h
  | alt a b iha ihb =>
    intro mn mx n alts n' h
    simp only [compR] at h
    cases ha : compR a 1 1 n with
    | none => rw [ha] at h; cases h
    | some pa =>
      obtain ⟨altsA, na⟩ := pa
      rw [ha] at h
      obtain ⟨a1, a2⟩ := iha 1 1 n altsA na ha
      match altsA, h, a2 with
      | [opsA], h, a2 =>
        simp only [] at h
        cases hb : compR b 1 1 na with
        | none => rw [hb] at h; cases h
        | some pb =>
          obtain ⟨altsB, nb⟩ := pb
          rw [hb] at h
          obtain ⟨b1, b2⟩ := ihb 1 1 na altsB nb hb
          simp only [Option.some.injEq, Prod.mk.injEq] at h
          obtain ⟨rfl, rfl⟩ := h
          refine ⟨by omega, fun x hx => ?_⟩
          rcases List.mem_cons.mp hx with rfl | hx
          · exact a2 _ (by simp)
          · exact (b2 x hx).mono a1
      | [], h, _ => simp at h
      | _ :: _ :: _, h, _ => simp at h

/-! ## `Sem` of compiled op lists is `Matches` — repeated groups included -/

/-- the OR-list `alts`, in front of any rest `K` of the AND-list and any continuation `k`, means `r` -/
def LinkS (e : Env) (alts : List (List COp)) (r : Re) : Prop :=
  ∀ p, p ≤ e.s.size → ∀ (K : List COp) (k : Kont) (j : Nat),
    (∃ a, a ∈ alts ∧ Sem e (a ++ K) k p j) ↔ ∃ m, Matches e r p m ∧ Sem e K k m j

theorem sem_atomOp {e : Env} {a : Re} {ok : UInt8 → Bool} (h : atomOk e a = some ok) (mn mx : Nat)
    (K : List COp) (k : Kont) (p j : Nat) :
    Sem e (atomOp a mn mx :: K) k p j ↔
      ∃ n, mn ≤ n ∧ n ≤ countWhile e ok (e.s.size + 1) p (simpleMax mx) 0 ∧ Sem e K k (p + n) j := by
  cases a <;> simp [atomOk] at h <;> subst h <;> simp only [atomOp] <;> rw [Sem.atom_iff rfl] <;>
    simp only [minOfOp, runOf]

/-- one simple item in front of a continuation -/
theorem item_linkS (e : Env) (hsz : e.s.size < 0x7FFFFFFF) {x : Re} (hx : fragItem x = true) (p : Nat)
    (hs : p ≤ e.s.size) (K : List COp) (k : Kont) (j : Nat) :
    Sem e (opOfItem x :: K) k p j ↔ ∃ m, Matches e x p m ∧ Sem e K k m j := by
  have plain : ∀ a : Re, isAtomRe a = true → opOfItem a = atomOp a 1 1 →
      (Sem e (opOfItem a :: K) k p j ↔ ∃ m, Matches e a p m ∧ Sem e K k m j) := by
    intro a ha hop
    obtain ⟨ok, hok⟩ := atomOk_of_isAtom e ha
    rw [hop, sem_atomOp hok]
    have h1 : simpleMax 1 = 1 := by simp [simpleMax, MAXC, Gen.C04.MAX_COUNT]
    rw [h1]
    constructor
    · rintro ⟨n, hk1, hk2, hj⟩
      obtain ⟨hk3, hr⟩ := (le_count_iff e ok p 1 n).mp hk2
      have : n = 1 := by omega
      subst this
      obtain ⟨b, hb, hokb⟩ := hr 0 (by omega)
      exact ⟨p + 1, (atom_matches hok p _).mpr ⟨rfl, b, hb, hokb⟩, hj⟩
    · rintro ⟨m, hm, hj⟩
      obtain ⟨rfl, b, hb, hokb⟩ := (atom_matches hok p m).mp hm
      refine ⟨1, Nat.le_refl _, (le_count_iff e ok p 1 1).mpr ⟨Nat.le_refl _, ?_⟩, hj⟩
      intro t ht
      have : t = 0 := by omega
      subst this
      exact ⟨b, hb, hokb⟩
  cases x with
  | chr c => exact plain _ rfl rfl
  | any => exact plain _ rfl rfl
  | cls bm => exact plain _ rfl rfl
  | bol =>
    simp only [opOfItem, Matches]
    rw [Sem.bol_iff]
    constructor
    · rintro ⟨h1, h2⟩; exact ⟨p, ⟨rfl, hs, h1⟩, h2⟩
    · rintro ⟨m, ⟨rfl, _, h1⟩, h2⟩; exact ⟨h1, h2⟩
  | eol =>
    simp only [opOfItem, Matches]
    rw [Sem.eol_iff]
    constructor
    · rintro ⟨h1, h2⟩; exact ⟨p, ⟨rfl, hs, h1⟩, h2⟩
    · rintro ⟨m, ⟨rfl, _, h1⟩, h2⟩; exact ⟨h1, h2⟩
  | rep a mn n =>
    simp only [fragItem, Bool.and_eq_true] at hx
    obtain ⟨ha, hn⟩ := hx
    obtain ⟨ok, hok⟩ := atomOk_of_isAtom e ha
    simp only [opOfItem]
    rw [sem_atomOp hok]
    have hbound : ∀ c, RunOk e ok p c →
        (c ≤ simpleMax (n.getD MAXC) ↔ ∀ n', n = some n' → c ≤ n') := by
      intro c hr
      have hk := hr.bound hs
      cases n with
      | none => simp [simpleMax]; omega
      | some n' =>
        simp only [decide_eq_true_eq] at hn
        have : n' ≠ MAXC := by omega
        simp [simpleMax, this]
    constructor
    · rintro ⟨c, hk1, hk2, hj⟩
      obtain ⟨hk3, hr⟩ := (le_count_iff e ok p _ c).mp hk2
      refine ⟨p + c, ?_, hj⟩
      simp only [Matches]
      exact ⟨hs, c, hk1, (hbound c hr).mp hk3, (iter_atom hok c p _).mpr ⟨rfl, hr⟩⟩
    · rintro ⟨m, hm, hj⟩
      simp only [Matches] at hm
      obtain ⟨_, c, hc1, hc2, hit⟩ := hm
      obtain ⟨rfl, hr⟩ := (iter_atom hok c p m).mp hit
      exact ⟨c, hc1, (le_count_iff e ok p _ c).mpr ⟨(hbound c hr).mpr hc2, hr⟩, hj⟩
  | _ => simp [fragItem] at hx

/-- the continuation `gend …` unwinds to the iteration discipline over the body relation `B` -/
theorem sem_gend (e : Env) (alts : List (List COp)) (B : Nat → Nat → Prop)
    (hB : ∀ p, p ≤ e.s.size → ∀ k j, (∃ a, a ∈ alts ∧ Sem e a k p j) ↔ ∃ q, B p q ∧ Sem e [] k q j)
    (hBb : ∀ a b, B a b → b ≤ e.s.size) (gno mn mx : Nat) (next : List COp) (k : Kont) (j : Nat) :
    ∀ (d c : Nat), mx - c = d → ∀ (s : Nat) (minok : Bool) (q : Nat), q ≤ e.s.size →
      (Sem e [] (.gend gno alts mn mx c s minok next k) q j ↔
        ∃ m, RepsM B mn mx c s minok q m ∧ Sem e next k m j) := by
  intro d
  induction d using Nat.strongRecOn with
  | _ d ih =>
    intro c hd s minok q hq
    constructor
    · intro h
      obtain ⟨hnp, hh⟩ := Sem.gend_iff.mp h
      rcases hh with ⟨hlt, hcond, a, ha, hs⟩ | ⟨hex, hs⟩
      · obtain ⟨q', hq', hs'⟩ := (hB q hq _ j).mp ⟨a, ha, hs⟩
        obtain ⟨m, hr, hm⟩ := (ih (mx - (c + 1)) (by omega) (c + 1) rfl q (minok || (q == s)) q' (hBb _ _ hq')).mp hs'
        exact ⟨m, RepsM.more hnp hlt hcond hq' hr, hm⟩
      · exact ⟨q, RepsM.exit hnp hex, hs⟩
    · rintro ⟨m, hr, hm⟩
      clear ih hd
      induction hr with
      | @more c s minok p q' m hnp hlt hcond hBp _ ih2 =>
        have hq'b := hBb _ _ hBp
        obtain ⟨a, ha, hs⟩ := (hB p hq _ j).mpr ⟨q', hBp, ih2 hq'b hm⟩
        exact Sem.more hnp hlt hcond ha hs
      | exit hnp hex => exact Sem.exit hnp hex hm

/-- a (possibly repeated) group in front of a continuation -/
theorem group_linkS (e : Env) (hsz : e.s.size < MAXC) (altsB : List (List COp)) (body : Re)
    (hL : LinkS e altsB body) (gno mn : Nat) (ub : Option Nat) (hc : countOk mn ub = true) (p : Nat)
    (hp : p ≤ e.s.size) (K : List COp) (k : Kont) (j : Nat) :
    Sem e (.group gno altsB mn (ub.getD MAXC) :: K) k p j ↔
      ∃ m, Matches e (.rep (.group body) mn ub) p m ∧ Sem e K k m j := by
  have hBL : ∀ p, p ≤ e.s.size → ∀ k j, (∃ a, a ∈ altsB ∧ Sem e a k p j) ↔ ∃ q, Matches e body p q ∧ Sem e [] k q j := by
    intro p hp k j
    have := hL p hp [] k j
    simpa using this
  have hmono : ∀ a b, Matches e body a b → a ≤ b := fun a b h => (Matches.bounds h).1
  have hbnd : ∀ a b, Matches e body a b → b ≤ e.s.size := fun a b h => (Matches.bounds h).2
  have hcnt : mn ≤ ub.getD MAXC ∧ (ub = none → e.s.size < ub.getD MAXC) ∧ (∀ n', ub = some n' → ub.getD MAXC = n') := by
    simp only [countOk, Bool.and_eq_true, decide_eq_true_eq] at hc
    have hM : MAXC = Gen.C04.MAX_COUNT := rfl
    cases ub with
    | none => simp; exact ⟨by omega, hsz⟩
    | some n' => simp at hc ⊢; omega
  rw [Sem.group_iff]
  -- the search side, as an exit position of the iteration discipline
  have hside : ((0 < ub.getD MAXC ∧ ∃ a, a ∈ altsB ∧ Sem e a (.gend gno altsB mn (ub.getD MAXC) 0 p false K k) p j) ∨
      (mn = 0 ∧ Sem e K k p j)) ↔ ∃ m, RepC (Matches e body) mn (ub.getD MAXC) p m ∧ Sem e K k m j := by
    constructor
    · rintro (⟨hmx, a, ha, hs⟩ | ⟨h0, hs⟩)
      · obtain ⟨q, hq, hs'⟩ := (hBL p hp _ j).mp ⟨a, ha, hs⟩
        obtain ⟨m, hr, hm⟩ := (sem_gend e altsB (Matches e body) hBL hbnd gno mn (ub.getD MAXC) K k j _ 0 rfl p false q
          (hbnd _ _ hq)).mp hs'
        exact ⟨m, Or.inl ⟨hmx, q, hq, hr⟩, hm⟩
      · exact ⟨p, Or.inr ⟨h0, rfl⟩, hs⟩
    · rintro ⟨m, (⟨hmx, q, hq, hr⟩ | ⟨h0, rfl⟩), hm⟩
      · have hs' := (sem_gend e altsB (Matches e body) hBL hbnd gno mn (ub.getD MAXC) K k j _ 0 rfl p false q
          (hbnd _ _ hq)).mpr ⟨m, hr, hm⟩
        obtain ⟨a, ha, hs⟩ := (hBL p hp _ j).mpr ⟨q, hq, hs'⟩
        exact Or.inl ⟨hmx, a, ha, hs⟩
      · exact Or.inr ⟨h0, hm⟩
  rw [hside]
  -- the iteration discipline is `mn … ub` iterations
  have hrep : ∀ m, RepC (Matches e body) mn (ub.getD MAXC) p m ↔ Matches e (.rep (.group body) mn ub) p m := by
    intro m
    rw [repC_iff hmono hbnd hcnt.1 hp ub.isNone (fun h => hcnt.2.1 (by cases ub <;> simp_all))]
    simp only [Matches]
    constructor
    · rintro ⟨n, h1, h2, h3⟩
      refine ⟨hp, n, h1, ?_, h3⟩
      intro n' hn'
      have := h2 (by rw [hn']; rfl)
      rw [hcnt.2.2 n' hn'] at this
      exact this
    · rintro ⟨_, n, h1, h2, h3⟩
      refine ⟨n, h1, ?_, h3⟩
      intro hnone
      cases ub with
      | none => simp at hnone
      | some n' => simpa using h2 n' rfl
  constructor
  · rintro ⟨m, hm, hs⟩; exact ⟨m, (hrep m).mp hm, hs⟩
  · rintro ⟨m, hm, hs⟩; exact ⟨m, (hrep m).mpr hm, hs⟩

/-- what `compR` yields on a parser-shaped tree -/
structure CompOkS (e : Env) (lvl n : Nat) (r : Re) (alts : List (List COp)) : Prop where
  one : lvl ≤ 1 → ∃ ops, alts = [ops]
  item : lvl = 0 → ∃ op, alts = [[op]]
  link : LinkS e alts r
  body : ∀ b, r = .group b → ∃ altsB, compR b 1 1 (n + 1) = some (altsB, n + 1 + b.groups) ∧ LinkS e altsB b

theorem compOkS_simpleItem (e : Env) (hsz : e.s.size < 0x7FFFFFFF) (lvl n : Nat) {x : Re} (hx : fragItem x = true) :
    CompOkS e lvl n x [[opOfItem x]] := by
  refine ⟨fun _ => ⟨_, rfl⟩, fun _ => ⟨_, rfl⟩, ?_, ?_⟩
  · intro p hs K k j
    simp only [List.mem_singleton, exists_eq_left, List.cons_append, List.nil_append]
    exact item_linkS e hsz hx p hs K k j
  · intro b hb; subst hb; simp [fragItem] at hx

theorem matches_rep_one (e : Env) (body : Re) (p m : Nat) :
    Matches e (.rep (.group body) 1 (some 1)) p m ↔ Matches e (.group body) p m := by
  simp only [Matches]
  constructor
  · rintro ⟨_, c, h1, h2, hit⟩
    have : c = 1 := by have := h2 1 rfl; omega
    subst this
    cases hit with
    | succ hb hr => cases hr; exact hb
  · intro h
    exact ⟨by have := (Matches.bounds h); omega, 1, Nat.le_refl _, fun n' hn' => by cases hn'; exact Nat.le_refl _,
      Iter.succ h (Iter.zero _)⟩

theorem compR_linkS (e : Env) (hsz : e.s.size < MAXC) : ∀ (r : Re) (lvl n : Nat), wfL lvl r = true →
    ∃ alts, compR r 1 1 n = some (alts, n + r.groups) ∧ CompOkS e lvl n r alts := by
  have hsz' : e.s.size < 0x7FFFFFFF := by
    have : MAXC = 32767 := rfl
    omega
  intro r
  induction r with
  | empty =>
    intro lvl n h
    simp only [wfL, beq_iff_eq] at h
    refine ⟨[[]], by simp [compR, Re.groups], fun hl => by omega, fun hl => by omega, ?_, fun b hb => by cases hb⟩
    intro p hs K k j
    simp only [List.mem_singleton, exists_eq_left, List.nil_append, Matches]
    constructor
    · intro hj; exact ⟨p, ⟨rfl, hs⟩, hj⟩
    · rintro ⟨m, ⟨rfl, _⟩, hj⟩; exact hj
  | chr c => intro lvl n _; exact ⟨_, by simp [compR, Re.groups, opOfItem, atomOp], compOkS_simpleItem e hsz' lvl n rfl⟩
  | any => intro lvl n _; exact ⟨_, by simp [compR, Re.groups, opOfItem, atomOp], compOkS_simpleItem e hsz' lvl n rfl⟩
  | cls bm => intro lvl n _; exact ⟨_, by simp [compR, Re.groups, opOfItem, atomOp], compOkS_simpleItem e hsz' lvl n rfl⟩
  | bol => intro lvl n _; exact ⟨_, by simp [compR, Re.groups, opOfItem], compOkS_simpleItem e hsz' lvl n rfl⟩
  | eol => intro lvl n _; exact ⟨_, by simp [compR, Re.groups, opOfItem], compOkS_simpleItem e hsz' lvl n rfl⟩
  | rep a m ub iha =>
    intro lvl n h
    simp only [wfL, Bool.and_eq_true] at h
    obtain ⟨⟨hat, hwa⟩, hcnt⟩ := h
    have hub : ∀ n', ub = some n' → n' < MAXC := by
      intro n' hn'
      subst hn'
      simp only [countOk, Bool.and_eq_true, decide_eq_true_eq] at hcnt
      exact hcnt.2.2
    have simple : isAtomRe a = true → ∃ alts, compR (.rep a m ub) 1 1 n = some (alts, n + (Re.rep a m ub).groups) ∧
        CompOkS e lvl n (.rep a m ub) alts := by
      intro ha
      have hi : fragItem (.rep a m ub) = true := by
        simp only [fragItem, ha, Bool.true_and]
        cases ub with
        | none => rfl
        | some n' => simpa using hub n' rfl
      refine ⟨[[opOfItem (.rep a m ub)]], ?_, compOkS_simpleItem e hsz' lvl n hi⟩
      have := compR_item hi n
      have hg : (Re.rep a m ub).groups = 0 := by
        cases a <;> simp [isAtomRe] at ha <;> simp [Re.groups]
      rw [hg]; exact this
    cases a with
    | chr c => exact simple rfl
    | any => exact simple rfl
    | cls bm => exact simple rfl
    | group body =>
      obtain ⟨_, _, okA⟩ := iha 0 n hwa
      obtain ⟨altsB, hcb, hLB⟩ := okA.body body rfl
      refine ⟨[[.group (n + 1) altsB m (ub.getD MAXC)]], ?_, fun _ => ⟨_, rfl⟩, fun _ => ⟨_, rfl⟩, ?_,
        fun b hb => by cases hb⟩
      · simp only [compR, hcb, Re.groups]
        rw [Nat.add_assoc, Nat.add_comm 1]
      · intro p hs K k j
        simp only [List.mem_singleton, exists_eq_left, List.cons_append, List.nil_append]
        exact group_linkS e hsz altsB body hLB (n + 1) m ub hcnt p hs K k j
    | _ => simp [Re.isAtom] at hat
  | cat a b iha ihb =>
    intro lvl n h
    simp only [wfL, Bool.and_eq_true, decide_eq_true_eq] at h
    obtain ⟨altsA, hca, okA⟩ := iha 0 n h.1.2
    obtain ⟨op, rfl⟩ := okA.item rfl
    obtain ⟨altsB, hcb, okB⟩ := ihb 1 (n + a.groups) h.2
    obtain ⟨ops, rfl⟩ := okB.one (Nat.le_refl _)
    refine ⟨[op :: ops], ?_, fun _ => ⟨_, rfl⟩, fun hl => by omega, ?_, fun b hb => by cases hb⟩
    · simp only [compR, hca, hcb, Re.groups]
      rw [Nat.add_assoc]
    · intro p hs K k j
      simp only [List.mem_singleton, exists_eq_left, List.cons_append, Matches]
      have la := okA.link p hs (ops ++ K) k j
      simp only [List.mem_singleton, exists_eq_left, List.cons_append, List.nil_append] at la
      rw [la]
      constructor
      · rintro ⟨m1, hm1, hj⟩
        have lb := okB.link m1 (Matches.bounds hm1).2 K k j
        simp only [List.mem_singleton, exists_eq_left] at lb
        obtain ⟨m, hm, hj'⟩ := lb.mp hj
        exact ⟨m, ⟨m1, hm1, hm⟩, hj'⟩
      · rintro ⟨m, ⟨m1, hm1, hm⟩, hj'⟩
        have lb := okB.link m1 (Matches.bounds hm1).2 K k j
        simp only [List.mem_singleton, exists_eq_left] at lb
        exact ⟨m1, hm1, lb.mpr ⟨m, hm, hj'⟩⟩
  | alt a b iha ihb =>
    intro lvl n h
    simp only [wfL, Bool.and_eq_true, decide_eq_true_eq] at h
    obtain ⟨altsA, hca, okA⟩ := iha 1 n h.1.2
    obtain ⟨opsA, rfl⟩ := okA.one (Nat.le_refl _)
    obtain ⟨altsB, hcb, okB⟩ := ihb 2 (n + a.groups) h.2
    refine ⟨opsA :: altsB, ?_, fun hl => by omega, fun hl => by omega, ?_, fun b hb => by cases hb⟩
    · simp only [compR, hca, hcb, Re.groups]
      rw [Nat.add_assoc]
    · intro p hs K k j
      simp only [Matches]
      have la := okA.link p hs K k j
      simp only [List.mem_singleton, exists_eq_left] at la
      have lb := okB.link p hs K k j
      constructor
      · rintro ⟨x, hx, hj⟩
        rcases List.mem_cons.mp hx with rfl | hx
        · obtain ⟨m, hm, hj'⟩ := la.mp hj
          exact ⟨m, Or.inl hm, hj'⟩
        · obtain ⟨m, hm, hj'⟩ := lb.mp ⟨x, hx, hj⟩
          exact ⟨m, Or.inr hm, hj'⟩
      · rintro ⟨m, hm | hm, hj'⟩
        · exact ⟨opsA, List.mem_cons_self, la.mpr ⟨m, hm, hj'⟩⟩
        · obtain ⟨x, hx, hj⟩ := lb.mpr ⟨m, hm, hj'⟩
          exact ⟨x, List.mem_cons_of_mem _ hx, hj⟩
  | group body ih =>
    intro lvl n h
    simp only [wfL] at h
    obtain ⟨altsB, hcb, okB⟩ := ih 3 (n + 1) h
    refine ⟨[[.group (n + 1) altsB 1 1]], ?_, fun _ => ⟨_, rfl⟩, fun _ => ⟨_, rfl⟩, ?_, ?_⟩
    · simp only [compR, hcb, Re.groups]
      rw [Nat.add_assoc, Nat.add_comm 1]
    · intro p hs K k j
      simp only [List.mem_singleton, exists_eq_left, List.cons_append, List.nil_append]
      have := group_linkS e hsz altsB body okB.link (n + 1) 1 (some 1) (by decide) p hs K k j
      simp only [Option.getD_some] at this
      rw [this]
      constructor
      · rintro ⟨m, hm, hj⟩; exact ⟨m, (matches_rep_one e body p m).mp hm, hj⟩
      · rintro ⟨m, hm, hj⟩; exact ⟨m, (matches_rep_one e body p m).mpr hm, hj⟩
    · intro b hb
      cases hb
      exact ⟨altsB, hcb, okB.link⟩

/-- **the matcher model equals the reference on every parser-shaped tree** (`wfL 2`: what
`parse` produces, repeated groups included), for subjects shorter than `MAX_COUNT` -/
theorem cExec_eq_llmatch_full (r : Re) (hr : wfL 2 r = true) (e : Env) (hsz : e.s.size < MAXC)
    (nosub : Bool) (nmatch budget fuel : Nat) :
    ∃ alts, compileOps r = some (alts, r.groups) ∧
      (Good (cExec alts r.groups nosub e nmatch budget fuel).rc →
        (cExec alts r.groups nosub e nmatch budget fuel).rc = (if (llmatch e r).isSome then 0 else NOMATCH) ∧
        (nosub = false → nmatch > 0 → ∀ i j, llmatch e r = some (i, j) →
          (cExec alts r.groups nosub e nmatch budget fuel).pm.head? = some ((i : Int), (j : Int)))) := by
  obtain ⟨alts, hc, ok⟩ := compR_linkS e hsz r 2 0 hr
  have hc' : compileOps r = some (alts, r.groups) := by simpa [compileOps] using hc
  refine ⟨alts, hc', ?_⟩
  intro hg
  have hlink : ∀ i, i ≤ e.s.size → ∀ j, AltsSem e alts i j ↔ Matches e r i j := by
    intro i hi j
    have := ok.link i hi [] .root j
    simp only [List.append_nil] at this
    simp only [AltsSem]
    rw [this]
    constructor
    · rintro ⟨m, hm, hj⟩; rw [Sem.root_iff.mp hj]; exact hm
    · intro hm; exact ⟨j, hm, Sem.root _⟩
  have hwf := (compR_wfg r 1 1 0 alts r.groups (by simpa [compileOps] using hc')).2
  rcases cExec_specR alts hwf r.groups nosub e nmatch budget fuel hg with ⟨r0, hll, hpm⟩ | ⟨r1, hnone⟩
  · obtain ⟨j0, hj0⟩ := hll.found
    have hm0 := (hlink _ hll.inb j0).mp hj0
    have hsome : (llmatch e r).isSome = true := by
      cases hl : llmatch e r with
      | none => exact absurd hm0 ((llmatch_eq_none_iff e r).mp hl _ _)
      | some p => rfl
    refine ⟨by rw [r0, hsome]; rfl, ?_⟩
    intro hns hnm i j hl
    have hstrict : (!nosub && decide (nmatch > 0)) = true := by simp [hns, hnm]
    obtain ⟨le, hlast, hmle, hmax⟩ := hll.longest hstrict
    have href : llmatch e r = some ((cExec alts r.groups nosub e nmatch budget fuel).start, le) := by
      rw [llmatch_eq_some_iff]
      refine ⟨(hlink _ hll.inb le).mp hmle, ?_, ?_⟩
      · intro i' hi' j' hm'
        exact hll.leftmost i' hi' j' ((hlink i' (by have := hll.inb; omega) j').mpr hm')
      · intro j' hj' hm'
        have := hmax j' ((hlink _ hll.inb j').mpr hm')
        omega
    rw [href] at hl
    obtain ⟨rfl, rfl⟩ := Prod.mk.inj (Option.some.inj hl)
    exact hpm hstrict le hlast
  · have hnone' : llmatch e r = none := by
      rw [llmatch_eq_none_iff]
      intro i j hm
      exact hnone i (by have := (Matches.bounds hm); omega) j ((hlink i (by have := (Matches.bounds hm); omega) j).mpr hm)
    refine ⟨by rw [r1, hnone']; rfl, ?_⟩
    intro _ _ i j hl
    rw [hnone'] at hl; cases hl

end Usual.C04.CM
