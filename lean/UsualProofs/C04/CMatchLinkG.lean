import UsualProofs.C04.CMatchGrp
import UsualProofs.C04.CMatchLink
/-! Helper lemmas for C04: trees without repeated groups (atoms with counts, anchors, plain groups
nested arbitrarily, alternation and concatenation in parser shape) compile to well-formed op
lists whose declarative reading `OM` is `Matches`; hence the matcher model equals the reference
on them. -/
set_option linter.unusedSimpArgs false
set_option linter.unusedVariables false
namespace Usual.C04.CM
open Usual.C04

/-- parser-shaped trees in which only simple atoms are repeated (level as in `wfL`: 0 item,
1 branch, 2 alternation, 3 group body) -/
def fragG : Nat → Re → Bool
  | lvl, .empty => lvl == 3
  | lvl, .alt a b => decide (2 ≤ lvl) && fragG 1 a && fragG 2 b
  | lvl, .cat a b => decide (1 ≤ lvl) && fragG 0 a && fragG 1 b
  | _, .chr _ => true
  | _, .any => true
  | _, .cls _ => true
  | _, .bol => true
  | _, .eol => true
  | _, .rep a _ n => isAtomRe a && (match n with
      | some n' => decide (n' < MAXC)
      | none => true)
  | _, .group r => fragG 3 r

theorem WF.mono {n m : Nat} {ops : List COp} (h : WF n ops) (hm : m ≤ n) : WF m ops := by
  induction h with
  | nil _ => exact WF.nil _
  | simple hs _ ih => exact WF.simple hs (ih hm)
  | grp hlt ha _ _ ih => exact WF.grp (by omega) ha (ih hm)

theorem om_atomOp {e : Env} {a : Re} {ok : UInt8 → Bool} (h : atomOk e a = some ok) (mn mx : Nat)
    (K : List COp) (str j : Nat) :
    OM e (atomOp a mn mx :: K) str j ↔
      ∃ k, mn ≤ k ∧ k ≤ countWhile e ok (e.s.size + 1) str (simpleMax mx) 0 ∧ OM e K (str + k) j := by
  cases a <;> simp [atomOk] at h <;> subst h
  · simp only [atomOp]; exact OM.chr_iff
  · simp only [atomOp]; exact OM.any_iff
  · simp only [atomOp]; exact OM.cls_iff

/-- one simple item in front of a continuation `K` -/
theorem item_linkG (e : Env) (hsz : e.s.size < 0x7FFFFFFF) {x : Re} (hx : fragItem x = true) (str : Nat)
    (hs : str ≤ e.s.size) (K : List COp) (j : Nat) :
    OM e (opOfItem x :: K) str j ↔ ∃ m, Matches e x str m ∧ OM e K m j := by
  have plain : ∀ a : Re, isAtomRe a = true → opOfItem a = atomOp a 1 1 →
      (OM e (opOfItem a :: K) str j ↔ ∃ m, Matches e a str m ∧ OM e K m j) := by
    intro a ha hop
    obtain ⟨ok, hok⟩ := atomOk_of_isAtom e ha
    rw [hop, om_atomOp hok]
    have h1 : simpleMax 1 = 1 := by simp [simpleMax, MAXC, Gen.C04.MAX_COUNT]
    rw [h1]
    constructor
    · rintro ⟨k, hk1, hk2, hj⟩
      obtain ⟨hk3, hr⟩ := (le_count_iff e ok str 1 k).mp hk2
      have : k = 1 := by omega
      subst this
      obtain ⟨b, hb, hokb⟩ := hr 0 (by omega)
      exact ⟨str + 1, (atom_matches hok str _).mpr ⟨rfl, b, hb, hokb⟩, hj⟩
    · rintro ⟨m, hm, hj⟩
      obtain ⟨rfl, b, hb, hokb⟩ := (atom_matches hok str m).mp hm
      refine ⟨1, Nat.le_refl _, (le_count_iff e ok str 1 1).mpr ⟨Nat.le_refl _, ?_⟩, hj⟩
      intro t ht
      have : t = 0 := by omega
      subst this
      exact ⟨b, hb, hokb⟩
  cases x with
  | chr c => exact plain _ rfl rfl
  | any => exact plain _ rfl rfl
  | cls bm => exact plain _ rfl rfl
  | bol =>
    simp only [opOfItem, Matches]
    rw [OM.bol_iff]
    constructor
    · rintro ⟨h1, h2⟩; exact ⟨str, ⟨rfl, hs, h1⟩, h2⟩
    · rintro ⟨m, ⟨rfl, _, h1⟩, h2⟩; exact ⟨h1, h2⟩
  | eol =>
    simp only [opOfItem, Matches]
    rw [OM.eol_iff]
    constructor
    · rintro ⟨h1, h2⟩; exact ⟨str, ⟨rfl, hs, h1⟩, h2⟩
    · rintro ⟨m, ⟨rfl, _, h1⟩, h2⟩; exact ⟨h1, h2⟩
  | rep a mn n =>
    simp only [fragItem, Bool.and_eq_true] at hx
    obtain ⟨ha, hn⟩ := hx
    obtain ⟨ok, hok⟩ := atomOk_of_isAtom e ha
    simp only [opOfItem]
    rw [om_atomOp hok]
    have hbound : ∀ k, RunOk e ok str k →
        (k ≤ simpleMax (n.getD MAXC) ↔ ∀ n', n = some n' → k ≤ n') := by
      intro k hr
      have hk := hr.bound hs
      cases n with
      | none => simp [simpleMax]; omega
      | some n' =>
        simp only [decide_eq_true_eq] at hn
        have : n' ≠ MAXC := by omega
        simp [simpleMax, this]
    constructor
    · rintro ⟨k, hk1, hk2, hj⟩
      obtain ⟨hk3, hr⟩ := (le_count_iff e ok str _ k).mp hk2
      refine ⟨str + k, ?_, hj⟩
      simp only [Matches]
      exact ⟨hs, k, hk1, (hbound k hr).mp hk3, (iter_atom hok k str _).mpr ⟨rfl, hr⟩⟩
    · rintro ⟨m, hm, hj⟩
      simp only [Matches] at hm
      obtain ⟨_, c, hc1, hc2, hit⟩ := hm
      obtain ⟨rfl, hr⟩ := (iter_atom hok c str m).mp hit
      exact ⟨c, hc1, (le_count_iff e ok str _ c).mpr ⟨(hbound c hr).mpr hc2, hr⟩, hj⟩
  | _ => simp [fragItem] at hx

/-- the OR-list `alts` in front of any continuation means `r` -/
def LinkG (e : Env) (alts : List (List COp)) (r : Re) : Prop :=
  ∀ str, str ≤ e.s.size → ∀ (K : List COp) (j : Nat),
    (∃ a, a ∈ alts ∧ OM e (a ++ K) str j) ↔ ∃ m, Matches e r str m ∧ OM e K m j

/-- what `compR` yields on the fragment -/
structure CompOk (e : Env) (lvl n : Nat) (r : Re) (alts : List (List COp)) : Prop where
  wf : ∀ a, a ∈ alts → WF n a
  one : lvl ≤ 1 → ∃ ops, alts = [ops]
  item : lvl = 0 → ∃ op, alts = [[op]]
  link : LinkG e alts r

theorem compOk_simpleItem (e : Env) (hsz : e.s.size < 0x7FFFFFFF) (lvl n : Nat) {x : Re} (hx : fragItem x = true) :
    CompOk e lvl n x [[opOfItem x]] := by
  refine ⟨?_, fun _ => ⟨_, rfl⟩, fun _ => ⟨_, rfl⟩, ?_⟩
  · intro a ha
    simp only [List.mem_singleton] at ha
    subst ha
    exact WF.simple (simple_opOfItem hx) (WF.nil _)
  · intro str hs K j
    simp only [List.mem_singleton, exists_eq_left, List.cons_append, List.nil_append]
    exact item_linkG e hsz hx str hs K j

theorem compR_fragG (e : Env) (hsz : e.s.size < 0x7FFFFFFF) : ∀ (r : Re) (lvl n : Nat), fragG lvl r = true →
    ∃ alts, compR r 1 1 n = some (alts, n + r.groups) ∧ CompOk e lvl n r alts := by
  intro r
  induction r with
  | empty =>
    intro lvl n h
    simp only [fragG, beq_iff_eq] at h
    refine ⟨[[]], by simp [compR, Re.groups], ?_, fun hl => by omega, fun hl => by omega, ?_⟩
    · intro a ha; simp only [List.mem_singleton] at ha; subst ha; exact WF.nil _
    · intro str hs K j
      simp only [List.mem_singleton, exists_eq_left, List.nil_append, Matches]
      constructor
      · intro hj; exact ⟨str, ⟨rfl, hs⟩, hj⟩
      · rintro ⟨m, ⟨rfl, _⟩, hj⟩; exact hj
  | chr c => intro lvl n _; exact ⟨_, by simp [compR, Re.groups, opOfItem, atomOp], compOk_simpleItem e hsz lvl n rfl⟩
  | any => intro lvl n _; exact ⟨_, by simp [compR, Re.groups, opOfItem, atomOp], compOk_simpleItem e hsz lvl n rfl⟩
  | cls bm => intro lvl n _; exact ⟨_, by simp [compR, Re.groups, opOfItem, atomOp], compOk_simpleItem e hsz lvl n rfl⟩
  | bol => intro lvl n _; exact ⟨_, by simp [compR, Re.groups, opOfItem], compOk_simpleItem e hsz lvl n rfl⟩
  | eol => intro lvl n _; exact ⟨_, by simp [compR, Re.groups, opOfItem], compOk_simpleItem e hsz lvl n rfl⟩
  | rep a m k _ =>
    intro lvl n h
    have hi : fragItem (.rep a m k) = true := by
      cases k <;> simpa [fragG, fragItem] using h
    refine ⟨[[opOfItem (.rep a m k)]], ?_, compOk_simpleItem e hsz lvl n hi⟩
    have := compR_item hi n
    have hg : (Re.rep a m k).groups = 0 := by
      simp only [fragItem, Bool.and_eq_true] at hi
      have ha := hi.1
      cases a <;> simp [isAtomRe] at ha <;> simp [Re.groups]
    rw [hg]; exact this
  | cat a b iha ihb =>
    intro lvl n h
    simp only [fragG, Bool.and_eq_true, decide_eq_true_eq] at h
    obtain ⟨altsA, hca, okA⟩ := iha 0 n h.1.2
    obtain ⟨op, rfl⟩ := okA.item rfl
    obtain ⟨altsB, hcb, okB⟩ := ihb 1 (n + a.groups) h.2
    obtain ⟨ops, rfl⟩ := okB.one (Nat.le_refl _)
    refine ⟨[op :: ops], ?_, ?_, fun _ => ⟨_, rfl⟩, fun hl => by omega, ?_⟩
    · simp only [compR, hca, hcb, Re.groups]
      rw [Nat.add_assoc]
    · intro x hx
      simp only [List.mem_singleton] at hx
      subst hx
      have h1 := okA.wf [op] (by simp)
      have h2 := (okB.wf ops (by simp)).mono (Nat.le_add_right n a.groups)
      cases h1 with
      | simple hs _ => exact WF.simple hs h2
      | grp hlt ha _ => exact WF.grp hlt ha h2
    · intro str hs K j
      simp only [List.mem_singleton, exists_eq_left, List.cons_append, Matches]
      have la := okA.link str hs (ops ++ K) j
      simp only [List.mem_singleton, exists_eq_left, List.cons_append, List.nil_append] at la
      rw [la]
      constructor
      · rintro ⟨m1, hm1, hj⟩
        have lb := okB.link m1 (Matches.bounds hm1).2 K j
        simp only [List.mem_singleton, exists_eq_left] at lb
        obtain ⟨m, hm, hj'⟩ := lb.mp hj
        exact ⟨m, ⟨m1, hm1, hm⟩, hj'⟩
      · rintro ⟨m, ⟨m1, hm1, hm⟩, hj'⟩
        have lb := okB.link m1 (Matches.bounds hm1).2 K j
        simp only [List.mem_singleton, exists_eq_left] at lb
        exact ⟨m1, hm1, lb.mpr ⟨m, hm, hj'⟩⟩
  | alt a b iha ihb =>
    intro lvl n h
    simp only [fragG, Bool.and_eq_true, decide_eq_true_eq] at h
    obtain ⟨altsA, hca, okA⟩ := iha 1 n h.1.2
    obtain ⟨opsA, rfl⟩ := okA.one (Nat.le_refl _)
    obtain ⟨altsB, hcb, okB⟩ := ihb 2 (n + a.groups) h.2
    refine ⟨opsA :: altsB, ?_, ?_, fun hl => by omega, fun hl => by omega, ?_⟩
    · simp only [compR, hca, hcb, Re.groups]
      rw [Nat.add_assoc]
    · intro x hx
      rcases List.mem_cons.mp hx with rfl | hx
      · exact okA.wf _ (by simp)
      · exact (okB.wf x hx).mono (Nat.le_add_right n a.groups)
    · intro str hs K j
      simp only [Matches]
      have la := okA.link str hs K j
      simp only [List.mem_singleton, exists_eq_left] at la
      have lb := okB.link str hs K j
      constructor
      · rintro ⟨x, hx, hj⟩
        rcases List.mem_cons.mp hx with rfl | hx
        · obtain ⟨m, hm, hj'⟩ := la.mp hj
          exact ⟨m, Or.inl hm, hj'⟩
        · obtain ⟨m, hm, hj'⟩ := lb.mp ⟨x, hx, hj⟩
          exact ⟨m, Or.inr hm, hj'⟩
      · rintro ⟨m, hm | hm, hj'⟩
        · exact ⟨opsA, List.mem_cons_self, la.mpr ⟨m, hm, hj'⟩⟩
        · obtain ⟨x, hx, hj⟩ := lb.mpr ⟨m, hm, hj'⟩
          exact ⟨x, List.mem_cons_of_mem _ hx, hj⟩
  | group body ih =>
    intro lvl n h
    simp only [fragG] at h
    obtain ⟨altsB, hcb, okB⟩ := ih 3 (n + 1) h
    refine ⟨[[.group (n + 1) altsB 1 1]], ?_, ?_, fun _ => ⟨_, rfl⟩, fun _ => ⟨_, rfl⟩, ?_⟩
    · simp only [compR, hcb, Re.groups]
      rw [Nat.add_assoc, Nat.add_comm 1]
    · intro x hx
      simp only [List.mem_singleton] at hx
      subst hx
      exact WF.grp (Nat.lt_succ_self n) okB.wf (WF.nil _)
    · intro str hs K j
      simp only [List.mem_singleton, exists_eq_left, List.cons_append, List.nil_append, Matches]
      rw [OM.grp_iff]
      exact okB.link str hs K j

/-- **the matcher model equals the reference on trees without repeated groups** -/
theorem cExec_eq_llmatch_fragG (r : Re) (hr : fragG 2 r = true) (e : Env) (hsz : e.s.size < 0x7FFFFFFF)
    (nosub : Bool) (nmatch budget fuel : Nat) :
    ∃ alts, compileOps r = some (alts, r.groups) ∧
      (Good (cExec alts r.groups nosub e nmatch budget fuel).rc →
        (cExec alts r.groups nosub e nmatch budget fuel).rc = (if (llmatch e r).isSome then 0 else NOMATCH) ∧
        (nosub = false → nmatch > 0 → ∀ i j, llmatch e r = some (i, j) →
          (cExec alts r.groups nosub e nmatch budget fuel).pm.head? = some ((i : Int), (j : Int)))) := by
  obtain ⟨alts, hc, ok⟩ := compR_fragG e hsz r 2 0 hr
  refine ⟨alts, by simpa [compileOps] using hc, ?_⟩
  intro hg
  have hlink : ∀ i, i ≤ e.s.size → ∀ j, AltsOM e alts i j ↔ Matches e r i j := by
    intro i hi j
    have := ok.link i hi [] j
    simp only [List.append_nil] at this
    simp only [AltsOM]
    rw [this]
    constructor
    · rintro ⟨m, hm, hj⟩; rw [OM.nil_iff.mp hj]; exact hm
    · intro hm; exact ⟨j, hm, OM.nil _⟩
  rcases cExec_specG alts ok.wf r.groups nosub e nmatch budget fuel hg with ⟨r0, hll, hpm⟩ | ⟨r1, hnone⟩
  · obtain ⟨j0, hj0⟩ := hll.found
    have hm0 := (hlink _ hll.inb j0).mp hj0
    have hsome : (llmatch e r).isSome = true := by
      cases hl : llmatch e r with
      | none => exact absurd hm0 ((llmatch_eq_none_iff e r).mp hl _ _)
      | some p => rfl
    refine ⟨by rw [r0, hsome]; rfl, ?_⟩
    intro hns hnm i j hl
    have hstrict : (!nosub && decide (nmatch > 0)) = true := by simp [hns, hnm]
    obtain ⟨le, hlast, hmle, hmax⟩ := hll.longest hstrict
    have href : llmatch e r = some ((cExec alts r.groups nosub e nmatch budget fuel).start, le) := by
      rw [llmatch_eq_some_iff]
      refine ⟨(hlink _ hll.inb le).mp hmle, ?_, ?_⟩
      · intro i' hi' j' hm'
        exact hll.leftmost i' hi' j' ((hlink i' (by have := hll.inb; omega) j').mpr hm')
      · intro j' hj' hm'
        have := hmax j' ((hlink _ hll.inb j').mpr hm')
        omega
    rw [href] at hl
    obtain ⟨rfl, rfl⟩ := Prod.mk.inj (Option.some.inj hl)
    exact hpm hstrict le hlast
  · have hnone' : llmatch e r = none := by
      rw [llmatch_eq_none_iff]
      intro i j hm
      exact hnone i (by have := (Matches.bounds hm); omega) j ((hlink i (by have := (Matches.bounds hm); omega) j).mpr hm)
    refine ⟨by rw [r1, hnone']; rfl, ?_⟩
    intro _ _ i j hl
    rw [hnone'] at hl; cases hl

end Usual.C04.CM
