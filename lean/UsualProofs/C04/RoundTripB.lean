import UsualProofs.C04.RoundTrip
/-! Helper lemmas for C04: the BRE parser model inverts the BRE renderer on the fragment `wfB`
(no brackets, no alternation, `^` first / `$` last in a (sub)pattern).  Same two layers as
`RoundTrip.lean`, with the context rules of `parse_posix_basic`. -/
set_option linter.unnecessarySimpa false
set_option linter.unusedSimpArgs false

namespace Usual.C04
open Usual.Gen.C04

def quantTokB (m : Nat) (n : Option Nat) : Tok :=
  if m = 0 ∧ n = none then .star else .count m n

def toksB (fl : PFlags) : Re → List Tok
  | .empty => []
  | .chr c => [.chr (foldc fl c)]
  | .any => [.dot]
  | .cls bm => [.cls (normCls fl bm)]
  | .bol => [.caret]
  | .eol => [.dollar]
  | .cat a b => toksB fl a ++ toksB fl b
  | .alt a b => toksB fl a ++ .err .badpat :: toksB fl b
  | .rep r m n => toksB fl r ++ [quantTokB m n]
  | .group r => .lparen :: (toksB fl r ++ [.rparen])

/-! ## `\{m,n\}` -/

theorem parseCount_renderB (m : Nat) (n : Option Nat) (rest : List UInt8) (hok : countOk m n = true) :
    parseCount false (countBody m n ++ 92 :: 125 :: rest) = .ok (m, n, rest) := by
  have hM := max_count_lt
  have hm : m < MAX_COUNT := by
    simp only [countOk, Bool.and_eq_true, decide_eq_true_eq] at hok
    exact hok.1
  have hb92 : isDigitB 92 = false := by decide
  have hb44 : isDigitB 44 = false := by decide
  cases n with
  | none =>
    have hs : strtoul (digits m ++ 44 :: 92 :: 125 :: rest) = some (m, 44 :: 92 :: 125 :: rest) :=
      strtoul_digits m (by omega) 44 _ hb44
    have hn : strtoul (92 :: 125 :: rest) = none :=
      strtoul_none_of_nondigit 92 _ (by decide) (by decide) (by decide) hb92
    have e : countBody m none ++ 92 :: 125 :: rest = digits m ++ 44 :: 92 :: 125 :: rest := by simp [countBody]
    rw [e]
    unfold parseCount
    rw [hs]
    have hu : upperOf m (44 :: 92 :: 125 :: rest) = (MAX_COUNT, 92 :: 125 :: rest) := by simp [upperOf, hn]
    simp only [hu]
    have h1 : ¬ m > MAX_COUNT := by omega
    have h2 : ¬ m ≥ MAX_COUNT := by omega
    simp [countTail, h1, h2]
  | some n' =>
    simp only [countOk, Bool.and_eq_true, decide_eq_true_eq] at hok
    obtain ⟨_, hmn, hn'⟩ := hok
    have hs2 : strtoul (digits n' ++ 92 :: 125 :: rest) = some (n', 92 :: 125 :: rest) :=
      strtoul_digits n' (by omega) 92 _ hb92
    have h1 : ¬ m > n' := by omega
    have h2 : ¬ n' > MAX_COUNT := by omega
    have h3 : ¬ m ≥ MAX_COUNT := by omega
    have h4 : ¬ n' = MAX_COUNT := by omega
    by_cases heq : n' = m
    · subst heq
      have hne : ¬ (92 : UInt8) = 44 := by decide
      have e : countBody n' (some n') ++ 92 :: 125 :: rest = digits n' ++ 92 :: 125 :: rest := by simp [countBody]
      rw [e]
      unfold parseCount
      rw [hs2]
      have hu : upperOf n' (92 :: 125 :: rest) = (n', 92 :: 125 :: rest) := by simp [upperOf]
      simp only [hu]
      simp [countTail, h2, h3, h4]
    · have hs : strtoul (digits m ++ 44 :: (digits n' ++ 92 :: 125 :: rest)) =
          some (m, 44 :: (digits n' ++ 92 :: 125 :: rest)) :=
        strtoul_digits m (by omega) 44 _ hb44
      have e : countBody m (some n') ++ 92 :: 125 :: rest = digits m ++ 44 :: (digits n' ++ 92 :: 125 :: rest) := by
        simp [countBody, heq]
      rw [e]
      unfold parseCount
      rw [hs]
      have hu : upperOf m (44 :: (digits n' ++ 92 :: 125 :: rest)) = (n', 92 :: 125 :: rest) := by
        simp [upperOf, hs2]
      simp only [hu]
      simp [countTail, h1, h2, h3, h4]

/-! ## lexer -/

def LexesB (fl : PFlags) (s : List UInt8) (ts : List Tok) : Prop :=
  ∀ fuel, s.length ≤ fuel → lexB fl fuel s = ts

theorem lexesB_nil (fl : PFlags) : LexesB fl [] [] := by
  intro fuel _
  cases fuel <;> simp [lexB]

theorem lexesB_plain (fl : PFlags) (c : UInt8) (hc : specialB c = false) {rest : List UInt8} {ts : List Tok}
    (h : LexesB fl rest ts) : LexesB fl (c :: rest) (.chr (foldc fl c) :: ts) := by
  intro fuel hf
  cases fuel with
  | zero => simp at hf
  | succ f =>
    simp only [specialB, Bool.or_eq_false_iff, decide_eq_false_iff_not] at hc
    obtain ⟨⟨⟨⟨⟨h1, h2⟩, h3⟩, h4⟩, h5⟩, h6⟩ := hc
    simp only [lexB, if_neg h1, if_neg h2, if_neg h3, if_neg h4, if_neg h5, if_neg h6]
    rw [h f (by simpa using hf)]

theorem foldc_special (fl : PFlags) (c : UInt8) (hc : specialB c = true) : foldc fl c = c := by
  simp only [specialB, Bool.or_eq_true, decide_eq_true_eq] at hc
  rcases hc with (((((rfl | rfl) | rfl) | rfl) | rfl) | rfl) <;> simp [foldc, lower]

theorem lexesB_escaped (fl : PFlags) (c : UInt8) (hc : specialB c = true) {rest : List UInt8} {ts : List Tok}
    (h : LexesB fl rest ts) : LexesB fl (92 :: c :: rest) (.chr (foldc fl c) :: ts) := by
  intro fuel hf
  cases fuel with
  | zero => simp at hf
  | succ f =>
    have hrest := h f (by simp at hf; omega)
    rw [foldc_special fl c hc]
    simp only [specialB, Bool.or_eq_true, decide_eq_true_eq] at hc
    rcases hc with (((((rfl | rfl) | rfl) | rfl) | rfl) | rfl) <;> simp [lexB, hrest]

theorem lexesB_chr (fl : PFlags) (c : UInt8) {rest : List UInt8} {ts : List Tok} (h : LexesB fl rest ts) :
    LexesB fl (renderBRE (.chr c) ++ rest) (.chr (foldc fl c) :: ts) := by
  simp only [renderBRE]
  by_cases hc : specialB c = true
  · rw [if_pos hc]; exact lexesB_escaped fl c hc h
  · rw [if_neg hc]
    exact lexesB_plain fl c (by simpa using hc) h

theorem lexesB_lparen (fl : PFlags) {rest ts} (h : LexesB fl rest ts) :
    LexesB fl (92 :: 40 :: rest) (.lparen :: ts) := by
  intro fuel hf
  cases fuel with
  | zero => simp at hf
  | succ f => simp [lexB, h f (by simp at hf; omega)]

theorem lexesB_rparen (fl : PFlags) {rest ts} (h : LexesB fl rest ts) :
    LexesB fl (92 :: 41 :: rest) (.rparen :: ts) := by
  intro fuel hf
  cases fuel with
  | zero => simp at hf
  | succ f => simp [lexB, h f (by simp at hf; omega)]

theorem lexesB_star (fl : PFlags) {rest ts} (h : LexesB fl rest ts) : LexesB fl (42 :: rest) (.star :: ts) := by
  intro fuel hf
  cases fuel with
  | zero => simp at hf
  | succ f => simp [lexB, h f (by simpa using hf)]

theorem lexesB_dot (fl : PFlags) {rest ts} (h : LexesB fl rest ts) : LexesB fl (46 :: rest) (.dot :: ts) := by
  intro fuel hf
  cases fuel with
  | zero => simp at hf
  | succ f => simp [lexB, h f (by simpa using hf)]

theorem lexesB_caret (fl : PFlags) {rest ts} (h : LexesB fl rest ts) : LexesB fl (94 :: rest) (.caret :: ts) := by
  intro fuel hf
  cases fuel with
  | zero => simp at hf
  | succ f => simp [lexB, h f (by simpa using hf)]

/-- `$` is the anchor exactly when nothing or `\)` follows -/
def EndOk (rest : List UInt8) : Prop := rest = [] ∨ ∃ r, rest = 92 :: 41 :: r

theorem lexesB_dollar (fl : PFlags) {rest ts} (hend : EndOk rest) (h : LexesB fl rest ts) :
    LexesB fl (36 :: rest) (.dollar :: ts) := by
  intro fuel hf
  cases fuel with
  | zero => simp at hf
  | succ f =>
    have hr := h f (by simpa using hf)
    rcases hend with rfl | ⟨r, rfl⟩
    · simp [lexB, hr]
    · simp [lexB, startsWith, hr]

theorem lexesB_count (fl : PFlags) (m : Nat) (n : Option Nat) (hok : countOk m n = true)
    {rest : List UInt8} {ts : List Tok} (h : LexesB fl rest ts) :
    LexesB fl (92 :: 123 :: (countBody m n ++ 92 :: 125 :: rest)) (.count m n :: ts) := by
  intro fuel hf
  cases fuel with
  | zero => simp at hf
  | succ f =>
    have hrest := h f (by simp at hf; omega)
    have hp := parseCount_renderB m n rest hok
    simp [lexB, hp, hrest]

theorem lexesB_quant (fl : PFlags) (m : Nat) (n : Option Nat) (hok : countOk m n = true)
    {rest : List UInt8} {ts : List Tok} (h : LexesB fl rest ts) :
    LexesB fl (quantB m n ++ rest) (quantTokB m n :: ts) := by
  unfold quantB quantTokB
  by_cases h1 : m = 0 ∧ n = none
  · rw [if_pos h1, if_pos h1]; exact lexesB_star fl h
  · rw [if_neg h1, if_neg h1]
    have := lexesB_count fl m n hok h
    simpa using this

theorem lexesB_cls (fl : PFlags) (bm : Nat) (h256 : bm < 2 ^ 256) (h0 : bm.testBit 0 = false)
    {rest : List UInt8} {ts : List Tok} (h : LexesB fl rest ts) :
    LexesB fl (renderCls bm ++ rest) (.cls (normCls fl bm) :: ts) := by
  intro fuel hf
  cases fuel with
  | zero => simp [renderCls] at hf
  | succ f =>
    have hp := parseClass_clsBody fl bm h256 h0 rest
    have hrest := h f (by simp [renderCls] at hf; omega)
    simp [renderCls, lexB, hp, hrest]

theorem lexesB_render (fl : PFlags) : ∀ (r : Re) (lvl : Nat) (first last : Bool), wfBL lvl first last r = true →
    ∀ {rest : List UInt8} {ts : List Tok}, (last = true → EndOk rest) → LexesB fl rest ts →
      LexesB fl (renderBRE r ++ rest) (toksB fl r ++ ts) := by
  intro r
  induction r with
  | empty => intro lvl first last _ rest ts _ h; simpa [renderBRE, toksB] using h
  | chr c => intro lvl first last _ rest ts _ h; simpa [toksB] using lexesB_chr fl c h
  | any => intro lvl first last _ rest ts _ h; simpa [renderBRE, toksB] using lexesB_dot fl h
  | cls bm =>
    intro lvl first last hwf rest ts _ h
    simp only [wfBL, Bool.and_eq_true, decide_eq_true_eq, Bool.not_eq_true'] at hwf
    simpa [renderBRE, toksB] using lexesB_cls fl bm hwf.1 hwf.2 h
  | bol => intro lvl first last _ rest ts _ h; simpa [renderBRE, toksB] using lexesB_caret fl h
  | eol =>
    intro lvl first last hwf rest ts hend h
    simp only [wfBL] at hwf
    simpa [renderBRE, toksB] using lexesB_dollar fl (hend hwf) h
  | cat a b iha ihb =>
    intro lvl first last hwf rest ts hend h
    simp only [wfBL, Bool.and_eq_true] at hwf
    have := iha 0 first false hwf.1.2 (fun hf => by cases hf) (ihb 1 false last hwf.2 hend h)
    simpa [renderBRE, toksB, List.append_assoc] using this
  | alt a b _ _ => intro lvl first last hwf; simp [wfBL] at hwf
  | rep r m n ih =>
    intro lvl first last hwf rest ts _ h
    simp only [wfBL, Bool.and_eq_true] at hwf
    have := ih 0 false false hwf.1.2 (fun hf => by cases hf) (lexesB_quant fl m n hwf.2 h)
    simpa [renderBRE, toksB, List.append_assoc] using this
  | group r ih =>
    intro lvl first last hwf rest ts _ h
    simp only [wfBL] at hwf
    have := lexesB_lparen fl (ih 3 true true hwf (fun _ => Or.inr ⟨rest, rfl⟩) (lexesB_rparen fl h))
    simpa [renderBRE, toksB, List.append_assoc] using this

/-! ## token parser (BRE rules: `^` is an anchor only at the start of a branch, `*` is literal
there; a closing `\)` needs an open group) -/

def StepsToB (fl : PFlags) (r : Re) (st st' : PSt) : Prop :=
  ∀ ts, prun false st (toksB fl r ++ ts) = prun false st' ts

theorem leaf_stepB (fl : PFlags) (r x : Re) (t : Tok) (htok : toksB fl r = [t]) (hfold : foldRe fl r = x)
    (hitems : items x = [x]) (hg : r.groups = 0) (st : PSt)
    (hstep : pstep false st t = .ok (push st x)) :
    ∃ st', StepsToB fl r st st' ∧ RelA fl r st st' := by
  refine ⟨push st x, ?_, ?_⟩
  · intro ts
    rw [htok]
    exact prun_cons_ok ts hstep
  · refine ⟨rfl, by simp [push, hg], rfl, rfl, ?_, fun _ => rfl⟩
    simp [push, hfold, hitems]

theorem quant_stepB (st : PSt) (x : Re) (xs : List Re) (m : Nat) (n : Option Nat)
    (hcur : st.top.cur = x :: xs) (hg : st.gotcnt = false) (hb : x ≠ .bol) (he : x ≠ .eol) :
    pstep false st (quantTokB m n) =
      .ok { st with top := { st.top with cur := .rep x m n :: xs }, gotcnt := true } := by
  have happ : ∀ m n, applyCount st m n =
      .ok { st with top := { st.top with cur := .rep x m n :: xs }, gotcnt := true } := by
    intro m n
    simp [applyCount, hcur, hg, hb, he]
  unfold quantTokB
  by_cases h1 : m = 0 ∧ n = none
  · rw [if_pos h1]; obtain ⟨rfl, rfl⟩ := h1; simp [pstep, hcur, hb, happ]
  · rw [if_neg h1]; simp [pstep, happ]

/-- the BRE token parser rebuilds a branch (strict BRE has no alternation, so one level) -/
theorem parse_mainB (fl : PFlags) : ∀ (r : Re) (first last : Bool),
    wfBL 1 first last r = true → ∀ st : PSt, st.nsub + r.groups + 1 < MAX_GROUPS →
      (first = true → st.top.cur = []) →
        ∃ st', StepsToB fl r st st' ∧ RelA fl r st st' := by
  intro r
  induction r with
  | empty => intro first last h; simp [wfBL] at h
  | cls bm =>
    intro first last _ st _ _
    exact leaf_stepB fl (.cls bm) (.cls (normCls fl bm)) (.cls (normCls fl bm)) rfl rfl rfl rfl st rfl
  | alt a b _ _ => intro first last h; simp [wfBL] at h
  | chr c =>
    intro first last _ st _ _
    exact leaf_stepB fl (.chr c) (.chr (foldc fl c)) (.chr (foldc fl c)) rfl rfl rfl rfl st rfl
  | any =>
    intro first last _ st _ _
    exact leaf_stepB fl .any .any .dot rfl rfl rfl rfl st rfl
  | bol =>
    intro first last hwf st _ hfirst
    simp only [wfBL] at hwf
    have hc := hfirst hwf
    exact leaf_stepB fl .bol .bol .caret rfl rfl rfl rfl st (by simp [pstep, hc])
  | eol =>
    intro first last _ st _ _
    exact leaf_stepB fl .eol .eol .dollar rfl rfl rfl rfl st rfl
  | cat a b iha ihb =>
    intro first last hwf st hb hfirst
    simp only [wfBL, Bool.and_eq_true] at hwf
    simp only [Re.groups] at hb
    have hwfa : wfBL 1 first false a = true := by
      have := hwf.1.2
      cases a <;> simp [wfBL] at this ⊢ <;> exact this
    obtain ⟨st1, s1, a1, a2, a3, a4, a5, _⟩ := iha first false hwfa st (by omega) hfirst
    obtain ⟨st2, s2, b1, b2, b3, b4, b5, _⟩ := ihb false last hwf.2 st1 (by omega) (fun h => by cases h)
    have hita : items (foldRe fl a) = [foldRe fl a] := by
      have := hwf.1.2
      cases a <;> simp [wfBL] at this <;> simp [foldRe, items]
    refine ⟨st2, ?_, ?_⟩
    · intro ts
      simp only [toksB, List.append_assoc]
      rw [s1, s2]
    · refine ⟨by rw [b1, a1], by simp only [Re.groups]; omega, by rw [b3, a3], by rw [b4, a4], ?_,
        fun h => by simp [Re.isAtom] at h⟩
      rw [b5, a5, hita]
      simp [foldRe, items]
  | rep r m n ih =>
    intro first last hwf st hb _
    simp only [wfBL, Bool.and_eq_true] at hwf
    simp only [Re.groups] at hb
    have hwfr : wfBL 1 false false r = true := by
      have := hwf.1.2
      have hat := hwf.1.1
      cases r <;> simp [Re.isAtom] at hat <;> simp [wfBL] at this ⊢ <;> exact this
    obtain ⟨st1, s1, a1, a2, a3, a4, a5, a6⟩ := ih false false hwfr st hb (fun h => by cases h)
    obtain ⟨f1, f2, f3⟩ := fold_atom_shape fl hwf.1.1
    rw [f3] at a5
    have hq := quant_stepB st1 (foldRe fl r) st.top.cur m n (by simpa using a5) (a6 hwf.1.1) f1 f2
    refine ⟨{ st1 with top := { st1.top with cur := .rep (foldRe fl r) m n :: st.top.cur }, gotcnt := true }, ?_, ?_⟩
    · intro ts
      simp only [toksB, List.append_assoc, List.singleton_append]
      rw [s1, prun_cons_ok _ hq]
    · refine ⟨a1, by simpa [Re.groups] using a2, a3, a4, ?_, fun h => by simp [Re.isAtom] at h⟩
      simp [foldRe, items]
  | group r ih =>
    intro first last hwf st hb _
    simp only [wfBL] at hwf
    simp only [Re.groups] at hb
    let st0 : PSt := { top := {}, stack := st.top :: st.stack, gotcnt := false, nsub := st.nsub + 1 }
    have hl : pstep false st .lparen = .ok st0 := by
      have : ¬ st.nsub + 1 ≥ MAX_GROUPS := by omega
      simp [pstep, this, st0]
    have hbody : ∃ st1, (∀ ts, prun false st0 (toksB fl r ++ ts) = prun false st1 ts) ∧
        st1.stack = st.top :: st.stack ∧ st1.nsub = st.nsub + 1 + r.groups ∧ branchBad st1.top = false ∧
        closeFrame st1.top = foldRe fl r := by
      by_cases hr : r = .empty
      · subst hr
        exact ⟨st0, fun ts => by simp [toksB], rfl, by simp [st0, Re.groups], by simp [st0, branchBad],
          by simp [st0, closeFrame, mkCat, mkAlt, foldRe]⟩
      · have hwf1 : wfBL 1 true true r = true := by
          cases r with
          | empty => exact absurd rfl hr
          | cat a b => simpa [wfBL] using hwf
          | _ => simpa [wfBL] using hwf
        obtain ⟨st1, s1, c1, c2, c3, c4, c5, _⟩ := ih true true hwf1 st0 (by simp [st0]; omega) (fun _ => rfl)
        have hcur : st1.top.cur = (items (foldRe fl r)).reverse := by simpa [st0] using c5
        have hne : st1.top.cur ≠ [] := by
          rw [hcur]
          have := items_ne_nil (foldRe fl r)
          simpa using this
        refine ⟨st1, s1, by rw [c1], by rw [c2], ?_, ?_⟩
        · cases h : st1.top.cur with
          | nil => exact absurd h hne
          | cons _ _ => simp [branchBad, h]
        · simp only [closeFrame, hcur, c3, st0, List.reverse_reverse, mkCat_items]
          simp [mkAlt]
    obtain ⟨st1, s1, d1, d2, d3, d4⟩ := hbody
    let st2 : PSt := { top := { st.top with cur := .group (foldRe fl r) :: st.top.cur }, stack := st.stack,
                        gotcnt := false, nsub := st1.nsub }
    have hr : pstep false st1 .rparen = .ok st2 := by
      simp [pstep, d1, d3, d4, st2]
    refine ⟨st2, ?_, ?_⟩
    · intro ts
      simp only [toksB, List.cons_append, List.append_assoc, List.singleton_append]
      rw [prun_cons_ok _ hl, s1, prun_cons_ok _ hr]
      simp
    · refine ⟨rfl, by simp [st2, d2, Re.groups]; omega, rfl, rfl, by simp [st2, foldRe, items], fun _ => rfl⟩

theorem renderB_ne_nil : ∀ (r : Re) (lvl : Nat) (first last : Bool), lvl ≤ 2 → wfBL lvl first last r = true →
    renderBRE r ≠ [] := by
  intro r
  induction r with
  | empty => intro lvl _ _ h hwf; simp [wfBL] at hwf; omega
  | chr c => intro lvl _ _ _ _; simp only [renderBRE]; split <;> simp
  | any => intro lvl _ _ _ _; simp [renderBRE]
  | cls bm => intro lvl _ _ _ _; simp [renderBRE, renderCls]
  | bol => intro lvl _ _ _ _; simp [renderBRE]
  | eol => intro lvl _ _ _ _; simp [renderBRE]
  | cat a b iha _ =>
    intro lvl first last _ hwf
    simp only [wfBL, Bool.and_eq_true] at hwf
    have := iha 0 first false (by omega) hwf.1.2
    simp [renderBRE, this]
  | alt a b _ _ => intro lvl _ _ _ _; simp [renderBRE]
  | rep r m n ih =>
    intro lvl _ _ _ hwf
    simp only [wfBL, Bool.and_eq_true] at hwf
    have := ih 0 false false (by omega) hwf.1.2
    simp [renderBRE, this]
  | group r _ => intro lvl _ _ _ _; simp [renderBRE]

/-- parse ∘ render on the bracket-free BRE fragment -/
theorem parseBRE_renderBRE (fl : PFlags) (r : Re) (h : wfB r = true) :
    parseBRE fl (renderBRE r) = .ok (foldRe fl r, r.groups) := by
  simp only [wfB, Bool.and_eq_true, decide_eq_true_eq] at h
  obtain ⟨hwf, hg⟩ := h
  have hne : (renderBRE r).isEmpty = false := by
    cases hr : renderBRE r with
    | nil => exact absurd hr (renderB_ne_nil r 1 true true (by omega) hwf)
    | cons _ _ => rfl
  have hlex : lexB fl (renderBRE r).length (renderBRE r) = toksB fl r := by
    have := lexesB_render fl r 1 true true hwf (fun _ => Or.inl rfl) (lexesB_nil fl)
      (renderBRE r ++ []).length (Nat.le_refl _)
    simpa using this
  obtain ⟨st', s, b1, b2, b3, _, b5, _⟩ := parse_mainB fl r true true hwf {} (by simpa using hg) (fun _ => rfl)
  have hrun : prun false {} (toksB fl r) = .ok st' := by
    have := s []
    simpa [prun] using this
  have hcur : st'.top.cur = (items (foldRe fl r)).reverse := by simpa using b5
  have hne' : st'.top.cur ≠ [] := by
    rw [hcur]
    have := items_ne_nil (foldRe fl r)
    simpa using this
  have hbad : branchBad st'.top = false := by
    cases h : st'.top.cur with
    | nil => exact absurd h hne'
    | cons _ _ => simp [branchBad, h]
  have hstack : st'.stack.isEmpty = true := by rw [b1]; rfl
  have halts : st'.top.alts = [] := b3
  simp only [parseBRE, hne, hlex, parseToks, hrun, pfinish, hstack, hbad]
  simp [closeFrame, hcur, halts, mkCat_items, mkAlt, b2]

theorem foldRe_noflagsB : ∀ (r : Re) (lvl : Nat) (first last : Bool), wfBL lvl first last r = true →
    foldRe {} r = r := by
  intro r
  induction r with
  | chr c => intro lvl _ _ _; simp [foldRe, foldc]
  | cls bm =>
    intro lvl _ _ h
    simp only [wfBL, Bool.and_eq_true, decide_eq_true_eq, Bool.not_eq_true'] at h
    simp only [foldRe, normCls_noflags bm h.1 h.2]
  | cat a b iha ihb =>
    intro lvl first last h
    simp only [wfBL, Bool.and_eq_true] at h
    simp only [foldRe, iha 0 first false h.1.2, ihb 1 false last h.2]
  | alt a b _ _ => intro lvl _ _ h; simp [wfBL] at h
  | rep r m n ih =>
    intro lvl _ _ h
    simp only [wfBL, Bool.and_eq_true] at h
    simp only [foldRe, ih 0 false false h.1.2]
  | group r ih =>
    intro lvl _ _ h
    simp only [wfBL] at h
    simp only [foldRe, ih 3 true true h]
  | _ => intro lvl _ _ _; rfl

end Usual.C04
