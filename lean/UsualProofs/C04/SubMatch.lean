import UsualProofs.C04.Ends
/-! Helper lemmas for C04: the sub-match clause `pmatchOk` (what it says, and that it is
satisfiable for every match of the reference). -/
namespace Usual.C04

/-- the array regexec fills when no group is reported: overall match, then `nsub` unset entries -/
def unsetPm (i j nsub : Nat) : List (Int × Int) := ((i : Int), (j : Int)) :: List.replicate nsub (-1, -1)

theorem pmatchOk_unset {len nsub i j : Nat} (hij : i ≤ j) (hj : j ≤ len) :
    pmatchOk len nsub (unsetPm i j nsub) = true := by
  simp only [unsetPm, pmatchOk, Bool.and_eq_true, decide_eq_true_eq, List.all_eq_true]
  refine ⟨⟨⟨by omega, by omega⟩, by omega⟩, ?_⟩
  rintro ⟨⟨so, eo⟩, idx⟩ hmem
  have := (List.mem_zipIdx hmem).2.2
  have hm : (so, eo) ∈ List.replicate nsub ((-1 : Int), (-1 : Int)) := by
    rw [this]; exact List.getElem_mem _
  have := (List.mem_replicate.mp hm).2
  simp only [Prod.mk.injEq] at this
  obtain ⟨rfl, rfl⟩ := this
  simp

/-- head of the clause: `pm[0]` is an ordered range inside the subject -/
theorem pmatchOk_head {len nsub : Nat} {so0 eo0 : Int} {rest : List (Int × Int)}
    (h : pmatchOk len nsub ((so0, eo0) :: rest) = true) : 0 ≤ so0 ∧ so0 ≤ eo0 ∧ eo0 ≤ (len : Int) := by
  simp only [pmatchOk, Bool.and_eq_true, decide_eq_true_eq] at h
  exact ⟨h.1.1.1, h.1.1.2, h.1.2⟩

/-- tail of the clause: entry `k+1` is unset, or it belongs to a group (`k+1 ≤ nsub`) and is an
ordered range inside `pm[0]` (hence inside the subject) -/
theorem pmatchOk_entry {len nsub : Nat} {so0 eo0 : Int} {rest : List (Int × Int)}
    (h : pmatchOk len nsub ((so0, eo0) :: rest) = true) (k : Nat) (hk : k < rest.length) :
    rest[k] = (-1, -1) ∨
      (k + 1 ≤ nsub ∧ so0 ≤ rest[k].1 ∧ rest[k].1 ≤ rest[k].2 ∧ rest[k].2 ≤ eo0 ∧
        0 ≤ rest[k].1 ∧ rest[k].2 ≤ (len : Int)) := by
  have hh := pmatchOk_head h
  simp only [pmatchOk, Bool.and_eq_true, List.all_eq_true] at h
  have hmem : (rest[k], k) ∈ rest.zipIdx := by
    rw [List.mem_zipIdx_iff_getElem?]
    simp [hk]
  have := h.2 (rest[k], k) hmem
  simp only [Bool.or_eq_true, Bool.and_eq_true, beq_iff_eq, decide_eq_true_eq] at this
  rcases this with ⟨h1, h2⟩ | ⟨⟨⟨h1, h2⟩, h3⟩, h4⟩
  · left
    exact Prod.ext h1 h2
  · right
    exact ⟨h1, h2, h3, h4, by omega, by omega⟩

end Usual.C04
