import UsualProofs.C04.CMatchFrag
/-! Helper lemmas for C04: op lists of parenthesis-free trees mean what the trees mean
(`OpsMatch (compile r) ↔ Matches e r`), and `compileOps` produces them. -/
set_option linter.unusedSimpArgs false
set_option linter.unusedVariables false
namespace Usual.C04.CM
open Usual.C04

/-! ## greedy run length -/

/-- the `c` bytes from `str` on all exist and satisfy `ok` -/
def RunOk (e : Env) (ok : UInt8 → Bool) (str c : Nat) : Prop :=
  ∀ t, t < c → ∃ b, e.s[str + t]? = some b ∧ ok b = true

theorem countWhile_spec (e : Env) (ok : UInt8 → Bool) (str mx : Nat) : ∀ (f i : Nat),
    e.s.size + 1 ≤ f + (str + i) → i ≤ mx → RunOk e ok str i →
    let L := countWhile e ok f str mx i
    i ≤ L ∧ L ≤ mx ∧ RunOk e ok str L ∧
      (L = mx ∨ e.s[str + L]? = none ∨ ∃ b, e.s[str + L]? = some b ∧ ok b = false) := by
  intro f
  induction f with
  | zero =>
    intro i hf hi hr
    simp only [countWhile]
    refine ⟨Nat.le_refl _, hi, hr, Or.inr (Or.inl ?_)⟩
    have : e.s.size ≤ str + i := by omega
    simp [this]
  | succ f ih =>
    intro i hf hi hr
    simp only [countWhile]
    by_cases him : i < mx
    · rw [if_pos him]
      cases hb : e.s[str + i]? with
      | none => exact ⟨Nat.le_refl _, hi, hr, Or.inr (Or.inl hb)⟩
      | some b =>
        simp only []
        by_cases hok : ok b = true
        · rw [if_pos hok]
          have hr' : RunOk e ok str (i + 1) := by
            intro t ht
            by_cases hti : t = i
            · subst hti; exact ⟨b, hb, hok⟩
            · exact hr t (by omega)
          have := ih (i + 1) (by omega) (by omega) hr'
          exact ⟨by omega, this.2.1, this.2.2.1, this.2.2.2⟩
        · rw [if_neg hok]
          exact ⟨Nat.le_refl _, hi, hr, Or.inr (Or.inr ⟨b, hb, by simpa using hok⟩)⟩
    · rw [if_neg him]
      exact ⟨Nat.le_refl _, hi, hr, Or.inl (by omega)⟩

/-- lengths `c` the atom can take at `str`: exactly those up to the greedy count -/
theorem le_count_iff (e : Env) (ok : UInt8 → Bool) (str mx c : Nat) :
    c ≤ countWhile e ok (e.s.size + 1) str mx 0 ↔ (c ≤ mx ∧ RunOk e ok str c) := by
  have h := countWhile_spec e ok str mx (e.s.size + 1) 0 (by omega) (Nat.zero_le _) (fun t ht => by omega)
  simp only [] at h
  obtain ⟨_, h2, h3, h4⟩ := h
  constructor
  · intro hc
    exact ⟨by omega, fun t ht => h3 t (by omega)⟩
  · rintro ⟨hc1, hc2⟩
    apply Nat.le_of_not_gt
    intro hgt
    rcases h4 with h4 | h4 | ⟨b, hb, hnok⟩
    · omega
    · obtain ⟨b, hb, _⟩ := hc2 _ hgt
      rw [h4] at hb; cases hb
    · obtain ⟨b', hb', hok⟩ := hc2 _ hgt
      rw [hb] at hb'
      cases hb'
      rw [hok] at hnok; cases hnok

theorem RunOk.bound {e : Env} {ok : UInt8 → Bool} {str c : Nat} (h : RunOk e ok str c) (hs : str ≤ e.s.size) :
    str + c ≤ e.s.size := by
  cases c with
  | zero => exact hs
  | succ c =>
    obtain ⟨b, hb, _⟩ := h c (Nat.lt_succ_self _)
    have := lt_size_of_getElem? hb
    omega

/-! ## atoms -/

/-- the three simple atoms and their byte test -/
def atomOk (e : Env) : Re → Option (UInt8 → Bool)
  | .chr c => some (fun b => chrOk e c b)
  | .any => some (fun b => anyOk e b)
  | .cls bm => some (fun b => clsOk bm b)
  | _ => none

theorem atom_matches {e : Env} {a : Re} {ok : UInt8 → Bool} (h : atomOk e a = some ok) (i k : Nat) :
    Matches e a i k ↔ k = i + 1 ∧ ∃ b, e.s[i]? = some b ∧ ok b = true := by
  cases a <;> simp [atomOk] at h <;> subst h <;> simp [Matches]

theorem iter_atom {e : Env} {a : Re} {ok : UInt8 → Bool} (h : atomOk e a = some ok) : ∀ (c i k : Nat),
    Iter (Matches e a) c i k ↔ k = i + c ∧ RunOk e ok i c := by
  intro c
  induction c with
  | zero =>
    intro i k
    rw [Iter.zero_iff]
    constructor
    · rintro rfl; exact ⟨rfl, fun t ht => by omega⟩
    · rintro ⟨rfl, _⟩; rfl
  | succ c ih =>
    intro i k
    rw [Iter.succ_iff]
    constructor
    · rintro ⟨m, hm, hit⟩
      obtain ⟨rfl, b, hb, hok⟩ := (atom_matches h i m).mp hm
      obtain ⟨rfl, hr⟩ := (ih (i + 1) k).mp hit
      refine ⟨by omega, ?_⟩
      intro t ht
      cases t with
      | zero => exact ⟨b, hb, hok⟩
      | succ t =>
        obtain ⟨b', hb', hok'⟩ := hr t (by omega)
        exact ⟨b', by rw [show i + (t + 1) = i + 1 + t by omega]; exact hb', hok'⟩
    · rintro ⟨rfl, hr⟩
      obtain ⟨b, hb, hok⟩ := hr 0 (by omega)
      refine ⟨i + 1, (atom_matches h i (i + 1)).mpr ⟨rfl, b, hb, hok⟩, (ih (i + 1) _).mpr ⟨by omega, ?_⟩⟩
      intro t ht
      obtain ⟨b', hb', hok'⟩ := hr (t + 1) (by omega)
      exact ⟨b', by rw [show i + 1 + t = i + (t + 1) by omega]; exact hb', hok'⟩

/-! ## the parenthesis-free fragment of `Re` and its op lists -/

def branchesOf : Re → List Re
  | .alt a b => a :: branchesOf b
  | r => [r]

def itemsOf : Re → List Re
  | .cat a b => a :: itemsOf b
  | r => [r]

def isAtomRe : Re → Bool
  | .chr _ => true
  | .any => true
  | .cls _ => true
  | _ => false

def atomOp (a : Re) (mn mx : Nat) : COp :=
  match a with
  | .chr c => .chr c mn mx
  | .any => .any mn mx
  | .cls bm => .cls bm mn mx
  | _ => .bol

/-- item of a branch: atom, anchor, or counted atom (upper bound below `MAX_COUNT`, as the parser
guarantees) -/
def fragItem : Re → Bool
  | .chr _ => true
  | .any => true
  | .cls _ => true
  | .bol => true
  | .eol => true
  | .rep a _ n => isAtomRe a && (match n with
      | some n' => decide (n' < MAXC)
      | none => true)
  | _ => false

def opOfItem : Re → COp
  | .bol => .bol
  | .eol => .eol
  | .rep a m n => atomOp a m (n.getD MAXC)
  | a => atomOp a 1 1

def fragBranch : Re → Bool
  | .cat a b => fragItem a && fragBranch b
  | r => fragItem r

/-- parenthesis-free trees in parser shape: right-nested alternation of right-nested concatenations -/
def fragAlts : Re → Bool
  | .alt a b => fragBranch a && fragAlts b
  | r => fragBranch r

def branchOps (b : Re) : List COp := (itemsOf b).map opOfItem
def altsOps (r : Re) : List (List COp) := (branchesOf r).map branchOps

theorem atomOk_of_isAtom (e : Env) {a : Re} (h : isAtomRe a = true) : ∃ ok, atomOk e a = some ok := by
  cases a <;> simp [isAtomRe] at h <;> simp [atomOk]

theorem opsMatch_atomOp {e : Env} {a : Re} {ok : UInt8 → Bool} (h : atomOk e a = some ok) (mn mx : Nat)
    (rest : List COp) (str j : Nat) :
    OpsMatch e (atomOp a mn mx :: rest) str j ↔
      ∃ k, mn ≤ k ∧ k ≤ countWhile e ok (e.s.size + 1) str (simpleMax mx) 0 ∧ OpsMatch e rest (str + k) j := by
  cases a <;> simp [atomOk] at h <;> subst h <;> simp [atomOp, OpsMatch]

theorem simple_atomOp {a : Re} (h : isAtomRe a = true) (mn mx : Nat) : Simple (atomOp a mn mx) = true := by
  cases a <;> simp [isAtomRe] at h <;> simp [atomOp, Simple]

theorem simple_opOfItem {x : Re} (h : fragItem x = true) : Simple (opOfItem x) = true := by
  cases x with
  | rep a m n =>
    simp only [fragItem, Bool.and_eq_true] at h
    exact simple_atomOp h.1 _ _
  | chr c => simp [opOfItem, atomOp, Simple]
  | any => simp [opOfItem, atomOp, Simple]
  | cls bm => simp [opOfItem, atomOp, Simple]
  | bol => simp [opOfItem, Simple]
  | eol => simp [opOfItem, Simple]
  | _ => simp [fragItem] at h

/-- one item: the op means what the item means -/
theorem item_link (e : Env) (hsz : e.s.size < 0x7FFFFFFF) {x : Re} (hx : fragItem x = true) (str : Nat)
    (hs : str ≤ e.s.size) (rest : List COp) (j : Nat) :
    OpsMatch e (opOfItem x :: rest) str j ↔ ∃ m, Matches e x str m ∧ OpsMatch e rest m j := by
  have plain : ∀ a : Re, isAtomRe a = true → opOfItem a = atomOp a 1 1 →
      (OpsMatch e (opOfItem a :: rest) str j ↔ ∃ m, Matches e a str m ∧ OpsMatch e rest m j) := by
    intro a ha hop
    obtain ⟨ok, hok⟩ := atomOk_of_isAtom e ha
    rw [hop, opsMatch_atomOp hok]
    have h1 : simpleMax 1 = 1 := by simp [simpleMax, MAXC, Gen.C04.MAX_COUNT]
    rw [h1]
    constructor
    · rintro ⟨k, hk1, hk2, hj⟩
      obtain ⟨hk3, hr⟩ := (le_count_iff e ok str 1 k).mp hk2
      have : k = 1 := by omega
      subst this
      obtain ⟨b, hb, hokb⟩ := hr 0 (by omega)
      exact ⟨str + 1, (atom_matches hok str _).mpr ⟨rfl, b, hb, hokb⟩, hj⟩
    · rintro ⟨m, hm, hj⟩
      obtain ⟨rfl, b, hb, hokb⟩ := (atom_matches hok str m).mp hm
      refine ⟨1, Nat.le_refl _, (le_count_iff e ok str 1 1).mpr ⟨Nat.le_refl _, ?_⟩, hj⟩
      intro t ht
      have : t = 0 := by omega
      subst this
      exact ⟨b, hb, hokb⟩
  cases x with
  | chr c => exact plain _ rfl rfl
  | any => exact plain _ rfl rfl
  | cls bm => exact plain _ rfl rfl
  | bol =>
    simp only [opOfItem, OpsMatch, Matches]
    constructor
    · rintro ⟨h1, h2⟩; exact ⟨str, ⟨rfl, hs, h1⟩, h2⟩
    · rintro ⟨m, ⟨rfl, _, h1⟩, h2⟩; exact ⟨h1, h2⟩
  | eol =>
    simp only [opOfItem, OpsMatch, Matches]
    constructor
    · rintro ⟨h1, h2⟩; exact ⟨str, ⟨rfl, hs, h1⟩, h2⟩
    · rintro ⟨m, ⟨rfl, _, h1⟩, h2⟩; exact ⟨h1, h2⟩
  | rep a mn n =>
    simp only [fragItem, Bool.and_eq_true] at hx
    obtain ⟨ha, hn⟩ := hx
    obtain ⟨ok, hok⟩ := atomOk_of_isAtom e ha
    simp only [opOfItem]
    rw [opsMatch_atomOp hok]
    -- the upper bound of the op is the upper bound of the repetition
    have hbound : ∀ k, RunOk e ok str k →
        (k ≤ simpleMax (n.getD MAXC) ↔ ∀ n', n = some n' → k ≤ n') := by
      intro k hr
      have hk := hr.bound hs
      cases n with
      | none => simp [simpleMax]; omega
      | some n' =>
        simp only [decide_eq_true_eq] at hn
        have : n' ≠ MAXC := by omega
        simp [simpleMax, this]
    constructor
    · rintro ⟨k, hk1, hk2, hj⟩
      obtain ⟨hk3, hr⟩ := (le_count_iff e ok str _ k).mp hk2
      refine ⟨str + k, ?_, hj⟩
      simp only [Matches]
      exact ⟨hs, k, hk1, (hbound k hr).mp hk3, (iter_atom hok k str _).mpr ⟨rfl, hr⟩⟩
    · rintro ⟨m, hm, hj⟩
      simp only [Matches] at hm
      obtain ⟨_, c, hc1, hc2, hit⟩ := hm
      obtain ⟨rfl, hr⟩ := (iter_atom hok c str m).mp hit
      exact ⟨c, hc1, (le_count_iff e ok str _ c).mpr ⟨(hbound c hr).mpr hc2, hr⟩, hj⟩
  | _ => simp [fragItem] at hx

theorem itemsOf_noncat {r : Re} (h : fragItem r = true) : itemsOf r = [r] := by
  cases r <;> simp [fragItem] at h <;> simp [itemsOf]

/-- one branch -/
theorem branch_link (e : Env) (hsz : e.s.size < 0x7FFFFFFF) : ∀ (b : Re), fragBranch b = true →
    ∀ (str : Nat), str ≤ e.s.size → ∀ (j : Nat),
      OpsMatch e (branchOps b) str j ↔ Matches e b str j := by
  intro b
  induction b with
  | cat a b2 _ ih2 =>
    intro hb str hs j
    simp only [fragBranch, Bool.and_eq_true] at hb
    simp only [branchOps, itemsOf, List.map_cons]
    rw [item_link e hsz hb.1 str hs]
    simp only [Matches]
    constructor
    · rintro ⟨m, hm, hj⟩
      exact ⟨m, hm, (ih2 hb.2 m (Matches.bounds hm).2 j).mp hj⟩
    · rintro ⟨m, hm, hj⟩
      exact ⟨m, hm, (ih2 hb.2 m (Matches.bounds hm).2 j).mpr hj⟩
  | alt a b2 _ _ => intro hb; simp [fragBranch, fragItem] at hb
  | group r _ => intro hb; simp [fragBranch, fragItem] at hb
  | empty => intro hb; simp [fragBranch, fragItem] at hb
  | chr c =>
    intro hb str hs j
    have hi : fragItem (.chr c) = true := rfl
    simp only [branchOps, itemsOf_noncat hi, List.map_cons, List.map_nil]
    rw [item_link e hsz hi str hs]
    simp only [OpsMatch]
    constructor
    · rintro ⟨m, hm, rfl⟩; exact hm
    · intro hm; exact ⟨j, hm, rfl⟩
  | any =>
    intro hb str hs j
    have hi : fragItem .any = true := rfl
    simp only [branchOps, itemsOf_noncat hi, List.map_cons, List.map_nil]
    rw [item_link e hsz hi str hs]
    simp only [OpsMatch]
    constructor
    · rintro ⟨m, hm, rfl⟩; exact hm
    · intro hm; exact ⟨j, hm, rfl⟩
  | cls bm =>
    intro hb str hs j
    have hi : fragItem (.cls bm) = true := rfl
    simp only [branchOps, itemsOf_noncat hi, List.map_cons, List.map_nil]
    rw [item_link e hsz hi str hs]
    simp only [OpsMatch]
    constructor
    · rintro ⟨m, hm, rfl⟩; exact hm
    · intro hm; exact ⟨j, hm, rfl⟩
  | bol =>
    intro hb str hs j
    have hi : fragItem .bol = true := rfl
    simp only [branchOps, itemsOf_noncat hi, List.map_cons, List.map_nil]
    rw [item_link e hsz hi str hs]
    simp only [OpsMatch]
    constructor
    · rintro ⟨m, hm, rfl⟩; exact hm
    · intro hm; exact ⟨j, hm, rfl⟩
  | eol =>
    intro hb str hs j
    have hi : fragItem .eol = true := rfl
    simp only [branchOps, itemsOf_noncat hi, List.map_cons, List.map_nil]
    rw [item_link e hsz hi str hs]
    simp only [OpsMatch]
    constructor
    · rintro ⟨m, hm, rfl⟩; exact hm
    · intro hm; exact ⟨j, hm, rfl⟩
  | rep a m n _ =>
    intro hb str hs j
    have hi : fragItem (.rep a m n) = true := by simpa [fragBranch] using hb
    simp only [branchOps, itemsOf_noncat hi, List.map_cons, List.map_nil]
    rw [item_link e hsz hi str hs]
    simp only [OpsMatch]
    constructor
    · rintro ⟨m', hm, rfl⟩; exact hm
    · intro hm; exact ⟨j, hm, rfl⟩

theorem branchesOf_nonalt {r : Re} (h : ∀ a b, r ≠ .alt a b) : branchesOf r = [r] := by
  cases r <;> simp [branchesOf] <;> exact absurd rfl (h _ _)

theorem alts_single (e : Env) (hsz : e.s.size < 0x7FFFFFFF) (r : Re) (hbr : branchesOf r = [r])
    (hb : fragBranch r = true) (str : Nat) (hs : str ≤ e.s.size) (j : Nat) :
    AltsMatch e (altsOps r) str j ↔ Matches e r str j := by
  simp only [altsOps, hbr, List.map_cons, List.map_nil, AltsMatch, List.mem_singleton]
  constructor
  · rintro ⟨ops, rfl, hj⟩; exact (branch_link e hsz r hb str hs j).mp hj
  · intro hj; exact ⟨_, rfl, (branch_link e hsz r hb str hs j).mpr hj⟩

/-- the OR-list -/
theorem alts_link (e : Env) (hsz : e.s.size < 0x7FFFFFFF) : ∀ (r : Re), fragAlts r = true →
    ∀ (str : Nat), str ≤ e.s.size → ∀ (j : Nat),
      AltsMatch e (altsOps r) str j ↔ Matches e r str j := by
  intro r
  induction r with
  | alt a b _ ihb =>
    intro hr str hs j
    simp only [fragAlts, Bool.and_eq_true] at hr
    simp only [altsOps, branchesOf, List.map_cons, AltsMatch, List.mem_cons, Matches]
    constructor
    · rintro ⟨ops, (rfl | hmem), hj⟩
      · exact Or.inl ((branch_link e hsz a hr.1 str hs j).mp hj)
      · exact Or.inr ((ihb hr.2 str hs j).mp ⟨ops, hmem, hj⟩)
    · rintro (hj | hj)
      · exact ⟨_, Or.inl rfl, (branch_link e hsz a hr.1 str hs j).mpr hj⟩
      · obtain ⟨ops, hmem, hj'⟩ := (ihb hr.2 str hs j).mpr hj
        exact ⟨ops, Or.inr hmem, hj'⟩
  | _ =>
    intro hr str hs j
    exact alts_single e hsz _ rfl (by simpa [fragAlts] using hr) str hs j

/-! ## `compileOps` on the fragment -/

theorem compR_item {x : Re} (hx : fragItem x = true) (n : Nat) : compR x 1 1 n = some ([[opOfItem x]], n) := by
  cases x with
  | chr c => simp [compR, opOfItem, atomOp]
  | any => simp [compR, opOfItem, atomOp]
  | cls bm => simp [compR, opOfItem, atomOp]
  | bol => simp [compR, opOfItem]
  | eol => simp [compR, opOfItem]
  | rep a m k =>
    simp only [fragItem, Bool.and_eq_true] at hx
    have ha := hx.1
    cases a <;> simp [isAtomRe] at ha <;> simp [compR, opOfItem, atomOp]
  | _ => simp [fragItem] at hx

theorem compR_branch : ∀ (b : Re), fragBranch b = true → ∀ n, compR b 1 1 n = some ([branchOps b], n) := by
  intro b
  induction b with
  | cat a b2 _ ih2 =>
    intro hb n
    simp only [fragBranch, Bool.and_eq_true] at hb
    simp only [compR, compR_item hb.1 n, ih2 hb.2 n, branchOps, itemsOf, List.map_cons]
  | alt a b2 _ _ => intro hb; simp [fragBranch, fragItem] at hb
  | group r _ => intro hb; simp [fragBranch, fragItem] at hb
  | empty => intro hb; simp [fragBranch, fragItem] at hb
  | chr c => intro hb n; rw [compR_item rfl]; rfl
  | any => intro hb n; rw [compR_item rfl]; rfl
  | cls bm => intro hb n; rw [compR_item rfl]; rfl
  | bol => intro hb n; rw [compR_item rfl]; rfl
  | eol => intro hb n; rw [compR_item rfl]; rfl
  | rep a m k _ =>
    intro hb n
    have hi : fragItem (.rep a m k) = true := by simpa [fragBranch] using hb
    rw [compR_item hi]
    simp [branchOps, itemsOf_noncat hi]

theorem compR_alts_single (r : Re) (hbr : branchesOf r = [r]) (hb : fragBranch r = true) (n : Nat) :
    compR r 1 1 n = some (altsOps r, n) := by
  rw [compR_branch r hb n]; simp [altsOps, hbr]

theorem compR_alts : ∀ (r : Re), fragAlts r = true → ∀ n, compR r 1 1 n = some (altsOps r, n) := by
  intro r
  induction r with
  | alt a b _ ihb =>
    intro hr n
    simp only [fragAlts, Bool.and_eq_true] at hr
    simp only [compR, compR_branch a hr.1 n, ihb hr.2 n, altsOps, branchesOf, List.map_cons]
  | _ =>
    intro hr n
    exact compR_alts_single _ rfl (by simpa [fragAlts] using hr) n

theorem items_frag_single (r : Re) (hi : fragItem r = true) (x : Re) (hx : x ∈ itemsOf r) : fragItem x = true := by
  rw [itemsOf_noncat hi] at hx
  simp at hx
  subst hx
  exact hi

theorem items_frag : ∀ (b : Re), fragBranch b = true → ∀ x, x ∈ itemsOf b → fragItem x = true := by
  intro b
  induction b with
  | cat a b2 _ ih2 =>
    intro hb x hx
    simp only [fragBranch, Bool.and_eq_true] at hb
    simp only [itemsOf, List.mem_cons] at hx
    rcases hx with rfl | hx
    · exact hb.1
    · exact ih2 hb.2 x hx
  | _ =>
    intro hb x hx
    exact items_frag_single _ (by simpa [fragBranch] using hb) x hx

theorem branches_frag : ∀ r : Re, fragAlts r = true → ∀ b, b ∈ branchesOf r → fragBranch b = true := by
  intro r
  induction r with
  | alt a b _ ihb =>
    intro hr x hx
    simp only [fragAlts, Bool.and_eq_true] at hr
    simp only [branchesOf, List.mem_cons] at hx
    rcases hx with rfl | hx
    · exact hr.1
    · exact ihb hr.2 x hx
  | _ =>
    intro hr x hx
    simp only [branchesOf, List.mem_singleton] at hx
    subst hx
    simpa [fragAlts] using hr

/-- `compileOps` yields the op lists `altsOps r` and no groups -/
theorem compileOps_frag (r : Re) (hr : fragAlts r = true) : compileOps r = some (altsOps r, 0) :=
  compR_alts r hr 0

theorem altsOps_simple (r : Re) (hr : fragAlts r = true) : ∀ a, a ∈ altsOps r → AllSimple a := by
  intro a ha op hop
  simp only [altsOps, List.mem_map] at ha
  obtain ⟨b, hb, rfl⟩ := ha
  simp only [branchOps, List.mem_map] at hop
  obtain ⟨x, hx, rfl⟩ := hop
  exact simple_opOfItem (items_frag b (branches_frag r hr b hb) x hx)

/-! ## the matcher model equals the reference on the fragment -/

/-- **`cExec = llmatch` on parenthesis-free patterns.**  For a tree of the fragment `compileOps`
yields op lists without groups, and unless the model ran out of fuel/steps: the return code is 0
exactly when the reference finds a match, and when `pmatch` is wanted (`nmatch > 0`, no REG_NOSUB)
`pmatch[0]` is the reference's leftmost-longest match. -/
theorem cExec_eq_llmatch_frag (r : Re) (hr : fragAlts r = true) (e : Env) (hsz : e.s.size < 0x7FFFFFFF)
    (nosub : Bool) (nmatch budget fuel : Nat) :
    ∃ alts, compileOps r = some (alts, 0) ∧
      (Good (cExec alts 0 nosub e nmatch budget fuel).rc →
        (cExec alts 0 nosub e nmatch budget fuel).rc = (if (llmatch e r).isSome then 0 else NOMATCH) ∧
        (nosub = false → nmatch > 0 → ∀ i j, llmatch e r = some (i, j) →
          (cExec alts 0 nosub e nmatch budget fuel).pm.head? = some ((i : Int), (j : Int)))) := by
  refine ⟨altsOps r, compileOps_frag r hr, ?_⟩
  intro hg
  have hlink := alts_link e hsz r hr
  rcases cExec_ops_spec (altsOps r) (altsOps_simple r hr) nosub e nmatch budget fuel hg with
    ⟨r0, hll, hpm⟩ | ⟨r1, hnone⟩
  · obtain ⟨j0, hj0⟩ := hll.found
    have hm0 := (hlink _ hll.inb j0).mp hj0
    have hsome : (llmatch e r).isSome = true := by
      cases hl : llmatch e r with
      | none => exact absurd hm0 ((llmatch_eq_none_iff e r).mp hl _ _)
      | some p => rfl
    refine ⟨by rw [r0, hsome]; rfl, ?_⟩
    intro hns hnm i j hl
    have hstrict : (!nosub && decide (nmatch > 0)) = true := by simp [hns, hnm]
    obtain ⟨le, hlast, hmle, hmax⟩ := hll.longest hstrict
    have href : llmatch e r = some ((cExec (altsOps r) 0 nosub e nmatch budget fuel).start, le) := by
      rw [llmatch_eq_some_iff]
      refine ⟨(hlink _ hll.inb le).mp hmle, ?_, ?_⟩
      · intro i' hi' j' hm'
        exact hll.leftmost i' hi' j' ((hlink i' (by have := hll.inb; omega) j').mpr hm')
      · intro j' hj' hm'
        have := hmax j' ((hlink _ hll.inb j').mpr hm')
        omega
    rw [href] at hl
    obtain ⟨rfl, rfl⟩ := Prod.mk.inj (Option.some.inj hl)
    exact hpm hstrict le hlast
  · have hnone' : llmatch e r = none := by
      rw [llmatch_eq_none_iff]
      intro i j hm
      exact hnone i (by have := (Matches.bounds hm); omega) j ((hlink i (by have := (Matches.bounds hm); omega) j).mpr hm)
    refine ⟨by rw [r1, hnone']; rfl, ?_⟩
    intro _ _ i j hl
    rw [hnone'] at hl; cases hl

end Usual.C04.CM
