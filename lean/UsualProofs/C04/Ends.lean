import Usual.C04.Regex
/-! Helper lemmas for C04: the executable reference `ends` / `llmatch` against the declarative
semantics `Matches`. -/
namespace Usual.C04

/-! ### position sets -/

theorem mem_uni {a b : List Nat} {x : Nat} : x ∈ uni a b ↔ x ∈ a ∨ x ∈ b := by
  unfold uni
  by_cases hx : x ∈ a
  · simp [hx]
  · simp [hx]

theorem mem_stepSet {f : Nat → List Nat} {S : List Nat} {j : Nat} :
    j ∈ stepSet f S ↔ ∃ k, k ∈ S ∧ j ∈ f k := by
  induction S with
  | nil => simp [stepSet]
  | cons k S ih =>
    simp only [stepSet, mem_uni, ih, List.mem_cons]
    constructor
    · rintro (h | ⟨k', hk', hj⟩)
      · exact ⟨k, Or.inl rfl, h⟩
      · exact ⟨k', Or.inr hk', hj⟩
    · rintro ⟨k', (rfl | hk'), hj⟩
      · exact Or.inl hj
      · exact Or.inr ⟨k', hk', hj⟩

/-! ### iteration -/

theorem Iter.zero_iff {P : Nat → Nat → Prop} {i j : Nat} : Iter P 0 i j ↔ j = i := by
  constructor
  · intro h; cases h; rfl
  · rintro rfl; exact Iter.zero _

theorem Iter.succ_iff {P : Nat → Nat → Prop} {c i j : Nat} :
    Iter P (c + 1) i j ↔ ∃ k, P i k ∧ Iter P c k j := by
  constructor
  · intro h; cases h with
    | succ h1 h2 => exact ⟨_, h1, h2⟩
  · rintro ⟨k, h1, h2⟩; exact Iter.succ h1 h2

theorem Iter.mono {P Q : Nat → Nat → Prop} (hPQ : ∀ a b, P a b → Q a b) {c i j : Nat}
    (h : Iter P c i j) : Iter Q c i j := by
  induction h with
  | zero i => exact Iter.zero i
  | succ h1 _ ih => exact Iter.succ (hPQ _ _ h1) ih

theorem Iter.congr {P Q : Nat → Nat → Prop} (hPQ : ∀ a b, P a b ↔ Q a b) {c i j : Nat} :
    Iter P c i j ↔ Iter Q c i j :=
  ⟨Iter.mono fun a b => (hPQ a b).mp, Iter.mono fun a b => (hPQ a b).mpr⟩

theorem Iter.le {P : Nat → Nat → Prop} (hP : ∀ a b, P a b → a ≤ b) {c i j : Nat}
    (h : Iter P c i j) : i ≤ j := by
  induction h with
  | zero i => exact Nat.le_refl _
  | succ h1 _ ih => exact Nat.le_trans (hP _ _ h1) ih

theorem Iter.bound {P : Nat → Nat → Prop} {N : Nat} (hP : ∀ a b, P a b → b ≤ N) {c i j : Nat}
    (h : Iter P c i j) (hi : i ≤ N) : j ≤ N := by
  induction h with
  | zero i => exact hi
  | succ h1 _ ih => exact ih (hP _ _ h1)

/-- **zero-length iterations can be dropped**: from `c ≥ m` iterations one can always get to a
number of iterations between `m` and `m + (j - i)` -/
theorem Iter.drop {P : Nat → Nat → Prop} (hP : ∀ a b, P a b → a ≤ b) {c i j : Nat}
    (h : Iter P c i j) : ∀ m, m ≤ c → ∃ c', m ≤ c' ∧ c' ≤ c ∧ c' ≤ m + (j - i) ∧ Iter P c' i j := by
  induction h with
  | zero i => intro m hm; exact ⟨0, hm, Nat.le_refl _, Nat.zero_le _, Iter.zero i⟩
  | @succ c i k j h1 h2 ih =>
    intro m hm
    have hik : i ≤ k := hP _ _ h1
    have hkj : k ≤ j := Iter.le hP h2
    by_cases hdrop : k = i ∧ m ≤ c
    · obtain ⟨hki, hmc⟩ := hdrop
      obtain ⟨c', h1', h2', h3', h4'⟩ := ih m hmc
      subst hki
      exact ⟨c', h1', by omega, h3', h4'⟩
    · obtain ⟨c', h1', h2', h3', h4'⟩ := ih (m - 1) (by omega)
      refine ⟨c' + 1, by omega, by omega, ?_, Iter.succ h1 h4'⟩
      by_cases hki : k = i
      · have : ¬ m ≤ c := fun hc => hdrop ⟨hki, hc⟩
        omega
      · omega

/-! ### `repGo` -/

theorem mem_repGo {f : Nat → List Nat} {j : Nat} : ∀ (hi lo : Nat) (cur : List Nat),
    j ∈ repGo f hi lo cur ↔
      ∃ c, lo ≤ c ∧ c ≤ hi ∧ ∃ k, k ∈ cur ∧ Iter (fun a b => b ∈ f a) c k j := by
  intro hi
  induction hi with
  | zero =>
    intro lo cur
    simp only [repGo]
    constructor
    · intro h
      by_cases hlo : lo = 0
      · rw [if_pos hlo] at h
        exact ⟨0, by omega, Nat.le_refl _, j, h, Iter.zero j⟩
      · rw [if_neg hlo] at h
        cases h
    · rintro ⟨c, h1, h2, k, hk, hit⟩
      have hc : c = 0 := by omega
      subst hc
      have : lo = 0 := by omega
      rw [if_pos this]
      have := Iter.zero_iff.mp hit
      subst this
      exact hk
  | succ hi ih =>
    intro lo cur
    cases lo with
    | zero =>
      simp only [repGo, mem_uni, ih]
      constructor
      · rintro (h | ⟨c, _, h2, k', hk', hit⟩)
        · exact ⟨0, Nat.le_refl _, Nat.zero_le _, j, h, Iter.zero j⟩
        · obtain ⟨k, hk, hkk'⟩ := mem_stepSet.mp hk'
          exact ⟨c + 1, Nat.zero_le _, by omega, k, hk, Iter.succ hkk' hit⟩
      · rintro ⟨c, _, h2, k, hk, hit⟩
        cases c with
        | zero =>
          have := Iter.zero_iff.mp hit
          subst this
          exact Or.inl hk
        | succ c =>
          obtain ⟨k', hkk', hit'⟩ := Iter.succ_iff.mp hit
          exact Or.inr ⟨c, Nat.zero_le _, by omega, k', mem_stepSet.mpr ⟨k, hk, hkk'⟩, hit'⟩
    | succ lo =>
      simp only [repGo, ih]
      constructor
      · rintro ⟨c, h1, h2, k', hk', hit⟩
        obtain ⟨k, hk, hkk'⟩ := mem_stepSet.mp hk'
        exact ⟨c + 1, by omega, by omega, k, hk, Iter.succ hkk' hit⟩
      · rintro ⟨c, h1, h2, k, hk, hit⟩
        cases c with
        | zero => omega
        | succ c =>
          obtain ⟨k', hkk', hit'⟩ := Iter.succ_iff.mp hit
          exact ⟨c, by omega, by omega, k', mem_stepSet.mpr ⟨k, hk, hkk'⟩, hit'⟩

/-! ### `Matches` stays inside the subject -/

theorem lt_size_of_getElem? {a : Array UInt8} {i : Nat} {b : UInt8} (h : a[i]? = some b) :
    i < a.size := by
  have := Array.getElem?_eq_some_iff.mp h
  exact this.1

theorem Matches.bounds {e : Env} : ∀ {r : Re} {i j : Nat}, Matches e r i j → i ≤ j ∧ j ≤ e.s.size := by
  intro r
  induction r with
  | empty => intro i j h; obtain ⟨rfl, h2⟩ := h; exact ⟨Nat.le_refl _, h2⟩
  | chr c =>
    intro i j h
    obtain ⟨rfl, b, hb, _⟩ := h
    have := lt_size_of_getElem? hb
    omega
  | any =>
    intro i j h
    obtain ⟨rfl, b, hb, _⟩ := h
    have := lt_size_of_getElem? hb
    omega
  | cls bm =>
    intro i j h
    obtain ⟨rfl, b, hb, _⟩ := h
    have := lt_size_of_getElem? hb
    omega
  | bol => intro i j h; obtain ⟨rfl, h2, _⟩ := h; exact ⟨Nat.le_refl _, h2⟩
  | eol => intro i j h; obtain ⟨rfl, h2, _⟩ := h; exact ⟨Nat.le_refl _, h2⟩
  | cat a b iha ihb =>
    intro i j h
    obtain ⟨k, h1, h2⟩ := h
    have := iha h1
    have := ihb h2
    omega
  | alt a b iha ihb =>
    intro i j h
    rcases h with h | h
    · exact iha h
    · exact ihb h
  | group r ih => intro i j h; exact ih h
  | rep r m n ih =>
    intro i j h
    obtain ⟨hi, c, _, _, hit⟩ := h
    exact ⟨Iter.le (fun a b hab => (ih hab).1) hit, Iter.bound (fun a b hab => (ih hab).2) hit hi⟩

/-! ### `ends` is sound and complete -/

theorem hiOf_le_some {m n' d : Nat} : hiOf m (some n') d ≤ n' := by
  simp only [hiOf]; omega

theorem mem_ends {e : Env} : ∀ (r : Re) (i j : Nat), j ∈ ends e r i ↔ Matches e r i j := by
  intro r
  induction r with
  | empty =>
    intro i j
    simp only [ends, Matches]
    by_cases h : i ≤ e.s.size
    · simp [h]
    · simp [h]
  | chr c =>
    intro i j
    simp only [ends, Matches]
    cases hb : e.s[i]? with
    | none => simp
    | some b =>
      by_cases hc : chrOk e c b = true
      · simp [hc]
      · simp [hc]
  | any =>
    intro i j
    simp only [ends, Matches]
    cases hb : e.s[i]? with
    | none => simp
    | some b =>
      by_cases hc : anyOk e b = true
      · simp [hc]
      · simp [hc]
  | cls bm =>
    intro i j
    simp only [ends, Matches]
    cases hb : e.s[i]? with
    | none => simp
    | some b =>
      by_cases hc : clsOk bm b = true
      · simp [hc]
      · simp [hc]
  | bol =>
    intro i j
    simp only [ends, Matches]
    by_cases h : i ≤ e.s.size ∧ bolOk e i = true
    · rw [if_pos h]; simp [h.1, h.2]
    · rw [if_neg h]
      simp only [List.not_mem_nil, false_iff]
      rintro ⟨_, h1, h2⟩
      exact h ⟨h1, h2⟩
  | eol =>
    intro i j
    simp only [ends, Matches]
    by_cases h : i ≤ e.s.size ∧ eolOk e i = true
    · rw [if_pos h]; simp [h.1, h.2]
    · rw [if_neg h]
      simp only [List.not_mem_nil, false_iff]
      rintro ⟨_, h1, h2⟩
      exact h ⟨h1, h2⟩
  | cat a b iha ihb =>
    intro i j
    simp only [ends, Matches, mem_stepSet, iha, ihb]
  | alt a b iha ihb =>
    intro i j
    simp only [ends, Matches, mem_uni, iha, ihb]
  | group r ih =>
    intro i j
    simp only [ends, Matches, ih]
  | rep r m n ih =>
    intro i j
    simp only [ends, Matches]
    have hcongr : ∀ c k, Iter (fun a b => b ∈ ends e r a) c k j ↔ Iter (Matches e r) c k j :=
      fun c k => Iter.congr (fun a b => ih a b)
    by_cases hi : i ≤ e.s.size
    · rw [if_pos hi, mem_repGo]
      constructor
      · rintro ⟨c, h1, h2, k, hk, hit⟩
        have hk' : k = i := by simpa using hk
        subst hk'
        refine ⟨hi, c, h1, ?_, (hcongr c k).mp hit⟩
        intro n' hn
        subst hn
        exact Nat.le_trans h2 hiOf_le_some
      · rintro ⟨_, c, h1, h2, hit⟩
        have hmono : ∀ a b, Matches e r a b → a ≤ b := fun a b hab => (Matches.bounds hab).1
        obtain ⟨c', g1, g2, g3, g4⟩ := Iter.drop hmono hit m h1
        have hj : j ≤ e.s.size := Iter.bound (fun a b hab => (Matches.bounds hab).2) hit hi
        refine ⟨c', g1, ?_, i, by simp, (hcongr c' i).mpr g4⟩
        cases n with
        | none => simp only [hiOf]; omega
        | some n' =>
          have := h2 n' rfl
          simp only [hiOf]
          omega
    · rw [if_neg hi]
      simp only [List.not_mem_nil, false_iff]
      rintro ⟨h, _⟩
      exact hi h

/-! ### leftmost-longest -/

theorem maxOf_eq_none {l : List Nat} : maxOf l = none ↔ l = [] := by
  cases l with
  | nil => simp [maxOf]
  | cons x xs =>
    simp only [maxOf]
    cases maxOf xs <;> simp

theorem maxOf_eq_some {l : List Nat} {b : Nat} :
    maxOf l = some b ↔ b ∈ l ∧ ∀ x, x ∈ l → x ≤ b := by
  induction l generalizing b with
  | nil => simp [maxOf]
  | cons x xs ih =>
    simp only [maxOf]
    cases hm : maxOf xs with
    | none =>
      have : xs = [] := maxOf_eq_none.mp hm
      subst this
      simp only [Option.some.injEq, List.mem_cons, List.not_mem_nil, or_false]
      constructor
      · rintro rfl; exact ⟨rfl, fun y hy => by omega⟩
      · rintro ⟨h, _⟩; exact h.symm
    | some y =>
      have hy := ih.mp hm
      simp only [Option.some.injEq, List.mem_cons]
      constructor
      · rintro rfl
        refine ⟨?_, ?_⟩
        · by_cases hxy : x ≤ y
          · right; rw [Nat.max_eq_right hxy]; exact hy.1
          · left; rw [Nat.max_eq_left (by omega)]
        · rintro z (rfl | hz)
          · exact Nat.le_max_left _ _
          · exact Nat.le_trans (hy.2 z hz) (Nat.le_max_right _ _)
      · rintro ⟨hb, hall⟩
        have h1 := hall x (Or.inl rfl)
        have h2 := hall y (Or.inr hy.1)
        rcases hb with rfl | hb
        · have := Nat.max_eq_left h2; omega
        · have := hy.2 b hb
          have : y = b := by omega
          subst this
          exact Nat.max_eq_right h1

theorem scan_eq_some {e : Env} {r : Re} {a b : Nat} : ∀ (fuel i : Nat),
    scan e r fuel i = some (a, b) ↔
      i ≤ a ∧ a < i + fuel ∧ maxOf (ends e r a) = some b ∧
      ∀ a', i ≤ a' → a' < a → ends e r a' = [] := by
  intro fuel
  induction fuel with
  | zero => intro i; simp only [scan]; constructor
            · intro h; cases h
            · rintro ⟨h1, h2, _⟩; omega
  | succ fuel ih =>
    intro i
    simp only [scan]
    cases hm : maxOf (ends e r i) with
    | some j =>
      simp only [Option.some.injEq, Prod.mk.injEq]
      constructor
      · rintro ⟨rfl, rfl⟩
        exact ⟨Nat.le_refl _, by omega, hm, fun a' h1 h2 => by omega⟩
      · rintro ⟨h1, h2, h3, h4⟩
        by_cases hia : i = a
        · subst hia
          rw [hm] at h3
          exact ⟨rfl, by simpa using h3⟩
        · have := h4 i (Nat.le_refl _) (by omega)
          rw [this] at hm
          simp [maxOf] at hm
    | none =>
      have hnil := maxOf_eq_none.mp hm
      rw [ih]
      constructor
      · rintro ⟨h1, h2, h3, h4⟩
        refine ⟨by omega, by omega, h3, ?_⟩
        intro a' g1 g2
        by_cases ha' : a' = i
        · subst ha'; exact hnil
        · exact h4 a' (by omega) g2
      · rintro ⟨h1, h2, h3, h4⟩
        have hia : i ≠ a := by
          rintro rfl
          rw [hm] at h3
          cases h3
        exact ⟨by omega, by omega, h3, fun a' g1 g2 => h4 a' (by omega) g2⟩

theorem scan_eq_none {e : Env} {r : Re} : ∀ (fuel i : Nat),
    scan e r fuel i = none ↔ ∀ a, i ≤ a → a < i + fuel → ends e r a = [] := by
  intro fuel
  induction fuel with
  | zero => intro i; simp only [scan]; constructor
            · intro _ a h1 h2; omega
            · intro _; trivial
  | succ fuel ih =>
    intro i
    simp only [scan]
    cases hm : maxOf (ends e r i) with
    | some j =>
      simp only [reduceCtorEq, false_iff]
      intro h
      have := h i (Nat.le_refl _) (by omega)
      rw [this] at hm
      simp [maxOf] at hm
    | none =>
      have hnil := maxOf_eq_none.mp hm
      rw [ih]
      constructor
      · intro h a h1 h2
        by_cases ha : a = i
        · subst ha; exact hnil
        · exact h a (by omega) (by omega)
      · intro h a h1 h2
        exact h a (by omega) (by omega)

theorem ends_eq_nil_iff {e : Env} {r : Re} {i : Nat} : ends e r i = [] ↔ ∀ j, ¬ Matches e r i j := by
  constructor
  · intro h j hj
    have := (mem_ends r i j).mpr hj
    rw [h] at this
    cases this
  · intro h
    cases hl : ends e r i with
    | nil => rfl
    | cons x xs =>
      exfalso
      exact h x ((mem_ends r i x).mp (by rw [hl]; exact List.mem_cons_self))

theorem llmatch_eq_some_iff (e : Env) (r : Re) (i j : Nat) :
    llmatch e r = some (i, j) ↔
      Matches e r i j ∧ (∀ i', i' < i → ∀ j', ¬ Matches e r i' j') ∧ (∀ j', j' > j → ¬ Matches e r i j') := by
  unfold llmatch
  rw [scan_eq_some, maxOf_eq_some]
  constructor
  · rintro ⟨_, _, ⟨hmem, hmax⟩, hbefore⟩
    refine ⟨(mem_ends r i j).mp hmem, ?_, ?_⟩
    · intro i' hi' j' hm
      exact (ends_eq_nil_iff.mp (hbefore i' (Nat.zero_le _) hi')) j' hm
    · intro j' hj' hm
      have := hmax j' ((mem_ends r i j').mpr hm)
      omega
  · rintro ⟨hm, hleft, hlong⟩
    have hb := Matches.bounds hm
    refine ⟨Nat.zero_le _, by omega, ⟨(mem_ends r i j).mpr hm, ?_⟩, ?_⟩
    · intro x hx
      have hx' := (mem_ends r i x).mp hx
      exact Nat.le_of_not_gt (fun hgt => hlong x hgt hx')
    · intro a' _ ha'
      exact ends_eq_nil_iff.mpr (fun j' => hleft a' ha' j')

theorem llmatch_eq_none_iff (e : Env) (r : Re) :
    llmatch e r = none ↔ ∀ i j, ¬ Matches e r i j := by
  unfold llmatch
  rw [scan_eq_none]
  constructor
  · intro h i j hm
    have hb := Matches.bounds hm
    exact (ends_eq_nil_iff.mp (h i (Nat.zero_le _) (by omega))) j hm
  · intro h a _ _
    exact ends_eq_nil_iff.mpr (h a)

end Usual.C04
