import UsualProofs.C04.CMatchRep
import UsualProofs.C04.CMatchLink

/-! # C04: the sub-match clause as an invariant of the matcher model

Every `pmatch[i]`, `i ≥ 1`, that `usual_regexec` (model `CM.cExec`) publishes is either `(-1,-1)`
or an ordered range inside `pmatch[0]`, which is inside the subject.  Invariant of the
exploration: every frame on a group stack (`ctx->gm_stack[gno]`, linked by `prevgm`) that is not an
open frame of the current call chain has `start ≤ end ≤ current position`, and starts at or after
the start of group #0; `publish_gm` only reads such frames. -/

namespace Usual.C04.CM

/-! ## arrays -/

theorem arr_get_set {α : Type} [Inhabited α] (a : Array α) (i j : Nat) (v : α) :
    (a.set! i v)[j]! = if j = i ∧ i < a.size then v else a[j]! := by
  by_cases h : j = i ∧ i < a.size
  · obtain ⟨rfl, hg⟩ := h
    simp [hg]
  · rw [if_neg h]
    by_cases hk : j = i
    · subst hk
      have : ¬ j < a.size := fun hh => h ⟨rfl, hh⟩
      simp [Array.getElem!_eq_getD, Array.getD_eq_getD_getElem?, this]
    · simp [Array.getElem!_eq_getD, Array.getD_eq_getD_getElem?, Array.getElem?_setIfInBounds, Ne.symm hk]

theorem arr_set_set_get {α : Type} [Inhabited α] (a : Array α) (i : Nat) (v : α) :
    (a.set! i v).set! i (a[i]!) = a := by
  apply Array.ext_getElem?
  intro j
  simp only [Array.set!_eq_setIfInBounds, Array.getElem?_setIfInBounds, Array.size_setIfInBounds]
  by_cases hj : i = j
  · subst hj
    by_cases hi : i < a.size
    · simp [hi]
    · simp [hi]
  · simp [hj]

/-! ## stack membership and the open chain -/

/-- ids reachable from a stack top through `prevgm` -/
inductive Below (st : St) : Option Nat → Nat → Prop
  | here (g : Nat) : Below st (some g) g
  | down {g h : Nat} : Below st (st.fr g).prev h → Below st (some g) h

theorem Below.not_none {st : St} {x : Nat} (h : Below st none x) : False := by cases h

theorem Below.inv {st : St} {g x : Nat} (h : Below st (some g) x) : x = g ∨ Below st (st.fr g).prev x := by
  cases h with
  | here => exact Or.inl rfl
  | down h => exact Or.inr h

theorem Below.congr_mp {st st' : St} (P : Nat → Prop) (hp : ∀ k, P k → (st'.fr k).prev = (st.fr k).prev)
    {o : Option Nat} {x : Nat} (h : Below st' o x) : (∀ y, Below st o y → P y) → Below st o x := by
  induction h with
  | here g => intro _; exact Below.here g
  | @down g h' hd ih =>
    intro hb
    have hg := hb g (Below.here g)
    rw [hp g hg] at ih
    exact Below.down (ih (fun y hy => hb y (Below.down hy)))

theorem Below.congr_mpr {st st' : St} (P : Nat → Prop) (hp : ∀ k, P k → (st'.fr k).prev = (st.fr k).prev)
    {o : Option Nat} {x : Nat} (h : Below st o x) : (∀ y, Below st o y → P y) → Below st' o x := by
  induction h with
  | here g => intro _; exact Below.here g
  | @down g h' hd ih =>
    intro hb
    have hg := hb g (Below.here g)
    refine Below.down ?_
    rw [hp g hg]
    exact ih (fun y hy => hb y (Below.down hy))

/-- the open frames: `g`, its parent, … up to the frame `R` of group #0, with the numbering facts
that make re-entry detection (`gm->owner->grp_no == gno`) exact -/
inductive ChainL (R : Nat) (st : St) : Nat → List Nat → Prop
  | root : R < st.frames.size → (st.fr R).gno = 0 → (st.fr R).parent = none → ChainL R st R [R]
  | nest {g p : Nat} {l : List Nat} : g < st.frames.size → (st.fr g).gno ≠ 0 → (st.fr g).parent = some p →
      (st.fr p).gno < (st.fr g).gno → (∀ a, a ∈ (st.fr g).alts → WFG (st.fr g).gno a) →
      WFG (st.fr p).gno (st.fr g).next → ChainL R st p l → ChainL R st g (g :: l)

theorem ChainL.lt_all {R : Nat} {st : St} {g : Nat} {l : List Nat} (h : ChainL R st g l) :
    ∀ id, id ∈ l → id < st.frames.size := by
  induction h with
  | root h1 _ _ => intro id hid; simp only [List.mem_singleton] at hid; subst hid; exact h1
  | nest h1 _ _ _ _ _ _ ih =>
    intro id hid
    rcases List.mem_cons.mp hid with rfl | hid
    · exact h1
    · exact ih id hid

theorem ChainL.head_mem {R : Nat} {st : St} {g : Nat} {l : List Nat} (h : ChainL R st g l) : g ∈ l := by
  cases h with
  | root => simp
  | nest => simp

theorem ChainL.root_mem {R : Nat} {st : St} {g : Nat} {l : List Nat} (h : ChainL R st g l) : R ∈ l := by
  induction h with
  | root => simp
  | nest _ _ _ _ _ _ _ ih => exact List.mem_cons_of_mem _ ih

theorem ChainL.congr {R : Nat} {st st' : St} {g : Nat} {l : List Nat} (h : ChainL R st g l)
    (hsz : st.frames.size ≤ st'.frames.size) (hf : ∀ k, k < st.frames.size → FrameEq (st.fr k) (st'.fr k)) :
    ChainL R st' g l := by
  induction h with
  | root h1 h2 h3 =>
    have fe := hf _ h1
    exact ChainL.root (Nat.lt_of_lt_of_le h1 hsz) (by rw [fe.gno]; exact h2) (by rw [fe.parent]; exact h3)
  | @nest g p l h1 h2 h3 h4 h5 h6 h7 ih =>
    have fe := hf g h1
    have hp : p < st.frames.size := h7.lt_all p h7.head_mem
    have fp := hf p hp
    exact ChainL.nest (Nat.lt_of_lt_of_le h1 hsz) (by rw [fe.gno]; exact h2) (by rw [fe.parent]; exact h3)
      (by rw [fp.gno, fe.gno]; exact h4) (by rw [fe.alts, fe.gno]; exact h5) (by rw [fp.gno, fe.next]; exact h6) ih

/-! ## the clause on `pmatch` -/

/-- entry `p` is unset, or an ordered range inside the range `p0`, which ends inside the subject -/
def EntryOk (N : Nat) (p0 p : Int × Int) : Prop :=
  p = (-1, -1) ∨ ∃ s0 e0 so eo : Nat, p0 = ((s0 : Int), (e0 : Int)) ∧ p = ((so : Int), (eo : Int)) ∧
    s0 ≤ so ∧ so ≤ eo ∧ eo ≤ e0 ∧ e0 ≤ N

structure PmOk (cx : Cx) (st : St) : Prop where
  sz : cx.nmatch ≤ st.pm.size
  ent : ∀ i, 1 ≤ i → i < st.pm.size → EntryOk cx.env.s.size st.pm[0]! st.pm[i]!
  tail : ∀ i, cx.nmatch ≤ i → i < st.pm.size → st.pm[i]! = (-1, -1)
  head : st.lastEnd.isSome = true → 0 < cx.nmatch →
    ∃ s0 e0 : Nat, st.pm[0]! = ((s0 : Int), (e0 : Int)) ∧ s0 ≤ e0 ∧ e0 ≤ cx.env.s.size

theorem PmOk.of_eq {cx : Cx} {st st' : St} (h : PmOk cx st) (hpm : st'.pm = st.pm) (hl : st'.lastEnd = st.lastEnd) :
    PmOk cx st' := by
  refine ⟨?_, ?_, ?_, ?_⟩
  · rw [hpm]; exact h.sz
  · rw [hpm]; exact h.ent
  · rw [hpm]; exact h.tail
  · rw [hpm, hl]; exact h.head

/-! ## the invariant and what a call may change -/

structure Inv (cx : Cx) (R r0 : Nat) (st : St) (g : Nat) (l : List Nat) (lo : Nat) : Prop where
  chain : ChainL R st g l
  cstart : ∀ id, id ∈ l → (st.fr id).start ≤ lo
  stk : ∀ gno id, Below st (st.stacks[gno]!) id → id < st.frames.size ∧ (st.fr id).gno = gno ∧ r0 ≤ (st.fr id).start ∧
      (id ∉ l → ∀ e, (st.fr id).end_ = some e → (st.fr id).start ≤ e ∧ e ≤ lo)
  root : st.stacks[0]! = some R ∧ (st.fr R).start = r0
  lo_le : lo ≤ cx.env.s.size
  pm : PmOk cx st

structure PostW (cx : Cx) (st : St) (l : List Nat) (st' : St) : Prop where
  size : st.frames.size ≤ st'.frames.size
  stacks : st'.stacks = st.stacks
  feq : ∀ k, k < st.frames.size → FrameEq (st.fr k) (st'.fr k)
  endk : ∀ k, k < st.frames.size → k ∉ l → (st'.fr k).end_ = (st.fr k).end_
  pm : PmOk cx st'

theorem PostW.refl {cx : Cx} {st : St} (l : List Nat) (h : PmOk cx st) : PostW cx st l st :=
  ⟨Nat.le_refl _, rfl, fun _ _ => FrameEq.refl _, fun _ _ _ => rfl, h⟩

theorem PostW.trans {cx : Cx} {a b c : St} {l : List Nat} (h1 : PostW cx a l b) (h2 : PostW cx b l c) : PostW cx a l c :=
  ⟨Nat.le_trans h1.size h2.size, h2.stacks.trans h1.stacks,
   fun k hk => (h1.feq k hk).trans (h2.feq k (Nat.lt_of_lt_of_le hk h1.size)),
   fun k hk hn => (h2.endk k (Nat.lt_of_lt_of_le hk h1.size) hn).trans (h1.endk k hk hn), h2.pm⟩

theorem PostW.weaken {cx : Cx} {a b : St} {l l' : List Nat} (h : PostW cx a l b) (hs : ∀ x, x ∈ l → x ∈ l') :
    PostW cx a l' b :=
  ⟨h.size, h.stacks, h.feq, fun k hk hn => h.endk k hk (fun hx => hn (hs k hx)), h.pm⟩

theorem Inv.transfer {cx : Cx} {R r0 : Nat} {st st' : St} {g : Nat} {l : List Nat} {lo lo' : Nat}
    (h : Inv cx R r0 st g l lo) (p : PostW cx st l st') (h1 : lo ≤ lo') (h2 : lo' ≤ cx.env.s.size) :
    Inv cx R r0 st' g l lo' := by
  have hlt := h.chain.lt_all
  refine ⟨h.chain.congr p.size p.feq, ?_, ?_, ?_, h2, p.pm⟩
  · intro id hid
    rw [(p.feq id (hlt id hid)).start]
    exact Nat.le_trans (h.cstart id hid) h1
  · intro gno id hb
    rw [p.stacks] at hb
    have hb' : Below st (st.stacks[gno]!) id :=
      hb.congr_mp (fun k => k < st.frames.size) (fun k hk => (p.feq k hk).prev) (fun y hy => (h.stk gno y hy).1)
    obtain ⟨a1, a2, a3, a4⟩ := h.stk gno id hb'
    have fe := p.feq id a1
    refine ⟨Nat.lt_of_lt_of_le a1 p.size, by rw [fe.gno]; exact a2, by rw [fe.start]; exact a3, ?_⟩
    intro hn e he
    rw [p.endk id a1 hn] at he
    rw [fe.start]
    have := a4 hn e he
    exact ⟨this.1, Nat.le_trans this.2 h1⟩
  · rw [p.stacks]
    refine ⟨h.root.1, ?_⟩
    rw [(p.feq R (hlt R h.chain.root_mem)).start]
    exact h.root.2

theorem Inv.mono {cx : Cx} {R r0 : Nat} {st : St} {g : Nat} {l : List Nat} {lo lo' : Nat}
    (h : Inv cx R r0 st g l lo) (h1 : lo ≤ lo') (h2 : lo' ≤ cx.env.s.size) : Inv cx R r0 st g l lo' :=
  h.transfer (PostW.refl l h.pm) h1 h2

theorem postW_setEnd {cx : Cx} {st : St} (l : List Nat) (hpm : PmOk cx st) (id : Nat) (hid : id ∈ l) (x : Option Nat) :
    PostW cx st l (st.setFr id { st.fr id with end_ := x }) := by
  refine ⟨by simp [St.setFr], rfl, ?_, ?_, hpm.of_eq rfl rfl⟩
  · intro k _
    rw [fr_setFr]
    by_cases hk : k = id ∧ id < st.frames.size
    · rw [if_pos hk, hk.1]; exact ⟨rfl, rfl, rfl, rfl, rfl, rfl, rfl, rfl, rfl, rfl⟩
    · rw [if_neg hk]; exact FrameEq.refl _
  · intro k _ hn
    rw [fr_setFr]
    have : ¬ (k = id ∧ id < st.frames.size) := fun hh => hn (hh.1 ▸ hid)
    rw [if_neg this]

theorem postW_budget {cx : Cx} {st : St} (l : List Nat) (hpm : PmOk cx st) (b : Nat) :
    PostW cx st l { st with budget := b } :=
  ⟨Nat.le_refl _, rfl, fun _ _ => FrameEq.refl _, fun _ _ _ => rfl, hpm.of_eq rfl rfl⟩

/-! ## publishing -/

theorem skip_spec (st : St) : ∀ (f : Nat) (o : Option Nat) (h : Nat), skipUnmatched st f o = some h →
    Below st o h ∧ (st.fr h).end_.isSome = true := by
  intro f
  induction f with
  | zero => intro o h hh; simp [skipUnmatched] at hh
  | succ f ih =>
    intro o h hh
    cases o with
    | none => simp [skipUnmatched] at hh
    | some g =>
      simp only [skipUnmatched] at hh
      by_cases he : (st.fr g).end_.isSome = true
      · rw [if_pos he] at hh
        cases hh
        exact ⟨Below.here _, he⟩
      · rw [if_neg he] at hh
        obtain ⟨h1, h2⟩ := ih _ _ hh
        exact ⟨Below.down h1, h2⟩

theorem publish_frames (st : St) (gno : Nat) : (publish st gno).frames = st.frames := by
  unfold publish
  simp only []
  split <;> rfl

theorem publish_val (st : St) (gno : Nat) : ∃ v, (publish st gno).pm = st.pm.set! gno v ∧
    (v = (-1, -1) ∨ ∃ h e, Below st (st.stacks[gno]!) h ∧ (st.fr h).end_ = some e ∧
      v = (((st.fr h).start : Int), ((e : Nat) : Int))) := by
  unfold publish
  simp only []
  split
  · rename_i g heq
    refine ⟨_, rfl, Or.inr ?_⟩
    cases hsk : skipUnmatched st (st.frames.size + 1) (st.stacks[gno]!) with
    | none => rw [hsk] at heq; simp at heq
    | some g' =>
      rw [hsk] at heq
      obtain ⟨hb, he⟩ := skip_spec st _ _ _ hsk
      have hg : g' = g := by
        simp only [] at heq
        split at heq
        · split at heq
          · cases heq
          · cases heq; rfl
        · cases heq; rfl
      subst hg
      obtain ⟨e, hee⟩ := Option.isSome_iff_exists.mp he
      refine ⟨g', e, hb, hee, ?_⟩
      show (((st.fr g').start : Int), (((st.fr g').end_.getD 0 : Nat) : Int)) = _
      rw [hee]; rfl
  · exact ⟨_, rfl, Or.inl rfl⟩

theorem end_setFr_hm (st : St) (p : Nat) (h : HM) (k : Nat) :
    ((st.setFr p { st.fr p with hmNext := h }).fr k).end_ = (st.fr k).end_ := by
  rw [fr_setFr]
  by_cases hk : k = p ∧ p < st.frames.size
  · rw [if_pos hk, hk.1]
  · rw [if_neg hk]

theorem end_fillHist (gno : Nat) : ∀ (f : Nat) (gm : Option Nat) (rl : Int) (st : St) (k : Nat),
    ((fillHist gno f gm rl st).fr k).end_ = (st.fr k).end_ := by
  intro f
  induction f with
  | zero => intro gm rl st k; simp only [fillHist]
  | succ f ih =>
    intro gm rl st k
    cases gm with
    | none => simp only [fillHist]
    | some g =>
      simp only [fillHist]
      cases hp : (st.fr g).prev with
      | none => simp only []; rw [ih]; rfl
      | some p => simp only []; rw [ih]; exact end_setFr_hm st p _ k

theorem end_publish (st : St) (gno k : Nat) : ((publish st gno).fr k).end_ = (st.fr k).end_ := by
  simp only [St.fr, publish_frames]

theorem end_publishAll (cx : Cx) : ∀ (f gno : Nat) (st : St) (k : Nat),
    ((publishAll cx f gno st).fr k).end_ = (st.fr k).end_ := by
  intro f
  induction f with
  | zero => intro gno st k; simp only [publishAll]
  | succ f ih =>
    intro gno st k
    simp only [publishAll]
    by_cases hg : gno < cx.nmatch
    · rw [if_pos hg]
      by_cases hs : cx.strict = true
      · simp only [hs, if_true]
        rw [ih, end_fillHist, end_publish]
      · simp only [hs, Bool.false_eq_true, if_false]
        rw [ih, end_publish]
    · rw [if_neg hg]

/-- what `publish_gm` can rely on when group #0 has just been closed at `str` -/
structure Pub (R r0 str : Nat) (st : St) : Prop where
  stk0 : st.stacks[0]! = some R
  rstart : (st.fr R).start = r0
  rend : (st.fr R).end_ = some str
  rpar : (st.fr R).parent = none
  r0le : r0 ≤ str
  others : ∀ gno id, gno ≠ 0 → Below st (st.stacks[gno]!) id → ∀ e, (st.fr id).end_ = some e →
    r0 ≤ (st.fr id).start ∧ (st.fr id).start ≤ e ∧ e ≤ str

theorem Pub.keep' {R r0 str : Nat} {st st' : St} (h : Pub R r0 str st) (hs : st'.stacks = st.stacks)
    (hf : ∀ i, FrameEq (st.fr i) (st'.fr i)) (he : ∀ i, (st'.fr i).end_ = (st.fr i).end_) : Pub R r0 str st' := by
  refine ⟨by rw [hs]; exact h.stk0, by rw [(hf R).start]; exact h.rstart, by rw [he]; exact h.rend,
    by rw [(hf R).parent]; exact h.rpar, h.r0le, ?_⟩
  intro gno id hg hb e hee
  rw [hs] at hb
  have hb' : Below st (st.stacks[gno]!) id :=
    hb.congr_mp (fun _ => True) (fun i _ => (hf i).prev) (fun _ _ => trivial)
  rw [he] at hee
  rw [(hf id).start]
  exact h.others gno id hg hb' e hee

theorem Pub.keep {R r0 str : Nat} {st st' : St} (h : Pub R r0 str st) (k : Keeps st st')
    (he : ∀ i, (st'.fr i).end_ = (st.fr i).end_) : Pub R r0 str st' :=
  h.keep' k.stacks k.feq he

theorem publishAll_pmOk (cx : Cx) (R r0 str : Nat) (hstr : str ≤ cx.env.s.size) : ∀ (f gno : Nat) (st : St),
    f + gno = cx.nmatch → Pub R r0 str st → cx.nmatch ≤ st.pm.size →
    (1 ≤ gno → st.pm[0]! = ((r0 : Int), (str : Int))) →
    (∀ i, 1 ≤ i → i < gno → EntryOk cx.env.s.size ((r0 : Int), (str : Int)) st.pm[i]!) →
    (∀ i, cx.nmatch ≤ i → i < st.pm.size → st.pm[i]! = (-1, -1)) →
    (publishAll cx f gno st).pm.size = st.pm.size ∧
    (0 < cx.nmatch → (publishAll cx f gno st).pm[0]! = ((r0 : Int), (str : Int))) ∧
    (∀ i, 1 ≤ i → i < cx.nmatch → EntryOk cx.env.s.size ((r0 : Int), (str : Int)) (publishAll cx f gno st).pm[i]!) ∧
    (∀ i, cx.nmatch ≤ i → i < st.pm.size → (publishAll cx f gno st).pm[i]! = (-1, -1)) := by
  intro f
  induction f with
  | zero =>
    intro gno st hf _ _ h0 hent htail
    have hz : publishAll cx 0 gno st = st := by simp only [publishAll]
    rw [hz]
    refine ⟨rfl, fun hn => h0 (by omega), fun i h1 h2 => hent i h1 (by omega), htail⟩
  | succ f ih =>
    intro gno st hf hpub hsz h0 hent htail
    simp only [publishAll]
    have hg : gno < cx.nmatch := by omega
    rw [if_pos hg]
    obtain ⟨v, hv, hvv⟩ := publish_val st gno
    -- the state after publish (+ fill_history)
    obtain ⟨st1, hst1⟩ : ∃ st1 : St, st1 = (if cx.strict = true then
        fillHist gno ((publish st gno).frames.size + 1) ((publish st gno).stacks[gno]!) 0 (publish st gno)
        else publish st gno) := ⟨_, rfl⟩
    rw [← hst1]
    have hk1 : Keeps st st1 := by
      rw [hst1]; split
      · exact (keeps_publish st gno).trans (keeps_fillHist gno _ _ _ _)
      · exact keeps_publish st gno
    have he1 : ∀ i, (st1.fr i).end_ = (st.fr i).end_ := by
      intro i; rw [hst1]; split
      · rw [end_fillHist, end_publish]
      · rw [end_publish]
    have hpm1 : st1.pm = st.pm.set! gno v := by
      rw [hst1]; split
      · rw [fillHist_pm, hv]
      · exact hv
    have hsz1 : st1.pm.size = st.pm.size := by rw [hpm1]; simp
    have hget : ∀ j, st1.pm[j]! = if j = gno ∧ gno < st.pm.size then v else st.pm[j]! := by
      intro j; rw [hpm1]; exact arr_get_set _ _ _ _
    have hgin : gno < st.pm.size := by omega
    -- the entry just written
    have hventry : gno ≠ 0 → EntryOk cx.env.s.size ((r0 : Int), (str : Int)) v := by
      intro hg0
      rcases hvv with rfl | ⟨h, e, hb, hee, rfl⟩
      · exact Or.inl rfl
      · obtain ⟨a1, a2, a3⟩ := hpub.others gno h hg0 hb e hee
        exact Or.inr ⟨r0, str, _, e, rfl, rfl, a1, a2, a3, hstr⟩
    have hv0 : gno = 0 → v = ((r0 : Int), (str : Int)) := by
      intro hg0
      subst hg0
      have h1 := publish_pm_root st R r0 str hpub.stk0 hpub.rend hpub.rstart hpub.rpar
      rw [hv] at h1
      have : (st.pm.set! 0 v)[0]! = (st.pm.set! 0 ((r0 : Int), (str : Int)))[0]! := by rw [h1]
      rw [arr_get_set, arr_get_set] at this
      simpa [hgin] using this
    obtain ⟨b1, b2, b3, b4⟩ := ih (gno + 1) st1 (by omega) (hpub.keep hk1 he1) (by omega)
      (by
        intro _
        rw [hget]
        by_cases hg0 : gno = 0
        · rw [if_pos ⟨hg0.symm, hgin⟩]; exact hv0 hg0
        · rw [if_neg (fun hh => hg0 hh.1.symm)]; exact h0 (by omega))
      (by
        intro i hi1 hi2
        rw [hget]
        by_cases hig : i = gno
        · rw [if_pos ⟨hig, hgin⟩]; exact hventry (by omega)
        · rw [if_neg (fun hh => hig hh.1)]; exact hent i hi1 (by omega))
      (by
        intro i hi1 hi2
        rw [hget, if_neg (fun hh => by omega)]
        exact htail i hi1 (by omega))
    refine ⟨b1.trans hsz1, b2, b3, ?_⟩
    intro i hi1 hi2
    exact b4 i hi1 (by omega)

theorem ChainL.ne_nil {R : Nat} {st : St} {g : Nat} (h : ChainL R st g []) : False := by
  have := h.head_mem
  simp at this

theorem ChainL.single {R : Nat} {st : St} {g : Nat} (h : ChainL R st g [R]) :
    g = R ∧ (st.fr R).gno = 0 ∧ (st.fr R).parent = none ∧ R < st.frames.size := by
  cases h with
  | root h1 h2 h3 => exact ⟨rfl, h2, h3, h1⟩
  | nest _ _ _ _ _ _ h7 => exact absurd h7 (fun h => h.ne_nil)

/-- publishing from a state that differs from `st1` only in `last_endpos` -/
theorem publishAll_postW (cx : Cx) (R r0 str : Nat) (hstr : str ≤ cx.env.s.size) (st1 st2 : St)
    (hfr : st2.frames = st1.frames) (hstk : st2.stacks = st1.stacks) (hpmeq : st2.pm = st1.pm)
    (hpub : Pub R r0 str st1) (hsz : cx.nmatch ≤ st1.pm.size)
    (htail : ∀ i, cx.nmatch ≤ i → i < st1.pm.size → st1.pm[i]! = (-1, -1)) :
    PostW cx st1 [R] (publishAll cx cx.nmatch 0 st2) := by
  have hfe : ∀ k, st2.fr k = st1.fr k := by intro k; simp only [St.fr, hfr]
  have hpub2 : Pub R r0 str st2 :=
    hpub.keep' hstk (fun i => by rw [hfe]; exact FrameEq.refl _) (fun i => by rw [hfe])
  have kp := keeps_publishAll cx cx.nmatch 0 st2
  obtain ⟨b1, b2, b3, b4⟩ := publishAll_pmOk cx R r0 str hstr cx.nmatch 0 st2 rfl hpub2 (by rw [hpmeq]; exact hsz)
    (fun h => by omega) (fun i h1 h2 => by omega) (by rw [hpmeq]; exact htail)
  rw [hpmeq] at b1 b4
  refine ⟨by rw [kp.size, hfr]; exact Nat.le_refl _, by rw [kp.stacks, hstk], ?_, ?_, ⟨by rw [b1]; exact hsz, ?_, ?_, ?_⟩⟩
  · intro k _
    have := kp.feq k
    rw [hfe] at this
    exact this
  · intro k _ _
    rw [end_publishAll, hfe]
  · intro i hi1 hi2
    rw [b1] at hi2
    by_cases hin : i < cx.nmatch
    · rw [b2 (by omega)]; exact b3 i hi1 hin
    · exact Or.inl (b4 i (by omega) hi2)
  · intro i hi1 hi2
    rw [b1] at hi2
    exact b4 i hi1 hi2
  · intro _ hn
    exact ⟨r0, str, b2 hn, hpub.r0le, hstr⟩

theorem gotFull_postW (cx : Cx) (R r0 : Nat) (st : St) (lo str : Nat) (err : Nat) (st' : St)
    (h : Inv cx R r0 st R [R] lo) (h1 : lo ≤ str) (h2 : str ≤ cx.env.s.size)
    (hrun : gotFull cx str R st = (err, st')) : PostW cx st [R] st' := by
  obtain ⟨st1, hst1⟩ : ∃ st1 : St, st1 = st.setFr R { st.fr R with end_ := some str } := ⟨_, rfl⟩
  have P01 : PostW cx st [R] st1 := by rw [hst1]; exact postW_setEnd [R] h.pm R (by simp) (some str)
  have I1 : Inv cx R r0 st1 R [R] str := h.transfer P01 h1 h2
  obtain ⟨_, hg0, hpar, _⟩ := I1.chain.single
  have hR : R < st.frames.size := h.chain.lt_all R (by simp)
  have hpub : Pub R r0 str st1 := by
    refine ⟨I1.root.1, I1.root.2, ?_, hpar, ?_, ?_⟩
    · rw [hst1, fr_setFr, if_pos ⟨rfl, hR⟩]
    · have := I1.cstart R (by simp)
      rw [I1.root.2] at this
      exact this
    · intro gno id hg hb e hee
      obtain ⟨a1, a2, a3, a4⟩ := I1.stk gno id hb
      have hne : id ∉ [R] := by
        intro hh
        simp only [List.mem_singleton] at hh
        subst hh
        exact hg (a2.symm.trans hg0)
      obtain ⟨c1, c2⟩ := a4 hne e hee
      exact ⟨a3, c1, c2⟩
  have fin : ∀ st2 : St, st2.frames = st1.frames → st2.stacks = st1.stacks → st2.pm = st1.pm →
      PostW cx st [R] (publishAll cx cx.nmatch 0 st2) := by
    intro st2 e1 e2 e3
    exact P01.trans (publishAll_postW cx R r0 str h2 st1 st2 e1 e2 e3 hpub I1.pm.sz I1.pm.tail)
  unfold gotFull at hrun
  simp only [] at hrun
  rw [← hst1] at hrun
  cases hl : st1.lastEnd with
  | none =>
    rw [hl] at hrun
    simp only [] at hrun
    obtain ⟨_, rfl⟩ := Prod.mk.inj hrun
    exact fin _ rfl rfl rfl
  | some le =>
    rw [hl] at hrun
    simp only [] at hrun
    by_cases c1 : str < le
    · rw [if_pos c1] at hrun
      obtain ⟨_, rfl⟩ := Prod.mk.inj hrun
      exact P01
    · rw [if_neg c1] at hrun
      by_cases c2 : str > le
      · rw [if_pos c2] at hrun
        obtain ⟨_, rfl⟩ := Prod.mk.inj hrun
        exact fin _ rfl rfl rfl
      · rw [if_neg c2] at hrun
        by_cases hb : (cx.strict && decide (cx.nmatch > 1)) = true
        · rw [if_pos hb] at hrun
          by_cases ht : tieLoop cx st1 cx.nmatch 0 = true
          · rw [if_pos ht] at hrun
            simp only [] at hrun
            obtain ⟨_, rfl⟩ := Prod.mk.inj hrun
            exact fin _ rfl rfl rfl
          · rw [if_neg ht] at hrun
            obtain ⟨_, rfl⟩ := Prod.mk.inj hrun
            exact P01
        · rw [if_neg hb] at hrun
          obtain ⟨_, rfl⟩ := Prod.mk.inj hrun
          exact P01

/-! ## the tails of `match_group` / `match_gend`, as far as the state is concerned -/

theorem groupTail_state (cx : Cx) (f : Nat) (fr : Frame) (id gno : Nat) (next : List COp) (str mn : Nat)
    (r : Nat × Bool × St) (err : Nat) (st' : St) (h : groupTail cx f fr id gno next str mn r = (err, st')) :
    ∃ es : St, (es = r.2.2 ∨
        ∃ e, doOps cx f next str fr.parent (r.2.2.setFr id { r.2.2.fr id with end_ := none }) = (e, es)) ∧
      st' = { es with stacks := es.stacks.set! gno fr.prev } := by
  unfold groupTail at h
  simp only [] at h
  by_cases c : mn = 0 ∧ fr.count = 0 ∧ (r.1 = NOMATCH ∨ (r.1 = 0 ∧ cx.strict = true))
  · rw [if_pos c] at h
    obtain ⟨_, rfl⟩ := Prod.mk.inj h
    exact ⟨_, Or.inr ⟨_, rfl⟩, rfl⟩
  · rw [if_neg c] at h
    obtain ⟨_, rfl⟩ := Prod.mk.inj h
    exact ⟨_, Or.inl rfl, rfl⟩

theorem gendTail_state (cx : Cx) (f : Nat) (fr : Frame) (str : Nat) (more : Bool) (r : Nat × St) (err : Nat) (st' : St)
    (h : gendTail cx f fr str more r = (err, st')) :
    st' = r.2 ∨ ∃ e, doOps cx f fr.next str fr.parent r.2 = (e, st') := by
  obtain ⟨e1, st2⟩ := r
  rw [gendTail_eq] at h
  split at h
  · obtain ⟨_, rfl⟩ := Prod.mk.inj h; exact Or.inl rfl
  · split at h
    · obtain ⟨_, rfl⟩ := Prod.mk.inj h; exact Or.inl rfl
    · obtain ⟨_, rfl⟩ := Prod.mk.inj h; exact Or.inr ⟨_, rfl⟩

theorem newFrame_fields (st : St) (gno : Nat) (alts : List (List COp)) (mn mx : Nat) (next : List COp) (str : Nat)
    (gm : Option Nat) :
    (newFrame st gno alts mn mx next str gm).gno = gno ∧ (newFrame st gno alts mn mx next str gm).alts = alts ∧
    (newFrame st gno alts mn mx next str gm).next = next ∧ (newFrame st gno alts mn mx next str gm).start = str ∧
    (newFrame st gno alts mn mx next str gm).prev = st.stacks[gno]! := by
  simp only [newFrame]
  split <;> exact ⟨rfl, rfl, rfl, rfl, rfl⟩

theorem count_bound (e : Env) (ok : UInt8 → Bool) (str mx : Nat) (hs : str ≤ e.s.size) :
    str + countWhile e ok (e.s.size + 1) str mx 0 ≤ e.s.size :=
  ((le_count_iff e ok str mx _).mp (Nat.le_refl _)).2.bound hs

/-! ## entering and leaving a group -/

theorem inv_push (cx : Cx) (R r0 : Nat) (st : St) (p : Nat) (lp : List Nat) (str : Nat)
    (h : Inv cx R r0 st p lp str) (fr : Frame) (gno : Nat) (hgno : fr.gno = gno) (hstart : fr.start = str)
    (hprev : fr.prev = st.stacks[gno]!) (hpar : fr.parent = some p) (hlt : (st.fr p).gno < gno)
    (halts : ∀ a, a ∈ fr.alts → WFG gno a) (hnext : WFG (st.fr p).gno fr.next) :
    Inv cx R r0 { st with frames := st.frames.push fr, stacks := st.stacks.set! gno (some st.frames.size) }
      st.frames.size (st.frames.size :: lp) str := by
  obtain ⟨st1, hst1⟩ : ∃ st1 : St, st1 = { st with frames := st.frames.push fr, stacks := st.stacks.set! gno (some st.frames.size) } := ⟨_, rfl⟩
  rw [← hst1]
  have hfk : ∀ k, k < st.frames.size → st1.fr k = st.fr k := by
    intro k hk; rw [hst1]; exact fr_push_lt st fr _ k hk
  have hnew : st1.fr st.frames.size = fr := by rw [hst1]; exact fr_push_new st fr _
  have hsz1 : st1.frames.size = st.frames.size + 1 := by rw [hst1]; simp
  have hltall := h.chain.lt_all
  have hp : p < st.frames.size := hltall p h.chain.head_mem
  have hstk : ∀ g', st1.stacks[g']! = if g' = gno ∧ gno < st.stacks.size then some st.frames.size else st.stacks[g']! := by
    intro g'; rw [hst1]; exact arr_get_set _ _ _ _
  have hr0 : r0 ≤ str := by
    have := h.cstart R h.chain.root_mem
    rw [h.root.2] at this; exact this
  have hold : ∀ g' x, Below st1 (st.stacks[g']!) x →
      x < st1.frames.size ∧ (st1.fr x).gno = g' ∧ r0 ≤ (st1.fr x).start ∧
      (x ∉ st.frames.size :: lp → ∀ e, (st1.fr x).end_ = some e → (st1.fr x).start ≤ e ∧ e ≤ str) := by
    intro g' x hb
    have hb' : Below st (st.stacks[g']!) x :=
      hb.congr_mp (fun k => k < st.frames.size) (fun k hk => by rw [hfk k hk]) (fun y hy => (h.stk g' y hy).1)
    obtain ⟨a1, a2, a3, a4⟩ := h.stk g' x hb'
    rw [hfk x a1]
    refine ⟨by omega, a2, a3, ?_⟩
    intro hn
    exact a4 (fun hx => hn (List.mem_cons_of_mem _ hx))
  refine ⟨?_, ?_, ?_, ?_, h.lo_le, h.pm.of_eq (by rw [hst1]) (by rw [hst1])⟩
  · refine ChainL.nest (by omega) (by rw [hnew, hgno]; omega) (by rw [hnew]; exact hpar)
      (by rw [hfk p hp, hnew, hgno]; exact hlt) (by rw [hnew, hgno]; exact halts)
      (by rw [hfk p hp, hnew]; exact hnext) ?_
    exact h.chain.congr (by omega) (fun k hk => by rw [hfk k hk]; exact FrameEq.refl _)
  · intro id hid
    rcases List.mem_cons.mp hid with rfl | hid
    · rw [hnew, hstart]; exact Nat.le_refl _
    · rw [hfk id (hltall id hid)]; exact h.cstart id hid
  · intro g' x hb
    rw [hstk] at hb
    by_cases hc : g' = gno ∧ gno < st.stacks.size
    · rw [if_pos hc] at hb
      rcases hb.inv with rfl | hb2
      · refine ⟨by omega, by rw [hnew, hgno]; exact hc.1.symm, by rw [hnew, hstart]; exact hr0, ?_⟩
        intro hn; exact absurd List.mem_cons_self hn
      · rw [hnew, hprev] at hb2
        rw [hc.1]
        exact hold gno x hb2
    · rw [if_neg hc] at hb
      exact hold g' x hb
  · have h0 : ¬ (0 = gno ∧ gno < st.stacks.size) := fun hh => by omega
    rw [hstk, if_neg h0, hfk R (hltall R h.chain.root_mem)]
    exact h.root

theorem postW_group_close (cx : Cx) (st : St) (fr : Frame) (gno : Nat) (lp : List Nat) (st2 : St)
    (P : PostW cx { st with frames := st.frames.push fr, stacks := st.stacks.set! gno (some st.frames.size) }
      (st.frames.size :: lp) st2) :
    PostW cx st lp { st2 with stacks := st2.stacks.set! gno (st.stacks[gno]!) } := by
  obtain ⟨st1, hst1⟩ : ∃ st1 : St, st1 = { st with frames := st.frames.push fr, stacks := st.stacks.set! gno (some st.frames.size) } := ⟨_, rfl⟩
  rw [← hst1] at P
  have hfk : ∀ k, k < st.frames.size → st1.fr k = st.fr k := by
    intro k hk; rw [hst1]; exact fr_push_lt st fr _ k hk
  have hsz1 : st1.frames.size = st.frames.size + 1 := by rw [hst1]; simp
  have hs1 : st1.stacks = st.stacks.set! gno (some st.frames.size) := by rw [hst1]
  refine ⟨?_, ?_, ?_, ?_, P.pm.of_eq rfl rfl⟩
  · have := P.size
    show st.frames.size ≤ st2.frames.size
    omega
  · show st2.stacks.set! gno (st.stacks[gno]!) = st.stacks
    rw [P.stacks, hs1]
    exact arr_set_set_get _ _ _
  · intro k hk
    have := P.feq k (by omega)
    rw [hfk k hk] at this
    exact this
  · intro k hk hn
    have hn' : k ∉ st.frames.size :: lp := by
      intro hx
      rcases List.mem_cons.mp hx with rfl | hx
      · omega
      · exact hn hx
    have := P.endk k (by omega) hn'
    rw [hfk k hk] at this
    exact this

/-- leaving a frame: `id` was the innermost open frame; its `end` is known to be fine -/
theorem inv_pop {cx : Cx} {R r0 : Nat} {st : St} {id p : Nat} {lp : List Nat} {lo : Nat}
    (h : Inv cx R r0 st id (id :: lp) lo) (hpar : (st.fr id).parent = some p)
    (hend : ∀ e, (st.fr id).end_ = some e → (st.fr id).start ≤ e ∧ e ≤ lo) :
    Inv cx R r0 st p lp lo := by
  have hch : ChainL R st p lp := by
    cases h.chain with
    | root _ _ h3 => rw [h3] at hpar; cases hpar
    | nest _ _ h3 _ _ _ h7 =>
      rw [h3] at hpar
      cases hpar
      exact h7
  refine ⟨hch, fun k hk => h.cstart k (List.mem_cons_of_mem _ hk), ?_, h.root, h.lo_le, h.pm⟩
  intro gno x hb
  obtain ⟨a1, a2, a3, a4⟩ := h.stk gno x hb
  refine ⟨a1, a2, a3, ?_⟩
  intro hn e he
  by_cases hx : x = id
  · subst hx; exact hend e he
  · exact a4 (fun hh => by
      rcases List.mem_cons.mp hh with rfl | hh
      · exact hx rfl
      · exact hn hh) e he

/-! ## the exploration keeps the invariant -/

theorem coreW (cx : Cx) (R r0 : Nat) : ∀ f : Nat,
    -- do_match
    (∀ ops str g l lo st err st', Inv cx R r0 st g l lo → lo ≤ str → str ≤ cx.env.s.size →
        WFG (st.fr g).gno ops → doOps cx f ops str (some g) st = (err, st') → PostW cx st l st') ∧
    -- scan_next
    (∀ rest str g l lo cur mn st err st', Inv cx R r0 st g l lo → lo + (cur - mn) ≤ str → str ≤ cx.env.s.size →
        WFG (st.fr g).gno rest → scanNext cx f rest str (some g) cur mn st = (err, st') → PostW cx st l st') ∧
    -- its back-off loop
    (∀ rest str g l lo cur mn got st err st', Inv cx R r0 st g l lo → lo + (cur - mn) ≤ str → mn ≤ cur →
        str ≤ cx.env.s.size → WFG (st.fr g).gno rest →
        scanLoop cx f rest str (some g) cur mn got st = (err, st') → PostW cx st l st') ∧
    -- match_group, entered or re-entered: `p` is the parent of the new frame
    (∀ gno alts mn mx next str gm p lp st err st', Inv cx R r0 st p lp str →
        (newFrame st gno alts mn mx next str gm).parent = some p → (st.fr p).gno < gno →
        (∀ a, a ∈ alts → WFG gno a) → WFG (st.fr p).gno next →
        matchGroup cx f gno alts mn mx next str gm st = (err, st') → PostW cx st lp st') ∧
    -- the OR-list loop of frame `id`
    (∀ alts str id l err0 got st err got' st', Inv cx R r0 st id l str → (∀ a, a ∈ alts → WFG (st.fr id).gno a) →
        altLoop cx f alts str id err0 got st = (err, got', st') → PostW cx st l st') ∧
    -- match_gend
    (∀ str g l lo st err st', Inv cx R r0 st g l lo → lo ≤ str → str ≤ cx.env.s.size → (st.fr g).gno ≠ 0 →
        matchGend cx f str g st = (err, st') → PostW cx st l st') := by
  intro f
  induction f with
  | zero =>
    refine ⟨?_, ?_, ?_, ?_, ?_, ?_⟩
    · intro ops str g l lo st err st' hI _ _ _ h
      simp only [doOps] at h
      obtain ⟨_, rfl⟩ := Prod.mk.inj h
      exact PostW.refl l hI.pm
    · intro rest str g l lo cur mn st err st' hI _ _ _ h
      simp only [scanNext] at h
      obtain ⟨_, rfl⟩ := Prod.mk.inj h
      exact PostW.refl l hI.pm
    · intro rest str g l lo cur mn got st err st' hI _ _ _ _ h
      simp only [scanLoop] at h
      obtain ⟨_, rfl⟩ := Prod.mk.inj h
      exact PostW.refl l hI.pm
    · intro gno alts mn mx next str gm p lp st err st' hI _ _ _ _ h
      simp only [matchGroup] at h
      obtain ⟨_, rfl⟩ := Prod.mk.inj h
      exact PostW.refl lp hI.pm
    · intro alts str id l err0 got st err got' st' hI _ h
      simp only [altLoop] at h
      obtain ⟨_, h⟩ := Prod.mk.inj h
      obtain ⟨_, rfl⟩ := Prod.mk.inj h
      exact PostW.refl l hI.pm
    · intro str g l lo st err st' hI _ _ _ h
      simp only [matchGend] at h
      obtain ⟨_, rfl⟩ := Prod.mk.inj h
      exact PostW.refl l hI.pm
  | succ f ih =>
    obtain ⟨ihd, ihn, ihs, ihg, iha, ihe⟩ := ih
    refine ⟨?_, ?_, ?_, ?_, ?_, ?_⟩
    · -- doOps
      intro ops str g l lo st err st' hI h1 h2 hwf h
      simp only [doOps] at h
      by_cases hb : st.budget = 0
      · rw [if_pos hb] at h
        obtain ⟨_, rfl⟩ := Prod.mk.inj h
        exact PostW.refl l hI.pm
      · rw [if_neg hb] at h
        obtain ⟨st0, hst0⟩ : ∃ st0 : St, st0 = { st with budget := st.budget - 1 } := ⟨_, rfl⟩
        rw [← hst0] at h
        have P0 : PostW cx st l st0 := by rw [hst0]; exact postW_budget l hI.pm _
        have I0 : Inv cx R r0 st0 g l lo := hI.transfer P0 (Nat.le_refl _) hI.lo_le
        have hfr0 : ∀ k, st0.fr k = st.fr k := by intro k; rw [hst0]; rfl
        refine P0.trans ?_
        cases ops with
        | nil =>
          simp only [] at h
          by_cases hz : (st0.fr g).gno = 0
          · rw [if_pos hz] at h
            cases I0.chain with
            | root _ _ _ => exact gotFull_postW cx R r0 st0 lo str err st' I0 h1 h2 h
            | nest _ hne => exact absurd hz hne
          · rw [if_neg hz] at h
            exact ihe str g l lo st0 err st' I0 h1 h2 hz h
        | cons op rest =>
          have hwf0 : WFG (st0.fr g).gno (op :: rest) := by rw [hfr0]; exact hwf
          have hrest : WFG (st0.fr g).gno rest := hwf0.tail
          cases op with
          | chr c mn mx =>
            simp only [] at h
            exact ihn rest _ g l lo _ mn st0 err st' I0 (by omega) (count_bound _ _ _ _ h2) hrest h
          | any mn mx =>
            simp only [] at h
            exact ihn rest _ g l lo _ mn st0 err st' I0 (by omega) (count_bound _ _ _ _ h2) hrest h
          | cls bm mn mx =>
            simp only [] at h
            exact ihn rest _ g l lo _ mn st0 err st' I0 (by omega) (count_bound _ _ _ _ h2) hrest h
          | bol =>
            simp only [] at h
            by_cases hbol : bolOk cx.env str = true
            · rw [if_pos hbol] at h
              exact ihd rest str g l lo st0 err st' I0 h1 h2 hrest h
            · rw [if_neg hbol] at h
              obtain ⟨_, rfl⟩ := Prod.mk.inj h
              exact PostW.refl l I0.pm
          | eol =>
            simp only [] at h
            by_cases heol : eolOk cx.env str = true
            · rw [if_pos heol] at h
              exact ihd rest str g l lo st0 err st' I0 h1 h2 hrest h
            · rw [if_neg heol] at h
              obtain ⟨_, rfl⟩ := Prod.mk.inj h
              exact PostW.refl l I0.pm
          | group gno alts mn mx =>
            simp only [] at h
            cases hwf0 with
            | simple hs _ => simp [Simple] at hs
            | grp hlt halts hr =>
              refine ihg gno alts mn mx rest str (some g) g l st0 err st' (I0.mono h1 h2) ?_ hlt halts hr h
              rw [newFrame_enter st0 gno alts mn mx rest str g (by omega)]
    · -- scanNext
      intro rest str g l lo cur mn st err st' hI h1 h2 hrest h
      simp only [scanNext] at h
      by_cases c1 : cur = mn
      · rw [if_pos c1] at h
        exact ihd rest str g l lo st err st' hI (by omega) h2 hrest h
      · rw [if_neg c1] at h
        by_cases c2 : cur < mn
        · rw [if_pos c2] at h
          obtain ⟨_, rfl⟩ := Prod.mk.inj h
          exact PostW.refl l hI.pm
        · rw [if_neg c2] at h
          exact ihs rest str g l lo cur mn false st err st' hI h1 (by omega) h2 hrest h
    · -- scanLoop
      intro rest str g l lo cur mn got st err st' hI h1 hmc h2 hrest h
      simp only [scanLoop] at h
      have hg : g < st.frames.size := hI.chain.lt_all g hI.chain.head_mem
      cases hd : doOps cx f rest str (some g) st with
      | mk e1 st1 =>
        rw [hd] at h
        simp only [] at h
        have P1 := ihd rest str g l lo st e1 st1 hI (by omega) h2 hrest hd
        have I1 : Inv cx R r0 st1 g l lo := hI.transfer P1 (Nat.le_refl _) hI.lo_le
        have hrest1 : WFG (st1.fr g).gno rest := by rw [(P1.feq g hg).gno]; exact hrest
        by_cases hsucc : (cx.strict && decide (e1 = 0)) = true
        · rw [if_pos hsucc] at h
          by_cases hcm : cur = mn
          · rw [if_pos hcm] at h
            obtain ⟨_, rfl⟩ := Prod.mk.inj h
            exact P1
          · rw [if_neg hcm] at h
            exact P1.trans (ihs rest (str - 1) g l lo (cur - 1) mn true st1 err st' I1 (by omega) (by omega) (by omega) hrest1 h)
        · rw [if_neg hsucc] at h
          by_cases hnm : e1 ≠ NOMATCH
          · rw [if_pos hnm] at h
            obtain ⟨_, rfl⟩ := Prod.mk.inj h
            exact P1
          · rw [if_neg hnm] at h
            by_cases hcm : cur = mn
            · rw [if_pos hcm] at h
              obtain ⟨_, rfl⟩ := Prod.mk.inj h
              exact P1
            · rw [if_neg hcm] at h
              exact P1.trans (ihs rest (str - 1) g l lo (cur - 1) mn got st1 err st' I1 (by omega) (by omega) (by omega) hrest1 h)
    · -- matchGroup
      intro gno alts mn mx next str gm p lp st err st' hI hpar hlt halts hnext h
      rw [matchGroup_eq] at h
      obtain ⟨fr, hfr⟩ : ∃ fr : Frame, fr = newFrame st gno alts mn mx next str gm := ⟨_, rfl⟩
      rw [← hfr] at h hpar
      obtain ⟨f1, f2, f3, f4, f5⟩ := newFrame_fields st gno alts mn mx next str gm
      rw [← hfr] at f1 f2 f3 f4 f5
      have I1 := inv_push cx R r0 st p lp str hI fr gno f1 f4 f5 hpar hlt (by rw [f2]; exact halts) (by rw [f3]; exact hnext)
      obtain ⟨st1, hst1⟩ : ∃ st1 : St, st1 = { st with frames := st.frames.push fr, stacks := st.stacks.set! gno (some st.frames.size) } := ⟨_, rfl⟩
      rw [← hst1] at h I1
      have hnew : st1.fr st.frames.size = fr := by rw [hst1]; exact fr_push_new st fr _
      have hp : p < st.frames.size := hI.chain.lt_all p hI.chain.head_mem
      have hfp : st1.fr p = st.fr p := by rw [hst1]; exact fr_push_lt st fr _ p hp
      have hid1 : st.frames.size < st1.frames.size := by rw [hst1]; simp
      obtain ⟨r, hr⟩ : ∃ r : Nat × Bool × St, r = (if mx > 0 then altLoop cx f alts str st.frames.size NOMATCH false st1 else (NOMATCH, false, st1)) := ⟨_, rfl⟩
      rw [← hr] at h
      have P1 : PostW cx st1 (st.frames.size :: lp) r.2.2 := by
        by_cases hmx : mx > 0
        · rw [if_pos hmx] at hr
          obtain ⟨e1, g1, s1⟩ := r
          exact iha alts str st.frames.size _ NOMATCH false st1 e1 g1 s1 I1 (by rw [hnew, f1]; exact halts) hr.symm
        · rw [if_neg hmx] at hr
          rw [hr]
          exact PostW.refl _ I1.pm
      obtain ⟨es, hes, hfin⟩ := groupTail_state cx f fr st.frames.size gno next str mn r err st' h
      rw [f5] at hfin
      rw [hfin]
      have close : PostW cx st1 (st.frames.size :: lp) es → PostW cx st lp { es with stacks := es.stacks.set! gno (st.stacks[gno]!) } := by
        intro P
        rw [hst1] at P
        exact postW_group_close cx st fr gno lp es P
      rcases hes with rfl | ⟨e, hdo⟩
      · exact close P1
      · -- the skip branch: `end` of the new frame is cleared, the parent's AND-list goes on
        have I2 : Inv cx R r0 r.2.2 st.frames.size (st.frames.size :: lp) str := I1.transfer P1 (Nat.le_refl _) I1.lo_le
        have P2 : PostW cx r.2.2 (st.frames.size :: lp) (r.2.2.setFr st.frames.size { r.2.2.fr st.frames.size with end_ := none }) :=
          postW_setEnd _ I2.pm _ List.mem_cons_self none
        have I3 := I2.transfer P2 (Nat.le_refl _) I2.lo_le
        have hid2 : st.frames.size < r.2.2.frames.size := Nat.lt_of_lt_of_le hid1 P1.size
        have hfe13 := (P1.trans P2).feq st.frames.size hid1
        have I3' : Inv cx R r0 (r.2.2.setFr st.frames.size { r.2.2.fr st.frames.size with end_ := none }) p lp str := by
          refine inv_pop I3 (by rw [hfe13.parent, hnew]; exact hpar) ?_
          intro e he
          rw [fr_setFr, if_pos ⟨rfl, hid2⟩] at he
          cases he
        rw [hpar] at hdo
        have hfp3 := (P1.trans P2).feq p (Nat.lt_trans hp hid1)
        have P3 := ihd next str p lp str _ e es I3' (Nat.le_refl _) I3.lo_le
          (by rw [hfp3.gno, hfp]; exact hnext) hdo
        exact close ((P1.trans P2).trans (P3.weaken (fun x hx => List.mem_cons_of_mem _ hx)))
    · -- altLoop
      intro alts str id l err0 got st err got' st' hI halts h
      cases alts with
      | nil =>
        simp only [altLoop] at h
        obtain ⟨_, h⟩ := Prod.mk.inj h
        obtain ⟨_, rfl⟩ := Prod.mk.inj h
        exact PostW.refl l hI.pm
      | cons a more =>
        simp only [altLoop] at h
        have hid : id < st.frames.size := hI.chain.lt_all id hI.chain.head_mem
        cases hd : doOps cx f a str (some id) st with
        | mk e1 st1 =>
          rw [hd] at h
          simp only [] at h
          have P1 := ihd a str id l str st e1 st1 hI (Nat.le_refl _) hI.lo_le (halts a List.mem_cons_self) hd
          have I1 : Inv cx R r0 st1 id l str := hI.transfer P1 (Nat.le_refl _) hI.lo_le
          have hmore1 : ∀ b, b ∈ more → WFG (st1.fr id).gno b := by
            intro b hb; rw [(P1.feq id hid).gno]; exact halts b (List.mem_cons_of_mem _ hb)
          by_cases hsucc : e1 = 0 ∧ cx.strict = true
          · rw [if_pos hsucc] at h
            have P2 : PostW cx st1 l (st1.setFr id { st1.fr id with end_ := none }) :=
              postW_setEnd l I1.pm id hI.chain.head_mem none
            have I2 := I1.transfer P2 (Nat.le_refl _) I1.lo_le
            have hid1 : id < st1.frames.size := Nat.lt_of_lt_of_le hid P1.size
            exact (P1.trans P2).trans (iha more str id l e1 true _ err got' st' I2
              (by intro b hb; rw [(P2.feq id hid1).gno]; exact hmore1 b hb) h)
          · rw [if_neg hsucc] at h
            by_cases hnm : e1 ≠ NOMATCH
            · rw [if_pos hnm] at h
              obtain ⟨_, h⟩ := Prod.mk.inj h
              obtain ⟨_, rfl⟩ := Prod.mk.inj h
              exact P1
            · rw [if_neg hnm] at h
              exact P1.trans (iha more str id l e1 got st1 err got' st' I1 hmore1 h)
    · -- matchGend
      intro str g l lo st err st' hI h1 h2 hne h
      rw [matchGend_eq] at h
      by_cases hcut : (str == (st.fr g).start && decide ((st.fr g).count > 0) && decide ((st.fr g).count ≥ (st.fr g).min)) = true
      · rw [if_pos hcut] at h
        obtain ⟨_, rfl⟩ := Prod.mk.inj h
        exact PostW.refl l hI.pm
      · rw [if_neg hcut] at h
        have hg : g < st.frames.size := hI.chain.lt_all g hI.chain.head_mem
        -- the frame is closed at `str`; its parent chain is what remains open
        obtain ⟨st1, hst1⟩ : ∃ st1 : St, st1 = st.setFr g { st.fr g with end_ := some str } := ⟨_, rfl⟩
        rw [← hst1] at h
        have P01 : PostW cx st l st1 := by rw [hst1]; exact postW_setEnd l hI.pm g hI.chain.head_mem (some str)
        have I1 : Inv cx R r0 st1 g l str := hI.transfer P01 h1 h2
        have hfe1 := P01.feq g hg
        cases hch : hI.chain with
        | root _ hz _ => exact absurd hz hne
        | @nest _ p lp _ _ hpar hlt halts hnext hchp =>
          have hp : p < st.frames.size := hchp.lt_all p hchp.head_mem
          have hfp1 := P01.feq p hp
          have hend1 : (st1.fr g).end_ = some str := by rw [hst1, fr_setFr, if_pos ⟨rfl, hg⟩]
          have I1p : Inv cx R r0 st1 p lp str := by
            refine inv_pop I1 (by rw [hfe1.parent]; exact hpar) ?_
            intro e he
            rw [hend1] at he
            cases he
            rw [hfe1.start]
            exact ⟨Nat.le_trans (hI.cstart g hI.chain.head_mem) h1, Nat.le_refl _⟩
          obtain ⟨r, hr⟩ : ∃ r : Nat × St, r = (if gendMore (st.fr g) str = true then
              matchGroup cx f (st.fr g).gno (st.fr g).alts (st.fr g).min (st.fr g).max (st.fr g).next str (some g) st1
              else (NOMATCH, st1)) := ⟨_, rfl⟩
          rw [← hr] at h
          have P12 : PostW cx st1 lp r.2 := by
            by_cases hm : gendMore (st.fr g) str = true
            · rw [if_pos hm] at hr
              obtain ⟨e1, s1⟩ := r
              refine ihg _ _ _ _ _ str (some g) p lp st1 e1 s1 I1p ?_ (by rw [hfp1.gno]; exact hlt) halts
                (by rw [hfp1.gno]; exact hnext) hr.symm
              have := newFrame_re st1 (st.fr g).alts (st.fr g).min (st.fr g).max (st.fr g).next str g
              rw [hfe1.gno] at this
              rw [this]
              show (st1.fr g).parent = some p
              rw [hfe1.parent]; exact hpar
            · rw [if_neg hm] at hr
              rw [hr]
              exact PostW.refl _ I1p.pm
          have sub : ∀ x, x ∈ lp → x ∈ g :: lp := fun x hx => List.mem_cons_of_mem _ hx
          rcases gendTail_state cx f (st.fr g) str _ r err st' h with rfl | ⟨e, hdo⟩
          · exact P01.trans (P12.weaken sub)
          · have I2 : Inv cx R r0 r.2 p lp str := I1p.transfer P12 (Nat.le_refl _) I1p.lo_le
            rw [hpar] at hdo
            have hfp2 := (P01.trans (P12.weaken sub)).feq p hp
            have P23 := ihd (st.fr g).next str p lp str r.2 e st' I2 (Nat.le_refl _) I2.lo_le
              (by rw [hfp2.gno]; exact hnext) hdo
            exact (P01.trans (P12.weaken sub)).trans (P23.weaken sub)

/-! ## group #0, the start loop, `usual_regexec` -/

/-- between two start positions: all group stacks empty -/
structure Clean (cx : Cx) (st : St) : Prop where
  stk : ∀ gno : Nat, st.stacks[gno]! = none
  ssz : 0 < st.stacks.size
  pm : PmOk cx st

theorem root_specW (cx : Cx) (f : Nat) (alts : List (List COp)) (str : Nat) (st : St) (err : Nat) (st' : St)
    (hwf : ∀ a, a ∈ alts → WFG 0 a) (hstr : str ≤ cx.env.s.size) (hc : Clean cx st)
    (h : matchGroup cx f 0 alts 1 1 [] str none st = (err, st')) : Clean cx st' := by
  cases f with
  | zero =>
    simp only [matchGroup] at h
    obtain ⟨_, rfl⟩ := Prod.mk.inj h
    exact hc
  | succ f =>
    rw [matchGroup_eq] at h
    obtain ⟨fr, hfr⟩ : ∃ fr : Frame, fr = newFrame st 0 alts 1 1 [] str none := ⟨_, rfl⟩
    rw [← hfr] at h
    have f1 : fr.gno = 0 := by rw [hfr]; rfl
    have f2 : fr.start = str := by rw [hfr]; rfl
    have f3 : fr.prev = none := by rw [hfr]; exact hc.stk 0
    have f4 : fr.parent = none := by rw [hfr]; rfl
    obtain ⟨st1, hst1⟩ : ∃ st1 : St, st1 = { st with frames := st.frames.push fr, stacks := st.stacks.set! 0 (some st.frames.size) } := ⟨_, rfl⟩
    rw [← hst1] at h
    have hnew : st1.fr st.frames.size = fr := by rw [hst1]; exact fr_push_new st fr _
    have hsz1 : st1.frames.size = st.frames.size + 1 := by rw [hst1]; simp
    have hstk : ∀ g', st1.stacks[g']! = if g' = 0 ∧ 0 < st.stacks.size then some st.frames.size else st.stacks[g']! := by
      intro g'; rw [hst1]; exact arr_get_set _ _ _ _
    have I1 : Inv cx st.frames.size str st1 st.frames.size [st.frames.size] str := by
      refine ⟨ChainL.root (by omega) (by rw [hnew]; exact f1) (by rw [hnew]; exact f4), ?_, ?_, ?_, hstr,
        hc.pm.of_eq (by rw [hst1]) (by rw [hst1])⟩
      · intro id hid
        simp only [List.mem_singleton] at hid
        subst hid
        rw [hnew, f2]; exact Nat.le_refl _
      · intro g' x hb
        rw [hstk] at hb
        by_cases hcnd : g' = 0 ∧ 0 < st.stacks.size
        · rw [if_pos hcnd] at hb
          rcases hb.inv with rfl | hb2
          · refine ⟨by omega, by rw [hnew, f1]; exact hcnd.1.symm, by rw [hnew, f2]; exact Nat.le_refl _, ?_⟩
            intro hn; exact absurd (List.mem_singleton.mpr rfl) hn
          · rw [hnew, f3] at hb2
            exact absurd hb2 (fun hh => hh.not_none)
        · rw [if_neg hcnd, hc.stk] at hb
          exact absurd hb (fun hh => hh.not_none)
      · rw [hstk, if_pos ⟨rfl, hc.ssz⟩, hnew]
        exact ⟨rfl, f2⟩
    have h10 : (1 : Nat) > 0 := by decide
    rw [if_pos h10] at h
    cases ha : altLoop cx f alts str st.frames.size NOMATCH false st1 with
    | mk e1 r2 =>
      obtain ⟨g1, s1⟩ := r2
      rw [ha] at h
      have P1 := (coreW cx st.frames.size str f).2.2.2.2.1 alts str st.frames.size _ NOMATCH false st1 e1 g1 s1 I1
        (by rw [hnew, f1]; exact hwf) ha
      rw [groupTail_noskip cx f fr st.frames.size 0 [] str 1 e1 g1 s1 (Or.inl (by decide))] at h
      obtain ⟨_, rfl⟩ := Prod.mk.inj h
      have hs1 : s1.stacks = st.stacks.set! 0 (some st.frames.size) := by rw [P1.stacks, hst1]
      refine ⟨?_, ?_, P1.pm.of_eq rfl rfl⟩
      · intro g'
        show (s1.stacks.set! 0 fr.prev)[g']! = none
        rw [arr_get_set, hs1, arr_get_set, f3]
        by_cases hg : g' = 0
        · subst hg
          have hz := hc.ssz
          simp [hz]
        · simp [hg]; exact hc.stk g'
      · show 0 < (s1.stacks.set! 0 fr.prev).size
        rw [hs1]; simp; exact hc.ssz

theorem startLoopW (cx : Cx) (alts : List (List COp)) (hwf : ∀ a, a ∈ alts → WFG 0 a) (fuel : Nat) :
    ∀ (k str : Nat) (st : St) (rc pos : Nat) (st' : St), Clean cx st → str ≤ cx.env.s.size →
      startLoop cx alts fuel k str st = (rc, pos, st') → Clean cx st' := by
  intro k
  induction k with
  | zero =>
    intro str st rc pos st' hc _ h
    simp only [startLoop] at h
    obtain ⟨_, h⟩ := Prod.mk.inj h
    obtain ⟨_, rfl⟩ := Prod.mk.inj h
    exact hc
  | succ k ih =>
    intro str st rc pos st' hc hs h
    simp only [startLoop] at h
    cases hm : matchGroup cx fuel 0 alts 1 1 [] str none st with
    | mk e1 s1 =>
      rw [hm] at h
      simp only [] at h
      have hc1 := root_specW cx fuel alts str st e1 s1 hwf hs hc hm
      by_cases hnx : e1 = NOMATCH ∧ str < cx.env.s.size
      · rw [if_pos hnx] at h
        exact ih (str + 1) s1 rc pos st' hc1 (by omega) h
      · rw [if_neg hnx] at h
        obtain ⟨_, h⟩ := Prod.mk.inj h
        obtain ⟨_, rfl⟩ := Prod.mk.inj h
        exact hc1

/-- **sub-match clause, for the model of `usual_regexec`**: whatever the outcome (match, no match,
or the model's own fuel/step limit), every entry `pmatch[i]`, `i ≥ 1`, is `(-1,-1)` or an ordered
range inside `pmatch[0]`, which ends inside the subject; entries beyond `re_nsub` are `(-1,-1)`;
and once a match has been recorded (`last_endpos` set) `pmatch[0]` is an ordered range inside the
subject. -/
theorem cExec_pmWF (alts : List (List COp)) (hwf : ∀ a, a ∈ alts → WFG 0 a) (nsub : Nat) (nosub : Bool) (e : Env)
    (nmatch budget fuel : Nat) :
    (∀ i, 1 ≤ i → i < (cExec alts nsub nosub e nmatch budget fuel).pm.length →
      EntryOk e.s.size (cExec alts nsub nosub e nmatch budget fuel).pm[0]! (cExec alts nsub nosub e nmatch budget fuel).pm[i]!) ∧
    (∀ i, nsub + 1 ≤ i → i < (cExec alts nsub nosub e nmatch budget fuel).pm.length →
      (cExec alts nsub nosub e nmatch budget fuel).pm[i]! = (-1, -1)) ∧
    ((cExec alts nsub nosub e nmatch budget fuel).last.isSome = true → nosub = false → 0 < nmatch →
      ∃ s0 e0 : Nat, (cExec alts nsub nosub e nmatch budget fuel).pm[0]! = ((s0 : Int), (e0 : Int)) ∧ s0 ≤ e0 ∧ e0 ≤ e.s.size) := by
  obtain ⟨cx, hcx⟩ : ∃ cx : Cx, cx = mkCx e nsub nosub nmatch := ⟨_, rfl⟩
  have hce : cx.env = e := by rw [hcx]; rfl
  obtain ⟨st0, hst0⟩ : ∃ st0 : St, st0 = initSt nsub nosub nmatch budget := ⟨_, rfl⟩
  have hnm : cx.nmatch ≤ nsub + 1 ∧ cx.nmatch ≤ st0.pm.size ∧ (nosub = false → 0 < nmatch → 0 < cx.nmatch) := by
    rw [hcx, hst0]
    simp only [mkCx, initSt]
    cases nosub <;> simp <;> split <;> omega
  have hpm0 : ∀ i, i < st0.pm.size → st0.pm[i]! = (-1, -1) := by
    intro i hi
    rw [hst0] at hi ⊢
    simp only [initSt] at hi ⊢
    simp only [Array.size_replicate] at hi
    simp [Array.getElem!_eq_getD, Array.getD_eq_getD_getElem?, Array.getElem?_replicate, hi]
  have hc0 : Clean cx st0 := by
    refine ⟨?_, by rw [hst0]; simp [initSt], ⟨hnm.2.1, ?_, ?_, ?_⟩⟩
    · intro gno
      rw [hst0]
      simp only [initSt]
      simp only [Array.getElem!_eq_getD, Array.getD_eq_getD_getElem?, Array.getElem?_replicate]
      split <;> rfl
    · intro i _ hi; exact Or.inl (hpm0 i hi)
    · intro i _ hi; exact hpm0 i hi
    · intro hl; rw [hst0] at hl; simp [initSt] at hl
  cases hrun : startLoop cx alts fuel (e.s.size + 1) 0 st0 with
  | mk rc r2 =>
    obtain ⟨pos, st'⟩ := r2
    have hres : cExec alts nsub nosub e nmatch budget fuel =
        { rc := rc, pm := st'.pm.toList, start := pos, last := st'.lastEnd, stepsLeft := st'.budget } := by
      unfold cExec
      rw [← hcx, ← hst0, hrun]
    have hc' := startLoopW cx alts hwf fuel (e.s.size + 1) 0 st0 rc pos st' hc0 (Nat.zero_le _) hrun
    have hget : ∀ i : Nat, st'.pm.toList[i]! = st'.pm[i]! := by
      intro i; simp [Array.getElem!_eq_getD, Array.getD_eq_getD_getElem?]
    rw [hres]
    simp only [Array.length_toList, hget]
    rw [← hce]
    refine ⟨hc'.pm.ent, ?_, ?_⟩
    · intro i hi1 hi2
      exact hc'.pm.tail i (by omega) hi2
    · intro hl hns hn
      exact hc'.pm.head hl (hnm.2.2 hns hn)

/-- the clause in the form of `pmatchOk` (the predicate the check applies to the C output) -/
theorem pmatchOk_of_entries (len nsub : Nat) (pm : List (Int × Int))
    (h0 : ∃ s0 e0 : Nat, pm[0]! = ((s0 : Int), (e0 : Int)) ∧ s0 ≤ e0 ∧ e0 ≤ len)
    (h1 : ∀ i, 1 ≤ i → i < pm.length → EntryOk len pm[0]! pm[i]!)
    (h2 : ∀ i, nsub + 1 ≤ i → i < pm.length → pm[i]! = (-1, -1)) :
    pmatchOk len nsub pm = true := by
  cases pm with
  | nil => rfl
  | cons p0 rest =>
    obtain ⟨s0, e0, hp0, hse, hel⟩ := h0
    simp only [List.getElem!_cons_zero] at hp0
    subst hp0
    simp only [pmatchOk, Bool.and_eq_true, decide_eq_true_eq, List.all_eq_true]
    refine ⟨⟨⟨by omega, by omega⟩, by omega⟩, ?_⟩
    rintro ⟨⟨so, eo⟩, idx⟩ hx
    have hget : rest[idx]? = some (so, eo) := List.mem_zipIdx_iff_getElem?.mp hx
    have hlt : idx < rest.length := by
      rcases Nat.lt_or_ge idx rest.length with h | h
      · exact h
      · rw [List.getElem?_eq_none h] at hget; cases hget
    have hval : ((((s0 : Int), (e0 : Int)) :: rest)[idx + 1]! : Int × Int) = (so, eo) := by
      rw [List.getElem!_cons_succ, List.getElem!_eq_getElem?_getD, hget]; rfl
    have hent := h1 (idx + 1) (by omega) (by simp; omega)
    rw [hval] at hent
    simp only [List.getElem!_cons_zero] at hent
    simp only [Bool.or_eq_true, Bool.and_eq_true, beq_iff_eq, decide_eq_true_eq]
    rcases hent with hu | ⟨a0, b0, c, d, ha, hb, k1, k2, k3, k4⟩
    · left
      cases hu
      exact ⟨rfl, rfl⟩
    · right
      have hns : idx + 1 ≤ nsub := by
        rcases Nat.lt_or_ge nsub (idx + 1) with hh | hh
        · have := h2 (idx + 1) (by omega) (by simp; omega)
          rw [hval, hb] at this
          have h3 := (Prod.mk.inj this).1
          omega
        · exact hh
      obtain ⟨rfl, rfl⟩ := Prod.mk.inj hb
      obtain ⟨q1, q2⟩ := Prod.mk.inj ha
      refine ⟨⟨⟨hns, ?_⟩, ?_⟩, ?_⟩ <;> omega

end Usual.C04.CM
