import UsualProofs.C04.Ends
/-! Helper lemmas for C04: the iteration discipline of `match_gend` (one more repeat / exit, the
`minok` rule, zero-length pruning) accepts exactly `mn … mx` iterations of the body relation. -/
set_option linter.unusedSimpArgs false
set_option linter.unusedVariables false
namespace Usual.C04

/-- what `match_gend` accepts from the end `p` of iteration number `c` (started at `s`) -/
inductive RepsM (B : Nat → Nat → Prop) (mn mx : Nat) : Nat → Nat → Bool → Nat → Nat → Prop
  | more {c s : Nat} {minok : Bool} {p q m : Nat} : ¬ (p = s ∧ 0 < c ∧ mn ≤ c) → c + 1 < mx →
      (p ≠ s ∨ (c + 1 < mn ∧ minok = false)) → B p q → RepsM B mn mx (c + 1) p (minok || (p == s)) q m →
      RepsM B mn mx c s minok p m
  | exit {c s : Nat} {minok : Bool} {p : Nat} : ¬ (p = s ∧ 0 < c ∧ mn ≤ c) → (p = s ∨ minok = true ∨ mn ≤ c + 1) →
      RepsM B mn mx c s minok p p

/-- what `match_group` + `match_gend` accept for the whole repeated group from `p` -/
def RepC (B : Nat → Nat → Prop) (mn mx p m : Nat) : Prop :=
  (0 < mx ∧ ∃ q, B p q ∧ RepsM B mn mx 0 p false q m) ∨ (mn = 0 ∧ m = p)

theorem Iter.snoc {P : Nat → Nat → Prop} {c i k j : Nat} (h : Iter P c i k) (hk : P k j) : Iter P (c + 1) i j := by
  induction h with
  | zero i => exact Iter.succ hk (Iter.zero _)
  | succ h1 _ ih => exact Iter.succ h1 (ih hk)

theorem Iter.append {P : Nat → Nat → Prop} {a b i k j : Nat} (h1 : Iter P a i k) (h2 : Iter P b k j) :
    Iter P (a + b) i j := by
  induction h1 with
  | zero i => simpa using h2
  | @succ c i k j hs _ ih =>
    have := Iter.succ hs (ih h2)
    rw [show c + 1 + b = c + b + 1 by omega]
    exact this

theorem Iter.loop {P : Nat → Nat → Prop} {t : Nat} (h : P t t) : ∀ k, Iter P k t t := by
  intro k
  induction k with
  | zero => exact Iter.zero _
  | succ k ih => exact Iter.succ h ih

/-- every number of iterations from `L` on reaches `x` -/
def AllLen (B : Nat → Nat → Prop) (p0 x L : Nat) : Prop := ∀ n, L ≤ n → Iter B n p0 x

theorem AllLen.of_empty {B : Nat → Nat → Prop} {p0 s c : Nat} (h : Iter B c p0 s) (he : B s s) : AllLen B p0 s c := by
  intro n hn
  have := Iter.append h (Iter.loop he (n - c))
  rw [show c + (n - c) = n by omega] at this
  exact this

theorem AllLen.step {B : Nat → Nat → Prop} {p0 x y L : Nat} (h : AllLen B p0 x L) (hs : B x y) :
    AllLen B p0 y (L + 1) := by
  intro n hn
  obtain ⟨n', rfl⟩ : ∃ n', n = n' + 1 := ⟨n - 1, by omega⟩
  exact Iter.snoc (h n' (by omega)) hs

/-! ## soundness: what is accepted is `mn … mx` iterations -/

theorem RepsM.sound {B : Nat → Nat → Prop} {mn mx : Nat} (hmm : mn ≤ mx) {p0 : Nat} :
    ∀ {c s : Nat} {minok : Bool} {p m : Nat}, RepsM B mn mx c s minok p m →
      Iter B c p0 s → B s p → (minok = true → AllLen B p0 s c) → c < mx →
      ∃ n, mn ≤ n ∧ n ≤ mx ∧ Iter B n p0 m := by
  intro c s minok p m h
  induction h with
  | @more c s minok p q m hnp hlt hcond hB _ ih =>
    intro hit hsp hall hc
    apply ih (Iter.snoc hit hsp) hB ?_ hlt
    intro hm
    simp only [Bool.or_eq_true, beq_iff_eq] at hm
    rcases hm with hm | hm
    · exact (hall hm).step hsp
    · subst hm
      exact (AllLen.of_empty hit hsp).step hsp
  | @exit c s minok p hnp hex =>
    intro hit hsp hall hc
    by_cases hge : mn ≤ c + 1
    · exact ⟨c + 1, hge, by omega, Iter.snoc hit hsp⟩
    · have hal : AllLen B p0 p (c + 1) := by
        rcases hex with h | h | h
        · subst h; exact (AllLen.of_empty hit hsp).step hsp
        · exact (hall h).step hsp
        · exact absurd h hge
      exact ⟨mn, Nat.le_refl _, hmm, hal mn (by omega)⟩

theorem RepC.sound {B : Nat → Nat → Prop} {mn mx p m : Nat} (hmm : mn ≤ mx) (h : RepC B mn mx p m) :
    ∃ n, mn ≤ n ∧ n ≤ mx ∧ Iter B n p m := by
  rcases h with ⟨hmx, q, hB, hr⟩ | ⟨h0, rfl⟩
  · exact hr.sound hmm (Iter.zero p) hB (fun h => by cases h) hmx
  · exact ⟨0, by omega, Nat.zero_le _, Iter.zero _⟩

/-! ## completeness -/

/-- iterations that all consume something -/
def NE (B : Nat → Nat → Prop) : Nat → Nat → Prop := fun a b => B a b ∧ a < b

theorem dropAll {B : Nat → Nat → Prop} (hmono : ∀ a b, B a b → a ≤ b) {n p m : Nat} (h : Iter B n p m) :
    ∃ k, k ≤ n ∧ Iter (NE B) k p m := by
  induction h with
  | zero i => exact ⟨0, Nat.le_refl _, Iter.zero _⟩
  | @succ c i k j h1 _ ih =>
    obtain ⟨k', hk', hit⟩ := ih
    by_cases he : i = k
    · subst he; exact ⟨k', by omega, hit⟩
    · exact ⟨k' + 1, by omega, Iter.succ ⟨h1, by have := hmono _ _ h1; omega⟩ hit⟩

/-- either no iteration is empty, or there is a first empty one -/
theorem firstEmpty {B : Nat → Nat → Prop} (hmono : ∀ a b, B a b → a ≤ b) {n p m : Nat} (h : Iter B n p m) :
    Iter (NE B) n p m ∨ ∃ t x r, Iter (NE B) t p x ∧ B x x ∧ Iter B r x m ∧ t + 1 + r = n := by
  induction h with
  | zero i => exact Or.inl (Iter.zero _)
  | @succ c i k j h1 h2 ih =>
    by_cases he : i = k
    · subst he
      exact Or.inr ⟨0, i, c, Iter.zero _, h1, h2, by omega⟩
    · have hne : NE B i k := ⟨h1, by have := hmono _ _ h1; omega⟩
      rcases ih with ih | ⟨t, x, r, i1, i2, i3, i4⟩
      · exact Or.inl (Iter.succ hne ih)
      · exact Or.inr ⟨t + 1, x, r, Iter.succ hne i1, i2, i3, by omega⟩

theorem NE.len_le {B : Nat → Nat → Prop} {k p m : Nat} (h : Iter (NE B) k p m) : p + k ≤ m := by
  induction h with
  | zero i => omega
  | succ h1 _ ih => have := h1.2; omega

/-- a run of non-empty iterations after a non-empty one, ending with an allowed exit -/
theorem RepsM.ofNE {B : Nat → Nat → Prop} {mn mx : Nat} : ∀ {r : Nat} {c s : Nat} {minok : Bool} {p m : Nat},
    Iter (NE B) r p m → p ≠ s → c + 1 + r ≤ mx → (minok = true ∨ mn ≤ c + 1 + r) → RepsM B mn mx c s minok p m := by
  intro r
  induction r with
  | zero =>
    intro c s minok p m h hps hc hex
    have := Iter.zero_iff.mp h
    subst this
    exact RepsM.exit (fun hh => hps hh.1) (by rcases hex with h | h; exact Or.inr (Or.inl h); exact Or.inr (Or.inr (by omega)))
  | succ r ih =>
    intro c s minok p m h hps hc hex
    obtain ⟨q, hq, hit⟩ := Iter.succ_iff.mp h
    have hbf : (p == s) = false := by simpa using hps
    refine RepsM.more (fun hh => hps hh.1) (by omega) (Or.inl hps) hq.1 ?_
    rw [hbf, Bool.or_false]
    exact ih hit (by have := hq.2; omega) (by omega) (by rcases hex with h | h; exact Or.inl h; exact Or.inr (by omega))

/-- going back over a non-empty iteration -/
theorem RepsM.back {B : Nat → Nat → Prop} {mn mx : Nat} : ∀ {t : Nat} {c s : Nat} {minok : Bool} {p x m : Nat},
    Iter (NE B) t p x → p ≠ s → c + t + 1 < mx ∨ t = 0 →
    (∀ s', x ≠ s' ∨ t = 0 → RepsM B mn mx (c + t) (if t = 0 then s else s') minok x m) →
    RepsM B mn mx c s minok p m := by
  intro t
  induction t with
  | zero =>
    intro c s minok p x m h hps _ hk
    have := Iter.zero_iff.mp h
    subst this
    simpa using hk s (Or.inr rfl)
  | succ t ih =>
    intro c s minok p x m h hps hc hk
    obtain ⟨q, hq, hit⟩ := Iter.succ_iff.mp h
    have hbf : (p == s) = false := by simpa using hps
    refine RepsM.more (fun hh => hps hh.1) (by omega) (Or.inl hps) hq.1 ?_
    rw [hbf, Bool.or_false]
    have hqp : q ≠ p := by have := hq.2; omega
    apply ih hit hqp (by omega)
    intro s' hs'
    by_cases ht : t = 0
    · subst ht
      have := Iter.zero_iff.mp hit
      subst this
      have := hk p (Or.inl hqp)
      simpa using this
    · have := hk s' (Or.inl (by rcases hs' with h' | h'; exact h'; exact absurd h' ht))
      simp only [ht, if_false, Nat.succ_ne_zero] at this ⊢
      rw [show c + 1 + t = c + (t + 1) by omega]
      exact this

/-- after the first zero-length iteration (number `c`, below the minimum): non-empty iterations
may follow, and the exit is allowed by `minok` -/
theorem RepsM.afterEmpty {B : Nat → Nat → Prop} {mn mx : Nat} {k2 c x m : Nat}
    (h : Iter (NE B) k2 x m) (hc : c + 1 + k2 ≤ mn) (hmm : mn ≤ mx) : RepsM B mn mx c x false x m := by
  have hnp : ¬ (x = x ∧ 0 < c ∧ mn ≤ c) := by rintro ⟨_, _, h3⟩; omega
  cases k2 with
  | zero =>
    have := Iter.zero_iff.mp h
    subst this
    exact RepsM.exit hnp (Or.inl rfl)
  | succ k2 =>
    obtain ⟨q, hq, hit⟩ := Iter.succ_iff.mp h
    refine RepsM.more hnp (by omega) (Or.inr ⟨by omega, rfl⟩) hq.1 ?_
    have : (false || (x == x)) = true := by simp
    rw [this]
    exact RepsM.ofNE hit (by have := hq.2; omega) (by omega) (Or.inl rfl)

/-- **completeness**: `mn … mx` iterations of the body are accepted (positions are bounded by `N`;
an upper count is either respected or so large that non-empty iterations cannot reach it) -/
theorem RepC.complete {B : Nat → Nat → Prop} {mn mx N : Nat} (hmono : ∀ a b, B a b → a ≤ b)
    (hbound : ∀ a b, B a b → b ≤ N) (hmm : mn ≤ mx) {n p m : Nat} (hp : p ≤ N) (h : Iter B n p m) (hn : mn ≤ n)
    (hH : n ≤ mx ∨ N < mx) : RepC B mn mx p m := by
  have hmN : m ≤ N := Iter.bound hbound h hp
  rcases firstEmpty hmono h with hne | ⟨t, x, r, h1, h2, h3, h4⟩
  · -- no empty iteration at all
    have hkl := NE.len_le hne
    have hnmx : n ≤ mx := by
      rcases hH with h' | h'
      · exact h'
      · omega
    cases n with
    | zero =>
      have := Iter.zero_iff.mp hne
      subst this
      exact Or.inr ⟨by omega, rfl⟩
    | succ n =>
      obtain ⟨q, hq, hit⟩ := Iter.succ_iff.mp hne
      exact Or.inl ⟨by omega, q, hq.1, RepsM.ofNE hit (by have := hq.2; omega) (by omega) (Or.inr (by omega))⟩
  · obtain ⟨k2, hk2, hit2⟩ := dropAll hmono h3
    by_cases hge : mn ≤ t + k2
    · -- enough non-empty iterations: drop every empty one
      have hall : Iter (NE B) (t + k2) p m := Iter.append h1 hit2
      have hkl := NE.len_le hall
      have hkmx : t + k2 ≤ mx := by
        rcases hH with h' | h'
        · omega
        · omega
      cases htk : t + k2 with
      | zero =>
        rw [htk] at hall
        have := Iter.zero_iff.mp hall
        subst this
        exact Or.inr ⟨by omega, rfl⟩
      | succ k =>
        rw [htk] at hall
        obtain ⟨q, hq, hit⟩ := Iter.succ_iff.mp hall
        exact Or.inl ⟨by omega, q, hq.1, RepsM.ofNE hit (by have := hq.2; omega) (by omega) (Or.inr (by omega))⟩
    · -- keep the first empty iteration: it stands for the missing ones
      have hlt : t + 1 + k2 ≤ mn := by omega
      have hae : RepsM B mn mx t x false x m := RepsM.afterEmpty hit2 hlt hmm
      cases t with
      | zero =>
        have := Iter.zero_iff.mp h1
        subst this
        exact Or.inl ⟨by omega, _, h2, hae⟩
      | succ t =>
        obtain ⟨q, hq, hit⟩ := Iter.succ_iff.mp h1
        refine Or.inl ⟨by omega, q, hq.1, ?_⟩
        have hqp : q ≠ p := by have := hq.2; omega
        apply RepsM.back hit hqp (by omega)
        intro s' hs'
        -- at the end `x` of non-empty iteration number `t`: one more (the empty) iteration
        have hxs : x ≠ (if t = 0 then p else s') := by
          by_cases ht : t = 0
          · subst ht
            have := Iter.zero_iff.mp hit
            subst this
            simpa using hqp
          · simp only [ht, if_false]
            rcases hs' with h' | h'
            · exact h'
            · exact absurd h' ht
        have hbf : (x == (if t = 0 then p else s')) = false := by simpa using hxs
        refine RepsM.more (fun hh => hxs hh.1) (by omega) (Or.inl hxs) h2 ?_
        rw [hbf, Bool.or_false, Nat.zero_add]
        exact hae

/-- the iteration discipline of `match_gend` accepts exactly the `mn … mx` fold iterations -/
theorem repC_iff {B : Nat → Nat → Prop} {mn mx N : Nat} (hmono : ∀ a b, B a b → a ≤ b)
    (hbound : ∀ a b, B a b → b ≤ N) (hmm : mn ≤ mx) {p m : Nat} (hp : p ≤ N) (unb : Bool) (hunb : unb = true → N < mx) :
    RepC B mn mx p m ↔ ∃ n, mn ≤ n ∧ (unb = false → n ≤ mx) ∧ Iter B n p m := by
  constructor
  · intro h
    obtain ⟨n, h1, h2, h3⟩ := h.sound hmm
    exact ⟨n, h1, fun _ => h2, h3⟩
  · rintro ⟨n, h1, h2, h3⟩
    apply RepC.complete hmono hbound hmm hp h3 h1
    cases unb with
    | false => exact Or.inl (h2 rfl)
    | true => exact Or.inr (hunb rfl)

end Usual.C04
