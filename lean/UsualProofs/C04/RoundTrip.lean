import Usual.C04.Parse
import UsualProofs.C04.Bracket
/-! Helper lemmas for C04: the parser model inverts the ERE renderer on the bracket-free
fragment `wfE`.  Two layers: the lexer maps the rendered text to the token list `toksE`, and
the token parser maps `toksE r` back to (the case-folded) `r`. -/
set_option linter.unnecessarySimpa false
set_option linter.unusedSimpArgs false

namespace Usual.C04
open Usual.Gen.C04

/-! ## tokens of a tree -/

def quantTok (m : Nat) (n : Option Nat) : Tok :=
  if m = 0 ∧ n = none then .star
  else if m = 1 ∧ n = none then .plus
  else if m = 0 ∧ n = some 1 then .quest
  else .count m n

def toksE (fl : PFlags) : Re → List Tok
  | .empty => []
  | .chr c => [.chr (foldc fl c)]
  | .any => [.dot]
  | .cls bm => [.cls (normCls fl bm)]
  | .bol => [.caret]
  | .eol => [.dollar]
  | .cat a b => toksE fl a ++ toksE fl b
  | .alt a b => toksE fl a ++ .bar :: toksE fl b
  | .rep r m n => toksE fl r ++ [quantTok m n]
  | .group r => .lparen :: (toksE fl r ++ [.rparen])

/-! ## decimal digits -/

theorem toNat_digit (k : Nat) (hk : k < 10) : (UInt8.ofNat (48 + k)).toNat = 48 + k := by
  simp only [UInt8.toNat_ofNat']
  omega

theorem isDigitB_digit (k : Nat) (hk : k < 10) : isDigitB (UInt8.ofNat (48 + k)) = true := by
  simp only [isDigitB, isDigitN, toNat_digit k hk, Bool.and_eq_true, decide_eq_true_eq]
  omega

theorem digitsF_all : ∀ (f n : Nat) (d : UInt8), d ∈ digitsF f n → isDigitB d = true := by
  intro f
  induction f with
  | zero => intro n d h; simp [digitsF] at h
  | succ f ih =>
    intro n d h
    simp only [digitsF] at h
    by_cases hn : n < 10
    · rw [if_pos hn] at h
      have : d = UInt8.ofNat (48 + n) := by simpa using h
      subst this
      exact isDigitB_digit n hn
    · rw [if_neg hn] at h
      rcases List.mem_append.mp h with h | h
      · exact ih _ _ h
      · have : d = UInt8.ofNat (48 + n % 10) := by simpa using h
        subst this
        exact isDigitB_digit _ (Nat.mod_lt _ (by omega))

theorem decVal_append (l : List UInt8) (d : UInt8) : decVal (l ++ [d]) = decVal l * 10 + (d.toNat - 48) := by
  simp [decVal, List.foldl_append]

theorem decVal_digitsF : ∀ (f n : Nat), n < f → decVal (digitsF f n) = n := by
  intro f
  induction f with
  | zero => intro n h; omega
  | succ f ih =>
    intro n h
    simp only [digitsF]
    by_cases hn : n < 10
    · rw [if_pos hn]
      simp only [decVal, List.foldl_cons, List.foldl_nil, toNat_digit n hn]
      omega
    · rw [if_neg hn, decVal_append, ih (n / 10) (by omega), toNat_digit _ (Nat.mod_lt _ (by omega))]
      omega

theorem digitsF_ne_nil (f n : Nat) : digitsF (f + 1) n ≠ [] := by
  simp only [digitsF]
  by_cases hn : n < 10
  · rw [if_pos hn]; simp
  · rw [if_neg hn]; simp

theorem digits_all (n : Nat) (d : UInt8) (h : d ∈ digits n) : isDigitB d = true := digitsF_all _ _ _ h
theorem decVal_digits (n : Nat) : decVal (digits n) = n := decVal_digitsF _ _ (by omega)
theorem digits_ne_nil (n : Nat) : digits n ≠ [] := digitsF_ne_nil _ _

theorem takeWhile_append_stop {p : UInt8 → Bool} : ∀ (l : List UInt8) (c : UInt8) (r : List UInt8),
    (∀ d, d ∈ l → p d = true) → p c = false → (l ++ c :: r).takeWhile p = l := by
  intro l
  induction l with
  | nil => intro c r _ hc; simp [hc]
  | cons x xs ih =>
    intro c r hall hc
    have hx : p x = true := hall x List.mem_cons_self
    simp only [List.cons_append, List.takeWhile_cons, hx, if_true]
    rw [ih c r (fun d hd => hall d (List.mem_cons_of_mem _ hd)) hc]

theorem dropWhile_append_stop {p : UInt8 → Bool} : ∀ (l : List UInt8) (c : UInt8) (r : List UInt8),
    (∀ d, d ∈ l → p d = true) → p c = false → (l ++ c :: r).dropWhile p = c :: r := by
  intro l
  induction l with
  | nil => intro c r _ hc; simp [hc]
  | cons x xs ih =>
    intro c r hall hc
    have hx : p x = true := hall x List.mem_cons_self
    simp only [List.cons_append, List.dropWhile_cons, hx, if_true]
    exact ih c r (fun d hd => hall d (List.mem_cons_of_mem _ hd)) hc

theorem digit_not_space {d : UInt8} (h : isDigitB d = true) : isSpaceB d = false := by
  simp only [isDigitB, isDigitN, Bool.and_eq_true, decide_eq_true_eq] at h
  simp only [isSpaceB, isSpaceN, Bool.or_eq_false_iff, beq_eq_false_iff_ne, ne_eq,
    Bool.and_eq_false_iff, decide_eq_false_iff_not]
  omega

/-- `strtoul` reads back a rendered number that is followed by a non-digit -/
theorem strtoul_digits (m : Nat) (hm : m < 2 ^ 64) (c : UInt8) (r : List UInt8)
    (hc : isDigitB c = false) : strtoul (digits m ++ c :: r) = some (m, c :: r) := by
  obtain ⟨d0, ds, hds⟩ : ∃ d0 ds, digits m = d0 :: ds := by
    cases h : digits m with
    | nil => exact absurd h (digits_ne_nil m)
    | cons d0 ds => exact ⟨d0, ds, rfl⟩
  have hall : ∀ d, d ∈ digits m → isDigitB d = true := digits_all m
  have hd0 : isDigitB d0 = true := hall d0 (by rw [hds]; exact List.mem_cons_self)
  have hsp : isSpaceB d0 = false := digit_not_space hd0
  have h45 : d0 ≠ 45 := by
    rintro rfl
    simp [isDigitB, isDigitN] at hd0
  have h43 : d0 ≠ 43 := by
    rintro rfl
    simp [isDigitB, isDigitN] at hd0
  have hdrop : (digits m ++ c :: r).dropWhile isSpaceB = digits m ++ c :: r := by
    rw [hds]
    simp [hsp]
  have hsign : signOf (digits m ++ c :: r) = (false, digits m ++ c :: r) := by
    rw [hds]
    simp [signOf, h45, h43]
  have htake := takeWhile_append_stop (digits m) c r hall hc
  have hdropd := dropWhile_append_stop (digits m) c r hall hc
  have hne : (digits m).isEmpty = false := by rw [hds]; rfl
  unfold strtoul
  simp only [hdrop, hsign, htake, hdropd, hne, decVal_digits]
  have : ¬ m ≥ 2 ^ 64 := by omega
  simp [this]

theorem strtoul_none_of_nondigit (c : UInt8) (r : List UInt8) (h1 : isSpaceB c = false)
    (h2 : c ≠ 45) (h3 : c ≠ 43) (h4 : isDigitB c = false) : strtoul (c :: r) = none := by
  unfold strtoul
  simp [h1, signOf, h2, h3, h4]

theorem max_count_lt : MAX_COUNT < 2 ^ 64 := by decide

/-- `op_count_full` reads back a rendered interval -/
theorem parseCount_render (m : Nat) (n : Option Nat) (rest : List UInt8) (hok : countOk m n = true) :
    parseCount true (countBody m n ++ 125 :: rest) = .ok (m, n, rest) := by
  have hM := max_count_lt
  have hm : m < MAX_COUNT := by
    simp only [countOk, Bool.and_eq_true, decide_eq_true_eq] at hok
    exact hok.1
  have hb125 : isDigitB 125 = false := by decide
  have hb44 : isDigitB 44 = false := by decide
  cases n with
  | none =>
    have hs : strtoul (digits m ++ 44 :: 125 :: rest) = some (m, 44 :: 125 :: rest) :=
      strtoul_digits m (by omega) 44 _ hb44
    have hn : strtoul (125 :: rest) = none :=
      strtoul_none_of_nondigit 125 rest (by decide) (by decide) (by decide) hb125
    have e : countBody m none ++ 125 :: rest = digits m ++ 44 :: 125 :: rest := by simp [countBody]
    rw [e]
    unfold parseCount
    rw [hs]
    have hu : upperOf m (44 :: 125 :: rest) = (MAX_COUNT, 125 :: rest) := by simp [upperOf, hn]
    simp only [hu]
    have h1 : ¬ m > MAX_COUNT := by omega
    have h2 : ¬ m ≥ MAX_COUNT := by omega
    simp [countTail, h1, h2]
  | some n' =>
    simp only [countOk, Bool.and_eq_true, decide_eq_true_eq] at hok
    obtain ⟨_, hmn, hn'⟩ := hok
    have hs2 : strtoul (digits n' ++ 125 :: rest) = some (n', 125 :: rest) :=
      strtoul_digits n' (by omega) 125 _ hb125
    have h1 : ¬ m > n' := by omega
    have h2 : ¬ n' > MAX_COUNT := by omega
    have h3 : ¬ m ≥ MAX_COUNT := by omega
    have h4 : ¬ n' = MAX_COUNT := by omega
    by_cases heq : n' = m
    · subst heq
      have hne : ¬ (125 : UInt8) = 44 := by decide
      have e : countBody n' (some n') ++ 125 :: rest = digits n' ++ 125 :: rest := by simp [countBody]
      rw [e]
      unfold parseCount
      rw [hs2]
      have hu : upperOf n' (125 :: rest) = (n', 125 :: rest) := by simp [upperOf]
      simp only [hu]
      simp [countTail, h2, h3, h4]
    · have hs : strtoul (digits m ++ 44 :: (digits n' ++ 125 :: rest)) = some (m, 44 :: (digits n' ++ 125 :: rest)) :=
        strtoul_digits m (by omega) 44 _ hb44
      have e : countBody m (some n') ++ 125 :: rest = digits m ++ 44 :: (digits n' ++ 125 :: rest) := by
        simp [countBody, heq]
      rw [e]
      unfold parseCount
      rw [hs]
      have hu : upperOf m (44 :: (digits n' ++ 125 :: rest)) = (n', 125 :: rest) := by simp [upperOf, hs2]
      simp only [hu]
      simp [countTail, h1, h2, h3, h4]

/-! ## lexer -/

/-- `s` lexes to `ts` whatever (sufficient) fuel is supplied -/
def Lexes (fl : PFlags) (s : List UInt8) (ts : List Tok) : Prop :=
  ∀ fuel, s.length ≤ fuel → lexE fl fuel s = ts

theorem lexes_nil (fl : PFlags) : Lexes fl [] [] := by
  intro fuel _
  cases fuel <;> simp [lexE]

/-- a byte that `parse_posix_ext` treats as itself -/
theorem lexes_plain (fl : PFlags) (c : UInt8) (hc : specialE c = false) {rest : List UInt8} {ts : List Tok}
    (h : Lexes fl rest ts) : Lexes fl (c :: rest) (.chr (foldc fl c) :: ts) := by
  intro fuel hf
  cases fuel with
  | zero => simp at hf
  | succ f =>
    simp only [specialE, Bool.or_eq_false_iff, decide_eq_false_iff_not] at hc
    obtain ⟨⟨⟨⟨⟨⟨⟨⟨⟨⟨⟨h1, h2⟩, h3⟩, h4⟩, h5⟩, h6⟩, h7⟩, h8⟩, h9⟩, h10⟩, h11⟩, h12⟩ := hc
    simp only [lexE, if_neg h1, if_neg h2, if_neg h3, if_neg h4, if_neg h5, if_neg h6, if_neg h7, if_neg h8,
      if_neg h9, if_neg h10, if_neg h11, if_neg h12]
    rw [h f (by simpa using hf)]

/-- an escaped special byte -/
theorem lexes_escaped (fl : PFlags) (c : UInt8) (hc : specialE c = true) {rest : List UInt8} {ts : List Tok}
    (h : Lexes fl rest ts) : Lexes fl (92 :: c :: rest) (.chr (foldc fl c) :: ts) := by
  intro fuel hf
  cases fuel with
  | zero => simp at hf
  | succ f =>
    have hrest := h f (by simp at hf; omega)
    simp only [specialE, Bool.or_eq_true, decide_eq_true_eq] at hc
    have hd : isDigitN c.toNat = false ∧ isAlphaN c.toNat = false := by
      rcases hc with ((((((((((( rfl | rfl) | rfl) | rfl) | rfl) | rfl) | rfl) | rfl) | rfl) | rfl) | rfl) | rfl) <;> decide
    have e1 : ¬ (92 : UInt8) = 40 := by decide
    have e2 : ¬ (92 : UInt8) = 41 := by decide
    have e3 : ¬ (92 : UInt8) = 124 := by decide
    have e4 : ¬ (92 : UInt8) = 42 := by decide
    have e5 : ¬ (92 : UInt8) = 63 := by decide
    have e6 : ¬ (92 : UInt8) = 43 := by decide
    have e7 : ¬ (92 : UInt8) = 91 := by decide
    have e8 : ¬ (92 : UInt8) = 123 := by decide
    have e9 : ¬ (92 : UInt8) = 46 := by decide
    have e10 : ¬ (92 : UInt8) = 94 := by decide
    have e11 : ¬ (92 : UInt8) = 36 := by decide
    simp only [lexE, if_neg e1, if_neg e2, if_neg e3, if_neg e4, if_neg e5, if_neg e6, if_neg e7, if_neg e8,
      if_neg e9, if_neg e10, if_neg e11, if_true, hd.1, hd.2, Bool.false_eq_true, if_false, hrest]

theorem lexes_chr (fl : PFlags) (c : UInt8) {rest : List UInt8} {ts : List Tok} (h : Lexes fl rest ts) :
    Lexes fl (renderERE (.chr c) ++ rest) (.chr (foldc fl c) :: ts) := by
  simp only [renderERE]
  by_cases hc : specialE c = true
  · rw [if_pos hc]; exact lexes_escaped fl c hc h
  · rw [if_neg hc]
    exact lexes_plain fl c (by simpa using hc) h

theorem lexes_single (fl : PFlags) (c : UInt8) (t : Tok) {rest : List UInt8} {ts : List Tok}
    (hstep : ∀ f, lexE fl (f + 1) (c :: rest) = t :: lexE fl f rest) (h : Lexes fl rest ts) :
    Lexes fl (c :: rest) (t :: ts) := by
  intro fuel hf
  cases fuel with
  | zero => simp at hf
  | succ f => rw [hstep f, h f (by simpa using hf)]

theorem lexes_lparen (fl : PFlags) {rest ts} (h : Lexes fl rest ts) : Lexes fl (40 :: rest) (.lparen :: ts) :=
  lexes_single fl 40 .lparen (fun f => by simp [lexE]) h
theorem lexes_rparen (fl : PFlags) {rest ts} (h : Lexes fl rest ts) : Lexes fl (41 :: rest) (.rparen :: ts) :=
  lexes_single fl 41 .rparen (fun f => by simp [lexE]) h
theorem lexes_bar (fl : PFlags) {rest ts} (h : Lexes fl rest ts) : Lexes fl (124 :: rest) (.bar :: ts) :=
  lexes_single fl 124 .bar (fun f => by simp [lexE]) h
theorem lexes_star (fl : PFlags) {rest ts} (h : Lexes fl rest ts) : Lexes fl (42 :: rest) (.star :: ts) :=
  lexes_single fl 42 .star (fun f => by simp [lexE]) h
theorem lexes_quest (fl : PFlags) {rest ts} (h : Lexes fl rest ts) : Lexes fl (63 :: rest) (.quest :: ts) :=
  lexes_single fl 63 .quest (fun f => by simp [lexE]) h
theorem lexes_plus (fl : PFlags) {rest ts} (h : Lexes fl rest ts) : Lexes fl (43 :: rest) (.plus :: ts) :=
  lexes_single fl 43 .plus (fun f => by simp [lexE]) h
theorem lexes_dot (fl : PFlags) {rest ts} (h : Lexes fl rest ts) : Lexes fl (46 :: rest) (.dot :: ts) :=
  lexes_single fl 46 .dot (fun f => by simp [lexE]) h
theorem lexes_caret (fl : PFlags) {rest ts} (h : Lexes fl rest ts) : Lexes fl (94 :: rest) (.caret :: ts) :=
  lexes_single fl 94 .caret (fun f => by simp [lexE]) h
theorem lexes_dollar (fl : PFlags) {rest ts} (h : Lexes fl rest ts) : Lexes fl (36 :: rest) (.dollar :: ts) :=
  lexes_single fl 36 .dollar (fun f => by simp [lexE]) h

theorem lexes_count (fl : PFlags) (m : Nat) (n : Option Nat) (hok : countOk m n = true)
    {rest : List UInt8} {ts : List Tok} (h : Lexes fl rest ts) :
    Lexes fl (123 :: (countBody m n ++ 125 :: rest)) (.count m n :: ts) := by
  intro fuel hf
  cases fuel with
  | zero => simp at hf
  | succ f =>
    have hrest := h f (by simp at hf; omega)
    have hp := parseCount_render m n rest hok
    simp [lexE, hp, hrest]

theorem lexes_quant (fl : PFlags) (m : Nat) (n : Option Nat) (hok : countOk m n = true)
    {rest : List UInt8} {ts : List Tok} (h : Lexes fl rest ts) :
    Lexes fl (quantE m n ++ rest) (quantTok m n :: ts) := by
  unfold quantE quantTok
  by_cases h1 : m = 0 ∧ n = none
  · rw [if_pos h1, if_pos h1]; exact lexes_star fl h
  · rw [if_neg h1, if_neg h1]
    by_cases h2 : m = 1 ∧ n = none
    · rw [if_pos h2, if_pos h2]; exact lexes_plus fl h
    · rw [if_neg h2, if_neg h2]
      by_cases h3 : m = 0 ∧ n = some 1
      · rw [if_pos h3, if_pos h3]; exact lexes_quest fl h
      · rw [if_neg h3, if_neg h3]
        have := lexes_count fl m n hok h
        simpa using this

/-- a bracket expression -/
theorem lexes_cls (fl : PFlags) (bm : Nat) (h256 : bm < 2 ^ 256) (h0 : bm.testBit 0 = false)
    {rest : List UInt8} {ts : List Tok} (h : Lexes fl rest ts) :
    Lexes fl (renderCls bm ++ rest) (.cls (normCls fl bm) :: ts) := by
  intro fuel hf
  cases fuel with
  | zero => simp [renderCls] at hf
  | succ f =>
    have hp := parseClass_clsBody fl bm h256 h0 rest
    have hrest := h f (by simp [renderCls] at hf; omega)
    simp [renderCls, lexE, hp, hrest]

/-- the lexer maps the rendered text of a well-formed tree to its tokens -/
theorem lexes_render (fl : PFlags) : ∀ (r : Re) (lvl : Nat), wfL lvl r = true →
    ∀ {rest : List UInt8} {ts : List Tok}, Lexes fl rest ts →
      Lexes fl (renderERE r ++ rest) (toksE fl r ++ ts) := by
  intro r
  induction r with
  | empty => intro lvl _ rest ts h; simpa [renderERE, toksE] using h
  | chr c => intro lvl _ rest ts h; simpa [toksE] using lexes_chr fl c h
  | any => intro lvl _ rest ts h; simpa [renderERE, toksE] using lexes_dot fl h
  | cls bm =>
    intro lvl hwf rest ts h
    simp only [wfL, Bool.and_eq_true, decide_eq_true_eq, Bool.not_eq_true'] at hwf
    simpa [renderERE, toksE] using lexes_cls fl bm hwf.1 hwf.2 h
  | bol => intro lvl _ rest ts h; simpa [renderERE, toksE] using lexes_caret fl h
  | eol => intro lvl _ rest ts h; simpa [renderERE, toksE] using lexes_dollar fl h
  | cat a b iha ihb =>
    intro lvl hwf rest ts h
    simp only [wfL, Bool.and_eq_true] at hwf
    have := iha 0 hwf.1.2 (ihb 1 hwf.2 h)
    simpa [renderERE, toksE, List.append_assoc] using this
  | alt a b iha ihb =>
    intro lvl hwf rest ts h
    simp only [wfL, Bool.and_eq_true] at hwf
    have := iha 1 hwf.1.2 (lexes_bar fl (ihb 2 hwf.2 h))
    simpa [renderERE, toksE, List.append_assoc] using this
  | rep r m n ih =>
    intro lvl hwf rest ts h
    simp only [wfL, Bool.and_eq_true] at hwf
    have := ih 0 hwf.1.2 (lexes_quant fl m n hwf.2 h)
    simpa [renderERE, toksE, List.append_assoc] using this
  | group r ih =>
    intro lvl hwf rest ts h
    simp only [wfL] at hwf
    have := lexes_lparen fl (ih 3 hwf (lexes_rparen fl h))
    simpa [renderERE, toksE, List.append_assoc] using this

/-! ## token parser -/

def items : Re → List Re
  | .cat a b => a :: items b
  | r => [r]

def branches : Re → List Re
  | .alt a b => a :: branches b
  | r => [r]

theorem items_ne_nil (r : Re) : items r ≠ [] := by
  cases r <;> simp [items]

theorem branches_ne_nil (r : Re) : branches r ≠ [] := by
  cases r <;> simp [branches]

theorem mkCat_items : ∀ r : Re, mkCat (items r) = r := by
  intro r
  induction r with
  | cat a b _ ihb =>
    simp only [items]
    cases hb : items b with
    | nil => exact absurd hb (items_ne_nil b)
    | cons y ys => rw [mkCat, ← hb, ihb]
  | _ => simp [items, mkCat]

theorem mkAlt_branches : ∀ r : Re, mkAlt (branches r) = r := by
  intro r
  induction r with
  | alt a b _ ihb =>
    simp only [branches]
    cases hb : branches b with
    | nil => exact absurd hb (branches_ne_nil b)
    | cons y ys => rw [mkAlt, ← hb, ihb]
  | _ => simp [branches, mkAlt]

theorem prun_cons_ok {ere : Bool} {st st1 : PSt} {t : Tok} (ts : List Tok) (h : pstep ere st t = .ok st1) :
    prun ere st (t :: ts) = prun ere st1 ts := by
  simp [prun, h]

theorem wfL_mono {r : Re} {l l' : Nat} (h : wfL l r = true) (h1 : l ≤ l') (h2 : l' ≤ 2) : wfL l' r = true := by
  cases r with
  | empty => simp [wfL] at h; omega
  | alt a b =>
    simp only [wfL, Bool.and_eq_true, decide_eq_true_eq] at h ⊢
    exact ⟨⟨by omega, h.1.2⟩, h.2⟩
  | cat a b =>
    simp only [wfL, Bool.and_eq_true, decide_eq_true_eq] at h ⊢
    exact ⟨⟨by omega, h.1.2⟩, h.2⟩
  | _ => simpa [wfL] using h

/-- what processing the tokens of a branch does to the parser state -/
def RelA (fl : PFlags) (r : Re) (st st' : PSt) : Prop :=
  st'.stack = st.stack ∧ st'.nsub = st.nsub + r.groups ∧ st'.top.alts = st.top.alts ∧
  st'.top.afterOr = st.top.afterOr ∧ st'.top.cur = (items (foldRe fl r)).reverse ++ st.top.cur ∧
  (r.isAtom = true → st'.gotcnt = false)

/-- what processing the tokens of an alternation does to a frame that starts a branch -/
def RelB (fl : PFlags) (r : Re) (st st' : PSt) : Prop :=
  st'.stack = st.stack ∧ st'.nsub = st.nsub + r.groups ∧ st'.top.cur ≠ [] ∧
  closeFrame st'.top = mkAlt (st.top.alts.reverse ++ branches (foldRe fl r))

def StepsTo (fl : PFlags) (r : Re) (st st' : PSt) : Prop :=
  ∀ ts, prun true st (toksE fl r ++ ts) = prun true st' ts

theorem relB_of_relA {fl : PFlags} {r : Re} {st st' : PSt} (hcur : st.top.cur = [])
    (hbr : branches (foldRe fl r) = [foldRe fl r])
    (h : RelA fl r st st') : RelB fl r st st' := by
  obtain ⟨h1, h2, h3, _, h5, _⟩ := h
  refine ⟨h1, h2, ?_, ?_⟩
  · rw [h5, hcur]
    have := items_ne_nil (foldRe fl r)
    simpa using this
  · simp only [closeFrame, h5, hcur, h3, hbr, List.append_nil, List.reverse_reverse, mkCat_items,
      List.reverse_cons]

/-- single push of a leaf item -/
theorem leaf_step (fl : PFlags) (r x : Re) (t : Tok) (htok : toksE fl r = [t]) (hfold : foldRe fl r = x)
    (hitems : items x = [x]) (hg : r.groups = 0)
    (hstep : ∀ st, pstep true st t = .ok (push st x)) (st : PSt) :
    ∃ st', StepsTo fl r st st' ∧ RelA fl r st st' := by
  refine ⟨push st x, ?_, ?_⟩
  · intro ts
    rw [htok]
    exact prun_cons_ok ts (hstep st)
  · refine ⟨rfl, by simp [push, hg], rfl, rfl, ?_, fun _ => rfl⟩
    simp [push, hfold, hitems]

theorem quant_step (st : PSt) (x : Re) (xs : List Re) (m : Nat) (n : Option Nat)
    (hcur : st.top.cur = x :: xs) (hg : st.gotcnt = false) (hb : x ≠ .bol) (he : x ≠ .eol) :
    pstep true st (quantTok m n) =
      .ok { st with top := { st.top with cur := .rep x m n :: xs }, gotcnt := true } := by
  have happ : ∀ m n, applyCount st m n =
      .ok { st with top := { st.top with cur := .rep x m n :: xs }, gotcnt := true } := by
    intro m n
    simp [applyCount, hcur, hg, hb, he]
  unfold quantTok
  by_cases h1 : m = 0 ∧ n = none
  · rw [if_pos h1]; obtain ⟨rfl, rfl⟩ := h1; simp [pstep, happ]
  · rw [if_neg h1]
    by_cases h2 : m = 1 ∧ n = none
    · rw [if_pos h2]; obtain ⟨rfl, rfl⟩ := h2; simp [pstep, happ]
    · rw [if_neg h2]
      by_cases h3 : m = 0 ∧ n = some 1
      · rw [if_pos h3]; obtain ⟨rfl, rfl⟩ := h3; simp [pstep, happ]
      · rw [if_neg h3]; simp [pstep, happ]

theorem fold_atom_shape (fl : PFlags) {r : Re} (h : r.isAtom = true) :
    foldRe fl r ≠ .bol ∧ foldRe fl r ≠ .eol ∧ items (foldRe fl r) = [foldRe fl r] := by
  cases r <;> simp [Re.isAtom] at h <;> simp [foldRe, items]

/-- the token parser rebuilds the tree (both grammar levels at once, by induction on the tree) -/
theorem parse_main (fl : PFlags) : ∀ r : Re,
    (wfL 1 r = true → ∀ st : PSt, st.nsub + r.groups + 1 < MAX_GROUPS →
        ∃ st', StepsTo fl r st st' ∧ RelA fl r st st') ∧
    (wfL 2 r = true → ∀ st : PSt, st.nsub + r.groups + 1 < MAX_GROUPS → st.top.cur = [] →
        ∃ st', StepsTo fl r st st' ∧ RelB fl r st st') := by
  intro r
  induction r with
  | empty => exact ⟨fun h => by simp [wfL] at h, fun h => by simp [wfL] at h⟩
  | cls bm =>
    have A : ∀ st : PSt, ∃ st', StepsTo fl (.cls bm) st st' ∧ RelA fl (.cls bm) st st' :=
      leaf_step fl (.cls bm) (.cls (normCls fl bm)) (.cls (normCls fl bm)) rfl rfl rfl rfl (fun st => rfl)
    refine ⟨fun _ st _ => A st, fun _ st _ hcur => ?_⟩
    obtain ⟨st', h1, h2⟩ := A st
    exact ⟨st', h1, relB_of_relA hcur rfl h2⟩
  | chr c =>
    have A : ∀ st : PSt, ∃ st', StepsTo fl (.chr c) st st' ∧ RelA fl (.chr c) st st' :=
      leaf_step fl (.chr c) (.chr (foldc fl c)) (.chr (foldc fl c)) rfl rfl rfl rfl (fun st => rfl)
    refine ⟨fun _ st _ => A st, fun _ st _ hcur => ?_⟩
    obtain ⟨st', h1, h2⟩ := A st
    exact ⟨st', h1, relB_of_relA hcur rfl h2⟩
  | any =>
    have A : ∀ st : PSt, ∃ st', StepsTo fl .any st st' ∧ RelA fl .any st st' :=
      leaf_step fl .any .any .dot rfl rfl rfl rfl (fun st => rfl)
    refine ⟨fun _ st _ => A st, fun _ st _ hcur => ?_⟩
    obtain ⟨st', h1, h2⟩ := A st
    exact ⟨st', h1, relB_of_relA hcur rfl h2⟩
  | bol =>
    have A : ∀ st : PSt, ∃ st', StepsTo fl .bol st st' ∧ RelA fl .bol st st' :=
      leaf_step fl .bol .bol .caret rfl rfl rfl rfl (fun st => rfl)
    refine ⟨fun _ st _ => A st, fun _ st _ hcur => ?_⟩
    obtain ⟨st', h1, h2⟩ := A st
    exact ⟨st', h1, relB_of_relA hcur rfl h2⟩
  | eol =>
    have A : ∀ st : PSt, ∃ st', StepsTo fl .eol st st' ∧ RelA fl .eol st st' :=
      leaf_step fl .eol .eol .dollar rfl rfl rfl rfl (fun st => rfl)
    refine ⟨fun _ st _ => A st, fun _ st _ hcur => ?_⟩
    obtain ⟨st', h1, h2⟩ := A st
    exact ⟨st', h1, relB_of_relA hcur rfl h2⟩
  | cat a b iha ihb =>
    have A : wfL 1 (.cat a b) = true → ∀ st : PSt, st.nsub + (Re.cat a b).groups + 1 < MAX_GROUPS →
        ∃ st', StepsTo fl (.cat a b) st st' ∧ RelA fl (.cat a b) st st' := by
      intro hwf st hb
      simp only [wfL, Bool.and_eq_true] at hwf
      simp only [Re.groups] at hb
      obtain ⟨st1, s1, a1, a2, a3, a4, a5, _⟩ := iha.1 (wfL_mono hwf.1.2 (by omega) (by omega)) st (by omega)
      obtain ⟨st2, s2, b1, b2, b3, b4, b5, _⟩ := ihb.1 hwf.2 st1 (by omega)
      have hita : items (foldRe fl a) = [foldRe fl a] := by
        have := hwf.1.2
        cases a <;> simp [wfL] at this <;> simp [foldRe, items]
      refine ⟨st2, ?_, ?_⟩
      · intro ts
        simp only [toksE, List.append_assoc]
        rw [s1, s2]
      · refine ⟨by rw [b1, a1], by simp only [Re.groups]; omega, by rw [b3, a3], by rw [b4, a4], ?_,
          fun h => by simp [Re.isAtom] at h⟩
        rw [b5, a5, hita]
        simp [foldRe, items]
    refine ⟨A, fun hwf st hb hcur => ?_⟩
    have hwf1 : wfL 1 (.cat a b) = true := by
      simp only [wfL, Bool.and_eq_true, decide_eq_true_eq] at hwf ⊢
      exact ⟨⟨by omega, hwf.1.2⟩, hwf.2⟩
    obtain ⟨st', h1, h2⟩ := A hwf1 st hb
    exact ⟨st', h1, relB_of_relA hcur (by simp [foldRe, branches]) h2⟩
  | alt a b iha ihb =>
    refine ⟨fun h => by simp [wfL] at h, fun hwf st hb hcur => ?_⟩
    simp only [wfL, Bool.and_eq_true] at hwf
    simp only [Re.groups] at hb
    obtain ⟨st1, s1, a1, a2, a3, a4, a5, _⟩ := iha.1 hwf.1.2 st (by omega)
    -- the `|` step
    have hne : st1.top.cur ≠ [] := by
      rw [a5]
      intro h
      have := items_ne_nil (foldRe fl a)
      simp at h
      exact this h.1
    let st2 : PSt := { st1 with top := { alts := mkCat st1.top.cur.reverse :: st1.top.alts, cur := [], afterOr := true },
                                gotcnt := false }
    have hbar : pstep true st1 .bar = .ok st2 := by
      have : st1.top.cur.isEmpty = false := by
        cases h : st1.top.cur with
        | nil => exact absurd h hne
        | cons _ _ => rfl
      simp [pstep, this, st2]
    obtain ⟨st3, s3, c1, c2, c3, c4⟩ := ihb.2 hwf.2 st2 (by simp [st2]; omega) rfl
    refine ⟨st3, ?_, ?_⟩
    · intro ts
      simp only [toksE, List.append_assoc, List.cons_append]
      rw [s1, prun_cons_ok _ hbar, s3]
    · refine ⟨by rw [c1]; simp [st2, a1], by rw [c2]; simp [st2, a2, Re.groups]; omega, c3, ?_⟩
      rw [c4]
      simp only [st2, a5, hcur, List.append_nil, List.reverse_reverse, mkCat_items, a3, List.reverse_cons,
        List.append_assoc, List.singleton_append, foldRe, branches]
  | rep r m n ih =>
    have A : wfL 1 (.rep r m n) = true → ∀ st : PSt, st.nsub + (Re.rep r m n).groups + 1 < MAX_GROUPS →
        ∃ st', StepsTo fl (.rep r m n) st st' ∧ RelA fl (.rep r m n) st st' := by
      intro hwf st hb
      simp only [wfL, Bool.and_eq_true] at hwf
      simp only [Re.groups] at hb
      obtain ⟨st1, s1, a1, a2, a3, a4, a5, a6⟩ := ih.1 (wfL_mono hwf.1.2 (by omega) (by omega)) st hb
      obtain ⟨f1, f2, f3⟩ := fold_atom_shape fl hwf.1.1
      rw [f3] at a5
      have hq := quant_step st1 (foldRe fl r) st.top.cur m n (by simpa using a5) (a6 hwf.1.1) f1 f2
      refine ⟨{ st1 with top := { st1.top with cur := .rep (foldRe fl r) m n :: st.top.cur }, gotcnt := true }, ?_, ?_⟩
      · intro ts
        simp only [toksE, List.append_assoc, List.singleton_append]
        rw [s1, prun_cons_ok _ hq]
      · refine ⟨a1, by simpa [Re.groups] using a2, a3, a4, ?_, fun h => by simp [Re.isAtom] at h⟩
        simp [foldRe, items]
    refine ⟨A, fun hwf st hb hcur => ?_⟩
    have hwf1 : wfL 1 (.rep r m n) = true := by simpa [wfL] using hwf
    obtain ⟨st', h1, h2⟩ := A hwf1 st hb
    exact ⟨st', h1, relB_of_relA hcur (by simp [foldRe, branches]) h2⟩
  | group r ih =>
    have A : wfL 1 (.group r) = true → ∀ st : PSt, st.nsub + (Re.group r).groups + 1 < MAX_GROUPS →
        ∃ st', StepsTo fl (.group r) st st' ∧ RelA fl (.group r) st st' := by
      intro hwf st hb
      simp only [wfL] at hwf
      simp only [Re.groups] at hb
      let st0 : PSt := { top := {}, stack := st.top :: st.stack, gotcnt := false, nsub := st.nsub + 1 }
      have hl : pstep true st .lparen = .ok st0 := by
        have : ¬ st.nsub + 1 ≥ MAX_GROUPS := by omega
        simp [pstep, this, st0]
      -- body: empty, or an alternation
      have hbody : ∃ st1, (∀ ts, prun true st0 (toksE fl r ++ ts) = prun true st1 ts) ∧
          st1.stack = st.top :: st.stack ∧ st1.nsub = st.nsub + 1 + r.groups ∧ branchBad st1.top = false ∧
          closeFrame st1.top = foldRe fl r := by
        by_cases hr : r = .empty
        · subst hr
          exact ⟨st0, fun ts => by simp [toksE], rfl, by simp [st0, Re.groups], by simp [st0, branchBad],
            by simp [st0, closeFrame, mkCat, mkAlt, foldRe]⟩
        · have hwf2 : wfL 2 r = true := by
            cases r with
            | empty => exact absurd rfl hr
            | alt a b => simpa [wfL] using hwf
            | cat a b => simpa [wfL] using hwf
            | _ => simpa [wfL] using hwf
          obtain ⟨st1, s1, c1, c2, c3, c4⟩ := ih.2 hwf2 st0 (by simp [st0]; omega) rfl
          refine ⟨st1, s1, by rw [c1], by rw [c2], ?_, ?_⟩
          · cases h : st1.top.cur with
            | nil => exact absurd h c3
            | cons _ _ => simp [branchBad, h]
          · rw [c4]
            simp [st0, mkAlt_branches]
      obtain ⟨st1, s1, d1, d2, d3, d4⟩ := hbody
      let st2 : PSt := { top := { st.top with cur := .group (foldRe fl r) :: st.top.cur }, stack := st.stack,
                          gotcnt := false, nsub := st1.nsub }
      have hr : pstep true st1 .rparen = .ok st2 := by
        simp [pstep, d1, d3, d4, st2]
      refine ⟨st2, ?_, ?_⟩
      · intro ts
        simp only [toksE, List.cons_append, List.append_assoc, List.singleton_append]
        rw [prun_cons_ok _ hl, s1, prun_cons_ok _ hr]
        simp
      · refine ⟨rfl, by simp [st2, d2, Re.groups]; omega, rfl, rfl, by simp [st2, foldRe, items], fun _ => rfl⟩
    refine ⟨A, fun hwf st hb hcur => ?_⟩
    have hwf1 : wfL 1 (.group r) = true := by simpa [wfL] using hwf
    obtain ⟨st', h1, h2⟩ := A hwf1 st hb
    exact ⟨st', h1, relB_of_relA hcur (by simp [foldRe, branches]) h2⟩

theorem render_ne_nil : ∀ (r : Re) (lvl : Nat), lvl ≤ 2 → wfL lvl r = true → renderERE r ≠ [] := by
  intro r
  induction r with
  | empty => intro lvl h hwf; simp [wfL] at hwf; omega
  | chr c => intro lvl _ _; simp only [renderERE]; split <;> simp
  | any => intro lvl _ _; simp [renderERE]
  | cls bm => intro lvl _ _; simp [renderERE, renderCls]
  | bol => intro lvl _ _; simp [renderERE]
  | eol => intro lvl _ _; simp [renderERE]
  | cat a b iha _ =>
    intro lvl _ hwf
    simp only [wfL, Bool.and_eq_true] at hwf
    have := iha 0 (by omega) hwf.1.2
    simp [renderERE, this]
  | alt a b _ _ => intro lvl _ _; simp [renderERE]
  | rep r m n ih =>
    intro lvl _ hwf
    simp only [wfL, Bool.and_eq_true] at hwf
    have := ih 0 (by omega) hwf.1.2
    simp [renderERE, this]
  | group r _ => intro lvl _ _; simp [renderERE]

/-- parse ∘ render on the bracket-free ERE fragment -/
theorem parseERE_renderERE (fl : PFlags) (r : Re) (h : wfE r = true) :
    parseERE fl (renderERE r) = .ok (foldRe fl r, r.groups) := by
  simp only [wfE, Bool.and_eq_true, decide_eq_true_eq] at h
  obtain ⟨hwf, hg⟩ := h
  have hne : (renderERE r).isEmpty = false := by
    cases hr : renderERE r with
    | nil => exact absurd hr (render_ne_nil r 2 (by omega) hwf)
    | cons _ _ => rfl
  have hlex : lexE fl (renderERE r).length (renderERE r) = toksE fl r := by
    have := lexes_render fl r 2 hwf (lexes_nil fl) (renderERE r ++ []).length (Nat.le_refl _)
    simpa using this
  obtain ⟨st', s, b1, b2, b3, b4⟩ := (parse_main fl r).2 hwf {} (by simpa using hg) rfl
  have hrun : prun true {} (toksE fl r) = .ok st' := by
    have := s []
    simpa [prun] using this
  have hbad : branchBad st'.top = false := by
    cases h : st'.top.cur with
    | nil => exact absurd h b3
    | cons _ _ => simp [branchBad, h]
  have hstack : st'.stack.isEmpty = true := by rw [b1]; rfl
  simp only [parseERE, hne, hlex, parseToks, hrun, pfinish, hstack, hbad]
  simp [b4, b2, mkAlt_branches]

/-- without compile flags nothing is folded: the stored tree is the tree itself -/
theorem foldRe_noflags : ∀ (r : Re) (lvl : Nat), wfL lvl r = true → foldRe {} r = r := by
  intro r
  induction r with
  | chr c => intro lvl _; simp [foldRe, foldc]
  | cls bm =>
    intro lvl h
    simp only [wfL, Bool.and_eq_true, decide_eq_true_eq, Bool.not_eq_true'] at h
    simp only [foldRe, normCls_noflags bm h.1 h.2]
  | cat a b iha ihb =>
    intro lvl h
    simp only [wfL, Bool.and_eq_true] at h
    simp only [foldRe, iha 0 h.1.2, ihb 1 h.2]
  | alt a b iha ihb =>
    intro lvl h
    simp only [wfL, Bool.and_eq_true] at h
    simp only [foldRe, iha 1 h.1.2, ihb 2 h.2]
  | rep r m n ih =>
    intro lvl h
    simp only [wfL, Bool.and_eq_true] at h
    simp only [foldRe, ih 0 h.1.2]
  | group r ih =>
    intro lvl h
    simp only [wfL] at h
    simp only [foldRe, ih 3 h]
  | _ => intro lvl _; rfl

end Usual.C04
